(* Reflection instances for C19 over the tables regenerated from the source on this run. *)
From Coq Require Import QArith List Bool.
From MV Require Import Geometry.Radii Reflect.RadiiReflect.
From MVD Require Import Generated.RadiiGen.
Lemma presets_check_ok : presets_check preset_table ref_covalent ref_vdw = true.
Proof. vm_compute. reflexivity. Qed.
Lemma covalent_check_ok : covalent_check preset_table ref_covalent = true.
Proof. vm_compute. reflexivity. Qed.
Lemma fallback_example :
  get ref_vdw 61 = None /\ fl_eqb (get (preset_table VdwCovalent) 61) (get ref_covalent 61) = true
  /\ positive_finite (get ref_covalent 61) = true.
Proof. vm_compute. auto. Qed.

(* printed for the harness when an instance above fails: the atomic numbers that fail *)
