(* C05/C06: instantiation of the ground-state and congruence theorems on every regenerated table. *)
From Coq Require Import ZArith List String Bool Lia Permutation.
Import ListNotations.
From MV Require Import Symmetry.Table Symmetry.Affine Symmetry.GroundState Symmetry.GroundStateProofs
  Symmetry.GroundStateInvariance Symmetry.Congruence
  Reflect.GroupChecks Reflect.GroupChecksProofs Reflect.NormChecks Reflect.NormChecksProofs
  Reflect.GroundChecks Reflect.GroundChecksProofs.
From MVD Require Import Generated.SGAll Generated.RefSpglib Generated.ChkAll Inst.C14Inst.
Open Scope Z_scope.

Definition isometries_all := from_Forall _ all_isometries_ok.
Definition perm_inverses_all := from_Forall _ all_perm_inverses_ok.
Definition letter_codes_all := from_Forall _ all_letter_codes_ok.

Lemma group_isometries t tr ws gp :
  In t tables -> conv_trans t = Some tr -> conv_wycks t = Some ws -> general_position ws = Some gp ->
  (forall g b, In g (group_ops tr gp) -> In b (metric_basis (sg_num t)) -> mmul (mtrans (fst g)) (mmul b (fst g)) = b)
  /\ (forall g, In g (group_ops tr gp) -> exists gi, In gi (group_ops tr gp) /\ op_compose g gi = idop /\ op_compose gi g = idop).
Proof.
  intros Ht Htr Hws Hgp. pose proof (isometries_all t Ht) as H. unfold chk_group_isometries, with_table in H.
  rewrite Htr, Hws, Hgp in H. apply andb_true_iff in H. destruct H as [H1 H2]. split.
  - intros g b Hg Hb. rewrite forallb_forall in H1. apply (preserves_metric_sound _ _ (H1 g Hg) b Hb).
  - apply group_inverses_sound. exact H2.
Qed.

(* the conventional structure is the image of the standardized one under a tabulated normalizer; that
   image is closed under the same group, and is the image under a PROPER isometry of every lattice of
   the crystal system *)
Theorem conventional_congruent t tr ws gp k rn cs :
  In t tables -> conv_trans t = Some tr -> conv_wycks t = Some ws -> general_position ws = Some gp ->
  nth_error (sg_norms t) k = Some rn -> nth_error (certs_of (sg_num t)) k = Some cs ->
  exists n, norm_to_op rn = Some n /\
    forall (P : Type) (ok : P -> Prop) (app : op -> P -> P),
      (forall a b p, app (op_compose a b) p = app a (app b p)) ->
      (forall g p, ok (app g p)) -> (forall p, ok p -> app idop p = p) ->
      forall S : P -> Z -> Prop,
        wf P ok S -> closed_under_G P app (group_ops tr gp) S ->
        closed_under_G P app (group_ops tr gp) (image P app n S)
        /\ exists m, mdet (fst m) = 1
             /\ (forall b, In b (metric_basis (sg_num t)) -> mmul (mtrans (fst m)) (mmul b (fst m)) = b)
             /\ (forall q z, image P app n S q z <-> image P app m S q z).
Proof.
  intros Ht Htr Hws Hgp Hrn Hcs.
  destruct (normalizer_semantics t tr ws gp k rn cs Ht Htr Hws Hgp Hrn Hcs) as [n [En [Hdet [[Hni [_ Hnorm]] [Hmet [Hhand _]]]]]].
  destruct (group_semantics t tr ws gp Ht Htr Hws Hgp) as [_ [_ [_ [_ HGdet]]]].
  destruct (group_isometries t tr ws gp Ht Htr Hws Hgp) as [HGmet HGinv].
  exists n. split; [exact En|]. intros P ok app Hc Hok Hid S Hwf Hcl. split.
  - apply (image_closed P ok app Hc Hok Hid (group_ops tr gp) n S Hni); [|exact Hcl].
    intros g Hg. exact (proj2 (Hnorm g Hg)).
  - destruct (proper_image P ok app Hc Hid (group_ops tr gp) HGinv n S Hdet Hhand HGdet Hwf Hcl) as [m [Hm [Hform Himg]]].
    exists m. split; [exact Hm|]. split; [|exact Himg].
    intros b Hb. destruct Hform as [->|[g [Hg ->]]]; [apply Hmet; exact Hb|].
    unfold op_compose. simpl. apply metric_product; [apply Hmet; exact Hb | apply HGmet; assumption].
Qed.

(* C06: the chosen count map is independent of the origin-equivalent letter assignment and atom order *)
Theorem ground_state_invariant_all t :
  In t tables -> table_perms t <> [] ->
  forall letters numbers letters' numbers' pi c c',
    In pi (ident_perm (table_letters t) :: table_perms t) -> incl letters (table_letters t) ->
    List.length letters = List.length numbers -> List.length letters' = List.length numbers' ->
    Permutation (combine letters' numbers') (map (fun lz => (hat pi (fst lz), snd lz)) (combine letters numbers)) ->
    ground_state letters numbers (table_perms t) = Chosen c ->
    ground_state letters' numbers' (table_perms t) = Chosen c' ->
    forall w z, count (c_perm c') (combine letters' numbers') w z = count (c_perm c) (combine letters numbers) w z.
Proof.
  intros Ht. apply (table_ground_state_invariant t (certs_of (sg_num t)));
    [apply norms_all | apply perm_inverses_all | apply letter_codes_all]; exact Ht.
Qed.
