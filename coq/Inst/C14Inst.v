(* C14: from the per-group reflection instances (Generated/ChkAll.v) to statements over all tables. *)
From Coq Require Import ZArith List String Bool Lia.
Import ListNotations.
From MV Require Import Symmetry.Table Symmetry.Affine Reflect.GroupChecks Reflect.GroupChecksProofs
  Reflect.NormChecks Reflect.NormChecksProofs Reflect.CertProofs.
From MVD Require Import Generated.SGAll Generated.RefSpglib Generated.ChkAll.
Open Scope Z_scope.

Lemma from_Forall (P : sgtable -> Prop) : Forall P tables -> forall t, In t tables -> P t.
Proof. intros H t Ht. rewrite Forall_forall in H. apply H. exact Ht. Qed.

Definition exprs_all := from_Forall _ all_exprs_ok.
Definition letters_all := from_Forall _ all_letters_ok.
Definition group_all := from_Forall _ all_group_ok.
Definition orbits_all := from_Forall _ all_orbits_ok.
Definition info_all := from_Forall _ all_info_ok.
Definition norms_all := from_Forall _ all_norms_ok.
Definition proper_perms_all := from_Forall _ all_proper_perms_ok.

Lemma group_semantics t tr ws gp :
  In t tables -> conv_trans t = Some tr -> conv_wycks t = Some ws -> general_position ws = Some gp ->
  NoDup (group_ops tr gp)
  /\ In (mid, (0, 0, 0)) (group_ops tr gp)
  /\ (forall a b, In a (group_ops tr gp) -> In b (group_ops tr gp) -> In (op_compose a b) (group_ops tr gp))
  /\ (forall g, In g (group_ops tr gp) <-> In g (ref_of (sg_num t)))
  /\ (forall g, In g (group_ops tr gp) -> mdet (fst g) = 1 \/ mdet (fst g) = -1).
Proof.
  intros Ht Htr Hws Hgp. pose proof (group_all t Ht) as H. unfold chk_group in H.
  rewrite Htr, Hws, Hgp in H. apply chk_group_on_sound. exact H.
Qed.

Lemma tables_convert t : In t tables ->
  exists tr ws gp, conv_trans t = Some tr /\ conv_wycks t = Some ws /\ general_position ws = Some gp.
Proof.
  intros Ht. pose proof (group_all t Ht) as H. unfold chk_group in H.
  destruct (conv_trans t) as [tr|] eqn:E1; [|discriminate].
  destruct (conv_wycks t) as [ws|] eqn:E2; [|discriminate].
  destruct (general_position ws) as [gp|] eqn:E3; [|discriminate].
  exists tr, ws, gp. auto.
Qed.

Lemma orbit_semantics t tr ws gp w :
  In t tables -> conv_trans t = Some tr -> conv_wycks t = Some ws -> general_position ws = Some gp ->
  In w ws ->
  NoDup (full_exprs tr w)
  /\ (forall wv : v3,
        (forall g p, In g (group_ops tr gp) -> In p (map (fun e => aff_eval e wv) (full_exprs tr w)) ->
                     In (op_apply g p) (map (fun e => aff_eval e wv) (full_exprs tr w)))
        /\ (exists e1, hd_error (iw_exprs w) = Some e1 /\
            forall p, In p (map (fun e => aff_eval e wv) (full_exprs tr w)) ->
                      exists g, In g (group_ops tr gp) /\ op_apply g (aff_eval e1 wv) = p)).
Proof.
  intros Ht Htr Hws Hgp Hw. pose proof (orbits_all t Ht) as H. unfold chk_orbits in H.
  rewrite Htr, Hws, Hgp in H. rewrite forallb_forall in H. specialize (H w Hw).
  split; [exact (proj1 (orbit_ok_sound _ _ _ H))|].
  intros wv. exact (orbit_points _ _ _ H wv).
Qed.

Lemma normalizer_semantics t tr ws gp k rn cs :
  In t tables -> conv_trans t = Some tr -> conv_wycks t = Some ws -> general_position ws = Some gp ->
  nth_error (sg_norms t) k = Some rn -> nth_error (certs_of (sg_num t)) k = Some cs ->
  exists n, norm_to_op rn = Some n
    /\ (mdet (fst n) = 1 \/ mdet (fst n) = -1)
    /\ (op_compose n (op_inv n) = idop /\ op_compose (op_inv n) n = idop
        /\ forall g, In g (group_ops tr gp) -> In (op_compose n (op_compose g (op_inv n))) (group_ops tr gp)
                                              /\ In (op_compose (op_inv n) (op_compose g n)) (group_ops tr gp))
    /\ (forall b, In b (metric_basis (sg_num t)) -> mmul (mtrans (fst n)) (mmul b (fst n)) = b)
    /\ (all_proper (group_ops tr gp) = true -> mdet (fst n) = 1)
    /\ perm_wellformed (map iw_letter ws) (n_perm rn) = true
    /\ letters_ok tr ws n (n_perm rn) cs = true.
Proof.
  intros Ht Htr Hws Hgp Hrn Hcs. pose proof (norms_all t Ht) as H. unfold chk_norms, with_table in H.
  rewrite Htr, Hws, Hgp in H. rewrite !andb_true_iff in H. destruct H as [[Hlen Hall] _].
  rewrite forallb_forall in Hall.
  assert (Hin : In (rn, cs) (combine (sg_norms t) (certs_of (sg_num t)))).
  { clear -Hrn Hcs. revert k Hrn Hcs. generalize (certs_of (sg_num t)) as cl. induction (sg_norms t) as [|x xs IH]; intros cl k Hrn Hcs.
    - destruct k; discriminate.
    - destruct cl as [|c cl']; [destruct k; discriminate|]. destruct k as [|k]; simpl in *.
      + inversion Hrn; inversion Hcs; subst. left. reflexivity.
      + right. apply (IH cl' k); assumption. }
  specialize (Hall _ Hin). simpl in Hall. apply norm_ok_parts. exact Hall.
Qed.

(* what the letter clause of a normalizer means: for every letter, the image under n of the family of
   its first representative is, as a set of points for ALL rational parameter values, the family of an
   expression of the tabulated image letter shifted by an integer lattice vector, and conversely *)
Lemma letter_families tr ws n p cs :
  letters_ok tr ws n p cs = true ->
  forall w c, In (w, c) (combine ws cs) ->
    exists l' w' e1 e2, perm_get p (iw_letter w) = Some l' /\ find_wyck ws l' = Some w'
      /\ hd_error (iw_exprs w) = Some e1 /\ nth_error (full_exprs tr w') (lc_j c) = Some e2
      /\ (forall W, exists W', q3eq (aff_evalQ (act n e1) W) (q3add (aff_evalQ e2 W') (z_as_Q (lc_z c))))
      /\ (forall W', exists W, q3eq (q3add (aff_evalQ e2 W') (z_as_Q (lc_z c))) (aff_evalQ (act n e1) W)).
Proof.
  intros H w c Hin. destruct (letters_ok_sound tr ws n p cs H w c Hin) as [l' [w' [e1 [H1 [H2 [H3 H4]]]]]].
  destruct (cert_ok_sound n e1 (full_exprs tr w') c H4) as [e2 [H5 [H6 H7]]].
  exists l', w', e1, e2. auto 10.
Qed.
