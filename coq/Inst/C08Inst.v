(* C08: reflection instance of first_rep_solvable over the 230 regenerated tables, FOR THE RULE AS
   WRITTEN IN THE CURRENT SOURCE (Generated/SolverRule.v is re-translated from the assignment
   statement inside _get_wyckoff_sets on every run), and the table-level corollaries. *)
From Coq Require Import ZArith List String Bool Lia.
Import ListNotations.
From MV Require Import Symmetry.Table Symmetry.Affine Symmetry.ParamSolve Symmetry.ParamSolveProofs
  Reflect.GroupChecks Reflect.GroupChecksProofs Reflect.SolveChecks.
From MVD Require Import Generated.SGAll Generated.ChkAll Generated.SolverRule Inst.C14Inst.
Open Scope Z_scope.

Lemma all_solvable : forallb (chk_solvable read_index_is_component) tables = true.
Proof. vm_compute. reflexivity. Qed.

(* for every table entry: the first representative exists and, for every free variable, the component
   the code reads carries that variable with coefficient 1 and no other variable *)
Lemma first_rep_solvable t ws w :
  In t tables -> conv_wycks t = Some ws -> In w ws ->
  wyck_solvable read_index_is_component w = true.
Proof.
  intros Ht Hws Hw. pose proof all_solvable as H. rewrite forallb_forall in H. specialize (H t Ht).
  unfold chk_solvable in H. rewrite Hws in H. rewrite forallb_forall in H. apply H. exact Hw.
Qed.

(* ... which means: from an atom congruent to e1(v) the code's rule reads v back *)
Lemma first_rep_reads_parameters_back t ws w :
  In t tables -> conv_wycks t = Some ws -> In w ws ->
  exists e1, hd_error (iw_exprs w) = Some e1 /\
    forall (s : Z) (v R : v3),
      (forall i, (i < 3)%nat -> has_var (iw_vars w) i = false -> vget v i = 0) ->
      congV (24 * s) R (eval (aff_scale s e1) v) ->
      congV (24 * s) (solve_W read_index_is_component (iw_vars w) (aff_scale s e1) R) v.
Proof.
  intros Ht Hws Hw. pose proof (first_rep_solvable t ws w Ht Hws Hw) as H. unfold wyck_solvable in H.
  destruct (iw_exprs w) as [|e1 es]; [discriminate|]. exists e1. split; [reflexivity|].
  intros s v R Hv HR. apply entry_solvable_sound; assumption.
Qed.

Lemma solver_complete_on_tables t tr ws w :
  In t tables -> conv_trans t = Some tr -> conv_wycks t = Some ws -> In w ws -> iw_vars w <> [] ->
  forall (s snap : Z) (cs ct : v3 -> v3 -> bool), 0 < s ->
    (forall p a, vmodU (24 * s) p = vmodU (24 * s) a -> cs p a = true) ->
    (forall p a, vmodU (24 * s) p = vmodU (24 * s) a -> ct p a = true) ->
  forall (v : v3) (atoms : list v3),
    (forall i, (i < 3)%nat -> has_var (iw_vars w) i = false -> vget v i = 0) ->
    (forall c e, In c (centrings tr) -> In e (iw_exprs w) ->
       exists a, In a atoms /\ congV (24 * s) a (vadd (eval (aff_scale s e) v) (vscale s c))) ->
    exists e1, hd_error (iw_exprs w) = Some e1
    /\ (exists r, solve_set (24 * s) snap read_index_is_component cs ct (iw_vars w) (entry_of s w) (trans_of s tr) atoms = Some r)
    /\ (forall R rest, atoms = R :: rest -> congV (24 * s) R (eval (aff_scale s e1) v) ->
          solve_set (24 * s) snap read_index_is_component cs ct (iw_vars w) (entry_of s w) (trans_of s tr) atoms
          = Some (report (iw_vars w) (wrapW (24 * s) snap v))).
Proof.
  intros Ht Htr Hws Hw Hne. apply solver_complete_on_entry; [|exact Hne].
  exact (first_rep_solvable t ws w Ht Hws Hw).
Qed.

(* ---- the covering hypothesis from the orbit form (C14.3: the positions of a letter are one orbit of
        the first representative, as affine maps of the parameters) --------------------------------- *)
Lemma scale_mod24 s x : congZ (24 * s) (s * (x mod 24)) (s * x).
Proof. exists (- (x / 24)). pose proof (Z.div_mod x 24 ltac:(lia)). nia. Qed.

Lemma eval_shift_cong s c e v :
  congV (24 * s) (eval (aff_scale s (aff_shift c e)) v) (vadd (eval (aff_scale s e) v) (vscale s c)).
Proof.
  destruct e as [[[[[m11 m12] m13] [[m21 m22] m23]] [[m31 m32] m33]] [[c1 c2] c3]].
  destruct c as [[t1 t2] t3], v as [[v1 v2] v3].
  pose proof (scale_mod24 s (c1 + t1)) as [k1 Hk1]. pose proof (scale_mod24 s (c2 + t2)) as [k2 Hk2].
  pose proof (scale_mod24 s (c3 + t3)) as [k3 Hk3].
  remember (24 * s) as U eqn:EU. clear EU.
  unfold congV, eval, aff_scale, aff_shift, vadd, vscale, v3mod, mod24, mvec, mtrans, mcol, dot3; simpl.
  split; [|split].
  - exists k1. rewrite Hk1. ring.
  - exists k2. rewrite Hk2. ring.
  - exists k3. rewrite Hk3. ring.
Qed.

Lemma solver_complete_on_orbits t tr ws gp w :
  In t tables -> conv_trans t = Some tr -> conv_wycks t = Some ws -> general_position ws = Some gp ->
  In w ws -> iw_vars w <> [] ->
  forall (s snap : Z) (cs ct : v3 -> v3 -> bool), 0 < s ->
    (forall p a, vmodU (24 * s) p = vmodU (24 * s) a -> cs p a = true) ->
    (forall p a, vmodU (24 * s) p = vmodU (24 * s) a -> ct p a = true) ->
  forall (v : v3) (atoms : list v3),
    (forall i, (i < 3)%nat -> has_var (iw_vars w) i = false -> vget v i = 0) ->
  exists e1, hd_error (iw_exprs w) = Some e1 /\
    ((* the set contains the image of the first representative under every operation of the group *)
     (forall g, In g (group_ops tr gp) ->
        exists a, In a atoms /\ congV (24 * s) a (eval (aff_scale s (act g e1)) v)) ->
     exists r, solve_set (24 * s) snap read_index_is_component cs ct (iw_vars w) (entry_of s w) (trans_of s tr) atoms = Some r).
Proof.
  intros Ht Htr Hws Hgp Hw Hne s snap cs ct Hs Hcs Hct v atoms Hv.
  pose proof (orbits_all t Ht) as Ho. unfold chk_orbits in Ho. rewrite Htr, Hws, Hgp in Ho.
  rewrite forallb_forall in Ho. specialize (Ho w Hw).
  destruct (orbit_ok_sound _ _ _ Ho) as [_ [_ [e1 [He1 Horb]]]].
  exists e1. split; [exact He1|]. intros Hcovg.
  destruct (solver_complete_on_tables t tr ws w Ht Htr Hws Hw Hne s snap cs ct Hs Hcs Hct v atoms Hv) as [e1' [_ [Hex _]]]; [|exact Hex].
  intros c e Hc He.
  assert (In (aff_shift c e) (full_exprs tr w)) as Hin.
  { unfold full_exprs. apply in_flat_map. exists c. split; [exact Hc|]. apply in_map. exact He. }
  destruct (Horb _ Hin) as [g [Hg Hge]]. destruct (Hcovg g Hg) as [a [Ha Hcong]].
  exists a. split; [exact Ha|]. rewrite Hge in Hcong.
  eapply congV_trans; [exact Hcong | apply eval_shift_cong].
Qed.

(* success and what it means, together (the end-to-end statement; see Properties/C08.v for what is
   missing from the full property) *)
Lemma parameters_regenerate t tr ws w :
  In t tables -> conv_trans t = Some tr -> conv_wycks t = Some ws -> In w ws -> iw_vars w <> [] ->
  forall (s snap : Z) (cs ct : v3 -> v3 -> bool), 0 < s ->
    (forall p a, vmodU (24 * s) p = vmodU (24 * s) a -> cs p a = true) ->
    (forall p a, vmodU (24 * s) p = vmodU (24 * s) a -> ct p a = true) ->
  forall (v : v3) (atoms : list v3),
    (forall i, (i < 3)%nat -> has_var (iw_vars w) i = false -> vget v i = 0) ->
    (forall c e, In c (centrings tr) -> In e (iw_exprs w) ->
       exists a, In a atoms /\ congV (24 * s) a (vadd (eval (aff_scale s e) v) (vscale s c))) ->
    exists r e1 R W,
      solve_set (24 * s) snap read_index_is_component cs ct (iw_vars w) (entry_of s w) (trans_of s tr) atoms = Some r
      /\ hd_error (entry_of s w) = Some e1 /\ In R atoms
      /\ cs (eval e1 W) R = true
      /\ (exists a, In a atoms /\ ct (eval e1 W) a = true)
      /\ (forall i, (i < 3)%nat -> has_var (iw_vars w) i = false -> vget W i = 0)
      /\ (forall i, (i < 3)%nat ->
            if has_var (iw_vars w) i
            then exists x, xyz_get r i = Some x /\ 0 <= x < 24 * s
                   /\ (x = vget W i mod (24 * s)
                       \/ (x = 0 /\ (vget W i mod (24 * s) < snap \/ 24 * s - vget W i mod (24 * s) < snap)))
            else xyz_get r i = None).
Proof.
  intros Ht Htr Hws Hw Hne s snap cs ct Hs Hcs Hct v atoms Hv Hcov.
  destruct (solver_complete_on_tables t tr ws w Ht Htr Hws Hw Hne s snap cs ct Hs Hcs Hct v atoms Hv Hcov) as [_ [_ [[r Hr] _]]].
  destruct (solver_sound (24 * s) snap read_index_is_component cs ct _ _ _ _ r ltac:(lia) Hne Hr)
    as [e1 [R [W [H1 [H2 [H3 [H4 [_ [H6 [H7 H8]]]]]]]]]].
  exists r, e1, R, W. repeat split; assumption.
Qed.
