(* C07: the general theorems of Symmetry/WyckoffSetsProofs.v and Symmetry/WyckoffOrbit.v instantiated
   with the regenerated space-group tables (through the C14 instances), and non-vacuity examples. *)
From Coq Require Import ZArith List String Bool Lia Permutation Sorted.
Import ListNotations.
From MV Require Import Symmetry.Table Symmetry.Affine Reflect.GroupChecks Reflect.GroupChecksProofs
  Reflect.NormChecks Reflect.NormChecksProofs Symmetry.WyckoffSets Symmetry.WyckoffSetsProofs Symmetry.WyckoffOrbit.
From MVD Require Import Generated.SGAll Generated.RefSpglib Generated.ChkAll Inst.C14Inst.
Open Scope Z_scope.

(* the operations read off a table are stored with translations reduced modulo 1 *)
Lemma group_ops_normalised tr gp g : In g (group_ops tr gp) -> op_norm g = g.
Proof.
  unfold group_ops. destruct (iw_exprs gp) as [|e1 es]; [intros []|].
  intros H. apply in_map_iff in H. destruct H as [e [<- _]].
  unfold op_of, op_norm. simpl. rewrite v3mod_idem. reflexivity.
Qed.

(* For every group, every tabulated normalizer n, every scale D (points = integer vectors / (24 D),
   i.e. every rational point set) and every labelled point set whose classes are exactly the orbits
   of the table's group G: after applying n the same classes are exactly the orbits of G again; and
   n permutes the Wyckoff letters as tabulated (C14.5, certificate-checked family equality). *)
Theorem orbit_closure_tables :
  forall D t tr ws gp k rn cs, 0 < D -> In t tables ->
    conv_trans t = Some tr -> conv_wycks t = Some ws -> general_position ws = Some gp ->
    nth_error (sg_norms t) k = Some rn -> nth_error (certs_of (sg_num t)) k = Some cs ->
    exists n, norm_to_op rn = Some n
      /\ (forall pts cls, is_orbit_partition D (group_ops tr gp) pts cls ->
                          is_orbit_partition D (group_ops tr gp) (map (papply D n) pts) cls)
      /\ perm_wellformed (map iw_letter ws) (n_perm rn) = true
      /\ letters_ok tr ws n (n_perm rn) cs = true.
Proof.
  intros D t tr ws gp k rn cs HD Ht Htr Hws Hgp Hrn Hcs.
  destruct (normalizer_semantics t tr ws gp k rn cs Ht Htr Hws Hgp Hrn Hcs) as [n [Hn [Hu [[_ [_ Hnorm2]] [_ [_ [Hpw Hlo]]]]]]].
  assert (Hnorm : forall g, In g (group_ops tr gp) -> In (conj_op n g) (group_ops tr gp))
    by (intros g Hg; exact (proj1 (Hnorm2 g Hg))).
  destruct (group_semantics t tr ws gp Ht Htr Hws Hgp) as [Hnd _].
  exists n. split; [exact Hn|]. split; [|split; assumption].
  intros pts cls Hop. apply (orbit_closure D HD (group_ops tr gp) n pts cls Hu).
  - exact Hnorm.
  - apply conj_onto; [exact Hu | exact Hnd | apply group_ops_normalised | exact Hnorm].
  - exact Hop.
Qed.

(* the identity (chosen when no normalizer improves the assignment) trivially keeps the orbits *)
Theorem orbit_closure_identity D G pts cls : 0 < D ->
  is_orbit_partition D G pts cls -> is_orbit_partition D G (map (pmod D) pts) cls.
Proof.
  intros HD [Hl Ho]. split; [rewrite map_length; exact Hl|].
  intros i j x' y' Hx Hy. rewrite nth_error_map in Hx, Hy.
  destruct (nth_error pts i) as [x|] eqn:Ex; [|discriminate].
  destruct (nth_error pts j) as [y|] eqn:Ey; [|discriminate].
  simpl in Hx, Hy. inversion Hx; inversion Hy; subst.
  rewrite (Ho i j x y Ex Ey). rewrite (pmod_idem D HD).
  split; intros [g [Hg E]]; exists g; (split; [exact Hg|]); rewrite E; [symmetry|]; apply (papply_pmod D HD).
Qed.

(* ---------- non-vacuity -------------------------------------------------------------------------------- *)
(* P-1 = {1, -1}; three atoms x, -x (one orbit) and the inversion centre (1/2,1/2,1/2); normalizer =
   shift of the origin by a/2 *)
Definition ex_G : list op := [(mid, (0, 0, 0)); (((-1, 0, 0), (0, -1, 0), (0, 0, -1)), (0, 0, 0))].
Definition ex_pts : list v3 := [(1, 2, 3); (23, 22, 21); (12, 12, 12)].
Definition ex_cls : list nat := [0%nat; 0%nat; 2%nat].
Definition ex_n : op := (mid, (12, 0, 0)).

Example ex_orbits_hold : is_orbit_partition 1 ex_G ex_pts ex_cls.
Proof.
  split; [reflexivity|].
  intros i j x y Hx Hy.
  destruct i as [|[|[|i]]]; simpl in Hx; try (destruct i; discriminate);
  destruct j as [|[|[|j]]]; simpl in Hy; try (destruct j; discriminate);
  inversion Hx; inversion Hy; subst; simpl;
  (split; intros H;
   [ first [ discriminate H
           | exists (mid, (0, 0, 0)); split; [left; reflexivity | vm_compute; reflexivity]
           | exists (((-1, 0, 0), (0, -1, 0), (0, 0, -1)), (0, 0, 0)); split; [right; left; reflexivity | vm_compute; reflexivity] ]
   | first [ reflexivity
           | destruct H as [g [[<-|[<-|[]]] E]]; vm_compute in E; discriminate E ] ]).
Qed.

Example ex_normalizer_hypotheses :
  unimod (fst ex_n) /\ (forall g, In g ex_G -> In (conj_op ex_n g) ex_G)
  /\ is_orbit_partition 1 ex_G (map (papply 1 ex_n) ex_pts) ex_cls.
Proof.
  assert (Hu : unimod (fst ex_n)) by (left; reflexivity).
  assert (Hn : forall g, In g ex_G -> In (conj_op ex_n g) ex_G).
  { intros g [<-|[<-|[]]]; vm_compute; auto. }
  split; [exact Hu|]. split; [exact Hn|].
  apply (orbit_closure 1 ltac:(lia) ex_G ex_n ex_pts ex_cls Hu Hn).
  - apply conj_onto; [exact Hu | repeat constructor; simpl; intuition discriminate | | exact Hn].
    intros g [<-|[<-|[]]]; reflexivity.
  - exact ex_orbits_hold.
Qed.

(* a state satisfying the hypotheses of the set theorems: 4 atoms, two classes, S3 holds *)
Example ex_sets :
  wyckoff_sets ["a"; "e"; "A"]%string [0; 1; 0; 1]%nat ["e"; "A"; "e"; "A"]%string [8; 29; 8; 29]
  = Some [mkWS "A" 29 [1; 3]%nat 2; mkWS "e" 8 [0; 2]%nat 2]
  /\ S3_arrays [0; 1; 0; 1]%nat ["e"; "A"; "e"; "A"]%string [8; 29; 8; 29].
Proof.
  split; [vm_compute; reflexivity|].
  intros i j Hi Hj. simpl in Hi, Hj.
  destruct i as [|[|[|[|i]]]]; try lia; destruct j as [|[|[|[|j]]]]; try lia; simpl; intros E; try discriminate E; auto.
Qed.
