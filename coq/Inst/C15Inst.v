(* C15: the chirality decision over the regenerated tables of all 230 groups, cross-checked against
   spglib's Hall database through C14's [group_semantics], and the statement about what the
   implementation scans under the spglib contract. *)
From Coq Require Import ZArith List String Bool Lia.
Import ListNotations.
From MV Require Import Symmetry.Table Symmetry.Affine Symmetry.Chiral Symmetry.ChiralProofs
  Reflect.GroupChecks Reflect.GroupChecksProofs Reflect.NormChecks Reflect.NormChecksProofs.
From MVD Require Import Generated.SGAll Generated.RefSpglib Generated.ChkAll Inst.C14Inst.
Open Scope Z_scope.

(* reflection over the 230 tables (bound: the list [tables], re-translated from the source each run) *)
Lemma sohncke_reflect : forallb chk_sohncke tables = true.
Proof. vm_compute. reflexivity. Qed.

Lemma sohncke_table t tr ws gp :
  In t tables -> conv_trans t = Some tr -> conv_wycks t = Some ws -> general_position ws = Some gp ->
  (is_chiral (map fst (group_ops tr gp)) = true <-> In (sg_num t) sohncke65).
Proof.
  intros Ht Htr Hws Hgp. pose proof sohncke_reflect as H. rewrite forallb_forall in H.
  specialize (H t Ht). unfold chk_sohncke, table_rots in H. rewrite Htr, Hws, Hgp in H.
  apply eqb_prop in H. rewrite H. apply is_sohncke_In.
Qed.

(* the same for spglib's standard-setting operations: the two groups are equal as sets (C14) *)
Lemma table_ref_chiral t tr ws gp :
  In t tables -> conv_trans t = Some tr -> conv_wycks t = Some ws -> general_position ws = Some gp ->
  is_chiral (map fst (ref_of (sg_num t))) = is_chiral (map fst (group_ops tr gp)).
Proof.
  intros Ht Htr Hws Hgp.
  destruct (group_semantics t tr ws gp Ht Htr Hws Hgp) as [_ [_ [_ [Heq _]]]].
  apply is_chiral_ext. intros r. rewrite !in_map_iff.
  split; intros [g [E Hg]]; exists g; (split; [exact E | apply Heq; exact Hg]).
Qed.

Lemma number_has_table n : 1 <= n <= 230 -> exists t, In t tables /\ sg_num t = n.
Proof.
  intros Hn. assert (Hin : In n (map sg_num tables)).
  { rewrite tables_numbered. apply in_map_iff. exists (Z.to_nat n). split; [lia|]. apply in_seq. lia. }
  apply in_map_iff in Hin. destruct Hin as [t [E Ht]]. exists t. split; [exact Ht | exact E].
Qed.

Lemma sohncke_ref n : 1 <= n <= 230 -> (is_chiral (map fst (ref_of n)) = true <-> In n sohncke65).
Proof.
  intros Hn. destruct (number_has_table n Hn) as [t [Ht E]].
  destruct (tables_convert t Ht) as [tr [ws [gp [Htr [Hws Hgp]]]]].
  rewrite <- E. rewrite (table_ref_chiral t tr ws gp Ht Htr Hws Hgp).
  exact (sohncke_table t tr ws gp Ht Htr Hws Hgp).
Qed.

(* "contains no improper operation, i.e. is one of the 65 Sohncke groups" *)
Lemma sohncke_iff_no_improper n :
  1 <= n <= 230 -> (In n sohncke65 <-> forall g, In g (ref_of n) -> mdet (fst g) = 1).
Proof.
  intros Hn. rewrite <- (sohncke_ref n Hn).
  destruct (number_has_table n Hn) as [t [Ht E]].
  destruct (tables_convert t Ht) as [tr [ws [gp [Htr [Hws Hgp]]]]].
  destruct (group_semantics t tr ws gp Ht Htr Hws Hgp) as [_ [_ [_ [Heq Hdet]]]].
  rewrite is_chiral_iff_all_proper.
  - split.
    + intros H g Hg. apply H. apply in_map. exact Hg.
    + intros H r Hr. apply in_map_iff in Hr. destruct Hr as [g [<- Hg]]. apply H. exact Hg.
  - intros r Hr. apply in_map_iff in Hr. destruct Hr as [g [<- Hg]]. apply Hdet. apply Heq. rewrite E. exact Hg.
Qed.

Lemma sohncke_outside n : In n sohncke65 -> 1 <= n <= 230.
Proof. apply sohncke65_has_65_distinct_numbers_in_range. Qed.

(* ---------- what the implementation scans ----------------------------------------------------------
   spglib is an external engine: its contract is a Section hypothesis, validated on every run by the
   certificate check [s4_b] of the case files, never proved.
   S4 (unchanged code: dataset.rotations) -- the scanned matrices are the rotation parts of the group of
   the reported number expressed in the basis of the input cell, i.e. conjugates P^-1 R P of the
   standard-setting rotations;   S1 (repaired code: get_symmetry_from_database(hall_number)) -- the same
   with P = identity.  [Pz] is the integer numerator of P (any rational basis: unimodular changes,
   supercells, orientation, origin and atom order do not enter the rotation parts at all). *)
Section SpglibContract.
  Variable n : Z.                 (* get_space_group_number() *)
  Variable scanned : list m3.     (* the list get_is_chiral iterates over *)
  Variable Pz : m3.
  Hypothesis Hn : 1 <= n <= 230.
  Hypothesis HP : mdet Pz <> 0.
  Hypothesis S4_sound :
    forall r', In r' scanned -> exists r, In r (map fst (ref_of n)) /\ mmul r Pz = mmul Pz r'.
  Hypothesis S4_complete :
    forall r, In r (map fst (ref_of n)) -> exists r', In r' scanned /\ mmul r Pz = mmul Pz r'.

  Theorem get_is_chiral_iff_sohncke : is_chiral scanned = true <-> In n sohncke65.
  Proof.
    rewrite (scanned_chiral_eq (map fst (ref_of n)) scanned Pz HP S4_sound S4_complete).
    exact (sohncke_ref n Hn).
  Qed.
End SpglibContract.

(* the agreement relation of the case files, once it evaluates to true on (reported number, flag, scanned
   matrices), establishes the property's predicate for that run of the implementation *)
Lemma case_establishes_property n flag scanned cands :
  1 <= n <= 230 ->
  case_conj (map fst (ref_of n)) flag scanned cands = true ->
  (flag = true <-> In n sohncke65).
Proof.
  intros Hn H. rewrite (case_conj_sound _ _ _ _ H). exact (sohncke_ref n Hn).
Qed.

(* non-vacuity of the contract: Pm (number 6) in the sheared basis a' = a, b' = a + b *)
Example contract_instance_Pm_sheared :
  let Pz := ((1, 1, 0), (0, 1, 0), (0, 0, 1)) in
  let scanned := [mid; ((1, 2, 0), (0, -1, 0), (0, 0, 1))] in
  1 <= 6 <= 230 /\ mdet Pz <> 0
  /\ (forall r', In r' scanned -> exists r, In r (map fst (ref_of 6)) /\ mmul r Pz = mmul Pz r')
  /\ (forall r, In r (map fst (ref_of 6)) -> exists r', In r' scanned /\ mmul r Pz = mmul Pz r')
  /\ is_chiral scanned = false /\ ~ In 6 sohncke65.
Proof.
  cbv zeta. split; [lia|]. split; [vm_compute; discriminate|].
  assert (Hb : s4_b ((1, 1, 0), (0, 1, 0), (0, 0, 1)) (map fst (ref_of 6))
                 [mid; ((1, 2, 0), (0, -1, 0), (0, 0, 1))] true = true) by (vm_compute; reflexivity).
  unfold s4_b in Hb. rewrite !andb_true_iff in Hb. destruct Hb as [[_ Hs] Hc]. cbn [negb orb] in Hc.
  split; [exact (s4_sound_b_spec _ _ _ Hs)|]. split; [exact (s4_complete_b_spec _ _ _ Hc)|].
  split; [reflexivity|]. rewrite <- is_sohncke_In. vm_compute. discriminate.
Qed.

(* ... and a chiral one: P2_1 (number 4) in a doubled cell along c (det Pz = 2): every rotation listed twice *)
Example contract_instance_P21_supercell :
  let Pz := ((1, 0, 0), (0, 1, 0), (0, 0, 2)) in
  let c2y := ((-1, 0, 0), (0, 1, 0), (0, 0, -1)) in
  s4_b Pz (map fst (ref_of 4)) [mid; c2y; mid; c2y] true = true
  /\ is_chiral [mid; c2y; mid; c2y] = true /\ In 4 sohncke65.
Proof. cbv zeta. split; [vm_compute; reflexivity|]. split; [reflexivity|]. rewrite <- is_sohncke_In. reflexivity. Qed.
