(* C12: the centring reflection instance over the 230 regenerated tables x the regenerated
   transformation matrices x the Hermann-Mauguin symbols, what it means, and non-vacuity examples
   for the index-map theorems. *)
From Coq Require Import ZArith QArith Qabs List String Bool Lia.
Import ListNotations.
From MV Require Import Symmetry.Table Symmetry.Affine Reflect.GroupChecks Reflect.NormChecks
  Reflect.CentringChecks Reflect.CentringChecksProofs Symmetry.WyckoffSets Symmetry.WyckoffSetsProofs
  Symmetry.Primitive Symmetry.PrimitiveProofs.
From MVD Require Import Generated.SGAll Generated.ChkAll Generated.Centring Generated.HMSymbols Inst.C14Inst.
Open Scope Z_scope.

(* 230 groups x (inverse check, 24^3 residues, determinant, centring class) by computation *)
Lemma centring_all_ok : chk_centring_all tables hm_short centring_mats = true.
Proof. vm_cast_no_check (@eq_refl bool true). Qed.

Lemma hm_short_230 : List.length hm_short = 230%nat.
Proof. reflexivity. Qed.

(* how many groups carry which centring letter (149 P, 4 A, 16 C, 38 I, 16 F, 7 R) *)
Lemma centring_census :
  map (fun c => List.length (filter (fun hm => String.eqb (hm_centring hm) c) hm_short)) ["P"; "A"; "C"; "I"; "F"; "R"]%string
  = [149; 4; 16; 38; 16; 7]%nat.
Proof. vm_compute. reflexivity. Qed.

Theorem centring_tables :
  forall k t hm, nth_error tables k = Some t -> nth_error hm_short k = Some hm ->
  exists tr tq t24 tm mult,
    conv_trans t = Some tr
    /\ transform_of centring_mats (hm_centring hm) = Some tq
    /\ times24 tq = Some t24 /\ to_qm3 tq = Some tm
    /\ mult_of (hm_centring hm) = Some mult /\ 1 <= mult <= 4
    (* the columns of `transform` generate exactly Z^3 + centring translations (units of 1/24) *)
    /\ (forall v, in_prim_lattice t24 v <-> in_conv_lattice tr v)
    (* multiplicity = number of centring vectors = index of the conventional lattice *)
    /\ NoDup (centrings tr) /\ Z.of_nat (List.length (centrings tr)) = mult
    /\ Z.abs (mdet t24) * mult = 13824
    (* |det(transform.T @ A)| * multiplicity = |det A| for every conventional cell A over Q *)
    /\ (forall a : qm3', Qabs (qdet (prim_cell tm a)) * inject_Z mult == Qabs (qdet a))%Q
    /\ centring_class tr = class_of (hm_centring hm).
Proof.
  intros k t hm Ht Hh.
  pose proof (chk_centring_all_sound _ _ _ centring_all_ok k t hm Ht Hh) as H.
  unfold chk_centring in H.
  destruct (conv_trans t) as [tr|]; [|discriminate].
  destruct (transform_of centring_mats (hm_centring hm)) as [tq|]; [|discriminate].
  destruct (centring_ok_sound _ _ _ H) as [t24 [mult [dq [H1 [H2 [H3 [H4 [H5 [H6 [H7 [H8 [H9 H10]]]]]]]]]]]].
  destruct (qdet3_shape _ _ H3) as [tm Htm].
  exists tr, tq, t24, tm, mult. repeat split; auto; try lia.
  - apply (proj1 (H4 v)).
  - apply (proj2 (H4 v)).
  - intros a. apply (prim_volume_rel tq tm dq mult a Htm H3 H9).
Qed.

(* the multiplicity the index-map model uses (Primitive.centring_mult) is the one checked here *)
Lemma mult_agree c m : centring_mult c = Some m -> mult_of c = Some (Z.of_nat m).
Proof.
  destruct (String.eqb c "B") eqn:EB.
  - apply String.eqb_eq in EB. subst c. vm_compute. discriminate.
  - unfold centring_mult, mult_of. rewrite EB.
    destruct (String.eqb c "P"); [intros H; inversion H; reflexivity|].
    destruct (String.eqb c "A"), (String.eqb c "C"), (String.eqb c "I"); simpl;
      try (intros H; inversion H; reflexivity).
    destruct (String.eqb c "R"); [intros H; inversion H; reflexivity|].
    destruct (String.eqb c "F"); intros H; inversion H; reflexivity.
Qed.

(* ---------- non-vacuity: a C-centred cell given as a 2-fold supercell, letters a <-> b permuted ------- *)
Definition ex_ds : dataset :=
  mkDS ["a"; "a"; "b"; "b"]%string [0; 0; 2; 2]%nat [0; 0; 1; 1]%nat [0; 1; 0; 1]%nat [8; 29; 8; 29].
Definition ex_perm : list (string * string) := [("a", "b"); ("b", "a")]%string.
Definition ex_descr : descr :=
  mkDescr ["b"; "b"; "a"; "a"]%string [0; 0; 2; 2]%nat ["b"; "a"; "b"; "a"]%string [0; 2; 0; 2]%nat
          ["b"; "a"]%string [0; 2]%nat [8; 29].

Example ex_describe : describe ex_perm "C" ex_ds = Some ex_descr.
Proof. vm_compute. reflexivity. Qed.

Example ex_contract :
  orbits_share_letter ex_ds /\ m2p_fibres_share_letter ex_ds /\ std_fibres ex_ds 2 /\ centring_mult "C" = Some 2%nat.
Proof.
  split; [|split; [|split]].
  - intros a b Ha Hb. simpl in Ha, Hb.
    destruct a as [|[|[|[|a]]]]; try lia; destruct b as [|[|[|[|b]]]]; try lia; simpl; intros E; try discriminate E; reflexivity.
  - intros a b Ha Hb. simpl in Ha, Hb.
    destruct a as [|[|[|[|a]]]]; try lia; destruct b as [|[|[|[|b]]]]; try lia; simpl; intros E; try discriminate E; reflexivity.
  - intros v Hv. simpl in Hv. destruct Hv as [<-|[<-|[<-|[<-|[]]]]]; reflexivity.
  - reflexivity.
Qed.

Example ex_contract2 :
  std_types_const_on_fibres ex_ds /\ m2p_fibres ex_ds 2 /\ original_contract ex_ds [8; 8; 29; 29].
Proof.
  split; [|split].
  - intros i j Hi Hj. simpl in Hi, Hj.
    destruct i as [|[|[|[|i]]]]; try lia; destruct j as [|[|[|[|j]]]]; try lia; simpl; intros E; try discriminate E; reflexivity.
  - intros u Hu. simpl in Hu. destruct Hu as [<-|[<-|[<-|[<-|[]]]]]; reflexivity.
  - constructor.
    + reflexivity.
    + intros a b Ha Hb. simpl in Ha, Hb.
      destruct a as [|[|[|[|a]]]]; try lia; destruct b as [|[|[|[|b]]]]; try lia; simpl; intros E; try discriminate E; split; reflexivity.
    + vm_compute. reflexivity.
    + intros j v a Hv Ha.
      destruct j as [|[|[|[|j]]]]; simpl in Hv; try (destruct j; discriminate Hv); inversion Hv; subst v;
        vm_compute in Ha; inversion Ha; subst a; reflexivity.
Qed.
