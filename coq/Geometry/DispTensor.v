(* Executable model of CellList::get_displacement_tensor (celllist.cpp:200-286), of
   ext.get_displacement_tensor (geometry.cpp:196-232) and of the Python wrapper
   matid.geometry.get_displacement_tensor (C10).

   The code keeps, per pair (i, j<i), the candidate with the smallest sqrt(distance_squared) using
   a strict [<], so the first candidate in bin-visiting order wins ties; the model compares the
   squared distances (sqrt is monotone; on the inputs of the correspondence distinct squared
   distances have distinct correctly-rounded roots).  Entries never written stay +inf ([None]). *)
From Coq Require Import ZArith QArith List Bool Lia.
From MV Require Import Base.ZV3 Geometry.Extend Geometry.CellList.
Import ListNotations.
Open Scope Z_scope.

(* one entry of the three tables: squared distance, displacement, factor *)
Record entry := mkT { t_d2 : Z; t_disp : v3; t_fac : v3 }.
Definition zero_entry := mkT 0 zero3 zero3.
Definition neg_entry (e : entry) := mkT (t_d2 e) (neg3 (t_disp e)) (neg3 (t_fac e)).

Definition entry_of (ri : v3) (ie : nat * eatom) : entry :=
  mkT (dist2 ri (e_pos (snd ie))) (sub ri (e_pos (snd ie))) (e_fac (snd ie)).

(* celllist.cpp:263: replace only when strictly smaller *)
Definition cand_step (best : option entry) (e : entry) : option entry :=
  match best with
  | None => Some e
  | Some b => if t_d2 e <? t_d2 b then Some e else Some b
  end.

(* candidates = the images found by the 27-bin search around r_i that pass the cutoff test,
   in visiting order; per original index j the running minimum *)
Definition best_pair (cands : list (nat * eatom)) (ri : v3) (j : nat) : option entry :=
  fold_left cand_step (map (entry_of ri) (filter (fun ie => Nat.eqb (e_idx (snd ie)) j) cands)) None.

Definition cutoff_ext2 (a b c : v3) (pbc : pbc3) (cu : cut) : Z :=
  match cu with Fin c0 => c0 * c0 | Inf => longest2 a b c pbc end.

Section Tensor.
  Variables (p : Q) (cu : cut) (pts : list eatom) (pos : list v3).
  Let g := mk_geom p cu pts.
  Definition lower (i j : nat) : option entry :=
    let ri := nth i pos zero3 in best_pair (query g pts ri) ri j.
  (* the three tables after the call: (i,i) zero, (i,j<i) the minimum found, (j,i) its negative *)
  Definition tensor_of (i j : nat) : option entry :=
    if Nat.eqb i j then Some zero_entry
    else if Nat.ltb j i then lower i j
    else option_map neg_entry (lower j i).
End Tensor.

(* ext.get_displacement_tensor with the copy counts as an argument (the correspondence passes the
   counts the implementation used, after checking them against [n_copies]) *)
Definition disp_tensor_with (p : Q) (a b c Nv : v3) (cu : cut) (pos : list v3) : nat -> nat -> option entry :=
  match complete_cell a b c with
  | (a', b', c') => tensor_of p cu (extend_with a' b' c' Nv (map (fun q => mkA q 0) pos)) pos
  end.

Definition disp_tensor (p : Q) (a b c : v3) (pbc : pbc3) (cu : cut) (pos : list v3) : nat -> nat -> option entry :=
  disp_tensor_with p a b c (n_copies a b c pbc (cutoff_ext2 a b c pbc cu)) cu pos.

(* row-wise evaluation sharing the binning (for the correspondence); equal to [lower] by
   DispTensorProofs.lower_rows_eq *)
Definition lower_rows (p : Q) (cu : cut) (pts : list eatom) (pos : list v3) : list (list (option entry)) :=
  let g := mk_geom p cu pts in
  let bn := binned g pts in
  map (fun i => let ri := nth i pos zero3 in
                let cands := query_fast g bn ri in
                map (fun j => best_pair cands ri j) (seq 0 i))
      (seq 0 (length pos)).
