(* C20 -- periodic centre of mass (matid.geometry.get_center_of_mass, periodic axes) over Coq's Reals.

   The code computes, per periodic axis, with s_k the scaled coordinates and m_k the masses,
       xi = mean(m_k cos(2 pi s_k)),  zeta = mean(m_k sin(2 pi s_k)),
       com_rel = (arctan2(-zeta, -xi) + pi) / (2 pi).
   Coq 8.16's standard library has no atan2.  The returned value is therefore characterised by the
   defining relation of arctan2:  theta = 2 pi com_rel  is an angle of the vector (xi, zeta), i.e.
       exists R > 0,  R cos theta = xi  /\  R sin theta = zeta          ([com_angle])
   (arctan2(-zeta,-xi) + pi is the angle of (xi, zeta) in (0, 2 pi]).  The theorems are proved for
   EVERY theta satisfying the relation, hence in particular for the one numpy returns; they
   determine the result modulo 2 pi (com_rel modulo 1), which is all the property claims.  The
   existence of R > 0 is exactly the hypothesis "the mean resultant is non-zero".  np.mean divides
   both sums by the number of atoms; a positive common factor does not change the angle
   ([com_angle_scale]), so the sums are used directly.

   This file has no executable counterpart: its tie to the code is the evaluation of the theorems'
   conclusions on the implementation (harness/props/c20.py, cases `com`).
   It depends on the axioms of the standard-library real numbers (see Print Assumptions in
   Properties/C20.v); nothing else in the development imports it. *)
From Coq Require Import Reals Lra List ZArith.
Import ListNotations.
Open Scope R_scope.

Fixpoint xi (ms ss : list R) : R :=
  match ms, ss with m :: ms', s :: ss' => m * cos (2 * PI * s) + xi ms' ss' | _, _ => 0 end.
Fixpoint zeta (ms ss : list R) : R :=
  match ms, ss with m :: ms', s :: ss' => m * sin (2 * PI * s) + zeta ms' ss' | _, _ => 0 end.

Definition com_angle (x y theta : R) : Prop := exists R, 0 < R /\ R * cos theta = x /\ R * sin theta = y.
Definition is_com_rel (ms ss : list R) (r : R) : Prop := com_angle (xi ms ss) (zeta ms ss) (2 * PI * r).

(* shifting atom k by the integer ks_k (missing entries: no shift) *)
Fixpoint shift (ss : list R) (ks : list Z) : list R :=
  match ss, ks with s :: ss', k :: ks' => (s + IZR k) :: shift ss' ks' | _, _ => ss end.

Lemma com_angle_scale c x y theta : 0 < c -> (com_angle (c * x) (c * y) theta <-> com_angle x y theta).
Proof.
  intro Hc. split; intros (R & HR & H1 & H2).
  - exists (R / c). split; [apply Rdiv_lt_0_compat; assumption|].
    split; unfold Rdiv; [rewrite Rmult_assoc, (Rmult_comm (/ c)), <- Rmult_assoc, H1 | rewrite Rmult_assoc, (Rmult_comm (/ c)), <- Rmult_assoc, H2]; field; lra.
  - exists (c * R). split; [apply Rmult_lt_0_compat; assumption|]. split; [rewrite <- H1 | rewrite <- H2]; ring.
Qed.

Lemma cos_period_Z x k : cos (x + 2 * IZR k * PI) = cos x.
Proof.
  destruct k as [|p|p].
  - replace (x + 2 * 0 * PI) with x by ring. reflexivity.
  - replace (IZR (Z.pos p)) with (INR (Pos.to_nat p)) by (rewrite INR_IZR_INZ, positive_nat_Z; reflexivity). apply cos_period.
  - replace (IZR (Z.neg p)) with (- INR (Pos.to_nat p)).
    + rewrite <- (cos_period (x + 2 * - INR (Pos.to_nat p) * PI) (Pos.to_nat p)). f_equal. ring.
    + rewrite INR_IZR_INZ, positive_nat_Z, <- opp_IZR. reflexivity.
Qed.
Lemma sin_period_Z x k : sin (x + 2 * IZR k * PI) = sin x.
Proof.
  destruct k as [|p|p].
  - replace (x + 2 * 0 * PI) with x by ring. reflexivity.
  - replace (IZR (Z.pos p)) with (INR (Pos.to_nat p)) by (rewrite INR_IZR_INZ, positive_nat_Z; reflexivity). apply sin_period.
  - replace (IZR (Z.neg p)) with (- INR (Pos.to_nat p)).
    + rewrite <- (sin_period (x + 2 * - INR (Pos.to_nat p) * PI) (Pos.to_nat p)). f_equal. ring.
    + rewrite INR_IZR_INZ, positive_nat_Z, <- opp_IZR. reflexivity.
Qed.

Lemma sums_shift ms : forall ss ks, xi ms (shift ss ks) = xi ms ss /\ zeta ms (shift ss ks) = zeta ms ss.
Proof.
  induction ms as [|m ms IH]; intros ss ks.
  - destruct ss, ks; split; reflexivity.
  - destruct ss as [|s ss]; [destruct ks; split; reflexivity|].
    destruct ks as [|k ks]; [split; reflexivity|].
    cbn [shift xi zeta]. destruct (IH ss ks) as [E1 E2]. rewrite E1, E2.
    replace (2 * PI * (s + IZR k)) with (2 * PI * s + 2 * IZR k * PI) by ring.
    rewrite cos_period_Z, sin_period_Z. split; reflexivity.
Qed.

(* shifting any atoms by integers along a periodic axis changes neither sum, hence not the result *)
Theorem com_lattice_shift_invariant ms ss ks :
  xi ms (shift ss ks) = xi ms ss /\ zeta ms (shift ss ks) = zeta ms ss /\
  (forall r, is_com_rel ms (shift ss ks) r <-> is_com_rel ms ss r).
Proof.
  destruct (sums_shift ms ss ks) as [E1 E2]. split; [exact E1|]. split; [exact E2|].
  intro r. unfold is_com_rel. rewrite E1, E2. tauto.
Qed.

(* a rigid translation rotates the resultant *)
Lemma sums_translate t ms : forall ss,
  xi ms (map (fun s => s + t) ss) = cos (2 * PI * t) * xi ms ss - sin (2 * PI * t) * zeta ms ss /\
  zeta ms (map (fun s => s + t) ss) = sin (2 * PI * t) * xi ms ss + cos (2 * PI * t) * zeta ms ss.
Proof.
  induction ms as [|m ms IH]; intros ss.
  - destruct ss; cbn; split; ring.
  - destruct ss as [|s ss]; [cbn; split; ring|].
    cbn [map xi zeta]. destruct (IH ss) as [E1 E2]. rewrite E1, E2.
    replace (2 * PI * (s + t)) with (2 * PI * s + 2 * PI * t) by ring.
    rewrite cos_plus, sin_plus. split; ring.
Qed.

Lemma same_angle a b : cos a = cos b -> sin a = sin b -> exists k : Z, a = b + 2 * IZR k * PI.
Proof.
  intros Hc Hs.
  assert (S0 : sin (a - b) = 0) by (rewrite sin_minus, Hc, Hs; ring).
  assert (C1 : cos (a - b) = 1).
  { rewrite cos_minus, Hc, Hs. pose proof (sin2_cos2 b) as H. unfold Rsqr in H. lra. }
  destruct (sin_eq_0_0 _ S0) as [k Hk].
  destruct (Zeven_odd_dec k) as [Ev|Od].
  - destruct (Zeven_ex _ Ev) as [j Hj]. exists j. subst k. rewrite mult_IZR in Hk. simpl (IZR 2) in Hk. lra.
  - exfalso. destruct (Zodd_ex _ Od) as [j Hj]. subst k.
    rewrite Hk in C1. rewrite plus_IZR, mult_IZR in C1. simpl (IZR 2) in C1. simpl (IZR 1) in C1.
    replace ((2 * IZR j + 1) * PI) with (PI + 2 * IZR j * PI) in C1 by ring.
    rewrite cos_period_Z, cos_PI in C1. lra.
Qed.

Lemma pos_sq_eq x y : 0 < x -> 0 < y -> x * x = y * y -> x = y.
Proof. intros Hx Hy H. assert (E : (x - y) * (x + y) = 0) by (ring_simplify; lra). apply Rmult_integral in E. lra. Qed.

(* a rigid translation t (in scaled units along the axis) moves the centre by t modulo 1 *)
Theorem com_translation_equivariant ms ss t r r' :
  is_com_rel ms ss r -> is_com_rel ms (map (fun s => s + t) ss) r' ->
  exists k : Z, r' = r + t + IZR k.
Proof.
  unfold is_com_rel. destruct (sums_translate t ms ss) as [E1 E2]. rewrite E1, E2.
  intros (rho & HR & H1 & H2) (rho' & HR' & H1' & H2').
  rewrite <- H1, <- H2 in H1', H2'.
  set (th := 2 * PI * r) in *. set (th' := 2 * PI * r') in *. set (a := 2 * PI * t) in *.
  assert (X : rho' * cos th' = rho * cos (th + a)) by (rewrite cos_plus; lra).
  assert (Y : rho' * sin th' = rho * sin (th + a)) by (rewrite sin_plus; lra).
  assert (ER : rho' = rho).
  { apply pos_sq_eq; try assumption.
    pose proof (sin2_cos2 th') as A. pose proof (sin2_cos2 (th + a)) as B. unfold Rsqr in A, B.
    transitivity ((rho' * cos th') * (rho' * cos th') + (rho' * sin th') * (rho' * sin th')).
    - transitivity (rho' * rho' * (sin th' * sin th' + cos th' * cos th')); [rewrite A; ring | ring].
    - rewrite X, Y. transitivity (rho * rho * (sin (th + a) * sin (th + a) + cos (th + a) * cos (th + a))); [ring | rewrite B; ring]. }
  rewrite ER in X, Y.
  assert (Cc : cos th' = cos (th + a)) by (apply (Rmult_eq_reg_l rho); lra).
  assert (Ss : sin th' = sin (th + a)) by (apply (Rmult_eq_reg_l rho); lra).
  destruct (same_angle _ _ Cc Ss) as [k Hk]. exists k.
  unfold th, th', a in Hk. pose proof PI_RGT_0 as Hpi.
  apply (Rmult_eq_reg_l (2 * PI)); lra.
Qed.

(* two results for the same system differ by an integer (the relation determines com_rel modulo 1) *)
Corollary com_rel_unique_mod_1 ms ss r r' : is_com_rel ms ss r -> is_com_rel ms ss r' -> exists k : Z, r' = r + IZR k.
Proof.
  intros H H'. assert (E : map (fun s => s + 0) ss = ss).
  { clear H H'. induction ss as [|s ss IH]; cbn [map]; [reflexivity | rewrite IH, Rplus_0_r; reflexivity]. }
  rewrite <- E in H'. destruct (com_translation_equivariant ms ss 0 r r' H H') as [k Hk]. exists k. lra.
Qed.

(* the hypothesis hidden in [is_com_rel]: the resultant is non-zero *)
Lemma is_com_rel_resultant_nonzero ms ss r : is_com_rel ms ss r -> 0 < xi ms ss * xi ms ss + zeta ms ss * zeta ms ss.
Proof.
  intros (rho & HR & H1 & H2). rewrite <- H1, <- H2.
  pose proof (sin2_cos2 (2 * PI * r)) as A. unfold Rsqr in A.
  replace (rho * cos (2 * PI * r) * (rho * cos (2 * PI * r)) + rho * sin (2 * PI * r) * (rho * sin (2 * PI * r)))
    with (rho * rho * (sin (2 * PI * r) * sin (2 * PI * r) + cos (2 * PI * r) * cos (2 * PI * r))) by ring.
  rewrite A. nra.
Qed.

(* non-vacuity: two atoms at 0 and 1/2 with masses 3 and 1 have their centre at 0 (and at every integer) *)
Example is_com_rel_example : is_com_rel [3; 1] [0; / 2] 0.
Proof.
  exists 2. split; [lra|]. cbn [xi zeta].
  replace (2 * PI * 0) with 0 by ring. replace (2 * PI * / 2) with PI by field.
  rewrite cos_0, sin_0, cos_PI, sin_PI. split; ring.
Qed.
