(* Executable model of matid/ext/celllist.cpp : CellList::init, get_neighbours_for_position (C10, C16).

   Positions are integer vectors (grid units); the bin geometry is rational because of the
   padding [p] (celllist.cpp:99, the double nearest to 0.0001 -- any p > 0 in the theorems) and
   of the bin width  dx = max(cutoff, (xmax - xmin)/nx).

   Float decisions that the exact model idealises (named "boundary" in the correspondence):
     * xmin = fl(min - p), xmax = fl(max + p), the quotient (xmax-xmin)/cutoff and its truncation
       to [int] (celllist.cpp:108): differs from the exact value only if the exact quotient is
       within rounding distance of an integer;
     * the bin index  int((x - xmin)/dx)  (celllist.cpp:125,148): same remark.  Bin membership is
       not observable through the API: by [query_eq_filter] the result of a query is the filter of
       the stored points by the cutoff test, whatever the bin geometry, as long as
       [bins_in_range] and [bins_complete] hold.
   [int(...)] on a double truncates toward zero: [qtrunc].  Values outside the range of [int]
   are undefined behaviour in C++ and outside the model.
   cutoff = +infinity (Inf): nx = max(1, int(span/inf)) = 1, dx = max(inf, span) = inf,
   every index int(finite/inf) = 0, and the cutoff test d2 <= inf is always true. *)
From Coq Require Import ZArith QArith Qround List Bool Lia.
From MV Require Import Base.ZV3 Geometry.Extend.
Import ListNotations.
Open Scope Z_scope.

Inductive cut := Fin (c : Z) | Inf.

Definition qtrunc (q : Q) : Z := if Qle_bool 0 q then Qfloor q else (- Qfloor (- q))%Z.
Definition qmax (a b : Q) : Q := if Qle_bool a b then b else a.

Definition zmin_list (xs : list Z) : Z := fold_left Z.min (tl xs) (hd 0 xs).
Definition zmax_list (xs : list Z) : Z := fold_left Z.max (tl xs) (hd 0 xs).

(* one Cartesian axis of the cell list: xmin, xmax (padded), nx, dx (None = +inf) *)
Record axis := mkAx { ax_lo : Q; ax_hi : Q; ax_n : Z; ax_d : option Q }.

Definition mk_axis (p : Q) (cu : cut) (xs : list Z) : axis :=
  let lo := (inject_Z (zmin_list xs) - p)%Q in
  let hi := (inject_Z (zmax_list xs) + p)%Q in
  match cu with
  | Fin c =>
    let n := Z.max 1 (qtrunc ((hi - lo) / inject_Z c)) in
    mkAx lo hi n (Some (qmax (inject_Z c) ((hi - lo) / inject_Z n)))
  | Inf => mkAx lo hi 1 None
  end.

Definition ax_ix (ax : axis) (x : Z) : Z :=
  match ax_d ax with
  | Some d => qtrunc ((inject_Z x - ax_lo ax) / d)
  | None => 0
  end.

Record geom := mkG { g_x : axis; g_y : axis; g_z : axis; g_cut : cut }.

Definition mk_geom (p : Q) (cu : cut) (pts : list eatom) : geom :=
  mkG (mk_axis p cu (map (fun e => vx (e_pos e)) pts))
      (mk_axis p cu (map (fun e => vy (e_pos e)) pts))
      (mk_axis p cu (map (fun e => vz (e_pos e)) pts)) cu.

Definition bin_of (g : geom) (q : v3) : v3 :=
  mk3 (ax_ix (g_x g) (vx q)) (ax_ix (g_y g) (vy q)) (ax_ix (g_z g) (vz q)).

(* celllist.cpp:153-158: clamped range of bins to visit along one axis *)
Definition nbr (ax : axis) (i0 : Z) : list Z :=
  let s := Z.max (i0 - 1) 0 in
  let e := Z.min (i0 + 1) (ax_n ax - 1) in
  zrange s (Z.to_nat (e - s + 1)).

Definition nbr_triples (g : geom) (q : v3) : list v3 :=
  let b := bin_of g q in
  flat_map (fun i => flat_map (fun j => map (fun k => mk3 i j k) (nbr (g_z g) (vz b)))
                              (nbr (g_y g) (vy b))) (nbr (g_x g) (vx b)).

Definition within (cu : cut) (q p : v3) : bool :=
  match cu with Fin c => dist2 q p <=? c * c | Inf => true end.

(* the content of bin t, in push_back order (ascending index in the stored list) *)
Definition bin_content (g : geom) (pts : list eatom) (t : v3) : list (nat * eatom) :=
  filter (fun ie => v3_eqb (bin_of g (e_pos (snd ie))) t) (indexed pts).

(* celllist.cpp:161-186: the neighbours of q, in the order the code finds them *)
Definition query (g : geom) (pts : list eatom) (q : v3) : list (nat * eatom) :=
  flat_map (fun t => filter (fun ie => within (g_cut g) q (e_pos (snd ie))) (bin_content g pts t))
           (nbr_triples g q).

(* CellListResult rows: index in the extended system, original index, squared distance,
   displacement q - position, factor *)
Record nrow := mkN { r_idx : nat; r_orig : nat; r_d2 : Z; r_disp : v3; r_fac : v3 }.
Definition row_of (q : v3) (ie : nat * eatom) : nrow :=
  mkN (fst ie) (e_idx (snd ie)) (dist2 q (e_pos (snd ie))) (sub q (e_pos (snd ie))) (e_fac (snd ie)).
Definition neighbours (g : geom) (pts : list eatom) (q : v3) : list nrow := map (row_of q) (query g pts q).

(* matid.geometry.get_cell_list / ext.get_cell_list: extend by [ext2], then bin with [cu] *)
Definition cell_list_points (a b c : v3) (pbc : pbc3) (ext2 : Z) (pos : list v3) : list eatom :=
  extend_system a b c pbc ext2 (map (fun p => mkA p 0) pos).

(* ---------------------------------------------------------------------------------------- *)
(* The same query with the bin index of every stored point computed once (what the C++ does in
   init()); used by the correspondence for speed, equal to [query] by CellListProofs.query_fast_eq. *)
Definition binned (g : geom) (pts : list eatom) : list (v3 * (nat * eatom)) :=
  map (fun ie => (bin_of g (e_pos (snd ie)), ie)) (indexed pts).

Definition query_fast (g : geom) (bn : list (v3 * (nat * eatom))) (q : v3) : list (nat * eatom) :=
  let w := filter (fun bie => within (g_cut g) q (e_pos (snd (snd bie)))) bn in
  flat_map (fun t => map snd (filter (fun bie => v3_eqb (fst bie) t) w)) (nbr_triples g q).
