(* C20 -- proofs about the model of Frame.v.  Style: plain stdlib (QArith, setoid rewriting, field/ring/lra). *)
From Coq Require Import ZArith QArith Qabs Qround List Bool Lia Lra Psatz Setoid Morphisms.
From MV Require Import Geometry.Frame.
Import ListNotations.
Open Scope Q_scope.

(* ---------- veq is an equivalence ---------- *)
Lemma veq_refl a : veq a a. Proof. unfold veq; repeat split; reflexivity. Qed.
Lemma veq_sym a b : veq a b -> veq b a. Proof. unfold veq; intros (H1 & H2 & H3); repeat split; symmetry; assumption. Qed.
Lemma veq_trans a b c : veq a b -> veq b c -> veq a c.
Proof. unfold veq; intros (H1 & H2 & H3) (G1 & G2 & G3); repeat split; etransitivity; eassumption. Qed.
#[export] Instance veq_Equiv : Equivalence veq := Build_Equivalence _ veq_refl veq_sym veq_trans.

Lemma vred_eq v : veq (vred v) v.
Proof. unfold veq, vred; cbn [vx vy vz]; rewrite !Qred_correct; repeat split; reflexivity. Qed.

(* ---------- raw (Qred-free) twins of the primitives; equal up to == ---------- *)
Definition dotR a b := vx a * vx b + vy a * vy b + vz a * vz b.
Definition crossR a b :=
  mkV (vy a * vz b - vz a * vy b) (vz a * vx b - vx a * vz b) (vx a * vy b - vy a * vx b).
Definition detR m := dotR (r0 m) (crossR (r1 m) (r2 m)).
Definition to_cartR (m : M3) (s : V3) : V3 :=
  vadd (vscale (vx s) (r0 m)) (vadd (vscale (vy s) (r1 m)) (vscale (vz s) (r2 m))).
Definition to_scaledR (m : M3) (p : V3) : V3 :=
  mkV (dotR p (crossR (r1 m) (r2 m)) / detR m) (dotR p (crossR (r2 m) (r0 m)) / detR m) (dotR p (crossR (r0 m) (r1 m)) / detR m).

Lemma dot_R a b : dot a b == dotR a b.
Proof. unfold dot. apply Qred_correct. Qed.
Lemma cross_R a b : veq (cross a b) (crossR a b).
Proof. unfold cross. apply vred_eq. Qed.

#[export] Instance dotR_proper : Proper (veq ==> veq ==> Qeq) dotR.
Proof. intros a a' (H1 & H2 & H3) b b' (G1 & G2 & G3). unfold dotR. rewrite H1, H2, H3, G1, G2, G3. reflexivity. Qed.
#[export] Instance crossR_proper : Proper (veq ==> veq ==> veq) crossR.
Proof. intros a a' (H1 & H2 & H3) b b' (G1 & G2 & G3). unfold crossR, veq; cbn [vx vy vz].
  rewrite H1, H2, H3, G1, G2, G3. repeat split; reflexivity. Qed.
#[export] Instance vadd_proper : Proper (veq ==> veq ==> veq) vadd.
Proof. intros a a' (H1 & H2 & H3) b b' (G1 & G2 & G3). unfold vadd, veq; cbn [vx vy vz].
  rewrite H1, H2, H3, G1, G2, G3. repeat split; reflexivity. Qed.
#[export] Instance vsub_proper : Proper (veq ==> veq ==> veq) vsub.
Proof. intros a a' (H1 & H2 & H3) b b' (G1 & G2 & G3). unfold vsub, veq; cbn [vx vy vz].
  rewrite H1, H2, H3, G1, G2, G3. repeat split; reflexivity. Qed.
#[export] Instance vscale_proper : Proper (Qeq ==> veq ==> veq) vscale.
Proof. intros k k' Hk a a' (H1 & H2 & H3). unfold vscale, veq; cbn [vx vy vz].
  rewrite H1, H2, H3, Hk. repeat split; reflexivity. Qed.
#[export] Instance getc_proper ax : Proper (veq ==> Qeq) (getc ax).
Proof. intros a a' (H1 & H2 & H3). destruct ax; assumption. Qed.

#[export] Instance dot_proper : Proper (veq ==> veq ==> Qeq) dot.
Proof. intros a a' H b b' G. rewrite !dot_R. rewrite H, G. reflexivity. Qed.
#[export] Instance cross_proper : Proper (veq ==> veq ==> veq) cross.
Proof. intros a a' H b b' G. rewrite !cross_R. rewrite H, G. reflexivity. Qed.

Lemma det_R m : det m == detR m.
Proof. unfold det, detR. rewrite dot_R. rewrite cross_R. reflexivity. Qed.

Lemma to_cart_R m s : veq (to_cartesian m s) (to_cartR m s).
Proof. unfold to_cartesian. apply vred_eq. Qed.

Lemma to_scaled_R m p : veq (to_scaled m p) (to_scaledR m p).
Proof.
  unfold to_scaled. rewrite vred_eq. unfold to_scaledR, veq; cbn [vx vy vz].
  rewrite !det_R, !dot_R, !cross_R. repeat split; reflexivity.
Qed.

#[export] Instance to_cartR_proper m : Proper (veq ==> veq) (to_cartR m).
Proof. intros s s' (H1 & H2 & H3). unfold to_cartR. rewrite H1, H2, H3. reflexivity. Qed.
#[export] Instance to_scaledR_proper m : Proper (veq ==> veq) (to_scaledR m).
Proof. intros p p' H. unfold to_scaledR, veq; cbn [vx vy vz]. rewrite !H. repeat split; reflexivity. Qed.
#[export] Instance to_cartesian_proper m : Proper (veq ==> veq) (to_cartesian m).
Proof. intros s s' H. rewrite !to_cart_R, H. reflexivity. Qed.
#[export] Instance to_scaled_proper m : Proper (veq ==> veq) (to_scaled m).
Proof. intros s s' H. rewrite !to_scaled_R, H. reflexivity. Qed.

Ltac raw := unfold to_cartR, to_scaledR, detR, dotR, crossR, vadd, vsub, vscale, vzero, veq in *; cbn [vx vy vz r0 r1 r2 getc setc row set_row] in *.

Lemma inverseR m : ~ detR m == 0 ->
  (forall p, veq (to_cartR m (to_scaledR m p)) p) /\ (forall s, veq (to_scaledR m (to_cartR m s)) s).
Proof.
  destruct m as [[a b c] [d e f] [g h i]]. intro H.
  split; intros [x y z]; raw; repeat split; field; exact H.
Qed.

Theorem scaled_cartesian_inverse m :
  ~ det m == 0 ->
  (forall p, veq (to_cartesian m (to_scaled m p)) p) /\ (forall s, veq (to_scaled m (to_cartesian m s)) s).
Proof.
  intro H. rewrite det_R in H. destruct (inverseR m H) as [A B]. split; intro v.
  - rewrite to_cart_R, to_scaled_R. apply A.
  - rewrite to_scaled_R, to_cart_R. apply B.
Qed.

(* ---------- wrapping ---------- *)
Lemma wrap1_spec q : 0 <= wrap1 q /\ wrap1 q < 1 /\ wrap1 q == q - inject_Z (Qfloor q).
Proof.
  unfold wrap1. pose proof (Qfloor_le q) as H1. pose proof (Qlt_floor q) as H2.
  rewrite inject_Z_plus in H2. change (inject_Z 1) with 1 in H2.
  repeat split; lra.
Qed.

Theorem wrap_integer_on_pbc_only pbc s ax :
  (getb ax pbc = false -> getc ax (wrap_v pbc s) = getc ax s) /\
  (getb ax pbc = true ->
     0 <= getc ax (wrap_v pbc s) /\ getc ax (wrap_v pbc s) < 1 /\
     exists k : Z, getc ax (wrap_v pbc s) == getc ax s - inject_Z k).
Proof.
  destruct pbc as [b0 b1 b2], s as [x y z], ax; cbn [getb getc wrap_v bx by_ bz vx vy vz]; split; intro H; rewrite H;
    cbn [wrapc]; try reflexivity;
    match goal with |- context [wrap1 ?q] => destruct (wrap1_spec q) as (A & B & Cc) end;
    (split; [exact A | split; [exact B | eexists; exact Cc]]).
Qed.

(* the wrapped atom is the original one moved by a lattice vector of the periodic directions *)
Theorem wrap_moves_by_lattice_vector m p pbc :
  ~ det m == 0 ->
  exists k0 k1 k2 : Z,
    (bx (expand_pbc pbc) = false -> k0 = 0%Z) /\ (by_ (expand_pbc pbc) = false -> k1 = 0%Z) /\ (bz (expand_pbc pbc) = false -> k2 = 0%Z) /\
    veq (to_cartesian m (to_scaled_w m p true pbc))
        (vsub p (to_cartesian m (mkV (inject_Z k0) (inject_Z k1) (inject_Z k2)))).
Proof.
  intro Hd. destruct (scaled_cartesian_inverse m Hd) as [Inv _].
  unfold to_scaled_w. set (s := to_scaled m p). set (pb := expand_pbc pbc).
  assert (Hp : veq p (to_cartesian m s)) by (symmetry; apply Inv).
  exists (if bx pb then Qfloor (vx s) else 0%Z), (if by_ pb then Qfloor (vy s) else 0%Z), (if bz pb then Qfloor (vz s) else 0%Z).
  split; [intro H; rewrite H; reflexivity|].
  split; [intro H; rewrite H; reflexivity|].
  split; [intro H; rewrite H; reflexivity|].
  rewrite Hp at 1. rewrite !to_cart_R.
  unfold wrap_v, wrapc, wrap1. destruct (bx pb), (by_ pb), (bz pb); raw; repeat split; ring.
Qed.

Example wrap_example :
  wrap_v (mkB true false true) (mkV (-(5#4)) (-(5#4)) (9#4)) = mkV (3#4) (-(5#4)) (1#4).
Proof. reflexivity. Qed.

(* get_wrapped_positions: inside [0,1), and an integer shift up to the snapping precision *)
Theorem wrapped_snap_spec prec q : 0 < prec ->
  0 <= wrapped_snap1 prec q /\ wrapped_snap1 prec q < 1 /\
  exists k : Z, Qabs (wrapped_snap1 prec q - (q - inject_Z k)) < prec.
Proof.
  intro Hp. unfold wrapped_snap1. destruct (wrap1_spec q) as (A & B & Cc).
  unfold Qlt_bool.
  destruct (Qle_bool prec (Qabs (wrap1 q))) eqn:E1; cbn [negb].
  - destruct (Qle_bool prec (Qabs (Qabs (wrap1 q) - 1))) eqn:E2; cbn [negb].
    + repeat split; try assumption. exists (Qfloor q). rewrite Cc.
      setoid_replace (q - inject_Z (Qfloor q) - (q - inject_Z (Qfloor q))) with 0 by ring. exact Hp.
    + repeat split; try lra. exists (Qfloor q + 1)%Z.
      assert (H2 : Qabs (Qabs (wrap1 q) - 1) < prec).
      { apply Qnot_le_lt. intro Hc. apply Qle_bool_iff in Hc. congruence. }
      rewrite (Qabs_pos (wrap1 q)) in H2 by exact A.
      rewrite inject_Z_plus. change (inject_Z 1) with 1.
      setoid_replace (0 - (q - (inject_Z (Qfloor q) + 1))) with (- (wrap1 q - 1)) by (rewrite Cc; ring).
      rewrite Qabs_opp. exact H2.
  - repeat split; try lra. exists (Qfloor q).
    assert (H1 : Qabs (wrap1 q) < prec).
    { apply Qnot_le_lt. intro Hc. apply Qle_bool_iff in Hc. congruence. }
    setoid_replace (0 - (q - inject_Z (Qfloor q))) with (- wrap1 q) by (rewrite Cc; ring).
    rewrite Qabs_opp. exact H1.
Qed.

(* ---------- swap_basis ---------- *)
Theorem swap_basis_spec s a b :
  let r := swap_basis s a b in
  row a (s_cell r) = row b (s_cell s) /\ row b (s_cell r) = row a (s_cell s) /\
  getb a (s_pbc r) = getb b (s_pbc s) /\ getb b (s_pbc r) = getb a (s_pbc s) /\
  (forall c, c <> a -> c <> b -> row c (s_cell r) = row c (s_cell s) /\ getb c (s_pbc r) = getb c (s_pbc s)) /\
  s_pos r = s_pos s.
Proof.
  destruct s as [[x y z] [p0 p1 p2] ps].
  destruct a, b; cbn; (split; [|split; [|split; [|split; [|split]]]]); try reflexivity; intros c0 Ha Hb; destruct c0; try congruence; split; reflexivity.
Qed.

Theorem swap_basis_involutive s a b : swap_basis (swap_basis s a b) a b = s.
Proof. destruct s as [[x y z] [p0 p1 p2] ps]. destruct a, b; reflexivity. Qed.

(* ---------- complete_cell ---------- *)
Theorem complete_cell_spec a b len N :
  ~ N == 0 -> N * N == dot (cross a b) (cross a b) ->
  let c := complete_cell a b len N in
  dot c a == 0 /\ dot c b == 0 /\ dot c c == len * len.
Proof.
  intros HN HL c. subst c. unfold complete_cell.
  rewrite !dot_R in *. rewrite !cross_R in *.
  destruct a as [a0 a1 a2], b as [b0 b1 b2]. raw.
  repeat split.
  - field. exact HN.
  - field. exact HN.
  - transitivity (len * len * ((a1 * b2 - a2 * b1) * (a1 * b2 - a2 * b1) + (a2 * b0 - a0 * b2) * (a2 * b0 - a0 * b2) + (a0 * b1 - a1 * b0) * (a0 * b1 - a1 * b0)) / (N * N)).
    + field. exact HN.
    + rewrite <- HL. field. exact HN.
Qed.

Example complete_cell_example :
  let a := mkV 1 2 2 in let b := mkV 2 1 (-2) in   (* a x b = (-6, 6, -3), |a x b| = 9 *)
  9 * 9 == dot (cross a b) (cross a b) /\ veq (complete_cell a b (3#2) 9) (mkV (-1) 1 (-(1#2))).
Proof. cbv zeta. split; [reflexivity | unfold veq; repeat split; reflexivity]. Qed.

(* ---------- inertia tensor ---------- *)
Lemma combine_map_same {A B C} (f : A -> B) (g : A -> C) l :
  combine (map f l) (map g l) = map (fun x => (f x, g x)) l.
Proof. induction l; cbn; [reflexivity | rewrite IHl; reflexivity]. Qed.

Lemma wsum_R w ws x xs : wsum (w :: ws) (x :: xs) == w * x + wsum ws xs.
Proof. cbn [wsum]. apply Qred_correct. Qed.

Lemma wsum_ext_map {A} (f g : A -> Q) ws l :
  (forall x, f x == g x) -> wsum ws (map f l) == wsum ws (map g l).
Proof.
  intro H. revert ws. induction l as [|x l IH]; intros ws.
  - reflexivity.
  - destruct ws as [|w ws]; [reflexivity|]. cbn [map]. rewrite !wsum_R. rewrite H, (IH ws). reflexivity.
Qed.

Lemma wsum_opp_map {A} (f : A -> Q) ws l : - wsum ws (map f l) == wsum ws (map (fun x => 0 - f x) l).
Proof.
  revert ws. induction l as [|x l IH]; intros ws.
  - destruct ws; reflexivity.
  - destruct ws as [|w ws]; [reflexivity|]. cbn [map]. rewrite !wsum_R. rewrite <- (IH ws). ring.
Qed.

(* the tensor the code assembles, entry by entry, as weighted sums over the atoms *)
Definition d (c p : V3) := vsub p c.
Lemma inertia_entries ws ps c :
  inertia ws ps c =
  let S := fun f => wsum ws (map f ps) in
  let I11 := S (fun p => vy (d c p) * vy (d c p) + vz (d c p) * vz (d c p)) in
  let I22 := S (fun p => vx (d c p) * vx (d c p) + vz (d c p) * vz (d c p)) in
  let I33 := S (fun p => vx (d c p) * vx (d c p) + vy (d c p) * vy (d c p)) in
  let I12 := - S (fun p => vx (d c p) * vy (d c p)) in
  let I13 := - S (fun p => vx (d c p) * vz (d c p)) in
  let I23 := - S (fun p => vy (d c p) * vz (d c p)) in
  mkM (mkV I11 I12 I13) (mkV I12 I22 I23) (mkV I13 I23 I33).
Proof.
  unfold inertia. cbv zeta. rewrite !map_map. rewrite !combine_map_same. rewrite !map_map.
  unfold d. cbn [fst snd]. reflexivity.
Qed.

Theorem inertia_tensor_symmetric ws ps c : transpose (inertia ws ps c) = inertia ws ps c.
Proof. reflexivity. Qed.

(* I_ij = sum_k w_k (delta_ij r_k^2 - x_ki x_kj): the formula of the docstring *)
Definition ment (m : M3) (i j : axis) : Q := getc j (row i m).
Theorem inertia_matches_definition ws ps c i j :
  ment (inertia ws ps c) i j ==
  wsum ws (map (fun p => (if axis_eqb i j then dotR (d c p) (d c p) else 0) - getc i (d c p) * getc j (d c p)) ps).
Proof.
  rewrite inertia_entries. cbv beta zeta. unfold ment.
  destruct i, j; cbn [row getc r0 r1 r2 vx vy vz axis_eqb];
    try rewrite wsum_opp_map; apply wsum_ext_map; intro p; unfold dotR; ring.
Qed.

(* rigid translation of the atoms together with the centre leaves the tensor unchanged *)
Theorem inertia_translation_invariant ws ps c t :
  meq (inertia ws (map (vadd t) ps) (vadd t c)) (inertia ws ps c).
Proof.
  rewrite !inertia_entries. cbv beta zeta. rewrite !map_map.
  assert (E : forall (f g : V3 -> Q), (forall p, f p == g p) -> wsum ws (map f ps) == wsum ws (map g ps))
    by (intros; apply wsum_ext_map; assumption).
  unfold meq, veq; cbn [r0 r1 r2 vx vy vz]; repeat split; try apply Qopp_comp; apply E; intro p;
    unfold d, vsub, vadd; cbn [vx vy vz]; ring.
Qed.

(* ---------- minimum / maximum of a non-empty list ---------- *)
Lemma Qle_bool_false x y : Qle_bool x y = false -> y < x.
Proof. intro H. apply Qnot_le_lt. intro Hc. apply Qle_bool_iff in Hc. congruence. Qed.

Lemma qmin_le_l x y : qmin x y <= x.
Proof. unfold qmin. destruct (Qle_bool x y) eqn:E; [lra | apply Qle_bool_false in E; lra]. Qed.
Lemma qmin_le_r x y : qmin x y <= y.
Proof. unfold qmin. destruct (Qle_bool x y) eqn:E; [apply Qle_bool_iff in E; lra | lra]. Qed.
Lemma qmin_cases x y : qmin x y = x \/ qmin x y = y.
Proof. unfold qmin. destruct (Qle_bool x y); auto. Qed.
Lemma qmax_ge_l x y : x <= qmax x y.
Proof. unfold qmax. destruct (Qle_bool x y) eqn:E; [apply Qle_bool_iff in E; lra | lra]. Qed.
Lemma qmax_ge_r x y : y <= qmax x y.
Proof. unfold qmax. destruct (Qle_bool x y) eqn:E; [lra | apply Qle_bool_false in E; lra]. Qed.
Lemma qmax_cases x y : qmax x y = x \/ qmax x y = y.
Proof. unfold qmax. destruct (Qle_bool x y); auto. Qed.

Lemma fold_qmin_le t : forall h x, x = h \/ In x t -> fold_right qmin h t <= x.
Proof.
  induction t as [|a t IH]; intros h x [H|H]; cbn [fold_right].
  - subst; lra.
  - destruct H.
  - apply Qle_trans with (fold_right qmin h t); [apply qmin_le_r | apply IH; auto].
  - destruct H as [H|H]; [subst; apply qmin_le_l|].
    apply Qle_trans with (fold_right qmin h t); [apply qmin_le_r | apply IH; auto].
Qed.
Lemma fold_qmin_in t : forall h, fold_right qmin h t = h \/ In (fold_right qmin h t) t.
Proof.
  induction t as [|a t IH]; intros h; cbn [fold_right]; [auto|].
  destruct (qmin_cases a (fold_right qmin h t)) as [E|E]; rewrite E; [right; left; reflexivity|].
  destruct (IH h) as [H|H]; [auto | right; right; exact H].
Qed.
Lemma fold_qmax_ge t : forall h x, x = h \/ In x t -> x <= fold_right qmax h t.
Proof.
  induction t as [|a t IH]; intros h x [H|H]; cbn [fold_right].
  - subst; lra.
  - destruct H.
  - apply Qle_trans with (fold_right qmax h t); [apply IH; auto | apply qmax_ge_r].
  - destruct H as [H|H]; [subst; apply qmax_ge_l|].
    apply Qle_trans with (fold_right qmax h t); [apply IH; auto | apply qmax_ge_r].
Qed.
Lemma fold_qmax_in t : forall h, fold_right qmax h t = h \/ In (fold_right qmax h t) t.
Proof.
  induction t as [|a t IH]; intros h; cbn [fold_right]; [auto|].
  destruct (qmax_cases a (fold_right qmax h t)) as [E|E]; rewrite E; [right; left; reflexivity|].
  destruct (IH h) as [H|H]; [auto | right; right; exact H].
Qed.

Lemma lmin_le l x : In x l -> lmin l <= x.
Proof. destruct l as [|h t]; [intros []|]. intros [H|H]; apply fold_qmin_le; auto. Qed.
Lemma lmax_ge l x : In x l -> x <= lmax l.
Proof. destruct l as [|h t]; [intros []|]. intros [H|H]; apply fold_qmax_ge; auto. Qed.
Lemma lmin_in l : l <> [] -> In (lmin l) l.
Proof. destruct l as [|h t]; [congruence|]. intros _. cbn [lmin]. destruct (fold_qmin_in t h) as [E|E]; [left; symmetry; exact E | right; exact E]. Qed.
Lemma lmax_in l : l <> [] -> In (lmax l) l.
Proof. destruct l as [|h t]; [congruence|]. intros _. cbn [lmax]. destruct (fold_qmax_in t h) as [E|E]; [left; symmetry; exact E | right; exact E]. Qed.

(* ---------- change of one cell vector by a scalar factor ---------- *)
#[export] Instance meq_Equiv : Equivalence meq.
Proof.
  split.
  - intros [a b c]; split; [|split]; reflexivity.
  - intros x y (H1 & H2 & H3); split; [|split]; symmetry; assumption.
  - intros x y z (H1 & H2 & H3) (G1 & G2 & G3); split; [|split]; etransitivity; eassumption.
Qed.

Lemma detR_proper m m' : meq m m' -> detR m == detR m'.
Proof. intros (H1 & H2 & H3). unfold detR. rewrite H1, H2, H3. reflexivity. Qed.
Lemma to_scaledR_proper_m m m' p : meq m m' -> veq (to_scaledR m p) (to_scaledR m' p).
Proof.
  intros H. pose proof (detR_proper _ _ H) as Hd. destruct H as (H1 & H2 & H3).
  unfold to_scaledR, veq; cbn [vx vy vz]. rewrite Hd, H1, H2, H3. repeat split; reflexivity.
Qed.
Lemma to_cartR_proper_m m m' s : meq m m' -> veq (to_cartR m s) (to_cartR m' s).
Proof. intros (H1 & H2 & H3). unfold to_cartR. rewrite H1, H2, H3. reflexivity. Qed.
Lemma set_row_proper ax m v v' : veq v v' -> meq (set_row ax m v) (set_row ax m v').
Proof. intro H. destruct ax; cbn [set_row]; unfold meq; cbn [r0 r1 r2]; repeat split; try reflexivity; apply H. Qed.

Lemma detR_rowscale ax m k : detR (set_row ax m (vscale k (row ax m))) == k * detR m.
Proof. destruct m as [[a b c] [d0 e f] [g h i]]. destruct ax; raw; ring. Qed.

Lemma scaledR_rowscale ax m k q : ~ detR m == 0 -> ~ k == 0 ->
  veq (to_scaledR (set_row ax m (vscale k (row ax m))) q)
      (setc ax (to_scaledR m q) (getc ax (to_scaledR m q) / k)).
Proof.
  destruct m as [[a b c] [d0 e f] [g h i]], q as [x y z]. intros Hd Hk.
  destruct ax; raw; repeat split; field; repeat split; try assumption;
    (intro E; assert (E' : k * (a * (e * i - f * h) + b * (f * g - d0 * i) + c * (d0 * h - e * g)) == 0) by (rewrite <- E; ring);
     apply Qmult_integral in E'; tauto).
Qed.
Lemma cartR_rowscale ax m k s :
  veq (to_cartR (set_row ax m (vscale k (row ax m))) s) (to_cartR m (setc ax s (k * getc ax s))).
Proof. destruct m as [[a b c] [d0 e f] [g h i]], s as [x y z]. destruct ax; raw; repeat split; ring. Qed.
Lemma cartR_unit ax m x : veq (to_cartR m (setc ax vzero x)) (vscale x (row ax m)).
Proof. destruct m as [[a b c] [d0 e f] [g h i]]. destruct ax; raw; repeat split; ring. Qed.
Lemma cartR_sub_unit ax m s x : veq (to_cartR m (vsub s (setc ax vzero x))) (vsub (to_cartR m s) (vscale x (row ax m))).
Proof. destruct m as [[a b c] [d0 e f] [g h i]], s as [s0 s1 s2]. destruct ax; raw; repeat split; ring. Qed.

(* ---------- component access ---------- *)
#[export] Instance setc_proper ax : Proper (veq ==> Qeq ==> veq) (setc ax).
Proof. intros s s' (H1 & H2 & H3) x x' Hx. destruct ax; unfold veq; cbn [setc vx vy vz]; repeat split; assumption. Qed.
Lemma getc_setc_same ax s x : getc ax (setc ax s x) = x.
Proof. destruct ax; reflexivity. Qed.
Lemma getc_setc_other a ax s x : a <> ax -> getc a (setc ax s x) = getc a s.
Proof. destruct a, ax; try reflexivity; congruence. Qed.
Lemma getc_vsub a u v : getc a (vsub u v) = getc a u - getc a v.
Proof. destruct a; reflexivity. Qed.
Lemma veq_by_getc s s' : (forall a, getc a s == getc a s') -> veq s s'.
Proof. intro H. split; [apply (H A0) | split; [apply (H A1) | apply (H A2)]]. Qed.
Lemma axis_eq_dec (a b : axis) : {a = b} + {a <> b}.
Proof. destruct a, b; (left; reflexivity) || (right; discriminate). Qed.

Lemma Forall_map_intro {A B} (P : B -> Prop) (f : A -> B) l : (forall x, In x l -> P (f x)) -> Forall P (map f l).
Proof. intro H. apply Forall_forall. intros y Hy. apply in_map_iff in Hy. destruct Hy as (x & <- & Hx). auto. Qed.
Lemma Forall2_map_intro {A B} (R : A -> B -> Prop) (f : A -> B) l : (forall x, In x l -> R x (f x)) -> Forall2 R l (map f l).
Proof. induction l as [|a l IH]; intro H; cbn [map]; constructor; [apply H; left; reflexivity | apply IH; intros; apply H; right; assumption]. Qed.
Lemma Exists_map_intro {A B} (P : B -> Prop) (f : A -> B) l x : In x l -> P (f x) -> Exists P (map f l).
Proof. intros Hx Hp. apply Exists_exists. exists (f x). split; [apply in_map; exact Hx | exact Hp]. Qed.

Lemma sq_lt a b : 0 <= a -> a < b -> a * a < b * b. Proof. intros; nra. Qed.
Lemma sq_le a b : 0 < a -> a <= b -> a * a <= b * b. Proof. intros; nra. Qed.
Lemma pos_factor e L ms : 0 < ms -> 0 < L -> 0 <= e -> ~ e * L < ms -> 0 < e.
Proof. intros H1 H2 H3 H4. destruct (Qlt_le_dec 0 e) as [H|H]; [exact H|]. exfalso. apply H4. assert (E : e == 0) by lra. rewrite E. lra. Qed.
Lemma div_bounds N D : 0 < D -> 0 <= N -> N <= D -> 0 <= N / D /\ N / D <= 1.
Proof.
  intros HD H0 H1. split.
  - apply Qle_shift_div_l; [exact HD | lra].
  - apply Qle_shift_div_r; [exact HD | lra].
Qed.

Section MinCell.
Variables (m : M3) (pbc : B3) (nums : list Z) (ps : list V3) (ax : axis) (ms L : Q).
Hypothesis Hdet : ~ det m == 0.
Hypothesis Hne : ps <> [].
Hypothesis Hms : 0 < ms.
Hypothesis HL : 0 < L.
Hypothesis HLL : L * L == dot (row ax m) (row ax m).

Definition mc_f (p : V3) : Q := getc ax (to_scaled m p).
Definition mc_comps := map mc_f ps.
Definition mc_smin := lmin mc_comps.
Definition mc_smax := lmax mc_comps.
Definition mc_e := mc_smax - mc_smin.
Let c := row ax m.

Lemma HdetR : ~ detR m == 0. Proof. rewrite <- det_R. exact Hdet. Qed.

Lemma comps_ne : mc_comps <> [].
Proof. unfold mc_comps. destruct ps; [congruence | discriminate]. Qed.
Lemma f_bounds p : In p ps -> mc_smin <= mc_f p /\ mc_f p <= mc_smax.
Proof. intro H. split; [apply lmin_le | apply lmax_ge]; apply in_map; exact H. Qed.
Lemma smin_attained : exists p, In p ps /\ mc_f p = mc_smin.
Proof. pose proof (lmin_in _ comps_ne) as H. apply in_map_iff in H. destruct H as (p & E & Hp). exists p; auto. Qed.
Lemma smax_attained : exists p, In p ps /\ mc_f p = mc_smax.
Proof. pose proof (lmax_in _ comps_ne) as H. apply in_map_iff in H. destruct H as (p & E & Hp). exists p; auto. Qed.
Lemma e_nonneg : 0 <= mc_e.
Proof. destruct smin_attained as (p & Hp & E). destruct (f_bounds p Hp). unfold mc_e. lra. Qed.

(* the new axis vector is [k * c] *)
Section NewBasis.
Variables (cn : V3) (k : Q).
Hypothesis Hk : ~ k == 0.
Hypothesis Hcn : veq cn (vscale k c).
Let nb := set_row ax m cn.

Lemma nb_meq : meq nb (set_row ax m (vscale k (row ax m))).
Proof. apply set_row_proper. exact Hcn. Qed.

Lemma scaled_newbasis q : veq (to_scaled nb q) (setc ax (to_scaled m q) (getc ax (to_scaled m q) / k)).
Proof.
  rewrite to_scaled_R. rewrite (to_scaledR_proper_m _ _ q nb_meq).
  rewrite (scaledR_rowscale ax m k q HdetR Hk). rewrite <- to_scaled_R. reflexivity.
Qed.
Lemma cart_newbasis s : veq (to_cartesian nb s) (to_cartesian m (setc ax s (k * getc ax s))).
Proof.
  rewrite to_cart_R. rewrite (to_cartR_proper_m _ _ s nb_meq). rewrite cartR_rowscale. rewrite <- to_cart_R. reflexivity.
Qed.
Lemma det_newbasis : det nb == k * det m.
Proof. rewrite !det_R. rewrite (detR_proper _ _ nb_meq). apply detR_rowscale. Qed.
Lemma det_newbasis_nz : ~ det nb == 0.
Proof. rewrite det_newbasis. intro E. apply Qmult_integral in E. tauto. Qed.
Lemma sqlen_newbasis : dot cn cn == (k * L) * (k * L).
Proof.
  rewrite Hcn. rewrite dot_R. transitivity (k * k * dotR c c).
  - unfold dotR, vscale; cbn [vx vy vz]. ring.
  - rewrite <- dot_R. fold c in HLL. rewrite <- HLL. ring.
Qed.

(* scaled coordinates, in the new basis, of the atom shifted by -smin along the axis *)
Definition s1 (p : V3) := vsub (to_scaled m p) (setc ax vzero mc_smin).
Definition s2 (p : V3) := to_scaled nb (to_cartesian m (s1 p)).

Lemma s2_ax p : getc ax (s2 p) == (mc_f p - mc_smin) / k.
Proof.
  unfold s2. rewrite scaled_newbasis. rewrite getc_setc_same.
  destruct (scaled_cartesian_inverse m Hdet) as [_ Inv]. rewrite (Inv (s1 p)).
  unfold s1, mc_f. destruct ax; cbn [getc setc vsub vzero vx vy vz]; reflexivity.
Qed.
Lemma s2_other a p : a <> ax -> getc a (s2 p) == getc a (to_scaled m p).
Proof.
  intro Ha. unfold s2. rewrite scaled_newbasis. rewrite (getc_setc_other _ _ _ _ Ha).
  destruct (scaled_cartesian_inverse m Hdet) as [_ Inv]. rewrite (Inv (s1 p)).
  unfold s1. destruct a, ax; try congruence; cbn [getc setc vsub vzero vx vy vz]; ring.
Qed.

(* an atom whose new scaled coordinates are those of the old ones, shifted by w and divided by k
   along the axis, sits at p - w c *)
Lemma final_atom w s' p :
  getc ax s' == (mc_f p - w) / k -> (forall a, a <> ax -> getc a s' == getc a (to_scaled m p)) ->
  veq (to_cartesian nb s') (vsub p (vscale w c)).
Proof.
  intros Hax Hoth. rewrite cart_newbasis.
  assert (E : veq (setc ax s' (k * getc ax s')) (vsub (to_scaled m p) (setc ax vzero w))).
  { apply veq_by_getc. intro a. destruct (axis_eq_dec a ax) as [->|Ha].
    - rewrite getc_setc_same. rewrite Hax. unfold mc_f.
      destruct ax; cbn [getc setc vsub vzero vx vy vz]; field; exact Hk.
    - rewrite (getc_setc_other _ _ _ _ Ha). rewrite (Hoth a Ha).
      destruct a, ax; try congruence; cbn [getc setc vsub vzero vx vy vz]; ring. }
  rewrite E. rewrite to_cart_R. rewrite cartR_sub_unit. rewrite <- to_cart_R.
  destruct (scaled_cartesian_inverse m Hdet) as [Inv _]. rewrite (Inv p). reflexivity.
Qed.

(* the offset vector u * c in the new basis *)
Lemma off_ax u q : veq q (vscale u c) -> getc ax (to_scaled nb q) == u / k.
Proof.
  intro Hq. rewrite scaled_newbasis. rewrite getc_setc_same.
  assert (E : veq q (to_cartesian m (setc ax vzero u))) by (rewrite Hq, to_cart_R, cartR_unit; reflexivity).
  rewrite E. destruct (scaled_cartesian_inverse m Hdet) as [_ Inv]. rewrite (Inv _). rewrite getc_setc_same. reflexivity.
Qed.
Lemma off_other u q a : veq q (vscale u c) -> a <> ax -> getc a (to_scaled nb q) == 0.
Proof.
  intros Hq Ha. rewrite scaled_newbasis. rewrite (getc_setc_other _ _ _ _ Ha).
  assert (E : veq q (to_cartesian m (setc ax vzero u))) by (rewrite Hq, to_cart_R, cartR_unit; reflexivity).
  rewrite E. destruct (scaled_cartesian_inverse m Hdet) as [_ Inv]. rewrite (Inv _). rewrite (getc_setc_other _ _ _ _ Ha).
  destruct a; reflexivity.
Qed.
End NewBasis.

Lemma c_real_eq :
  veq (vsub (to_cartesian m (setc ax vzero mc_smax)) (to_cartesian m (setc ax vzero mc_smin))) (vscale mc_e c).
Proof.
  rewrite !to_cart_R, !cartR_unit. unfold mc_e, c, vsub, vscale, veq; cbn [vx vy vz]. repeat split; ring.
Qed.
Lemma c_infl_eq : veq (vscale ms (vscale (/ L) c)) (vscale (ms / L) c).
Proof. unfold vscale, veq; cbn [vx vy vz]. repeat split; field; lra. Qed.


Lemma padded_iff : Qlt_bool (Qabs mc_e * L) ms = true <-> mc_e * L < ms.
Proof.
  pose proof (Qabs_pos _ e_nonneg) as Ha.
  unfold Qlt_bool. destruct (Qle_bool ms (Qabs mc_e * L)) eqn:E; cbn [negb].
  - apply Qle_bool_iff in E. rewrite Ha in E. split; [discriminate | intro H; lra].
  - apply Qle_bool_false in E. rewrite Ha in E. split; [intros _; exact E | reflexivity].
Qed.

Lemma min_cell_eq :
  min_cell m pbc nums ps ax ms L =
  let c_real := vsub (to_cartesian m (setc ax vzero mc_smax)) (to_cartesian m (setc ax vzero mc_smin)) in
  let c_infl := vscale ms (vscale (/ L) c) in
  let padded := Qlt_bool (Qabs mc_e * L) ms in
  let cn := if padded then c_infl else c_real in
  let nb := set_row ax m cn in
  let off := to_scaled nb (vscale (1 # 2) (vsub c_real c_infl)) in
  let sc := if padded then map (fun p => vsub (s2 cn p) off) ps else map (s2 cn) ps in
  mkMinCell nb sc (map (to_cartesian nb) sc) nums pbc padded.
Proof.
  unfold min_cell. cbv zeta. rewrite !map_map. reflexivity.
Qed.

Definition mc_lo := (1 - mc_e * L / ms) / 2.
Definition mc_hi := (1 + mc_e * L / ms) / 2.

Lemma k_pad_pos : 0 < ms / L. Proof. apply Qlt_shift_div_l; lra. Qed.

Lemma pad_value x : (x - mc_smin) / (ms / L) - (mc_e - ms / L) / 2 / (ms / L) == ((x - mc_smin) * L - (mc_e * L - ms) * (1 # 2)) / ms.
Proof. field. split; lra. Qed.

Lemma pad_bounds x : mc_e * L < ms -> mc_smin <= x -> x <= mc_smax ->
  0 <= (x - mc_smin) / (ms / L) - (mc_e - ms / L) / 2 / (ms / L) /\ (x - mc_smin) / (ms / L) - (mc_e - ms / L) / 2 / (ms / L) <= 1.
Proof.
  intros Hp H1 H2. rewrite pad_value.
  assert (A1 : 0 <= (x - mc_smin) * L) by (apply Qmult_le_0_compat; lra).
  assert (A2 : 0 <= (mc_smax - x) * L) by (apply Qmult_le_0_compat; lra).
  apply div_bounds; [exact Hms | |]; unfold mc_e in *; lra.
Qed.
Lemma pad_lo : (mc_smin - mc_smin) / (ms / L) - (mc_e - ms / L) / 2 / (ms / L) == mc_lo.
Proof. unfold mc_lo. field. split; lra. Qed.
Lemma pad_hi : (mc_smax - mc_smin) / (ms / L) - (mc_e - ms / L) / 2 / (ms / L) == mc_hi.
Proof. unfold mc_hi, mc_e. field. split; lra. Qed.
Lemma pad_between x : mc_smin <= x -> x <= mc_smax ->
  mc_lo <= (x - mc_smin) / (ms / L) - (mc_e - ms / L) / 2 / (ms / L) /\ (x - mc_smin) / (ms / L) - (mc_e - ms / L) / 2 / (ms / L) <= mc_hi.
Proof.
  intros H1 H2. rewrite pad_value. unfold mc_lo, mc_hi.
  setoid_replace ((1 - mc_e * L / ms) / 2) with (((mc_smin - mc_smin) * L - (mc_e * L - ms) * (1 # 2)) / ms) by (field; lra).
  setoid_replace ((1 + mc_e * L / ms) / 2) with (((mc_smax - mc_smin) * L - (mc_e * L - ms) * (1 # 2)) / ms) by (unfold mc_e; field; lra).
  assert (A1 : 0 <= (x - mc_smin) * L) by (apply Qmult_le_0_compat; lra).
  assert (A2 : 0 <= (mc_smax - x) * L) by (apply Qmult_le_0_compat; lra).
  split; (apply Qmult_le_compat_r; [lra | apply Qlt_le_weak, Qinv_lt_0_compat, Hms]).
Qed.

Definition mc_spec (r : MinCell) : Prop :=
  (* the same atoms, species and periodicity *)
  mc_numbers r = nums /\ mc_pbc r = pbc /\ length (mc_pos r) = length ps /\
  mc_pos r = map (to_cartesian (mc_cell r)) (mc_scaled r) /\
  (* the atoms are moved by one common translation (along the axis): mutual displacements unchanged *)
  (exists w, Forall2 (fun p p' => veq p' (vsub p (vscale w (row ax m)))) ps (mc_pos r)) /\
  (* the cell differs only along the chosen axis *)
  (forall a, a <> ax -> row a (mc_cell r) = row a m) /\
  (exists k, 0 < k /\ veq (row ax (mc_cell r)) (vscale k (row ax m))) /\
  ~ det (mc_cell r) == 0 /\
  (* its length there is max(extent, min_size) *)
  dot (row ax (mc_cell r)) (row ax (mc_cell r)) == qmax ((mc_e * L) * (mc_e * L)) (ms * ms) /\
  (mc_padded r = true <-> mc_e * L < ms) /\
  (* all atoms inside along the axis; the other scaled coordinates are the old ones *)
  Forall (fun s => 0 <= getc ax s /\ getc ax s <= 1) (mc_scaled r) /\
  Forall2 (fun p s => forall a, a <> ax -> getc a s == getc a (to_scaled m p)) ps (mc_scaled r) /\
  (* centred when padded: smallest + largest coordinate = 1 *)
  (mc_padded r = true ->
     exists lo hi, lo + hi == 1 /\ Forall (fun s => lo <= getc ax s /\ getc ax s <= hi) (mc_scaled r) /\
                   Exists (fun s => getc ax s == lo) (mc_scaled r) /\ Exists (fun s => getc ax s == hi) (mc_scaled r)) /\
  (* not padded: the extreme atoms sit on the two faces *)
  (mc_padded r = false ->
     Exists (fun s => getc ax s == 0) (mc_scaled r) /\ Exists (fun s => getc ax s == 1) (mc_scaled r)).

Lemma row_set_row_same v : row ax (set_row ax m v) = v. Proof. destruct ax; reflexivity. Qed.
Lemma row_set_row_other a v : a <> ax -> row a (set_row ax m v) = row a m.
Proof. destruct a, ax; try reflexivity; congruence. Qed.

Theorem minimized_cell_spec_sec : mc_spec (min_cell m pbc nums ps ax ms L).
Proof.
  rewrite min_cell_eq. cbv zeta. unfold mc_spec.
  pose proof e_nonneg as He.
  destruct (Qlt_bool (Qabs mc_e * L) ms) eqn:Hpad; cbn [mc_cell mc_scaled mc_pos mc_numbers mc_pbc mc_padded].
  - (* padded *)
    assert (Hp : mc_e * L < ms) by (apply padded_iff; exact Hpad).
    set (cn := vscale ms (vscale (/ L) c)).
    set (k := ms / L).
    assert (Hk0 : 0 < k) by apply k_pad_pos.
    assert (Hk : ~ k == 0) by lra.
    assert (Hcn : veq cn (vscale k c)) by apply c_infl_eq.
    set (cr := vsub (to_cartesian m (setc ax vzero mc_smax)) (to_cartesian m (setc ax vzero mc_smin))).
    set (u := (mc_e - ms / L) / 2).
    assert (Hoffv : veq (vscale (1 # 2) (vsub cr cn)) (vscale u c)).
    { unfold cr. rewrite c_real_eq. rewrite Hcn. unfold u, k, vscale, vsub, veq; cbn [vx vy vz]. repeat split; field; lra. }
    set (off := to_scaled (set_row ax m cn) (vscale (1 # 2) (vsub cr cn))).
    assert (Hax : forall p, getc ax (vsub (s2 cn p) off) == (mc_f p - mc_smin) / k - u / k).
    { intro p. rewrite getc_vsub.
      rewrite (s2_ax cn k Hk Hcn p). unfold off. rewrite (off_ax cn k Hk Hcn u _ Hoffv). reflexivity. }
    assert (Hoth : forall p a, a <> ax -> getc a (vsub (s2 cn p) off) == getc a (to_scaled m p)).
    { intros p a Ha. rewrite getc_vsub.
      rewrite (s2_other cn k Hk Hcn a p Ha). unfold off. rewrite (off_other cn k Hk Hcn u _ a Hoffv Ha). ring. }
    repeat match goal with |- _ /\ _ => split end.
    + reflexivity.
    + reflexivity.
    + rewrite !map_length. reflexivity.
    + reflexivity.
    + exists (mc_smin + u). rewrite map_map. apply Forall2_map_intro. intros p Hin.
      apply (final_atom cn k Hk Hcn). 
      * rewrite Hax. field. exact Hk.
      * apply Hoth.
    + intros a Ha. apply row_set_row_other. exact Ha.
    + exists k. split; [exact Hk0|]. rewrite row_set_row_same. exact Hcn.
    + apply (det_newbasis_nz cn k Hk Hcn).
    + rewrite row_set_row_same. rewrite (sqlen_newbasis cn k Hcn).
      unfold qmax. destruct (Qle_bool (mc_e * L * (mc_e * L)) (ms * ms)) eqn:E.
      * unfold k. field. lra.
      * apply Qle_bool_false in E. pose proof (sq_lt _ _ (Qmult_le_0_compat _ _ He (Qlt_le_weak _ _ HL)) Hp). lra.
    + split; [intros _; exact Hp | reflexivity].
    + apply Forall_map_intro. intros p Hin. rewrite Hax. destruct (f_bounds p Hin). apply pad_bounds; assumption.
    + apply Forall2_map_intro. intros p Hin. apply Hoth.
    + intros _. exists mc_lo, mc_hi. split; [unfold mc_lo, mc_hi; field; lra|]. split; [|split].
      * apply Forall_map_intro. intros p Hin. rewrite Hax. destruct (f_bounds p Hin). apply pad_between; assumption.
      * destruct smin_attained as (p & Hin & E). apply (Exists_map_intro _ _ _ p Hin). rewrite Hax, E. apply pad_lo.
      * destruct smax_attained as (p & Hin & E). apply (Exists_map_intro _ _ _ p Hin). rewrite Hax, E. apply pad_hi.
    + discriminate.
  - (* not padded: the cell vector becomes the extent vector *)
    assert (Hp : ~ mc_e * L < ms) by (intro H; apply padded_iff in H; congruence).
    set (cn := vsub (to_cartesian m (setc ax vzero mc_smax)) (to_cartesian m (setc ax vzero mc_smin))).
    set (k := mc_e).
    assert (Hk0 : 0 < k) by (apply (pos_factor mc_e L ms Hms HL He Hp)).
    assert (Hk : ~ k == 0) by lra.
    assert (Hcn : veq cn (vscale k c)) by apply c_real_eq.
    repeat match goal with |- _ /\ _ => split end.
    + reflexivity.
    + reflexivity.
    + rewrite !map_length. reflexivity.
    + reflexivity.
    + exists mc_smin. rewrite map_map. apply Forall2_map_intro. intros p Hin.
      apply (final_atom cn k Hk Hcn).
      * apply (s2_ax cn k Hk Hcn).
      * intros a Ha. apply (s2_other cn k Hk Hcn a p Ha).
    + intros a Ha. apply row_set_row_other. exact Ha.
    + exists k. split; [exact Hk0|]. rewrite row_set_row_same. exact Hcn.
    + apply (det_newbasis_nz cn k Hk Hcn).
    + rewrite row_set_row_same. rewrite (sqlen_newbasis cn k Hcn).
      unfold qmax, k. destruct (Qle_bool (mc_e * L * (mc_e * L)) (ms * ms)) eqn:E.
      * apply Qle_bool_iff in E. apply Qle_antisym; [exact E | apply (sq_le _ _ Hms); apply Qnot_lt_le; exact Hp].
      * reflexivity.
    + split; [discriminate | intro H; contradiction].
    + apply Forall_map_intro. intros p Hin. rewrite (s2_ax cn k Hk Hcn). destruct (f_bounds p Hin).
      apply div_bounds; unfold k, mc_e in *; lra.
    + apply Forall2_map_intro. intros p Hin a Ha. apply (s2_other cn k Hk Hcn a p Ha).
    + discriminate.
    + intros _. split.
      * destruct smin_attained as (p & Hin & E). apply (Exists_map_intro _ _ _ p Hin). rewrite (s2_ax cn k Hk Hcn), E. field. exact Hk.
      * destruct smax_attained as (p & Hin & E). apply (Exists_map_intro _ _ _ p Hin). rewrite (s2_ax cn k Hk Hcn), E. unfold k, mc_e. field. exact Hk.
Qed.
End MinCell.

(* ---------- the statement about get_minimized_cell, closed ---------- *)
Theorem minimized_cell_spec m pbc nums ps ax ms L :
  ~ det m == 0 -> ps <> [] -> 0 < ms -> 0 < L -> L * L == dot (row ax m) (row ax m) ->
  mc_spec m pbc nums ps ax ms L (min_cell m pbc nums ps ax ms L).
Proof. intros. apply minimized_cell_spec_sec; assumption. Qed.

Lemma Forall2_nth {A B} (R : A -> B -> Prop) l l' d d' i :
  Forall2 R l l' -> (i < length l)%nat -> R (nth i l d) (nth i l' d').
Proof.
  intro H. revert i. induction H; intros i Hi; cbn [length] in Hi; [lia|].
  destruct i; cbn [nth]; [assumption | apply IHForall2; lia].
Qed.

(* pairwise displacements between atoms are unchanged *)
Corollary minimized_cell_displacements m pbc nums ps ax ms L :
  ~ det m == 0 -> ps <> [] -> 0 < ms -> 0 < L -> L * L == dot (row ax m) (row ax m) ->
  let r := min_cell m pbc nums ps ax ms L in
  forall i j d, (i < length ps)%nat -> (j < length ps)%nat ->
    veq (vsub (nth i (mc_pos r) d) (nth j (mc_pos r) d)) (vsub (nth i ps d) (nth j ps d)).
Proof.
  intros H1 H2 H3 H4 H5 r i j d Hi Hj.
  destruct (minimized_cell_spec m pbc nums ps ax ms L H1 H2 H3 H4 H5) as (_ & _ & _ & _ & (w & Hw) & _).
  pose proof (Forall2_nth _ _ _ d d i Hw Hi) as Ei. pose proof (Forall2_nth _ _ _ d d j Hw Hj) as Ej.
  cbv beta in Ei, Ej. fold r in Ei, Ej. rewrite Ei, Ej.
  unfold vsub, vscale, veq; cbn [vx vy vz]. repeat split; ring.
Qed.

(* non-vacuity: a padded and an un-padded instance in a sheared cell whose third vector (1,2,2)*2 has length 6 *)
Definition ex_cell := mkM (mkV 3 0 0) (mkV 1 4 0) (mkV 2 4 4).
Definition ex_atoms := [mkV 1 1 1; mkV 2 3 2; mkV (-1) 0 (7 # 2)].
Example minimized_cell_hyps :
  ~ det ex_cell == 0 /\ ex_atoms <> [] /\ 6 * 6 == dot (row A2 ex_cell) (row A2 ex_cell).
Proof. repeat split; [intro H; vm_compute in H; discriminate H | discriminate]. Qed.
Example minimized_cell_padded :
  let r := min_cell ex_cell (mkB true true false) [1; 8; 1]%Z ex_atoms A2 5 6 in
  mc_padded r = true /\ meq (mc_cell r) (mkM (mkV 3 0 0) (mkV 1 4 0) (mkV (5 # 3) (10 # 3) (10 # 3)))
  /\ map (getc A2) (map vred (mc_scaled r)) = [1 # 8; 17 # 40; 7 # 8].
Proof. vm_compute. repeat split. Qed.
Example minimized_cell_not_padded :
  let r := min_cell ex_cell (mkB true true false) [1; 8; 1]%Z ex_atoms A2 (1 # 2) 6 in
  mc_padded r = false /\ meq (mc_cell r) (mkM (mkV 3 0 0) (mkV 1 4 0) (mkV (5 # 4) (5 # 2) (5 # 2)))
  /\ map (getc A2) (map vred (mc_scaled r)) = [0; 2 # 5; 1].
Proof. vm_compute. repeat split. Qed.
