(* C09 -- supercells: a network E' that COVERS a network E through an integer matrix M has the same integer rank.

   A supercell presentation lists, for every atom i of the original cell and every coset r of Z^3 / M.Z^3, one atom u with
   at u = i and sh u = r (its original atom and its lattice shift), and every bonded image pair of the original network once per
   copy, with offsets expressed in the supercell lattice.  Abstractly ([cover] below):

     fwd    every pair (u, v, o') of E' projects to the pair (at u, at v, sh v + M o' - sh u) of E;
     lift   every pair (i, j, o) of E leaving the original atom of u is the projection of a pair of E' leaving u;
     inj    two atoms of E' with the same original atom and shifts that differ by a supercell lattice vector are the same atom;
     root   atom 0 of E' is atom 0 of E, unshifted;  M is injective.

   Then the infinite bonded networks are isomorphic ((u, t') <-> (at u, sh u + M t')), so

     st_cover          self_translation E' t'  <->  self_translation E (M t')
     supercell_rankZ   rankZ (voltages E') = rankZ (voltages E)       (both presentations connected, M adj(M) = d.I, d <> 0)

   i.e. the integer rank computed by the specification does not change when the structure is repeated into a supercell that stays
   connected -- the supercell clause of C09.  The cover relation is decidable ([cover_b]) and is EVALUATED by the correspondence on
   every generated base/supercell pair (harness/props/c09.py), which is what ties this theorem to ase.Atoms.repeat / make_supercell. *)
From Coq Require Import List Arith Bool ZArith Lia PeanoNat.
From MV Require Import Base.Graph Base.Cover Geometry.Dimensionality Geometry.DimensionalityProofs
  Geometry.DimensionalityInvariance Geometry.RankDet Geometry.RankElim Geometry.VoltageLattice Geometry.Sublattice.
Import ListNotations.
Local Open Scope nat_scope.

Section CoverSec.
Variables (n n' : nat) (p : pbc3) (E E' : list ipair) (M : off * off * off) (at_ : nat -> nat) (sh : nat -> off).

Record cover : Prop := {
  cv_wf : wf_E n p E = true;
  cv_wf' : wf_E n' p E' = true;
  cv_n : 0 < n;
  cv_n' : 0 < n';
  cv_root_at : at_ 0 = 0;
  cv_root_sh : sh 0 = ozero;
  cv_fwd : forall u v o', In (u, v, o') (sym E') -> In (at_ u, at_ v, osub (oadd (sh v) (lin M o')) (sh u)) (sym E);
  cv_lift : forall u j o, u < n' -> In (at_ u, j, o) (sym E) ->
              exists v o', In (u, v, o') (sym E') /\ at_ v = j /\ oadd (sh u) o = oadd (sh v) (lin M o');
  cv_inj : forall u v s, u < n' -> v < n' -> at_ u = at_ v -> sh u = oadd (sh v) (lin M s) -> u = v;
  cv_Minj : forall s, lin M s = ozero -> s = ozero
}.

Hypothesis C : cover.

Definition proj (x : nat * off) : nat * off := (at_ (fst x), oadd (sh (fst x)) (lin M (snd x))).

Lemma down x y : reach_inf E' x y -> reach_inf E (proj x) (proj y).
Proof.
  intro H. induction H as [|u t v o' Hr IH Hin]; [constructor|].
  pose proof (cv_fwd C u v o' Hin) as Hf. unfold proj in *. cbn [fst snd] in *.
  replace (oadd (sh v) (lin M (oadd t o'))) with (oadd (oadd (sh u) (lin M t)) (osub (oadd (sh v) (lin M o')) (sh u))).
  - eapply ri_step; [exact IH | exact Hf].
  - rewrite lin_oadd. generalize (sh u) (sh v) (lin M t) (lin M o'). intros a b c d. osolve.
Qed.

Lemma up u t y : u < n' -> reach_inf E (proj (u, t)) y ->
  exists v s, v < n' /\ y = proj (v, s) /\ reach_inf E' (u, t) (v, s).
Proof.
  intros Hu H. induction H as [|i w j o Hr IH Hin].
  - exists u, t. split; [exact Hu|]. split; [reflexivity | constructor].
  - destruct IH as (v & s & Hv & Hy & Hreach). unfold proj in Hy. cbn [fst snd] in Hy. injection Hy as Hi Hw. subst i w.
    destruct (cv_lift C v j o Hv Hin) as (v2 & o' & Hin' & Hat & Heq).
    exists v2, (oadd s o'). split; [|split].
    + destruct (wf_sym n' p E' (cv_wf' C) _ _ _ Hin') as [_ H2]. exact H2.
    + unfold proj. cbn [fst snd]. rewrite Hat. f_equal. rewrite lin_oadd.
      transitivity (oadd (oadd (sh v) o) (lin M s)).
      * generalize (sh v) (lin M s). intros a b. osolve.
      * rewrite Heq. generalize (sh v2) (lin M s) (lin M o'). intros a b c. osolve.
    + eapply ri_step; [exact Hreach | exact Hin'].
Qed.

Lemma proj_root : proj (0, ozero) = (0, ozero).
Proof. unfold proj. cbn [fst snd]. rewrite (cv_root_at C), (cv_root_sh C), lin_ozero. reflexivity. Qed.

Theorem st_cover t : self_translation E' t <-> self_translation E (lin M t).
Proof.
  unfold self_translation. split.
  - intro H. apply down in H. rewrite proj_root in H. unfold proj in H. cbn [fst snd] in H.
    rewrite (cv_root_at C), (cv_root_sh C) in H. replace (oadd ozero (lin M t)) with (lin M t) in H by (generalize (lin M t); intro a; osolve).
    exact H.
  - intro H. rewrite <- proj_root in H.
    destruct (up 0 ozero (0, lin M t) (cv_n' C) H) as (v & s & Hv & Hy & Hreach).
    unfold proj in Hy. cbn [fst snd] in Hy. injection Hy as Hat Hsh.
    assert (Hv0 : 0 = v).
    { apply (cv_inj C 0 v (osub s t) (cv_n' C) Hv).
      - rewrite (cv_root_at C). exact Hat.
      - rewrite (cv_root_sh C). replace (lin M (osub s t)) with (osub (lin M s) (lin M t)).
        + rewrite Hsh. generalize (sh v) (lin M s). intros a b. osolve.
        + unfold osub. rewrite lin_oadd, lin_oneg. reflexivity. }
    subst v. rewrite (cv_root_sh C) in Hsh.
    assert (Hst : s = t).
    { assert (Hz : lin M (osub s t) = ozero).
      { unfold osub. rewrite lin_oadd, lin_oneg, Hsh. generalize (lin M s). intro a. osolve. }
      apply (cv_Minj C) in Hz. revert Hz. generalize s t. intros a b Hz. destruct a as [[a0 a1] a2], b as [[b0 b1] b2].
      unfold osub, oadd, oneg, ozero in Hz. injection Hz as H0 H1 H2. f_equal; [f_equal|]; lia. }
    subst s. exact Hreach.
Qed.

(* ---- the integer rank ------------------------------------------------------------------------------------------ *)
Variables (M' : off * off * off) (d : Z).
Hypothesis adj : forall v, lin M (lin M' v) = oscale d v.
Hypothesis d_nz : d <> 0%Z.
Hypothesis M_det : udet M <> 0%Z.
Hypothesis placed : all_placed (potentials n E) = true.
Hypothesis placed' : all_placed (potentials n' E') = true.

Theorem supercell_rankZ : rankZ (voltages (potentials n' E') E') = rankZ (voltages (potentials n E) E).
Proof.
  apply (supercell_lattice_rank_partial d M); [exact d_nz | exact M_det | |].
  - intros w Hw. apply (voltage_lattice n p E (cv_wf C) (cv_n C) placed). apply st_cover.
    apply (voltage_lattice n' p E' (cv_wf' C) (cv_n' C) placed'). apply span_gen. exact Hw.
  - intros v Hv. rewrite <- adj. apply span_map_lin.
    apply (voltage_lattice n' p E' (cv_wf' C) (cv_n' C) placed'). apply st_cover. rewrite adj.
    apply st_scale. apply (voltage_lattice n p E (cv_wf C) (cv_n C) placed). apply span_gen. exact Hv.
Qed.
End CoverSec.

(* ------------------------------------------------------------------------------------------------------------ *)
(* the cover relation is decidable: boolean checker, evaluated by the correspondence on every base/supercell pair *)
Definition ipair_eqb (e f : ipair) : bool :=
  let '(i, j, o) := e in let '(i', j', o') := f in (i =? i') && (j =? j') && oeqb o o'.
Lemma ipair_eqb_eq e f : ipair_eqb e f = true <-> e = f.
Proof.
  destruct e as [[i j] o], f as [[i' j'] o']. unfold ipair_eqb. rewrite !andb_true_iff, !Nat.eqb_eq, oeqb_eq.
  split; [intros [[-> ->] ->]; reflexivity | intro H; inversion H; auto].
Qed.
Definition mem_e (e : ipair) (l : list ipair) : bool := existsb (ipair_eqb e) l.
Lemma mem_e_In e l : mem_e e l = true <-> In e l.
Proof.
  unfold mem_e. rewrite existsb_exists. split.
  - intros (f & Hf & He). apply ipair_eqb_eq in He. subst. exact Hf.
  - intro H. exists e. split; [exact H | apply ipair_eqb_eq; reflexivity].
Qed.

Definition odiv (d : Z) (w : off) : off := let '(x, y, z) := w in ((x / d)%Z, (y / d)%Z, (z / d)%Z).
(* diff is a supercell lattice vector:  diff = M s  for an integer s  (M' M = d.I) *)
Definition in_MZ (M M' : off * off * off) (d : Z) (diff : off) : bool :=
  oeqb (lin M (odiv d (lin M' diff))) diff.

Definition cover_b (n n' : nat) (p : pbc3) (E E' : list ipair) (M M' : off * off * off) (d : Z)
                   (at_ : nat -> nat) (sh : nat -> off) : bool :=
  wf_E n p E && wf_E n' p E' && (0 <? n) && (0 <? n') && (at_ 0 =? 0) && oeqb (sh 0) ozero
  && forallb (fun e => let '(u, v, o') := e in mem_e (at_ u, at_ v, osub (oadd (sh v) (lin M o')) (sh u)) (sym E)) (sym E')
  && forallb (fun u => forallb (fun e => let '(i, j, o) := e in
                 negb (i =? at_ u) ||
                 existsb (fun e' => let '(u2, v, o') := e' in
                            (u2 =? u) && (at_ v =? j) && oeqb (oadd (sh u) o) (oadd (sh v) (lin M o'))) (sym E')) (sym E))
             (seq 0 n')
  && forallb (fun u => forallb (fun v => (u =? v) || negb (at_ u =? at_ v) || negb (in_MZ M M' d (osub (sh u) (sh v)))) (seq 0 n'))
             (seq 0 n').

Lemma odiv_scale d s : d <> 0%Z -> odiv d (oscale d s) = s.
Proof.
  intro Hd. destruct s as [[x y] z]. unfold odiv, oscale.
  rewrite !(Z.mul_comm d), !Z.div_mul by exact Hd. reflexivity.
Qed.

Theorem cover_b_sound n n' p E E' M M' d at_ sh :
  d <> 0%Z -> (forall v, lin M' (lin M v) = oscale d v) ->
  cover_b n n' p E E' M M' d at_ sh = true -> cover n n' p E E' M at_ sh.
Proof.
  intros Hd HadjL H. unfold cover_b in H.
  apply andb_prop in H. destruct H as [H Hinj]. apply andb_prop in H. destruct H as [H Hlift].
  apply andb_prop in H. destruct H as [H Hfwd]. apply andb_prop in H. destruct H as [H Hsh0].
  apply andb_prop in H. destruct H as [H Hat0]. apply andb_prop in H. destruct H as [H Hn'].
  apply andb_prop in H. destruct H as [H Hn]. apply andb_prop in H. destruct H as [Hwf Hwf'].
  apply Nat.ltb_lt in Hn, Hn'. apply Nat.eqb_eq in Hat0. apply oeqb_eq in Hsh0.
  constructor; try assumption.
  - intros u v o' Hin. rewrite forallb_forall in Hfwd. specialize (Hfwd _ Hin). cbn in Hfwd. apply mem_e_In. exact Hfwd.
  - intros u j o Hu Hin. rewrite forallb_forall in Hlift.
    assert (Hus : In u (seq 0 n')) by (apply in_seq; lia).
    specialize (Hlift u Hus). rewrite forallb_forall in Hlift. specialize (Hlift _ Hin). cbn in Hlift.
    rewrite Nat.eqb_refl in Hlift. cbn [negb orb] in Hlift. apply existsb_exists in Hlift.
    destruct Hlift as ([[u2 v] o'] & Hin' & Hc). rewrite !andb_true_iff, !Nat.eqb_eq, oeqb_eq in Hc.
    destruct Hc as [[-> Hat] Heq]. exists v, o'. repeat split; assumption.
  - intros u v s Hu Hv Hat Hsh. rewrite forallb_forall in Hinj.
    assert (Hus : In u (seq 0 n')) by (apply in_seq; lia). assert (Hvs : In v (seq 0 n')) by (apply in_seq; lia).
    specialize (Hinj u Hus). rewrite forallb_forall in Hinj. specialize (Hinj v Hvs).
    apply orb_true_iff in Hinj. destruct Hinj as [Hinj|Hinj].
    + apply orb_true_iff in Hinj. destruct Hinj as [Hinj|Hinj]; [apply Nat.eqb_eq; exact Hinj|].
      apply negb_true_iff, Nat.eqb_neq in Hinj. contradiction.
    + exfalso. apply negb_true_iff in Hinj.
      assert (Hd2 : osub (sh u) (sh v) = lin M s) by (rewrite Hsh; generalize (sh v) (lin M s); intros a b; osolve).
      assert (Ht : in_MZ M M' d (osub (sh u) (sh v)) = true).
      { unfold in_MZ. rewrite Hd2, HadjL, odiv_scale by exact Hd. apply oeqb_eq. reflexivity. }
      congruence.
  - intros s Hs. apply (oscale_zero_inv d); [|exact Hd]. rewrite <- HadjL, Hs. apply lin_ozero.
Qed.

(* diagonal repeats (ase.Atoms.repeat): M = diag(r0, r1, r2) *)
Definition diagM (r0 r1 r2 : Z) : off * off * off := ((r0, 0, 0), (0, r1, 0), (0, 0, r2))%Z.
Lemma diag_adj r0 r1 r2 v : lin (diagM r0 r1 r2) (lin (diagM (r1 * r2) (r0 * r2) (r0 * r1)) v) = oscale (r0 * r1 * r2) v.
Proof. destruct v as [[x y] z]. unfold lin, diagM, oscale, oadd. repeat (match goal with |- (_, _) = (_, _) => apply f_equal2 end); ring. Qed.
Lemma diag_adjL r0 r1 r2 v : lin (diagM (r1 * r2) (r0 * r2) (r0 * r1)) (lin (diagM r0 r1 r2) v) = oscale (r0 * r1 * r2) v.
Proof. destruct v as [[x y] z]. unfold lin, diagM, oscale, oadd. repeat (match goal with |- (_, _) = (_, _) => apply f_equal2 end); ring. Qed.
Lemma diag_det r0 r1 r2 : udet (diagM r0 r1 r2) = (r0 * r1 * r2)%Z.
Proof. unfold udet, diagM, odet, odot, ocross. ring. Qed.

(* THE SUPERCELL CLAUSE for repeated cells: whenever the checker accepts a base/supercell pair and both are connected, the integer
   rank computed by the specification is the same *)
Theorem supercell_repeat_rankZ n n' p E E' (r0 r1 r2 : Z) at_ sh :
  (r0 * r1 * r2 <> 0)%Z ->
  cover_b n n' p E E' (diagM r0 r1 r2) (diagM (r1 * r2) (r0 * r2) (r0 * r1)) (r0 * r1 * r2) at_ sh = true ->
  all_placed (potentials n E) = true -> all_placed (potentials n' E') = true ->
  rankZ (voltages (potentials n' E') E') = rankZ (voltages (potentials n E) E).
Proof.
  intros Hd Hc P P'.
  pose proof (cover_b_sound n n' p E E' _ _ _ at_ sh Hd (diag_adjL r0 r1 r2) Hc) as C.
  apply (supercell_rankZ n n' p E E' (diagM r0 r1 r2) at_ sh C (diagM (r1 * r2) (r0 * r2) (r0 * r1)) (r0 * r1 * r2));
    [apply diag_adj | exact Hd | rewrite diag_det; exact Hd | exact P | exact P'].
Qed.

(* non-vacuity: a two-atom chain and its doubled cell *)
Example supercell_example :
  let p := (true, false, false) in
  let E := [(0, 1, (0, 0, 0)%Z); (1, 0, (1, 0, 0)%Z)] in
  let E' := [(0, 1, (0, 0, 0)%Z); (1, 2, (0, 0, 0)%Z); (2, 3, (0, 0, 0)%Z); (3, 0, (1, 0, 0)%Z)] in
  let at_ := fun u => u mod 2 in let sh := fun u => (Z.of_nat (u / 2), 0, 0)%Z in
  cover_b 2 4 p E E' (diagM 2 1 1) (diagM (1 * 1) (2 * 1) (2 * 1)) (2 * 1 * 1) at_ sh = true
  /\ dim_spec 2 p E = Some (1, 1) /\ dim_spec 4 p E' = Some (1, 1).
Proof. vm_compute. repeat split; reflexivity. Qed.

(* atom / shift maps of ase.Atoms.repeat((r0, r1, r2)) as the generator lays the copies out: index = ((m0 r1 + m1) r2 + m2) n + i *)
Definition rep_at (n u : nat) : nat := u mod n.
Definition rep_sh (r1 r2 n u : nat) : off :=
  let c := u / n in (Z.of_nat (c / (r1 * r2)), Z.of_nat ((c / r2) mod r1), Z.of_nat (c mod r2)).
Definition cover_repeat_b (n n' : nat) (p : pbc3) (E E' : list ipair) (r0 r1 r2 : nat) : bool :=
  let z0 := Z.of_nat r0 in let z1 := Z.of_nat r1 in let z2 := Z.of_nat r2 in
  cover_b n n' p E E' (diagM z0 z1 z2) (diagM (z1 * z2) (z0 * z2) (z0 * z1)) (z0 * z1 * z2) (rep_at n) (rep_sh r1 r2 n).

Corollary supercell_repeat_rankZ_nat n n' p E E' r0 r1 r2 :
  0 < r0 -> 0 < r1 -> 0 < r2 -> cover_repeat_b n n' p E E' r0 r1 r2 = true ->
  all_placed (potentials n E) = true -> all_placed (potentials n' E') = true ->
  rankZ (voltages (potentials n' E') E') = rankZ (voltages (potentials n E) E).
Proof.
  intros H0 H1 H2 Hc. unfold cover_repeat_b in Hc. cbv zeta in Hc.
  apply (supercell_repeat_rankZ n n' p E E' (Z.of_nat r0) (Z.of_nat r1) (Z.of_nat r2) (rep_at n) (rep_sh r1 r2 n)); [|exact Hc].
  intro Hz. apply Z.mul_eq_0 in Hz. destruct Hz as [Hz|Hz]; [apply Z.mul_eq_0 in Hz; destruct Hz as [Hz|Hz]|]; lia.
Qed.

(* in the property's family (GF(2) rank = integer rank on both presentations) the whole answer of the specification agrees *)
Corollary supercell_dim_spec_family n n' p E E' r0 r1 r2 r r2' rz' :
  0 < r0 -> 0 < r1 -> 0 < r2 -> cover_repeat_b n n' p E E' r0 r1 r2 = true ->
  dim_spec n p E = Some (r, r) -> dim_spec n' p E' = Some (r2', rz') -> r2' = rz' ->
  dim_spec n' p E' = dim_spec n p E.
Proof.
  intros H0 H1 H2 Hc Hs Hs' Hfam. unfold dim_spec in *.
  destruct (all_placed (potentials n E)) eqn:P; [|discriminate].
  destruct (all_placed (potentials n' E')) eqn:P'; [|discriminate].
  pose proof (supercell_repeat_rankZ_nat n n' p E E' r0 r1 r2 H0 H1 H2 Hc P P') as Hz.
  injection Hs as Ha Hb. injection Hs' as Ha' Hb'.
  f_equal. f_equal; congruence.
Qed.
