(* C09 -- theorems about the executable model of Geometry/Dimensionality.v.
   Part 1: control flow [dim_from]: None iff the 1x graph is disconnected; 0 without periodic axes.
   Part 2: the discrete mirror [get_dim_graph]: with the covering theorem of Base/Cover.v the 2x formula
           returns log2 |K|.
   Part 3: metric layer: under the C10 specification of the minimum-image tables the 1x / 2x bond
           relations are the quotients of the infinite bonded graph by Z^k / (2Z)^k
           ([graph_1x_is_quotient], [graph_2x_is_quotient]) and the metric mirror equals the
           discrete one ([metric_eq_graph]).
   Part 4: algebra of voltages used by the invariance clauses (partial, see C09_invariance_full_statement). *)
From Coq Require Import List Arith Bool ZArith Lia PeanoNat.
From MV Require Import Base.Graph Base.Cover Base.ZV3 Geometry.Dimensionality.
Import ListNotations.
Local Open Scope nat_scope.

(* ========================================================================================== *)
(* Part 1 *)
Section DimFrom.
Variables (n : nat) (p : pbc3) (a1 a2 : nat -> nat -> bool).
Hypothesis a1_sym : forall u v, u < n -> v < n -> a1 u v = a1 v u.

Let V := seq 0 n.
Lemma V_nodup : NoDup V. Proof. apply seq_NoDup. Qed.
Lemma V_in i : In i V <-> i < n. Proof. unfold V. rewrite in_seq. simpl. lia. Qed.
Lemma a1_symV u v : In u V -> In v V -> a1 u v = a1 v u.
Proof. intros Hu Hv. apply a1_sym; apply V_in; assumption. Qed.

Definition connected1 : Prop := forall i j, i < n -> j < n -> reach a1 (seq 0 n) i j.

Lemma ncomp_connected : ncomp a1 (seq 0 n) <= 1 <-> connected1.
Proof.
  fold V. rewrite (ncomp_le1_iff a1 V V_nodup a1_symV). unfold connected1. fold V.
  split; intros H i j Hi Hj; apply H; apply V_in; assumption.
Qed.

Lemma dim_from_None : dim_from n p a1 a2 = None <-> 1 < ncomp a1 (seq 0 n).
Proof.
  unfold dim_from. destruct (1 <? ncomp a1 (seq 0 n)) eqn:E.
  - apply Nat.ltb_lt in E. tauto.
  - apply Nat.ltb_ge in E. split; [|lia]. destruct (0 <? npbc p); discriminate.
Qed.

(* None is returned exactly when two atoms of the cell are not joined by a chain of bonds *)
Theorem none_iff_disconnected :
  dim_from n p a1 a2 = None <-> exists i j, i < n /\ j < n /\ ~ reach a1 (seq 0 n) i j.
Proof.
  rewrite dim_from_None. split.
  - intros H. destruct (components_spec a1 V V_nodup) as [rs [Hc [Hrs [Hind _]]]].
    unfold ncomp in H. fold V in H. rewrite Hc, map_length in H.
    destruct rs as [|r1 [|r2 rs']]; simpl in H; try lia.
    exists r1, r2. split; [apply V_in, Hrs; left; reflexivity|]. split; [apply V_in, Hrs; right; left; reflexivity|].
    inversion Hind as [|? ? Hn _]; subst. apply Hn. left. reflexivity.
  - intros [i [j [Hi [Hj Hn]]]]. destruct (Nat.lt_ge_cases 1 (ncomp a1 (seq 0 n))) as [|Hle]; [assumption|].
    exfalso. apply Hn. apply ncomp_connected; assumption.
Qed.

Theorem none_iff_not_connected : dim_from n p a1 a2 = None <-> ~ connected1.
Proof.
  rewrite dim_from_None, <- ncomp_connected. lia.
Qed.

Theorem dim0_without_pbc : npbc p = 0 -> connected1 -> dim_from n p a1 a2 = Some 0%Z.
Proof.
  intros Hp Hc. apply ncomp_connected in Hc. unfold dim_from.
  destruct (1 <? ncomp a1 (seq 0 n)) eqn:E; [apply Nat.ltb_lt in E; lia|]. rewrite Hp. reflexivity.
Qed.
Theorem dim_without_pbc_cases : npbc p = 0 -> dim_from n p a1 a2 = None \/ dim_from n p a1 a2 = Some 0%Z.
Proof. intros Hp. unfold dim_from. destruct (1 <? ncomp a1 (seq 0 n)); [left; reflexivity|]. rewrite Hp. right. reflexivity. Qed.

Theorem dim_with_pbc : 0 < npbc p -> connected1 ->
  dim_from n p a1 a2 = Some (dim_formula (npbc p) (ncomp a2 (seq 0 (2 ^ npbc p * n)))).
Proof.
  intros Hp Hc. apply ncomp_connected in Hc. unfold dim_from.
  destruct (1 <? ncomp a1 (seq 0 n)) eqn:E; [apply Nat.ltb_lt in E; lia|].
  apply Nat.ltb_lt in Hp. rewrite Hp. reflexivity.
Qed.
End DimFrom.

(* dim_from only looks at the adjacencies on the vertex ranges *)
Lemma dim_from_ext n p a1 a2 b1 b2 :
  (forall u v, u < n -> v < n -> a1 u v = b1 u v) ->
  (forall u v, u < 2 ^ npbc p * n -> v < 2 ^ npbc p * n -> a2 u v = b2 u v) ->
  dim_from n p a1 a2 = dim_from n p b1 b2.
Proof.
  intros H1 H2. unfold dim_from.
  rewrite (ncomp_ext a1 b1 (seq 0 n)) by (intros u v Hu Hv; apply in_seq in Hu; apply in_seq in Hv; apply H1; simpl in *; lia).
  rewrite (ncomp_ext a2 b2 (seq 0 (2 ^ npbc p * n))) by (intros u v Hu Hv; apply in_seq in Hu; apply in_seq in Hv; apply H2; simpl in *; lia).
  reflexivity.
Qed.

Lemma dim_formula_pow2 k j : j <= k -> dim_formula k (2 ^ j) = Z.of_nat (k - j).
Proof.
  intros Hj. unfold dim_formula. rewrite Nat.log2_up_pow2 by lia. rewrite Nat.eqb_refl. lia.
Qed.

(* ========================================================================================== *)
(* Part 2: the discrete mirror *)
Lemma maskb_bound p m : maskb p m < 2 ^ npbc p.
Proof. destruct p as [[[] []] []], m as [[[] []] []]; vm_compute; lia. Qed.
Lemma mask_bound p o : mask p o < 2 ^ npbc p.
Proof. apply maskb_bound. Qed.
Lemma parity_oneg o : parity (oneg o) = parity o.
Proof. destruct o as [[x y] z]. unfold parity, oneg. rewrite !Z.odd_opp. reflexivity. Qed.
Lemma mask_oneg p o : mask p (oneg o) = mask p o.
Proof. unfold mask. rewrite parity_oneg. reflexivity. Qed.
Lemma oneg_involutive o : oneg (oneg o) = o.
Proof. destruct o as [[x y] z]. unfold oneg. rewrite !Z.opp_involutive. reflexivity. Qed.
Lemma flip_involutive e : flip (flip e) = e.
Proof. destruct e as [[i j] o]. simpl. rewrite oneg_involutive. reflexivity. Qed.
Lemma sym_flip E e : In e (sym E) -> In (flip e) (sym E).
Proof.
  unfold sym. intros H. apply in_app_or in H. apply in_or_app. destruct H as [H|H].
  - right. apply in_map. assumption.
  - left. apply in_map_iff in H. destruct H as [e' [<- He']]. rewrite flip_involutive. assumption.
Qed.

Lemma okoff_oneg p o : okoff p o = okoff p (oneg o).
Proof.
  assert (H : forall x, (- x =? 0)%Z = (x =? 0)%Z) by (intros x; apply eq_true_iff_eq; rewrite !Z.eqb_eq; lia).
  destruct p as [[p0 p1] p2], o as [[x y] z]. unfold okoff, oneg. rewrite !H. reflexivity.
Qed.
Section GraphMirror.
Variables (n : nat) (p : pbc3) (E : list ipair).
Hypothesis wf : wf_E n p E = true.
Let tab := nbr_tab n p E.
Let k := npbc p.

Lemma wf_sym i j o : In (i, j, o) (sym E) -> i < n /\ j < n.
Proof.
  unfold wf_E in wf. rewrite forallb_forall in wf. unfold sym. intros H. apply in_app_or in H. destruct H as [H|H].
  - specialize (wf _ H). simpl in wf. rewrite !andb_true_iff, !Nat.ltb_lt in wf. tauto.
  - apply in_map_iff in H. destruct H as [[[i' j'] o'] [Heq He]]. simpl in Heq. injection Heq as <- <- <-.
    specialize (wf _ He). simpl in wf. rewrite !andb_true_iff, !Nat.ltb_lt in wf. tauto.
Qed.

Lemma wf_sym_ok i j o : In (i, j, o) (sym E) -> okoff p o = true.
Proof.
  unfold wf_E in wf. rewrite forallb_forall in wf. unfold sym. intros H. apply in_app_or in H. destruct H as [H|H].
  - specialize (wf _ H). simpl in wf. rewrite !andb_true_iff in wf. tauto.
  - apply in_map_iff in H. destruct H as [[[i' j'] o'] [Heq He]]. simpl in Heq. injection Heq as <- <- <-.
    specialize (wf _ He). simpl in wf. rewrite !andb_true_iff in wf. rewrite <- (okoff_oneg p o'). tauto.
Qed.

Lemma nth_tab i : i < n -> nth i tab [] = collect p (sym E) i.
Proof.
  intros Hi. unfold tab, nbr_tab.
  rewrite (nth_indep _ [] (collect p (sym E) 0)) by (rewrite map_length, seq_length; assumption).
  rewrite map_nth, seq_nth by assumption. reflexivity.
Qed.

Lemma in_collect i j c : In (j, c) (collect p (sym E) i) <-> exists o, In (i, j, o) (sym E) /\ mask p o = c.
Proof.
  unfold collect. rewrite in_map_iff. split.
  - intros [[[i' j'] o] [Heq Hin]]. simpl in Heq. injection Heq as <- <-.
    apply filter_In in Hin. destruct Hin as [Hin Hi]. simpl in Hi. apply Nat.eqb_eq in Hi. subst i'.
    exists o. split; [assumption | reflexivity].
  - intros [o [Hin <-]]. exists (i, j, o). split; [reflexivity|]. apply filter_In. split; [assumption|]. simpl. apply Nat.eqb_refl.
Qed.

Lemma lab_of_spec i j c : i < n -> (lab_of tab i j c = true <-> exists o, In (i, j, o) (sym E) /\ mask p o = c).
Proof.
  intros Hi. unfold lab_of. rewrite nth_tab by assumption. rewrite existsb_exists. split.
  - intros [[j' c'] [Hin Heq]]. simpl in Heq. rewrite andb_true_iff, !Nat.eqb_eq in Heq. destruct Heq as [-> ->].
    apply in_collect. assumption.
  - intros H. apply in_collect in H. exists (j, c). split; [assumption|]. simpl. rewrite !Nat.eqb_refl. reflexivity.
Qed.

Lemma lab_of_sym i j c : i < n -> j < n -> lab_of tab i j c = lab_of tab j i c.
Proof.
  intros Hi Hj. apply eq_true_iff_eq. rewrite !lab_of_spec by assumption.
  split; intros [o [Hin Hm]]; exists (oneg o); (split; [apply (sym_flip E _ Hin) | rewrite mask_oneg; assumption]).
Qed.

Lemma lab_of_bound i j c : lab_of tab i j c = true -> c < 2 ^ k.
Proof.
  intros H. destruct (Nat.lt_ge_cases i n) as [Hi|Hi].
  - apply lab_of_spec in H; [|assumption]. destruct H as [o [_ <-]]. apply mask_bound.
  - unfold lab_of in H. rewrite nth_overflow in H; [discriminate|]. unfold tab, nbr_tab. rewrite map_length, seq_length. assumption.
Qed.

Lemma adj1_of_spec i j : i < n -> (adj1_of tab i j = true <-> i = j \/ exists o, In (i, j, o) (sym E)).
Proof.
  intros Hi. unfold adj1_of. rewrite orb_true_iff, Nat.eqb_eq, nth_tab by assumption. rewrite existsb_exists.
  split; (intros [H|H]; [left; assumption | right]).
  - destruct H as [[j' c] [Hin Heq]]. simpl in Heq. apply Nat.eqb_eq in Heq. subst j'.
    apply in_collect in Hin. destruct Hin as [o [Hin _]]. exists o. assumption.
  - destruct H as [o Hin]. exists (j, mask p o). split; [apply in_collect; exists o; split; [assumption | reflexivity] | simpl; apply Nat.eqb_refl].
Qed.

Lemma adj1_of_sym i j : i < n -> j < n -> adj1_of tab i j = adj1_of tab j i.
Proof.
  intros Hi Hj. apply eq_true_iff_eq. rewrite !adj1_of_spec by assumption.
  split; (intros [H|[o H]]; [left; symmetry; assumption | right; exists (oneg o); apply (sym_flip E _ H)]).
Qed.

Lemma adj1_of_lab i j : i < n -> j < n -> adj1_of tab i j = true -> i = j \/ exists c, lab_of tab i j c = true.
Proof.
  intros Hi Hj H. apply adj1_of_spec in H; [|assumption]. destruct H as [H|[o H]]; [left; assumption|].
  right. exists (mask p o). apply lab_of_spec; [assumption|]. exists o. split; [assumption | reflexivity].
Qed.

Definition connectedE : Prop := connected1 n (adj1_of tab).
(* parities a such that copy a of atom 0 is bonded (through the 2x graph) to copy 0 of atom 0 *)
Definition Kset : list nat := K n k (lab_of tab).

Theorem none_iff_disconnected_graph :
  get_dim_graph n p E = None <-> exists i j, i < n /\ j < n /\ ~ reach (adj1_of tab) (seq 0 n) i j.
Proof. unfold get_dim_graph. fold tab. apply none_iff_disconnected. apply adj1_of_sym. Qed.

Theorem dim0_without_pbc_graph : npbc p = 0 -> connectedE -> get_dim_graph n p E = Some 0%Z.
Proof. unfold get_dim_graph. fold tab. apply dim0_without_pbc. apply adj1_of_sym. Qed.

(* the covering theorem instantiated: N_2x * |K| = 2^k *)
Theorem count_2x : 0 < n -> connectedE ->
  ncomp (adj2_of n (lab_of tab)) (seq 0 (2 ^ k * n)) * length Kset = 2 ^ k.
Proof.
  intros Hn Hc.
  apply (cover_count n k Hn (lab_of tab) (adj1_of tab) lab_of_sym lab_of_bound adj1_of_lab).
  intros i Hi. apply Hc; assumption.
Qed.

(* ... hence the 2x formula returns log2 |K| *)
Theorem formula_is_log2K : 0 < n -> 0 < k -> connectedE ->
  exists d, d <= k /\ length Kset = 2 ^ d /\ get_dim_graph n p E = Some (Z.of_nat d).
Proof.
  intros Hn Hk Hc.
  destruct (mul_pow2 k _ _ (count_2x Hn Hc)) as [j [Hj [HN HK]]].
  exists (k - j). split; [lia|]. split; [assumption|].
  unfold get_dim_graph. fold tab. rewrite (dim_with_pbc n p _ _ adj1_of_sym Hk Hc). fold k.
  rewrite HN. rewrite dim_formula_pow2 by assumption. reflexivity.
Qed.
End GraphMirror.

(* ========================================================================================== *)
(* Part 3: metric layer.  The C++ minimum-image table is abstract; its C10 specification is the
   hypothesis [tab_spec]: entry (i,j) is the true minimum over admissible lattice offsets of the
   squared image distance if that is <= cutoff^2, and infinite (None) otherwise. *)
Local Open Scope Z_scope.

Definition tab_spec (p : pbc3) (img : nat -> nat -> off -> Z) (N : nat) (cut : Z) (tab : nat -> nat -> option Z) : Prop :=
  forall i j, (i < N)%nat -> (j < N)%nat -> i <> j ->
    match tab i j with
    | Some d => (exists o, okoff p o = true /\ img i j o = d)
                /\ (forall o, okoff p o = true -> d <= img i j o) /\ d <= cut * cut
    | None => forall o, okoff p o = true -> cut * cut < img i j o
    end.

Lemma bond_iff p img N cut tab thr (r : nat -> Z) u v :
  tab_spec p img N cut tab -> (u < N)%nat -> (v < N)%nat -> u <> v ->
  0 <= thr + r u + r v <= cut ->
  (bondt thr tab r u v = true <-> exists o, okoff p o = true /\ img u v o <= (thr + r u + r v) * (thr + r u + r v)).
Proof.
  intros Hs Hu Hv Hne Ht. unfold bondt.
  replace (u =? v)%nat with false by (symmetry; apply Nat.eqb_neq; assumption). simpl.
  specialize (Hs u v Hu Hv Hne). set (t := thr + r u + r v) in *.
  destruct (tab u v) as [d|].
  - destruct Hs as [[o0 [Hok0 Hd0]] [Hmin Hcut]]. rewrite andb_true_iff, !Z.leb_le. split.
    + intros [_ Hd]. exists o0. split; [assumption | lia].
    + intros [o [Hok Hle]]. split; [lia|]. specialize (Hmin o Hok). lia.
  - split; [discriminate|]. intros [o [Hok Hle]]. specialize (Hs o Hok). exfalso. nia.
Qed.

Lemma le_fold_max (l : list Z) d x : In x l -> x <= fold_right Z.max d l.
Proof. induction l as [|y l IH]; simpl; intros H; [destruct H|]. destruct H as [->|H]; [lia|]. specialize (IH H). lia. Qed.
Lemma rad_le_max n rad i : (i < n)%nat -> rad i <= max_radius n rad.
Proof. intros Hi. unfold max_radius. apply le_fold_max. apply in_map. apply in_seq. simpl. lia. Qed.

(* parity bookkeeping between copy indices and offsets (finite facts, by enumeration) *)
Definition dbl (pb : bool) (x : Z) : Z := if pb then 2 * x else x.
Definition comb (p : pbc3) (mu mv o : off) : off :=
  let '(p0, p1, p2) := p in let '(ux, uy, uz) := mu in let '(vx, vy, vz) := mv in let '(x, y, z) := o in
  (vx - ux + dbl p0 x, vy - uy + dbl p1 y, vz - uz + dbl p2 z).
Definition zb3 (m : bvec) : off := let '(m0, m1, m2) := m in (zb m0, zb m1, zb m2).
Definition pmask (p : pbc3) (m : bvec) : bvec :=
  let '(p0, p1, p2) := p in let '(m0, m1, m2) := m in (p0 && m0, p1 && m1, p2 && m2).

Lemma unmask_zb3 p c : unmask p c = zb3 (unmaskb p c).
Proof. unfold unmask. destruct (unmaskb p c) as [[b0 b1] b2]. reflexivity. Qed.
Lemma unmaskb_pmask p c : pmask p (unmaskb p c) = unmaskb p c.
Proof. destruct p as [[[] []] []]; unfold unmaskb, pmask; simpl; rewrite ?andb_false_r; reflexivity. Qed.

Definition all_b3 : list bvec :=
  [(false,false,false);(false,false,true);(false,true,false);(false,true,true);
   (true,false,false);(true,false,true);(true,true,false);(true,true,true)].
Lemma all_b3_complete m : In m all_b3.
Proof. destruct m as [[[] []] []]; simpl; tauto. Qed.

Lemma maskb_xor_fin :
  forallb (fun p => forallb (fun cu => forallb (fun cv =>
     (maskb p (bxor (unmaskb p cu) (unmaskb p cv)) =? Nat.lxor cu cv)%nat)
     (seq 0 (2 ^ npbc p))) (seq 0 (2 ^ npbc p))) all_b3 = true.
Proof. vm_compute. reflexivity. Qed.
Lemma maskb_xor p cu cv : (cu < 2 ^ npbc p)%nat -> (cv < 2 ^ npbc p)%nat ->
  maskb p (bxor (unmaskb p cu) (unmaskb p cv)) = Nat.lxor cu cv.
Proof.
  intros Hu Hv. pose proof maskb_xor_fin as H. rewrite forallb_forall in H.
  specialize (H p (all_b3_complete p)). rewrite forallb_forall in H.
  assert (Hcu : In cu (seq 0 (2 ^ npbc p))) by (apply in_seq; simpl; lia).
  specialize (H cu Hcu). rewrite forallb_forall in H.
  apply Nat.eqb_eq. apply H. apply in_seq. simpl. lia.
Qed.
Lemma maskb_pmask p m : maskb p (pmask p m) = maskb p m.
Proof. destruct p as [[[] []] []], m as [[[] []] []]; reflexivity. Qed.
Lemma maskb_inj p m m' : maskb p m = maskb p m' -> pmask p m = pmask p m'.
Proof. destruct p as [[[] []] []], m as [[[] []] []], m' as [[[] []] []]; vm_compute; intros H; try reflexivity; discriminate. Qed.

Lemma odd_comb1 bu bv x : Z.odd (zb bv - zb bu + 2 * x) = xorb bu bv.
Proof. rewrite Z.odd_add_mul_2. destruct bu, bv; reflexivity. Qed.

(* (A) the offset seen by the 2x table between copies cu, cv has parity mask cu xor cv *)
Lemma comb_parity p mu mv o : pmask p (parity (comb p (zb3 mu) (zb3 mv) o)) = pmask p (bxor mu mv).
Proof.
  destruct mu as [[u0 u1] u2], mv as [[v0 v1] v2], o as [[x y] z].
  destruct p as [[[] []] []]; unfold comb, zb3, parity, pmask, bxor, dbl; rewrite ?odd_comb1; reflexivity.
Qed.
Lemma comb_okoff p mu mv o : okoff p o = true -> okoff p (comb p (zb3 (pmask p mu)) (zb3 (pmask p mv)) o) = true.
Proof.
  destruct mu as [[u0 u1] u2], mv as [[v0 v1] v2], o as [[x y] z].
  destruct p as [[[] []] []]; unfold comb, zb3, pmask, okoff, dbl; simpl; rewrite ?andb_true_iff, ?Z.eqb_eq; intros H; repeat split; lia.
Qed.
(* (B) conversely every admissible offset of that parity arises *)
Lemma even_half x : Z.odd x = false -> exists h, x = 2 * h.
Proof. intros H. rewrite <- Z.negb_even in H. apply negb_false_iff in H. apply Z.even_spec in H. destruct H as [h ->]. exists h. reflexivity. Qed.
Lemma comb1_solve (pb : bool) bu bv x : (if pb then Z.odd x = xorb bu bv else x = 0 /\ bu = false /\ bv = false) ->
  exists h, (pb = false -> h = 0) /\ zb bv - zb bu + dbl pb h = x.
Proof.
  destruct pb; unfold dbl.
  - intros H. destruct (even_half (x - zb bv + zb bu)) as [h Hh].
    + rewrite Z.odd_add, Z.odd_sub, H. destruct bu, bv; reflexivity.
    + exists h. split; [discriminate | lia].
  - intros [-> [-> ->]]. exists 0. split; reflexivity.
Qed.
Lemma comb_surj p mu mv o : okoff p o = true -> pmask p (parity o) = pmask p (bxor mu mv) ->
  exists o', okoff p o' = true /\ comb p (zb3 (pmask p mu)) (zb3 (pmask p mv)) o' = o.
Proof.
  destruct mu as [[u0 u1] u2], mv as [[v0 v1] v2], o as [[x y] z]. destruct p as [[p0 p1] p2].
  unfold okoff, parity, pmask, bxor. rewrite !andb_true_iff, !orb_true_iff, !Z.eqb_eq. intros [[H0 H1] H2] Hpar.
  injection Hpar as E0 E1 E2.
  destruct (comb1_solve p0 (p0 && u0) (p0 && v0) x) as [h0 [Hz0 Hh0]].
  { destruct p0; simpl in *; [assumption|]. destruct H0 as [H0|H0]; [discriminate | tauto]. }
  destruct (comb1_solve p1 (p1 && u1) (p1 && v1) y) as [h1 [Hz1 Hh1]].
  { destruct p1; simpl in *; [assumption|]. destruct H1 as [H1|H1]; [discriminate | tauto]. }
  destruct (comb1_solve p2 (p2 && u2) (p2 && v2) z) as [h2 [Hz2 Hh2]].
  { destruct p2; simpl in *; [assumption|]. destruct H2 as [H2|H2]; [discriminate | tauto]. }
  exists (h0, h1, h2). split.
  - rewrite !andb_true_iff, !orb_true_iff, !Z.eqb_eq.
    repeat split; [destruct p0 | destruct p1 | destruct p2]; auto.
  - unfold comb, zb3. rewrite Hh0, Hh1, Hh2. reflexivity.
Qed.

Lemma mask_ozero p : mask p ozero = 0%nat.
Proof. destruct p as [[[] []] []]; reflexivity. Qed.

Section MetricLayer.
Variables a b c : v3.
Variable pos : nat -> v3.
Variable n : nat.
Variable p : pbc3.
Variable rad : nat -> Z.
Variable thr : Z.
Hypothesis n_pos : (0 < n)%nat.
Hypothesis thr_nonneg : 0 <= thr.
Hypothesis rad_nonneg : forall i, (i < n)%nat -> 0 <= rad i.
Let k := npbc p.
Let cut := cutoff n rad thr.

(* atom i is bonded to the image of atom j displaced by the lattice vector o *)
Definition bonded (i j : nat) (o : off) : Prop :=
  img_d2 a b c pos i j o <= (thr + rad i + rad j) * (thr + rad i + rad j).

Lemma t_range i j : (i < n)%nat -> (j < n)%nat -> 0 <= thr + rad i + rad j <= cut.
Proof.
  intros Hi Hj. pose proof (rad_nonneg i Hi). pose proof (rad_nonneg j Hj).
  pose proof (rad_le_max n rad i Hi). pose proof (rad_le_max n rad j Hj). unfold cut, cutoff. lia.
Qed.

(* the 1x minimum-image graph is the quotient of the infinite bonded graph by the lattice *)
Theorem graph_1x_is_quotient tab1 : tab_spec p (img_d2 a b c pos) n cut tab1 ->
  forall i j, (i < n)%nat -> (j < n)%nat ->
    (bondt thr tab1 rad i j = true <-> i = j \/ exists o, okoff p o = true /\ bonded i j o).
Proof.
  intros Hs i j Hi Hj. destruct (Nat.eq_dec i j) as [->|Hne].
  - unfold bondt. rewrite Nat.eqb_refl. simpl. tauto.
  - rewrite (bond_iff p _ n cut tab1 thr rad i j Hs Hi Hj Hne (t_range i j Hi Hj)). unfold bonded. split.
    + intros H. right. exact H.
    + intros [H|H]; [contradiction | exact H].
Qed.

(* geometry of system.repeat(repeats): image distances of the repeated system are image distances
   of the original one at the combined offset *)
Let cell2 := rep_cell a b c p.
Let pos2 := rep_pos a b c pos n p.
Definition img2 (u v : nat) (o : off) : Z := img_d2 (fst (fst cell2)) (snd (fst cell2)) (snd cell2) pos2 u v o.

Lemma img2_eq u v o :
  img2 u v o = img_d2 a b c pos (u mod n) (v mod n) (comb p (unmask p (u / n)) (unmask p (v / n)) o).
Proof.
  unfold img2, img_d2, pos2, rep_pos, cell2, rep_cell.
  destruct (unmask p (u / n)) as [[ux uy] uz]. destruct (unmask p (v / n)) as [[wx wy] wz].
  destruct o as [[x y] z]. destruct p as [[p0 p1] p2]. unfold comb.
  set (pi := pos (u mod n)). set (pj := pos (v mod n)).
  match goal with |- dot ?d1 ?d1 = dot ?d2 ?d2 => assert (Hd : d1 = d2); [|rewrite Hd; reflexivity] end.
  destruct a as [ax ay az], b as [bx by_ bz], c as [cx cy cz], pi as [ix iy iz], pj as [jx jy jz].
  destruct p0, p1, p2; unfold dbl, lat, sub, add, scale, fst, snd; cbn [ZV3.vx ZV3.vy ZV3.vz]; f_equal; ring.
Qed.

(* the 2x minimum-image graph is the quotient of the infinite bonded graph by (2Z)^k: copies cu, cv of
   atoms i, j are bonded iff some bonded image pair (i, j, o) has parity mask cu xor cv *)
Theorem graph_2x_is_quotient tab2 : tab_spec p img2 (2 ^ k * n) cut tab2 ->
  forall u v, (u < 2 ^ k * n)%nat -> (v < 2 ^ k * n)%nat ->
    (bondt thr tab2 (rad2 n rad) u v = true <->
     u = v \/ exists o, okoff p o = true /\ bonded (u mod n) (v mod n) o /\ mask p o = Nat.lxor (u / n) (v / n)).
Proof.
  intros Hs u v Hu Hv. destruct (Nat.eq_dec u v) as [->|Hne].
  - unfold bondt. rewrite Nat.eqb_refl. simpl. tauto.
  - assert (Hun : (u mod n < n)%nat) by (apply Nat.mod_upper_bound; lia).
    assert (Hvn : (v mod n < n)%nat) by (apply Nat.mod_upper_bound; lia).
    assert (Hud : (u / n < 2 ^ k)%nat) by (apply Nat.div_lt_upper_bound; lia).
    assert (Hvd : (v / n < 2 ^ k)%nat) by (apply Nat.div_lt_upper_bound; lia).
    rewrite (bond_iff p _ _ cut tab2 thr (rad2 n rad) u v Hs Hu Hv Hne) by (unfold rad2; apply t_range; assumption).
    unfold rad2, bonded. set (t := thr + rad (u mod n) + rad (v mod n)).
    set (mu := unmaskb p (u / n)). set (mv := unmaskb p (v / n)).
    assert (Emu : unmask p (u / n) = zb3 (pmask p mu)) by (unfold mu; rewrite unmaskb_pmask; apply unmask_zb3).
    assert (Emv : unmask p (v / n) = zb3 (pmask p mv)) by (unfold mv; rewrite unmaskb_pmask; apply unmask_zb3).
    split.
    + intros [o [Hok Hle]]. right. rewrite img2_eq in Hle. exists (comb p (unmask p (u / n)) (unmask p (v / n)) o).
      split; [rewrite Emu, Emv; apply comb_okoff; assumption|]. split; [exact Hle|].
      unfold mask. rewrite <- maskb_pmask. rewrite Emu, Emv, comb_parity, maskb_pmask.
      unfold mu, mv. rewrite !unmaskb_pmask. apply maskb_xor; assumption.
    + intros [H|[o [Hok [Hle Hm]]]]; [contradiction|].
      destruct (comb_surj p mu mv o Hok) as [o' [Hok' Hcomb]].
      { apply maskb_inj. fold (mask p o). rewrite Hm. symmetry. apply maskb_xor; assumption. }
      exists o'. split; [assumption|]. rewrite img2_eq, Emu, Emv, Hcomb. exact Hle.
Qed.

(* consequently the metric mirror equals the discrete mirror on the exact list of bonded image pairs *)
Variable E : list ipair.
Hypothesis wf : wf_E n p E = true.
Hypothesis E_exact : forall i j o, (i < n)%nat -> (j < n)%nat -> okoff p o = true -> (i, o) <> (j, ozero) ->
  (In (i, j, o) (sym E) <-> bonded i j o).

Theorem metric_eq_graph tab1 tab2 :
  tab_spec p (img_d2 a b c pos) n cut tab1 -> tab_spec p img2 (2 ^ k * n) cut tab2 ->
  get_dim_metric n p rad thr tab1 tab2 = get_dim_graph n p E.
Proof.
  intros H1 H2. unfold get_dim_metric, get_dim_graph. apply dim_from_ext.
  - intros i j Hi Hj. apply eq_true_iff_eq.
    rewrite (graph_1x_is_quotient tab1 H1 i j Hi Hj), (adj1_of_spec n p E i j Hi).
    destruct (Nat.eq_dec i j) as [->|Hne]; [tauto|].
    split; (intros [H|[o H]]; [left; assumption | right; exists o]).
    + destruct H as [Hok Hb]. apply E_exact; try assumption. intros Heq. injection Heq as Heq _. contradiction.
    + assert (Hok : okoff p o = true) by (apply (wf_sym_ok n p E wf _ _ _ H)).
      split; [assumption|]. apply E_exact; try assumption. intros Heq. injection Heq as Heq _. contradiction.
  - intros u v Hu Hv. fold k in Hu, Hv. apply eq_true_iff_eq.
    assert (Hun : (u mod n < n)%nat) by (apply Nat.mod_upper_bound; lia).
    assert (Hvn : (v mod n < n)%nat) by (apply Nat.mod_upper_bound; lia).
    rewrite (graph_2x_is_quotient tab2 H2 u v Hu Hv). unfold adj2_of, adj2.
    rewrite orb_true_iff, Nat.eqb_eq, (lab_of_spec n p E _ _ _ Hun).
    split; (intros [H|[o H]]; [left; assumption|]).
    + destruct H as [Hok [Hb Hm]].
      destruct (Nat.eq_dec u v) as [->|Hne]; [left; reflexivity|]. right. exists o. split; [|assumption].
      apply E_exact; try assumption. intros Heq. injection Heq as Hi Ho. subst o.
      (* same atom, zero offset, equal parity: then u = v *)
      apply Hne. rewrite mask_ozero in Hm.
      symmetry in Hm. apply Nat.lxor_eq in Hm.
      rewrite (Nat.div_mod u n), (Nat.div_mod v n) by lia. rewrite Hm, Hi. reflexivity.
    + destruct H as [Hin Hm].
      destruct (Nat.eq_dec u v) as [Heq|Hne]; [left; assumption|]. right. exists o.
      assert (Hok : okoff p o = true) by (apply (wf_sym_ok n p E wf _ _ _ Hin)).
      split; [assumption|]. split; [|assumption].
      apply E_exact; try assumption. intros Heq. injection Heq as Hi Ho. subst o.
      apply Hne. rewrite mask_ozero in Hm.
      symmetry in Hm. apply Nat.lxor_eq in Hm.
      rewrite (Nat.div_mod u n), (Nat.div_mod v n) by lia. rewrite Hm, Hi. reflexivity.
Qed.
End MetricLayer.

(* non-vacuity of the hypotheses of Part 3: one atom of radius 1 in a cell of edge 4 (grid units),
   periodic along x only, threshold 2: the atom touches its own images at +-a, nothing else. *)
Section NonVacuity.
Let a := mk3 4 0 0.
Let b := mk3 0 4 0.
Let c := mk3 0 0 4.
Let pos (i : nat) := mk3 1 1 1.
Let p : pbc3 := (true, false, false).
Let rad (i : nat) := 1.
Let thr := 2.
Let E : list ipair := [(0%nat, 0%nat, (1, 0, 0))].
Let tab1 (i j : nat) : option Z := Some 0.
Let tab2 (u v : nat) : option Z := if (u =? v)%nat then Some 0 else Some 16.

Lemma ex_okoff o : okoff p o = true -> exists x, o = (x, 0, 0).
Proof. destruct o as [[x y] z]. unfold okoff, p. simpl. rewrite andb_true_iff, !Z.eqb_eq. intros [-> ->]. exists x. reflexivity. Qed.

Lemma ex_img2_01 x : img2 a b c pos 1 p 0 1 (x, 0, 0) = 16 * (1 + 2 * x) * (1 + 2 * x).
Proof.
  rewrite img2_eq.
  let t := eval vm_compute in (unmask p (0 / 1)) in change (unmask p (0 / 1)) with t.
  let t := eval vm_compute in (unmask p (1 / 1)) in change (unmask p (1 / 1)) with t.
  unfold comb, p, dbl, img_d2, lat, sub, add, scale, dot, a, b, c, pos. cbn [ZV3.vx ZV3.vy ZV3.vz]. ring.
Qed.
Lemma ex_img2_10 x : img2 a b c pos 1 p 1 0 (x, 0, 0) = 16 * (2 * x - 1) * (2 * x - 1).
Proof.
  rewrite img2_eq.
  let t := eval vm_compute in (unmask p (0 / 1)) in change (unmask p (0 / 1)) with t.
  let t := eval vm_compute in (unmask p (1 / 1)) in change (unmask p (1 / 1)) with t.
  unfold comb, p, dbl, img_d2, lat, sub, add, scale, dot, a, b, c, pos. cbn [ZV3.vx ZV3.vy ZV3.vz]. ring.
Qed.

Example metric_hypotheses_satisfiable :
  tab_spec p (img_d2 a b c pos) 1 (cutoff 1 rad thr) tab1
  /\ tab_spec p (img2 a b c pos 1 p) (2 ^ npbc p * 1) (cutoff 1 rad thr) tab2
  /\ wf_E 1 p E = true
  /\ (forall i j o, (i < 1)%nat -> (j < 1)%nat -> okoff p o = true -> (i, o) <> (j, ozero) ->
        (In (i, j, o) (sym E) <-> bonded a b c pos rad thr i j o))
  /\ get_dim_metric 1 p rad thr tab1 tab2 = Some 1 /\ get_dim_graph 1 p E = Some 1.
Proof.
  split; [|split; [|split; [|split; [|split]]]].
  - intros i j Hi Hj Hne. lia.
  - intros i j Hi Hj Hne. change (2 ^ npbc p * 1)%nat with 2%nat in Hi, Hj.
    assert (Hc : (i = 0 /\ j = 1)%nat \/ (i = 1 /\ j = 0)%nat) by lia.
    destruct Hc as [[-> ->]|[-> ->]]; (split; [|split]).
    + exists (0, 0, 0). split; reflexivity.
    + intros o Ho. destruct (ex_okoff o Ho) as [x ->]. rewrite ex_img2_01. nia.
    + vm_compute. discriminate.
    + exists (0, 0, 0). split; reflexivity.
    + intros o Ho. destruct (ex_okoff o Ho) as [x ->]. rewrite ex_img2_10. nia.
    + vm_compute. discriminate.
  - reflexivity.
  - intros i j o Hi Hj Ho Hne. assert (i = 0%nat) by lia. assert (j = 0%nat) by lia. subst i j.
    destruct (ex_okoff o Ho) as [x ->]. unfold bonded, img_d2, lat, sub, add, scale, dot, a, b, c, pos, rad, thr, E, sym. cbn [ZV3.vx ZV3.vy ZV3.vz app map flip oneg In].
    split.
    + intros [H|[H|[]]]; inversion H; lia.
    + intros H. assert (Hx : x = 1 \/ x = -1 \/ x = 0) by nia. destruct Hx as [-> | [-> | ->]]; [left; reflexivity | right; left; reflexivity |].
      exfalso. apply Hne. reflexivity.
  - vm_compute. reflexivity.
  - vm_compute. reflexivity.
Qed.
End NonVacuity.

(* ========================================================================================== *)
(* Part 4: invariance clauses -- what is proved is the algebra; the statements about [dim_spec]
   itself are kept visible below and are *tested* on every generated pair (relation same_spec). *)

(* lattice shifts of atoms: r_i' = r_i + s_i.cell.  The image distances are those of the original
   structure at the re-labelled offset  o - s_i + s_j ... *)
Lemma img_d2_shift a b c pos (s : nat -> off) i j o :
  img_d2 a b c (fun i => let '(x, y, z) := s i in add (pos i) (lat a b c x y z)) i j o
  = img_d2 a b c pos i j (oadd (osub o (s i)) (s j)).
Proof.
  unfold img_d2. cbv beta. destruct (s i) as [[sx sy] sz], (s j) as [[tx ty] tz], o as [[x y] z].
  unfold osub, oneg, oadd. cbv beta iota.
  match goal with |- dot ?d1 ?d1 = dot ?d2 ?d2 => assert (Hd : d1 = d2); [|rewrite Hd; reflexivity] end.
  destruct a as [ax ay az], b as [bx by_ bz], c as [cx cy cz], (pos i) as [ix iy iz], (pos j) as [jx jy jz].
  unfold lat, sub, add, scale; cbn [ZV3.vx ZV3.vy ZV3.vz]; f_equal; ring.
Qed.
Lemma okoff_oadd p u v : okoff p u = true -> okoff p v = true -> okoff p (oadd u v) = true.
Proof.
  destruct p as [[p0 p1] p2], u as [[x y] z], v as [[x' y'] z']. unfold okoff, oadd.
  rewrite !andb_true_iff, !orb_true_iff, !Z.eqb_eq.
  intros [[H0 H1] H2] [[G0 G1] G2].
  repeat split; [destruct H0, G0 | destruct H1, G1 | destruct H2, G2]; auto; right; lia.
Qed.
(* ... so the 1x bond relation (exists an admissible offset within reach) does not change: the
   None / not-None answer is invariant under lattice shifts of atoms along periodic axes *)
Theorem bonded_exists_shift_invariant a b c pos rad thr p (s : nat -> off) i j :
  (forall i, okoff p (s i) = true) ->
  ((exists o, okoff p o = true /\ bonded a b c (fun i => let '(x, y, z) := s i in add (pos i) (lat a b c x y z)) rad thr i j o)
   <-> (exists o, okoff p o = true /\ bonded a b c pos rad thr i j o)).
Proof.
  intros Hs. unfold bonded. split.
  - intros [o [Hok Hb]]. rewrite img_d2_shift in Hb. exists (oadd (osub o (s i)) (s j)). split; [|exact Hb].
    apply okoff_oadd; [apply okoff_oadd; [assumption | rewrite <- okoff_oneg; apply Hs] | apply Hs].
  - intros [o [Hok Hb]]. exists (oadd (osub o (s j)) (s i)). split.
    + apply okoff_oadd; [apply okoff_oadd; [assumption | rewrite <- okoff_oneg; apply Hs] | apply Hs].
    + rewrite img_d2_shift.
      replace (oadd (osub (oadd (osub o (s j)) (s i)) (s i)) (s j)) with o; [exact Hb|].
      destruct o as [[x y] z], (s i) as [[sx sy] sz], (s j) as [[tx ty] tz]. unfold osub, oneg, oadd. f_equal; [f_equal|]; ring.
Qed.

(* voltages: with potentials re-labelled by the shifts, every cycle voltage is unchanged *)
Lemma voltage_shift_invariant (pi pj si sj o : off) :
  osub (oadd (osub pi si) (oadd (osub o sj) si)) (osub pj sj) = osub (oadd pi o) pj.
Proof.
  destruct pi as [[a1 a2] a3], pj as [[b1 b2] b3], si as [[c1 c2] c3], sj as [[d1 d2] d3], o as [[x y] z].
  unfold osub, oneg, oadd. f_equal; [f_equal|]; ring.
Qed.
(* basis change / any additive map of offsets: the voltage of the image is the image of the voltage *)
Definition lin (U : off * off * off) (o : off) : off :=
  let '(r0, r1, r2) := U in let '(x, y, z) := o in oadd (oscale x r0) (oadd (oscale y r1) (oscale z r2)).
Lemma voltage_linear U pi pj o : lin U (osub (oadd pi o) pj) = osub (oadd (lin U pi) (lin U o)) (lin U pj).
Proof.
  destruct U as [[[[u00 u01] u02] [[u10 u11] u12]] [[u20 u21] u22]].
  destruct pi as [[a1 a2] a3], pj as [[b1 b2] b3], o as [[x y] z].
  unfold lin, osub, oneg, oscale, oadd. f_equal; [f_equal|]; ring.
Qed.
(* parity masks are additive: the 2x label of a re-labelled pair is the xor of the labels *)
Lemma mask_oadd p u v : mask p (oadd u v) = Nat.lxor (mask p u) (mask p v).
Proof.
  destruct u as [[x y] z], v as [[x' y'] z']. unfold mask, parity, oadd. rewrite !Z.odd_add.
  destruct p as [[[] []] []], (Z.odd x), (Z.odd y), (Z.odd z), (Z.odd x'), (Z.odd y'), (Z.odd z'); reflexivity.
Qed.

(* ---- statements kept visible --------------------------------------------------------------- *)
(* re-presentations of the same discrete network *)
Inductive represent (n : nat) : list ipair -> list ipair -> Prop :=
| rep_shift (s : nat -> off) E :
    represent n E (map (fun e => let '(i, j, o) := e in (i, j, oadd (osub o (s j)) (s i))) E)
| rep_atoms (pi : nat -> nat) E :
    (forall i j, (i < n)%nat -> (j < n)%nat -> pi i = pi j -> i = j) -> (forall i, (i < n)%nat -> (pi i < n)%nat) ->
    represent n E (map (fun e => let '(i, j, o) := e in (pi i, pi j, o)) E)
| rep_basis U Uinv E :
    (forall o, lin Uinv (lin U o) = o) -> (forall o, lin U (lin Uinv o) = o) ->
    represent n E (map (fun e => let '(i, j, o) := e in (i, j, lin U o)) E).

(* PROVED in Geometry/InvarianceFull.v ([C09_invariance_full_statement_holds]; it needs the later files RankDet.v, RankElim.v,
   VoltageLattice.v, which is why the statement stays a Definition here): the specification does not depend on the presentation.
   Still tested on every generated pair by [same_spec].  Supercells (different n; only meaningful when the supercell stays
   connected) are not part of this statement and are covered by tests only. *)
Definition C09_invariance_full_statement : Prop :=
  forall n p E E', wf_E n p E = true -> wf_E n p E' = true -> (0 < n)%nat ->
    represent n E E' -> dim_spec n p E = dim_spec n p E'.

(* PROVED: the covering-graph counting theorem for the code mirror *)
Definition C09_full_statement : Prop :=
  forall n p E, wf_E n p E = true -> (0 < n)%nat -> connectedE n p E ->
    (ncomp (adj2_of n (lab_of (nbr_tab n p E))) (seq 0 (2 ^ npbc p * n)) * length (Kset n p E) = 2 ^ npbc p)%nat.
Theorem C09_full_statement_holds : C09_full_statement.
Proof. intros n p E wf Hn Hc. apply count_2x; assumption. Qed.

(* ========================================================================================== *)
(* Part 5: K is the GF(2)-span of the cycle voltages *)
Local Open Scope nat_scope.

Ltac xor_solve :=
  apply Nat.bits_inj; intro; rewrite ?Nat.lxor_spec, ?Nat.bits_0;
  repeat match goal with |- context [Nat.testbit ?a ?t] => destruct (Nat.testbit a t) end; reflexivity.

(* ---- span2 -------------------------------------------------------------------------------- *)
Inductive gen (vs : list nat) : nat -> Prop :=
| gen_0 : gen vs 0
| gen_step a v : gen vs a -> In v vs -> gen vs (Nat.lxor a v).

Lemma span2_zero vs : In 0 (span2 vs).
Proof.
  induction vs as [|v r IH]; simpl; [left; reflexivity|].
  destruct (mem v (span2 r)); [assumption | apply in_or_app; left; assumption].
Qed.

Lemma span2_closed vs : forall a b, In a (span2 vs) -> In b (span2 vs) -> In (Nat.lxor a b) (span2 vs).
Proof.
  induction vs as [|v r IH]; simpl.
  - intros a b [<-|[]] [<-|[]]. left. reflexivity.
  - destruct (mem v (span2 r)) eqn:E; [exact IH|].
    intros a b Ha Hb. apply in_app_or in Ha. apply in_app_or in Hb. apply in_or_app.
    destruct Ha as [Ha|Ha], Hb as [Hb|Hb].
    + left. apply IH; assumption.
    + right. apply in_map_iff in Hb. destruct Hb as [s [<- Hs]]. apply in_map_iff.
      exists (Nat.lxor a s). split; [xor_solve | apply IH; assumption].
    + right. apply in_map_iff in Ha. destruct Ha as [s [<- Hs]]. apply in_map_iff.
      exists (Nat.lxor s b). split; [xor_solve | apply IH; assumption].
    + left. apply in_map_iff in Ha. destruct Ha as [s [<- Hs]]. apply in_map_iff in Hb. destruct Hb as [s' [<- Hs']].
      replace (Nat.lxor (Nat.lxor v s) (Nat.lxor v s')) with (Nat.lxor s s') by xor_solve. apply IH; assumption.
Qed.

Lemma span2_contains vs v : In v vs -> In v (span2 vs).
Proof.
  induction vs as [|w r IH]; simpl; [intros []|].
  intros [->|H].
  - destruct (mem v (span2 r)) eqn:E; [apply mem_In; assumption|].
    apply in_or_app. right. apply in_map_iff. exists 0. split; [apply Nat.lxor_0_r | apply span2_zero].
  - specialize (IH H). destruct (mem w (span2 r)); [assumption | apply in_or_app; left; assumption].
Qed.

Lemma gen_in_span vs a : gen vs a -> In a (span2 vs).
Proof.
  induction 1 as [|a v Hg IH Hv]; [apply span2_zero|].
  apply span2_closed; [assumption | apply span2_contains; assumption].
Qed.

Lemma gen_mono v vs a : gen vs a -> gen (v :: vs) a.
Proof. induction 1; [constructor | constructor; [assumption | right; assumption]]. Qed.

Lemma span_in_gen vs a : In a (span2 vs) -> gen vs a.
Proof.
  revert a. induction vs as [|v r IH]; simpl; intros a Ha.
  - destruct Ha as [<-|[]]. constructor.
  - destruct (mem v (span2 r)) eqn:E.
    + apply gen_mono. apply IH. assumption.
    + apply in_app_or in Ha. destruct Ha as [Ha|Ha]; [apply gen_mono, IH; assumption|].
      apply in_map_iff in Ha. destruct Ha as [s [<- Hs]]. rewrite Nat.lxor_comm.
      constructor; [apply gen_mono, IH; assumption | left; reflexivity].
Qed.

Lemma span2_nodup vs : NoDup (span2 vs).
Proof.
  induction vs as [|v r IH]; simpl; [repeat constructor; intros []|].
  destruct (mem v (span2 r)) eqn:E; [assumption|].
  apply nodup_app; [assumption | |].
  - apply FinFun.Injective_map_NoDup; [|assumption]. intros x y Hxy.
    rewrite (Nat.lxor_comm v x), (Nat.lxor_comm v y) in Hxy. eapply lxor_cancel_r; eauto.
  - intros x Hx Hx'. apply in_map_iff in Hx'. destruct Hx' as [s [Hs Hs']].
    assert (Hv : In v (span2 r)).
    { replace v with (Nat.lxor x s) by (subst x; xor_solve). apply span2_closed; assumption. }
    apply mem_In in Hv. congruence.
Qed.

(* ---- potentials --------------------------------------------------------------------------- *)
Lemma nth_set_nth_eq {A} (l : list A) k x d : k < length l -> nth k (set_nth k x l) d = x.
Proof. revert k. induction l as [|h r IH]; intros k Hk; simpl in *; [lia|]. destruct k; simpl; [reflexivity | apply IH; lia]. Qed.
Lemma nth_set_nth_neq {A} (l : list A) k k' x d : k <> k' -> nth k' (set_nth k x l) d = nth k' l d.
Proof.
  revert k k'. induction l as [|h r IH]; intros k k' Hne; [destruct k, k'; reflexivity|].
  destruct k, k'; simpl; try reflexivity; try lia. apply IH. lia.
Qed.
Lemma set_nth_length {A} (l : list A) k x : length (set_nth k x l) = length l.
Proof. revert k. induction l as [|h r IH]; intros k; [destruct k; reflexivity|]. destruct k; simpl; [reflexivity | rewrite IH; reflexivity]. Qed.

Definition potf (pot : list (option off)) (i : nat) : off :=
  match nth i pot None with Some q => q | None => ozero end.

Section KSpan.
Variables (n : nat) (p : pbc3) (E : list ipair).
Hypothesis wf : wf_E n p E = true.
Hypothesis n_pos : 0 < n.
Let k := npbc p.
Let lab := lab_of (nbr_tab n p E).
Let R := reach (adj2 n lab) (V2 n k).
Let vx := vtx n.

Let lab_sym := lab_of_sym n p E.

Lemma R00 : In (vx 0 0) (V2 n k).
Proof. apply vtx_in; [assumption | apply (M_pos n k n_pos) | assumption]. Qed.

Lemma step_edge c i j o : c < 2 ^ k -> In (i, j, o) (sym E) ->
  R (vx 0 0) (vx c i) -> R (vx 0 0) (vx (Nat.lxor c (mask p o)) j).
Proof.
  intros Hc Hin HR. destruct (wf_sym n p E wf _ _ _ Hin) as [Hi Hj].
  eapply reach_step; [exact HR | |].
  - apply vtx_in; [assumption | apply lxor_lt_pow2; [assumption | apply mask_bound] | assumption].
  - unfold vx. rewrite (adj2_vtx n k n_pos) by assumption. apply orb_true_iff. right.
    replace (Nat.lxor c (Nat.lxor c (mask p o))) with (mask p o) by xor_solve.
    apply lab_of_spec; [assumption|]. exists o. split; [assumption | reflexivity].
Qed.

(* invariant of the relaxation: a placed atom i at lattice position q is joined, in the 2x graph, from copy 0 of
   atom 0 to copy (parity of q) of atom i *)
Definition Pinv (pot : list (option off)) : Prop :=
  length pot = n /\ nth 0 pot None = Some ozero /\
  forall i q, nth i pot None = Some q -> i < n /\ R (vx 0 0) (vx (mask p q) i).

Lemma Pinv_init : Pinv (set_nth 0 (Some ozero) (repeat None n)).
Proof.
  split; [rewrite set_nth_length, repeat_length; reflexivity|]. split.
  - apply nth_set_nth_eq. rewrite repeat_length. assumption.
  - intros i q H. destruct (Nat.eq_dec i 0) as [->|Hne].
    + rewrite nth_set_nth_eq in H by (rewrite repeat_length; assumption). injection H as <-.
      split; [assumption|]. rewrite mask_ozero. constructor.
    + rewrite nth_set_nth_neq in H by lia. exfalso. clear - H.
      assert (Hr : forall m t, nth t (repeat (@None off) m) None = None) by (induction m as [|m IHm]; intros [|t]; simpl; auto).
      rewrite Hr in H. discriminate.
Qed.

Lemma Pinv_relax es : incl es (sym E) -> forall pot, Pinv pot -> Pinv (relax es pot).
Proof.
  induction es as [|[[i j] o] r IH]; intros Hes pot HP; simpl; [assumption|].
  apply IH; [intros e He; apply Hes; right; assumption|].
  destruct (nth i pot None) as [pi|] eqn:Ei; [|assumption].
  destruct (nth j pot None) as [pj|] eqn:Ej; [assumption|].
  destruct HP as [Hlen [H0 Hall]].
  assert (Hin : In (i, j, o) (sym E)) by (apply Hes; left; reflexivity).
  destruct (wf_sym n p E wf _ _ _ Hin) as [Hi Hj].
  split; [rewrite set_nth_length; assumption|]. split.
  - rewrite nth_set_nth_neq; [assumption|]. intros ->. congruence.
  - intros i' q Hq. destruct (Nat.eq_dec i' j) as [->|Hne].
    + rewrite nth_set_nth_eq in Hq by lia. injection Hq as <-. split; [assumption|].
      rewrite mask_oadd. destruct (Hall i pi Ei) as [_ HR].
      apply (step_edge _ i j o); [apply mask_bound | assumption | assumption].
    + rewrite nth_set_nth_neq in Hq by lia. apply Hall. assumption.
Qed.

Lemma Pinv_relax_n m : forall pot, Pinv pot -> Pinv (relax_n m (sym E) pot).
Proof. induction m as [|m IH]; intros pot HP; simpl; [assumption|]. apply IH. apply Pinv_relax; [apply incl_refl | assumption]. Qed.

Lemma Pinv_potentials : Pinv (potentials n E).
Proof. apply Pinv_relax_n. apply Pinv_init. Qed.

(* ---- all atoms placed -------------------------------------------------------------------- *)
Let pot := potentials n E.
Hypothesis placed : all_placed pot = true.

Lemma placed_nth i : i < n -> nth i pot None = Some (potf pot i).
Proof.
  intros Hi. unfold potf. destruct (nth i pot None) eqn:Ei; [reflexivity|]. exfalso.
  unfold all_placed in placed. rewrite forallb_forall in placed.
  assert (Hin : In (nth i pot None) pot) by (apply nth_In; destruct Pinv_potentials as [Hl _]; fold pot in Hl; lia).
  specialize (placed _ Hin). rewrite Ei in placed. discriminate.
Qed.
Lemma pot_reach i : i < n -> R (vx 0 0) (vx (mask p (potf pot i)) i).
Proof. intros Hi. destruct Pinv_potentials as [_ [_ Hall]]. apply (Hall i). apply placed_nth. assumption. Qed.
Lemma pot0 : potf pot 0 = ozero.
Proof. destruct Pinv_potentials as [_ [H0 _]]. unfold potf. fold pot in H0. rewrite H0. reflexivity. Qed.

Definition vmask (e : ipair) : nat :=
  let '(i, j, o) := e in Nat.lxor (Nat.lxor (mask p (potf pot i)) (mask p o)) (mask p (potf pot j)).
Definition vmasks : list nat := map (mask p) (voltages pot E).

Lemma vmasks_eq : vmasks = map vmask E.
Proof.
  unfold vmasks, voltages. rewrite map_map. apply map_ext_in. intros [[i j] o] Hin.
  assert (Hs : In (i, j, o) (sym E)) by (unfold sym; apply in_or_app; left; assumption).
  destruct (wf_sym n p E wf _ _ _ Hs) as [Hi Hj].
  rewrite (placed_nth i Hi), (placed_nth j Hj). unfold osub, vmask. rewrite !mask_oadd, mask_oneg. reflexivity.
Qed.

Lemma vmask_sym i j o : In (i, j, o) (sym E) -> In (vmask (i, j, o)) vmasks.
Proof.
  intros Hin. rewrite vmasks_eq. unfold sym in Hin. apply in_app_or in Hin. destruct Hin as [Hin|Hin].
  - apply in_map. assumption.
  - apply in_map_iff in Hin. destruct Hin as [[[i' j'] o'] [Heq He]]. simpl in Heq. injection Heq as <- <- <-.
    apply in_map_iff. exists (i', j', o'). split; [|assumption]. unfold vmask. rewrite mask_oneg. xor_solve.
Qed.

Lemma mask_potf_bound i : mask p (potf pot i) < 2 ^ k. Proof. apply mask_bound. Qed.

(* membership in K *)
Lemma K_iff a : In a (Kset n p E) <-> a < 2 ^ k /\ R (vx 0 0) (vx a 0).
Proof.
  unfold Kset, K. fold k. fold lab. rewrite filter_In, in_seq. unfold R, vx.
  rewrite (reachb_iff (adj2 n lab) (V2 n k) (V2_nodup n k) (vtx n 0 0) (vtx n a 0) R00).
  simpl. split; intros [H1 H2]; (split; [lia | assumption]).
Qed.

Lemma K_closed a b : In a (Kset n p E) -> In b (Kset n p E) -> In (Nat.lxor a b) (Kset n p E).
Proof.
  rewrite !K_iff. intros [Ha HRa] [Hb HRb]. split; [apply lxor_lt_pow2; assumption|].
  pose proof (translate n k n_pos lab a Ha _ _ R00 HRb) as H.
  unfold vx in H. rewrite !(vtx_div n k n_pos), !(vtx_mod n k n_pos), Nat.lxor_0_l in H by assumption.
  rewrite (Nat.lxor_comm a b). eapply R_trans; [exact HRa | exact H].
Qed.

Lemma vmask_in_K e : In e (sym E) -> In (vmask e) (Kset n p E).
Proof.
  destruct e as [[i j] o]. intros Hin. destruct (wf_sym n p E wf _ _ _ Hin) as [Hi Hj].
  set (mi := mask p (potf pot i)). set (mj := mask p (potf pot j)). set (mo := mask p o).
  assert (Hv : vmask (i, j, o) < 2 ^ k) by (unfold vmask; repeat apply lxor_lt_pow2; apply mask_bound).
  apply K_iff. split; [assumption|].
  (* (0,0) ~ (mi xor mo, j)   and   (v,0) ~ (mj xor v, j) = (mi xor mo, j) *)
  assert (H1 : R (vx 0 0) (vx (Nat.lxor mi mo) j)) by (apply (step_edge _ i j o); [apply mask_bound | assumption | apply pot_reach; assumption]).
  pose proof (translate n k n_pos lab _ Hv _ _ R00 (pot_reach j Hj)) as H2.
  unfold vx in H2. rewrite !(vtx_div n k n_pos), !(vtx_mod n k n_pos), Nat.lxor_0_l in H2 by assumption.
  replace (Nat.lxor (mask p (potf pot j)) (vmask (i, j, o))) with (Nat.lxor mi mo) in H2 by (unfold vmask, mi, mo; xor_solve).
  eapply R_trans; [exact H1|].
  apply (R_sym n k n_pos lab lab_sym); [apply vtx_in; assumption | exact H2].
Qed.

Lemma span_sub_K a : In a (span2 vmasks) -> In a (Kset n p E).
Proof.
  intros H. apply span_in_gen in H. induction H as [|a v Hg IH Hv].
  - apply K_iff. split; [apply (M_pos n k n_pos) | constructor].
  - apply K_closed; [assumption|]. rewrite vmasks_eq in Hv. apply in_map_iff in Hv. destruct Hv as [e [<- He]].
    apply vmask_in_K. unfold sym. apply in_or_app. left. assumption.
Qed.

Lemma reach_in_span u : R (vx 0 0) u -> In (Nat.lxor (u / n) (mask p (potf pot (u mod n)))) (span2 vmasks).
Proof.
  intros H. induction H as [|x y Hr IH HyV Hxy].
  - unfold vx. rewrite (vtx_div n k n_pos), (vtx_mod n k n_pos), pot0, mask_ozero by assumption. apply span2_zero.
  - assert (HxV : In x (V2 n k)) by (apply (reach_in_V _ _ _ _ R00 Hr)).
    destruct (in_V2_inv n k n_pos x HxV) as [_ [Hxd Hxm]]. destruct (in_V2_inv n k n_pos y HyV) as [_ [Hyd Hym]].
    unfold adj2 in Hxy. apply orb_true_iff in Hxy. destruct Hxy as [Hxy|Hxy].
    + apply Nat.eqb_eq in Hxy. subst y. assumption.
    + apply lab_of_spec in Hxy; [|assumption]. destruct Hxy as [o [Hin Hm]].
      pose proof (vmask_sym _ _ _ Hin) as Hv. apply span2_contains in Hv.
      pose proof (span2_closed _ _ _ IH Hv) as Hc.
      replace (Nat.lxor (y / n) (mask p (potf pot (y mod n)))) with
        (Nat.lxor (Nat.lxor (x / n) (mask p (potf pot (x mod n)))) (vmask (x mod n, y mod n, o))); [exact Hc|].
      unfold vmask. rewrite Hm. xor_solve.
Qed.

Lemma K_sub_span a : In a (Kset n p E) -> In a (span2 vmasks).
Proof.
  rewrite K_iff. intros [Ha HR]. pose proof (reach_in_span _ HR) as H.
  unfold vx in H. rewrite (vtx_div n k n_pos), (vtx_mod n k n_pos), pot0, mask_ozero, Nat.lxor_0_r in H by assumption. exact H.
Qed.

Theorem K_is_span : length (Kset n p E) = length (span2 vmasks).
Proof.
  apply Nat.le_antisymm; apply NoDup_incl_length.
  - unfold Kset, K. apply NoDup_filter. apply seq_NoDup.
  - intros a. apply K_sub_span.
  - apply span2_nodup.
  - intros a. apply span_sub_K.
Qed.

(* all atoms placed: the cell contents are connected *)
Lemma placed_connected : connectedE n p E.
Proof.
  (* base reachability from 0: project the 2x path *)
  assert (Hproj : forall u, R (vx 0 0) u -> reach (adj1_of (nbr_tab n p E)) (seq 0 n) 0 (u mod n)).
  { intros u H. induction H as [|x y Hr IH HyV Hxy].
    - unfold vx. rewrite (vtx_mod n k n_pos) by assumption. constructor.
    - assert (HxV : In x (V2 n k)) by (apply (reach_in_V _ _ _ _ R00 Hr)).
      destruct (in_V2_inv n k n_pos x HxV) as [_ [_ Hxm]]. destruct (in_V2_inv n k n_pos y HyV) as [_ [_ Hym]].
      eapply reach_step; [exact IH | apply in_seq; simpl; lia |].
      apply adj1_of_spec; [assumption|].
      unfold adj2 in Hxy. apply orb_true_iff in Hxy. destruct Hxy as [Hxy|Hxy].
      + apply Nat.eqb_eq in Hxy. subst y. left. reflexivity.
      + apply lab_of_spec in Hxy; [|assumption]. destruct Hxy as [o [Hin _]]. right. exists o. assumption. }
  assert (H0 : forall i, i < n -> reach (adj1_of (nbr_tab n p E)) (seq 0 n) 0 i).
  { intros i Hi. pose proof (Hproj _ (pot_reach i Hi)) as H. unfold vx in H. rewrite (vtx_mod n k n_pos) in H by assumption. exact H. }
  intros i j Hi Hj.
  apply reach_trans with 0; [|apply H0; assumption].
  assert (Hsym : forall u v, In u (seq 0 n) -> In v (seq 0 n) -> adj1_of (nbr_tab n p E) u v = adj1_of (nbr_tab n p E) v u).
  { intros u v Hu Hv. apply in_seq in Hu. apply in_seq in Hv. apply adj1_of_sym; simpl in *; lia. }
  apply (reach_sym _ _ Hsym 0 i); [apply in_seq; simpl; lia | apply H0; assumption].
Qed.
End KSpan.

(* ========================================================================================== *)
(* Part 6: the relaxation places every atom of a connected cell (n sweeps suffice) *)
Definition is_placed (pot : list (option off)) (i : nat) : Prop := nth i pot None <> None.

Definition relax1 (e : ipair) (pot : list (option off)) : list (option off) :=
  let '(i, j, o) := e in
  match nth i pot None, nth j pot None with
  | Some pi, None => set_nth j (Some (oadd pi o)) pot
  | _, _ => pot
  end.
Lemma relax_cons e es pot : relax (e :: es) pot = relax es (relax1 e pot).
Proof. destruct e as [[i j] o]. reflexivity. Qed.

Lemma relax1_length e pot : length (relax1 e pot) = length pot.
Proof. destruct e as [[i j] o]. unfold relax1. destruct (nth i pot None), (nth j pot None); try reflexivity. apply set_nth_length. Qed.
Lemma relax1_mono e pot x : is_placed pot x -> is_placed (relax1 e pot) x.
Proof.
  destruct e as [[i j] o]. unfold relax1, is_placed. intros H.
  destruct (nth i pot None) as [pi|]; [|assumption]. destruct (nth j pot None) eqn:Ej; [assumption|].
  destruct (Nat.eq_dec j x) as [->|Hne]; [congruence|]. rewrite nth_set_nth_neq by assumption. assumption.
Qed.
Lemma relax1_edge i j o pot : j < length pot -> is_placed pot i -> is_placed (relax1 (i, j, o) pot) j.
Proof.
  unfold relax1, is_placed. intros Hj Hi. destruct (nth i pot None) as [pi|]; [|congruence].
  destruct (nth j pot None) eqn:Ej; [congruence|]. rewrite nth_set_nth_eq by assumption. discriminate.
Qed.

Lemma relax_length es : forall pot, length (relax es pot) = length pot.
Proof. induction es as [|e r IH]; intros pot; [reflexivity|]. rewrite relax_cons, IH. apply relax1_length. Qed.
Lemma relax_mono es : forall pot x, is_placed pot x -> is_placed (relax es pot) x.
Proof. induction es as [|e r IH]; intros pot x H; [assumption|]. rewrite relax_cons. apply IH. apply relax1_mono. assumption. Qed.
Lemma relax_edge es : forall pot i j o, In (i, j, o) es -> j < length pot -> is_placed pot i -> is_placed (relax es pot) j.
Proof.
  induction es as [|e r IH]; intros pot i j o Hin Hj Hi; [destruct Hin|]. rewrite relax_cons.
  destruct Hin as [->|Hin].
  - apply relax_mono. apply relax1_edge; assumption.
  - apply (IH _ i j o); [assumption | rewrite relax1_length; assumption | apply relax1_mono; assumption].
Qed.
Lemma relax_n_length m es : forall pot, length (relax_n m es pot) = length pot.
Proof. induction m as [|m IH]; intros pot; [reflexivity|]. simpl. rewrite IH. apply relax_length. Qed.
Lemma relax_n_mono m es : forall pot x, is_placed pot x -> is_placed (relax_n m es pot) x.
Proof. induction m as [|m IH]; intros pot x H; [assumption|]. simpl. apply IH. apply relax_mono. assumption. Qed.

Section RelaxComplete.
Variables (n : nat) (p : pbc3) (E : list ipair).
Hypothesis wf : wf_E n p E = true.
Hypothesis n_pos : 0 < n.
Let tab := nbr_tab n p E.
Let A1 := adj1_of tab.
Let V := seq 0 n.

(* sweep t places at least the t-th layer of the breadth-first search of Base/Graph.v *)
Lemma grow_placed f : forall S pot, length pot = n -> incl S V ->
  (forall x, In x S -> is_placed pot x) ->
  forall x, In x (grow A1 V f S) -> is_placed (relax_n f (sym E) pot) x.
Proof.
  induction f as [|f IH]; intros S pot Hlen HS Hpl x Hx; simpl in *; [apply Hpl; assumption|].
  destruct (frontier A1 V S) as [|u fr] eqn:Ef.
  - apply relax_n_mono. apply relax_mono. apply Hpl. assumption.
  - apply (IH (S ++ u :: fr)); [rewrite relax_length; assumption | | | assumption].
    + intros y Hy. apply in_app_or in Hy. destruct Hy as [Hy|Hy]; [apply HS; assumption|].
      rewrite <- Ef in Hy. apply frontier_spec in Hy. tauto.
    + intros y Hy. apply in_app_or in Hy. destruct Hy as [Hy|Hy]; [apply relax_mono, Hpl; assumption|].
      rewrite <- Ef in Hy. apply frontier_spec in Hy. destruct Hy as [HyV [_ [s [Hs Hadj]]]].
      assert (Hsn : s < n) by (apply HS in Hs; apply in_seq in Hs; simpl in Hs; lia).
      assert (Hyn : y < n) by (apply in_seq in HyV; simpl in HyV; lia).
      apply (adj1_of_spec n p E s y Hsn) in Hadj. destruct Hadj as [->|[o Ho]]; [apply relax_mono, Hpl; assumption|].
      apply (relax_edge _ _ s y o Ho); [lia | apply Hpl; assumption].
Qed.

Theorem connected_all_placed : connectedE n p E -> all_placed (potentials n E) = true.
Proof.
  intros Hc. unfold all_placed. apply forallb_forall. intros q Hq.
  destruct (In_nth _ _ None Hq) as [i [Hi Hnth]].
  set (pot0 := set_nth 0 (Some ozero) (repeat None n)).
  assert (Hlen0 : length pot0 = n) by (unfold pot0; rewrite set_nth_length, repeat_length; reflexivity).
  unfold potentials in *. fold pot0 in Hi, Hnth, Hq |- *. rewrite relax_n_length, Hlen0 in Hi.
  assert (Hpl : is_placed (relax_n n (sym E) pot0) i).
  { replace n with (length V) at 1 by (unfold V; apply seq_length).
    apply (grow_placed (length V) [0] pot0 Hlen0).
    - intros y [<-|[]]. apply in_seq. simpl. lia.
    - intros y [<-|[]]. unfold is_placed, pot0. rewrite nth_set_nth_eq by (rewrite repeat_length; assumption). discriminate.
    - change (In i (component A1 V 0)). apply component_complete; [apply seq_NoDup | apply in_seq; simpl; lia |].
      apply Hc; assumption. }
  unfold is_placed in Hpl. rewrite Hnth in Hpl. destruct q; [reflexivity | congruence].
Qed.
End RelaxComplete.

(* ========================================================================================== *)
(* Part 7: the code mirror equals the GF(2) half of the specification *)
Theorem spec_none_iff_disconnected n p E : wf_E n p E = true -> (0 < n)%nat ->
  (dim_spec n p E = None <-> ~ connectedE n p E).
Proof.
  intros wf Hn. unfold dim_spec. destruct (all_placed (potentials n E)) eqn:Ep.
  - split; [discriminate|]. intros H. exfalso. apply H. apply placed_connected; assumption.
  - split; [|reflexivity]. intros _ Hc. rewrite (connected_all_placed n p E Hn Hc) in Ep. discriminate.
Qed.

Theorem mirror_eq_spec2 n p E : wf_E n p E = true -> (0 < n)%nat ->
  get_dim_graph n p E = match dim_spec n p E with Some (r2, _) => Some (Z.of_nat r2) | None => None end.
Proof.
  intros wf Hn. pose proof (spec_none_iff_disconnected n p E wf Hn) as Hnone.
  unfold dim_spec in *. destruct (all_placed (potentials n E)) eqn:Ep.
  - assert (Hc : connectedE n p E) by (apply placed_connected; assumption).
    pose proof (K_is_span n p E wf Hn Ep) as HK. unfold vmasks in HK.
    unfold rank2. rewrite <- HK.
    destruct (Nat.eq_dec (npbc p) 0) as [Hk0|Hk0].
    + rewrite (dim0_without_pbc_graph n p E Hk0 Hc).
      pose proof (count_2x n p E Hn Hc) as Hcnt. rewrite Hk0 in Hcnt. simpl in Hcnt.
      apply Nat.eq_mul_1 in Hcnt. destruct Hcnt as [_ ->]. reflexivity.
    + destruct (formula_is_log2K n p E Hn) as [d [_ [HKd ->]]]; [lia | assumption|].
      rewrite HKd, Nat.log2_pow2 by lia. reflexivity.
  - unfold get_dim_graph. apply none_iff_not_connected; [apply adj1_of_sym|]. apply Hnone. reflexivity.
Qed.

(* PROVED (was C09_K_is_rank2_full_statement): |K| = 2^rank2 *)
Theorem K_is_rank2 n p E r2 rz : wf_E n p E = true -> (0 < n)%nat -> dim_spec n p E = Some (r2, rz) ->
  length (Kset n p E) = (2 ^ r2)%nat.
Proof.
  intros wf Hn Hs. unfold dim_spec in Hs. destruct (all_placed (potentials n E)) eqn:Ep; [|discriminate].
  injection Hs as <- _.
  assert (Hc : connectedE n p E) by (apply placed_connected; assumption).
  pose proof (K_is_span n p E wf Hn Ep) as HK. unfold vmasks in HK. unfold rank2. rewrite <- HK.
  destruct (mul_pow2 _ _ _ (count_2x n p E Hn Hc)) as [j [Hj [_ HKd]]].
  rewrite HKd, Nat.log2_pow2 by lia. reflexivity.
Qed.

(* whenever two presentations get the same answer from the code mirror, the specification agrees on
   None / GF(2) rank *)
Lemma spec_r2_of_mirror n p E E' : wf_E n p E = true -> wf_E n p E' = true -> (0 < n)%nat ->
  get_dim_graph n p E' = get_dim_graph n p E ->
  option_map fst (dim_spec n p E') = option_map fst (dim_spec n p E).
Proof.
  intros wf wf' Hn H. rewrite (mirror_eq_spec2 n p E wf Hn), (mirror_eq_spec2 n p E' wf' Hn) in H.
  destruct (dim_spec n p E') as [[r2' rz']|], (dim_spec n p E) as [[r2 rz]|]; simpl; try discriminate; [|reflexivity].
  injection H as H. apply Nat2Z.inj in H. subst. reflexivity.
Qed.
