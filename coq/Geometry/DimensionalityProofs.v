(* C09 -- theorems about the executable model of Geometry/Dimensionality.v.
   Part 1: control flow [dim_from]: None iff the 1x graph is disconnected; 0 without periodic axes.
   Part 2: the discrete mirror [get_dim_graph]: with the covering theorem of Base/Cover.v the 2x formula
           returns log2 |K|.
   Part 3: metric layer: under the C10 specification of the minimum-image tables the 1x / 2x bond
           relations are the quotients of the infinite bonded graph by Z^k / (2Z)^k
           ([graph_1x_is_quotient], [graph_2x_is_quotient]) and the metric mirror equals the
           discrete one ([metric_eq_graph]).
   Part 4: algebra of voltages used by the invariance clauses (partial, see C09_invariance_full_statement). *)
From Coq Require Import List Arith Bool ZArith Lia PeanoNat.
From MV Require Import Base.Graph Base.Cover Base.ZV3 Geometry.Dimensionality.
Import ListNotations.
Local Open Scope nat_scope.

(* ========================================================================================== *)
(* Part 1 *)
Section DimFrom.
Variables (n : nat) (p : pbc3) (a1 a2 : nat -> nat -> bool).
Hypothesis a1_sym : forall u v, u < n -> v < n -> a1 u v = a1 v u.

Let V := seq 0 n.
Lemma V_nodup : NoDup V. Proof. apply seq_NoDup. Qed.
Lemma V_in i : In i V <-> i < n. Proof. unfold V. rewrite in_seq. simpl. lia. Qed.
Lemma a1_symV u v : In u V -> In v V -> a1 u v = a1 v u.
Proof. intros Hu Hv. apply a1_sym; apply V_in; assumption. Qed.

Definition connected1 : Prop := forall i j, i < n -> j < n -> reach a1 (seq 0 n) i j.

Lemma ncomp_connected : ncomp a1 (seq 0 n) <= 1 <-> connected1.
Proof.
  fold V. rewrite (ncomp_le1_iff a1 V V_nodup a1_symV). unfold connected1. fold V.
  split; intros H i j Hi Hj; apply H; apply V_in; assumption.
Qed.

Lemma dim_from_None : dim_from n p a1 a2 = None <-> 1 < ncomp a1 (seq 0 n).
Proof.
  unfold dim_from. destruct (1 <? ncomp a1 (seq 0 n)) eqn:E.
  - apply Nat.ltb_lt in E. tauto.
  - apply Nat.ltb_ge in E. split; [|lia]. destruct (0 <? npbc p); discriminate.
Qed.

(* None is returned exactly when two atoms of the cell are not joined by a chain of bonds *)
Theorem none_iff_disconnected :
  dim_from n p a1 a2 = None <-> exists i j, i < n /\ j < n /\ ~ reach a1 (seq 0 n) i j.
Proof.
  rewrite dim_from_None. split.
  - intros H. destruct (components_spec a1 V V_nodup) as [rs [Hc [Hrs [Hind _]]]].
    unfold ncomp in H. fold V in H. rewrite Hc, map_length in H.
    destruct rs as [|r1 [|r2 rs']]; simpl in H; try lia.
    exists r1, r2. split; [apply V_in, Hrs; left; reflexivity|]. split; [apply V_in, Hrs; right; left; reflexivity|].
    inversion Hind as [|? ? Hn _]; subst. apply Hn. left. reflexivity.
  - intros [i [j [Hi [Hj Hn]]]]. destruct (Nat.lt_ge_cases 1 (ncomp a1 (seq 0 n))) as [|Hle]; [assumption|].
    exfalso. apply Hn. apply ncomp_connected; assumption.
Qed.

Theorem none_iff_not_connected : dim_from n p a1 a2 = None <-> ~ connected1.
Proof.
  rewrite dim_from_None, <- ncomp_connected. lia.
Qed.

Theorem dim0_without_pbc : npbc p = 0 -> connected1 -> dim_from n p a1 a2 = Some 0%Z.
Proof.
  intros Hp Hc. apply ncomp_connected in Hc. unfold dim_from.
  destruct (1 <? ncomp a1 (seq 0 n)) eqn:E; [apply Nat.ltb_lt in E; lia|]. rewrite Hp. reflexivity.
Qed.
Theorem dim_without_pbc_cases : npbc p = 0 -> dim_from n p a1 a2 = None \/ dim_from n p a1 a2 = Some 0%Z.
Proof. intros Hp. unfold dim_from. destruct (1 <? ncomp a1 (seq 0 n)); [left; reflexivity|]. rewrite Hp. right. reflexivity. Qed.

Theorem dim_with_pbc : 0 < npbc p -> connected1 ->
  dim_from n p a1 a2 = Some (dim_formula (npbc p) (ncomp a2 (seq 0 (2 ^ npbc p * n)))).
Proof.
  intros Hp Hc. apply ncomp_connected in Hc. unfold dim_from.
  destruct (1 <? ncomp a1 (seq 0 n)) eqn:E; [apply Nat.ltb_lt in E; lia|].
  apply Nat.ltb_lt in Hp. rewrite Hp. reflexivity.
Qed.
End DimFrom.

(* dim_from only looks at the adjacencies on the vertex ranges *)
Lemma dim_from_ext n p a1 a2 b1 b2 :
  (forall u v, u < n -> v < n -> a1 u v = b1 u v) ->
  (forall u v, u < 2 ^ npbc p * n -> v < 2 ^ npbc p * n -> a2 u v = b2 u v) ->
  dim_from n p a1 a2 = dim_from n p b1 b2.
Proof.
  intros H1 H2. unfold dim_from.
  rewrite (ncomp_ext a1 b1 (seq 0 n)) by (intros u v Hu Hv; apply in_seq in Hu; apply in_seq in Hv; apply H1; simpl in *; lia).
  rewrite (ncomp_ext a2 b2 (seq 0 (2 ^ npbc p * n))) by (intros u v Hu Hv; apply in_seq in Hu; apply in_seq in Hv; apply H2; simpl in *; lia).
  reflexivity.
Qed.

Lemma dim_formula_pow2 k j : j <= k -> dim_formula k (2 ^ j) = Z.of_nat (k - j).
Proof.
  intros Hj. unfold dim_formula. rewrite Nat.log2_up_pow2 by lia. rewrite Nat.eqb_refl. lia.
Qed.

(* ========================================================================================== *)
(* Part 2: the discrete mirror *)
Lemma maskb_bound p m : maskb p m < 2 ^ npbc p.
Proof. destruct p as [[[] []] []], m as [[[] []] []]; vm_compute; lia. Qed.
Lemma mask_bound p o : mask p o < 2 ^ npbc p.
Proof. apply maskb_bound. Qed.
Lemma parity_oneg o : parity (oneg o) = parity o.
Proof. destruct o as [[x y] z]. unfold parity, oneg. rewrite !Z.odd_opp. reflexivity. Qed.
Lemma mask_oneg p o : mask p (oneg o) = mask p o.
Proof. unfold mask. rewrite parity_oneg. reflexivity. Qed.
Lemma oneg_involutive o : oneg (oneg o) = o.
Proof. destruct o as [[x y] z]. unfold oneg. rewrite !Z.opp_involutive. reflexivity. Qed.
Lemma flip_involutive e : flip (flip e) = e.
Proof. destruct e as [[i j] o]. simpl. rewrite oneg_involutive. reflexivity. Qed.
Lemma sym_flip E e : In e (sym E) -> In (flip e) (sym E).
Proof.
  unfold sym. intros H. apply in_app_or in H. apply in_or_app. destruct H as [H|H].
  - right. apply in_map. assumption.
  - left. apply in_map_iff in H. destruct H as [e' [<- He']]. rewrite flip_involutive. assumption.
Qed.

Section GraphMirror.
Variables (n : nat) (p : pbc3) (E : list ipair).
Hypothesis wf : wf_E n p E = true.
Let tab := nbr_tab n p E.
Let k := npbc p.

Lemma wf_sym i j o : In (i, j, o) (sym E) -> i < n /\ j < n.
Proof.
  unfold wf_E in wf. rewrite forallb_forall in wf. unfold sym. intros H. apply in_app_or in H. destruct H as [H|H].
  - specialize (wf _ H). simpl in wf. rewrite !andb_true_iff, !Nat.ltb_lt in wf. tauto.
  - apply in_map_iff in H. destruct H as [[[i' j'] o'] [Heq He]]. simpl in Heq. injection Heq as <- <- <-.
    specialize (wf _ He). simpl in wf. rewrite !andb_true_iff, !Nat.ltb_lt in wf. tauto.
Qed.

Lemma nth_tab i : i < n -> nth i tab [] = collect p (sym E) i.
Proof.
  intros Hi. unfold tab, nbr_tab.
  rewrite (nth_indep _ [] (collect p (sym E) 0)) by (rewrite map_length, seq_length; assumption).
  rewrite map_nth, seq_nth by assumption. reflexivity.
Qed.

Lemma in_collect i j c : In (j, c) (collect p (sym E) i) <-> exists o, In (i, j, o) (sym E) /\ mask p o = c.
Proof.
  unfold collect. rewrite in_map_iff. split.
  - intros [[[i' j'] o] [Heq Hin]]. simpl in Heq. injection Heq as <- <-.
    apply filter_In in Hin. destruct Hin as [Hin Hi]. simpl in Hi. apply Nat.eqb_eq in Hi. subst i'.
    exists o. split; [assumption | reflexivity].
  - intros [o [Hin <-]]. exists (i, j, o). split; [reflexivity|]. apply filter_In. split; [assumption|]. simpl. apply Nat.eqb_refl.
Qed.

Lemma lab_of_spec i j c : i < n -> (lab_of tab i j c = true <-> exists o, In (i, j, o) (sym E) /\ mask p o = c).
Proof.
  intros Hi. unfold lab_of. rewrite nth_tab by assumption. rewrite existsb_exists. split.
  - intros [[j' c'] [Hin Heq]]. simpl in Heq. rewrite andb_true_iff, !Nat.eqb_eq in Heq. destruct Heq as [-> ->].
    apply in_collect. assumption.
  - intros H. apply in_collect in H. exists (j, c). split; [assumption|]. simpl. rewrite !Nat.eqb_refl. reflexivity.
Qed.

Lemma lab_of_sym i j c : i < n -> j < n -> lab_of tab i j c = lab_of tab j i c.
Proof.
  intros Hi Hj. apply eq_true_iff_eq. rewrite !lab_of_spec by assumption.
  split; intros [o [Hin Hm]]; exists (oneg o); (split; [apply (sym_flip E _ Hin) | rewrite mask_oneg; assumption]).
Qed.

Lemma lab_of_bound i j c : lab_of tab i j c = true -> c < 2 ^ k.
Proof.
  intros H. destruct (Nat.lt_ge_cases i n) as [Hi|Hi].
  - apply lab_of_spec in H; [|assumption]. destruct H as [o [_ <-]]. apply mask_bound.
  - unfold lab_of in H. rewrite nth_overflow in H; [discriminate|]. unfold tab, nbr_tab. rewrite map_length, seq_length. assumption.
Qed.

Lemma adj1_of_spec i j : i < n -> (adj1_of tab i j = true <-> i = j \/ exists o, In (i, j, o) (sym E)).
Proof.
  intros Hi. unfold adj1_of. rewrite orb_true_iff, Nat.eqb_eq, nth_tab by assumption. rewrite existsb_exists.
  split; (intros [H|H]; [left; assumption | right]).
  - destruct H as [[j' c] [Hin Heq]]. simpl in Heq. apply Nat.eqb_eq in Heq. subst j'.
    apply in_collect in Hin. destruct Hin as [o [Hin _]]. exists o. assumption.
  - destruct H as [o Hin]. exists (j, mask p o). split; [apply in_collect; exists o; split; [assumption | reflexivity] | simpl; apply Nat.eqb_refl].
Qed.

Lemma adj1_of_sym i j : i < n -> j < n -> adj1_of tab i j = adj1_of tab j i.
Proof.
  intros Hi Hj. apply eq_true_iff_eq. rewrite !adj1_of_spec by assumption.
  split; (intros [H|[o H]]; [left; symmetry; assumption | right; exists (oneg o); apply (sym_flip E _ H)]).
Qed.

Lemma adj1_of_lab i j : i < n -> j < n -> adj1_of tab i j = true -> i = j \/ exists c, lab_of tab i j c = true.
Proof.
  intros Hi Hj H. apply adj1_of_spec in H; [|assumption]. destruct H as [H|[o H]]; [left; assumption|].
  right. exists (mask p o). apply lab_of_spec; [assumption|]. exists o. split; [assumption | reflexivity].
Qed.

Definition connectedE : Prop := connected1 n (adj1_of tab).
(* parities a such that copy a of atom 0 is bonded (through the 2x graph) to copy 0 of atom 0 *)
Definition Kset : list nat := K n k (lab_of tab).

Theorem none_iff_disconnected_graph :
  get_dim_graph n p E = None <-> exists i j, i < n /\ j < n /\ ~ reach (adj1_of tab) (seq 0 n) i j.
Proof. unfold get_dim_graph. fold tab. apply none_iff_disconnected. apply adj1_of_sym. Qed.

Theorem dim0_without_pbc_graph : npbc p = 0 -> connectedE -> get_dim_graph n p E = Some 0%Z.
Proof. unfold get_dim_graph. fold tab. apply dim0_without_pbc. apply adj1_of_sym. Qed.

(* the covering theorem instantiated: N_2x * |K| = 2^k *)
Theorem count_2x : 0 < n -> connectedE ->
  ncomp (adj2_of n (lab_of tab)) (seq 0 (2 ^ k * n)) * length Kset = 2 ^ k.
Proof.
  intros Hn Hc.
  apply (cover_count n k Hn (lab_of tab) (adj1_of tab) lab_of_sym lab_of_bound adj1_of_lab).
  intros i Hi. apply Hc; assumption.
Qed.

(* ... hence the 2x formula returns log2 |K| *)
Theorem formula_is_log2K : 0 < n -> 0 < k -> connectedE ->
  exists d, d <= k /\ length Kset = 2 ^ d /\ get_dim_graph n p E = Some (Z.of_nat d).
Proof.
  intros Hn Hk Hc.
  destruct (mul_pow2 k _ _ (count_2x Hn Hc)) as [j [Hj [HN HK]]].
  exists (k - j). split; [lia|]. split; [assumption|].
  unfold get_dim_graph. fold tab. rewrite (dim_with_pbc n p _ _ adj1_of_sym Hk Hc). fold k.
  rewrite HN. rewrite dim_formula_pow2 by assumption. reflexivity.
Qed.
End GraphMirror.

(* ========================================================================================== *)
(* Part 3: metric layer.  The C++ minimum-image table is abstract; its C10 specification is the
   hypothesis [tab_spec]: entry (i,j) is the true minimum over admissible lattice offsets of the
   squared image distance if that is <= cutoff^2, and infinite (None) otherwise. *)
Local Open Scope Z_scope.

Definition tab_spec (p : pbc3) (img : nat -> nat -> off -> Z) (N : nat) (cut : Z) (tab : nat -> nat -> option Z) : Prop :=
  forall i j, (i < N)%nat -> (j < N)%nat -> i <> j ->
    match tab i j with
    | Some d => (exists o, okoff p o = true /\ img i j o = d)
                /\ (forall o, okoff p o = true -> d <= img i j o) /\ d <= cut * cut
    | None => forall o, okoff p o = true -> cut * cut < img i j o
    end.

Lemma bond_iff p img N cut tab thr (r : nat -> Z) u v :
  tab_spec p img N cut tab -> (u < N)%nat -> (v < N)%nat -> u <> v ->
  0 <= thr + r u + r v <= cut ->
  (bondt thr tab r u v = true <-> exists o, okoff p o = true /\ img u v o <= (thr + r u + r v) * (thr + r u + r v)).
Proof.
  intros Hs Hu Hv Hne Ht. unfold bondt.
  replace (u =? v)%nat with false by (symmetry; apply Nat.eqb_neq; assumption). simpl.
  specialize (Hs u v Hu Hv Hne). set (t := thr + r u + r v) in *.
  destruct (tab u v) as [d|].
  - destruct Hs as [[o0 [Hok0 Hd0]] [Hmin Hcut]]. rewrite andb_true_iff, !Z.leb_le. split.
    + intros [_ Hd]. exists o0. split; [assumption | lia].
    + intros [o [Hok Hle]]. split; [lia|]. specialize (Hmin o Hok). lia.
  - split; [discriminate|]. intros [o [Hok Hle]]. specialize (Hs o Hok). exfalso. nia.
Qed.

Lemma le_fold_max (l : list Z) d x : In x l -> x <= fold_right Z.max d l.
Proof. induction l as [|y l IH]; simpl; intros H; [destruct H|]. destruct H as [->|H]; [lia|]. specialize (IH H). lia. Qed.
Lemma rad_le_max n rad i : (i < n)%nat -> rad i <= max_radius n rad.
Proof. intros Hi. unfold max_radius. apply le_fold_max. apply in_map. apply in_seq. simpl. lia. Qed.

(* parity bookkeeping between copy indices and offsets (finite facts, by enumeration) *)
Definition dbl (pb : bool) (x : Z) : Z := if pb then 2 * x else x.
Definition comb (p : pbc3) (mu mv o : off) : off :=
  let '(p0, p1, p2) := p in let '(ux, uy, uz) := mu in let '(vx, vy, vz) := mv in let '(x, y, z) := o in
  (vx - ux + dbl p0 x, vy - uy + dbl p1 y, vz - uz + dbl p2 z).
Definition zb3 (m : bvec) : off := let '(m0, m1, m2) := m in (zb m0, zb m1, zb m2).
Definition pmask (p : pbc3) (m : bvec) : bvec :=
  let '(p0, p1, p2) := p in let '(m0, m1, m2) := m in (p0 && m0, p1 && m1, p2 && m2).

Lemma unmask_zb3 p c : unmask p c = zb3 (unmaskb p c).
Proof. unfold unmask. destruct (unmaskb p c) as [[b0 b1] b2]. reflexivity. Qed.
Lemma unmaskb_pmask p c : pmask p (unmaskb p c) = unmaskb p c.
Proof. destruct p as [[[] []] []]; unfold unmaskb, pmask; simpl; rewrite ?andb_false_r; reflexivity. Qed.

Definition all_b3 : list bvec :=
  [(false,false,false);(false,false,true);(false,true,false);(false,true,true);
   (true,false,false);(true,false,true);(true,true,false);(true,true,true)].
Lemma all_b3_complete m : In m all_b3.
Proof. destruct m as [[[] []] []]; simpl; tauto. Qed.

Lemma maskb_xor_fin :
  forallb (fun p => forallb (fun cu => forallb (fun cv =>
     (maskb p (bxor (unmaskb p cu) (unmaskb p cv)) =? Nat.lxor cu cv)%nat)
     (seq 0 (2 ^ npbc p))) (seq 0 (2 ^ npbc p))) all_b3 = true.
Proof. vm_compute. reflexivity. Qed.
Lemma maskb_xor p cu cv : (cu < 2 ^ npbc p)%nat -> (cv < 2 ^ npbc p)%nat ->
  maskb p (bxor (unmaskb p cu) (unmaskb p cv)) = Nat.lxor cu cv.
Proof.
  intros Hu Hv. pose proof maskb_xor_fin as H. rewrite forallb_forall in H.
  specialize (H p (all_b3_complete p)). rewrite forallb_forall in H.
  assert (Hcu : In cu (seq 0 (2 ^ npbc p))) by (apply in_seq; simpl; lia).
  specialize (H cu Hcu). rewrite forallb_forall in H.
  apply Nat.eqb_eq. apply H. apply in_seq. simpl. lia.
Qed.
Lemma maskb_pmask p m : maskb p (pmask p m) = maskb p m.
Proof. destruct p as [[[] []] []], m as [[[] []] []]; reflexivity. Qed.
Lemma maskb_inj p m m' : maskb p m = maskb p m' -> pmask p m = pmask p m'.
Proof. destruct p as [[[] []] []], m as [[[] []] []], m' as [[[] []] []]; vm_compute; intros H; try reflexivity; discriminate. Qed.

Lemma odd_comb1 bu bv x : Z.odd (zb bv - zb bu + 2 * x) = xorb bu bv.
Proof. rewrite Z.odd_add_mul_2. destruct bu, bv; reflexivity. Qed.

(* (A) the offset seen by the 2x table between copies cu, cv has parity mask cu xor cv *)
Lemma comb_parity p mu mv o : pmask p (parity (comb p (zb3 mu) (zb3 mv) o)) = pmask p (bxor mu mv).
Proof.
  destruct mu as [[u0 u1] u2], mv as [[v0 v1] v2], o as [[x y] z].
  destruct p as [[[] []] []]; unfold comb, zb3, parity, pmask, bxor, dbl; rewrite ?odd_comb1; reflexivity.
Qed.
Lemma comb_okoff p mu mv o : okoff p o = true -> okoff p (comb p (zb3 (pmask p mu)) (zb3 (pmask p mv)) o) = true.
Proof.
  destruct mu as [[u0 u1] u2], mv as [[v0 v1] v2], o as [[x y] z].
  destruct p as [[[] []] []]; unfold comb, zb3, pmask, okoff, dbl; simpl; rewrite ?andb_true_iff, ?Z.eqb_eq; intros H; repeat split; lia.
Qed.
(* (B) conversely every admissible offset of that parity arises *)
Lemma even_half x : Z.odd x = false -> exists h, x = 2 * h.
Proof. intros H. rewrite <- Z.negb_even in H. apply negb_false_iff in H. apply Z.even_spec in H. destruct H as [h ->]. exists h. reflexivity. Qed.
Lemma comb1_solve (pb : bool) bu bv x : (if pb then Z.odd x = xorb bu bv else x = 0 /\ bu = false /\ bv = false) ->
  exists h, (pb = false -> h = 0) /\ zb bv - zb bu + dbl pb h = x.
Proof.
  destruct pb; unfold dbl.
  - intros H. destruct (even_half (x - zb bv + zb bu)) as [h Hh].
    + rewrite Z.odd_add, Z.odd_sub, H. destruct bu, bv; reflexivity.
    + exists h. split; [discriminate | lia].
  - intros [-> [-> ->]]. exists 0. split; reflexivity.
Qed.
Lemma comb_surj p mu mv o : okoff p o = true -> pmask p (parity o) = pmask p (bxor mu mv) ->
  exists o', okoff p o' = true /\ comb p (zb3 (pmask p mu)) (zb3 (pmask p mv)) o' = o.
Proof.
  destruct mu as [[u0 u1] u2], mv as [[v0 v1] v2], o as [[x y] z]. destruct p as [[p0 p1] p2].
  unfold okoff, parity, pmask, bxor. rewrite !andb_true_iff, !orb_true_iff, !Z.eqb_eq. intros [[H0 H1] H2] Hpar.
  injection Hpar as E0 E1 E2.
  destruct (comb1_solve p0 (p0 && u0) (p0 && v0) x) as [h0 [Hz0 Hh0]].
  { destruct p0; simpl in *; [assumption|]. destruct H0 as [H0|H0]; [discriminate | tauto]. }
  destruct (comb1_solve p1 (p1 && u1) (p1 && v1) y) as [h1 [Hz1 Hh1]].
  { destruct p1; simpl in *; [assumption|]. destruct H1 as [H1|H1]; [discriminate | tauto]. }
  destruct (comb1_solve p2 (p2 && u2) (p2 && v2) z) as [h2 [Hz2 Hh2]].
  { destruct p2; simpl in *; [assumption|]. destruct H2 as [H2|H2]; [discriminate | tauto]. }
  exists (h0, h1, h2). split.
  - rewrite !andb_true_iff, !orb_true_iff, !Z.eqb_eq.
    repeat split; [destruct p0 | destruct p1 | destruct p2]; auto.
  - unfold comb, zb3. rewrite Hh0, Hh1, Hh2. reflexivity.
Qed.

Section MetricLayer.
Variables a b c : v3.
Variable pos : nat -> v3.
Variable n : nat.
Variable p : pbc3.
Variable rad : nat -> Z.
Variable thr : Z.
Hypothesis n_pos : (0 < n)%nat.
Hypothesis thr_nonneg : 0 <= thr.
Hypothesis rad_nonneg : forall i, (i < n)%nat -> 0 <= rad i.
Let k := npbc p.
Let cut := cutoff n rad thr.

(* atom i is bonded to the image of atom j displaced by the lattice vector o *)
Definition bonded (i j : nat) (o : off) : Prop :=
  img_d2 a b c pos i j o <= (thr + rad i + rad j) * (thr + rad i + rad j).

Lemma t_range i j : (i < n)%nat -> (j < n)%nat -> 0 <= thr + rad i + rad j <= cut.
Proof.
  intros Hi Hj. pose proof (rad_nonneg i Hi). pose proof (rad_nonneg j Hj).
  pose proof (rad_le_max n rad i Hi). pose proof (rad_le_max n rad j Hj). unfold cut, cutoff. lia.
Qed.

(* the 1x minimum-image graph is the quotient of the infinite bonded graph by the lattice *)
Theorem graph_1x_is_quotient tab1 : tab_spec p (img_d2 a b c pos) n cut tab1 ->
  forall i j, (i < n)%nat -> (j < n)%nat ->
    (bondt thr tab1 rad i j = true <-> i = j \/ exists o, okoff p o = true /\ bonded i j o).
Proof.
  intros Hs i j Hi Hj. destruct (Nat.eq_dec i j) as [->|Hne].
  - unfold bondt. rewrite Nat.eqb_refl. simpl. tauto.
  - rewrite (bond_iff p _ n cut tab1 thr rad i j Hs Hi Hj Hne (t_range i j Hi Hj)). unfold bonded. split.
    + intros H. right. exact H.
    + intros [H|H]; [contradiction | exact H].
Qed.

(* geometry of system.repeat(repeats): image distances of the repeated system are image distances
   of the original one at the combined offset *)
Let cell2 := rep_cell a b c p.
Let pos2 := rep_pos a b c pos n p.
Definition img2 (u v : nat) (o : off) : Z := img_d2 (fst (fst cell2)) (snd (fst cell2)) (snd cell2) pos2 u v o.

Lemma img2_eq u v o :
  img2 u v o = img_d2 a b c pos (u mod n) (v mod n) (comb p (unmask p (u / n)) (unmask p (v / n)) o).
Proof.
  unfold img2, img_d2, pos2, rep_pos, cell2, rep_cell.
  destruct (unmask p (u / n)) as [[ux uy] uz]. destruct (unmask p (v / n)) as [[vx vy] vz].
  destruct o as [[x y] z]. destruct p as [[p0 p1] p2]. unfold comb.
  set (pi := pos (u mod n)). set (pj := pos (v mod n)).
  match goal with |- dot ?d1 ?d1 = dot ?d2 ?d2 => assert (Hd : d1 = d2); [|rewrite Hd; reflexivity] end.
  destruct a as [ax ay az], b as [bx by_ bz], c as [cx cy cz], pi as [ix iy iz], pj as [jx jy jz].
  destruct p0, p1, p2; unfold dbl, sub, add, lat, scale; simpl; f_equal; ring.
Qed.

(* the 2x minimum-image graph is the quotient of the infinite bonded graph by (2Z)^k: copies cu, cv of
   atoms i, j are bonded iff some bonded image pair (i, j, o) has parity mask cu xor cv *)
Theorem graph_2x_is_quotient tab2 : tab_spec p img2 (2 ^ k * n) cut tab2 ->
  forall u v, (u < 2 ^ k * n)%nat -> (v < 2 ^ k * n)%nat ->
    (bondt thr tab2 (rad2 n rad) u v = true <->
     u = v \/ exists o, okoff p o = true /\ bonded (u mod n) (v mod n) o /\ mask p o = Nat.lxor (u / n) (v / n)).
Proof.
  intros Hs u v Hu Hv. destruct (Nat.eq_dec u v) as [->|Hne].
  - unfold bondt. rewrite Nat.eqb_refl. simpl. tauto.
  - assert (Hun : (u mod n < n)%nat) by (apply Nat.mod_upper_bound; lia).
    assert (Hvn : (v mod n < n)%nat) by (apply Nat.mod_upper_bound; lia).
    assert (Hud : (u / n < 2 ^ k)%nat) by (apply Nat.div_lt_upper_bound; lia).
    assert (Hvd : (v / n < 2 ^ k)%nat) by (apply Nat.div_lt_upper_bound; lia).
    rewrite (bond_iff p _ _ cut tab2 thr (rad2 n rad) u v Hs Hu Hv Hne) by (unfold rad2; apply t_range; assumption).
    unfold rad2, bonded. set (t := thr + rad (u mod n) + rad (v mod n)).
    set (mu := unmaskb p (u / n)). set (mv := unmaskb p (v / n)).
    assert (Emu : unmask p (u / n) = zb3 (pmask p mu)) by (unfold mu; rewrite unmaskb_pmask; apply unmask_zb3).
    assert (Emv : unmask p (v / n) = zb3 (pmask p mv)) by (unfold mv; rewrite unmaskb_pmask; apply unmask_zb3).
    split.
    + intros [o [Hok Hle]]. right. rewrite img2_eq in Hle. exists (comb p (unmask p (u / n)) (unmask p (v / n)) o).
      split; [rewrite Emu, Emv; apply comb_okoff; assumption|]. split; [exact Hle|].
      unfold mask. rewrite <- maskb_pmask. rewrite Emu, Emv, comb_parity, maskb_pmask.
      unfold mu, mv. rewrite !unmaskb_pmask. apply maskb_xor; assumption.
    + intros [H|[o [Hok [Hle Hm]]]]; [contradiction|].
      destruct (comb_surj p mu mv o Hok) as [o' [Hok' Hcomb]].
      { apply maskb_inj. fold (mask p o). rewrite Hm. symmetry. apply maskb_xor; assumption. }
      exists o'. split; [assumption|]. rewrite img2_eq, Emu, Emv, Hcomb. exact Hle.
Qed.

(* consequently the metric mirror equals the discrete mirror on the exact list of bonded image pairs *)
Variable E : list ipair.
Hypothesis wf : wf_E n p E = true.
Hypothesis E_exact : forall i j o, (i < n)%nat -> (j < n)%nat -> okoff p o = true -> (i, o) <> (j, ozero) ->
  (In (i, j, o) (sym E) <-> bonded i j o).

Theorem metric_eq_graph tab1 tab2 :
  tab_spec p (img_d2 a b c pos) n cut tab1 -> tab_spec p img2 (2 ^ k * n) cut tab2 ->
  get_dim_metric n p rad thr tab1 tab2 = get_dim_graph n p E.
Proof.
  intros H1 H2. unfold get_dim_metric, get_dim_graph. apply dim_from_ext.
  - intros i j Hi Hj. apply eq_true_iff_eq.
    rewrite (graph_1x_is_quotient tab1 H1 i j Hi Hj), (adj1_of_spec n p E wf i j Hi).
    destruct (Nat.eq_dec i j) as [->|Hne]; [tauto|].
    split; (intros [H|[o H]]; [left; assumption | right; exists o]).
    + destruct H as [Hok Hb]. apply E_exact; try assumption. intros Heq. injection Heq as Heq _. contradiction.
    + pose proof (wf_sym n p E wf _ _ _ H) as [_ _].
      assert (Hok : okoff p o = true).
      { clear - wf H. unfold wf_E in wf. rewrite forallb_forall in wf. unfold sym in H. apply in_app_or in H. destruct H as [H|H].
        - specialize (wf _ H). simpl in wf. rewrite !andb_true_iff in wf. tauto.
        - apply in_map_iff in H. destruct H as [[[i' j'] o'] [Heq He]]. simpl in Heq. injection Heq as <- <- <-.
          specialize (wf _ He). simpl in wf. rewrite !andb_true_iff in wf. destruct wf as [_ Hok].
          destruct p as [[p0 p1] p2], o' as [[x y] z]. unfold okoff, oneg in *. rewrite !andb_true_iff, !orb_true_iff, !Z.eqb_eq in *. lia. }
      split; [assumption|]. apply E_exact; try assumption. intros Heq. injection Heq as Heq _. contradiction.
  - intros u v Hu Hv. fold k in Hu, Hv. apply eq_true_iff_eq.
    assert (Hun : (u mod n < n)%nat) by (apply Nat.mod_upper_bound; lia).
    assert (Hvn : (v mod n < n)%nat) by (apply Nat.mod_upper_bound; lia).
    rewrite (graph_2x_is_quotient tab2 H2 u v Hu Hv). unfold adj2_of, adj2.
    rewrite orb_true_iff, Nat.eqb_eq, (lab_of_spec n p E wf _ _ _ Hun).
    split; (intros [H|[o H]]; [left; assumption|]).
    + destruct H as [Hok [Hb Hm]].
      destruct (Nat.eq_dec u v) as [->|Hne]; [left; reflexivity|]. right. exists o. split; [|assumption].
      apply E_exact; try assumption. intros Heq. injection Heq as Hi Ho. subst o.
      (* same atom, zero offset, equal parity: then u = v *)
      apply Hne. assert (Hz : mask p ozero = 0%nat) by (destruct p as [[[] []] []]; reflexivity). rewrite Hz in Hm.
      symmetry in Hm. apply Nat.lxor_eq in Hm.
      rewrite (Nat.div_mod u n), (Nat.div_mod v n) by lia. rewrite Hm, Hi. reflexivity.
    + destruct H as [Hin Hm]. right. exists o.
      assert (Hok : okoff p o = true).
      { clear - wf Hin. unfold wf_E in wf. rewrite forallb_forall in wf. unfold sym in Hin. apply in_app_or in Hin. destruct Hin as [H|H].
        - specialize (wf _ H). simpl in wf. rewrite !andb_true_iff in wf. tauto.
        - apply in_map_iff in H. destruct H as [[[i' j'] o'] [Heq He]]. simpl in Heq. injection Heq as <- <- <-.
          specialize (wf _ He). simpl in wf. rewrite !andb_true_iff in wf. destruct wf as [_ Hok].
          destruct p as [[p0 p1] p2], o' as [[x y] z]. unfold okoff, oneg in *. rewrite !andb_true_iff, !orb_true_iff, !Z.eqb_eq in *. lia. }
      split; [assumption|]. split; [|assumption].
      destruct (Nat.eq_dec u v) as [->|Hne]; [|].
      * (* u = v handled by the left disjunct of the statement; still need bonded: use E_exact when (i,o) <> (i,0) *)
        destruct (oeqb o ozero) eqn:Eo.
        -- (* zero self-offset: distance 0 *)
           destruct o as [[x y] z]. unfold oeqb, ozero in Eo. rewrite !andb_true_iff, !Z.eqb_eq in Eo. destruct Eo as [[-> ->] ->].
           unfold bonded, img_d2.
           pose proof (t_range _ _ Hvn Hvn) as Ht.
           replace (dot _ _) with 0; [nia|].
           destruct (pos (v mod n)) as [ix iy iz], a as [ax ay az], b as [bx by_ bz], c as [cx cy cz].
           unfold dot, sub, lat, add, scale; simpl; ring.
        -- apply E_exact; try assumption. intros Heq. injection Heq as Ho. subst o.
           unfold oeqb, ozero in Eo. simpl in Eo. discriminate.
      * apply E_exact; try assumption. intros Heq. injection Heq as Hi Ho. subst o.
        apply Hne. assert (Hz : mask p ozero = 0%nat) by (destruct p as [[[] []] []]; reflexivity). rewrite Hz in Hm.
        symmetry in Hm. apply Nat.lxor_eq in Hm.
        rewrite (Nat.div_mod u n), (Nat.div_mod v n) by lia. rewrite Hm, Hi. reflexivity.
Qed.
End MetricLayer.
