(* C09 o C10 -- the minimum-image tables get_dimensionality reads ARE tables that satisfy the hypothesis of C09's theorems.

   C09's metric-level theorems (graph_1x_is_quotient, graph_2x_is_quotient, metric_eq_graph) assume [tab_spec]: entry (i, j) is
   the true minimum over admissible lattice offsets of the squared image distance when that is within the cutoff, and infinite
   otherwise.  C10's theorem [disp_tensor_spec] says what the model of get_displacement_tensor (extension + cell list + per-pair
   minimum) returns.  This file composes them:

     tensor_tab_spec     for every cell of non-zero volume, atoms inside the cell along the periodic axes, every padding > 0 and
                         every finite cutoff, the table of squared distances read off [disp_tensor] satisfies [tab_spec];
     rep_vol / rep_in_cell   the system repeated twice along its periodic axes (ase.Atoms.repeat as modelled by rep_cell /
                         rep_pos) again has non-zero volume and its atoms inside its cell, so the same holds for the 2x table;
     get_dim_of_tensor_tables   hence get_dimensionality's arithmetic on the two C10 tables returns the answer of the discrete
                         mirror on the TRUE bonded network (every image pair within thr + r_i + r_j), for every structure. *)
From Coq Require Import List Arith Bool ZArith QArith Lia PeanoNat.
From MV Require Import Base.ZV3 Base.Graph Base.Cover Geometry.Extend Geometry.CellList Geometry.CellListProofs
  Geometry.DispTensor Geometry.DispTensorProofs Geometry.Dimensionality Geometry.DimensionalityProofs.
Import ListNotations.
Local Open Scope Z_scope.

Definition p_of (pbc : Extend.pbc3) : Dimensionality.pbc3 := (px pbc, py pbc, pz pbc).
Definition v_of (o : off) : v3 := let '(x, y, z) := o in mk3 x y z.
Definition o_of (f : v3) : off := (vx f, vy f, vz f).

Lemma okoff_admissible pbc o : okoff (p_of pbc) o = true <-> admissible pbc (v_of o).
Proof.
  destruct pbc as [p0 p1 p2], o as [[x y] z]. unfold okoff, p_of, admissible, v_of. cbn [px py pz vx vy vz].
  rewrite !andb_true_iff, !orb_true_iff, !Z.eqb_eq.
  destruct p0, p1, p2; intuition congruence.
Qed.

Lemma v_of_o_of f : v_of (o_of f) = f.
Proof. destruct f. reflexivity. Qed.

Section OneSystem.
Variables (pad : Q) (a b c : v3) (pbc : Extend.pbc3) (pos : list v3) (cutv : Z).
Hypothesis Hpad : (0 < pad)%Q.
Hypothesis Hcut : 0 < cutv.
Hypothesis Hvol : vol a b c <> 0.
Hypothesis Hin : forall r, In r pos -> in_cell a b c pbc r.
Let n := length pos.
Let T := disp_tensor pad a b c pbc (Fin cutv) pos.
Let posf (i : nat) : v3 := nth i pos zero3.

(* the table of squared minimum-image distances, as get_dimensionality sees it (None = infinite entry) *)
Definition tensor_tab (i j : nat) : option Z := option_map t_d2 (T i j).

Lemma img_d2_norm2 i j o :
  img_d2 a b c posf i j o = norm2 (sub (sub (nth i pos zero3) (nth j pos zero3)) (latv a b c (v_of o))).
Proof. destruct o as [[x y] z]. reflexivity. Qed.

Theorem tensor_tab_spec : tab_spec (p_of pbc) (img_d2 a b c posf) n cutv tensor_tab.
Proof.
  intros i j Hi Hj Hne.
  pose proof (disp_tensor_spec pad a b c pbc (Fin cutv) pos Hpad Hvol Hcut Hin i j Hi Hj) as (K1 & _ & _ & _ & K4 & K5 & _).
  fold T in K1, K4, K5. specialize (K4 Hne). destruct (K5 cutv eq_refl) as [K5a K5b].
  unfold tensor_tab. destruct (T i j) as [e|] eqn:E; cbn [option_map].
  - destruct (K1 e eq_refl) as (D & A & M). unfold image_vec in D.
    assert (Hd : t_d2 e = img_d2 a b c posf i j (o_of (t_fac e))).
    { rewrite img_d2_norm2, v_of_o_of, M, D. reflexivity. }
    split; [|split].
    + exists (o_of (t_fac e)). split; [apply okoff_admissible; rewrite v_of_o_of; exact A | symmetry; exact Hd].
    + intros o Ho. apply okoff_admissible in Ho.
      assert (Hw : norm2 (sub (sub (nth i pos zero3) (nth j pos zero3)) (latv a b c (t_fac e))) <= cutoff_ext2 a b c pbc (Fin cutv)).
      { rewrite <- D, <- M. cbn [cutoff_ext2]. apply K5a. reflexivity. }
      destruct (K4 (t_fac e) A Hw) as (e' & E' & Hmin). injection E' as <-.
      rewrite img_d2_norm2. apply Hmin. exact Ho.
    + apply K5a. reflexivity.
  - intros o Ho. apply okoff_admissible in Ho.
    destruct (Z_lt_le_dec (cutv * cutv) (img_d2 a b c posf i j o)) as [Hlt|Hle]; [exact Hlt|]. exfalso.
    rewrite img_d2_norm2 in Hle.
    destruct (K4 (v_of o) Ho Hle) as (e' & E' & _). discriminate.
Qed.
End OneSystem.

(* ------------------------------------------------------------------------------------------------------------ *)
(* the system repeated twice along its periodic axes *)
Lemma sgn_scale f V : 0 < f -> Z.sgn (f * V) = Z.sgn V.
Proof. intro Hf. rewrite Z.sgn_mul. rewrite (Z.sgn_pos f Hf). lia. Qed.
Lemma abs_scale f V : 0 < f -> Z.abs (f * V) = f * Z.abs V.
Proof. intro Hf. rewrite Z.abs_mul. rewrite (Z.abs_eq f) by lia. reflexivity. Qed.

Section Repeated.
Variables (a b c : v3) (pbc : Extend.pbc3) (pos : list v3).
Hypothesis Hvol : vol a b c <> 0.
Hypothesis Hin : forall r, In r pos -> in_cell a b c pbc r.
Let n := length pos.
Let p := p_of pbc.
Let posf (i : nat) : v3 := nth i pos zero3.
Let k := npbc p.

Definition a2 : v3 := fst (fst (rep_cell a b c p)).
Definition b2 : v3 := snd (fst (rep_cell a b c p)).
Definition c2 : v3 := snd (rep_cell a b c p).
Definition pos2 : list v3 := map (rep_pos a b c posf n p) (seq 0 (2 ^ k * n)).

Lemma pos2_length : length pos2 = (2 ^ k * n)%nat.
Proof. unfold pos2. rewrite map_length, seq_length. reflexivity. Qed.

Lemma pos2_nth u : (u < 2 ^ k * n)%nat -> nth u pos2 zero3 = rep_pos a b c posf n p u.
Proof.
  intro Hu. unfold pos2.
  rewrite (nth_indep _ zero3 (rep_pos a b c posf n p 0)) by (rewrite map_length, seq_length; exact Hu).
  rewrite (map_nth (rep_pos a b c posf n p)). rewrite seq_nth by exact Hu. reflexivity.
Qed.

Lemma rep_vol : vol a2 b2 c2 <> 0.
Proof.
  unfold a2, b2, c2, rep_cell, p, p_of. destruct pbc as [p0 p1 p2]. cbn [px py pz fst snd].
  destruct a as [ax ay az], b as [bx by_ bz], c as [cx cy cz].
  unfold vol, dot, cross, scale in *. cbn [vx vy vz] in *.
  destruct p0, p1, p2; cbn [vx vy vz]; intro H; apply Hvol; nia.
Qed.

(* a periodic image (x, y, z) in {0,1}^3 (0 off the periodic axes) of an atom inside the cell is inside the doubled cell *)
Lemma zb_cases (bb : bool) : zb bb = 0 \/ zb bb = 1.
Proof. destruct bb; [right | left]; reflexivity. Qed.

Lemma rep_in_cell r : In r pos2 -> in_cell a2 b2 c2 pbc r.
Proof.
  intro Hr. unfold pos2 in Hr. apply in_map_iff in Hr. destruct Hr as (u & <- & Hu). apply in_seq in Hu.
  assert (n_pos : (0 < n)%nat).
  { destruct n as [|m] eqn:En; [|lia]. rewrite Nat.mul_0_r in Hu. lia. }
  assert (Hm : (u mod n < n)%nat) by (apply Nat.mod_upper_bound; lia).
  assert (Hq : In (posf (u mod n)) pos) by (apply nth_In; exact Hm).
  specialize (Hin _ Hq).
  unfold rep_pos. rewrite unmask_zb3. pose proof (unmaskb_pmask p (u / n)) as Hpm.
  destruct (unmaskb p (u / n)) as [[m0 m1] m2]. cbn [zb3].
  set (q := posf (u mod n)) in *. clearbody q.
  unfold a2, b2, c2, rep_cell, p, p_of in *. destruct pbc as [p0 p1 p2]. cbn [px py pz fst snd] in *.
  unfold pmask in Hpm. injection Hpm as H0 H1 H2.
  unfold in_cell, frac_in in *. cbn [px py pz] in *.
  destruct Hin as (I1 & I2 & I3).
  destruct a as [ax ay az], b as [bx by_ bz], c as [cx cy cz], q as [qx qy qz].
  unfold vol, D1, D2, D3, dot, cross, scale, add, lat in *. cbn [vx vy vz] in *.
  set (V := ax * (by_ * cz - bz * cy) + ay * (bz * cx - bx * cz) + az * (bx * cy - by_ * cx)) in *.
  assert (HV : V <> 0) by exact Hvol.
  assert (Hs : Z.sgn V = 1 /\ Z.abs V = V \/ Z.sgn V = -1 /\ Z.abs V = - V).
  { destruct (Z.sgn_spec V) as [[? ->]|[[? ?]|[? ->]]]; [left; split; [reflexivity | lia] | lia | right; split; [reflexivity | lia]]. }
  destruct p0, p1, p2; cbn [andb] in H0, H1, H2; subst;
    repeat match goal with m : bool |- _ => destruct m end; cbn [zb Z.b2z vx vy vz];
    unfold lat, add, scale; cbn [vx vy vz];
    (refine (conj _ (conj _ _)); intro Hp; try discriminate Hp;
     repeat match goal with H : true = true -> _ |- _ => specialize (H eq_refl) end;
     match goal with |- 0 <= _ * Z.sgn ?W < Z.abs ?W =>
       first [ replace W with (1 * V) by (unfold V; ring)
             | replace W with (2 * V) by (unfold V; ring)
             | replace W with (4 * V) by (unfold V; ring)
             | replace W with (8 * V) by (unfold V; ring) ] end;
     rewrite sgn_scale, abs_scale by lia;
     destruct Hs as [[Sg Ab]|[Sg Ab]]; rewrite Sg, Ab in *; unfold V in *; lia).
Qed.
End Repeated.

(* ------------------------------------------------------------------------------------------------------------ *)
(* end to end: get_dimensionality's arithmetic on the two C10 tables = the discrete mirror on the true bonded network *)
Lemma tab_spec_ext p img img' N cut tab :
  (forall i j o, (i < N)%nat -> (j < N)%nat -> img i j o = img' i j o) -> tab_spec p img N cut tab -> tab_spec p img' N cut tab.
Proof.
  intros Hext H i j Hi Hj Hne. specialize (H i j Hi Hj Hne). destruct (tab i j) as [d|].
  - destruct H as ((o & Ho & Hd) & Hmin & Hc). split; [|split; [|exact Hc]].
    + exists o. split; [exact Ho | rewrite <- Hext by assumption; exact Hd].
    + intros o' Ho'. rewrite <- Hext by assumption. apply Hmin. exact Ho'.
  - intros o Ho. rewrite <- Hext by assumption. apply H. exact Ho.
Qed.

Section EndToEnd.
Variables (pad : Q) (a b c : v3) (pbc : Extend.pbc3) (pos : list v3) (rad : nat -> Z) (thr : Z).
Hypothesis Hpad : (0 < pad)%Q.
Hypothesis Hvol : vol a b c <> 0.
Hypothesis Hin : forall r, In r pos -> in_cell a b c pbc r.       (* get_dimensionality works on the wrapped copy *)
Let n := length pos.
Let p := p_of pbc.
Let posf (i : nat) : v3 := nth i pos zero3.
Hypothesis n_pos : (0 < n)%nat.
Hypothesis thr_nonneg : 0 <= thr.
Hypothesis rad_nonneg : forall i, (i < n)%nat -> 0 <= rad i.
Let cutv := cutoff n rad thr.
Hypothesis cut_pos : 0 < cutv.                                     (* some radius or the threshold is positive *)

(* the 1x table of the structure and the table of structure.repeat(2 along periodic axes), both as C10 computes them *)
Definition tab_1x : nat -> nat -> option Z := tensor_tab pad a b c pbc pos cutv.
Definition tab_2x : nat -> nat -> option Z :=
  tensor_tab pad (a2 a b c pbc) (b2 a b c pbc) (c2 a b c pbc) pbc (pos2 a b c pbc pos) cutv.

Theorem tab_1x_spec : tab_spec p (img_d2 a b c posf) n cutv tab_1x.
Proof. apply tensor_tab_spec; assumption. Qed.

Theorem tab_2x_spec : tab_spec p (img2 a b c posf n p) (2 ^ npbc p * n) cutv tab_2x.
Proof.
  pose proof (tensor_tab_spec pad (a2 a b c pbc) (b2 a b c pbc) (c2 a b c pbc) pbc (pos2 a b c pbc pos) cutv Hpad cut_pos
                (rep_vol a b c pbc pos Hvol Hin) (rep_in_cell a b c pbc pos Hvol Hin)) as H.
  rewrite pos2_length in H. fold p n in H.
  eapply tab_spec_ext; [|exact H].
  intros i j o Hi Hj. unfold img2, img_d2. cbn zeta.
  rewrite (pos2_nth a b c pbc pos i Hi), (pos2_nth a b c pbc pos j Hj). reflexivity.
Qed.

(* E: ANY well-formed list of image pairs that is exactly the bonded network of the structure *)
Theorem get_dim_of_tensor_tables (E : list ipair) :
  wf_E n p E = true ->
  (forall i j o, (i < n)%nat -> (j < n)%nat -> okoff p o = true -> (i, o) <> (j, ozero) ->
     (In (i, j, o) (sym E) <-> bonded a b c posf rad thr i j o)) ->
  get_dim_metric n p rad thr tab_1x tab_2x = get_dim_graph n p E.
Proof.
  intros wf Hex. apply (metric_eq_graph a b c posf n p rad thr n_pos thr_nonneg rad_nonneg E wf Hex).
  - exact tab_1x_spec.
  - exact tab_2x_spec.
Qed.
End EndToEnd.
