(* C20 -- an EXECUTABLE, certified a-posteriori checker for the periodic centre of mass.

   Geometry/ComReals.v characterises the value of matid.geometry.get_center_of_mass on a periodic axis
   by the relation  is_com_rel ms ss r  (2 pi r is an angle of the mass-weighted resultant
   (xi, zeta) of the scaled coordinates ss) and proves the property's clauses for every such r.
   That file has no executable content.  Here the relation is DECIDED, up to a stated backward error,
   by interval arithmetic (CoqInterval: floating-point intervals with 80 bits, evaluated by
   vm_compute; every operation comes with an enclosure theorem):

     com_check ms ss r eps = true
       ->  exists e1 e2, |e1| <= eps /\ |e2| <= eps /\
           2 pi r  is EXACTLY an angle of the perturbed resultant (xi + e1, zeta + e2)        (com_check_sound)

   i.e. the returned centre is the exact circular mean of a resultant that differs from the true one
   by at most eps per component (eps is handed in by the harness as 1e-9 x total mass; floating-point
   evaluation of sin, cos, arctan2 and of the sums perturbs the resultant by about 1e-16 x total mass).
   The checker evaluates enclosures X, Z of the two sums, C, S of cos / sin of 2 pi r, and tests
       X S - Z C  within [-eps, eps]     and      X C + Z S > 0.
   The Reals part is the identity  (x, y) - (x sin t - y cos t) (sin t, -cos t) = (x cos t + y sin t) (cos t, sin t).

   Masses, scaled coordinates and r are rationals (every double is one); the scaled coordinates are
   computed inside Coq by the Q model of to_scaled (Geometry/Frame.v) from the case's positions. *)
From Coq Require Import Reals QArith ZArith List Lra Qreals Bool.
From Interval Require Import Xreal Specific_stdz Specific_ops Float_full Interval.
From MV Require Import Geometry.ComReals Geometry.Frame.
Import ListNotations.

Module F := SpecificFloat StdZRadix2.
Module I := FloatIntervalFull F.

Definition prec : F.precision := F.PtoP 80.

(* ---------------------------------------------------------------------------------------------- *)
(* enclosures *)
Definition Q2I (q : Q) : I.type := I.div prec (I.fromZ prec (Qnum q)) (I.fromZ prec (Zpos (Qden q))).
Definition i2pi : I.type := I.mul prec (I.fromZ prec 2) (I.pi prec).
Definition iang (s : Q) : I.type := I.mul prec i2pi (Q2I s).

Fixpoint ixi (ms ss : list Q) : I.type :=
  match ms, ss with
  | m :: ms', s :: ss' => I.add prec (I.mul prec (Q2I m) (I.cos prec (iang s))) (ixi ms' ss')
  | _, _ => I.fromZ prec 0
  end.
Fixpoint izeta (ms ss : list Q) : I.type :=
  match ms, ss with
  | m :: ms', s :: ss' => I.add prec (I.mul prec (Q2I m) (I.sin prec (iang s))) (izeta ms' ss')
  | _, _ => I.fromZ prec 0
  end.

Definition is_pos (i : I.type) : bool := match I.sign_strict i with Xgt => true | _ => false end.

Definition com_check (ms ss : list Q) (r eps : Q) : bool :=
  let X := ixi ms ss in
  let Z := izeta ms ss in
  let C := I.cos prec (iang r) in
  let S := I.sin prec (iang r) in
  let crossp := I.sub prec (I.mul prec X S) (I.mul prec Z C) in
  let dotp := I.add prec (I.mul prec X C) (I.mul prec Z S) in
  let E := Q2I eps in
  is_pos (I.sub prec E crossp) && is_pos (I.add prec E crossp) && is_pos dotp.

(* agreement relation of the correspondence check (harness/props/c20.py, cases `com`): on every periodic axis that is not
   skipped (the harness skips axes whose mean resultant is below 1e-6 of the total mass: outside the hypothesis of the
   theorems), the scaled coordinate of the returned centre passes the checker for the scaled coordinates of the atoms,
   both computed by the Q model of to_scaled *)
Definition agree_com_periodic (m : M3) (pbc skip : B3) (ws : list Q) (ps : list V3) (impl_com : V3) (eps : Q) : bool :=
  let rel := map (to_scaled m) ps in
  let irel := to_scaled m impl_com in
  let chk := fun (periodic skipped : bool) (comps : list Q) (got : Q) =>
    if periodic && negb skipped then com_check ws comps got eps else true in
  chk (bx pbc) (bx skip) (map vx rel) (vx irel) && chk (by_ pbc) (by_ skip) (map vy rel) (vy irel)
  && chk (bz pbc) (bz skip) (map vz rel) (vz irel).

(* ---------------------------------------------------------------------------------------------- *)
(* the real quantities the enclosures are about *)
Local Open Scope R_scope.

Definition Rl (l : list Q) : list R := map Q2R l.

Lemma Q2I_correct q : contains (I.convert (Q2I q)) (Xreal (Q2R q)).
Proof.
  unfold Q2I, Q2R.
  pose proof (I.div_correct prec _ _ _ _ (I.fromZ_correct prec (Qnum q)) (I.fromZ_correct prec (Zpos (Qden q)))) as H.
  cbn [Xbind2] in H. unfold Xdiv' in H.
  rewrite is_zero_false in H.
  - exact H.
  - apply not_0_IZR. discriminate.
Qed.

Lemma i2pi_correct : contains (I.convert i2pi) (Xreal (2 * PI)).
Proof.
  unfold i2pi.
  exact (I.mul_correct prec _ _ _ _ (I.fromZ_correct prec 2) (I.pi_correct prec)).
Qed.

Lemma iang_correct s : contains (I.convert (iang s)) (Xreal (2 * PI * Q2R s)).
Proof.
  unfold iang. exact (I.mul_correct prec _ _ _ _ i2pi_correct (Q2I_correct s)).
Qed.

Lemma icos_correct s : contains (I.convert (I.cos prec (iang s))) (Xreal (cos (2 * PI * Q2R s))).
Proof. exact (I.cos_correct prec _ _ (iang_correct s)). Qed.
Lemma isin_correct s : contains (I.convert (I.sin prec (iang s))) (Xreal (sin (2 * PI * Q2R s))).
Proof. exact (I.sin_correct prec _ _ (iang_correct s)). Qed.

Lemma ixi_correct ms : forall ss, contains (I.convert (ixi ms ss)) (Xreal (xi (Rl ms) (Rl ss))).
Proof.
  induction ms as [|m ms IH]; intros ss.
  - destruct ss; cbn [ixi Rl map xi]; apply (I.fromZ_correct prec 0).
  - destruct ss as [|s ss]; [cbn [ixi Rl map xi]; apply (I.fromZ_correct prec 0)|].
    cbn [ixi Rl map xi].
    exact (I.add_correct prec _ _ _ _
             (I.mul_correct prec _ _ _ _ (Q2I_correct m) (icos_correct s)) (IH ss)).
Qed.
Lemma izeta_correct ms : forall ss, contains (I.convert (izeta ms ss)) (Xreal (zeta (Rl ms) (Rl ss))).
Proof.
  induction ms as [|m ms IH]; intros ss.
  - destruct ss; cbn [izeta Rl map zeta]; apply (I.fromZ_correct prec 0).
  - destruct ss as [|s ss]; [cbn [izeta Rl map zeta]; apply (I.fromZ_correct prec 0)|].
    cbn [izeta Rl map zeta].
    exact (I.add_correct prec _ _ _ _
             (I.mul_correct prec _ _ _ _ (Q2I_correct m) (isin_correct s)) (IH ss)).
Qed.

Lemma is_pos_correct i x : is_pos i = true -> contains (I.convert i) (Xreal x) -> 0 < x.
Proof.
  unfold is_pos. intros H Hc.
  pose proof (I.sign_strict_correct i) as S.
  destruct (I.sign_strict i); try discriminate.
  destruct (S _ Hc) as [_ P]. exact P.
Qed.

(* ---------------------------------------------------------------------------------------------- *)
(* the Reals identity: the angle t is exact for the resultant moved along (sin t, -cos t) by the cross product *)
Lemma com_angle_backward x y t :
  0 < x * cos t + y * sin t ->
  com_angle (x - sin t * (x * sin t - y * cos t)) (y + cos t * (x * sin t - y * cos t)) t.
Proof.
  intro Hd. exists (x * cos t + y * sin t). split; [exact Hd|].
  pose proof (sin2_cos2 t) as A. unfold Rsqr in A.
  split.
  - replace (x - sin t * (x * sin t - y * cos t)) with (x * (1 - sin t * sin t) + y * sin t * cos t) by ring.
    replace (1 - sin t * sin t) with (cos t * cos t) by lra. ring.
  - replace (y + cos t * (x * sin t - y * cos t)) with (y * (1 - cos t * cos t) + x * sin t * cos t) by ring.
    replace (1 - cos t * cos t) with (sin t * sin t) by lra. ring.
Qed.

Lemma sin_bound t : Rabs (sin t) <= 1.
Proof. apply Rabs_le. pose proof (SIN_bound t). lra. Qed.
Lemma cos_bound t : Rabs (cos t) <= 1.
Proof. apply Rabs_le. pose proof (COS_bound t). lra. Qed.

(* soundness of the checker: a backward-error statement *)
Theorem com_check_sound ms ss r eps :
  com_check ms ss r eps = true ->
  exists e1 e2 : R,
    Rabs e1 <= Q2R eps /\ Rabs e2 <= Q2R eps /\
    com_angle (xi (Rl ms) (Rl ss) + e1) (zeta (Rl ms) (Rl ss) + e2) (2 * PI * Q2R r).
Proof.
  unfold com_check. intro H.
  apply andb_prop in H. destruct H as [H Hdot]. apply andb_prop in H. destruct H as [Hup Hlo].
  set (x := xi (Rl ms) (Rl ss)). set (y := zeta (Rl ms) (Rl ss)). set (t := 2 * PI * Q2R r).
  pose proof (ixi_correct ms ss) as CX. pose proof (izeta_correct ms ss) as CZ.
  pose proof (icos_correct r) as CC. pose proof (isin_correct r) as CS.
  fold x in CX. fold y in CZ. fold t in CC, CS.
  pose proof (I.sub_correct prec _ _ _ _ (I.mul_correct prec _ _ _ _ CX CS) (I.mul_correct prec _ _ _ _ CZ CC)) as Ccross.
  pose proof (I.add_correct prec _ _ _ _ (I.mul_correct prec _ _ _ _ CX CC) (I.mul_correct prec _ _ _ _ CZ CS)) as Cdot.
  cbn [Xlift2] in Ccross, Cdot.
  pose proof (is_pos_correct _ _ Hdot Cdot) as Dpos.
  pose proof (is_pos_correct _ _ Hup (I.sub_correct prec _ _ _ _ (Q2I_correct eps) Ccross)) as U.
  pose proof (is_pos_correct _ _ Hlo (I.add_correct prec _ _ _ _ (Q2I_correct eps) Ccross)) as L.
  set (cr := x * sin t - y * cos t) in *.
  assert (Hcr : Rabs cr <= Q2R eps) by (apply Rabs_le; lra).
  exists (- (sin t * cr)), (cos t * cr).
  split; [|split].
  - rewrite Rabs_Ropp, Rabs_mult. pose proof (sin_bound t). pose proof (Rabs_pos cr).
    apply Rle_trans with (1 * Rabs cr); [apply Rmult_le_compat_r; assumption | lra].
  - rewrite Rabs_mult. pose proof (cos_bound t). pose proof (Rabs_pos cr).
    apply Rle_trans with (1 * Rabs cr); [apply Rmult_le_compat_r; assumption | lra].
  - replace (x + - (sin t * cr)) with (x - sin t * (x * sin t - y * cos t)) by (unfold cr; ring).
    apply com_angle_backward. exact Dpos.
Qed.

(* with a vanishing backward error the relation of ComReals.v holds exactly *)
Corollary com_check_exact ms ss r :
  (exists e1 e2, e1 = 0 /\ e2 = 0 /\ com_angle (xi (Rl ms) (Rl ss) + e1) (zeta (Rl ms) (Rl ss) + e2) (2 * PI * Q2R r)) ->
  is_com_rel (Rl ms) (Rl ss) (Q2R r).
Proof.
  intros (e1 & e2 & -> & -> & H). unfold is_com_rel. rewrite !Rplus_0_r in H. exact H.
Qed.

(* ---------------------------------------------------------------------------------------------- *)
(* non-vacuity / sanity: the checker accepts the true centre and rejects a wrong one *)
Example com_check_accepts :
  com_check [3; 1]%Q [0; 1 # 2]%Q 0%Q (1 # 1000000000)%Q = true.
Proof. vm_compute. reflexivity. Qed.
Example com_check_accepts_generic :
  (* masses 1, 2, 1 at 0.1, 0.2, 0.9: the circular mean is atan2-based, about 0.11218; accepted with eps = 1e-5 *)
  com_check [1; 2; 1]%Q [1 # 10; 2 # 10; 9 # 10]%Q (1121838 # 10000000)%Q (1 # 100000)%Q = true.
Proof. vm_compute. reflexivity. Qed.
Example com_check_rejects :
  com_check [3; 1]%Q [0; 1 # 2]%Q (1 # 4)%Q (1 # 1000000000)%Q = false.
Proof. vm_compute. reflexivity. Qed.
Example com_check_rejects_opposite :
  (* the opposite direction has a vanishing cross product too; it is rejected by the sign of the dot product *)
  com_check [3; 1]%Q [0; 1 # 2]%Q (1 # 2)%Q (1 # 1000000000)%Q = false.
Proof. vm_compute. reflexivity. Qed.

Print Assumptions com_check_sound.
