(* C20 -- cell and frame helpers of matid/geometry/geometry.py: executable model over Q.

   Conventions (DESIGN.md 2.3):
   * a cell is three row vectors (ASE convention, rows = lattice vectors);
   * exact rational arithmetic stands for the float arithmetic of numpy;
   * square roots never appear: where the code takes a norm (get_minimized_cell, complete_cell,
     get_thickness) the model takes the length as an extra argument [L]; the theorems carry the
     hypothesis [L * L == c . c] and [0 < L];
   * np.linalg.solve(cell.T, p) is modelled by Cramer's rule (to_scaled);
   * this file contains only definitions (and the agreement relations used by the correspondence
     check); the proofs are in FrameProofs.v. *)
From Coq Require Import ZArith QArith Qabs Qround List Bool.
Import ListNotations.
Open Scope Q_scope.

(* ------------------------------------------------------------------------------------------ *)
(* vectors, matrices, axes                                                                    *)
(* ------------------------------------------------------------------------------------------ *)
Record V3 := mkV { vx : Q; vy : Q; vz : Q }.
Record M3 := mkM { r0 : V3; r1 : V3; r2 : V3 }.           (* rows *)
Record B3 := mkB { bx : bool; by_ : bool; bz : bool }.    (* pbc flags *)
Inductive axis := A0 | A1 | A2.

Definition axis_eqb (a b : axis) : bool :=
  match a, b with A0, A0 | A1, A1 | A2, A2 => true | _, _ => false end.

(* Qred (reduction to lowest terms) does not change the rational number (Qred_correct); it only keeps the
   numerals small when the model is evaluated with vm_compute *)
Definition vred (v : V3) : V3 := mkV (Qred (vx v)) (Qred (vy v)) (Qred (vz v)).

Definition vzero := mkV 0 0 0.
Definition vadd a b := mkV (vx a + vx b) (vy a + vy b) (vz a + vz b).
Definition vsub a b := mkV (vx a - vx b) (vy a - vy b) (vz a - vz b).
Definition vscale (k : Q) a := mkV (k * vx a) (k * vy a) (k * vz a).
Definition dot a b := Qred (vx a * vx b + vy a * vy b + vz a * vz b).
Definition cross a b :=
  vred (mkV (vy a * vz b - vz a * vy b) (vz a * vx b - vx a * vz b) (vx a * vy b - vy a * vx b)).

Definition getc (a : axis) (v : V3) : Q := match a with A0 => vx v | A1 => vy v | A2 => vz v end.
Definition setc (a : axis) (v : V3) (q : Q) : V3 :=
  match a with A0 => mkV q (vy v) (vz v) | A1 => mkV (vx v) q (vz v) | A2 => mkV (vx v) (vy v) q end.
Definition getb (a : axis) (b : B3) : bool := match a with A0 => bx b | A1 => by_ b | A2 => bz b end.
Definition setb (a : axis) (b : B3) (q : bool) : B3 :=
  match a with A0 => mkB q (by_ b) (bz b) | A1 => mkB (bx b) q (bz b) | A2 => mkB (bx b) (by_ b) q end.
Definition row (a : axis) (m : M3) : V3 := match a with A0 => r0 m | A1 => r1 m | A2 => r2 m end.
Definition set_row (a : axis) (m : M3) (v : V3) : M3 :=
  match a with A0 => mkM v (r1 m) (r2 m) | A1 => mkM (r0 m) v (r2 m) | A2 => mkM (r0 m) (r1 m) v end.

Definition det (m : M3) : Q := dot (r0 m) (cross (r1 m) (r2 m)).

(* component-wise rational equality *)
Definition veq (a b : V3) : Prop := vx a == vx b /\ vy a == vy b /\ vz a == vz b.
Definition meq (a b : M3) : Prop := veq (r0 a) (r0 b) /\ veq (r1 a) (r1 b) /\ veq (r2 a) (r2 b).

(* ------------------------------------------------------------------------------------------ *)
(* to_cartesian / to_scaled / wrapping                                                        *)
(* ------------------------------------------------------------------------------------------ *)
(* np.dot(scaled_positions, cell) *)
Definition to_cartesian (m : M3) (s : V3) : V3 :=
  vred (vadd (vscale (vx s) (r0 m)) (vadd (vscale (vy s) (r1 m)) (vscale (vz s) (r2 m)))).

(* np.linalg.solve(cell.T, positions.T).T  -- Cramer's rule *)
Definition to_scaled (m : M3) (p : V3) : V3 :=
  let d := det m in
  vred (mkV (dot p (cross (r1 m) (r2 m)) / d) (dot p (cross (r2 m) (r0 m)) / d) (dot p (cross (r0 m) (r1 m)) / d)).

(* x %= 1.0 *)
Definition wrap1 (q : Q) : Q := q - inject_Z (Qfloor q).
Definition wrap_shift (q : Q) : Z := Qfloor q.

Definition wrapc (periodic : bool) (q : Q) : Q := if periodic then wrap1 q else q.
Definition wrap_v (pbc : B3) (s : V3) : V3 :=
  mkV (wrapc (bx pbc) (vx s)) (wrapc (by_ pbc) (vy s)) (wrapc (bz pbc) (vz s)).

(* expand_pbc: a scalar boolean or an explicit triple *)
Inductive pbc_arg := PbcAll (b : bool) | PbcTriple (b : B3).
Definition expand_pbc (p : pbc_arg) : B3 :=
  match p with PbcAll b => mkB b b b | PbcTriple t => t end.

Definition to_scaled_w (m : M3) (p : V3) (wrap : bool) (pbc : pbc_arg) : V3 :=
  let f := to_scaled m p in if wrap then wrap_v (expand_pbc pbc) f else f.
Definition to_cartesian_w (m : M3) (s : V3) (wrap : bool) (pbc : pbc_arg) : V3 :=
  to_cartesian m (if wrap then wrap_v (expand_pbc pbc) s else s).

(* get_wrapped_positions(scaled_pos, precision): wrap every component, then snap values closer
   than [precision] to 0 or to 1 onto 0 *)
Definition Qlt_bool (a b : Q) : bool := negb (Qle_bool b a).
Definition wrapped_snap1 (prec q : Q) : Q :=
  let w := wrap1 q in
  let abs_zero := Qabs w in
  let abs_unity := Qabs (abs_zero - 1) in
  if Qlt_bool abs_zero prec then 0 else if Qlt_bool abs_unity prec then 0 else w.
Definition wrapped_snap (prec : Q) (s : V3) : V3 :=
  mkV (wrapped_snap1 prec (vx s)) (wrapped_snap1 prec (vy s)) (wrapped_snap1 prec (vz s)).

(* ------------------------------------------------------------------------------------------ *)
(* get_thickness / get_minimized_cell                                                         *)
(* ------------------------------------------------------------------------------------------ *)
Definition qmin (x y : Q) : Q := if Qle_bool x y then x else y.
Definition qmax (x y : Q) : Q := if Qle_bool x y then y else x.
(* value at np.argmin / np.argmax; the empty list is excluded by every theorem (numpy raises) *)
Definition lmin (l : list Q) : Q := match l with [] => 0 | h :: t => fold_right qmin h t end.
Definition lmax (l : list Q) : Q := match l with [] => 0 | h :: t => fold_right qmax h t end.

(* (pos_max - pos_min) * np.linalg.norm(basis), with L standing for the norm.  The code reads
   system.get_scaled_positions() with ASE's default wrap=True: along a periodic axis the coordinates
   are wrapped into [0,1) first *)
Definition get_thickness (m : M3) (pbc : B3) (ps : list V3) (ax : axis) (L : Q) : Q :=
  let comps := map (fun p => wrapc (getb ax pbc) (getc ax (to_scaled m p))) ps in
  (lmax comps - lmin comps) * L.

Record MinCell := mkMinCell {
  mc_cell : M3;             (* new_basis *)
  mc_scaled : list V3;      (* new_scaled_pos handed to Atoms(scaled_positions=...) *)
  mc_pos : list V3;         (* the cartesian positions ASE derives from them *)
  mc_numbers : list Z;      (* symbols=num *)
  mc_pbc : B3;              (* pbc=pbc *)
  mc_padded : bool          (* c_size < min_size *)
}.

(* statement by statement after geometry.py:get_minimized_cell; [L] is c_length *)
Definition min_cell (m : M3) (pbc : B3) (nums : list Z) (ps : list V3) (ax : axis) (min_size L : Q) : MinCell :=
  let rel := map (to_scaled m) ps in
  let c := row ax m in
  let c_norm := vscale (/ L) c in
  let comps := map (getc ax) rel in
  let smin := lmin comps in
  let smax := lmax comps in
  let pos_min_rel := setc ax vzero smin in
  let pos_max_rel := setc ax vzero smax in
  let pos_min_cart := to_cartesian m pos_min_rel in
  let pos_max_cart := to_cartesian m pos_max_rel in
  let c_real := vsub pos_max_cart pos_min_cart in
  let c_size := Qabs (smax - smin) * L in              (* np.linalg.norm(c_real_cart), see c_size_is_norm *)
  let padded := Qlt_bool c_size min_size in
  let c_infl := vscale min_size c_norm in
  let c_new := if padded then c_infl else c_real in
  let nb := set_row ax m c_new in
  let s1 := map (fun s => vsub s pos_min_rel) rel in
  let cart_test := map (to_cartesian m) s1 in
  let s2 := map (to_scaled nb) cart_test in
  let s3 := if padded
            then let off := to_scaled nb (vscale (1 # 2) (vsub c_real c_infl)) in
                 map (fun s => vsub s off) s2
            else s2 in
  mkMinCell nb s3 (map (to_cartesian nb) s3) nums pbc padded.

(* ------------------------------------------------------------------------------------------ *)
(* swap_basis / complete_cell                                                                 *)
(* ------------------------------------------------------------------------------------------ *)
Record Sys := mkSys { s_cell : M3; s_pbc : B3; s_pos : list V3 }.

Definition swap_basis (s : Sys) (a b : axis) : Sys :=
  let cell_old := s_cell s in
  let pbc_old := s_pbc s in
  let cell_new := set_row b (set_row a cell_old (row b cell_old)) (row a cell_old) in
  let pbc_new := setb b (setb a pbc_old (getb b pbc_old)) (getb a pbc_old) in
  mkSys cell_new pbc_new (s_pos s).          (* set_cell(scale_atoms=False): positions untouched *)

(* c = cross(a,b); c / norm(c) * length, with N standing for norm(c) *)
Definition complete_cell (a b : V3) (length N : Q) : V3 :=
  vscale length (vscale (/ N) (cross a b)).

(* ------------------------------------------------------------------------------------------ *)
(* centre of mass along non-periodic axes; inertia tensor                                     *)
(* ------------------------------------------------------------------------------------------ *)
Fixpoint qsum (l : list Q) : Q := match l with [] => 0 | h :: t => Qred (h + qsum t) end.
Fixpoint wsum (ws : list Q) (xs : list Q) : Q :=
  match ws, xs with w :: ws', x :: xs' => Qred (w * x + wsum ws' xs') | _, _ => 0 end.

(* rel_com[i] = np.sum(i_pos * masses) / total_mass   (non-periodic component) *)
Definition com_rel_nonperiodic (ws : list Q) (ss : list Q) : Q := wsum ws ss / qsum ws.

(* centre of mass of a system without periodic axes, as get_center_of_mass computes it *)
Definition com_nonperiodic (m : M3) (ws : list Q) (ps : list V3) : V3 :=
  let rel := map (to_scaled m) ps in
  to_cartesian m (mkV (com_rel_nonperiodic ws (map vx rel))
                      (com_rel_nonperiodic ws (map vy rel))
                      (com_rel_nonperiodic ws (map vz rel))).

(* the six sums of get_moments_of_inertia and the matrix it assembles from them; [c] is the centroid *)
Definition inertia (ws : list Q) (ps : list V3) (c : V3) : M3 :=
  let sh := map (fun p => vsub p c) ps in
  let x := map vx sh in let y := map vy sh in let z := map vz sh in
  let sq := map (fun q => q * q) in
  let pr := fun a b => map (fun p => fst p * snd p) (combine a b) in
  let add := fun a b => map (fun p => fst p + snd p) (combine a b) in
  let I11 := wsum ws (add (sq y) (sq z)) in
  let I22 := wsum ws (add (sq x) (sq z)) in
  let I33 := wsum ws (add (sq x) (sq y)) in
  let I12 := - wsum ws (pr x y) in
  let I13 := - wsum ws (pr x z) in
  let I23 := - wsum ws (pr y z) in
  mkM (mkV I11 I12 I13) (mkV I12 I22 I23) (mkV I13 I23 I33).

Definition transpose (m : M3) : M3 :=
  mkM (mkV (vx (r0 m)) (vx (r1 m)) (vx (r2 m)))
      (mkV (vy (r0 m)) (vy (r1 m)) (vy (r2 m)))
      (mkV (vz (r0 m)) (vz (r1 m)) (vz (r2 m))).
Definition mulv (m : M3) (v : V3) : V3 := mkV (dot (r0 m) v) (dot (r1 m) v) (dot (r2 m) v).

(* ------------------------------------------------------------------------------------------ *)
(* agreement relations for the correspondence check (tolerance explicit)                      *)
(* ------------------------------------------------------------------------------------------ *)
Definition qabsmax (a b : Q) : Q := qmax (Qabs a) (Qabs b).
Definition vnorminf (v : V3) : Q := qmax (Qabs (vx v)) (qmax (Qabs (vy v)) (Qabs (vz v))).
Definition mnorminf (m : M3) : Q := qmax (vnorminf (r0 m)) (qmax (vnorminf (r1 m)) (vnorminf (r2 m))).

(* |a - b| <= tol * scale *)
Definition qclose_s (tol scale a b : Q) : bool := Qle_bool (Qabs (a - b)) (tol * scale).
Definition vclose_s (tol scale : Q) (u v : V3) : bool :=
  qclose_s tol scale (vx u) (vx v) && qclose_s tol scale (vy u) (vy v) && qclose_s tol scale (vz u) (vz v).
(* relative to 1 + the model's max-norm *)
Definition vclose (tol : Q) (model impl : V3) : bool := vclose_s tol (1 + vnorminf model) model impl.
Fixpoint lclose (tol : Q) (model impl : list V3) : bool :=
  match model, impl with
  | [], [] => true
  | a :: t, b :: t' => vclose tol a b && lclose tol t t'
  | _, _ => false
  end.
Definition mclose (tol : Q) (model impl : M3) : bool :=
  let sc := 1 + mnorminf model in
  vclose_s tol sc (r0 model) (r0 impl) && vclose_s tol sc (r1 model) (r1 impl) && vclose_s tol sc (r2 model) (r2 impl).

Definition veqb (a b : V3) : bool := Qeq_bool (vx a) (vx b) && Qeq_bool (vy a) (vy b) && Qeq_bool (vz a) (vz b).
Definition meqb (a b : M3) : bool := veqb (r0 a) (r0 b) && veqb (r1 a) (r1 b) && veqb (r2 a) (r2 b).
Definition b3eqb (a b : B3) : bool := eqb (bx a) (bx b) && eqb (by_ a) (by_ b) && eqb (bz a) (bz b).
Fixpoint leqb (a b : list V3) : bool :=
  match a, b with [], [] => true | x :: t, y :: t' => veqb x y && leqb t t' | _, _ => false end.
Fixpoint zleqb (a b : list Z) : bool :=
  match a, b with [], [] => true | x :: t, y :: t' => Z.eqb x y && zleqb t t' | _, _ => false end.

(* to_scaled / to_cartesian without wrapping *)
Definition agree_to_scaled (tol : Q) (m : M3) (ps impl : list V3) : bool := lclose tol (map (to_scaled m) ps) impl.
Definition agree_to_cartesian (tol : Q) (m : M3) (ss impl : list V3) : bool := lclose tol (map (to_cartesian m) ss) impl.

(* wrapped component: equal up to tol, or -- only when the exact value is within tol of an integer
   (the float result may then fall on either side) -- equal up to tol modulo 1 *)
Definition near_int (tol q : Q) : bool :=
  let w := wrap1 q in Qle_bool w tol || Qle_bool (1 - tol) w.
Definition wrapc_close (tol scale : Q) (periodic : bool) (exact_unwrapped impl_wrapped : Q) : bool :=
  if periodic then
    let w := wrap1 exact_unwrapped in
    qclose_s tol scale w impl_wrapped
    || (near_int (tol * scale) exact_unwrapped
        && (qclose_s tol scale (w + 1) impl_wrapped || qclose_s tol scale (w - 1) impl_wrapped))
  else qclose_s tol scale exact_unwrapped impl_wrapped.
(* the implementation's own wrapped-minus-unwrapped difference: exactly zero on non-periodic
   components; on periodic ones an integer (up to tol) that is -floor of the exact coordinate
   (or one more / less when that coordinate is within tol of an integer); result in [0,1] and in
   [0,1) away from that boundary *)
Definition wrap_shift_ok (tol scale : Q) (periodic : bool) (exact_unwrapped impl_unwrapped impl_wrapped : Q) : bool :=
  if periodic then
    let k := inject_Z (wrap_shift exact_unwrapped) in
    let d := impl_unwrapped - impl_wrapped in
    let bnd := near_int (tol * scale) exact_unwrapped in
    (qclose_s tol scale k d || (bnd && (qclose_s tol scale (k + 1) d || qclose_s tol scale (k - 1) d)))
    && Qle_bool 0 impl_wrapped && Qle_bool impl_wrapped 1 && (bnd || Qlt_bool impl_wrapped 1)
  else Qeq_bool impl_unwrapped impl_wrapped.

Definition agree_wrap1 (tol : Q) (pbc : B3) (exact impl_unwrapped impl_wrapped : V3) : bool :=
  let sc := 1 + vnorminf exact in
  wrapc_close tol sc (bx pbc) (vx exact) (vx impl_wrapped) && wrapc_close tol sc (by_ pbc) (vy exact) (vy impl_wrapped)
  && wrapc_close tol sc (bz pbc) (vz exact) (vz impl_wrapped)
  && wrap_shift_ok tol sc (bx pbc) (vx exact) (vx impl_unwrapped) (vx impl_wrapped)
  && wrap_shift_ok tol sc (by_ pbc) (vy exact) (vy impl_unwrapped) (vy impl_wrapped)
  && wrap_shift_ok tol sc (bz pbc) (vz exact) (vz impl_unwrapped) (vz impl_wrapped).

Fixpoint agree_wrap_list (tol : Q) (pbc : B3) (exact iu iw : list V3) : bool :=
  match exact, iu, iw with
  | [], [], [] => true
  | e :: te, u :: tu, w :: tw => agree_wrap1 tol pbc e u w && agree_wrap_list tol pbc te tu tw
  | _, _, _ => false
  end.

(* to_scaled(cell, positions, wrap=True, pbc): impl_unwrapped = to_scaled(..., wrap=False) *)
Definition agree_to_scaled_wrap (tol : Q) (m : M3) (pbc : pbc_arg) (ps iu iw : list V3) : bool :=
  agree_wrap_list tol (expand_pbc pbc) (map (to_scaled m) ps) iu iw.

(* to_cartesian(cell, scaled, wrap=True, pbc): the wrapped scaled coordinates are exact here
   (inputs on the dyadic grid), so the model result is compared directly *)
Definition agree_to_cartesian_wrap (tol : Q) (m : M3) (pbc : pbc_arg) (ss impl : list V3) : bool :=
  lclose tol (map (fun s => to_cartesian_w m s true pbc) ss) impl.

(* get_wrapped_positions on dyadic inputs: exact *)
Definition agree_wrapped_snap (prec : Q) (ss impl : list V3) : bool := leqb (map (wrapped_snap prec) ss) impl.

Definition rows_other_eqb (ax : axis) (a b : M3) : bool :=
  match ax with
  | A0 => veqb (r1 a) (r1 b) && veqb (r2 a) (r2 b)
  | A1 => veqb (r0 a) (r0 b) && veqb (r2 a) (r2 b)
  | A2 => veqb (r0 a) (r0 b) && veqb (r1 a) (r1 b)
  end.

(* L is the length of the axis vector up to the tolerance (exact for the Pythagorean families) *)
Definition length_ok (tol : Q) (c : V3) (L : Q) : bool :=
  Qlt_bool 0 L && Qle_bool (Qabs (L * L - dot c c)) (tol * dot c c).

Definition agree_min_cell (tol : Q) (m : M3) (pbc : B3) (nums : list Z) (ps : list V3) (ax : axis) (min_size L : Q)
           (icell : M3) (ipbc : B3) (inums : list Z) (ipos : list V3) : bool :=
  let r := min_cell m pbc nums ps ax min_size L in
  length_ok tol (row ax m) L
  && mclose tol (mc_cell r) icell
  && rows_other_eqb ax m icell              (* the two other rows are copied bit for bit *)
  && lclose tol (mc_pos r) ipos
  && b3eqb (mc_pbc r) ipbc && zleqb (mc_numbers r) inums.

(* along a periodic axis the thickness is discontinuous where a coordinate is an integer: such
   inputs (exact coordinate within tol of an integer) are not compared *)
Definition agree_thickness (tol : Q) (m : M3) (pbc : B3) (ps : list V3) (ax : axis) (L impl : Q) : bool :=
  let t := get_thickness m pbc ps ax L in
  let boundary := getb ax pbc && existsb (fun p => near_int tol (getc ax (to_scaled m p))) ps in
  length_ok tol (row ax m) L && (boundary || qclose_s tol (1 + Qabs t) t impl).

Definition agree_swap_basis (s : Sys) (a b : axis) (icell : M3) (ipbc : B3) (ipos : list V3) : bool :=
  let r := swap_basis s a b in
  meqb (s_cell r) icell && b3eqb (s_pbc r) ipbc && leqb (s_pos r) ipos.

Definition agree_complete_cell (tol : Q) (a b : V3) (length N : Q) (impl : V3) : bool :=
  length_ok tol (cross a b) N && vclose tol (complete_cell a b length N) impl.

(* non-periodic components of the centre of mass, in scaled coordinates: [impl_rel] is
   to_scaled(cell, get_center_of_mass(system)) computed by the harness in exact arithmetic *)
Definition agree_com_nonperiodic (tol : Q) (m : M3) (pbc : B3) (ws : list Q) (ps : list V3) (impl_com : V3) : bool :=
  let rel := map (to_scaled m) ps in
  let irel := to_scaled m impl_com in
  let chk := fun (periodic : bool) (comps : list Q) (got : Q) =>
    if periodic then true
    else let want := com_rel_nonperiodic ws comps in qclose_s tol (1 + Qabs want) want got in
  chk (bx pbc) (map vx rel) (vx irel) && chk (by_ pbc) (map vy rel) (vy irel) && chk (bz pbc) (map vz rel) (vz irel).

(* a-posteriori certificate for np.linalg.eigh: [evecs] is the matrix as numpy returns it (columns
   are eigenvectors).  I v = lambda v within tol * (1 + |I|_max), orthonormal within tol, ascending *)
Definition eig_cert_ok (tol : Q) (I : M3) (evals : V3) (evecs : M3) : bool :=
  let cols := transpose evecs in
  let sc := 1 + mnorminf I in
  let one := fun (lam : Q) (v : V3) => vclose_s tol sc (mulv I v) (vscale lam v) in
  let v0 := r0 cols in let v1 := r1 cols in let v2 := r2 cols in
  one (vx evals) v0 && one (vy evals) v1 && one (vz evals) v2
  && qclose_s tol 1 (dot v0 v0) 1 && qclose_s tol 1 (dot v1 v1) 1 && qclose_s tol 1 (dot v2 v2) 1
  && qclose_s tol 1 (dot v0 v1) 0 && qclose_s tol 1 (dot v0 v2) 0 && qclose_s tol 1 (dot v1 v2) 0
  && Qle_bool (vx evals) (vy evals + tol * sc) && Qle_bool (vy evals) (vz evals + tol * sc).

(* get_moments_of_inertia(system, weight): the tensor is the model's, about the centre the
   implementation's get_center_of_mass returned ([centre], exact value of the floats) *)
Definition agree_moments (tol : Q) (ws : list Q) (ps : list V3) (centre : V3) (evals : V3) (evecs : M3) : bool :=
  eig_cert_ok tol (inertia ws ps centre) evals evecs.
