(* C09 -- a sublattice of finite index has the same integer rank (the lattice-level half of supercell invariance).

   Repeating a structure into a supercell with integer matrix M replaces the lattice L of self-translations of the bonded
   network by L' = L /\ M.Z^3 (expressed in the old basis): every translation of the supercell network is a translation of the
   original network that is also a supercell lattice vector, and d.L <= L' for d = |det M|.  Proved here, for any two lists of
   integer vectors:

       sublattice_same_rank     span vs' <= span vs  and  d.vs <= span vs'  (d <> 0)   ->   rank_det vs' = rank_det vs

   and its transfer to the number the specification computes ([rankZ], by RankElim.rankZ_eq_rank_det) and to an arbitrary basis
   for the sublattice (change of basis to the supercell's own lattice vectors, RankDet.rank_det_lin).
   NOT proved (evaluated on every generated base/supercell pair by the correspondence): that the supercell construction of a
   network has exactly L /\ M.Z^3 as its lattice of self-translations; and the statement needs the supercell network to stay
   connected, which fails precisely for the networks whose GF(2) and integer ranks differ along the repeated direction. *)
From Coq Require Import List ZArith Bool Lia.
From MV Require Import Geometry.Dimensionality Geometry.DimensionalityProofs Geometry.RankDet Geometry.RankElim.
Import ListNotations.
Local Open Scope Z_scope.

Lemma rank_det_mono vs vs' : (forall v, In v vs' -> span vs v) -> (rank_det vs' <= rank_det vs)%nat.
Proof.
  intro S. unfold rank_det.
  destruct (r3b vs') eqn:E3'.
  - apply r3b_iff in E3'. apply (R3_mono vs vs' S) in E3'. apply r3b_iff in E3'. rewrite E3'. lia.
  - destruct (r2b vs') eqn:E2'.
    + apply r2b_iff in E2'. apply (R2_mono vs vs' S) in E2'. apply r2b_iff in E2'. rewrite E2'. destruct (r3b vs); lia.
    + destruct (r1b vs') eqn:E1'.
      * apply r1b_iff in E1'. apply (R1_mono vs vs' S) in E1'. apply r1b_iff in E1'. rewrite E1'. destruct (r3b vs), (r2b vs); lia.
      * lia.
Qed.

Definition dI (d : Z) : off * off * off := ((d, 0, 0), (0, d, 0), (0, 0, d)).
Lemma lin_dI d v : lin (dI d) v = oscale d v.
Proof.
  destruct v as [[x y] z]. unfold lin, dI, oscale, oadd.
  repeat (match goal with |- (_, _) = (_, _) => apply f_equal2 end); ring.
Qed.
Lemma udet_dI d : udet (dI d) = d * d * d.
Proof. unfold udet, dI, odet, odot, ocross. ring. Qed.

Lemma rank_det_scale d vs : d <> 0 -> rank_det (map (oscale d) vs) = rank_det vs.
Proof.
  intro Hd. rewrite <- (rank_det_lin (dI d) vs).
  - f_equal. apply map_ext. intro v. symmetry. apply lin_dI.
  - rewrite udet_dI. intro H. apply Hd. apply Z.mul_eq_0 in H. destruct H as [H|H]; [|exact H].
    apply Z.mul_eq_0 in H. destruct H; assumption.
Qed.

Theorem sublattice_same_rank d vs vs' :
  d <> 0 -> (forall v, In v vs' -> span vs v) -> (forall v, In v vs -> span vs' (oscale d v)) -> rank_det vs' = rank_det vs.
Proof.
  intros Hd Hsub Hidx. apply Nat.le_antisymm.
  - apply rank_det_mono. exact Hsub.
  - rewrite <- (rank_det_scale d vs Hd). apply rank_det_mono.
    intros w Hw. apply in_map_iff in Hw. destruct Hw as (v & <- & Hv). apply Hidx. exact Hv.
Qed.

Corollary sublattice_same_rankZ d vs vs' :
  d <> 0 -> (forall v, In v vs' -> span vs v) -> (forall v, In v vs -> span vs' (oscale d v)) -> rankZ vs' = rankZ vs.
Proof. intros. rewrite !rankZ_eq_rank_det. eapply sublattice_same_rank; eassumption. Qed.

(* the same with the sublattice written in the supercell's own basis: ws = coordinates w.r.t. an invertible integer matrix M
   of generators of a sublattice of span vs that contains d.(span vs) *)
Corollary supercell_lattice_rank_partial d M vs ws :
  d <> 0 -> udet M <> 0 ->
  (forall w, In w ws -> span vs (lin M w)) -> (forall v, In v vs -> span (map (lin M) ws) (oscale d v)) ->
  rankZ ws = rankZ vs.
Proof.
  intros Hd HM Hsub Hidx. rewrite !rankZ_eq_rank_det. rewrite <- (rank_det_lin M ws HM).
  apply (sublattice_same_rank d); [exact Hd | | exact Hidx].
  intros v Hv. apply in_map_iff in Hv. destruct Hv as (w & <- & Hw). apply Hsub. exact Hw.
Qed.

(* non-vacuity: the checkerboard lattice and its 2x1 supercell sublattice *)
Example sublattice_example :
  let vs := [(1, 1, 0); (1, -1, 0)] in let vs' := [(2, 0, 0); (0, 2, 0)] in
  (forall v, In v vs' -> span vs v) /\ (forall v, In v vs -> span vs' (oscale 2 v)) /\ rank_det vs' = 2%nat /\ rank_det vs = 2%nat.
Proof.
  cbv zeta. split; [|split; [|split; reflexivity]].
  - intros v [<-|[<-|[]]].
    + replace (2, 0, 0) with (oadd (oadd ozero (oscale 1 (1, 1, 0))) (oscale 1 (1, -1, 0))) by reflexivity.
      apply span_add; [apply span_add; [constructor | left; reflexivity] | right; left; reflexivity].
    + replace (0, 2, 0) with (oadd (oadd ozero (oscale 1 (1, 1, 0))) (oscale (-1) (1, -1, 0))) by reflexivity.
      apply span_add; [apply span_add; [constructor | left; reflexivity] | right; left; reflexivity].
  - intros v [<-|[<-|[]]].
    + replace (oscale 2 (1, 1, 0)) with (oadd (oadd ozero (oscale 1 (2, 0, 0))) (oscale 1 (0, 2, 0))) by reflexivity.
      apply span_add; [apply span_add; [constructor | left; reflexivity] | right; left; reflexivity].
    + replace (oscale 2 (1, -1, 0)) with (oadd (oadd ozero (oscale 1 (2, 0, 0))) (oscale (-1) (0, 2, 0))) by reflexivity.
      apply span_add; [apply span_add; [constructor | left; reflexivity] | right; left; reflexivity].
Qed.
