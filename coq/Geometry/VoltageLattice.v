(* C09 -- the cycle voltages GENERATE the lattice of self-translations of the infinite bonded network, hence the integer
   rank computed by the specification is a property of the network alone.

   [dim_spec] places the atoms of a connected cell on lattice positions pi_i by a spanning tree ([relax]) and takes, for every
   bonded pair (i, j, o), the voltage  pi_i + o - pi_j  of the closed walk root -> i -> j -> root.  Here it is proved, for every
   well-formed connected network:

     voltage_lattice     span (voltages) t  <->  self_translation E t        (t is a lattice vector along which the network
                                                                              through atom 0 is connected to its own image)
   so the lattice does not depend on the spanning tree, the order of the pairs or the orientation in which a pair is listed, and

     rankZ_is_lattice_rank   rankZ (voltages) = rank_det gens  for EVERY generating list of the self-translation lattice
     rankZ_shift / rankZ_perm / rankZ_basis   the integer rank is unchanged by lattice shifts of atoms (any shifts),
                              re-numbering of atoms (any bijection, root moved) and any invertible change of lattice basis.
   Together with RankElim.rankZ_eq_rank_det (the elimination computes the determinantal rank) this closes the integer-rank half
   of the invariance statement of C09 for these three re-presentations. *)
From Coq Require Import List Arith Bool ZArith Lia PeanoNat.
From MV Require Import Base.Graph Base.Cover Geometry.Dimensionality Geometry.DimensionalityProofs
  Geometry.DimensionalityInvariance Geometry.RankDet Geometry.RankElim.
Import ListNotations.
Local Open Scope nat_scope.

Ltac osolve :=
  repeat match goal with x : off |- _ => destruct x as [[? ?] ?] end;
  unfold osub, oadd, oneg, oscale, ozero;
  repeat (match goal with |- (_, _) = (_, _) => apply f_equal2 end); ring.

Lemma osub_self_zero (t : off) : osub t ozero = t. Proof. osolve. Qed.

(* ------------------------------------------------------------------------------------------------------------ *)
(* self-translations form a lattice (closed under 0, +, integer multiples) *)
Lemma st_zero E : self_translation E ozero.
Proof. constructor. Qed.

Lemma st_add E t u : self_translation E t -> self_translation E u -> self_translation E (oadd t u).
Proof.
  unfold self_translation. intros Ht Hu.
  apply reach_inf_trans with (0, t); [assumption|].
  pose proof (reach_inf_translate E t (0, ozero) 0 u Hu) as H. cbn [fst snd] in H.
  replace (oadd ozero t) with t in H by osolve. replace (oadd u t) with (oadd t u) in H by osolve. exact H.
Qed.

Lemma st_neg E t : self_translation E t -> self_translation E (oneg t).
Proof.
  unfold self_translation. intros Ht. apply reach_inf_sym in Ht.
  pose proof (reach_inf_translate E (oneg t) (0, t) 0 ozero Ht) as H. cbn [fst snd] in H.
  replace (oadd t (oneg t)) with ozero in H by osolve. replace (oadd ozero (oneg t)) with (oneg t) in H by osolve. exact H.
Qed.

Lemma st_scale_nat E t (m : nat) : self_translation E t -> self_translation E (oscale (Z.of_nat m) t).
Proof.
  intro Ht. induction m as [|m IH].
  - replace (oscale (Z.of_nat 0) t) with ozero by (cbn; osolve). apply st_zero.
  - replace (oscale (Z.of_nat (S m)) t) with (oadd (oscale (Z.of_nat m) t) t).
    + apply st_add; assumption.
    + rewrite Nat2Z.inj_succ. generalize (Z.of_nat m). intro z. osolve.
Qed.

Lemma st_scale E t (k : Z) : self_translation E t -> self_translation E (oscale k t).
Proof.
  intro Ht. destruct (Z_le_gt_dec 0 k) as [Hk|Hk].
  - rewrite <- (Z2Nat.id k Hk). apply st_scale_nat. exact Ht.
  - replace (oscale k t) with (oneg (oscale (Z.of_nat (Z.to_nat (- k))) t)).
    + apply st_neg, st_scale_nat. exact Ht.
    + rewrite Z2Nat.id by lia. osolve.
Qed.

Lemma st_span E vs : (forall v, In v vs -> self_translation E v) -> forall t, span vs t -> self_translation E t.
Proof.
  intros Hvs t Ht. induction Ht as [|u k v Hu IH Hv]; [apply st_zero|].
  apply st_add; [exact IH | apply st_scale, Hvs; exact Hv].
Qed.

(* ------------------------------------------------------------------------------------------------------------ *)
Section Lattice.
Variables (n : nat) (p : pbc3) (E : list ipair).
Hypothesis wf : wf_E n p E = true.
Hypothesis n_pos : 0 < n.

(* invariant of the relaxation, integer version: a placed atom i at lattice position q is the image (i, q) of the
   infinite network reached from the root *)
Definition PinvZ (pot : list (option off)) : Prop :=
  length pot = n /\ nth 0 pot None = Some ozero /\
  forall i q, nth i pot None = Some q -> i < n /\ reach_inf E (0, ozero) (i, q).

Lemma PinvZ_init : PinvZ (set_nth 0 (Some ozero) (repeat None n)).
Proof.
  split; [rewrite set_nth_length, repeat_length; reflexivity|]. split.
  - apply nth_set_nth_eq. rewrite repeat_length. assumption.
  - intros i q H. destruct (Nat.eq_dec i 0) as [->|Hne].
    + rewrite nth_set_nth_eq in H by (rewrite repeat_length; assumption). injection H as <-.
      split; [assumption | constructor].
    + rewrite nth_set_nth_neq in H by lia. exfalso. clear - H.
      assert (Hr : forall m t, nth t (repeat (@None off) m) None = None) by (induction m as [|m IHm]; intros [|t]; simpl; auto).
      rewrite Hr in H. discriminate.
Qed.

Lemma PinvZ_relax es : incl es (sym E) -> forall pot, PinvZ pot -> PinvZ (relax es pot).
Proof.
  induction es as [|[[i j] o] r IH]; intros Hes pot HP; simpl; [assumption|].
  apply IH; [intros e He; apply Hes; right; assumption|].
  destruct (nth i pot None) as [pi|] eqn:Ei; [|assumption].
  destruct (nth j pot None) as [pj|] eqn:Ej; [assumption|].
  destruct HP as [Hlen [H0 Hall]].
  assert (Hin : In (i, j, o) (sym E)) by (apply Hes; left; reflexivity).
  destruct (wf_sym n p E wf _ _ _ Hin) as [Hi Hj].
  split; [rewrite set_nth_length; assumption|]. split.
  - rewrite nth_set_nth_neq; [assumption|]. intros ->. congruence.
  - intros i' q Hq. destruct (Nat.eq_dec i' j) as [->|Hne].
    + rewrite nth_set_nth_eq in Hq by lia. injection Hq as <-. split; [assumption|].
      destruct (Hall i pi Ei) as [_ HR]. eapply ri_step; [exact HR | exact Hin].
    + rewrite nth_set_nth_neq in Hq by lia. apply Hall. assumption.
Qed.

Lemma PinvZ_relax_n m : forall pot, PinvZ pot -> PinvZ (relax_n m (sym E) pot).
Proof. induction m as [|m IH]; intros pot HP; simpl; [assumption|]. apply IH. apply PinvZ_relax; [apply incl_refl | assumption]. Qed.

Lemma PinvZ_potentials : PinvZ (potentials n E).
Proof. apply PinvZ_relax_n. apply PinvZ_init. Qed.

Let pot := potentials n E.
Hypothesis placed : all_placed pot = true.

Lemma placedZ_nth i : i < n -> nth i pot None = Some (potf pot i).
Proof.
  intros Hi. unfold potf. destruct (nth i pot None) eqn:Ei; [reflexivity|]. exfalso.
  unfold all_placed in placed. rewrite forallb_forall in placed.
  assert (Hin : In (nth i pot None) pot) by (apply nth_In; destruct PinvZ_potentials as [Hl _]; fold pot in Hl; lia).
  specialize (placed _ Hin). rewrite Ei in placed. discriminate.
Qed.

Lemma potZ_reach i : i < n -> reach_inf E (0, ozero) (i, potf pot i).
Proof. intros Hi. destruct PinvZ_potentials as [_ [_ Hall]]. apply (Hall i). apply placedZ_nth. assumption. Qed.

Lemma potZ_0 : potf pot 0 = ozero.
Proof. destruct PinvZ_potentials as [_ [H0 _]]. unfold potf. fold pot in H0. rewrite H0. reflexivity. Qed.

Definition volt (e : ipair) : off := let '(i, j, o) := e in osub (oadd (potf pot i) o) (potf pot j).

Lemma voltages_eq : voltages pot E = map volt E.
Proof.
  unfold voltages. apply map_ext_in. intros [[i j] o] Hin.
  assert (Hs : In (i, j, o) (sym E)) by (unfold sym; apply in_or_app; left; assumption).
  destruct (wf_sym n p E wf _ _ _ Hs) as [Hi Hj].
  rewrite (placedZ_nth i Hi), (placedZ_nth j Hj). reflexivity.
Qed.

(* every pair of sym E closes a walk through the root whose translation is its voltage *)
Lemma volt_self_translation i j o : In (i, j, o) (sym E) -> self_translation E (volt (i, j, o)).
Proof.
  intro Hin. destruct (wf_sym n p E wf _ _ _ Hin) as [Hi Hj].
  unfold self_translation, volt.
  apply reach_inf_trans with (j, oadd (potf pot i) o).
  - eapply ri_step; [apply potZ_reach; exact Hi | exact Hin].
  - pose proof (reach_inf_sym _ _ _ (potZ_reach j Hj)) as Hb.
    pose proof (reach_inf_translate E (osub (oadd (potf pot i) o) (potf pot j)) (j, potf pot j) 0 ozero Hb) as H.
    cbn [fst snd] in H.
    replace (oadd (potf pot j) (osub (oadd (potf pot i) o) (potf pot j))) with (oadd (potf pot i) o) in H
      by (generalize (potf pot i) (potf pot j); intros a b; osolve).
    replace (oadd ozero (osub (oadd (potf pot i) o) (potf pot j))) with (osub (oadd (potf pot i) o) (potf pot j)) in H
      by (generalize (potf pot i) (potf pot j); intros a b; osolve).
    exact H.
Qed.

(* the voltage of a pair listed in the other orientation is the negative *)
Lemma volt_sym i j o : In (i, j, o) (sym E) -> exists k v, In v (map volt E) /\ volt (i, j, o) = oscale k v.
Proof.
  intro Hin. unfold sym in Hin. apply in_app_or in Hin. destruct Hin as [Hin|Hin].
  - exists 1%Z, (volt (i, j, o)). split; [apply in_map; exact Hin | symmetry; apply oscale_1].
  - apply in_map_iff in Hin. destruct Hin as [[[i' j'] o'] [Heq He]]. simpl in Heq. injection Heq as <- <- <-.
    exists (-1)%Z, (volt (i', j', o')). split; [apply in_map; exact He|].
    unfold volt. generalize (potf pot i') (potf pot j'). intros a b. osolve.
Qed.

(* every walk from the root to an image (i, t) has  t - pi_i  in the span of the voltages *)
Lemma walk_in_span x : reach_inf E (0, ozero) x -> span (map volt E) (osub (snd x) (potf pot (fst x))).
Proof.
  intro H. induction H as [|i t j o Hr IH Hin].
  - cbn [fst snd]. rewrite potZ_0. replace (osub ozero ozero) with ozero by osolve. constructor.
  - cbn [fst snd] in *. destruct (volt_sym i j o Hin) as (k & v & Hv & Hk).
    replace (osub (oadd t o) (potf pot j)) with (oadd (osub t (potf pot i)) (oscale k v)).
    + apply span_add; assumption.
    + rewrite <- Hk. unfold volt. generalize (potf pot i) (potf pot j). intros a b. osolve.
Qed.

Theorem voltage_lattice t : span (voltages pot E) t <-> self_translation E t.
Proof.
  rewrite voltages_eq. split.
  - apply st_span. intros v Hv. apply in_map_iff in Hv. destruct Hv as [[[i j] o] [<- He]].
    apply volt_self_translation. unfold sym. apply in_or_app. left. exact He.
  - intro Ht. pose proof (walk_in_span (0, t) Ht) as H. cbn [fst snd] in H. rewrite potZ_0, osub_self_zero in H. exact H.
Qed.

(* the integer rank of the specification is the rank of ANY generating list of the self-translation lattice *)
Theorem rankZ_is_lattice_rank gens :
  (forall t, span gens t <-> self_translation E t) -> rankZ (voltages pot E) = rank_det gens.
Proof.
  intro Hg. rewrite rankZ_eq_rank_det. apply rank_det_same_lattice.
  - intros v Hv. apply voltage_lattice, Hg, span_gen, Hv.
  - intros v Hv. apply Hg, voltage_lattice, span_gen, Hv.
Qed.
End Lattice.

(* ------------------------------------------------------------------------------------------------------------ *)
(* two networks with the same self-translation lattice have the same integer rank *)
Theorem rankZ_same_self_translations n p E E' :
  wf_E n p E = true -> wf_E n p E' = true -> 0 < n ->
  all_placed (potentials n E) = true -> all_placed (potentials n E') = true ->
  (forall t, self_translation E' t <-> self_translation E t) ->
  rankZ (voltages (potentials n E') E') = rankZ (voltages (potentials n E) E).
Proof.
  intros wf wf' Hn Hp Hp' Hst.
  rewrite (rankZ_is_lattice_rank n p E' wf' Hn Hp' (voltages (potentials n E) E)); [symmetry; apply rankZ_eq_rank_det|].
  intro t. rewrite (voltage_lattice n p E wf Hn Hp). symmetry. apply Hst.
Qed.

(* ... lattice shifts of atoms: ANY shift function (no condition on the shifts) *)
Theorem rankZ_shift n p E s :
  wf_E n p E = true -> wf_E n p (shiftE s E) = true -> 0 < n ->
  all_placed (potentials n E) = true -> all_placed (potentials n (shiftE s E)) = true ->
  rankZ (voltages (potentials n (shiftE s E)) (shiftE s E)) = rankZ (voltages (potentials n E) E).
Proof.
  intros wf wf' Hn Hp Hp'. apply (rankZ_same_self_translations n p); auto.
  intro t. apply self_translation_shift_invariant.
Qed.

(* ------------------------------------------------------------------------------------------------------------ *)
(* change of lattice basis *)
Lemma span_map_lin W vs t : span vs t -> span (map (lin W) vs) (lin W t).
Proof.
  intro H. induction H as [|u k v Hu IH Hv]; [rewrite lin_ozero; constructor|].
  replace (lin W (oadd u (oscale k v))) with (oadd (lin W u) (oscale k (lin W v))).
  - apply span_add; [exact IH | apply in_map; exact Hv].
  - destruct W as [[[[w00 w01] w02] [[w10 w11] w12]] [[w20 w21] w22]]. unfold lin. osolve.
Qed.

Lemma udet_inverse_nonzero W W' : (forall o, lin W' (lin W o) = o) -> udet W <> 0%Z.
Proof.
  intros Hinv E0.
  pose proof (odet_lin W' (lin W e0) (lin W e1) (lin W e2)) as H1.
  rewrite !Hinv in H1.
  pose proof (odet_lin W e0 e1 e2) as H2.
  assert (Hu : odet e0 e1 e2 = 1%Z) by reflexivity.
  rewrite H2, E0, Hu in H1. rewrite Z.mul_0_l, Z.mul_0_r in H1. discriminate.
Qed.

Theorem rankZ_basis n p E W W' :
  (forall o, lin W' (lin W o) = o) -> (forall o, lin W (lin W' o) = o) ->
  wf_E n p E = true -> wf_E n p (basisE W E) = true -> 0 < n ->
  all_placed (potentials n E) = true -> all_placed (potentials n (basisE W E)) = true ->
  rankZ (voltages (potentials n (basisE W E)) (basisE W E)) = rankZ (voltages (potentials n E) E).
Proof.
  intros HW'W HWW' wf wf' Hn Hp Hp'.
  rewrite (rankZ_is_lattice_rank n p (basisE W E) wf' Hn Hp' (map (lin W) (voltages (potentials n E) E))).
  - rewrite rank_det_lin by (apply (udet_inverse_nonzero W W'); exact HW'W). symmetry. apply rankZ_eq_rank_det.
  - intro t'. split.
    + apply st_span. intros v' Hv'. apply in_map_iff in Hv'. destruct Hv' as (v & <- & Hv).
      apply (self_translation_basis W W' HW'W HWW'). exists v. split; [|reflexivity].
      apply (voltage_lattice n p E wf Hn Hp). apply span_gen. exact Hv.
    + intro Hs. apply (self_translation_basis W W' HW'W HWW') in Hs. destruct Hs as (t & Ht & ->).
      apply span_map_lin. apply (voltage_lattice n p E wf Hn Hp). exact Ht.
Qed.

(* ------------------------------------------------------------------------------------------------------------ *)
(* re-numbering of the atoms (the root of the spanning tree becomes another atom) *)
Theorem rankZ_perm n p E pi pi' :
  (forall i, i < n -> pi i < n) -> (forall i, i < n -> pi' i < n) ->
  (forall i, i < n -> pi' (pi i) = i) -> (forall i, i < n -> pi (pi' i) = i) ->
  wf_E n p E = true -> wf_E n p (permE pi E) = true -> 0 < n ->
  all_placed (potentials n E) = true -> all_placed (potentials n (permE pi E)) = true ->
  rankZ (voltages (potentials n (permE pi E)) (permE pi E)) = rankZ (voltages (potentials n E) E).
Proof.
  intros Hr Hr' Hi Hi' wf wf' Hn Hp Hp'.
  apply (rankZ_same_self_translations n p); auto.
  assert (Hc : connectedE n p E) by (apply placed_connected; assumption).
  assert (Hr0 : pi' 0 < n) by (apply Hr'; exact Hn).
  assert (H0 : pi (pi' 0) = 0) by (apply Hi'; exact Hn).
  intro t. rewrite <- (self_translation_root n p Hn E (pi' 0) t wf Hr0 Hc). unfold self_translation. split.
  - intro H. rewrite <- H0 in H at 1.
    destruct (reach_inf_perm_bwd n p pi pi' Hr Hi E (pi' 0, ozero) (0, t) wf Hr0 H) as [_ Hb]. exact Hb.
  - intro H. apply (reach_inf_perm_fwd pi) in H. cbn [fst snd] in H. rewrite H0 in H. exact H.
Qed.

(* ------------------------------------------------------------------------------------------------------------ *)
(* the whole specification (None / GF(2) rank / integer rank) is invariant under the three re-presentations *)
Lemma dim_spec_combine n p E E' :
  wf_E n p E = true -> wf_E n p E' = true -> 0 < n ->
  get_dim_graph n p E' = get_dim_graph n p E ->
  (all_placed (potentials n E) = true -> all_placed (potentials n E') = true ->
   rankZ (voltages (potentials n E') E') = rankZ (voltages (potentials n E) E)) ->
  dim_spec n p E' = dim_spec n p E.
Proof.
  intros wf wf' Hn Hm Hz.
  pose proof (spec_r2_of_mirror n p E E' wf wf' Hn Hm) as H2.
  unfold dim_spec in *.
  destruct (all_placed (potentials n E')) eqn:P', (all_placed (potentials n E)) eqn:P; cbn in H2; try discriminate; [|reflexivity].
  injection H2 as H2. rewrite H2, (Hz eq_refl eq_refl). reflexivity.
Qed.

Theorem dim_spec_shift_invariant n p E s :
  wf_E n p E = true -> 0 < n -> (forall i, okoff p (s i) = true) -> dim_spec n p (shiftE s E) = dim_spec n p E.
Proof.
  intros wf Hn Hs.
  assert (wf' : wf_E n p (shiftE s E) = true) by (apply wf_shiftE; assumption).
  apply dim_spec_combine; auto.
  - apply shift_invariance_mirror; assumption.
  - intros P P'. apply (rankZ_shift n p); assumption.
Qed.

Theorem dim_spec_perm_invariant n p E pi pi' :
  (forall i, i < n -> pi i < n) -> (forall i, i < n -> pi' i < n) ->
  (forall i, i < n -> pi' (pi i) = i) -> (forall i, i < n -> pi (pi' i) = i) ->
  wf_E n p E = true -> 0 < n -> dim_spec n p (permE pi E) = dim_spec n p E.
Proof.
  intros Hr Hr' Hi Hi' wf Hn.
  assert (wf' : wf_E n p (permE pi E) = true) by (apply (wf_permE n p pi Hr); assumption).
  apply dim_spec_combine; auto.
  - apply (permutation_invariance_mirror n p Hn pi pi'); assumption.
  - intros P P'. apply (rankZ_perm n p E pi pi'); assumption.
Qed.

Theorem dim_spec_basis_invariant n p E W W' :
  (forall o, lin W' (lin W o) = o) -> (forall o, lin W (lin W' o) = o) ->
  (forall o, okoff p o = true -> okoff p (lin W o) = true) -> (forall o, okoff p o = true -> okoff p (lin W' o) = true) ->
  wf_E n p E = true -> 0 < n -> dim_spec n p (basisE W E) = dim_spec n p E.
Proof.
  intros HW'W HWW' Hok Hok' wf Hn.
  assert (wf' : wf_E n p (basisE W E) = true) by (apply (wf_basisE n p W E Hok); assumption).
  apply dim_spec_combine; auto.
  - apply (basis_change_invariance_mirror n p Hn W W'); assumption.
  - intros P P'. apply (rankZ_basis n p E W W'); assumption.
Qed.
