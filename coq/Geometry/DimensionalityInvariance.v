(* C09 -- invariance clauses, proved at the level of the discrete bonding data (continuation of
   DimensionalityProofs.v).
   Part 8 : meaning of K: parity masks of the lattice translations that map the bonded network through
            atom 0 to itself (infinite bonded graph on images (i, t)).
   Part 9 : lattice shifts of atoms along periodic axes leave the self-translation lattice, K and the answer of
            the code mirror unchanged ([shift_invariance_mirror]).
   Part 10: rigid motions (orthogonal matrix + translation) leave every image distance unchanged, hence the
            bonded image pairs E themselves ([img_d2_rigid_invariant]).
   Part 11: the answer is determined by connectivity and K ([mirror_determined]); re-numbering of the atoms
            leaves it unchanged ([permutation_invariance_mirror]).
   Part 12: change of lattice basis (offsets transformed by an invertible integer matrix preserving the periodic
            axes) leaves the answer unchanged ([basis_change_invariance_mirror]; metric side [img_d2_basis]).
   Not covered by proof: supercells (tested on generated pairs), and the integer-rank half of dim_spec
   (see C09_invariance_full_statement in DimensionalityProofs.v). *)
From Coq Require Import List Arith Bool ZArith Lia PeanoNat Nsatz.
From MV Require Import Base.Graph Base.Cover Base.ZV3 Geometry.Dimensionality Geometry.DimensionalityProofs.
Import ListNotations.
Local Open Scope nat_scope.

(* ========================================================================================== *)
(* Part 8: meaning of K in the infinite periodic network.  Vertices of the infinite bonded graph are the
   images (i, t) of atom i displaced by the lattice vector t; (i, t) -- (j, t + o) for every bonded image
   pair (i, j, o).  The translations t with (0, 0) ~ (0, t) are the lattice vectors along which the network
   through atom 0 is connected to its own periodic images; K is the set of their parity masks. *)
Inductive reach_inf (E : list ipair) (x : nat * off) : nat * off -> Prop :=
| ri_refl : reach_inf E x x
| ri_step i t j o : reach_inf E x (i, t) -> In (i, j, o) (sym E) -> reach_inf E x (j, oadd t o).

Definition self_translation (E : list ipair) (t : off) : Prop := reach_inf E (0, ozero) (0, t).

Section Infinite.
Variables (n : nat) (p : pbc3) (E : list ipair).
Hypothesis wf : wf_E n p E = true.
Hypothesis n_pos : 0 < n.
Let k := npbc p.
Let lab := lab_of (nbr_tab n p E).
Let R := reach (adj2 n lab) (V2 n k).

Lemma okoff_ozero : okoff p ozero = true.
Proof. destruct p as [[[] []] []]; reflexivity. Qed.

Lemma inf_to_2x i t : reach_inf E (0, ozero) (i, t) ->
  i < n /\ okoff p t = true /\ R (vtx n 0 0) (vtx n (mask p t) i).
Proof.
  intros H. remember (i, t) as y eqn:Hy. revert i t Hy.
  induction H as [|i' t' j o Hr IH Hin]; intros i t Hy.
  - injection Hy as <- <-. split; [assumption|]. split; [apply okoff_ozero|]. rewrite mask_ozero. constructor.
  - injection Hy as <- <-. destruct (IH i' t' eq_refl) as [Hi [Hok HR]].
    destruct (wf_sym n p E wf _ _ _ Hin) as [_ Hj].
    split; [assumption|]. split; [apply okoff_oadd; [assumption | apply (wf_sym_ok n p E wf _ _ _ Hin)]|].
    rewrite mask_oadd. apply (step_edge n p E wf n_pos _ i' j o); [apply mask_bound | assumption | assumption].
Qed.

Lemma x2_to_inf u : R (vtx n 0 0) u ->
  exists t, okoff p t = true /\ mask p t = u / n /\ reach_inf E (0, ozero) (u mod n, t).
Proof.
  intros H. induction H as [|x y Hr IH HyV Hxy].
  - exists ozero. rewrite (vtx_div n k n_pos), (vtx_mod n k n_pos), mask_ozero by assumption.
    split; [apply okoff_ozero|]. split; [reflexivity | constructor].
  - assert (HxV : In x (V2 n k)) by (apply (reach_in_V _ _ _ _ (R00 n p n_pos) Hr)).
    destruct (in_V2_inv n k n_pos x HxV) as [_ [Hxd Hxm]]. destruct (in_V2_inv n k n_pos y HyV) as [_ [Hyd Hym]].
    destruct IH as [t [Hok [Hm Hinf]]].
    unfold adj2 in Hxy. apply orb_true_iff in Hxy. destruct Hxy as [Hxy|Hxy].
    + apply Nat.eqb_eq in Hxy. subst y. exists t. auto.
    + apply lab_of_spec in Hxy; [|assumption]. destruct Hxy as [o [Hin Hmo]].
      exists (oadd t o). split; [apply okoff_oadd; [assumption | apply (wf_sym_ok n p E wf _ _ _ Hin)]|]. split.
      * rewrite mask_oadd, Hm, Hmo. xor_solve.
      * eapply ri_step; eauto.
Qed.

Theorem K_is_parity_of_self_translations a :
  In a (Kset n p E) <-> exists t, okoff p t = true /\ self_translation E t /\ mask p t = a.
Proof.
  rewrite (K_iff n p E n_pos). split.
  - intros [Ha HR]. destruct (x2_to_inf _ HR) as [t [Hok [Hm Hinf]]].
    rewrite (vtx_div n k n_pos), (vtx_mod n k n_pos) in * by assumption.
    exists t. split; [assumption|]. split; [exact Hinf | assumption].
  - intros [t [Hok [Hinf <-]]]. split; [apply mask_bound|].
    destruct (inf_to_2x 0 t Hinf) as [_ [_ HR]]. exact HR.
Qed.
End Infinite.

(* ========================================================================================== *)
(* Part 9: invariance of the answer under lattice shifts of atoms, at the level of the discrete data.
   Shifting atom i by the lattice vector s i turns the bonded image pair (i, j, o) into (i, j, o + s i - s j)
   (img_d2_shift).  The infinite bonded graph is carried to itself by (i, t) |-> (i, t + s i), so the lattice
   of self-translations -- hence K, hence the answer of the code mirror -- is unchanged. *)
Definition shift_pair (s : nat -> off) (e : ipair) : ipair :=
  let '(i, j, o) := e in (i, j, oadd (osub o (s j)) (s i)).
Definition shiftE (s : nat -> off) (E : list ipair) : list ipair := map (shift_pair s) E.

Ltac off_ring :=
  repeat match goal with o : off |- _ => destruct o as [[? ?] ?] end;
  unfold osub, oneg, oadd, ozero;
  first [ reflexivity
        | solve [f_equal; [f_equal|]; ring]
        | match goal with |- (?a, ?b, ?c) = (?a', ?b', ?c') =>
            replace a' with a by ring; replace b' with b by ring; replace c' with c by ring; reflexivity end ].

Lemma oadd_assoc_swap (t c o : off) : oadd (oadd t c) o = oadd (oadd t o) c.
Proof. off_ring. Qed.

Lemma flip_shift s e : flip (shift_pair s e) = shift_pair s (flip e).
Proof.
  destruct e as [[i j] o]. unfold flip, shift_pair. f_equal.
  generalize (s i) (s j). intros a b. off_ring.
Qed.
Lemma sym_shiftE s E : sym (shiftE s E) = shiftE s (sym E).
Proof.
  unfold sym, shiftE. rewrite map_app, !map_map. f_equal. apply map_ext. intros e. apply flip_shift.
Qed.

Lemma reach_inf_translate E c x i t : reach_inf E x (i, t) ->
  reach_inf E (fst x, oadd (snd x) c) (i, oadd t c).
Proof.
  intros H. remember (i, t) as y eqn:Hy. revert i t Hy.
  induction H as [|i' t' j o Hr IH Hin]; intros i t Hy.
  - subst x. simpl. constructor.
  - injection Hy as <- <-. rewrite oadd_assoc_swap. eapply ri_step; [apply IH; reflexivity | assumption].
Qed.

Lemma reach_inf_shift s E x i t : reach_inf (shiftE s E) x (i, t) ->
  reach_inf E (fst x, oadd (snd x) (s (fst x))) (i, oadd t (s i)).
Proof.
  intros H. remember (i, t) as y eqn:Hy. revert i t Hy.
  induction H as [|i' t' j o' Hr IH Hin]; intros i t Hy.
  - subst x. simpl. constructor.
  - injection Hy as <- <-. rewrite sym_shiftE in Hin. unfold shiftE in Hin. apply in_map_iff in Hin.
    destruct Hin as [[[i0 j0] o] [Heq Hin]]. unfold shift_pair in Heq. injection Heq as -> -> <-.
    replace (oadd (oadd t' (oadd (osub o (s j)) (s i'))) (s j)) with (oadd (oadd t' (s i')) o)
      by (generalize (s i') (s j); intros a b; off_ring).
    eapply ri_step; [apply IH; reflexivity | assumption].
Qed.

Lemma shiftE_inverse s E : shiftE (fun i => oneg (s i)) (shiftE s E) = E.
Proof.
  unfold shiftE. rewrite map_map. rewrite <- (map_id E) at 2. apply map_ext. intros [[i j] o].
  unfold shift_pair. f_equal. generalize (s i) (s j). intros a b. off_ring.
Qed.

Theorem self_translation_shift_invariant s E t : self_translation (shiftE s E) t <-> self_translation E t.
Proof.
  assert (Hdir : forall s E t, self_translation (shiftE s E) t -> self_translation E t).
  { clear. intros s E t H. unfold self_translation in *.
    apply reach_inf_shift in H. cbn [fst snd] in H.
    apply (reach_inf_translate E (oneg (s 0))) in H. cbn [fst snd] in H.
    replace (oadd (oadd ozero (s 0)) (oneg (s 0))) with ozero in H by (generalize (s 0); intros a; off_ring).
    replace (oadd (oadd t (s 0)) (oneg (s 0))) with t in H by (generalize (s 0); intros a; off_ring).
    exact H. }
  split; [apply Hdir|]. intros H. apply (Hdir (fun i => oneg (s i))). rewrite shiftE_inverse. exact H.
Qed.

(* the same for reachability of every atom (connectivity of the cell contents) *)
Lemma reach_atom_shift s E i : (exists t, reach_inf (shiftE s E) (0, ozero) (i, t)) -> exists t, reach_inf E (0, ozero) (i, t).
Proof.
  intros [t H]. apply reach_inf_shift in H. cbn [fst snd] in H.
  apply (reach_inf_translate E (oneg (s 0))) in H. cbn [fst snd] in H.
  replace (oadd (oadd ozero (s 0)) (oneg (s 0))) with ozero in H by (generalize (s 0); intros a; off_ring).
  eexists. exact H.
Qed.

Section ShiftMirror.
Variables (n : nat) (p : pbc3) (E : list ipair) (s : nat -> off).
Hypothesis wf : wf_E n p E = true.
Hypothesis n_pos : 0 < n.
Hypothesis s_ok : forall i, okoff p (s i) = true.

Lemma wf_shiftE : wf_E n p (shiftE s E) = true.
Proof.
  unfold wf_E in *. rewrite forallb_forall in *. intros e He. unfold shiftE in He. apply in_map_iff in He.
  destruct He as [[[i j] o] [<- Hin]]. specialize (wf _ Hin). simpl in *. rewrite !andb_true_iff in *.
  destruct wf as [[Hi Hj] Hok]. repeat split; try assumption.
  apply okoff_oadd; [apply okoff_oadd; [assumption | rewrite <- okoff_oneg; apply s_ok] | apply s_ok].
Qed.

(* connectivity of the cell contents in terms of the infinite graph *)
Lemma connected_iff_inf E0 : wf_E n p E0 = true ->
  (connectedE n p E0 <-> forall i, i < n -> exists t, reach_inf E0 (0, ozero) (i, t)).
Proof.
  intros wf0. split.
  - intros Hc i Hi. specialize (Hc 0 i n_pos Hi). clear Hi.
    induction Hc as [|a b Hr IH HbV Hab]; [exists ozero; constructor|].
    destruct IH as [t Ht].
    assert (Ha : a < n).
    { assert (H0 : In 0 (seq 0 n)) by (apply in_seq; simpl; lia).
      pose proof (reach_in_V _ _ _ _ H0 Hr) as Hin. apply in_seq in Hin. simpl in Hin. lia. }
    apply (adj1_of_spec n p E0 a b Ha) in Hab. destruct Hab as [->|[o Ho]]; [exists t; assumption|].
    exists (oadd t o). eapply ri_step; eauto.
  - intros H.
    assert (H0 : forall i, i < n -> reach (adj1_of (nbr_tab n p E0)) (seq 0 n) 0 i).
    { intros i Hi. destruct (H i Hi) as [t Ht]. clear Hi.
      remember (i, t) as y eqn:Hy. revert i t Hy.
      induction Ht as [|i' t' j o Hr IH Hin]; intros i t Hy.
      - injection Hy as <- <-. constructor.
      - injection Hy as <- <-. destruct (wf_sym n p E0 wf0 _ _ _ Hin) as [Hi' Hj].
        eapply reach_step; [apply (IH i' t' eq_refl) | apply in_seq; simpl; lia |].
        apply adj1_of_spec; [assumption|]. right. exists o. assumption. }
    intros i j Hi Hj. apply reach_trans with 0; [|apply H0; assumption].
    assert (Hsym : forall u v, In u (seq 0 n) -> In v (seq 0 n) -> adj1_of (nbr_tab n p E0) u v = adj1_of (nbr_tab n p E0) v u).
    { intros u v Hu Hv. apply in_seq in Hu. apply in_seq in Hv. apply adj1_of_sym; simpl in *; lia. }
    apply (reach_sym _ _ Hsym 0 i); [apply in_seq; simpl; lia | apply H0; assumption].
Qed.

Lemma connected_shift : connectedE n p (shiftE s E) <-> connectedE n p E.
Proof.
  rewrite (connected_iff_inf _ wf_shiftE), (connected_iff_inf _ wf). split; intros H i Hi.
  - apply (reach_atom_shift s). apply H. assumption.
  - apply (reach_atom_shift (fun i => oneg (s i))). rewrite shiftE_inverse. apply H. assumption.
Qed.

Lemma K_shift a : In a (Kset n p (shiftE s E)) <-> In a (Kset n p E).
Proof.
  rewrite (K_is_parity_of_self_translations n p _ wf_shiftE n_pos), (K_is_parity_of_self_translations n p _ wf n_pos).
  split; intros [t [Hok [Hst Hm]]]; exists t; (split; [assumption|]); (split; [|assumption]); apply (self_translation_shift_invariant s E t); assumption.
Qed.

(* the code mirror gives the same answer for the shifted presentation *)
Theorem shift_invariance_mirror : get_dim_graph n p (shiftE s E) = get_dim_graph n p E.
Proof.
  destruct (Nat.eq_dec (npbc p) 0) as [Hk|Hk].
  - (* no periodic axes: None or 0, decided by connectivity *)
    destruct (dim_without_pbc_cases n p (adj1_of (nbr_tab n p E)) (adj2_of n (lab_of (nbr_tab n p E))) Hk) as [HN|HS];
    fold (get_dim_graph n p E) in *.
    + rewrite HN. apply none_iff_not_connected; [apply adj1_of_sym|].
      apply (none_iff_not_connected n p _ _ (adj1_of_sym n p E)) in HN. intros Hc. apply HN. apply connected_shift. exact Hc.
    + rewrite HS. apply dim0_without_pbc_graph; [assumption|]. apply connected_shift.
      destruct (all_placed (potentials n E)) eqn:Ep; [apply placed_connected; assumption|].
      exfalso. pose proof (mirror_eq_spec2 n p E wf n_pos) as Hm. unfold dim_spec in Hm. rewrite Ep, HS in Hm. discriminate.
  - destruct (all_placed (potentials n E)) eqn:Ep.
    + assert (Hc : connectedE n p E) by (apply placed_connected; assumption).
      assert (Hc' : connectedE n p (shiftE s E)) by (apply connected_shift; assumption).
      destruct (formula_is_log2K n p E n_pos) as [d [_ [HK ->]]]; [lia | assumption|].
      destruct (formula_is_log2K n p (shiftE s E) n_pos) as [d' [_ [HK' ->]]]; [lia | assumption|].
      assert (HKeq : length (Kset n p (shiftE s E)) = length (Kset n p E)).
      { apply Nat.le_antisymm; apply NoDup_incl_length; try (unfold Kset, K; apply NoDup_filter, seq_NoDup);
        intros a Ha; apply K_shift; assumption. }
      rewrite HK, HK' in HKeq. apply Nat.pow_inj_r in HKeq; [subst; reflexivity | lia].
    + assert (Hn : ~ connectedE n p E).
      { intros Hc. rewrite (connected_all_placed n p E n_pos Hc) in Ep. discriminate. }
      assert (HN : get_dim_graph n p E = None) by (apply none_iff_not_connected; [apply adj1_of_sym | assumption]).
      rewrite HN. apply none_iff_not_connected; [apply adj1_of_sym|]. intros Hc. apply Hn. apply connected_shift. exact Hc.
Qed.
End ShiftMirror.

Local Open Scope Z_scope.
(* ========================================================================================== *)
(* Part 10: rigid motions.  Applying an orthogonal matrix Q (Q^T Q = 1; rows q1 q2 q3) to the cell vectors and
   the positions, followed by a translation tr, leaves every image distance -- hence the set of bonded image
   pairs, the discrete data E and every answer computed from it -- unchanged. *)
Definition mapply (q1 q2 q3 : v3) (v : v3) : v3 := mk3 (dot q1 v) (dot q2 v) (dot q3 v).
Definition orthogonal (q1 q2 q3 : v3) : Prop :=
  vx q1 * vx q1 + vx q2 * vx q2 + vx q3 * vx q3 = 1 /\
  vy q1 * vy q1 + vy q2 * vy q2 + vy q3 * vy q3 = 1 /\
  vz q1 * vz q1 + vz q2 * vz q2 + vz q3 * vz q3 = 1 /\
  vx q1 * vy q1 + vx q2 * vy q2 + vx q3 * vy q3 = 0 /\
  vx q1 * vz q1 + vx q2 * vz q2 + vx q3 * vz q3 = 0 /\
  vy q1 * vz q1 + vy q2 * vz q2 + vy q3 * vz q3 = 0.

Lemma dot_mapply q1 q2 q3 d : orthogonal q1 q2 q3 -> dot (mapply q1 q2 q3 d) (mapply q1 q2 q3 d) = dot d d.
Proof.
  destruct q1 as [a1 a2 a3], q2 as [b1 b2 b3], q3 as [c1 c2 c3], d as [x y z].
  unfold orthogonal, mapply, dot; cbn [vx vy vz]. intros [H1 [H2 [H3 [H4 [H5 H6]]]]]. nsatz.
Qed.

Theorem img_d2_rigid_invariant q1 q2 q3 tr a b c pos i j o : orthogonal q1 q2 q3 ->
  img_d2 (mapply q1 q2 q3 a) (mapply q1 q2 q3 b) (mapply q1 q2 q3 c)
         (fun i => add (mapply q1 q2 q3 (pos i)) tr) i j o
  = img_d2 a b c pos i j o.
Proof.
  intros HQ. unfold img_d2. destruct o as [[x y] z]. cbv beta.
  rewrite <- (dot_mapply q1 q2 q3 (sub (sub (pos i) (pos j)) (lat a b c x y z)) HQ).
  match goal with |- dot ?d1 ?d1 = dot ?d2 ?d2 => assert (Hd : d1 = d2); [|rewrite Hd; reflexivity] end.
  destruct q1 as [a1 a2 a3], q2 as [b1 b2 b3], q3 as [c1 c2 c3], tr as [t1 t2 t3].
  destruct a as [ax ay az], b as [bx by_ bz], c as [cx cy cz], (pos i) as [ix iy iz], (pos j) as [jx jy jz].
  unfold mapply, lat, sub, add, scale, dot; cbn [vx vy vz]; f_equal; ring.
Qed.

Corollary bonded_rigid_invariant q1 q2 q3 tr a b c pos rad thr i j o : orthogonal q1 q2 q3 ->
  (bonded (mapply q1 q2 q3 a) (mapply q1 q2 q3 b) (mapply q1 q2 q3 c) (fun i => add (mapply q1 q2 q3 (pos i)) tr) rad thr i j o
   <-> bonded a b c pos rad thr i j o).
Proof. intros HQ. unfold bonded. rewrite img_d2_rigid_invariant by assumption. tauto. Qed.

Local Open Scope nat_scope.

(* ========================================================================================== *)
(* Part 11: the answer of the code mirror is determined by connectivity and K; invariance under
   re-numbering of the atoms *)
Lemma reach_inf_trans E x y z : reach_inf E x y -> reach_inf E y z -> reach_inf E x z.
Proof. intros H1 H2. induction H2; [assumption | eapply ri_step; eauto]. Qed.

Lemma reach_inf_sym E x y : reach_inf E x y -> reach_inf E y x.
Proof.
  intros H. induction H as [|i t j o Hr IH Hin]; [constructor|].
  apply reach_inf_trans with (i, t); [|assumption].
  apply sym_flip in Hin. simpl in Hin.
  replace t with (oadd (oadd t o) (oneg o)) at 2 by off_ring.
  eapply ri_step; [constructor | exact Hin].
Qed.

Section Determined.
Variables (n : nat) (p : pbc3).
Hypothesis n_pos : 0 < n.

Lemma mirror_determined E E' : wf_E n p E = true -> wf_E n p E' = true ->
  (connectedE n p E' <-> connectedE n p E) -> (connectedE n p E -> forall a, In a (Kset n p E') <-> In a (Kset n p E)) ->
  get_dim_graph n p E' = get_dim_graph n p E.
Proof.
  intros wf wf' Hconn HKset.
  assert (Hdec : connectedE n p E \/ ~ connectedE n p E).
  { destruct (all_placed (potentials n E)) eqn:Ep; [left; apply placed_connected; assumption|].
    right. intros Hc. rewrite (connected_all_placed n p E n_pos Hc) in Ep. discriminate. }
  destruct Hdec as [Hc|Hn].
  - assert (Hc' : connectedE n p E') by (apply Hconn; assumption).
    destruct (Nat.eq_dec (npbc p) 0) as [Hk|Hk].
    + rewrite !dim0_without_pbc_graph by assumption. reflexivity.
    + destruct (formula_is_log2K n p E n_pos) as [d [_ [HK ->]]]; [lia | assumption|].
      destruct (formula_is_log2K n p E' n_pos) as [d' [_ [HK' ->]]]; [lia | assumption|].
      assert (HKeq : length (Kset n p E') = length (Kset n p E)).
      { apply Nat.le_antisymm; apply NoDup_incl_length; try (unfold Kset, K; apply NoDup_filter, seq_NoDup);
        intros a Ha; apply (HKset Hc); assumption. }
      rewrite HK, HK' in HKeq. apply Nat.pow_inj_r in HKeq; [subst; reflexivity | lia].
  - assert (HN : get_dim_graph n p E = None) by (apply none_iff_not_connected; [apply adj1_of_sym | assumption]).
    rewrite HN. apply none_iff_not_connected; [apply adj1_of_sym|]. intros Hc. apply Hn. apply Hconn. exact Hc.
Qed.

(* connectivity of the cell contents, seen from any root atom of the infinite graph *)
Lemma connected_iff_inf_root E r : wf_E n p E = true -> r < n ->
  (connectedE n p E <-> forall i, i < n -> exists t, reach_inf E (r, ozero) (i, t)).
Proof.
  intros wf Hr. rewrite (connected_iff_inf n p n_pos E wf). split; intros H i Hi.
  - destruct (H r Hr) as [c Hc]. destruct (H i Hi) as [t Ht].
    (* (r,0) ~ (0,-c) ~ (i, t - c) *)
    apply reach_inf_sym in Hc. apply (reach_inf_translate E (oneg c)) in Hc. cbn [fst snd] in Hc.
    apply (reach_inf_translate E (oneg c)) in Ht. cbn [fst snd] in Ht.
    replace (oadd c (oneg c)) with ozero in Hc by off_ring.
    exists (oadd t (oneg c)). eapply reach_inf_trans; eauto.
  - destruct (H 0 n_pos) as [c Hc]. destruct (H i Hi) as [t Ht].
    apply reach_inf_sym in Hc. apply (reach_inf_translate E (oneg c)) in Hc. cbn [fst snd] in Hc.
    apply (reach_inf_translate E (oneg c)) in Ht. cbn [fst snd] in Ht.
    replace (oadd c (oneg c)) with ozero in Hc by off_ring.
    exists (oadd t (oneg c)). eapply reach_inf_trans; eauto.
Qed.

(* in a connected cell the lattice of self-translations does not depend on the root atom *)
Lemma self_translation_root E r t : wf_E n p E = true -> r < n -> connectedE n p E ->
  (reach_inf E (r, ozero) (r, t) <-> self_translation E t).
Proof.
  intros wf Hr Hc. unfold self_translation.
  destruct (proj1 (connected_iff_inf n p n_pos E wf) Hc r Hr) as [c H0r].   (* (0,0) ~ (r,c) *)
  assert (Hr0 : reach_inf E (r, c) (0, ozero)) by (apply reach_inf_sym; assumption).
  split; intros H.
  - (* (0,0) ~ (r,c) ~ (r,t+c) ~ (0,t) *)
    apply (reach_inf_translate E c) in H. cbn [fst snd] in H.
    replace (oadd ozero c) with c in H by off_ring.
    pose proof (reach_inf_translate E t _ _ _ Hr0) as H2. cbn [fst snd] in H2.
    replace (oadd c t) with (oadd t c) in H2 by off_ring. replace (oadd ozero t) with t in H2 by off_ring.
    eapply reach_inf_trans; [exact H0r|]. eapply reach_inf_trans; [exact H | exact H2].
  - (* (r,0) ~ (0,-c) ~ (0,t-c) ~ (r,t) *)
    pose proof (reach_inf_translate E (oneg c) _ _ _ Hr0) as H1. cbn [fst snd] in H1.
    replace (oadd c (oneg c)) with ozero in H1 by off_ring.
    pose proof (reach_inf_translate E (oneg c) _ _ _ H) as H2. cbn [fst snd] in H2.
    pose proof (reach_inf_translate E (oadd t (oneg c)) _ _ _ H0r) as H3. cbn [fst snd] in H3.
    replace (oadd ozero (oadd t (oneg c))) with (oadd t (oneg c)) in H3 by off_ring.
    replace (oadd c (oadd t (oneg c))) with t in H3 by off_ring.
    eapply reach_inf_trans; [exact H1|]. eapply reach_inf_trans; [exact H2 | exact H3].
Qed.

(* ---- re-numbering of atoms ---------------------------------------------------------------- *)
Variables (pi pi' : nat -> nat).
Hypothesis pi_range : forall i, i < n -> pi i < n.
Hypothesis pi'_range : forall i, i < n -> pi' i < n.
Hypothesis pi'_pi : forall i, i < n -> pi' (pi i) = i.
Hypothesis pi_pi' : forall i, i < n -> pi (pi' i) = i.

Definition perm_pair (e : ipair) : ipair := let '(i, j, o) := e in (pi i, pi j, o).
Definition permE (E : list ipair) : list ipair := map perm_pair E.

Lemma sym_permE E : sym (permE E) = permE (sym E).
Proof. unfold sym, permE. rewrite map_app, !map_map. f_equal. apply map_ext. intros [[i j] o]. reflexivity. Qed.

Lemma wf_permE E : wf_E n p E = true -> wf_E n p (permE E) = true.
Proof.
  unfold wf_E. rewrite !forallb_forall. intros wf e He. unfold permE in He. apply in_map_iff in He.
  destruct He as [[[i j] o] [<- Hin]]. specialize (wf _ Hin). simpl in *. rewrite !andb_true_iff, !Nat.ltb_lt in *.
  destruct wf as [[Hi Hj] Hok]. repeat split; auto.
Qed.

Lemma reach_inf_perm_fwd E x y : reach_inf E x y -> reach_inf (permE E) (pi (fst x), snd x) (pi (fst y), snd y).
Proof.
  intros H. induction H as [|i t j o Hr IH Hin]; [constructor|]. cbn [fst snd] in *.
  eapply ri_step; [exact IH|]. rewrite sym_permE. unfold permE. apply in_map_iff. exists (i, j, o). split; [reflexivity | assumption].
Qed.
Lemma reach_inf_perm_bwd E x y : wf_E n p E = true -> fst x < n -> reach_inf (permE E) (pi (fst x), snd x) y ->
  fst y < n /\ reach_inf E x (pi' (fst y), snd y).
Proof.
  intros wf Hx H. remember (pi (fst x), snd x) as x' eqn:Hx'.
  induction H as [|i t j o Hr IH Hin].
  - subst x'. cbn [fst snd]. split; [apply pi_range; assumption|]. rewrite pi'_pi by assumption. destruct x; constructor.
  - cbn [fst snd] in *. destruct IH as [Hi IH].
    rewrite sym_permE in Hin. unfold permE in Hin. apply in_map_iff in Hin. destruct Hin as [[[i0 j0] o0] [Heq Hin]].
    unfold perm_pair in Heq. injection Heq as <- <- <-.
    destruct (wf_sym n p E wf _ _ _ Hin) as [Hi0 Hj0].
    split; [apply pi_range; assumption|]. rewrite pi'_pi in * by assumption.
    eapply ri_step; eauto.
Qed.

Theorem permutation_invariance_mirror E : wf_E n p E = true -> get_dim_graph n p (permE E) = get_dim_graph n p E.
Proof.
  intros wf. pose proof (wf_permE E wf) as wf'.
  set (r := pi' 0). assert (Hr : r < n) by (apply pi'_range; assumption).
  assert (Hpr : pi r = 0) by (apply pi_pi'; assumption).
  assert (Hconn : connectedE n p (permE E) <-> connectedE n p E).
  { rewrite (connected_iff_inf n p n_pos _ wf'), (connected_iff_inf_root E r wf Hr). split; intros H i Hi.
    - destruct (H (pi i) (pi_range i Hi)) as [t Ht].
      destruct (reach_inf_perm_bwd E (r, ozero) (pi i, t) wf Hr) as [_ Hb]; [cbn [fst snd]; rewrite Hpr; exact Ht|].
      cbn [fst snd] in Hb. rewrite pi'_pi in Hb by assumption. exists t. exact Hb.
    - destruct (H (pi' i) (pi'_range i Hi)) as [t Ht]. apply reach_inf_perm_fwd in Ht. cbn [fst snd] in Ht.
      rewrite Hpr, pi_pi' in Ht by assumption. exists t. exact Ht. }
  apply mirror_determined; try assumption.
  intros Hc a. rewrite (K_is_parity_of_self_translations n p _ wf' n_pos), (K_is_parity_of_self_translations n p _ wf n_pos).
  split; intros [t [Hok [Hst Hm]]]; exists t; (split; [assumption|]); (split; [|assumption]).
  - unfold self_translation in Hst. apply (self_translation_root E r t wf Hr Hc).
    destruct (reach_inf_perm_bwd E (r, ozero) (0, t) wf Hr) as [_ Hb]; [cbn [fst snd]; rewrite Hpr; exact Hst|].
    cbn [fst snd] in Hb. exact Hb.
  - apply (self_translation_root E r t wf Hr Hc) in Hst. apply reach_inf_perm_fwd in Hst. cbn [fst snd] in Hst.
    rewrite Hpr in Hst. exact Hst.
Qed.
End Determined.

(* ========================================================================================== *)
(* Part 12: change of lattice basis.  If the new cell vectors are U.(old cell vectors) with U in GL3(Z) (mixing
   periodic axes only), the image r_j + o.cell is r_j + (o.U^-1).cell', i.e. offsets are transformed by the
   integer matrix W = U^-1:  E' = map (i, j, o) |-> (i, j, lin W o). *)
Ltac lin_ring :=
  repeat match goal with W : (off * off * off)%type |- _ => destruct W as [[[[? ?] ?] [[? ?] ?]] [[? ?] ?]] end;
  repeat match goal with o : off |- _ => destruct o as [[? ?] ?] end;
  unfold lin, osub, oneg, oscale, oadd, ozero;
  match goal with |- (?a, ?b, ?c) = (?a', ?b', ?c') =>
    replace a' with a by ring; replace b' with b by ring; replace c' with c by ring; reflexivity end.

Lemma lin_oadd W u v : lin W (oadd u v) = oadd (lin W u) (lin W v). Proof. lin_ring. Qed.
Lemma lin_oneg W u : lin W (oneg u) = oneg (lin W u). Proof. lin_ring. Qed.
Lemma lin_ozero W : lin W ozero = ozero. Proof. lin_ring. Qed.
Lemma lin_double W h : lin W (oscale 2 h) = oscale 2 (lin W h). Proof. lin_ring. Qed.

Lemma mirror_determined_len n p : 0 < n -> forall E E', wf_E n p E = true -> wf_E n p E' = true ->
  (connectedE n p E' <-> connectedE n p E) -> (connectedE n p E -> length (Kset n p E') = length (Kset n p E)) ->
  get_dim_graph n p E' = get_dim_graph n p E.
Proof.
  intros n_pos E E' wf wf' Hconn HKlen.
  assert (Hdec : connectedE n p E \/ ~ connectedE n p E).
  { destruct (all_placed (potentials n E)) eqn:Ep; [left; apply placed_connected; assumption|].
    right. intros Hc. rewrite (connected_all_placed n p E n_pos Hc) in Ep. discriminate. }
  destruct Hdec as [Hc|Hn].
  - assert (Hc' : connectedE n p E') by (apply Hconn; assumption).
    destruct (Nat.eq_dec (npbc p) 0) as [Hk|Hk].
    + rewrite !dim0_without_pbc_graph by assumption. reflexivity.
    + destruct (formula_is_log2K n p E n_pos) as [d [_ [HK ->]]]; [lia | assumption|].
      destruct (formula_is_log2K n p E' n_pos) as [d' [_ [HK' ->]]]; [lia | assumption|].
      specialize (HKlen Hc). rewrite HK, HK' in HKlen. apply Nat.pow_inj_r in HKlen; [subst; reflexivity | lia].
  - assert (HN : get_dim_graph n p E = None) by (apply none_iff_not_connected; [apply adj1_of_sym | assumption]).
    rewrite HN. apply none_iff_not_connected; [apply adj1_of_sym|]. intros Hc. apply Hn. apply Hconn. exact Hc.
Qed.

(* parity bookkeeping *)
Lemma unmaskb_maskb p m : unmaskb p (maskb p m) = pmask p m.
Proof. destruct p as [[[] []] []], m as [[[] []] []]; reflexivity. Qed.
Lemma okoff_unmask p a : okoff p (unmask p a) = true.
Proof.
  rewrite unmask_zb3. rewrite <- unmaskb_pmask. destruct (unmaskb p a) as [[b0 b1] b2].
  destruct p as [[[] []] []], b0, b1, b2; reflexivity.
Qed.
Lemma mask_unmask_fin : forallb (fun p => forallb (fun a => (mask p (unmask p a) =? a)) (seq 0 (2 ^ npbc p))) all_b3 = true.
Proof. vm_compute. reflexivity. Qed.
Lemma mask_unmask p a : a < 2 ^ npbc p -> mask p (unmask p a) = a.
Proof.
  intros Ha. pose proof mask_unmask_fin as H. rewrite forallb_forall in H. specialize (H p (all_b3_complete p)).
  rewrite forallb_forall in H. apply Nat.eqb_eq. apply H. apply in_seq. simpl. lia.
Qed.
(* every admissible offset is its parity representative plus twice something *)
Lemma off_decompose p t : okoff p t = true -> exists h, t = oadd (unmask p (mask p t)) (oscale 2 h).
Proof.
  intros Hok. unfold mask. rewrite unmask_zb3, unmaskb_maskb.
  destruct t as [[x y] z], p as [[p0 p1] p2]. unfold okoff in Hok. rewrite !andb_true_iff, !orb_true_iff, !Z.eqb_eq in Hok.
  destruct Hok as [[H0 H1] H2]. unfold parity, pmask, zb3.
  assert (Hc : forall (pb : bool) (v : Z), (pb = true \/ v = 0%Z) -> exists h, v = (zb (pb && Z.odd v) + 2 * h)%Z).
  { intros pb v [-> | ->]; cbn [andb].
    - destruct (Z.odd v) eqn:Ev.
      + destruct (even_half (v - 1)) as [h Hh]; [rewrite Z.odd_sub, Ev; reflexivity|]. exists h. unfold zb. lia.
      + destruct (even_half v Ev) as [h Hh]. exists h. unfold zb. lia.
    - exists 0%Z. rewrite andb_false_r. reflexivity. }
  destruct (Hc p0 x H0) as [h0 E0]. destruct (Hc p1 y H1) as [h1 E1]. destruct (Hc p2 z H2) as [h2 E2].
  exists (h0, h1, h2). unfold oadd, oscale. rewrite <- E0, <- E1, <- E2. reflexivity.
Qed.
Lemma mask_add_double p u h : mask p (oadd u (oscale 2 h)) = mask p u.
Proof.
  destruct u as [[x y] z], h as [[a b] c]. unfold mask, parity, oadd, oscale. rewrite !Z.odd_add_mul_2. reflexivity.
Qed.

Section Basis.
Variables (n : nat) (p : pbc3).
Hypothesis n_pos : 0 < n.
Variables (W W' : off * off * off).
Hypothesis W'_W : forall o, lin W' (lin W o) = o.
Hypothesis W_W' : forall o, lin W (lin W' o) = o.
Hypothesis W_ok : forall o, okoff p o = true -> okoff p (lin W o) = true.
Hypothesis W'_ok : forall o, okoff p o = true -> okoff p (lin W' o) = true.

Definition basis_pair (M : off * off * off) (e : ipair) : ipair := let '(i, j, o) := e in (i, j, lin M o).
Definition basisE (M : off * off * off) (E : list ipair) : list ipair := map (basis_pair M) E.

Lemma sym_basisE M E : sym (basisE M E) = basisE M (sym E).
Proof.
  unfold sym, basisE. rewrite map_app, !map_map. f_equal. apply map_ext. intros [[i j] o].
  unfold flip, basis_pair. rewrite lin_oneg. reflexivity.
Qed.
Lemma basisE_inverse E : basisE W' (basisE W E) = E.
Proof.
  unfold basisE. rewrite map_map. rewrite <- (map_id E) at 2. apply map_ext. intros [[i j] o].
  unfold basis_pair. rewrite W'_W. reflexivity.
Qed.
Lemma wf_basisE M E : (forall o, okoff p o = true -> okoff p (lin M o) = true) -> wf_E n p E = true -> wf_E n p (basisE M E) = true.
Proof.
  intros HM. unfold wf_E. rewrite !forallb_forall. intros wf e He. unfold basisE in He. apply in_map_iff in He.
  destruct He as [[[i j] o] [<- Hin]]. specialize (wf _ Hin). simpl in *. rewrite !andb_true_iff in *.
  destruct wf as [[Hi Hj] Hok]. repeat split; auto.
Qed.

Lemma reach_inf_basis M E x y : reach_inf E x y -> reach_inf (basisE M E) (fst x, lin M (snd x)) (fst y, lin M (snd y)).
Proof.
  intros H. induction H as [|i t j o Hr IH Hin]; [constructor|]. cbn [fst snd] in *. rewrite lin_oadd.
  eapply ri_step; [exact IH|]. rewrite sym_basisE. unfold basisE. apply in_map_iff. exists (i, j, o). split; [reflexivity | assumption].
Qed.

Lemma self_translation_basis E t' :
  self_translation (basisE W E) t' <-> exists t, self_translation E t /\ t' = lin W t.
Proof.
  unfold self_translation. split.
  - intros H. apply (reach_inf_basis W') in H. cbn [fst snd] in H. rewrite basisE_inverse, lin_ozero in H.
    exists (lin W' t'). split; [exact H | rewrite W_W'; reflexivity].
  - intros [t [H ->]]. apply (reach_inf_basis W) in H. cbn [fst snd] in H. rewrite lin_ozero in H. exact H.
Qed.

Definition fmask (M : off * off * off) (a : nat) : nat := mask p (lin M (unmask p a)).
Lemma mask_lin M t : okoff p t = true -> mask p (lin M t) = fmask M (mask p t).
Proof.
  intros Hok. destruct (off_decompose p t Hok) as [h Hh]. unfold fmask. rewrite Hh at 1.
  rewrite lin_oadd, lin_double, mask_add_double. reflexivity.
Qed.
Lemma fmask_inv a : a < 2 ^ npbc p -> fmask W' (fmask W a) = a.
Proof.
  intros Ha. unfold fmask at 2. rewrite <- mask_lin by (apply W_ok, okoff_unmask).
  rewrite W'_W. apply mask_unmask. assumption.
Qed.

Lemma NoDup_map_inj_on {A B} (f : A -> B) l : (forall x y, In x l -> In y l -> f x = f y -> x = y) -> NoDup l -> NoDup (map f l).
Proof.
  intros Hinj Hnd. induction Hnd as [|a l Hna Hnd IH]; simpl; constructor.
  - intros Hin. apply in_map_iff in Hin. destruct Hin as [b [Hb Hbl]]. apply Hna.
    assert (Hab : a = b) by (apply Hinj; [left; reflexivity | right; assumption | symmetry; assumption]).
    subst b. assumption.
  - apply IH. intros x y Hx Hy. apply Hinj; right; assumption.
Qed.

Theorem basis_change_invariance_mirror E : wf_E n p E = true -> get_dim_graph n p (basisE W E) = get_dim_graph n p E.
Proof.
  intros wf. pose proof (wf_basisE W E W_ok wf) as wf'.
  apply mirror_determined_len; try assumption.
  - rewrite (connected_iff_inf n p n_pos _ wf'), (connected_iff_inf n p n_pos _ wf). split; intros H i Hi.
    + destruct (H i Hi) as [t Ht]. apply (reach_inf_basis W') in Ht. cbn [fst snd] in Ht. rewrite basisE_inverse, lin_ozero in Ht.
      eexists. exact Ht.
    + destruct (H i Hi) as [t Ht]. apply (reach_inf_basis W) in Ht. cbn [fst snd] in Ht. rewrite lin_ozero in Ht.
      eexists. exact Ht.
  - intros _.
    assert (Hfwd : forall M E1 E2, wf_E n p E1 = true -> wf_E n p E2 = true ->
              (forall o, okoff p o = true -> okoff p (lin M o) = true) ->
              (forall t, self_translation E1 t -> self_translation E2 (lin M t)) ->
              forall a, In a (Kset n p E1) -> In (fmask M a) (Kset n p E2)).
    { intros M E1 E2 wf1 wf2 HM Hst a Ha.
      apply (K_is_parity_of_self_translations n p _ wf1 n_pos) in Ha. destruct Ha as [t [Hok [Ht <-]]].
      apply (K_is_parity_of_self_translations n p _ wf2 n_pos). exists (lin M t).
      split; [apply HM; assumption|]. split; [apply Hst; assumption | apply mask_lin; assumption]. }
    assert (HKb : forall a, In a (Kset n p E) -> a < 2 ^ npbc p).
    { intros a Ha. unfold Kset, K in Ha. apply filter_In in Ha. destruct Ha as [Ha _]. apply in_seq in Ha. simpl in Ha. lia. }
    assert (HKb' : forall a, In a (Kset n p (basisE W E)) -> a < 2 ^ npbc p).
    { intros a Ha. unfold Kset, K in Ha. apply filter_In in Ha. destruct Ha as [Ha _]. apply in_seq in Ha. simpl in Ha. lia. }
    assert (HndK : forall E0, NoDup (Kset n p E0)) by (intros E0; unfold Kset, K; apply NoDup_filter, seq_NoDup).
    apply Nat.le_antisymm.
    + (* |K'| <= |K| via fmask W' *)
      rewrite <- (map_length (fmask W') (Kset n p (basisE W E))). apply NoDup_incl_length.
      * apply NoDup_map_inj_on; [|apply HndK]. intros x y Hx Hy Hxy.
        assert (Hinv : forall a, a < 2 ^ npbc p -> fmask W (fmask W' a) = a).
        { intros a Ha. unfold fmask at 2. rewrite <- mask_lin by (apply W'_ok, okoff_unmask). rewrite W_W'. apply mask_unmask. assumption. }
        rewrite <- (Hinv x (HKb' x Hx)), <- (Hinv y (HKb' y Hy)), Hxy. reflexivity.
      * intros b Hb. apply in_map_iff in Hb. destruct Hb as [a [<- Ha]].
        apply (Hfwd W' (basisE W E) E wf' wf W'_ok); [|assumption].
        intros t Ht. apply self_translation_basis in Ht. destruct Ht as [t0 [Ht0 ->]]. rewrite W'_W. assumption.
    + rewrite <- (map_length (fmask W) (Kset n p E)). apply NoDup_incl_length.
      * apply NoDup_map_inj_on; [|apply HndK]. intros x y Hx Hy Hxy.
        rewrite <- (fmask_inv x (HKb x Hx)), <- (fmask_inv y (HKb y Hy)), Hxy. reflexivity.
      * intros b Hb. apply in_map_iff in Hb. destruct Hb as [a [<- Ha]].
        apply (Hfwd W E (basisE W E) wf wf' W_ok); [|assumption].
        intros t Ht. apply self_translation_basis. exists t. split; [assumption | reflexivity].
Qed.
End Basis.

(* metric side of the basis change: with new cell vectors a' = U0.cell, b' = U1.cell, c' = U2.cell (rows U0 U1 U2 of an
   integer matrix U) the image of atom j at offset o' is its image at offset lin U o' in the old basis, so the bonded
   image pairs of the new presentation are those of the old one transformed by W = U^-1 *)
Lemma img_d2_basis a b c pos (U : off * off * off) i j o' :
  let '(r0, r1, r2) := U in
  img_d2 (let '(x, y, z) := r0 in lat a b c x y z) (let '(x, y, z) := r1 in lat a b c x y z)
         (let '(x, y, z) := r2 in lat a b c x y z) pos i j o'
  = img_d2 a b c pos i j (lin U o').
Proof.
  destruct U as [[[[u00 u01] u02] [[u10 u11] u12]] [[u20 u21] u22]]. destruct o' as [[x y] z].
  unfold img_d2, lin, oscale, oadd.
  match goal with |- dot ?d1 ?d1 = dot ?d2 ?d2 => assert (Hd : d1 = d2); [|rewrite Hd; reflexivity] end.
  destruct a as [ax ay az], b as [bx by_ bz], c as [cx cy cz], (pos i) as [ix iy iz], (pos j) as [jx jy jz].
  unfold lat, sub, add, scale; cbn [ZV3.vx ZV3.vy ZV3.vz]; f_equal; ring.
Qed.
