(* C09 -- the fraction-free elimination [rankZ] of the specification COMPUTES the determinantal rank [rank_det].

   [elimZ (k :: cs) vs] looks for a pivot p in vs with a non-zero k-th coordinate; when there is none it moves on, otherwise it
   replaces every v by  v' = p_k v - v_k p  and counts one.  With such a pivot (p in vs, p_k <> 0):

       v' = 0                  <->  p x v = 0                       (so  R1 vs'  <->  R2 vs)
       (u' x v')               =    p_k * det(p, u, v) * e_k        (so  R2 vs'  <->  R3 vs, by the exchange lemma)
       det(u', v', w') = 0                                          (all of vs' lies in the plane x_k = 0)

   hence rank_det vs = 1 + rank_det vs'.  Induction over the column list (invariant: coordinates of columns already
   treated vanish on the whole list) gives  rankZ vs = rank_det vs  for EVERY list of integer vectors -- the run-time
   comparison [rankZ_consistent] of the correspondence is therefore always true, and every invariance theorem of
   RankDet.v holds for the number the specification computes. *)
From Coq Require Import List ZArith Bool Lia Permutation.
From MV Require Import Geometry.Dimensionality Geometry.DimensionalityProofs Geometry.RankDet.
Import ListNotations.
Local Open Scope Z_scope.

Definition estep (k : nat) (p v : off) : off := osub (oscale (coord k p) v) (oscale (coord k v) p).

Lemma off_eq (a b c x y z : Z) : (a, b, c) = (x, y, z) <-> a = x /\ b = y /\ c = z.
Proof. split; [intro H; inversion H; auto | intros (-> & -> & ->); reflexivity]. Qed.

Lemma ozero_iff (a b c : Z) : (a, b, c) = ozero <-> a = 0 /\ b = 0 /\ c = 0.
Proof. unfold ozero. apply off_eq. Qed.

(* -------------------------------------------------------------------------------------------------------- *)
(* the three algebraic facts, for each of the three columns *)

Lemma estep_coord k p v : coord k (estep k p v) = 0.
Proof.
  destruct p as [[p0 p1] p2], v as [[v0 v1] v2].
  destruct k as [|[|k]]; unfold estep, osub, oadd, oneg, oscale, coord; cbn; ring.
Qed.

(* a coordinate that vanishes on p and on v vanishes on the step *)
Lemma estep_keeps_zero k j p v : coord j p = 0 -> coord j v = 0 -> coord j (estep k p v) = 0.
Proof.
  destruct p as [[p0 p1] p2], v as [[v0 v1] v2].
  destruct j as [|[|j]]; destruct k as [|[|k]]; unfold estep, osub, oadd, oneg, oscale, coord; cbn; intros -> ->; ring.
Qed.

Lemma mul_cancel_l p x : p <> 0 -> p * x = 0 -> x = 0.
Proof. intros Hp H. apply Z.mul_eq_0 in H. destruct H; [contradiction | assumption]. Qed.

Lemma estep_zero_iff k p v : coord k p <> 0 -> (estep k p v = ozero <-> ocross p v = ozero).
Proof.
  destruct p as [[p0 p1] p2], v as [[v0 v1] v2].
  destruct k as [|[|k]]; unfold estep, osub, oadd, oneg, oscale, coord, ocross; cbn; intro Hp;
    rewrite !ozero_iff; split; intros (H1 & H2 & H3).
  - repeat split; [|lia|lia].
    apply (mul_cancel_l p0); [exact Hp|].
    replace (p0 * (p1 * v2 - p2 * v1)) with (p1 * (p0 * v2 + - (v0 * p2)) - p2 * (p0 * v1 + - (v0 * p1))) by ring.
    rewrite H2, H3. ring.
  - repeat split; lia.
  - repeat split; [lia| |lia].
    apply (mul_cancel_l p1); [exact Hp|].
    replace (p1 * (p2 * v0 - p0 * v2)) with (p2 * (p1 * v0 + - (v1 * p0)) - p0 * (p1 * v2 + - (v1 * p2))) by ring.
    rewrite H1, H3. ring.
  - repeat split; lia.
  - repeat split; [lia|lia|].
    apply (mul_cancel_l p2); [exact Hp|].
    replace (p2 * (p0 * v1 - p1 * v0)) with (p0 * (p2 * v1 + - (v2 * p1)) - p1 * (p2 * v0 + - (v2 * p0))) by ring.
    rewrite H1, H2. ring.
  - repeat split; lia.
Qed.

(* the cross product of two steps is  p_k * det(p, u, v)  along e_k, zero elsewhere *)
Lemma estep_cross k p u v :
  ocross (estep k p u) (estep k p v) = oscale (coord k p * odet p u v) (match k with 0%nat => e0 | 1%nat => e1 | _ => e2 end).
Proof.
  destruct p as [[p0 p1] p2], u as [[u0 u1] u2], v as [[v0 v1] v2].
  destruct k as [|[|k]]; unfold estep, osub, oadd, oneg, oscale, coord, ocross, odet, odot, e0, e1, e2; cbn;
    apply off_eq; repeat split; ring.
Qed.

Lemma estep_cross_zero_iff k p u v : coord k p <> 0 -> (ocross (estep k p u) (estep k p v) = ozero <-> odet p u v = 0).
Proof.
  intro Hp. rewrite estep_cross.
  destruct k as [|[|k]]; unfold oscale, e0, e1, e2; rewrite ozero_iff; split.
  all: try (intros (H1 & H2 & H3); nia).
  all: intros ->; repeat split; ring.
Qed.

Lemma odet_zero_coord k u v w : coord k u = 0 -> coord k v = 0 -> coord k w = 0 -> odet u v w = 0.
Proof.
  destruct u as [[u0 u1] u2], v as [[v0 v1] v2], w as [[w0 w1] w2].
  destruct k as [|[|k]]; unfold coord, odet, odot, ocross; cbn; intros -> -> ->; ring.
Qed.

(* -------------------------------------------------------------------------------------------------------- *)
(* exchange lemmas *)

(* Cramer: det(u,v,w) * p = det(p,v,w) u + det(u,p,w) v + det(u,v,p) w *)
Lemma cramer u v w p :
  oscale (odet u v w) p = oadd (oadd (oscale (odet p v w) u) (oscale (odet u p w) v)) (oscale (odet u v p) w).
Proof.
  destruct u as [[u0 u1] u2], v as [[v0 v1] v2], w as [[w0 w1] w2], p as [[p0 p1] p2].
  unfold oscale, oadd, odet, odot, ocross. apply off_eq. repeat split; ring.
Qed.

Lemma oscale_zero_inv k p : oscale k p = ozero -> k <> 0 -> p = ozero.
Proof.
  destruct p as [[p0 p1] p2]. unfold oscale. rewrite !ozero_iff. intros (H1 & H2 & H3) Hk. repeat split; nia.
Qed.

Lemma odet_swap12 u v w : odet u v w = - odet v u w.
Proof.
  destruct u as [[u0 u1] u2], v as [[v0 v1] v2], w as [[w0 w1] w2]. unfold odet, odot, ocross. ring.
Qed.
Lemma odet_rot u v w : odet u v w = odet v w u.
Proof.
  destruct u as [[u0 u1] u2], v as [[v0 v1] v2], w as [[w0 w1] w2]. unfold odet, odot, ocross. ring.
Qed.

(* a non-zero vector can replace one member of an independent triple *)
Lemma exchange3 u v w p : odet u v w <> 0 -> p <> ozero -> odet p v w <> 0 \/ odet p u w <> 0 \/ odet p u v <> 0.
Proof.
  intros Hd Hp.
  destruct (Z.eq_dec (odet p v w) 0) as [E1|]; [|left; assumption].
  destruct (Z.eq_dec (odet p u w) 0) as [E2|]; [|right; left; assumption].
  destruct (Z.eq_dec (odet p u v) 0) as [E3|]; [|right; right; assumption].
  exfalso. apply Hp. apply (oscale_zero_inv (odet u v w)); [|exact Hd].
  rewrite cramer.
  assert (F2 : odet u p w = 0) by (rewrite odet_swap12, E2; reflexivity).
  assert (F3 : odet u v p = 0) by (rewrite <- odet_rot, E3; reflexivity).
  rewrite E1, F2, F3.
  destruct u as [[u0 u1] u2], v as [[v0 v1] v2], w as [[w0 w1] w2]. unfold oscale, oadd, ozero. apply off_eq. repeat split; ring.
Qed.

(* two vectors both parallel to a non-zero p are parallel *)
Lemma par_helper p0 p1 p2 u0 u1 u2 v0 v1 v2 :
  p0 <> 0 ->
  p1 * u2 - p2 * u1 = 0 -> p2 * u0 - p0 * u2 = 0 -> p0 * u1 - p1 * u0 = 0 ->
  p1 * v2 - p2 * v1 = 0 -> p2 * v0 - p0 * v2 = 0 -> p0 * v1 - p1 * v0 = 0 ->
  u1 * v2 - u2 * v1 = 0 /\ u2 * v0 - u0 * v2 = 0 /\ u0 * v1 - u1 * v0 = 0.
Proof.
  intros Hp A1 A2 A3 B1 B2 B3.
  assert (U1 : p0 * u1 = p1 * u0) by lia. assert (U2 : p0 * u2 = p2 * u0) by lia.
  assert (V1 : p0 * v1 = p1 * v0) by lia. assert (V2 : p0 * v2 = p2 * v0) by lia.
  repeat split.
  - apply (mul_cancel_l p0 _ Hp). apply (mul_cancel_l p0 _ Hp).
    replace (p0 * (p0 * (u1 * v2 - u2 * v1))) with ((p0 * u1) * (p0 * v2) - (p0 * u2) * (p0 * v1)) by ring.
    rewrite U1, U2, V1, V2. ring.
  - apply (mul_cancel_l p0 _ Hp).
    replace (p0 * (u2 * v0 - u0 * v2)) with ((p0 * u2) * v0 - u0 * (p0 * v2)) by ring.
    rewrite U2, V2. ring.
  - apply (mul_cancel_l p0 _ Hp).
    replace (p0 * (u0 * v1 - u1 * v0)) with (u0 * (p0 * v1) - (p0 * u1) * v0) by ring.
    rewrite U1, V1. ring.
Qed.

Lemma exchange2 p u v : p <> ozero -> ocross p u = ozero -> ocross p v = ozero -> ocross u v = ozero.
Proof.
  destruct p as [[p0 p1] p2], u as [[u0 u1] u2], v as [[v0 v1] v2]. unfold ocross. rewrite !ozero_iff.
  intros Hp (A1 & A2 & A3) (B1 & B2 & B3).
  assert (Hnz : p0 <> 0 \/ p1 <> 0 \/ p2 <> 0).
  { destruct (Z.eq_dec p0 0) as [->|]; [|tauto]. destruct (Z.eq_dec p1 0) as [->|]; [|tauto].
    destruct (Z.eq_dec p2 0) as [->|]; [|tauto]. exfalso. apply Hp. repeat split; reflexivity. }
  destruct Hnz as [H|[H|H]].
  - exact (par_helper p0 p1 p2 u0 u1 u2 v0 v1 v2 H A1 A2 A3 B1 B2 B3).
  - destruct (par_helper p1 p2 p0 u1 u2 u0 v1 v2 v0 H A2 A3 A1 B2 B3 B1) as (C1 & C2 & C3). repeat split; assumption.
  - destruct (par_helper p2 p0 p1 u2 u0 u1 v2 v0 v1 H A3 A1 A2 B3 B1 B2) as (C1 & C2 & C3). repeat split; assumption.
Qed.

Lemma coord_nz k p : coord k p <> 0 -> p <> ozero.
Proof.
  intros H E. subst p. apply H. destruct k as [|[|k]]; reflexivity.
Qed.

Lemma ocross_self p : ocross p p = ozero.
Proof. destruct p as [[p0 p1] p2]. unfold ocross, ozero. apply off_eq. repeat split; ring. Qed.

Lemma ocross_anti u v : ocross u v = ozero -> ocross v u = ozero.
Proof.
  destruct u as [[u0 u1] u2], v as [[v0 v1] v2]. unfold ocross. rewrite !ozero_iff. intros (A & B & C). repeat split; lia.
Qed.

(* -------------------------------------------------------------------------------------------------------- *)
(* one elimination step lowers the determinantal rank by exactly one *)
Section Step.
Variables (k : nat) (p : off) (vs : list off).
Hypothesis Hin : In p vs.
Hypothesis Hp : coord k p <> 0.
Let vs' := map (estep k p) vs.

Lemma step_R1 : R1 vs' <-> R2 vs.
Proof.
  unfold vs'. split.
  - intros (u' & Hu' & Hnz). apply in_map_iff in Hu'. destruct Hu' as (u & <- & Hu).
    exists p, u. repeat split; auto. intro E. apply Hnz. apply estep_zero_iff; assumption.
  - intros (u & v & Hu & Hv & Hc).
    destruct (dec_R1 (map (estep k p) vs)) as [H|H]; [exact H|]. exfalso. apply Hc.
    apply (exchange2 p); [apply (coord_nz k); exact Hp | |].
    + apply (estep_zero_iff k); [exact Hp|].
      destruct (oeqb (estep k p u) ozero) eqn:E; [apply oeqb_eq; exact E|].
      exfalso. apply H. exists (estep k p u). split; [apply in_map; exact Hu|]. intro E'. apply oeqb_eq in E'. congruence.
    + apply (estep_zero_iff k); [exact Hp|].
      destruct (oeqb (estep k p v) ozero) eqn:E; [apply oeqb_eq; exact E|].
      exfalso. apply H. exists (estep k p v). split; [apply in_map; exact Hv|]. intro E'. apply oeqb_eq in E'. congruence.
Qed.

Lemma step_R2 : R2 vs' <-> R3 vs.
Proof.
  unfold vs'. split.
  - intros (u' & v' & Hu' & Hv' & Hnz). apply in_map_iff in Hu'. destruct Hu' as (u & <- & Hu).
    apply in_map_iff in Hv'. destruct Hv' as (v & <- & Hv).
    exists p, u, v. repeat split; auto. intro E. apply Hnz. apply estep_cross_zero_iff; assumption.
  - intros (u & v & w & Hu & Hv & Hw & Hd).
    assert (Hx : exists a b, In a vs /\ In b vs /\ odet p a b <> 0).
    { destruct (exchange3 u v w p Hd (coord_nz k p Hp)) as [H|[H|H]]; eauto 8. }
    destruct Hx as (a & b & Ha & Hb & Hab).
    exists (estep k p a), (estep k p b). repeat split; try (apply in_map; assumption).
    intro E. apply Hab. apply (estep_cross_zero_iff k p a b Hp). exact E.
Qed.

Lemma step_not_R3 : ~ R3 vs'.
Proof.
  unfold vs'. intros (u' & v' & w' & Hu' & Hv' & Hw' & Hd).
  apply in_map_iff in Hu'. destruct Hu' as (u & <- & Hu).
  apply in_map_iff in Hv'. destruct Hv' as (v & <- & Hv).
  apply in_map_iff in Hw'. destruct Hw' as (w & <- & Hw).
  apply Hd. apply (odet_zero_coord k); apply estep_coord.
Qed.

Lemma step_R1_old : R1 vs.
Proof. exists p. split; [exact Hin | apply (coord_nz k); exact Hp]. Qed.

Lemma rank_det_step : rank_det vs = S (rank_det vs').
Proof.
  unfold rank_det.
  assert (N3 : r3b vs' = false).
  { destruct (r3b vs') eqn:E; [|reflexivity]. apply r3b_iff in E. exfalso. exact (step_not_R3 E). }
  rewrite N3.
  assert (E3 : r3b vs = r2b vs') by (apply bool_ext; rewrite r3b_iff, r2b_iff; symmetry; exact step_R2).
  assert (E2 : r2b vs = r1b vs') by (apply bool_ext; rewrite r2b_iff, r1b_iff; symmetry; exact step_R1).
  assert (E1 : r1b vs = true) by (apply r1b_iff; exact step_R1_old).
  rewrite E3, E2, E1.
  destruct (r2b vs') eqn:A.
  - reflexivity.
  - destruct (r1b vs'); reflexivity.
Qed.
End Step.

(* -------------------------------------------------------------------------------------------------------- *)
(* induction over the columns *)

(* every coordinate outside cs vanishes on the whole list *)
Definition flat (cs : list nat) (vs : list off) : Prop :=
  forall v j, In v vs -> (j < 3)%nat -> ~ In j cs -> coord j v = 0.

Lemma find_none_all {A} (f : A -> bool) l : find f l = None -> forall x, In x l -> f x = false.
Proof.
  induction l as [|a l IH]; cbn; [intros _ x []|].
  destruct (f a) eqn:E; [discriminate|]. intros H x [<-|Hx]; auto.
Qed.

Lemma flat_nil_rank vs : flat [] vs -> rank_det vs = 0%nat.
Proof.
  intro H.
  assert (Z0 : forall v, In v vs -> v = ozero).
  { intros [[a b] c] Hv. pose proof (H _ 0%nat Hv ltac:(lia) ltac:(intros [])) as H0.
    pose proof (H _ 1%nat Hv ltac:(lia) ltac:(intros [])) as H1.
    pose proof (H _ 2%nat Hv ltac:(lia) ltac:(intros [])) as H2. cbn in H0, H1, H2. subst. reflexivity. }
  unfold rank_det.
  assert (N1 : r1b vs = false).
  { destruct (r1b vs) eqn:E; [|reflexivity]. apply r1b_iff in E. destruct E as (u & Hu & Hn). exfalso. apply Hn. apply Z0. exact Hu. }
  assert (N2 : r2b vs = false).
  { destruct (r2b vs) eqn:E; [|reflexivity]. apply r2b_iff in E. destruct E as (u & v & Hu & Hv & Hn). exfalso. apply Hn.
    rewrite (Z0 u Hu). apply ocross_zero_l. }
  assert (N3 : r3b vs = false).
  { destruct (r3b vs) eqn:E; [|reflexivity]. apply r3b_iff in E. destruct E as (u & v & w & Hu & Hv & Hw & Hn). exfalso. apply Hn.
    rewrite (Z0 u Hu). apply odet_zero_1. }
  rewrite N3, N2, N1. reflexivity.
Qed.

Theorem elimZ_rank_det cs vs : (forall k, In k cs -> (k < 3)%nat) -> flat cs vs -> elimZ cs vs = rank_det vs.
Proof.
  revert vs. induction cs as [|k cs IH]; intros vs Hcs Hflat.
  - cbn. symmetry. apply flat_nil_rank. exact Hflat.
  - cbn [elimZ].
    destruct (find (fun v => negb (coord k v =? 0)) vs) as [pv|] eqn:F.
    + apply find_some in F. destruct F as [Hin Hnz].
      apply negb_true_iff, Z.eqb_neq in Hnz.
      change (map (fun v => osub (oscale (coord k pv) v) (oscale (coord k v) pv)) vs) with (map (estep k pv) vs).
      rewrite (rank_det_step k pv vs Hin Hnz). f_equal.
      apply IH; [intros j Hj; apply Hcs; right; exact Hj|].
      intros v' j Hv' Hj Hnot. apply in_map_iff in Hv'. destruct Hv' as (v & <- & Hv).
      destruct (Nat.eq_dec j k) as [->|Hjk]; [apply estep_coord|].
      assert (Hn : ~ In j (k :: cs)) by (intros [E|E]; [congruence | contradiction]).
      apply estep_keeps_zero; [exact (Hflat pv j Hin Hj Hn) | exact (Hflat v j Hv Hj Hn)].
    + pose proof (find_none_all _ _ F) as Hall.
      apply IH; [intros j Hj; apply Hcs; right; exact Hj|].
      intros v j Hv Hj Hnot.
      destruct (Nat.eq_dec j k) as [->|Hjk].
      * specialize (Hall v Hv). apply negb_false_iff, Z.eqb_eq in Hall. exact Hall.
      * apply (Hflat v j Hv Hj). intros [E|E]; [congruence | contradiction].
Qed.

(* the elimination of the specification computes the determinantal rank, for every list of integer vectors *)
Theorem rankZ_eq_rank_det vs : rankZ vs = rank_det vs.
Proof.
  unfold rankZ. apply elimZ_rank_det.
  - intros k [<-|[<-|[<-|[]]]]; lia.
  - intros v j _ Hj Hnot. exfalso. apply Hnot. cbn. lia.
Qed.

Corollary rankZ_consistent_always n p E : rankZ_consistent n p E = true.
Proof.
  unfold rankZ_consistent. rewrite rankZ_eq_rank_det, rank_det_dedup. apply Nat.eqb_refl.
Qed.

(* the invariance theorems of RankDet.v, now for the number [dim_spec] computes *)
Corollary rankZ_same_set vs vs' : (forall x, In x vs <-> In x vs') -> rankZ vs = rankZ vs'.
Proof. intro H. rewrite !rankZ_eq_rank_det. apply rank_det_same_set. exact H. Qed.

Corollary rankZ_lin U vs : udet U <> 0 -> rankZ (map (lin U) vs) = rankZ vs.
Proof. intro H. rewrite !rankZ_eq_rank_det. apply rank_det_lin. exact H. Qed.

Corollary rankZ_le_3 vs : (rankZ vs <= 3)%nat.
Proof.
  rewrite rankZ_eq_rank_det. unfold rank_det. destruct (r3b vs), (r2b vs), (r1b vs); lia.
Qed.
