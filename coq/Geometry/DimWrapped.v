(* C09 o C10, with the wrapping front end of get_dimensionality: for atoms stored ANYWHERE (several lattice vectors outside the
   cell), the code first moves every atom into the cell by whole lattice vectors of the periodic directions (repair abcbfc3) and
   then reads the two C10 tables.  Here: the bonded network of the wrapped structure is the lattice-shift re-presentation
   [shiftE s E] of the bonded network E of the structure as stored, so by DimFromTensor.get_dim_of_tensor_tables and
   shift invariance the answer computed from the tables of the WRAPPED structure is the answer of the discrete mirror on the
   network of the ORIGINAL structure. *)
From Coq Require Import List Arith Bool ZArith QArith Lia PeanoNat.
From MV Require Import Base.ZV3 Base.Graph Base.Cover Geometry.Extend Geometry.CellList Geometry.CellListProofs
  Geometry.DispTensor Geometry.DispTensorProofs Geometry.Dimensionality Geometry.DimensionalityProofs
  Geometry.DimensionalityInvariance Geometry.DimFromTensor.
Import ListNotations.
Local Open Scope Z_scope.

Lemma img_d2_ext a b c (f g : nat -> v3) i j o : f i = g i -> f j = g j -> img_d2 a b c f i j o = img_d2 a b c g i j o.
Proof. intros Hi Hj. unfold img_d2. rewrite Hi, Hj. reflexivity. Qed.

Lemma shift_pair_mem s E i j o :
  In (i, j, o) (shiftE s E) <-> In (i, j, oadd (osub o (s i)) (s j)) E.
Proof.
  unfold shiftE. rewrite in_map_iff. split.
  - intros ([[i' j'] o'] & Heq & Hin). unfold shift_pair in Heq. injection Heq as -> -> <-.
    replace (oadd (osub (oadd (osub o' (s j)) (s i)) (s i)) (s j)) with o'; [exact Hin|].
    generalize (s i) (s j). intros u v. destruct o' as [[x y] z], u as [[u0 u1] u2], v as [[v0 v1] v2].
    unfold osub, oneg, oadd. f_equal; [f_equal|]; ring.
  - intro Hin. exists (i, j, oadd (osub o (s i)) (s j)). split; [|exact Hin]. unfold shift_pair. f_equal.
    generalize (s i) (s j). intros u v. destruct o as [[x y] z], u as [[u0 u1] u2], v as [[v0 v1] v2].
    unfold osub, oneg, oadd. f_equal; [f_equal|]; ring.
Qed.

Section Wrapped.
Variables (pad : Q) (a b c : v3) (pbc : Extend.pbc3) (pos0 posw : list v3) (s : nat -> off) (rad : nat -> Z) (thr : Z).
Let n := length pos0.
Let p := p_of pbc.
Hypothesis Hpad : (0 < pad)%Q.
Hypothesis Hvol : vol a b c <> 0.
Hypothesis Hlen : length posw = n.
(* posw = pos0 moved by whole lattice vectors of the periodic directions, and inside the cell along them *)
Hypothesis s_ok : forall i, okoff p (s i) = true.
Hypothesis Hw : forall i, (i < n)%nat ->
  nth i posw zero3 = (let '(x, y, z) := s i in add (nth i pos0 zero3) (lat a b c x y z)).
Hypothesis Hin : forall r, In r posw -> in_cell a b c pbc r.
Hypothesis n_pos : (0 < n)%nat.
Hypothesis thr_nonneg : 0 <= thr.
Hypothesis rad_nonneg : forall i, (i < n)%nat -> 0 <= rad i.
Hypothesis cut_pos : 0 < cutoff n rad thr.

(* E: the bonded network of the structure AS STORED *)
Variable E : list ipair.
Hypothesis wf : wf_E n p E = true.
Hypothesis E_exact : forall i j o, (i < n)%nat -> (j < n)%nat -> okoff p o = true -> (i, o) <> (j, ozero) ->
  (In (i, j, o) (sym E) <-> bonded a b c (fun i => nth i pos0 zero3) rad thr i j o).

Lemma okoff_shift_back i j o : okoff p o = true -> okoff p (oadd (osub o (s i)) (s j)) = true.
Proof.
  intro Ho. apply okoff_oadd; [apply okoff_oadd; [exact Ho | rewrite <- okoff_oneg; apply s_ok] | apply s_ok].
Qed.

Theorem get_dim_of_wrapped_tables :
  get_dim_metric n p rad thr (tab_1x pad a b c pbc posw rad thr) (tab_2x pad a b c pbc posw rad thr) = get_dim_graph n p E.
Proof.
  rewrite <- (shift_invariance_mirror n p E s wf n_pos s_ok).
  pose proof (get_dim_of_tensor_tables pad a b c pbc posw rad thr Hpad Hvol Hin) as H.
  rewrite Hlen in H. fold p in H. apply H; try assumption.
  - apply wf_shiftE; assumption.
  - intros i j o Hi Hj Ho Hne.
    rewrite sym_shiftE, shift_pair_mem.
    assert (Hb : bonded a b c (fun i0 : nat => nth i0 posw zero3) rad thr i j o <->
                 bonded a b c (fun i0 : nat => nth i0 pos0 zero3) rad thr i j (oadd (osub o (s i)) (s j))).
    { unfold bonded.
      rewrite (img_d2_ext a b c (fun i0 => nth i0 posw zero3)
                 (fun i0 => let '(x, y, z) := s i0 in add (nth i0 pos0 zero3) (lat a b c x y z)) i j o (Hw i Hi) (Hw j Hj)).
      rewrite (img_d2_shift a b c (fun i0 => nth i0 pos0 zero3) s i j o). tauto. }
    rewrite Hb. apply E_exact; try assumption.
    + apply okoff_shift_back. exact Ho.
    + intro Heq. apply Hne. injection Heq as Hij Hoz. subst j. f_equal.
      revert Hoz. generalize (s i). intros u Hoz. destruct o as [[x y] z], u as [[u0 u1] u2].
      unfold osub, oneg, oadd, ozero in *. injection Hoz as H0 H1 H2. f_equal; [f_equal|]; lia.
Qed.
End Wrapped.
