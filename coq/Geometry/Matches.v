(* Executable model of matid.geometry.get_matches / get_matches_simple (geometry.py:634-741), C16.

   np.argmin(distances) = first row of minimal distance in the order the cell list reports them;
   the model compares squared distances.  `closest_distance <= tolerance` is d2 <= tol^2.
   For a vacancy the copy index is floor(to_scaled(cell, position)) = floor(D_k(q)/vol)
   (np.linalg.solve in doubles: a float decision when the scaled coordinate is an integer --
   "boundary" in the correspondence). *)
From Coq Require Import ZArith QArith List Bool Lia.
From MV Require Import Base.ZV3 Geometry.Extend Geometry.CellList.
Import ListNotations.
Open Scope Z_scope.

Definition row_step (best : option nrow) (r : nrow) : option nrow :=
  match best with
  | None => Some r
  | Some b => if r_d2 r <? r_d2 b then Some r else Some b
  end.
Definition argmin_row (rows : list nrow) : option nrow := fold_left row_step rows None.

Inductive mres :=
| Match (j : nat) (f : v3)
| Subst (j : nat) (f : v3) (z_wanted z_found : Z)
| Vacancy (f : v3).

Definition floor_scaled (a b c q : v3) : v3 :=
  let V := vol a b c in mk3 (D1 a b c q / V) (D2 a b c q / V) (D3 a b c q / V).

(* one iteration of the loop of get_matches *)
Definition match_one (a b c : v3) (nums : list Z) (tol : Z) (rows : list nrow) (q : v3) (z : Z) : mres :=
  match argmin_row rows with
  | Some r =>
    if r_d2 r <=? tol * tol then
      let zc := nth (r_orig r) nums 0 in
      if zc =? z then Match (r_orig r) (r_fac r) else Subst (r_orig r) (r_fac r) z zc
    else Vacancy (floor_scaled a b c q)
  | None => Vacancy (floor_scaled a b c q)
  end.

Definition get_matches (a b c : v3) (nums : list Z) (tol : Z) (g : geom) (pts : list eatom)
           (probes : list (v3 * Z)) : list mres :=
  map (fun qz => match_one a b c nums tol (neighbours g pts (fst qz)) (fst qz) (snd qz)) probes.

(* one iteration of get_matches_simple, on the wrapped position w *)
Definition match_simple_one (nums : list Z) (tol : Z) (rows : list nrow) (z : Z) : option (nat * v3) :=
  match argmin_row rows with
  | Some r =>
    if (r_d2 r <=? tol * tol) && (nth (r_orig r) nums 0 =? z) then Some (r_orig r, r_disp r) else None
  | None => None
  end.

(* exact-arithmetic reading of ase.geometry.wrap_positions (eps -> 0): subtract floor(s_k) along
   periodic axes *)
Definition wrap_exact (a b c : v3) (pbc : pbc3) (q : v3) : v3 :=
  let f := floor_scaled a b c q in
  let n := mk3 (if px pbc then vx f else 0) (if py pbc then vy f else 0) (if pz pbc then vz f else 0) in
  sub q (latv a b c n).

Definition get_matches_simple (a b c : v3) (pbc : pbc3) (nums : list Z) (tol : Z) (g : geom) (pts : list eatom)
           (wrap : v3 -> v3) (probes : list (v3 * Z)) : list (option (nat * v3)) :=
  map (fun qz => let w := wrap (fst qz) in match_simple_one nums tol (neighbours g pts w) (snd qz)) probes.
