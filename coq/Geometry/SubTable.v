(* C13 o C09/C10 -- the geometric core of the dimensionality shortcut.

   Cluster.get_dimensionality hands get_dimensionality the 1x matrix of the cluster cut out of the distance matrix of the WHOLE
   structure (computed once by SBC, with its own cutoff), whereas the direct evaluation computes the 1x matrix from the cluster's
   atoms alone (cutoff thr + 2 r_max of the cluster).  C13's state-machine theorems treat get_dimensionality as a function of
   (atoms, radii, matrix); this file proves that the two MATRICES lead to the same answer:

     sub_tab_spec               the restriction of a table that satisfies the C10 specification for the whole structure satisfies it for
                                the sub-structure (same cell, same cutoff);
     dim_metric_1x_table_indep  any two 1x tables satisfying the specification of one structure -- with possibly DIFFERENT cutoffs,
                                both at least the bonding ranges -- give the same get_dimensionality arithmetic result
                                (entries beyond a cutoff are never bonds);
     shortcut_eq_direct_geometric   hence sub-matrix of the global table = own table of the cluster, as far as the answer goes. *)
From Coq Require Import List Arith Bool ZArith Lia PeanoNat.
From MV Require Import Base.ZV3 Base.Graph Base.Cover Geometry.Dimensionality Geometry.DimensionalityProofs.
Import ListNotations.
Local Open Scope Z_scope.

Lemma sub_tab_spec p a b c (pos : nat -> v3) (sel : nat -> nat) n m cut tab :
  (forall i, (i < m)%nat -> (sel i < n)%nat) -> (forall i j, (i < m)%nat -> (j < m)%nat -> sel i = sel j -> i = j) ->
  tab_spec p (img_d2 a b c pos) n cut tab ->
  tab_spec p (img_d2 a b c (fun i => pos (sel i))) m cut (fun i j => tab (sel i) (sel j)).
Proof.
  intros Hr Hinj H i j Hi Hj Hne.
  assert (Hne' : sel i <> sel j) by (intro E; apply Hne; apply Hinj; assumption).
  specialize (H (sel i) (sel j) (Hr i Hi) (Hr j Hj) Hne').
  exact H.
Qed.

Section TableIndependence.
Variables (n : nat) (p : pbc3) (img : nat -> nat -> off -> Z) (rad : nat -> Z) (thr : Z).
Variables (cut cut' : Z) (tab tab' : nat -> nat -> option Z).
Hypothesis Hs : tab_spec p img n cut tab.
Hypothesis Hs' : tab_spec p img n cut' tab'.
Hypothesis range : forall u v, (u < n)%nat -> (v < n)%nat -> 0 <= thr + rad u + rad v <= cut.
Hypothesis range' : forall u v, (u < n)%nat -> (v < n)%nat -> 0 <= thr + rad u + rad v <= cut'.

Lemma bondt_table_indep u v : (u < n)%nat -> (v < n)%nat -> bondt thr tab rad u v = bondt thr tab' rad u v.
Proof.
  intros Hu Hv. destruct (Nat.eq_dec u v) as [->|Hne].
  - unfold bondt. rewrite Nat.eqb_refl. reflexivity.
  - apply eq_true_iff_eq.
    rewrite (bond_iff p img n cut tab thr rad u v Hs Hu Hv Hne (range u v Hu Hv)).
    rewrite (bond_iff p img n cut' tab' thr rad u v Hs' Hu Hv Hne (range' u v Hu Hv)). tauto.
Qed.

Theorem dim_metric_1x_table_indep tab2 : get_dim_metric n p rad thr tab tab2 = get_dim_metric n p rad thr tab' tab2.
Proof.
  unfold get_dim_metric. apply dim_from_ext.
  - intros u v Hu Hv. apply bondt_table_indep; assumption.
  - intros u v _ _. reflexivity.
Qed.
End TableIndependence.

(* the shortcut's matrix (cut out of the table of the whole structure, cutoff CUT of the clustering) and the matrix of the direct
   evaluation (table of the cluster's atoms alone, cutoff thr + 2 r_max of the cluster) give the same answer *)
Theorem shortcut_eq_direct_geometric p a b c (pos : nat -> v3) (sel : nat -> nat) n m CUT (TAB : nat -> nat -> option Z)
        (rad : nat -> Z) thr (tab_own tab2 : nat -> nat -> option Z) :
  (forall i, (i < m)%nat -> (sel i < n)%nat) -> (forall i j, (i < m)%nat -> (j < m)%nat -> sel i = sel j -> i = j) ->
  tab_spec p (img_d2 a b c pos) n CUT TAB ->
  tab_spec p (img_d2 a b c (fun i => pos (sel i))) m (cutoff m rad thr) tab_own ->
  0 <= thr -> (forall i, (i < m)%nat -> 0 <= rad i) ->
  (forall u v, (u < m)%nat -> (v < m)%nat -> thr + rad u + rad v <= CUT) ->
  get_dim_metric m p rad thr (fun i j => TAB (sel i) (sel j)) tab2 = get_dim_metric m p rad thr tab_own tab2.
Proof.
  intros Hr Hinj HT Hown Hthr Hrad HCUT.
  apply (dim_metric_1x_table_indep m p (img_d2 a b c (fun i => pos (sel i))) rad thr CUT (cutoff m rad thr)).
  - apply (sub_tab_spec p a b c pos sel n m CUT TAB Hr Hinj HT).
  - exact Hown.
  - intros u v Hu Hv. pose proof (Hrad u Hu). pose proof (Hrad v Hv). specialize (HCUT u v Hu Hv). lia.
  - intros u v Hu Hv. pose proof (Hrad u Hu). pose proof (Hrad v Hv).
    pose proof (rad_le_max m rad u Hu). pose proof (rad_le_max m rad v Hv). unfold cutoff. lia.
Qed.

(* the specification determines the table: two tables satisfying it with the same cutoff agree entry by entry *)
Lemma tab_spec_unique p img N cut t1 t2 :
  tab_spec p img N cut t1 -> tab_spec p img N cut t2 -> forall i j, (i < N)%nat -> (j < N)%nat -> i <> j -> t1 i j = t2 i j.
Proof.
  intros H1 H2 i j Hi Hj Hne. specialize (H1 i j Hi Hj Hne). specialize (H2 i j Hi Hj Hne).
  destruct (t1 i j) as [d1|], (t2 i j) as [d2|].
  - destruct H1 as ((o1 & Ho1 & E1) & M1 & _), H2 as ((o2 & Ho2 & E2) & M2 & _).
    pose proof (M1 o2 Ho2). pose proof (M2 o1 Ho1). f_equal. lia.
  - destruct H1 as ((o1 & Ho1 & E1) & _ & C1). specialize (H2 o1 Ho1). lia.
  - destruct H2 as ((o2 & Ho2 & E2) & _ & C2). specialize (H1 o2 Ho2). lia.
  - reflexivity.
Qed.
