(* Theorems about Geometry/Extend.v (C10: copies_suffice; C16: extended_exactly_once, extended_covers). *)
From Coq Require Import ZArith List Bool Lia Psatz FinFun.
From MV Require Import Base.ZV3 Geometry.Extend.
Import ListNotations.
Open Scope Z_scope.

(* ---------- arithmetic of the copy count ---------- *)
Lemma ceil_div_spec A B : 0 < A -> 0 <= B ->
  let m := ceil_div B A in 0 <= m /\ B <= m * A /\ (m - 1) * A < B.
Proof.
  intros HA HB m. unfold m, ceil_div.
  pose proof (Z.div_mod (B + A - 1) A ltac:(lia)) as E.
  pose proof (Z.mod_pos_bound (B + A - 1) A HA) as Hm.
  set (q := (B + A - 1) / A) in *.
  assert (0 <= q) by (apply Z.div_pos; lia).
  nia.
Qed.

Lemma least_sq_spec A B : 0 < A -> 0 <= B ->
  let N := least_sq A B in
  0 <= N /\ B <= N * N * A /\ (forall M, 0 <= M -> B <= M * M * A -> N <= M).
Proof.
  intros HA HB. unfold least_sq.
  destruct (ceil_div_spec A B HA HB) as (Hm0 & Hm1 & Hm2).
  set (m := ceil_div B A) in *.
  pose proof (Z.sqrt_spec m Hm0) as Hs. cbv zeta in Hs. pose proof (Z.sqrt_nonneg m) as Hs0.
  set (s := Z.sqrt m) in *. cbv zeta.
  assert (Hkey : forall M, 0 <= M -> B <= M * M * A -> m <= M * M).
  { intros M HM HBM. destruct (Z_le_gt_dec m (M * M)); auto. exfalso.
    assert (M * M * A <= (m - 1) * A) by (apply Z.mul_le_mono_nonneg_r; lia). lia. }
  destruct (Z.eqb_spec (s * s) m) as [E|E].
  - split; [lia|]. split; [rewrite E; lia|]. intros M HM HBM. specialize (Hkey M HM HBM).
    destruct (Z_le_gt_dec s M); auto. exfalso. assert ((M + 1) * (M + 1) <= s * s) by (apply Z.mul_le_mono_nonneg; lia). lia.
  - split; [lia|]. split.
    + assert (m * A <= (s + 1) * (s + 1) * A) by (apply Z.mul_le_mono_nonneg_r; lia). lia.
    + intros M HM HBM. specialize (Hkey M HM HBM).
      destruct (Z_le_gt_dec (s + 1) M); auto. exfalso. assert (M * M <= s * s) by (apply Z.mul_le_mono_nonneg; lia). lia.
Qed.

Lemma least_sq_nonneg A B : 0 <= least_sq A B.
Proof.
  unfold least_sq. pose proof (Z.sqrt_nonneg (ceil_div B A)).
  destruct (_ =? _); lia.
Qed.

(* ---------- image lists ---------- *)
Lemma in_zrange lo len k : In k (zrange lo len) <-> lo <= k < lo + Z.of_nat len.
Proof.
  unfold zrange. rewrite in_map_iff. split.
  - intros (x & <- & Hin). apply in_seq in Hin. lia.
  - intros H. exists (Z.to_nat (k - lo)). split; [lia|]. apply in_seq. lia.
Qed.
Lemma NoDup_zrange lo len : NoDup (zrange lo len).
Proof.
  unfold zrange. apply FinFun.Injective_map_NoDup; [intros x y; lia | apply seq_NoDup].
Qed.

Lemma NoDup_app_disj {A} (l l' : list A) :
  NoDup l -> NoDup l' -> (forall x, In x l -> In x l' -> False) -> NoDup (l ++ l').
Proof.
  induction l as [|x l IH]; simpl; intros H1 H2 H3; auto.
  inversion H1; subst. constructor.
  - rewrite in_app_iff. intros [H|H]; [tauto | eapply H3; eauto].
  - apply IH; auto. intros y Hy Hy'. eapply H3; eauto.
Qed.

Lemma in_images N k : 0 <= N -> (In k (images N) <-> - N <= k <= N).
Proof. intros HN. unfold images. rewrite in_app_iff, !in_zrange. lia. Qed.
Lemma NoDup_images N : 0 <= N -> NoDup (images N).
Proof.
  intros HN. unfold images. apply NoDup_app_disj; try apply NoDup_zrange.
  intros x. rewrite !in_zrange. lia.
Qed.
Lemma images_hd N : 0 <= N -> exists t, images N = 0 :: t.
Proof.
  intros HN. unfold images, zrange. rewrite Nat.add_1_r. simpl. eexists. reflexivity.
Qed.

Definition nonneg3 (Nv : v3) := 0 <= vx Nv /\ 0 <= vy Nv /\ 0 <= vz Nv.
Definition in_box (Nv n : v3) := Z.abs (vx n) <= vx Nv /\ Z.abs (vy n) <= vy Nv /\ Z.abs (vz n) <= vz Nv.

Lemma in_triples Nv n : nonneg3 Nv -> (In n (triples Nv) <-> in_box Nv n).
Proof.
  intros (H1 & H2 & H3). unfold triples, in_box. rewrite in_flat_map. split.
  - intros (n1 & Hn1 & H). rewrite in_flat_map in H. destruct H as (n2 & Hn2 & H).
    rewrite in_map_iff in H. destruct H as (n3 & <- & Hn3).
    rewrite in_images in Hn1, Hn2, Hn3 by assumption. simpl. lia.
  - intros H. destruct n as [n1 n2 n3]; simpl in H. exists n1. split; [apply in_images; lia|].
    rewrite in_flat_map. exists n2. split; [apply in_images; lia|].
    rewrite in_map_iff. exists n3. split; [reflexivity | apply in_images; lia].
Qed.

(* generic: NoDup of a flat_map with pairwise disjoint, duplicate-free blocks *)
Lemma NoDup_flat_map_disjoint {A B} (f : A -> list B) (l : list A) :
  NoDup l -> (forall x, In x l -> NoDup (f x)) ->
  (forall x y z, In x l -> In y l -> In z (f x) -> In z (f y) -> x = y) ->
  NoDup (flat_map f l).
Proof.
  induction l as [|x l IH]; simpl; intros H1 H2 H3; [constructor|].
  inversion H1; subst. apply NoDup_app_disj.
  - apply H2; auto.
  - apply IH; auto. intros; eapply H3; eauto.
  - intros z Hz Hz'. rewrite in_flat_map in Hz'. destruct Hz' as (y & Hy & Hzy).
    assert (x = y) by (eapply H3; eauto). subst. tauto.
Qed.

Lemma NoDup_triples Nv : nonneg3 Nv -> NoDup (triples Nv).
Proof.
  intros (H1 & H2 & H3). unfold triples.
  apply NoDup_flat_map_disjoint; [apply NoDup_images; auto| |].
  - intros n1 _. apply NoDup_flat_map_disjoint; [apply NoDup_images; auto| |].
    + intros n2 _. apply FinFun.Injective_map_NoDup; [|apply NoDup_images; auto].
      intros x y E. congruence.
    + intros x y z _ _ Hx Hy. rewrite in_map_iff in Hx, Hy.
      destruct Hx as (? & <- & _). destruct Hy as (? & E & _). congruence.
  - intros x y z _ _ Hx Hy. rewrite in_flat_map in Hx, Hy.
    destruct Hx as (? & _ & Hx). destruct Hy as (? & _ & Hy). rewrite in_map_iff in Hx, Hy.
    destruct Hx as (? & <- & _). destruct Hy as (? & E & _). congruence.
Qed.

Lemma in_indexed_gen {A} (l : list A) s i x :
  In (i, x) (combine (seq s (length l)) l) <-> (s <= i)%nat /\ nth_error l (i - s) = Some x.
Proof.
  revert s. induction l as [|y l IH]; intros s; simpl.
  - split; [tauto|]. intros [_ H]. destruct (i - s)%nat; discriminate.
  - rewrite IH. split.
    + intros [E|[H1 H2]].
      * inversion E; subst. rewrite Nat.sub_diag. split; [lia|reflexivity].
      * split; [lia|]. replace (i - s)%nat with (S (i - S s)) by lia. exact H2.
    + intros [H1 H2]. destruct (Nat.eq_dec s i) as [->|Hne].
      * rewrite Nat.sub_diag in H2. simpl in H2. left. congruence.
      * right. split; [lia|]. replace (i - s)%nat with (S (i - S s)) in H2 by lia. exact H2.
Qed.

Lemma in_indexed {A} (l : list A) i x : In (i, x) (indexed l) <-> nth_error l i = Some x.
Proof.
  unfold indexed. rewrite in_indexed_gen, Nat.sub_0_r. split; [tauto | split; [lia | assumption]].
Qed.

Lemma map_fst_combine_seq {A} (l : list A) s : map fst (combine (seq s (length l)) l) = seq s (length l).
Proof. revert s; induction l; intros s; simpl; [reflexivity | f_equal; apply IHl]. Qed.

Lemma NoDup_indexed_fst {A} (l : list A) : NoDup (map fst (indexed l)).
Proof. unfold indexed. rewrite map_fst_combine_seq. apply seq_NoDup. Qed.

Lemma length_indexed {A} (l : list A) : length (indexed l) = length l.
Proof. unfold indexed. rewrite combine_length, seq_length. apply Nat.min_id. Qed.

Lemma nth_error_indexed_gen {A} (l : list A) s i x :
  nth_error l i = Some x -> nth_error (combine (seq s (length l)) l) i = Some ((s + i)%nat, x).
Proof.
  revert s i. induction l as [|y l IH]; intros s [|i]; simpl; try discriminate.
  - intros [= ->]. rewrite Nat.add_0_r. reflexivity.
  - intros H. rewrite (IH (S s) i H). do 2 f_equal. lia.
Qed.

(* ---------- the extended system as a set ---------- *)
Lemma in_extend_with a b c Nv atoms e : nonneg3 Nv ->
  (In e (extend_with a b c Nv atoms) <->
   exists i at_ n, nth_error atoms i = Some at_ /\ in_box Nv n /\ e = image_of a b c n (i, at_)).
Proof.
  intros HN. unfold extend_with. rewrite in_flat_map. split.
  - intros (n & Hn & He). rewrite in_map_iff in He. destruct He as ([i at_] & <- & Hia).
    exists i, at_, n. rewrite in_triples in Hn by assumption. rewrite in_indexed in Hia. auto.
  - intros (i & at_ & n & Hi & Hn & ->). exists n. split; [apply in_triples; assumption|].
    apply in_map. apply in_indexed. assumption.
Qed.

Lemma map_flat_map {A B C} (g : B -> C) (f : A -> list B) l :
  map g (flat_map f l) = flat_map (fun x => map g (f x)) l.
Proof. induction l; simpl; [reflexivity | rewrite map_app, IHl; reflexivity]. Qed.

Lemma NoDup_map_inv' {A B} (f : A -> B) l : NoDup (map f l) -> NoDup l.
Proof.
  induction l as [|x l IH]; simpl; intros H; [constructor|].
  inversion H; subst. constructor; auto. intros Hin. apply H2. apply in_map. assumption.
Qed.

(* duplicate-free: no (original index, factor) pair occurs twice *)
Lemma NoDup_extend_keys a b c Nv atoms : nonneg3 Nv ->
  NoDup (map (fun e => (e_idx e, e_fac e)) (extend_with a b c Nv atoms)).
Proof.
  intros HN. unfold extend_with. rewrite map_flat_map.
  apply NoDup_flat_map_disjoint; [apply NoDup_triples; assumption| |].
  - intros n _. rewrite map_map. simpl.
    apply (NoDup_map_inv' fst). rewrite map_map. simpl. apply NoDup_indexed_fst.
  - intros x y z _ _ Hx Hy. rewrite map_map, in_map_iff in Hx, Hy. simpl in Hx, Hy.
    destruct Hx as (? & <- & _). destruct Hy as (? & E & _). congruence.
Qed.
Lemma NoDup_extend_with a b c Nv atoms : nonneg3 Nv -> NoDup (extend_with a b c Nv atoms).
Proof. intros HN. eapply NoDup_map_inv'. apply NoDup_extend_keys. assumption. Qed.

Lemma length_flat_map_const {A B} (f : A -> list B) l k :
  (forall x, length (f x) = k) -> length (flat_map f l) = (length l * k)%nat.
Proof. intros H. induction l; simpl; [reflexivity | rewrite app_length, H, IHl; reflexivity]. Qed.

Lemma length_images N : 0 <= N -> Z.of_nat (length (images N)) = 2 * N + 1.
Proof. intros HN. unfold images, zrange. rewrite app_length, !map_length, !seq_length. lia. Qed.

Lemma length_triples Nv : nonneg3 Nv ->
  Z.of_nat (length (triples Nv)) = (2 * vx Nv + 1) * (2 * vy Nv + 1) * (2 * vz Nv + 1).
Proof.
  intros (H1 & H2 & H3). unfold triples.
  rewrite (length_flat_map_const _ _ (length (images (vy Nv)) * length (images (vz Nv)))%nat).
  - rewrite !Nat2Z.inj_mul, !length_images by assumption. ring.
  - intros n1. rewrite (length_flat_map_const _ _ (length (images (vz Nv)))); [reflexivity|].
    intros n2. apply map_length.
Qed.

Lemma length_extend_with a b c Nv atoms : nonneg3 Nv ->
  Z.of_nat (length (extend_with a b c Nv atoms))
  = Z.of_nat (length atoms) * ((2 * vx Nv + 1) * (2 * vy Nv + 1) * (2 * vz Nv + 1)).
Proof.
  intros HN. unfold extend_with. rewrite (length_flat_map_const _ _ (length atoms)).
  - rewrite Nat2Z.inj_mul, length_triples by assumption. ring.
  - intros n. rewrite map_length. apply length_indexed.
Qed.

Lemma triples_hd Nv : nonneg3 Nv -> exists t, triples Nv = zero3 :: t.
Proof.
  intros (H1 & H2 & H3). unfold triples.
  destruct (images_hd _ H1) as (t1 & ->). destruct (images_hd _ H2) as (t2 & ->).
  destruct (images_hd _ H3) as (t3 & ->). simpl. eexists. reflexivity.
Qed.

Lemma add_latv_zero a b c p : add p (latv a b c zero3) = p.
Proof. destruct p. unfold add, latv, lat, scale, zero3; simpl. f_equal; ring. Qed.

Lemma extend_with_split a b c Nv atoms : nonneg3 Nv -> exists t,
  extend_with a b c Nv atoms
  = map (fun ia => mkE (a_pos (snd ia)) (a_num (snd ia)) (fst ia) zero3) (indexed atoms) ++ t.
Proof.
  intros HN. unfold extend_with. destruct (triples_hd _ HN) as (t & ->). simpl.
  eexists. f_equal. apply map_ext. intros ia. unfold image_of. rewrite add_latv_zero. reflexivity.
Qed.

(* the original system comes first, unchanged, with factor 0 *)
Lemma extend_originals_first a b c Nv atoms : nonneg3 Nv ->
  firstn (length atoms) (extend_with a b c Nv atoms)
  = map (fun ia => mkE (a_pos (snd ia)) (a_num (snd ia)) (fst ia) zero3) (indexed atoms).
Proof.
  intros HN. destruct (extend_with_split a b c Nv atoms HN) as (t & ->).
  set (l := map _ _). assert (Hl : length l = length atoms) by (unfold l; rewrite map_length; apply length_indexed).
  rewrite <- Hl. rewrite firstn_app, Nat.sub_diag, firstn_all. simpl. apply app_nil_r.
Qed.
Lemma extend_nth_original a b c Nv atoms i at_ : nonneg3 Nv -> nth_error atoms i = Some at_ ->
  nth_error (extend_with a b c Nv atoms) i = Some (mkE (a_pos at_) (a_num at_) i zero3).
Proof.
  intros HN Hi. destruct (extend_with_split a b c Nv atoms HN) as (t & ->).
  assert (Hlt : (i < length atoms)%nat) by (apply nth_error_Some; congruence).
  rewrite nth_error_app1 by (rewrite map_length, length_indexed; assumption).
  unfold indexed. erewrite map_nth_error by (apply nth_error_indexed_gen; eassumption).
  reflexivity.
Qed.

(* ---------- the copy counts ---------- *)
Lemma n_copies_nonneg a b c pbc ext2 : nonneg3 (n_copies a b c pbc ext2).
Proof.
  unfold n_copies, nonneg3. destruct (_ <=? 1).
  - destruct (complete_cell a b c) as [[a' b'] c']. simpl.
    repeat split; destruct (_ && _); try apply least_sq_nonneg; lia.
  - destruct (_ =? 2); simpl; [|lia].
    repeat split; destruct (_ && _); try apply least_sq_nonneg; lia.
Qed.
(* no copies along non-periodic axes and along zero (missing) basis vectors *)
Lemma n_copies_off_axis a b c pbc ext2 :
  let N := n_copies a b c pbc ext2 in
  (px pbc && negb (isz a) = false -> vx N = 0) /\
  (py pbc && negb (isz b) = false -> vy N = 0) /\
  (pz pbc && negb (isz c) = false -> vz N = 0).
Proof.
  unfold n_copies. destruct (_ <=? 1).
  - destruct (complete_cell a b c) as [[a' b'] c']. simpl.
    repeat split; intros ->; reflexivity.
  - destruct (_ =? 2); simpl; [|auto].
    repeat split; intros ->; reflexivity.
Qed.

Lemma dot_self_zero a : dot a a = 0 -> a = zero3.
Proof.
  destruct a as [x y z]. unfold dot, zero3; simpl. intros H.
  assert (x = 0) by nia. assert (y = 0) by nia. assert (z = 0) by nia. subst. reflexivity.
Qed.
Lemma isz_true a : isz a = true <-> a = zero3.
Proof.
  unfold isz. rewrite Z.eqb_eq. split; [apply dot_self_zero | intros ->; reflexivity].
Qed.

Lemma vol_nonzero_not_isz a b c : vol a b c <> 0 -> isz a = false /\ isz b = false /\ isz c = false.
Proof.
  intros HV. repeat split; destruct (isz _) eqn:E; auto; exfalso; apply HV;
    apply isz_true in E; subst; unfold vol, dot, cross, zero3; simpl; ring.
Qed.
Lemma complete_cell_regular a b c : vol a b c <> 0 -> complete_cell a b c = (a, b, c).
Proof.
  intros HV. destruct (vol_nonzero_not_isz a b c HV) as (Ha & Hb & Hc).
  unfold complete_cell. rewrite Ha, Hb, Hc. reflexivity.
Qed.
Lemma n_copies_regular a b c pbc ext2 : vol a b c <> 0 ->
  let V := vol a b c in
  n_copies a b c pbc ext2 =
  mk3 (if px pbc then least_sq (V * V) (ext2 * dot (cross b c) (cross b c)) else 0)
      (if py pbc then least_sq (V * V) (ext2 * dot (cross c a) (cross c a)) else 0)
      (if pz pbc then least_sq (V * V) (ext2 * dot (cross a b) (cross a b)) else 0).
Proof.
  intros HV V. destruct (vol_nonzero_not_isz a b c HV) as (Ha & Hb & Hc).
  unfold n_copies. rewrite complete_cell_regular by assumption.
  unfold n_empty. rewrite Ha, Hb, Hc. simpl. rewrite !andb_true_r. reflexivity.
Qed.

(* ---------- copies_suffice: all three axes, any point of the half-open cell ---------- *)
Lemma vol_cyc a b c : vol b c a = vol a b c.
Proof. unfold vol, dot, cross; simpl; ring. Qed.
Lemma lat_cyc a b c n1 n2 n3 : lat b c a n2 n3 n1 = lat a b c n1 n2 n3.
Proof. unfold lat, add, scale; simpl. f_equal; ring. Qed.

Theorem copies_suffice_axis2 a b c pi pj n1 n2 n3 R2 N :
  let V := vol a b c in
  V <> 0 -> frac_in V (D2 a b c pi) -> frac_in V (D2 a b c pj) ->
  0 <= N -> R2 * dot (cross c a) (cross c a) <= N * N * (V * V) ->
  norm2 (sub (sub pi pj) (lat a b c n1 n2 n3)) <= R2 -> Z.abs n2 <= N.
Proof.
  intros V HV Hi Hj HN Hc Hd. unfold V in *. unfold frac_in, norm2 in *.
  rewrite <- (vol_cyc a b c) in *. rewrite <- (lat_cyc a b c) in Hd.
  exact (copies_suffice_axis1 b c a pi pj n2 n3 n1 R2 N HV Hi Hj HN Hc Hd).
Qed.
Theorem copies_suffice_axis3 a b c pi pj n1 n2 n3 R2 N :
  let V := vol a b c in
  V <> 0 -> frac_in V (D3 a b c pi) -> frac_in V (D3 a b c pj) ->
  0 <= N -> R2 * dot (cross a b) (cross a b) <= N * N * (V * V) ->
  norm2 (sub (sub pi pj) (lat a b c n1 n2 n3)) <= R2 -> Z.abs n3 <= N.
Proof.
  intros V HV Hi Hj HN Hc Hd. unfold V in *. unfold frac_in, norm2 in *.
  rewrite <- (vol_cyc a b c) in *. rewrite <- (vol_cyc b c a) in *.
  rewrite <- (lat_cyc a b c), <- (lat_cyc b c a) in Hd.
  exact (copies_suffice_axis1 c a b pi pj n3 n1 n2 R2 N HV Hi Hj HN Hc Hd).
Qed.

Lemma sub_add_assoc q p l : sub q (add p l) = sub (sub q p) l.
Proof. unfold sub, add; simpl. f_equal; ring. Qed.

(* C10 copies_suffice / C16 extended_covers core *)
Theorem copies_suffice a b c pbc ext2 q pj n :
  vol a b c <> 0 -> 0 <= ext2 ->
  in_cell a b c pbc q -> in_cell a b c pbc pj -> admissible pbc n ->
  norm2 (sub (sub q pj) (latv a b c n)) <= ext2 ->
  in_box (n_copies a b c pbc ext2) n.
Proof.
  intros HV He (Hq1 & Hq2 & Hq3) (Hj1 & Hj2 & Hj3) (A1 & A2 & A3) Hd.
  rewrite n_copies_regular by assumption. cbv zeta.
  assert (HVV : 0 < vol a b c * vol a b c) by nia.
  unfold latv in Hd. unfold in_box; simpl.
  split; [|split].
  - destruct (px pbc).
    + destruct (least_sq_spec (vol a b c * vol a b c) (ext2 * dot (cross b c) (cross b c))) as (N0 & NB & _);
        [lia | apply Z.mul_nonneg_nonneg; [lia | apply dot_self_nonneg] |].
      exact (copies_suffice_axis1 a b c q pj _ _ _ ext2 _ HV (Hq1 eq_refl) (Hj1 eq_refl) N0 NB Hd).
    + rewrite (A1 eq_refl). simpl. lia.
  - destruct (py pbc).
    + destruct (least_sq_spec (vol a b c * vol a b c) (ext2 * dot (cross c a) (cross c a))) as (N0 & NB & _);
        [lia | apply Z.mul_nonneg_nonneg; [lia | apply dot_self_nonneg] |].
      exact (copies_suffice_axis2 a b c q pj _ _ _ ext2 _ HV (Hq2 eq_refl) (Hj2 eq_refl) N0 NB Hd).
    + rewrite (A2 eq_refl). simpl. lia.
  - destruct (pz pbc).
    + destruct (least_sq_spec (vol a b c * vol a b c) (ext2 * dot (cross a b) (cross a b))) as (N0 & NB & _);
        [lia | apply Z.mul_nonneg_nonneg; [lia | apply dot_self_nonneg] |].
      exact (copies_suffice_axis3 a b c q pj _ _ _ ext2 _ HV (Hq3 eq_refl) (Hj3 eq_refl) N0 NB Hd).
    + rewrite (A3 eq_refl). simpl. lia.
Qed.

(* C16 extended_covers (half-open cell reading): the image is present in the extended system *)
Theorem extended_covers a b c pbc ext2 atoms q j at_ n :
  vol a b c <> 0 -> 0 <= ext2 ->
  (forall at', In at' atoms -> in_cell a b c pbc (a_pos at')) ->
  in_cell a b c pbc q -> nth_error atoms j = Some at_ -> admissible pbc n ->
  dist2 q (add (a_pos at_) (latv a b c n)) <= ext2 ->
  In (mkE (add (a_pos at_) (latv a b c n)) (a_num at_) j n) (extend_system a b c pbc ext2 atoms).
Proof.
  intros HV He Hat Hq Hj Hadm Hd. unfold extend_system. rewrite complete_cell_regular by assumption.
  apply in_extend_with; [apply n_copies_nonneg|]. exists j, at_, n. split; [assumption|]. split; [|reflexivity].
  unfold dist2 in Hd. rewrite sub_add_assoc in Hd.
  apply (copies_suffice a b c pbc ext2 q (a_pos at_) n); auto.
  apply Hat. eapply nth_error_In; eassumption.
Qed.

Definition eff_pbc (a b c : v3) (pbc : pbc3) : pbc3 :=
  mkP (px pbc && negb (isz a)) (py pbc && negb (isz b)) (pz pbc && negb (isz c)).

(* the dummy vector of the completion branch is multiplied by 0 *)
Lemma latv_complete a b c a' b' c' n :
  complete_cell a b c = (a', b', c') ->
  (isz a = true -> vx n = 0) -> (isz b = true -> vy n = 0) -> (isz c = true -> vz n = 0) ->
  latv a' b' c' n = latv a b c n.
Proof.
  unfold complete_cell. intros EC Ha Hb Hc.
  destruct (isz a) eqn:Ea, (isz b) eqn:Eb, (isz c) eqn:Ec; simpl in EC; inversion EC; subst; try reflexivity.
  - apply isz_true in Ea. subst a. unfold latv, lat. rewrite (Ha eq_refl).
    unfold add, scale, zero3; simpl. f_equal; ring.
  - apply isz_true in Eb. subst b. unfold latv, lat. rewrite (Hb eq_refl).
    unfold add, scale, zero3; simpl. f_equal; ring.
  - apply isz_true in Ec. subst c. unfold latv, lat. rewrite (Hc eq_refl).
    unfold add, scale, zero3; simpl. f_equal; ring.
Qed.

Lemma in_box_eff a b c pbc ext2 n : in_box (n_copies a b c pbc ext2) n -> admissible (eff_pbc a b c pbc) n.
Proof.
  intros (H1 & H2 & H3). destruct (n_copies_off_axis a b c pbc ext2) as (O1 & O2 & O3). cbv zeta in *.
  unfold admissible, eff_pbc; simpl. repeat split; intros E.
  - rewrite (O1 E) in H1. lia.
  - rewrite (O2 E) in H2. lia.
  - rewrite (O3 E) in H3. lia.
Qed.

Lemma latv_complete_eff a b c pbc a' b' c' n :
  complete_cell a b c = (a', b', c') -> admissible (eff_pbc a b c pbc) n ->
  latv a' b' c' n = latv a b c n.
Proof.
  intros EC (H1 & H2 & H3). simpl in *. apply (latv_complete a b c); auto.
  - intros E. apply H1. rewrite E. apply andb_false_r.
  - intros E. apply H2. rewrite E. apply andb_false_r.
  - intros E. apply H3. rewrite E. apply andb_false_r.
Qed.

Theorem extended_exactly_once a b c pbc ext2 atoms :
  let N := n_copies a b c pbc ext2 in
  let ext := extend_system a b c pbc ext2 atoms in
  (forall e, In e ext <->
     exists i at_ n, nth_error atoms i = Some at_ /\ in_box N n /\
                     e = mkE (add (a_pos at_) (latv a b c n)) (a_num at_) i n) /\
  NoDup (map (fun e => (e_idx e, e_fac e)) ext) /\ NoDup ext /\
  firstn (length atoms) ext = map (fun ia => mkE (a_pos (snd ia)) (a_num (snd ia)) (fst ia) zero3) (indexed atoms) /\
  (forall e, In e ext -> admissible (eff_pbc a b c pbc) (e_fac e)) /\
  Z.of_nat (length ext) = Z.of_nat (length atoms) * ((2 * vx N + 1) * (2 * vy N + 1) * (2 * vz N + 1)).
Proof.
  intros N ext. unfold ext, extend_system.
  pose proof (n_copies_nonneg a b c pbc ext2) as HN. fold N in HN.
  destruct (complete_cell a b c) as [[a' b'] c'] eqn:EC. fold N.
  assert (Hlat : forall n, in_box N n -> latv a' b' c' n = latv a b c n).
  { intros n Hn. eapply latv_complete_eff; [eassumption|]. apply (in_box_eff _ _ _ _ ext2). exact Hn. }
  split; [|split; [|split; [|split; [|split]]]].
  - intros e. rewrite in_extend_with by assumption. unfold image_of; simpl.
    split; intros (i & at_ & n & Hi & Hn & ->); exists i, at_, n; (split; [assumption|]); (split; [assumption|]);
      rewrite (Hlat n Hn); reflexivity.
  - apply NoDup_extend_keys; assumption.
  - apply NoDup_extend_with; assumption.
  - apply extend_originals_first; assumption.
  - intros e He. apply in_extend_with in He; [|assumption]. destruct He as (i & at_ & n & _ & Hn & ->).
    simpl. apply (in_box_eff _ _ _ _ ext2). exact Hn.
  - apply length_extend_with; assumption.
Qed.

Lemma n_copies_completed a b c pbc ext2 a' b' c' :
  n_empty a b c = 1 -> complete_cell a b c = (a', b', c') -> vol a' b' c' <> 0 ->
  n_copies a b c pbc ext2 = n_copies a' b' c' (eff_pbc a b c pbc) ext2.
Proof.
  intros Hne EC HV. rewrite (n_copies_regular a' b' c') by assumption. cbv zeta.
  unfold n_copies. rewrite Hne, EC. reflexivity.
Qed.

(* degenerate cells, covering: one missing vector (2D cell, completed by the cross product) *)
Theorem extended_covers_completed a b c pbc ext2 atoms q j at_ n :
  n_empty a b c = 1 ->
  (let '(a', b', c') := complete_cell a b c in
   vol a' b' c' <> 0 /\
   (forall at', In at' atoms -> in_cell a' b' c' (eff_pbc a b c pbc) (a_pos at')) /\
   in_cell a' b' c' (eff_pbc a b c pbc) q) ->
  0 <= ext2 -> nth_error atoms j = Some at_ -> admissible (eff_pbc a b c pbc) n ->
  dist2 q (add (a_pos at_) (latv a b c n)) <= ext2 ->
  In (mkE (add (a_pos at_) (latv a b c n)) (a_num at_) j n) (extend_system a b c pbc ext2 atoms).
Proof.
  intros Hne. destruct (complete_cell a b c) as [[a' b'] c'] eqn:EC.
  intros (HV & Hat & Hq) He Hj Hadm Hd.
  apply (extended_exactly_once a b c pbc ext2 atoms). exists j, at_, n.
  split; [assumption|]. split; [|reflexivity].
  rewrite (n_copies_completed a b c pbc ext2 a' b' c') by assumption.
  unfold dist2 in Hd. rewrite sub_add_assoc in Hd.
  rewrite <- (latv_complete_eff a b c pbc a' b' c' n EC Hadm) in Hd.
  apply (copies_suffice a' b' c' _ ext2 q (a_pos at_) n); auto.
  apply Hat. eapply nth_error_In; eassumption.
Qed.

(* two missing vectors (1D cell) *)
Definition in_seg (k p : v3) : Prop := 0 <= dot p k < dot k k.
Theorem copies_suffice_1d k q pj m R2 N :
  0 < dot k k -> in_seg k q -> in_seg k pj -> 0 <= N -> R2 <= N * N * dot k k ->
  norm2 (sub (sub q pj) (scale m k)) <= R2 -> Z.abs m <= N.
Proof.
  unfold in_seg, norm2. intros Hk Hq Hj HN HR Hd.
  set (d := sub (sub q pj) (scale m k)) in *.
  assert (Hproj : dot d k = dot q k - dot pj k - m * dot k k)
    by (unfold d, dot, sub, scale; simpl; ring).
  pose proof (cauchy d k) as HC.
  set (K := dot k k) in *. set (x := dot q k) in *. set (y := dot pj k) in *.
  assert (Hsq : dot d k * dot d k <= (N * K) * (N * K)).
  { replace ((N * K) * (N * K)) with (N * N * K * K) by ring.
    assert (dot d d * K <= R2 * K) by (apply Z.mul_le_mono_nonneg_r; lia).
    assert (R2 * K <= N * N * K * K) by (apply Z.mul_le_mono_nonneg_r; lia). lia. }
  apply sq_le_abs in Hsq; [|nia]. rewrite Hproj in Hsq.
  assert (Hb : - (N * K) <= x - y - m * K <= N * K) by lia.
  destruct (Z_le_gt_dec (Z.abs m) N) as [|Hgt]; auto. exfalso.
  destruct (Z_le_gt_dec 0 m).
  - assert ((N + 1) * K <= m * K) by (apply Z.mul_le_mono_nonneg_r; lia). lia.
  - assert (m * K <= (- (N + 1)) * K) by (apply Z.mul_le_mono_nonneg_r; lia). lia.
Qed.

(* non-vacuity *)
Example copies_suffice_example :
  let a := mk3 4 0 0 in let b := mk3 1 3 0 in let c := mk3 0 1 5 in
  let pbc := mkP true true false in
  vol a b c <> 0 /\ in_cell a b c pbc (mk3 1 2 7) /\ in_cell a b c pbc (mk3 4 2 (-3)) /\
  admissible pbc (mk3 (-1) 1 0) /\
  norm2 (sub (sub (mk3 1 2 7) (mk3 4 2 (-3))) (latv a b c (mk3 (-1) 1 0))) <= 14 * 14 /\
  n_copies a b c pbc (14 * 14) = mk3 4 5 0.
Proof.
  cbv zeta. split; [vm_compute; discriminate|].
  split; [unfold in_cell, frac_in; cbn; repeat split; try discriminate; lia|].
  split; [unfold in_cell, frac_in; cbn; repeat split; try discriminate; lia|].
  split; [unfold admissible; cbn; repeat split; intros E; try discriminate E; reflexivity|].
  split; [vm_compute; discriminate|]. vm_compute. reflexivity.
Qed.

(* the example is an instance of the theorem *)
Example copies_suffice_example_box :
  in_box (n_copies (mk3 4 0 0) (mk3 1 3 0) (mk3 0 1 5) (mkP true true false) (14 * 14)) (mk3 (-1) 1 0).
Proof.
  destruct copies_suffice_example as (H1 & H2 & H3 & H4 & H5 & _).
  apply (copies_suffice _ _ _ _ _ (mk3 1 2 7) (mk3 4 2 (-3))); auto; lia.
Qed.

Print Assumptions copies_suffice.
Print Assumptions extended_covers.
Print Assumptions extended_exactly_once.
Print Assumptions extended_covers_completed.
Print Assumptions copies_suffice_1d.
