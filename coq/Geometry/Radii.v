(* Model of the float values and of matid.geometry.get_radii used by C19.
   A double is modelled as [option Q]: [None] is NaN, [Some q] the exact decimal value of the
   literal.  Comparisons follow IEEE-754: every comparison with NaN is false except [!=]. *)
From Coq Require Import QArith List Bool.
Import ListNotations.

Definition fl := option Q.
Definition fnan : fl := None.
Definition fconst (q : Q) : fl := Some q.
Definition fisnan (a : fl) : bool := match a with None => true | Some _ => false end.
Definition feq (a b : fl) : bool := match a, b with Some x, Some y => Qeq_bool x y | _, _ => false end.
Definition fne (a b : fl) : bool := negb (feq a b).
Definition flt (a b : fl) : bool := match a, b with Some x, Some y => negb (Qle_bool y x) | _, _ => false end.
Definition fle (a b : fl) : bool := match a, b with Some x, Some y => Qle_bool x y | _, _ => false end.
Definition fgt (a b : fl) : bool := flt b a.
Definition fge (a b : fl) : bool := fle b a.

(* numpy indexing table[i] for 0 <= i < len; out of range is an IndexError in the code and
   is excluded by the statements (they quantify over i < length table). *)
Definition get (t : list fl) (i : nat) : fl := nth i t None.

Inductive preset := Covalent | Vdw | VdwCovalent.

Inductive radii_spec :=
| Preset (p : preset)
| Custom (arr : list fl).

Section GetRadii.
  Variable preset_table : preset -> list fl.
  (* get_radii(radii, atomic_numbers): a preset is resolved and indexed by atomic number,
     anything that is not a string is returned unchanged. *)
  Definition get_radii (r : radii_spec) (nums : list nat) : list fl :=
    match r with
    | Preset p => map (get (preset_table p)) nums
    | Custom arr => arr
    end.

  Lemma get_radii_custom arr nums : get_radii (Custom arr) nums = arr.
  Proof. reflexivity. Qed.

  (* A consumer (get_dimensionality, get_distances, SBC.get_clusters) is any function of the
     resolved array and of everything else; the translator checks on the source that the raw
     `radii` argument is used only as the first argument of get_radii. *)
  Lemma consumer_preset_eq_custom (A B : Type) (consumer : list fl -> A -> B) p nums rest :
    consumer (get_radii (Preset p) nums) rest
    = consumer (get_radii (Custom (get_radii (Preset p) nums)) nums) rest.
  Proof. reflexivity. Qed.
End GetRadii.

Definition positive_finite (a : fl) : bool := match a with Some q => negb (Qle_bool q 0) | None => false end.
Definition fl_eqb (a b : fl) : bool :=
  match a, b with None, None => true | Some x, Some y => Qeq_bool x y | _, _ => false end.

Lemma fl_eqb_eq a b : fl_eqb a b = true -> match a, b with None, None => True | Some x, Some y => x == y | _, _ => False end.
Proof. destruct a, b; simpl; intro H; try discriminate; auto. apply Qeq_bool_eq; assumption. Qed.

(* bounded universal quantification by computation *)
Lemma forallb_range (P : nat -> bool) lo n :
  forallb P (seq lo n) = true -> forall z, (lo <= z < lo + n)%nat -> P z = true.
Proof.
  intros H z Hz. rewrite forallb_forall in H. apply H. apply in_seq. exact Hz.
Qed.
