(* non-vacuity of Geometry/SubTable.v: the hypotheses of [shortcut_eq_direct_geometric] are met by the C10 model itself *)
From Coq Require Import List Arith Bool ZArith QArith Lia PeanoNat.
From MV Require Import Base.ZV3 Base.Graph Base.Cover Geometry.Extend Geometry.DispTensor Geometry.Dimensionality
  Geometry.DimensionalityProofs Geometry.DimFromTensor Geometry.SubTable.
Import ListNotations.
Local Open Scope Z_scope.

Definition xa := mk3 8 0 0. Definition xb := mk3 3 6 0. Definition xc := mk3 0 0 20.
Definition xpbc := mkP true true false.
Definition xpos := [mk3 1 1 1; mk3 5 3 9; mk3 5 3 2].          (* the middle atom is not part of the cluster *)
Definition xsub := [mk3 1 1 1; mk3 5 3 2].
Definition xsel (i : nat) : nat := match i with 0%nat => 0%nat | _ => 2%nat end.
Definition xrad (_ : nat) : Z := 2.
Definition xthr : Z := 2.
Definition XCUT : Z := 9.                                       (* cutoff of the table of the whole structure *)
Definition XTAB := tensor_tab (1 # 4) xa xb xc xpbc xpos XCUT.
Definition xown := tensor_tab (1 # 4) xa xb xc xpbc xsub (cutoff 2 xrad xthr).
Definition xtab2 := tab_2x (1 # 4) xa xb xc xpbc xsub xrad xthr.

Lemma x_in_cell l : (forall r, In r l -> In r xpos) -> forall r, In r l -> in_cell xa xb xc xpbc r.
Proof.
  intros Hl r Hr. specialize (Hl r Hr). simpl in Hl.
  destruct Hl as [<-|[<-|[<-|[]]]]; vm_compute; intuition congruence.
Qed.

Example shortcut_example :
  tab_spec (p_of xpbc) (img_d2 xa xb xc (fun i => nth i xpos zero3)) 3 XCUT XTAB
  /\ tab_spec (p_of xpbc) (img_d2 xa xb xc (fun i => nth (xsel i) xpos zero3)) 2 (cutoff 2 xrad xthr) xown
  /\ get_dim_metric 2 (p_of xpbc) xrad xthr (fun i j => XTAB (xsel i) (xsel j)) xtab2 = Some 2
  /\ get_dim_metric 2 (p_of xpbc) xrad xthr xown xtab2 = Some 2.
Proof.
  split; [|split; [|split]].
  - apply (tensor_tab_spec (1 # 4) xa xb xc xpbc xpos XCUT); [reflexivity | reflexivity | vm_compute; discriminate |].
    apply x_in_cell. auto.
  - eapply tab_spec_ext; [|apply (tensor_tab_spec (1 # 4) xa xb xc xpbc xsub (cutoff 2 xrad xthr));
                            [reflexivity | reflexivity | vm_compute; discriminate |]].
    + intros i j o Hi Hj. unfold img_d2.
      assert (Hn : forall k, (k < 2)%nat -> nth k xsub zero3 = nth (xsel k) xpos zero3).
      { intros k Hk. destruct k as [|[|k]]; [reflexivity | reflexivity | simpl in Hk; lia]. }
      simpl length in Hi, Hj. rewrite (Hn i Hi), (Hn j Hj). reflexivity.
    + apply x_in_cell. intros r [<-|[<-|[]]]; simpl; auto.
  - vm_compute. reflexivity.
  - vm_compute. reflexivity.
Qed.
