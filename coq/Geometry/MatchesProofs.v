(* C16: neighbour query sound and complete; position matching trichotomy. *)
From Coq Require Import ZArith QArith List Bool Lia Permutation.
From MV Require Import Base.ZV3 Geometry.Extend Geometry.ExtendProofs Geometry.CellList Geometry.CellListProofs Geometry.Matches.
Import ListNotations.
Open Scope Z_scope.

Lemma row_step_not_None acc r : row_step acc r <> None.
Proof. destruct acc as [b0|]; simpl; [destruct (r_d2 r <? r_d2 b0)|]; discriminate. Qed.

Lemma fold_row_step_spec rows : forall acc,
  match fold_left row_step rows acc with
  | None => acc = None /\ rows = []
  | Some b => (In b rows \/ acc = Some b) /\ (forall r, In r rows -> r_d2 b <= r_d2 r) /\
              (forall a, acc = Some a -> r_d2 b <= r_d2 a)
  end.
Proof.
  induction rows as [|x rows IH]; intro acc; simpl.
  - destruct acc as [b0|]; [|split; reflexivity].
    split; [right; reflexivity|]. split; [intros r []|]. intros a0 [= ->]. lia.
  - specialize (IH (row_step acc x)).
    destruct (fold_left row_step rows (row_step acc x)) as [b0|].
    + destruct IH as (H1 & H2 & H3).
      destruct acc as [a0|]; simpl in *.
      * destruct (Z.ltb_spec (r_d2 x) (r_d2 a0)) as [Hlt|Hge].
        -- pose proof (H3 x eq_refl) as Hx.
           split; [|split].
           ++ destruct H1 as [H1|[= <-]]; auto.
           ++ intros r [<-|Hr]; auto.
           ++ intros a1 [= <-]. lia.
        -- pose proof (H3 a0 eq_refl) as Hx.
           split; [|split].
           ++ destruct H1 as [H1|[= <-]]; auto.
           ++ intros r [<-|Hr]; auto. lia.
           ++ intros a1 [= <-]. lia.
      * pose proof (H3 x eq_refl) as Hx.
        split; [|split].
        -- destruct H1 as [H1|[= <-]]; auto.
        -- intros r [<-|Hr]; auto.
        -- intros a1 [=].
    + destruct IH as [H _]. exfalso. exact (row_step_not_None _ _ H).
Qed.

Lemma argmin_row_spec rows :
  match argmin_row rows with
  | None => rows = []
  | Some b => In b rows /\ forall r, In r rows -> r_d2 b <= r_d2 r
  end.
Proof.
  unfold argmin_row. pose proof (fold_row_step_spec rows None) as H.
  destruct (fold_left row_step rows None) as [b0|].
  - destruct H as ([H|H] & H2 & _); [|discriminate]. split; assumption.
  - apply H.
Qed.

(* ---------- generic list helpers ---------- *)
Lemma NoDup_map_inj_of {A B} (f : A -> B) (l : list A) :
  NoDup (map f l) -> forall x y, In x l -> In y l -> f x = f y -> x = y.
Proof.
  induction l as [|h t IH]; simpl; intros Hnd x y Hx Hy E; [contradiction|].
  inversion Hnd as [|? ? Hnin Hnd']; subst.
  destruct Hx as [<-|Hx], Hy as [<-|Hy]; auto.
  - exfalso. apply Hnin. rewrite E. apply in_map. assumption.
  - exfalso. apply Hnin. rewrite <- E. apply in_map. assumption.
Qed.

Lemma NoDup_map_inj_on {A B} (f : A -> B) (l : list A) :
  (forall x y, In x l -> In y l -> f x = f y -> x = y) -> NoDup l -> NoDup (map f l).
Proof.
  intros Hinj Hnd. induction Hnd as [|x l Hnin Hnd IH]; simpl; constructor.
  - intros Hm. apply in_map_iff in Hm as (y & Hy & Hin).
    assert (y = x) by (apply Hinj; simpl; auto). subst. contradiction.
  - apply IH. intros; apply Hinj; simpl; auto.
Qed.

Lemma NoDup_map_incl {A B} (f : A -> B) (l l' : list A) :
  NoDup (map f l) -> NoDup l' -> incl l' l -> NoDup (map f l').
Proof.
  intros Hnd Hnd' Hincl. apply NoDup_map_inj_on; [|assumption].
  intros x y Hx Hy. apply (NoDup_map_inj_of f l Hnd); apply Hincl; assumption.
Qed.

Lemma map_snd_combine_seq {A} (l : list A) : forall s, map snd (combine (seq s (length l)) l) = l.
Proof. induction l as [|h t IH]; intro s; simpl; [reflexivity|]. f_equal. apply IH. Qed.
Lemma map_snd_indexed {A} (l : list A) : map snd (indexed l) = l.
Proof. apply map_snd_combine_seq. Qed.

Lemma nth_error_atoms (pos : list v3) : forall i at_,
  nth_error (map (fun p => mkA p 0) pos) i = Some at_ ->
  (i < length pos)%nat /\ at_ = mkA (nth i pos zero3) 0.
Proof.
  induction pos as [|h t IH]; destruct i; simpl; intros at_ H; try discriminate.
  - injection H as <-. split; [lia|reflexivity].
  - apply IH in H as [? ?]. split; [lia|assumption].
Qed.
Lemma nth_error_atoms_rev (pos : list v3) : forall j, (j < length pos)%nat ->
  nth_error (map (fun p => mkA p 0) pos) j = Some (mkA (nth j pos zero3) 0).
Proof.
  induction pos as [|h t IH]; destruct j; simpl; intros H; try lia; [reflexivity|].
  apply IH. lia.
Qed.

Lemma eff_pbc_adm a b c pbc f : vol a b c <> 0 ->
  admissible (eff_pbc a b c pbc) f -> admissible pbc f.
Proof.
  intros HV. destruct (vol_nonzero_not_isz a b c HV) as (Ha & Hb & Hc).
  unfold admissible, eff_pbc; simpl. rewrite Ha, Hb, Hc; simpl. rewrite !andb_true_r. tauto.
Qed.

Section Query.
  Variables (p : Q) (a b c : v3) (pbc : pbc3) (ext2 : Z) (cu : cut) (pos : list v3).
  Hypothesis Hp : (0 < p)%Q.
  Hypothesis Hvol : vol a b c <> 0.
  Hypothesis Hcut : cut_pos cu.
  Hypothesis Hext : 0 <= ext2.
  Hypothesis Hin : forall r, In r pos -> in_cell a b c pbc r.

  Let pts := cell_list_points a b c pbc ext2 pos.
  Let g := mk_geom p cu pts.
  Let n := length pos.
  (* vector from the image (j, f) to the query point *)
  Definition to_image (q : v3) (j : nat) (f : v3) : v3 :=
    sub q (add (nth j pos zero3) (latv a b c f)).

  (* C16 query_sound_complete.  Soundness holds for every query point; completeness for query
     points of the half-open cell and images within the extension (extension and cutoff in
     either order: an image is reported iff it is within the cutoff, provided it is within ext). *)
  Definition query_sound_complete_statement : Prop :=
    forall q,
    let rows := neighbours g pts q in
    (forall r, In r rows ->
       (r_orig r < n)%nat /\ admissible pbc (r_fac r) /\
       r_disp r = to_image q (r_orig r) (r_fac r) /\ r_d2 r = norm2 (r_disp r) /\
       within cu q (add (nth (r_orig r) pos zero3) (latv a b c (r_fac r))) = true /\
       exists e, nth_error pts (r_idx r) = Some e /\ e_idx e = r_orig r /\ e_fac e = r_fac r) /\
    NoDup (map (fun r => (r_orig r, r_fac r)) rows) /\ NoDup (map r_idx rows) /\
    (in_cell a b c pbc q ->
     forall j f, (j < n)%nat -> admissible pbc f ->
       norm2 (to_image q j f) <= ext2 ->
       within cu q (add (nth j pos zero3) (latv a b c f)) = true ->
       exists r, In r rows /\ r_orig r = j /\ r_fac r = f).

  Lemma pts_in e : In e pts ->
    exists i f, (i < n)%nat /\ admissible pbc f /\
                e = mkE (add (nth i pos zero3) (latv a b c f)) 0 i f.
  Proof.
    intros He.
    pose proof (extended_exactly_once a b c pbc ext2 (map (fun p0 => mkA p0 0) pos)) as H.
    cbv zeta in H. destruct H as (H1 & _ & _ & _ & H5 & _).
    pose proof (H5 e He) as Hadm.
    apply H1 in He. destruct He as (i & at_ & f & Hn & _ & ->).
    apply nth_error_atoms in Hn. destruct Hn as [Hi ->].
    exists i, f. simpl in *. split; [exact Hi|]. split; [|reflexivity].
    apply (eff_pbc_adm a b c); assumption.
  Qed.

  Lemma pts_keys_NoDup : NoDup (map (fun e => (e_idx e, e_fac e)) pts).
  Proof.
    pose proof (extended_exactly_once a b c pbc ext2 (map (fun p0 => mkA p0 0) pos)) as H.
    cbv zeta in H. destruct H as (_ & H2 & _). exact H2.
  Qed.

  Lemma pts_covers q j f : in_cell a b c pbc q -> (j < n)%nat -> admissible pbc f ->
    norm2 (to_image q j f) <= ext2 ->
    In (mkE (add (nth j pos zero3) (latv a b c f)) 0 j f) pts.
  Proof.
    intros Hq Hj Hadm Hd.
    apply (extended_covers a b c pbc ext2 (map (fun p0 => mkA p0 0) pos) q j
             (mkA (nth j pos zero3) 0) f Hvol Hext).
    - intros at' Hat. apply in_map_iff in Hat. destruct Hat as (r & <- & Hr). simpl. apply Hin, Hr.
    - exact Hq.
    - apply nth_error_atoms_rev. exact Hj.
    - exact Hadm.
    - exact Hd.
  Qed.

  Theorem query_sound_complete : query_sound_complete_statement.
  Proof.
    unfold query_sound_complete_statement. intros q. cbv zeta.
    set (rows := neighbours g pts q).
    pose proof (query_eq_filter p cu pts q Hp Hcut) as HQ. cbv zeta in HQ.
    destruct HQ as (Hq1 & Hq2 & _). fold g in Hq1, Hq2.
    split; [|split; [|split]].
    - intros r Hr. unfold rows, neighbours in Hr. apply in_map_iff in Hr.
      destruct Hr as ([k e] & <- & Hie).
      apply Hq1 in Hie. destruct Hie as [Hidx Hw]. apply in_indexed in Hidx.
      pose proof (nth_error_In _ _ Hidx) as He. apply pts_in in He.
      destruct He as (i & f & Hi & Hadm & ->). simpl in *.
      split; [exact Hi|]. split; [exact Hadm|]. split; [reflexivity|]. split; [reflexivity|].
      split; [exact Hw|]. eexists; split; [exact Hidx|]. split; reflexivity.
    - unfold rows, neighbours. rewrite map_map. simpl.
      apply NoDup_map_incl with (l := indexed pts).
      + assert (E : map (fun x : nat * eatom => (e_idx (snd x), e_fac (snd x))) (indexed pts)
                    = map (fun e => (e_idx e, e_fac e)) pts).
        { rewrite <- (map_snd_indexed pts) at 2. rewrite map_map. reflexivity. }
        rewrite E. apply pts_keys_NoDup.
      + exact Hq2.
      + intros ie H. apply Hq1 in H. tauto.
    - unfold rows, neighbours. rewrite map_map. simpl.
      apply NoDup_map_incl with (l := indexed pts).
      + apply (NoDup_indexed_fst pts).
      + exact Hq2.
      + intros ie H. apply Hq1 in H. tauto.
    - intros Hq j f Hj Hadm Hd Hw.
      pose proof (pts_covers q j f Hq Hj Hadm Hd) as He.
      apply In_nth_error in He. destruct He as [k Hk].
      exists (row_of q (k, mkE (add (nth j pos zero3) (latv a b c f)) 0 j f)).
      split; [|split; reflexivity].
      unfold rows, neighbours. apply in_map. apply Hq1. split.
      + apply in_indexed. exact Hk.
      + simpl. exact Hw.
  Qed.

  (* ---- matching ---- *)
  Variables (nums : list Z) (tol : Z).
  Hypothesis Hnums : length nums = length pos.
  Hypothesis Htol : 0 <= tol.
  Hypothesis Htol_ext : tol * tol <= ext2.
  Hypothesis Htol_cut : match cu with Fin c0 => tol <= c0 | Inf => True end.

  Definition nearest_image (q : v3) (j : nat) (f : v3) : Prop :=
    forall j' f', (j' < n)%nat -> admissible pbc f' -> norm2 (to_image q j f) <= norm2 (to_image q j' f').
  Definition nothing_within (q : v3) : Prop :=
    forall j f, (j < n)%nat -> admissible pbc f -> tol * tol < norm2 (to_image q j f).

  (* C16 match_trichotomy for one probe (q, z) of get_matches *)
  Definition match_trichotomy_statement : Prop :=
    forall q z, in_cell a b c pbc q ->
    let res := match_one a b c nums tol (neighbours g pts q) q z in
    (* vacancy iff nothing lies within the tolerance; copy index = floor of the scaled position *)
    ((exists f, res = Vacancy f) <-> nothing_within q) /\
    (forall f, res = Vacancy f -> f = floor_scaled a b c q) /\
    (* otherwise the reported (index, copy index) is a nearest image within the tolerance ... *)
    (forall j f, (res = Match j f \/ exists z1 z2, res = Subst j f z1 z2) ->
       (j < n)%nat /\ admissible pbc f /\ norm2 (to_image q j f) <= tol * tol /\ nearest_image q j f) /\
    (* ... a match iff the species agree, else a substitution recording both species *)
    (forall j f, res = Match j f -> nth j nums 0 = z) /\
    (forall j f z1 z2, res = Subst j f z1 z2 -> z1 = z /\ z2 = nth j nums 0 /\ z2 <> z).

  Lemma rows_facts q : in_cell a b c pbc q ->
    let rows := neighbours g pts q in
    (forall r, In r rows ->
       (r_orig r < n)%nat /\ admissible pbc (r_fac r) /\
       r_disp r = to_image q (r_orig r) (r_fac r) /\
       r_d2 r = norm2 (to_image q (r_orig r) (r_fac r))) /\
    (forall j f, (j < n)%nat -> admissible pbc f -> norm2 (to_image q j f) <= tol * tol ->
       exists r, In r rows /\ r_orig r = j /\ r_fac r = f).
  Proof.
    intros Hq rows. pose proof (query_sound_complete q) as H. cbv zeta in H. fold rows in H.
    destruct H as (Hs & _ & _ & Hc). split.
    - intros r Hr. destruct (Hs r Hr) as (H1 & H2 & H3 & H4 & _).
      split; [exact H1|]. split; [exact H2|]. split; [exact H3|]. rewrite H4, H3. reflexivity.
    - intros j f Hj Hadm Hd. apply (Hc Hq j f Hj Hadm); [lia|].
      unfold within. destruct cu as [c0|]; [|reflexivity].
      apply Z.leb_le. change (norm2 (to_image q j f) <= c0 * c0). simpl in Hcut. nia.
  Qed.

  Lemma best_spec q : in_cell a b c pbc q ->
    match argmin_row (neighbours g pts q) with
    | None => nothing_within q
    | Some r =>
      (r_orig r < n)%nat /\ admissible pbc (r_fac r) /\
      r_disp r = to_image q (r_orig r) (r_fac r) /\
      r_d2 r = norm2 (to_image q (r_orig r) (r_fac r)) /\
      (r_d2 r <= tol * tol -> nearest_image q (r_orig r) (r_fac r)) /\
      (tol * tol < r_d2 r -> nothing_within q)
    end.
  Proof.
    intros Hq. pose proof (rows_facts q Hq) as H. cbv zeta in H. destruct H as (Hs & Hc).
    pose proof (argmin_row_spec (neighbours g pts q)) as Ha.
    destruct (argmin_row (neighbours g pts q)) as [r|].
    - destruct Ha as (Hr & Hmin). destruct (Hs r Hr) as (H1 & H2 & H3 & H4).
      split; [exact H1|]. split; [exact H2|]. split; [exact H3|]. split; [exact H4|]. split.
      + intros Hle j' f' Hj' Hadm'.
        destruct (Z_le_gt_dec (norm2 (to_image q j' f')) (tol * tol)) as [Hw|Hw].
        * destruct (Hc j' f' Hj' Hadm' Hw) as (r' & Hr' & <- & <-).
          destruct (Hs r' Hr') as (_ & _ & _ & H4'). rewrite <- H4, <- H4'. apply Hmin, Hr'.
        * rewrite <- H4. lia.
      + intros Hgt j f Hj Hadm.
        destruct (Z_le_gt_dec (norm2 (to_image q j f)) (tol * tol)) as [Hw|Hw]; [|lia].
        exfalso. destruct (Hc j f Hj Hadm Hw) as (r' & Hr' & <- & <-).
        destruct (Hs r' Hr') as (_ & _ & _ & H4'). pose proof (Hmin r' Hr'). lia.
    - intros j f Hj Hadm.
      destruct (Z_le_gt_dec (norm2 (to_image q j f)) (tol * tol)) as [Hw|Hw]; [|lia].
      exfalso. destruct (Hc j f Hj Hadm Hw) as (r' & Hr' & _). rewrite Ha in Hr'. exact Hr'.
  Qed.

  Theorem match_trichotomy : match_trichotomy_statement.
  Proof.
    unfold match_trichotomy_statement. intros q z Hq. cbv zeta.
    pose proof (best_spec q Hq) as HB. unfold match_one.
    destruct (argmin_row (neighbours g pts q)) as [r|].
    - destruct HB as (H1 & H2 & H3 & H4 & Hnear & Hnone).
      destruct (Z.leb_spec (r_d2 r) (tol * tol)) as [Hle|Hgt].
      + assert (Hnot : ~ nothing_within q).
        { intros Hn. specialize (Hn _ _ H1 H2). lia. }
        destruct (Z.eqb_spec (nth (r_orig r) nums 0) z) as [Heq|Hne].
        * split; [split; [intros [f [=]] | intros; contradiction]|].
          split; [intros f [=]|].
          split; [intros j f [[= <- <-] | (z1 & z2 & [=])];
                  split; [exact H1|]; split; [exact H2|]; split; [lia|]; apply Hnear, Hle|].
          split; [intros j f [= <- <-]; exact Heq|].
          intros j f z1 z2 [=].
        * split; [split; [intros [f [=]] | intros; contradiction]|].
          split; [intros f [=]|].
          split; [intros j f [[=] | (z1 & z2 & [= <- <- _ _])];
                  split; [exact H1|]; split; [exact H2|]; split; [lia|]; apply Hnear, Hle|].
          split; [intros j f [=]|].
          intros j f z1 z2 [= <- _ <- <-]. split; [reflexivity|]. split; [reflexivity|exact Hne].
      + split; [split; [intros _; apply Hnone, Hgt | intros _; eexists; reflexivity]|].
        split; [intros f [= <-]; reflexivity|].
        split; [intros j f [[=] | (z1 & z2 & [=])]|].
        split; [intros j f [=]|]. intros j f z1 z2 [=].
    - split; [split; [intros _; exact HB | intros _; eexists; reflexivity]|].
      split; [intros f [= <-]; reflexivity|].
      split; [intros j f [[=] | (z1 & z2 & [=])]|].
      split; [intros j f [=]|]. intros j f z1 z2 [=].
  Qed.

  (* C16 match_species (reused by C03) *)
  Theorem match_species q z j f :
    match_one a b c nums tol (neighbours g pts q) q z = Match j f -> nth j nums 0 = z.
  Proof.
    unfold match_one. destruct (argmin_row (neighbours g pts q)) as [r|]; [|discriminate].
    destruct (r_d2 r <=? tol * tol); [|discriminate].
    destruct (Z.eqb_spec (nth (r_orig r) nums 0) z) as [Heq|Hne]; [|discriminate].
    intros [= <- _]. exact Heq.
  Qed.

  (* get_matches_simple, on an (already wrapped) position w of the cell *)
  Theorem match_simple_spec w z : in_cell a b c pbc w ->
    let res := match_simple_one nums tol (neighbours g pts w) z in
    (forall j d, res = Some (j, d) ->
       (j < n)%nat /\ nth j nums 0 = z /\
       exists f, admissible pbc f /\ d = to_image w j f /\ norm2 d <= tol * tol /\ nearest_image w j f) /\
    (res = None ->
       nothing_within w \/
       exists j f, (j < n)%nat /\ admissible pbc f /\ norm2 (to_image w j f) <= tol * tol /\
                   nearest_image w j f /\ nth j nums 0 <> z).
  Proof.
    intros Hw. cbv zeta. pose proof (best_spec w Hw) as HB. unfold match_simple_one.
    destruct (argmin_row (neighbours g pts w)) as [r|].
    - destruct HB as (H1 & H2 & H3 & H4 & Hnear & Hnone).
      destruct (Z.leb_spec (r_d2 r) (tol * tol)) as [Hle|Hgt]; simpl.
      + destruct (Z.eqb_spec (nth (r_orig r) nums 0) z) as [Heq|Hne].
        * split; [|discriminate]. intros j d [= <- <-].
          split; [exact H1|]. split; [exact Heq|]. exists (r_fac r).
          split; [exact H2|]. split; [exact H3|]. split; [rewrite H3; lia|]. apply Hnear, Hle.
        * split; [discriminate|]. intros _. right. exists (r_orig r), (r_fac r).
          split; [exact H1|]. split; [exact H2|]. split; [lia|]. split; [apply Hnear, Hle|exact Hne].
      + split; [discriminate|]. intros _. left. apply Hnone, Hgt.
    - split; [discriminate|]. intros _. left. exact HB.
  Qed.
End Query.

Lemma D1_latv a b c nv : D1 a b c (latv a b c nv) = vx nv * vol a b c.
Proof. unfold latv. apply D1_lat. Qed.
Lemma D2_latv a b c nv : D2 a b c (latv a b c nv) = vy nv * vol a b c.
Proof. unfold D2, latv, lat, vol, dot, cross, add, scale; simpl; ring. Qed.
Lemma D3_latv a b c nv : D3 a b c (latv a b c nv) = vz nv * vol a b c.
Proof. unfold D3, latv, lat, vol, dot, cross, add, scale; simpl; ring. Qed.
Lemma D2_sub a b c p q : D2 a b c (sub p q) = D2 a b c p - D2 a b c q.
Proof. unfold D2, dot, cross, sub; simpl; ring. Qed.
Lemma D3_sub a b c p q : D3 a b c (sub p q) = D3 a b c p - D3 a b c q.
Proof. unfold D3, dot, cross, sub; simpl; ring. Qed.

Lemma frac_in_mod V x : V <> 0 -> frac_in V (x - (x / V) * V).
Proof.
  intros HV. replace (x - x / V * V) with (x mod V) by (rewrite Z.mod_eq by exact HV; ring).
  unfold frac_in. destruct (Z.lt_total V 0) as [Hn|[H0|Hp]]; [| contradiction |].
  - pose proof (Z.mod_neg_bound x V Hn). rewrite (Z.sgn_neg V Hn), (Z.abs_neq V) by lia. lia.
  - pose proof (Z.mod_pos_bound x V Hp). rewrite (Z.sgn_pos V Hp), (Z.abs_eq V) by lia. lia.
Qed.

(* exact wrapping puts a position into the half-open cell by an admissible lattice vector *)
Lemma wrap_exact_in_cell a b c pbc q : vol a b c <> 0 ->
  in_cell a b c pbc (wrap_exact a b c pbc q) /\
  exists nv, admissible pbc nv /\ wrap_exact a b c pbc q = sub q (latv a b c nv).
Proof.
  intros HV. split.
  - unfold in_cell. cbv zeta. split; [|split]; intros Hp; unfold wrap_exact; cbv zeta.
    + rewrite D1_sub, D1_latv. cbn [vx vy vz]. rewrite Hp. unfold floor_scaled. cbn [vx vy vz].
      apply frac_in_mod, HV.
    + rewrite D2_sub, D2_latv. cbn [vx vy vz]. rewrite Hp. unfold floor_scaled. cbn [vx vy vz].
      apply frac_in_mod, HV.
    + rewrite D3_sub, D3_latv. cbn [vx vy vz]. rewrite Hp. unfold floor_scaled. cbn [vx vy vz].
      apply frac_in_mod, HV.
  - unfold wrap_exact. cbv zeta. eexists. split; [|reflexivity].
    unfold admissible. cbn [vx vy vz]. repeat split; intros ->; reflexivity.
Qed.

(* non-vacuity *)
Example match_example :
  let a := mk3 8 0 0 in let b := mk3 3 6 0 in let c := mk3 0 0 10 in
  let pbc := mkP true true false in
  let pos := [mk3 1 1 1; mk3 9 5 2] in
  let pts := cell_list_points a b c pbc (6 * 6) pos in
  let g := mk_geom (1 # 10000) (Fin 5) pts in
  vol a b c <> 0 /\ (forall r, In r pos -> in_cell a b c pbc r) /\ in_cell a b c pbc (mk3 2 4 2) /\
  match_one a b c [14; 8] 2 (neighbours g pts (mk3 2 4 2)) (mk3 2 4 2) 8 = Match 1 (mk3 (-1) 0 0) /\
  match_one a b c [14; 8] 2 (neighbours g pts (mk3 2 4 2)) (mk3 2 4 2) 14 = Subst 1 (mk3 (-1) 0 0) 14 8 /\
  match_one a b c [14; 8] 2 (neighbours g pts (mk3 5 3 6)) (mk3 5 3 6) 8 = Vacancy (mk3 0 0 0).
Proof.
  cbv zeta. split; [vm_compute; discriminate|].
  split; [simpl; intros r [<-|[<-|[]]]; vm_compute; repeat split; intros; try discriminate; reflexivity|].
  split; [vm_compute; repeat split; intros; try discriminate; reflexivity|].
  split; [vm_compute; reflexivity|]. split; vm_compute; reflexivity.
Qed.

Print Assumptions query_sound_complete.
Print Assumptions match_trichotomy.
Print Assumptions match_species.
Print Assumptions match_simple_spec.
