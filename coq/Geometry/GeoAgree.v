(* Agreement relations of the C10 / C16 correspondence: Coq functions evaluated by vm_compute on
   (input, canonicalised implementation output).  Every number coming from the implementation is
   the exact rational value of a double, already multiplied by the grid factor 2^12 (lengths) or
   2^24 (squared lengths), so that a correct implementation yields integers wherever the model has
   integers; they are passed as Q and compared exactly (Qeq), except:
     * a distance d is accepted iff d >= 0 and |d^2 - d2| <= 2^-51 * d2  (one correctly rounded sqrt);
     * the copy counts N used by the implementation are an input of the model (so that a boundary
       decision of ceil() does not cascade); they are accepted iff  n_copies <= N <= n_copies_hi,
       where n_copies_hi is the model's count for an extension larger by the factor (1 + 2^-40)^(1/2);
     * bin geometry (xmin, xmax, dx) within 2^-20 grid units; nx equal to the model's value for a
       span within 2^-20 grid units of the exact one;
     * floor(scaled position) of a vacancy: within the values obtained for s -/+ 2^-24.
   "The reported factor is one of the minimisers" rather than "equals the model's choice". *)
From Coq Require Import ZArith QArith Qround Qabs List Bool.
From MV Require Import Base.ZV3 Geometry.Extend Geometry.CellList Geometry.DispTensor Geometry.Matches.
Import ListNotations.
Open Scope Z_scope.

Definition q3 := (Q * Q * Q)%type.
Definition qz (x : Q) (z : Z) : bool := Qeq_bool x (inject_Z z).
Definition q3_eq_v (x : q3) (v : v3) : bool :=
  match x with (x1, x2, x3) => qz x1 (vx v) && qz x2 (vy v) && qz x3 (vz v) end.
Definition q3_neg_eq (x y : q3) : bool :=
  match x, y with (x1, x2, x3), (y1, y2, y3) =>
    Qeq_bool x1 (- y1) && Qeq_bool x2 (- y2) && Qeq_bool x3 (- y3) end.
Definition q_int (x : Q) : option Z :=
  let f := Qfloor x in if Qeq_bool x (inject_Z f) then Some f else None.
Definition q3_int (x : q3) : option v3 :=
  match x with (x1, x2, x3) =>
    match q_int x1, q_int x2, q_int x3 with
    | Some a, Some b, Some c => Some (mk3 a b c)
    | _, _, _ => None
    end end.
Definition in_box_b (Nv n : v3) : bool :=
  (Z.abs (vx n) <=? vx Nv) && (Z.abs (vy n) <=? vy Nv) && (Z.abs (vz n) <=? vz Nv).
Definition le3 (a b : v3) : bool := (vx a <=? vx b) && (vy a <=? vy b) && (vz a <=? vz b).

Definition two40 : Z := 2 ^ 40.
Definition two20 : Z := 2 ^ 20.
(* copies for an extension larger by the relative amount 2^-40 in the square (scaling the cell by
   L multiplies N^2 vol^2 / |a_j x a_k|^2 by L^2 for every branch of n_copies) *)
Definition n_copies_hi (a b c : v3) (pbc : pbc3) (ext2 : Z) : v3 :=
  n_copies (scale two20 a) (scale two20 b) (scale two20 c) pbc (ext2 * (two40 + 1)).
Definition n_ok (a b c : v3) (pbc : pbc3) (ext2 : Z) (Nimpl : v3) : bool :=
  le3 (n_copies a b c pbc ext2) Nimpl && le3 Nimpl (n_copies_hi a b c pbc ext2).
(* is the implementation's choice a boundary one / does the exact model have a tie *)
Definition n_exact (a b c : v3) (pbc : pbc3) (ext2 : Z) (Nimpl : v3) : bool :=
  v3_eqb (n_copies a b c pbc ext2) Nimpl.

Definition two51 : Q := inject_Z (2 ^ 51).
Definition d_close (d : Q) (d2 : Z) : bool :=
  Qle_bool 0 d && Qle_bool (Qabs (d * d - inject_Z d2) * two51) (inject_Z d2).

(* ---------------------------------------------------------------------------------------- *)
(* C10 *)
Inductive ient := IInf | IFin (d : Q) (disp fac : q3) | IBad.

Definition pair_agree (a b c : v3) (pbc : pbc3) (Nimpl ri rj : v3) (m : option entry) (eij eji : ient) : bool :=
  match m, eij, eji with
  | None, IInf, IInf => true
  | Some me, IFin d disp fac, IFin d' disp' fac' =>
    match q3_int fac with
    | Some f =>
      let v := sub (sub ri rj) (latv a b c f) in
      admissible_b pbc f && in_box_b Nimpl f && q3_eq_v disp v && (norm2 v =? t_d2 me)
      && d_close d (t_d2 me) && Qeq_bool d d' && q3_neg_eq disp' disp && q3_neg_eq fac' fac
    | None => false
    end
  | _, _, _ => false
  end.

Definition diag_ok (e : ient) : bool :=
  match e with
  | IFin d disp fac => qz d 0 && q3_eq_v disp zero3 && q3_eq_v fac zero3
  | _ => false
  end.

Definition tab_get (tab : list (list ient)) (i j : nat) : ient := nth j (nth i tab []) IBad.

Definition c10_agree (p : Q) (a b c : v3) (pbc : pbc3) (cu : cut) (pos : list v3) (Nimpl : v3)
           (tab : list (list ient)) : bool :=
  let n := length pos in
  let R2 := cutoff_ext2 a b c pbc cu in
  match complete_cell a b c with
  | (a', b', c') =>
    let pts := extend_with a' b' c' Nimpl (map (fun q => mkA q 0) pos) in
    let rows := lower_rows p cu pts pos in
    n_ok a b c pbc R2 Nimpl
    && Nat.eqb (length tab) n && forallb (fun r => Nat.eqb (length r) n) tab
    && forallb (fun i =>
         diag_ok (tab_get tab i i)
         && forallb (fun j =>
              pair_agree a b c pbc Nimpl (nth i pos zero3) (nth j pos zero3)
                         (nth j (nth i rows []) None) (tab_get tab i j) (tab_get tab j i))
            (seq 0 i))
       (seq 0 n)
  end.

(* ---------------------------------------------------------------------------------------- *)
(* C16 (a): the extended system, exact order *)
Definition erow := (q3 * Z * Z * q3)%type.   (* position, atomic number, original index, factor *)
Definition erow_agree (m : eatom) (r : erow) : bool :=
  match r with (pos, num, idx, fac) =>
    q3_eq_v pos (e_pos m) && (num =? e_num m) && (idx =? Z.of_nat (e_idx m)) && q3_eq_v fac (e_fac m) end.
Fixpoint list_agree {A B} (f : A -> B -> bool) (l : list A) (l' : list B) : bool :=
  match l, l' with
  | [], [] => true
  | x :: t, y :: t' => f x y && list_agree f t t'
  | _, _ => false
  end.
Definition ext_agree (a b c : v3) (pbc : pbc3) (ext2 : Z) (atoms : list atom) (Nimpl : v3) (rows : list erow) : bool :=
  match complete_cell a b c with
  | (a', b', c') => n_ok a b c pbc ext2 Nimpl && list_agree erow_agree (extend_with a' b' c' Nimpl atoms) rows
  end.

(* C16 (b): neighbour queries and bin geometry *)
Definition irow := (Z * Z * Q * Q * q3 * q3)%type.  (* index, original index, d, d2, displacement, factor *)
Definition irow_idx (r : irow) : Z := match r with (i, _, _, _, _, _) => i end.
Definition row_agree (m : nrow) (r : irow) : bool :=
  match r with (i, o, d, d2, disp, fac) =>
    (i =? Z.of_nat (r_idx m)) && (o =? Z.of_nat (r_orig m)) && qz d2 (r_d2 m) && d_close d (r_d2 m)
    && q3_eq_v disp (r_disp m) && q3_eq_v fac (r_fac m) end.
(* same multiset: equal length and every model row has exactly one implementation row with its index,
   which agrees *)
Definition rows_agree (model : list nrow) (impl : list irow) : bool :=
  Nat.eqb (length model) (length impl)
  && forallb (fun m => match filter (fun r => irow_idx r =? Z.of_nat (r_idx m)) impl with
                       | [r] => row_agree m r
                       | _ => false
                       end) model.

Definition slack : Q := 1 # 1048576.   (* 2^-20 grid units *)
Definition q_near (x y : Q) : bool := Qle_bool (Qabs (x - y)) slack.
(* implementation axis: xmin, xmax, nx, dx (None = +inf) *)
Definition iaxis := (Q * Q * Z * option Q)%type.
Definition axis_agree (cu : cut) (m : axis) (r : iaxis) : bool :=
  match r with (lo, hi, n, d) =>
    q_near lo (ax_lo m) && q_near hi (ax_hi m)
    && match cu, d with
       | Inf, None => n =? 1
       | Fin c, Some dd =>
         let span := (ax_hi m - ax_lo m)%Q in
         let n_lo := Z.max 1 (qtrunc ((span - slack) / inject_Z c)) in
         let n_hi := Z.max 1 (qtrunc ((span + slack) / inject_Z c)) in
         (n_lo <=? n) && (n <=? n_hi) && q_near dd (qmax (inject_Z c) (span / inject_Z n))
       | _, _ => false
       end
  end.
Definition geom_agree (g : geom) (r : iaxis * iaxis * iaxis) : bool :=
  match r with (rx, ry, rz) =>
    axis_agree (g_cut g) (g_x g) rx && axis_agree (g_cut g) (g_y g) ry && axis_agree (g_cut g) (g_z g) rz end.
Definition axis_nx_exact (m : axis) (r : iaxis) : bool := match r with (_, _, n, _) => n =? ax_n m end.

Definition neighbours_fast (g : geom) (bn : list (v3 * (nat * eatom))) (q : v3) : list nrow :=
  map (row_of q) (query_fast g bn q).

Definition query_agree (p : Q) (a b c : v3) (pbc : pbc3) (ext2 : Z) (cu : cut) (pos : list v3) (Nimpl : v3)
           (gi : iaxis * iaxis * iaxis) (probes : list (v3 * list irow)) : bool :=
  match complete_cell a b c with
  | (a', b', c') =>
    let pts := extend_with a' b' c' Nimpl (map (fun q => mkA q 0) pos) in
    let g := mk_geom p cu pts in
    let bn := binned g pts in
    n_ok a b c pbc ext2 Nimpl && geom_agree g gi
    && forallb (fun pr => rows_agree (neighbours_fast g bn (fst pr)) (snd pr)) probes
  end.

(* C16 (c): get_matches *)
Inductive imres := IMatch (j : Z) (f : q3) | ISubst (j : Z) (f : q3) (zw zf : Z) | IVac (f : q3) | IMBad.

Definition min_d2 (rows : list nrow) : option Z :=
  fold_left (fun acc r => match acc with None => Some (r_d2 r) | Some m => Some (Z.min m (r_d2 r)) end) rows None.
Definition is_min_row (rows : list nrow) (dmin : Z) (j : Z) (f : v3) : bool :=
  existsb (fun m => (Z.of_nat (r_orig m) =? j) && v3_eqb (r_fac m) f && (r_d2 m =? dmin)) rows.

Definition two24 : Z := 2 ^ 24.
(* floor(D/V) allowing an error of 2^-24 on the quotient *)
Definition floor_ok (D V : Z) (f : Q) : bool :=
  match q_int f with
  | Some k =>
    let lo := (D * Z.sgn V * two24 - Z.abs V) / (Z.abs V * two24) in
    let hi := (D * Z.sgn V * two24 + Z.abs V) / (Z.abs V * two24) in
    (lo <=? k) && (k <=? hi)
  | None => false
  end.
Definition vac_ok (a b c q : v3) (f : q3) : bool :=
  let V := vol a b c in
  match f with (f1, f2, f3) =>
    floor_ok (D1 a b c q) V f1 && floor_ok (D2 a b c q) V f2 && floor_ok (D3 a b c q) V f3 end.
Definition vac_exact (a b c q : v3) (f : q3) : bool := q3_eq_v f (floor_scaled a b c q).

Definition match_agree (a b c : v3) (nums : list Z) (tol : Z) (rows : list nrow) (q : v3) (z : Z) (r : imres) : bool :=
  let within_tol := match min_d2 rows with Some m => m <=? tol * tol | None => false end in
  let dmin := match min_d2 rows with Some m => m | None => 0 end in
  match r with
  | IMatch j f =>
    match q3_int f with
    | Some fv => within_tol && is_min_row rows dmin j fv && (0 <=? j) && (nth (Z.to_nat j) nums (-1) =? z)
    | None => false end
  | ISubst j f zw zf =>
    match q3_int f with
    | Some fv => within_tol && is_min_row rows dmin j fv && (0 <=? j)
                 && negb (nth (Z.to_nat j) nums (-1) =? z) && (zw =? z) && (zf =? nth (Z.to_nat j) nums (-1))
    | None => false end
  | IVac f => negb within_tol && vac_ok a b c q f
  | IMBad => false
  end.

Definition matches_agree (p : Q) (a b c : v3) (pbc : pbc3) (ext2 : Z) (cu : cut) (pos : list v3) (nums : list Z)
           (tol : Z) (Nimpl : v3) (probes : list (v3 * Z * imres)) : bool :=
  match complete_cell a b c with
  | (a', b', c') =>
    let pts := extend_with a' b' c' Nimpl (map (fun q => mkA q 0) pos) in
    let g := mk_geom p cu pts in
    let bn := binned g pts in
    n_ok a b c pbc ext2 Nimpl
    && forallb (fun pr => match pr with (q, z, r) => match_agree a b c nums tol (neighbours_fast g bn q) q z r end) probes
  end.

(* C16 (d): get_matches_simple.  The implementation queries the cell list at the float position W
   produced by ase.geometry.wrap_positions (recorded by the harness); [nw] is the integer lattice
   vector with W ~ q - nw.cell.  The model is evaluated at the grid point w0 = q - nw.cell.  Because
   W differs from w0 by rounding noise (<< one grid unit of squared length), a case in which some
   stored point is at squared distance exactly cutoff^2 from w0, or the nearest one exactly at
   tol^2, is a boundary case (any answer accepted, counted separately by [simple_boundary]). *)
Definition q3_near_v (x : q3) (v : v3) : bool :=
  match x with (x1, x2, x3) => q_near x1 (inject_Z (vx v)) && q_near x2 (inject_Z (vy v)) && q_near x3 (inject_Z (vz v)) end.
Definition frac_loose_b (V d : Z) : bool :=
  (- Z.abs V <=? d * Z.sgn V * two20) && (d * Z.sgn V <? Z.abs V).
Definition wrapped_ok (a b c : v3) (pbc : pbc3) (w : v3) : bool :=
  let V := vol a b c in
  (negb (px pbc) || frac_loose_b V (D1 a b c w)) &&
  (negb (py pbc) || frac_loose_b V (D2 a b c w)) &&
  (negb (pz pbc) || frac_loose_b V (D3 a b c w)).

Definition simple_boundary (cu : cut) (pts : list eatom) (tol : Z) (rows : list nrow) (w : v3) : bool :=
  match cu with
  | Fin c0 => existsb (fun e => dist2 w (e_pos e) =? c0 * c0) pts
  | Inf => false
  end
  || match min_d2 rows with Some m => m =? tol * tol | None => false end.

Definition simple_agree (nums : list Z) (tol : Z) (rows : list nrow) (z : Z) (r : option (Z * q3)) : bool :=
  let within_tol := match min_d2 rows with Some m => m <=? tol * tol | None => false end in
  let dmin := match min_d2 rows with Some m => m | None => 0 end in
  match r with
  | Some (j, disp) =>
    within_tol && (0 <=? j) && (nth (Z.to_nat j) nums (-1) =? z)
    && existsb (fun m => (Z.of_nat (r_orig m) =? j) && (r_d2 m =? dmin) && q3_near_v disp (r_disp m)) rows
  | None =>
    negb within_tol
    || existsb (fun m => (r_d2 m =? dmin) && negb (nth (r_orig m) nums (-1) =? z)) rows
  end.

Definition simple_case (a b c : v3) (pbc : pbc3) (cu : cut) (pts : list eatom) (g : geom)
           (bn : list (v3 * (nat * eatom))) (nums : list Z) (tol : Z)
           (pr : v3 * Z * v3 * q3 * option (Z * q3)) : bool * bool :=
  match pr with (q, z, nw, W, r) =>
    let w0 := sub q (latv a b c nw) in
    let rows := neighbours_fast g bn w0 in
    (admissible_b pbc nw && q3_near_v W w0 && wrapped_ok a b c pbc w0
     && (simple_boundary cu pts tol rows w0 || simple_agree nums tol rows z r),
     simple_boundary cu pts tol rows w0)
  end.

Definition simple_agree_all (p : Q) (a b c : v3) (pbc : pbc3) (ext2 : Z) (cu : cut) (pos : list v3) (nums : list Z)
           (tol : Z) (Nimpl : v3) (probes : list (v3 * Z * v3 * q3 * option (Z * q3))) : bool :=
  match complete_cell a b c with
  | (a', b', c') =>
    let pts := extend_with a' b' c' Nimpl (map (fun q => mkA q 0) pos) in
    let g := mk_geom p cu pts in
    let bn := binned g pts in
    n_ok a b c pbc ext2 Nimpl
    && forallb (fun pr => fst (simple_case a b c pbc cu pts g bn nums tol pr)) probes
  end.
