(* C10: the displacement tensor is a sound and, within range, exact minimum-image table. *)
From Coq Require Import ZArith QArith List Bool Lia Permutation.
From MV Require Import Base.ZV3 Geometry.Extend Geometry.ExtendProofs Geometry.CellList Geometry.CellListProofs Geometry.DispTensor.
Import ListNotations.
Open Scope Z_scope.

(* running strict minimum *)
Lemma fold_cand_step_some l : forall b0,
  exists b, fold_left cand_step l (Some b0) = Some b /\ (b = b0 \/ In b l) /\
            t_d2 b <= t_d2 b0 /\ forall e, In e l -> t_d2 b <= t_d2 e.
Proof.
  induction l as [|x l IH]; intros b0; simpl.
  - exists b0. split; [reflexivity|]. split; [auto|]. split; [lia|]. intros e [].
  - destruct (Z.ltb_spec (t_d2 x) (t_d2 b0)).
    + destruct (IH x) as (b & E & Hb & Hle & Hall). exists b.
      split; [exact E|]. split; [destruct Hb; auto|]. split; [lia|].
      intros e [<-|He]; auto.
    + destruct (IH b0) as (b & E & Hb & Hle & Hall). exists b.
      split; [exact E|]. split; [destruct Hb; auto|]. split; [lia|].
      intros e [<-|He]; [lia|auto].
Qed.

Lemma fold_cand_step_spec l :
  match fold_left cand_step l None with
  | None => l = []
  | Some b => In b l /\ forall e, In e l -> t_d2 b <= t_d2 e
  end.
Proof.
  destruct l as [|x l]; simpl; [reflexivity|].
  destruct (fold_cand_step_some l x) as (b & E & Hb & Hle & Hall). rewrite E.
  split; [destruct Hb; auto|]. intros e [<-|He]; auto.
Qed.

Lemma neg3_involutive v : neg3 (neg3 v) = v.
Proof. destruct v; unfold neg3; simpl; f_equal; lia. Qed.

Lemma neg_entry_involutive e : neg_entry (neg_entry e) = e.
Proof. destruct e; unfold neg_entry; simpl. rewrite !neg3_involutive. reflexivity. Qed.

(* the row-wise evaluation used by the correspondence computes the same table *)
Lemma lower_rows_eq p cu pts pos i j : (j < i)%nat -> (i < length pos)%nat ->
  nth j (nth i (lower_rows p cu pts pos) []) None = lower p cu pts pos i j.
Proof.
  intros Hji Hi. unfold lower_rows, lower. cbv zeta.
  match goal with |- nth j (nth i (map ?F _) []) None = _ => set (F0 := F) end.
  assert (E : nth i (map F0 (seq 0 (length pos))) [] = F0 i).
  { rewrite nth_indep with (d' := F0 0%nat) by (rewrite map_length, seq_length; lia).
    rewrite map_nth, seq_nth by lia. reflexivity. }
  rewrite E. unfold F0.
  match goal with |- nth j (map ?G _) None = _ => set (G0 := G) end.
  rewrite nth_indep with (d' := G0 0%nat) by (rewrite map_length, seq_length; lia).
  rewrite map_nth, seq_nth by lia. unfold G0. simpl.
  rewrite query_fast_eq. reflexivity.
Qed.

(* ---------- vector algebra ---------- *)
Lemma sub_add_assoc p q l : sub p (add q l) = sub (sub p q) l.
Proof. unfold sub, add; simpl; f_equal; lia. Qed.
Lemma norm2_neg3 v : norm2 (neg3 v) = norm2 v.
Proof. unfold norm2, dot, neg3; simpl; ring. Qed.
Lemma norm2_nonneg v : 0 <= norm2 v.
Proof. apply dot_self_nonneg. Qed.
Lemma admissible_neg3 pbc f : admissible pbc f -> admissible pbc (neg3 f).
Proof. unfold admissible, neg3; simpl. intros (H1 & H2 & H3). repeat split; intros E; [rewrite (H1 E)|rewrite (H2 E)|rewrite (H3 E)]; reflexivity. Qed.
Lemma admissible_zero3 pbc : admissible pbc zero3.
Proof. unfold admissible; simpl; auto. Qed.
Lemma sub_neg_latv a b c ri rj f :
  sub (sub rj ri) (latv a b c (neg3 f)) = neg3 (sub (sub ri rj) (latv a b c f)).
Proof. unfold sub, latv, lat, add, scale, neg3; simpl; f_equal; ring. Qed.
Lemma longest2_nonneg a b c pbc : 0 <= longest2 a b c pbc.
Proof.
  unfold longest2.
  pose proof (dot_self_nonneg a). pose proof (dot_self_nonneg b). pose proof (dot_self_nonneg c).
  destruct (px pbc), (py pbc), (pz pbc); lia.
Qed.

Section Spec.
  Variables (p : Q) (a b c : v3) (pbc : pbc3) (cu : cut) (pos : list v3).
  Hypothesis Hp : (0 < p)%Q.
  Hypothesis Hvol : vol a b c <> 0.
  Hypothesis Hcut : cut_pos cu.
  (* atoms inside the cell: fractional coordinates in [0,1) along the periodic axes *)
  Hypothesis Hin : forall r, In r pos -> in_cell a b c pbc r.

  Let T := disp_tensor p a b c pbc cu pos.
  Let n := length pos.
  (* the range within which the table is exact: cutoff^2, or (longest periodic vector)^2 *)
  Let R2 := cutoff_ext2 a b c pbc cu.
  Definition image_vec (i j : nat) (f : v3) : v3 :=
    sub (sub (nth i pos zero3) (nth j pos zero3)) (latv a b c f).

  Definition disp_tensor_spec_statement : Prop :=
    forall i j, (i < n)%nat -> (j < n)%nat ->
    (* (1) every finite entry is a genuine periodic-image vector *)
    (forall e, T i j = Some e ->
       t_disp e = image_vec i j (t_fac e) /\ admissible pbc (t_fac e) /\ t_d2 e = norm2 (t_disp e)) /\
    (* (2) zero diagonal, antisymmetric displacement/factor, symmetric distance *)
    T i i = Some zero_entry /\
    (i <> j -> T j i = option_map neg_entry (T i j)) /\
    (* (3) never below the true minimum over all admissible lattice vectors *)
    (forall e m, T i j = Some e -> (forall f, admissible pbc f -> m <= norm2 (image_vec i j f)) -> m <= t_d2 e) /\
    (* (4) every pair with some image within range is reported, with exactly the true minimum *)
    (i <> j -> forall f, admissible pbc f -> norm2 (image_vec i j f) <= R2 ->
       exists e, T i j = Some e /\ forall f', admissible pbc f' -> t_d2 e <= norm2 (image_vec i j f')) /\
    (* (5) finite cutoff: nothing beyond it is reported; pairs beyond it are infinite *)
    (forall c0, cu = Fin c0 ->
       (forall e, T i j = Some e -> t_d2 e <= c0 * c0) /\
       ((forall f, admissible pbc f -> c0 * c0 < norm2 (image_vec i j f)) -> T i j = None)) /\
    (* (6) infinite cutoff: no pair is infinite *)
    (cu = Inf -> T i j <> None).

  (* ---------- the stored points ---------- *)
  Let atoms := map (fun q => mkA q 0) pos.
  Let N := n_copies a b c pbc R2.
  Let pts := extend_with a b c N atoms.

  Lemma T_unfold i j : T i j = tensor_of p cu pts pos i j.
  Proof.
    unfold T, disp_tensor, disp_tensor_with. rewrite (complete_cell_regular a b c Hvol). reflexivity.
  Qed.

  Lemma N_nonneg : nonneg3 N.
  Proof. apply n_copies_nonneg. Qed.

  Lemma R2_nonneg : 0 <= R2.
  Proof.
    unfold R2, cutoff_ext2. destruct cu; [apply Z.square_nonneg | apply longest2_nonneg].
  Qed.

  Lemma nth_atoms i : (i < n)%nat -> nth_error atoms i = Some (mkA (nth i pos zero3) 0).
  Proof.
    intros Hi. unfold atoms.
    apply (map_nth_error (fun q => mkA q 0) i pos). apply nth_error_nth'. exact Hi.
  Qed.

  Lemma nth_in_cell i : (i < n)%nat -> in_cell a b c pbc (nth i pos zero3).
  Proof. intros Hi. apply Hin, nth_In. exact Hi. Qed.

  Lemma dist2_image i j f :
    dist2 (nth i pos zero3) (add (nth j pos zero3) (latv a b c f)) = norm2 (image_vec i j f).
  Proof. unfold dist2, image_vec. rewrite sub_add_assoc. reflexivity. Qed.

  Lemma in_box_admissible f : in_box N f -> admissible pbc f.
  Proof.
    intros (B1 & B2 & B3).
    destruct (vol_nonzero_not_isz a b c Hvol) as (Za & Zb & Zc).
    pose proof (n_copies_off_axis a b c pbc R2) as O. cbv zeta in O. fold N in O.
    rewrite Za, Zb, Zc in O. simpl in O. rewrite !andb_true_r in O.
    destruct O as (O1 & O2 & O3).
    repeat split; intros E; [specialize (O1 E)|specialize (O2 E)|specialize (O3 E)]; lia.
  Qed.

  Lemma range_in_box i j f : (i < n)%nat -> (j < n)%nat ->
    admissible pbc f -> norm2 (image_vec i j f) <= R2 -> in_box N f.
  Proof.
    intros Hi Hj Hf Hr. unfold N.
    apply (copies_suffice a b c pbc R2 (nth i pos zero3) (nth j pos zero3) f);
      auto using R2_nonneg, nth_in_cell.
  Qed.

  Lemma range_within i j f : norm2 (image_vec i j f) <= R2 ->
    within cu (nth i pos zero3) (add (nth j pos zero3) (latv a b c f)) = true.
  Proof.
    intros Hr. unfold within. rewrite dist2_image. unfold R2, cutoff_ext2 in Hr.
    destruct cu; [apply Z.leb_le; exact Hr | reflexivity].
  Qed.

  (* the candidates for the pair (i, j): exactly the images of atom j in the box of copies that
     pass the cutoff test *)
  Lemma cand_char i j x : (i < n)%nat -> (j < n)%nat ->
    In x (map (entry_of (nth i pos zero3))
              (filter (fun ie => Nat.eqb (e_idx (snd ie)) j)
                      (query (mk_geom p cu pts) pts (nth i pos zero3)))) <->
    exists f, in_box N f /\
              within cu (nth i pos zero3) (add (nth j pos zero3) (latv a b c f)) = true /\
              x = mkT (dist2 (nth i pos zero3) (add (nth j pos zero3) (latv a b c f)))
                      (sub (nth i pos zero3) (add (nth j pos zero3) (latv a b c f))) f.
  Proof.
    intros Hi Hj.
    pose proof (query_eq_filter p cu pts (nth i pos zero3) Hp Hcut) as Q. cbv zeta in Q.
    destruct Q as (Q1 & _).
    rewrite in_map_iff. split.
    - intros ([k e] & <- & Hf). apply filter_In in Hf. destruct Hf as [Hq Hidx].
      apply Q1 in Hq. destruct Hq as [Hix Hw]. simpl in *.
      apply in_indexed in Hix. apply nth_error_In in Hix.
      unfold pts in Hix. apply (in_extend_with a b c N atoms e N_nonneg) in Hix.
      destruct Hix as (k' & at_ & f & Hat & Hbox & ->).
      simpl in Hidx. apply Nat.eqb_eq in Hidx. subst k'.
      rewrite (nth_atoms j Hj) in Hat. injection Hat as <-.
      exists f. split; [exact Hbox|]. split; [exact Hw|]. reflexivity.
    - intros (f & Hbox & Hw & ->).
      set (e := image_of a b c f (j, mkA (nth j pos zero3) 0)).
      assert (He : In e pts).
      { unfold pts. apply (in_extend_with a b c N atoms e N_nonneg).
        exists j, (mkA (nth j pos zero3) 0), f. split; [apply nth_atoms; exact Hj|].
        split; [exact Hbox | reflexivity]. }
      apply In_nth_error in He. destruct He as [k Hk].
      exists (k, e). split; [reflexivity|].
      apply filter_In. split; [| simpl; apply Nat.eqb_refl].
      apply Q1. split; [apply in_indexed; exact Hk | exact Hw].
  Qed.

  (* what every entry of the table satisfies, whichever triangle it comes from *)
  Definition entry_ok (i j : nat) (o : option entry) : Prop :=
    (forall e, o = Some e ->
       t_disp e = image_vec i j (t_fac e) /\ admissible pbc (t_fac e) /\ t_d2 e = norm2 (t_disp e) /\
       (forall c0, cu = Fin c0 -> t_d2 e <= c0 * c0)) /\
    (forall f, admissible pbc f -> norm2 (image_vec i j f) <= R2 ->
       exists e, o = Some e /\ forall f', admissible pbc f' -> t_d2 e <= norm2 (image_vec i j f')) /\
    (cu = Inf -> o <> None).

  Lemma lower_ok i j : (i < n)%nat -> (j < n)%nat -> entry_ok i j (lower p cu pts pos i j).
  Proof.
    intros Hi Hj. unfold lower, best_pair. cbv zeta.
    match goal with |- entry_ok _ _ (fold_left cand_step ?l None) => set (cands := l) end.
    pose proof (fold_cand_step_spec cands) as S.
    assert (C : forall x, In x cands <-> _) by (intros x; exact (cand_char i j x Hi Hj)).
    assert (Hcand : forall f, admissible pbc f -> norm2 (image_vec i j f) <= R2 ->
              In (mkT (dist2 (nth i pos zero3) (add (nth j pos zero3) (latv a b c f)))
                      (sub (nth i pos zero3) (add (nth j pos zero3) (latv a b c f))) f) cands).
    { intros f Hf Hr. apply C. exists f. split; [apply (range_in_box i j); auto|].
      split; [apply range_within; exact Hr | reflexivity]. }
    destruct (fold_left cand_step cands None) as [b0|].
    - destruct S as [Sin Smin]. split; [|split].
      + intros e [= <-]. apply C in Sin. destruct Sin as (f & Hbox & Hw & ->). simpl.
        split; [unfold image_vec; apply sub_add_assoc|].
        split; [apply in_box_admissible; exact Hbox|].
        split; [reflexivity|].
        intros c0 ->. simpl in Hw. apply Z.leb_le in Hw. exact Hw.
      + intros f Hf Hr. exists b0. split; [reflexivity|]. intros f' Hf'.
        pose proof (Smin _ (Hcand f Hf Hr)) as H0. simpl in H0. rewrite dist2_image in H0.
        destruct (Z.le_gt_cases (norm2 (image_vec i j f')) R2) as [Hle|Hgt].
        * pose proof (Smin _ (Hcand f' Hf' Hle)) as H1. simpl in H1.
          rewrite dist2_image in H1. exact H1.
        * lia.
      + intros _. discriminate.
    - subst cands. split; [|split].
      + intros e [=].
      + intros f Hf Hr. pose proof (Hcand f Hf Hr) as H0. rewrite S in H0. destruct H0.
      + intros Hinf.
        assert (H0 : norm2 (image_vec i j zero3) <= R2 -> False).
        { intros Hr. pose proof (Hcand zero3 (admissible_zero3 pbc) Hr) as H0. rewrite S in H0. destruct H0. }
        exfalso.
        assert (In (mkT (dist2 (nth i pos zero3) (add (nth j pos zero3) (latv a b c zero3)))
                      (sub (nth i pos zero3) (add (nth j pos zero3) (latv a b c zero3))) zero3) []).
        { rewrite <- S. apply C. exists zero3. split.
          - destruct N_nonneg as (N1 & N2 & N3). unfold in_box; simpl. lia.
          - split; [rewrite Hinf; reflexivity | reflexivity]. }
        destruct H.
  Qed.

  Lemma image_vec_neg i j f : image_vec j i (neg3 f) = neg3 (image_vec i j f).
  Proof. unfold image_vec. apply sub_neg_latv. Qed.

  Lemma neg_ok i j o : entry_ok j i o -> entry_ok i j (option_map neg_entry o).
  Proof.
    intros (K1 & K4 & K6). split; [|split].
    - intros e He. destruct o as [e'|]; [|discriminate]. simpl in He. injection He as <-.
      destruct (K1 e' eq_refl) as (D & A & M & F). simpl.
      split; [rewrite D, <- image_vec_neg; reflexivity|].
      split; [apply admissible_neg3; exact A|].
      split; [rewrite norm2_neg3; exact M | exact F].
    - intros f Hf Hr.
      destruct (K4 (neg3 f) (admissible_neg3 _ _ Hf)) as (e' & -> & Hmin).
      { rewrite image_vec_neg, norm2_neg3. exact Hr. }
      exists (neg_entry e'). split; [reflexivity|]. intros f' Hf'. simpl.
      specialize (Hmin (neg3 f') (admissible_neg3 _ _ Hf')).
      rewrite image_vec_neg, norm2_neg3 in Hmin. exact Hmin.
    - intros Hinf. specialize (K6 Hinf). destruct o; [discriminate | congruence].
  Qed.

  Lemma image_vec_diag i : image_vec i i zero3 = zero3.
  Proof.
    unfold image_vec, sub, latv, lat, add, scale, zero3. destruct (nth i pos (mk3 0 0 0)); simpl.
    f_equal; ring.
  Qed.

  Lemma zero_ok i : entry_ok i i (Some zero_entry).
  Proof.
    split; [|split].
    - intros e [= <-]. simpl. split; [symmetry; apply image_vec_diag|].
      split; [apply admissible_zero3|]. split; [reflexivity|]. intros c0 _. apply Z.square_nonneg.
    - intros f _ _. exists zero_entry. split; [reflexivity|]. intros f' _. simpl. apply norm2_nonneg.
    - intros _. discriminate.
  Qed.

  Lemma T_ok i j : (i < n)%nat -> (j < n)%nat -> entry_ok i j (T i j).
  Proof.
    intros Hi Hj. rewrite T_unfold. unfold tensor_of.
    destruct (Nat.eqb_spec i j) as [->|Hne]; [apply zero_ok|].
    destruct (Nat.ltb_spec j i); [apply lower_ok; assumption|].
    apply neg_ok, lower_ok; assumption.
  Qed.

  Lemma T_diag i : T i i = Some zero_entry.
  Proof. rewrite T_unfold. unfold tensor_of. rewrite Nat.eqb_refl. reflexivity. Qed.

  Lemma T_antisym i j : i <> j -> T j i = option_map neg_entry (T i j).
  Proof.
    intros Hne. rewrite !T_unfold. unfold tensor_of.
    destruct (Nat.eqb_spec i j); [contradiction|].
    destruct (Nat.eqb_spec j i); [congruence|].
    destruct (Nat.ltb_spec j i), (Nat.ltb_spec i j); try lia.
    - reflexivity.
    - destruct (lower p cu pts pos j i); simpl; [rewrite neg_entry_involutive|]; reflexivity.
  Qed.

  Theorem disp_tensor_spec : disp_tensor_spec_statement.
  Proof.
    intros i j Hi Hj. destruct (T_ok i j Hi Hj) as (K1 & K4 & K6).
    split; [|split; [|split; [|split; [|split; [|split]]]]].
    - intros e He. destruct (K1 e He) as (D & A & M & _). auto.
    - apply T_diag.
    - apply T_antisym.
    - intros e m He Hm. destruct (K1 e He) as (D & A & M & _).
      rewrite M, D. apply Hm. exact A.
    - intros _. exact K4.
    - intros c0 Hc. split.
      + intros e He. destruct (K1 e He) as (_ & _ & _ & F). apply F. exact Hc.
      + intros Hfar. destruct (T i j) as [e|] eqn:E; [|reflexivity]. exfalso.
        destruct (K1 e eq_refl) as (D & A & M & F).
        specialize (Hfar _ A). specialize (F c0 Hc). rewrite <- D, <- M in Hfar. lia.
    - exact K6.
  Qed.
End Spec.

(* non-vacuity: a sheared 2D-periodic cell, three atoms inside, finite cutoff *)
Example disp_tensor_example :
  let a := mk3 8 0 0 in let b := mk3 3 6 0 in let c := mk3 0 0 10 in
  let pbc := mkP true true false in
  let pos := [mk3 1 1 1; mk3 9 5 2; mk3 7 1 8] in
  vol a b c <> 0 /\ (forall r, In r pos -> in_cell a b c pbc r) /\
  disp_tensor (1 # 10000) a b c pbc (Fin 5) pos 1 0 = Some (mkT 14 (mk3 (-3) (-2) 1) (mk3 1 1 0)) /\
  disp_tensor (1 # 10000) a b c pbc (Fin 5) pos 2 0 = None /\
  disp_tensor (1 # 10000) a b c pbc Inf pos 0 2 <> None.
Proof.
  cbv zeta. split; [vm_compute; discriminate|].
  split.
  { simpl. intros r [<-|[<-|[<-|[]]]]; vm_compute; intuition congruence. }
  split; [vm_compute; reflexivity|].
  split; [vm_compute; reflexivity|].
  vm_compute; discriminate.
Qed.

Print Assumptions disp_tensor_spec.
