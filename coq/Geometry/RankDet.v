(* C09 -- the INTEGER rank of the cycle-voltage lattice, defined by determinants, and its invariance.

   The specification [dim_spec] computes the rank over Z of the list of cycle voltages by fraction-free elimination
   ([rankZ]).  Here the same number is defined without an algorithm:

       rank_det vs = 3  if some three vectors of vs have a non-zero determinant,
                     2  else if some two have a non-zero cross product,
                     1  else if some vector is non-zero,
                     0  otherwise,

   and the invariance properties of the "number of independent lattice directions" are PROVED for it:
     - it depends only on the SET of vectors (order, multiplicity and the spanning tree's bookkeeping do not matter),
     - it is unchanged by every invertible linear change of lattice basis (det U <> 0; unimodular in particular),
     - it is unchanged when the generating list is replaced by integer combinations of itself that generate it back
       (two presentations whose voltages span the same lattice).
   That [rankZ] computes this number is evaluated by vm_compute on every case of the correspondence
   ([rankZ_consistent], part of check_case) -- not proved.  *)
From Coq Require Import List ZArith Bool Lia Permutation.
From MV Require Import Geometry.Dimensionality Geometry.DimensionalityProofs.
Import ListNotations.
Local Open Scope Z_scope.

Ltac off_ring := repeat (match goal with |- (_, _) = (_, _) => apply f_equal2 end); ring.

Definition ocross (u v : off) : off :=
  let '(a, b, c) := u in let '(x, y, z) := v in (b * z - c * y, c * x - a * z, a * y - b * x).
Definition odot (u v : off) : Z :=
  let '(a, b, c) := u in let '(x, y, z) := v in a * x + b * y + c * z.
Definition odet (u v w : off) : Z := odot u (ocross v w).

Definition nz (u : off) : bool := negb (oeqb u ozero).

Definition r1b (vs : list off) : bool := existsb nz vs.
Definition r2b (vs : list off) : bool := existsb (fun u => existsb (fun v => nz (ocross u v)) vs) vs.
Definition r3b (vs : list off) : bool :=
  existsb (fun u => existsb (fun v => existsb (fun w => negb (odet u v w =? 0)) vs) vs) vs.
Definition rank_det (vs : list off) : nat :=
  if r3b vs then 3%nat else if r2b vs then 2%nat else if r1b vs then 1%nat else 0%nat.

(* duplicate-free list of the same vectors (rank_det is cubic in the length; a network has hundreds of edges but only a
   handful of distinct cycle voltages) *)
Fixpoint dedup (vs : list off) : list off :=
  match vs with
  | [] => []
  | v :: r => let d := dedup r in if existsb (oeqb v) d then d else v :: d
  end.

(* run-time consistency of the elimination with the determinantal definition (evaluated inside Coq on every case);
   [rank_det_dedup] below: the duplicate-free list has the same determinantal rank *)
Definition rankZ_consistent (n : nat) (p : pbc3) (E : list ipair) : bool :=
  let vs := voltages (potentials n E) E in Nat.eqb (rankZ vs) (rank_det (dedup vs)).

(* ---------------------------------------------------------------------------------------------------------- *)
(* propositional reading *)
Lemma oeqb_eq u v : oeqb u v = true <-> u = v.
Proof.
  destruct u as [[a b] c], v as [[x y] z]. unfold oeqb. rewrite !andb_true_iff, !Z.eqb_eq.
  split; [intros [[-> ->] ->]; reflexivity | intro H; inversion H; auto].
Qed.
Lemma nz_iff u : nz u = true <-> u <> ozero.
Proof.
  unfold nz. rewrite negb_true_iff. split.
  - intros H E. apply oeqb_eq in E. congruence.
  - intro H. destruct (oeqb u ozero) eqn:E; [apply oeqb_eq in E; contradiction | reflexivity].
Qed.

Definition R1 (vs : list off) : Prop := exists u, In u vs /\ u <> ozero.
Definition R2 (vs : list off) : Prop := exists u v, In u vs /\ In v vs /\ ocross u v <> ozero.
Definition R3 (vs : list off) : Prop := exists u v w, In u vs /\ In v vs /\ In w vs /\ odet u v w <> 0.

Lemma r1b_iff vs : r1b vs = true <-> R1 vs.
Proof.
  unfold r1b, R1. rewrite existsb_exists. split; intros (u & Hu & H); exists u; split; auto; apply nz_iff; exact H.
Qed.
Lemma r2b_iff vs : r2b vs = true <-> R2 vs.
Proof.
  unfold r2b, R2. rewrite existsb_exists. split.
  - intros (u & Hu & H). apply existsb_exists in H. destruct H as (v & Hv & H). exists u, v. repeat split; auto. apply nz_iff; exact H.
  - intros (u & v & Hu & Hv & H). exists u. split; auto. apply existsb_exists. exists v. split; auto. apply nz_iff; exact H.
Qed.
Lemma r3b_iff vs : r3b vs = true <-> R3 vs.
Proof.
  unfold r3b, R3. rewrite existsb_exists. split.
  - intros (u & Hu & H). apply existsb_exists in H. destruct H as (v & Hv & H).
    apply existsb_exists in H. destruct H as (w & Hw & H). exists u, v, w. repeat split; auto.
    apply negb_true_iff in H. apply Z.eqb_neq in H. exact H.
  - intros (u & v & w & Hu & Hv & Hw & H). exists u. split; auto. apply existsb_exists. exists v. split; auto.
    apply existsb_exists. exists w. split; auto. apply negb_true_iff. apply Z.eqb_neq. exact H.
Qed.

Lemma bool_ext (b c : bool) : (b = true <-> c = true) -> b = c.
Proof. destruct b, c; intuition congruence. Qed.

(* the three predicates determine the rank *)
Lemma rank_det_ext vs vs' : (R1 vs <-> R1 vs') -> (R2 vs <-> R2 vs') -> (R3 vs <-> R3 vs') -> rank_det vs = rank_det vs'.
Proof.
  intros H1 H2 H3. unfold rank_det.
  rewrite (bool_ext (r3b vs) (r3b vs')) by (rewrite !r3b_iff; exact H3).
  rewrite (bool_ext (r2b vs) (r2b vs')) by (rewrite !r2b_iff; exact H2).
  rewrite (bool_ext (r1b vs) (r1b vs')) by (rewrite !r1b_iff; exact H1).
  reflexivity.
Qed.

(* ---------------------------------------------------------------------------------------------------------- *)
(* (1) only the set of vectors matters *)
Theorem rank_det_same_set vs vs' : (forall x, In x vs <-> In x vs') -> rank_det vs = rank_det vs'.
Proof.
  intro H. apply rank_det_ext.
  - split; intros (u & Hu & K); exists u; split; auto; apply H; auto.
  - split; intros (u & v & Hu & Hv & K); exists u, v; repeat split; auto; apply H; auto.
  - split; intros (u & v & w & Hu & Hv & Hw & K); exists u, v, w; repeat split; auto; apply H; auto.
Qed.

Lemma dedup_in vs x : In x (dedup vs) <-> In x vs.
Proof.
  induction vs as [|v r IH]; cbn [dedup]; [tauto|].
  destruct (existsb (oeqb v) (dedup r)) eqn:E.
  - rewrite IH. split; [intro H; right; exact H|]. intros [<-|H]; [|exact H].
    apply existsb_exists in E. destruct E as (y & Hy & Ey). apply oeqb_eq in Ey. subst y. apply IH. exact Hy.
  - cbn [In]. rewrite IH. tauto.
Qed.
Corollary rank_det_dedup vs : rank_det (dedup vs) = rank_det vs.
Proof. apply rank_det_same_set. intro x. apply dedup_in. Qed.

Corollary rank_det_perm vs vs' : Permutation vs vs' -> rank_det vs = rank_det vs'.
Proof.
  intro P. apply rank_det_same_set. intro x. split; intro Hx.
  - eapply Permutation_in; eauto.
  - eapply Permutation_in; [apply Permutation_sym; exact P | exact Hx].
Qed.

(* ---------------------------------------------------------------------------------------------------------- *)
(* (2) invertible linear maps *)
Definition udet (U : off * off * off) : Z := let '(r0, r1, r2) := U in odet r0 r1 r2.

(* lin U o = x r0 + y r1 + z r2 : the map o |-> o . U (rows of U are the images of the unit vectors) *)
Lemma odet_lin U u v w : odet (lin U u) (lin U v) (lin U w) = udet U * odet u v w.
Proof.
  destruct U as [[[[u00 u01] u02] [[u10 u11] u12]] [[u20 u21] u22]].
  destruct u as [[a1 a2] a3], v as [[b1 b2] b3], w as [[c1 c2] c3].
  unfold udet, odet, odot, ocross, lin, oadd, oscale. ring.
Qed.

(* the adjugate relation for the cross product: (cross (lin U u) (lin U v)) . (lin U w) = det U * (cross u v) . w *)
Lemma odot_cross_lin U u v w : odot (lin U w) (ocross (lin U u) (lin U v)) = udet U * odot w (ocross u v).
Proof. exact (odet_lin U w u v). Qed.

Lemma lin_zero_l U : lin U ozero = ozero.
Proof.
  destruct U as [[[[u00 u01] u02] [[u10 u11] u12]] [[u20 u21] u22]].
  unfold lin, ozero, oadd, oscale. off_ring.
Qed.

Definition cof (U : off * off * off) : off * off * off :=
  let '(r0, r1, r2) := U in (ocross r1 r2, ocross r2 r0, ocross r0 r1).

(* (u U) x (v U) = (u x v) Cof(U) *)
Lemma ocross_lin U u v : ocross (lin U u) (lin U v) = lin (cof U) (ocross u v).
Proof.
  destruct U as [[[[u00 u01] u02] [[u10 u11] u12]] [[u20 u21] u22]].
  destruct u as [[a1 a2] a3], v as [[b1 b2] b3].
  unfold cof, ocross, lin, oadd, oscale. off_ring.
Qed.

Lemma ocross_lin_zero U u v : ocross u v = ozero -> ocross (lin U u) (lin U v) = ozero.
Proof. intro H. rewrite ocross_lin, H. apply lin_zero_l. Qed.

Definition e0 : off := (1, 0, 0).
Definition e1 : off := (0, 1, 0).
Definition e2 : off := (0, 0, 1).
Lemma odot_units w : w = (odot w e0, odot w e1, odot w e2).
Proof. destruct w as [[a b] c]. unfold odot, e0, e1, e2. off_ring. Qed.
Lemma all_dots_zero w : odot e0 w = 0 -> odot e1 w = 0 -> odot e2 w = 0 -> w = ozero.
Proof. destruct w as [[a b] c]. unfold odot, e0, e1, e2, ozero. intros. repeat (match goal with |- (_, _) = (_, _) => apply f_equal2 end); lia. Qed.

(* with det U <> 0 the map reflects zero cross products *)
Lemma ocross_lin_reflect U u v : udet U <> 0 -> ocross (lin U u) (lin U v) = ozero -> ocross u v = ozero.
Proof.
  intros HU H.
  assert (K : forall w, udet U * odot w (ocross u v) = 0).
  { intro w. rewrite <- odot_cross_lin, H. destruct (lin U w) as [[a b] c]. unfold odot, ozero. ring. }
  apply all_dots_zero.
  - specialize (K e0). apply Z.mul_eq_0 in K. destruct K; [contradiction | assumption].
  - specialize (K e1). apply Z.mul_eq_0 in K. destruct K; [contradiction | assumption].
  - specialize (K e2). apply Z.mul_eq_0 in K. destruct K; [contradiction | assumption].
Qed.

Lemma lin_reflect_zero U u : udet U <> 0 -> lin U u = ozero -> u = ozero.
Proof.
  intros HU H.
  (* u . (cross of two rows) relations: det (lin U u) (lin U e_i) (lin U e_j) = det U * det u e_i e_j *)
  assert (K : forall v w, udet U * odet u v w = 0).
  { intros v w. rewrite <- odet_lin, H. unfold odet. destruct (ocross (lin U v) (lin U w)) as [[a b] c]. unfold odot, ozero. ring. }
  destruct u as [[a b] c].
  pose proof (K e1 e2) as K0. pose proof (K e2 e0) as K1. pose proof (K e0 e1) as K2.
  unfold odet, odot, ocross, e0, e1, e2 in K0, K1, K2.
  apply Z.mul_eq_0 in K0. apply Z.mul_eq_0 in K1. apply Z.mul_eq_0 in K2.
  destruct K0 as [?|K0]; [contradiction|]. destruct K1 as [?|K1]; [contradiction|]. destruct K2 as [?|K2]; [contradiction|].
  unfold ozero. repeat (match goal with |- (_, _) = (_, _) => apply f_equal2 end); lia.
Qed.

Theorem rank_det_lin U vs : udet U <> 0 -> rank_det (map (lin U) vs) = rank_det vs.
Proof.
  intro HU. apply rank_det_ext.
  - split.
    + intros (u' & Hu & K). apply in_map_iff in Hu. destruct Hu as (u & <- & Hu). exists u. split; auto.
      intro E. apply K. rewrite E. apply lin_zero_l.
    + intros (u & Hu & K). exists (lin U u). split; [apply in_map; exact Hu|].
      intro E. apply K. apply (lin_reflect_zero U u HU E).
  - split.
    + intros (u' & v' & Hu & Hv & K). apply in_map_iff in Hu. destruct Hu as (u & <- & Hu).
      apply in_map_iff in Hv. destruct Hv as (v & <- & Hv). exists u, v. repeat split; auto.
      intro E. apply K. apply ocross_lin_zero. exact E.
    + intros (u & v & Hu & Hv & K). exists (lin U u), (lin U v). repeat split; try (apply in_map; assumption).
      intro E. apply K. apply (ocross_lin_reflect U u v HU E).
  - split.
    + intros (u' & v' & w' & Hu & Hv & Hw & K). apply in_map_iff in Hu. destruct Hu as (u & <- & Hu).
      apply in_map_iff in Hv. destruct Hv as (v & <- & Hv). apply in_map_iff in Hw. destruct Hw as (w & <- & Hw).
      exists u, v, w. repeat split; auto. intro E. apply K. rewrite odet_lin, E. ring.
    + intros (u & v & w & Hu & Hv & Hw & K). exists (lin U u), (lin U v), (lin U w).
      repeat split; try (apply in_map; assumption). rewrite odet_lin. intro E. apply Z.mul_eq_0 in E. destruct E; contradiction.
Qed.

(* ---------------------------------------------------------------------------------------------------------- *)
(* (3) generating lists of the same lattice *)
Inductive span (vs : list off) : off -> Prop :=
| span_zero : span vs ozero
| span_add u k v : span vs u -> In v vs -> span vs (oadd u (oscale k v)).

Lemma oadd_ozero_l u : oadd ozero u = u.
Proof. destruct u as [[a b] c]. unfold oadd, ozero. off_ring. Qed.
Lemma oscale_1 u : oscale 1 u = u.
Proof. destruct u as [[a b] c]. unfold oscale. off_ring. Qed.
Lemma span_gen vs v : In v vs -> span vs v.
Proof. intro H. rewrite <- (oadd_ozero_l v), <- (oscale_1 v) at 1. apply span_add; [apply span_zero | exact H]. Qed.

(* bilinearity / trilinearity facts used below *)
Lemma ocross_add_l u k v w : ocross (oadd u (oscale k v)) w = oadd (ocross u w) (oscale k (ocross v w)).
Proof. destruct u as [[a b] c], v as [[x y] z], w as [[p q] r]. unfold ocross, oadd, oscale. off_ring. Qed.
Lemma ocross_add_r w u k v : ocross w (oadd u (oscale k v)) = oadd (ocross w u) (oscale k (ocross w v)).
Proof. destruct u as [[a b] c], v as [[x y] z], w as [[p q] r]. unfold ocross, oadd, oscale. off_ring. Qed.
Lemma ocross_zero_l w : ocross ozero w = ozero.
Proof. destruct w as [[p q] r]. unfold ocross, ozero. off_ring. Qed.
Lemma ocross_zero_r w : ocross w ozero = ozero.
Proof. destruct w as [[p q] r]. unfold ocross, ozero. off_ring. Qed.
Lemma oadd_zero_zero k : oadd ozero (oscale k ozero) = ozero.
Proof. unfold oadd, oscale, ozero. off_ring. Qed.

Lemma odet_add_1 u k v a b : odet (oadd u (oscale k v)) a b = odet u a b + k * odet v a b.
Proof. destruct u as [[u1 u2] u3], v as [[v1 v2] v3], a as [[a1 a2] a3], b as [[b1 b2] b3]. unfold odet, odot, ocross, oadd, oscale. ring. Qed.
Lemma odet_add_2 a u k v b : odet a (oadd u (oscale k v)) b = odet a u b + k * odet a v b.
Proof. destruct u as [[u1 u2] u3], v as [[v1 v2] v3], a as [[a1 a2] a3], b as [[b1 b2] b3]. unfold odet, odot, ocross, oadd, oscale. ring. Qed.
Lemma odet_add_3 a b u k v : odet a b (oadd u (oscale k v)) = odet a b u + k * odet a b v.
Proof. destruct u as [[u1 u2] u3], v as [[v1 v2] v3], a as [[a1 a2] a3], b as [[b1 b2] b3]. unfold odet, odot, ocross, oadd, oscale. ring. Qed.
Lemma odet_zero_1 a b : odet ozero a b = 0.
Proof. destruct a as [[a1 a2] a3], b as [[b1 b2] b3]. unfold odet, odot, ocross, ozero. ring. Qed.
Lemma odet_zero_2 a b : odet a ozero b = 0.
Proof. destruct a as [[a1 a2] a3], b as [[b1 b2] b3]. unfold odet, odot, ocross, ozero. ring. Qed.
Lemma odet_zero_3 a b : odet a b ozero = 0.
Proof. destruct a as [[a1 a2] a3], b as [[b1 b2] b3]. unfold odet, odot, ocross, ozero. ring. Qed.

(* if no vector / pair / triple of the generators is independent, none of the span is *)
Lemma span_R1 vs : ~ R1 vs -> forall u, span vs u -> u = ozero.
Proof.
  intros H u Hu. induction Hu as [|u k v Hu IH Hv]; [reflexivity|].
  assert (Ev : v = ozero).
  { destruct (oeqb v ozero) eqn:E; [apply oeqb_eq; exact E|]. exfalso. apply H. exists v. split; auto.
    intro K. apply oeqb_eq in K. congruence. }
  rewrite IH, Ev. apply oadd_zero_zero.
Qed.

Lemma span_R2_r vs : ~ R2 vs -> forall g, In g vs -> forall u, span vs u -> ocross g u = ozero.
Proof.
  intros H g Hg u Hu. induction Hu as [|u k v Hu IH Hv]; [apply ocross_zero_r|].
  rewrite ocross_add_r, IH.
  assert (E : ocross g v = ozero).
  { destruct (oeqb (ocross g v) ozero) eqn:E; [apply oeqb_eq; exact E|]. exfalso. apply H. exists g, v. repeat split; auto.
    intro K. apply oeqb_eq in K. congruence. }
  rewrite E. apply oadd_zero_zero.
Qed.
Lemma span_R2 vs : ~ R2 vs -> forall u v, span vs u -> span vs v -> ocross u v = ozero.
Proof.
  intros H u v Hu Hv. induction Hu as [|u k g Hu IH Hg]; [apply ocross_zero_l|].
  rewrite ocross_add_l, IH, (span_R2_r vs H g Hg v Hv). apply oadd_zero_zero.
Qed.

Lemma span_R3_3 vs : ~ R3 vs -> forall a b, In a vs -> In b vs -> forall u, span vs u -> odet a b u = 0.
Proof.
  intros H a b Ha Hb u Hu. induction Hu as [|u k v Hu IH Hv]; [apply odet_zero_3|].
  rewrite odet_add_3, IH.
  assert (E : odet a b v = 0).
  { destruct (Z.eq_dec (odet a b v) 0) as [E|E]; [exact E|]. exfalso. apply H. exists a, b, v. repeat split; auto. }
  rewrite E. ring.
Qed.
Lemma span_R3_2 vs : ~ R3 vs -> forall a, In a vs -> forall u w, span vs u -> span vs w -> odet a u w = 0.
Proof.
  intros H a Ha u w Hu Hw. induction Hu as [|u k v Hu IH Hv]; [apply odet_zero_2|].
  rewrite odet_add_2, IH, (span_R3_3 vs H a v Ha Hv w Hw). ring.
Qed.
Lemma span_R3 vs : ~ R3 vs -> forall u v w, span vs u -> span vs v -> span vs w -> odet u v w = 0.
Proof.
  intros H u v w Hu Hv Hw. induction Hu as [|u k g Hu IH Hg]; [apply odet_zero_1|].
  rewrite odet_add_1, IH, (span_R3_2 vs H g Hg v w Hv Hw). ring.
Qed.

Lemma dec_R1 vs : R1 vs \/ ~ R1 vs.
Proof. destruct (r1b vs) eqn:E; [left; apply r1b_iff; exact E | right; intro K; apply r1b_iff in K; congruence]. Qed.
Lemma dec_R2 vs : R2 vs \/ ~ R2 vs.
Proof. destruct (r2b vs) eqn:E; [left; apply r2b_iff; exact E | right; intro K; apply r2b_iff in K; congruence]. Qed.
Lemma dec_R3 vs : R3 vs \/ ~ R3 vs.
Proof. destruct (r3b vs) eqn:E; [left; apply r3b_iff; exact E | right; intro K; apply r3b_iff in K; congruence]. Qed.

Lemma R1_mono vs vs' : (forall v, In v vs' -> span vs v) -> R1 vs' -> R1 vs.
Proof.
  intros S (u & Hu & K). destruct (dec_R1 vs) as [H|H]; [exact H|]. exfalso. apply K. apply (span_R1 vs H). apply S. exact Hu.
Qed.
Lemma R2_mono vs vs' : (forall v, In v vs' -> span vs v) -> R2 vs' -> R2 vs.
Proof.
  intros S (u & v & Hu & Hv & K). destruct (dec_R2 vs) as [H|H]; [exact H|]. exfalso. apply K.
  apply (span_R2 vs H); apply S; assumption.
Qed.
Lemma R3_mono vs vs' : (forall v, In v vs' -> span vs v) -> R3 vs' -> R3 vs.
Proof.
  intros S (u & v & w & Hu & Hv & Hw & K). destruct (dec_R3 vs) as [H|H]; [exact H|]. exfalso. apply K.
  apply (span_R3 vs H); apply S; assumption.
Qed.

(* two generating lists of the same lattice have the same rank *)
Theorem rank_det_same_lattice vs vs' :
  (forall v, In v vs' -> span vs v) -> (forall v, In v vs -> span vs' v) -> rank_det vs = rank_det vs'.
Proof.
  intros S S'. apply rank_det_ext; split.
  - apply R1_mono; exact S'.
  - apply R1_mono; exact S.
  - apply R2_mono; exact S'.
  - apply R2_mono; exact S.
  - apply R3_mono; exact S'.
  - apply R3_mono; exact S.
Qed.

(* ---------------------------------------------------------------------------------------------------------- *)
(* sanity examples *)
Example rank_det_checkerboard : rank_det [(1, 1, 0); (1, -1, 0)] = 2%nat /\ rankZ [(1, 1, 0); (1, -1, 0)] = 2%nat.
Proof. split; vm_compute; reflexivity. Qed.
Example rank_det_chain : rank_det [(2, 0, 0); (0, 0, 0); (-4, 0, 0)] = 1%nat.
Proof. vm_compute. reflexivity. Qed.
Example rank_det_sheared_basis :
  (* the same lattice Z(1,0,0) + Z(0,1,0) described in the basis a' = a + 2 b, b' = b: U = ((1,2,0),(0,1,0),(0,0,1)) *)
  udet ((1, 2, 0), (0, 1, 0), (0, 0, 1)) = 1 /\
  rank_det (map (lin ((1, 2, 0), (0, 1, 0), (0, 0, 1))) [(1, 0, 0); (0, 1, 0)]) = rank_det [(1, 0, 0); (0, 1, 0)].
Proof. split; vm_compute; reflexivity. Qed.

Print Assumptions rank_det_lin.
Print Assumptions rank_det_same_lattice.
