(* Theorems about Geometry/CellList.v (C10: bins_in_range, bins_complete, query_eq_filter; reused by C16). *)
From Coq Require Import ZArith QArith Qround List Bool Lia Lqa Permutation.
From MV Require Import Base.ZV3 Geometry.Extend Geometry.ExtendProofs Geometry.CellList.
Import ListNotations.
Open Scope Z_scope.

Definition cut_pos (cu : cut) : Prop := match cu with Fin c => 0 < c | Inf => True end.

Definition ix_in_range (ax : axis) (i : Z) : Prop := 0 <= i < ax_n ax.

(* ---------- rational arithmetic of one axis ---------- *)
Lemma qmax_l a b : (a <= qmax a b)%Q.
Proof.
  unfold qmax. destruct (Qle_bool a b) eqn:E.
  - apply Qle_bool_iff in E; auto.
  - apply Qle_refl.
Qed.
Lemma qmax_r a b : (b <= qmax a b)%Q.
Proof.
  unfold qmax. destruct (Qle_bool a b) eqn:E.
  - apply Qle_refl.
  - assert (H : ~ (a <= b)%Q) by (intro H; apply Qle_bool_iff in H; congruence).
    apply Qnot_le_lt in H. apply Qlt_le_weak; auto.
Qed.

Lemma qtrunc_nonneg q : (0 <= q)%Q -> qtrunc q = Qfloor q.
Proof. unfold qtrunc. intros H. apply Qle_bool_iff in H. rewrite H. reflexivity. Qed.
Lemma qtrunc_neg q : (q < 0)%Q -> qtrunc q = - Qfloor (- q).
Proof.
  unfold qtrunc; intros H. destruct (Qle_bool 0 q) eqn:E; [apply Qle_bool_iff in E; lra|reflexivity].
Qed.

Lemma floor_lt q k : (q < inject_Z k)%Q -> Qfloor q < k.
Proof. intros. rewrite Zlt_Qlt. eapply Qle_lt_trans; [apply Qfloor_le|auto]. Qed.
Lemma floor_ge q k : (inject_Z k <= q)%Q -> k <= Qfloor q.
Proof. intros. rewrite <- (Qfloor_Z k). apply Qfloor_resp_le; auto. Qed.
Lemma floor_nonneg q : (0 <= q)%Q -> 0 <= Qfloor q.
Proof. intros. apply floor_ge. exact H. Qed.
Lemma floor_lt_1 q : (q < 1)%Q -> Qfloor q < 1.
Proof. intros. apply floor_lt. exact H. Qed.
Lemma floor_lt_succ q : (q < inject_Z (Qfloor q) + 1)%Q.
Proof. pose proof (Qlt_floor q) as H. rewrite inject_Z_plus in H. exact H. Qed.

Lemma inject_Z_sub a b : inject_Z (a - b) = (inject_Z a - inject_Z b)%Q.
Proof. unfold Z.sub. rewrite inject_Z_plus, inject_Z_opp. reflexivity. Qed.

Lemma qdiv_mul a d : (0 < d)%Q -> (a / d * d == a)%Q.
Proof. intros. rewrite Qmult_comm. apply Qmult_div_r. lra. Qed.

(* bin count and width of a finite-cutoff axis *)
Lemma width_facts lo hi c n d :
  (lo < hi)%Q -> (0 < inject_Z c)%Q -> n = Z.max 1 (qtrunc ((hi - lo) / inject_Z c)) ->
  d = qmax (inject_Z c) ((hi - lo) / inject_Z n) ->
  1 <= n /\ (inject_Z c <= d)%Q /\ (hi - lo <= inject_Z n * d)%Q.
Proof.
  intros Hlh Hc Hn Hd.
  assert (H1 : 1 <= n) by lia.
  assert (Hn0 : (0 < inject_Z n)%Q) by (change 0%Q with (inject_Z 0); rewrite <- Zlt_Qlt; lia).
  split; [exact H1|]. split; [subst d; apply qmax_l|].
  pose proof (qmax_r (inject_Z c) ((hi - lo) / inject_Z n)) as Hr. rewrite <- Hd in Hr.
  pose proof (qdiv_mul (hi - lo) (inject_Z n) Hn0) as He.
  set (w := ((hi - lo) / inject_Z n)%Q) in *.
  assert (Hm : (w * inject_Z n <= d * inject_Z n)%Q) by (apply Qmult_le_compat_r; lra).
  lra.
Qed.

Lemma div_pos a d : (0 < d)%Q -> (0 < a)%Q -> (0 < a / d)%Q.
Proof. intros. apply Qlt_shift_div_l; lra. Qed.
Lemma div_lt a d b : (0 < d)%Q -> (a < b * d)%Q -> (a / d < b)%Q.
Proof. intros. apply Qlt_shift_div_r; lra. Qed.
Lemma div_le_succ a b d : (0 < d)%Q -> (a - b <= d)%Q -> (a / d <= b / d + 1)%Q.
Proof.
  intros Hd H. apply Qle_shift_div_r; auto.
  pose proof (qdiv_mul b d Hd) as E. set (v := (b / d)%Q) in *. clearbody v. lra.
Qed.

Lemma axis_in_range lo hi x n d :
  (lo < x)%Q -> (x < hi)%Q -> (0 < d)%Q -> 1 <= n -> (hi - lo <= inject_Z n * d)%Q ->
  0 <= qtrunc ((x - lo) / d) < n.
Proof.
  intros Hl Hh Hd Hn Hw.
  assert (A1 : (0 < x - lo)%Q) by lra.
  assert (A2 : (x - lo < inject_Z n * d)%Q) by lra.
  pose proof (div_pos (x - lo) d Hd A1) as Hu0.
  pose proof (div_lt (x - lo) d (inject_Z n) Hd A2) as Hu1.
  set (u := ((x - lo) / d)%Q) in *. clearbody u.
  rewrite qtrunc_nonneg by lra. split.
  - apply floor_nonneg. lra.
  - apply floor_lt; auto.
Qed.

Lemma axis_adjacent lo d x y :
  (0 < d)%Q -> (lo < y)%Q -> (x - y <= d)%Q -> (y - x <= d)%Q ->
  let i0 := qtrunc ((x - lo) / d) in let ie := qtrunc ((y - lo) / d) in
  i0 - 1 <= ie <= i0 + 1.
Proof.
  intros Hd Hy H1 H2.
  assert (A1 : (0 < y - lo)%Q) by lra.
  assert (A2 : ((x - lo) - (y - lo) <= d)%Q) by lra.
  assert (A3 : ((y - lo) - (x - lo) <= d)%Q) by lra.
  pose proof (div_pos (y - lo) d Hd A1) as Hv0.
  pose proof (div_le_succ (x - lo) (y - lo) d Hd A2) as Huv.
  pose proof (div_le_succ (y - lo) (x - lo) d Hd A3) as Hvu.
  set (u := ((x - lo) / d)%Q) in *. set (v := ((y - lo) / d)%Q) in *.
  clearbody u v.
  cbv zeta. rewrite (qtrunc_nonneg v) by lra.
  pose proof (Qfloor_le v) as Fv. pose proof (floor_lt_succ v) as Fv'.
  destruct (Qlt_le_dec u 0) as [Hu|Hu].
  - rewrite (qtrunc_neg u) by auto.
    assert (Qfloor v = 0).
    { assert (Qfloor v < 1) by (apply floor_lt_1; lra).
      assert (0 <= Qfloor v) by (apply floor_nonneg; lra). lia. }
    assert (Qfloor (- u) = 0).
    { assert (Qfloor (- u) < 1) by (apply floor_lt_1; lra).
      assert (0 <= Qfloor (- u)) by (apply floor_nonneg; lra). lia. }
    lia.
  - rewrite (qtrunc_nonneg u) by auto.
    pose proof (Qfloor_le u) as Fu. pose proof (floor_lt_succ u) as Fu'.
    assert (Qfloor u < Qfloor v + 2).
    { rewrite Zlt_Qlt. rewrite inject_Z_plus. change (inject_Z 2) with 2%Q. lra. }
    assert (Qfloor v < Qfloor u + 2).
    { rewrite Zlt_Qlt. rewrite inject_Z_plus. change (inject_Z 2) with 2%Q. lra. }
    lia.
Qed.

(* ---------- min / max of a list ---------- *)
Lemma fold_min_spec l : forall a,
  fold_left Z.min l a <= a /\ forall x, In x l -> fold_left Z.min l a <= x.
Proof.
  induction l as [|y l IH]; simpl; intros a.
  - split; [lia|tauto].
  - destruct (IH (Z.min a y)) as [H1 H2]. split; [lia|].
    intros x [->|Hx]; [lia|auto].
Qed.
Lemma fold_max_spec l : forall a,
  a <= fold_left Z.max l a /\ forall x, In x l -> x <= fold_left Z.max l a.
Proof.
  induction l as [|y l IH]; simpl; intros a.
  - split; [lia|tauto].
  - destruct (IH (Z.max a y)) as [H1 H2]. split; [lia|].
    intros x [->|Hx]; [lia|auto].
Qed.
Lemma zmin_list_le xs x : In x xs -> zmin_list xs <= x.
Proof.
  destruct xs as [|h t]; simpl; [tauto|]. unfold zmin_list; simpl.
  destruct (fold_min_spec t h). intros [->|]; auto.
Qed.
Lemma zmax_list_ge xs x : In x xs -> x <= zmax_list xs.
Proof.
  destruct xs as [|h t]; simpl; [tauto|]. unfold zmax_list; simpl.
  destruct (fold_max_spec t h). intros [->|]; auto.
Qed.

(* ---------- one axis ---------- *)
Lemma axis_fin p c xs y :
  (0 < p)%Q -> 0 < c -> In y xs ->
  let ax := mk_axis p (Fin c) xs in
  exists d, ax_d ax = Some d /\ (0 < d)%Q /\ (inject_Z c <= d)%Q /\ 1 <= ax_n ax /\
            (ax_hi ax - ax_lo ax <= inject_Z (ax_n ax) * d)%Q /\
            (ax_lo ax < inject_Z y)%Q /\ (inject_Z y < ax_hi ax)%Q.
Proof.
  intros Hp Hc Hy. unfold mk_axis. cbv zeta.
  set (lo := (inject_Z (zmin_list xs) - p)%Q). set (hi := (inject_Z (zmax_list xs) + p)%Q).
  cbn [ax_d ax_n ax_hi ax_lo].
  assert (Hlo : (lo < inject_Z y)%Q).
  { pose proof (zmin_list_le xs y Hy) as H. rewrite Zle_Qle in H. unfold lo. lra. }
  assert (Hhi : (inject_Z y < hi)%Q).
  { pose proof (zmax_list_ge xs y Hy) as H. rewrite Zle_Qle in H. unfold hi. lra. }
  clearbody lo hi.
  assert (HcQ : (0 < inject_Z c)%Q) by (change 0%Q with (inject_Z 0); rewrite <- Zlt_Qlt; lia).
  assert (Hlh : (lo < hi)%Q) by lra.
  destruct (width_facts lo hi c _ _ Hlh HcQ eq_refl eq_refl) as (Hn & Hcd & Hw).
  eexists; split; [reflexivity|].
  repeat split; auto. eapply Qlt_le_trans; eauto.
Qed.

Lemma ax_in_range p cu xs y :
  (0 < p)%Q -> cut_pos cu -> In y xs ->
  ix_in_range (mk_axis p cu xs) (ax_ix (mk_axis p cu xs) y).
Proof.
  intros Hp Hc Hy. destruct cu as [c|].
  - destruct (axis_fin p c xs y Hp Hc Hy) as (d & Ed & Hd & Hcd & Hn & Hw & Hlo & Hhi).
    unfold ix_in_range, ax_ix. rewrite Ed. eapply axis_in_range; eauto.
  - unfold ix_in_range, ax_ix; simpl. lia.
Qed.

Definition close (cu : cut) (x y : Z) : Prop :=
  match cu with Fin c => - c <= x - y <= c | Inf => True end.

Lemma in_nbr ax i0 i :
  In i (nbr ax i0) <-> Z.max (i0 - 1) 0 <= i <= Z.min (i0 + 1) (ax_n ax - 1).
Proof. unfold nbr. cbv zeta. rewrite in_zrange. lia. Qed.

Lemma ax_adjacent p cu xs x y :
  (0 < p)%Q -> cut_pos cu -> In y xs -> close cu x y ->
  let ax := mk_axis p cu xs in In (ax_ix ax y) (nbr ax (ax_ix ax x)).
Proof.
  intros Hp Hc Hy Hxy ax. apply in_nbr.
  pose proof (ax_in_range p cu xs y Hp Hc Hy) as Hr. fold ax in Hr. unfold ix_in_range in Hr.
  destruct cu as [c|].
  - destruct (axis_fin p c xs y Hp Hc Hy) as (d & Ed & Hd & Hcd & Hn & Hw & Hlo & Hhi).
    fold ax in Ed, Hlo. unfold ax_ix in *. rewrite Ed in *.
    simpl in Hxy, Hc. destruct Hxy as [Hx1 Hx2].
    assert (H1 : (inject_Z x - inject_Z y <= d)%Q).
    { eapply Qle_trans; [|exact Hcd]. rewrite <- inject_Z_sub, <- Zle_Qle. lia. }
    assert (H2 : (inject_Z y - inject_Z x <= d)%Q).
    { eapply Qle_trans; [|exact Hcd]. rewrite <- inject_Z_sub, <- Zle_Qle. lia. }
    pose proof (axis_adjacent (ax_lo ax) d (inject_Z x) (inject_Z y) Hd Hlo H1 H2) as Ha.
    cbv zeta in Ha. lia.
  - unfold ax_ix in *. simpl in *. lia.
Qed.

(* the visited ranges never leave the array either, wherever the query point is *)
Theorem nbr_in_range ax i0 i : In i (nbr ax i0) -> ix_in_range ax i.
Proof. rewrite in_nbr. unfold ix_in_range. lia. Qed.

Lemma within_close cu q e : cut_pos cu -> within cu q e = true ->
  close cu (vx q) (vx e) /\ close cu (vy q) (vy e) /\ close cu (vz q) (vz e).
Proof.
  destruct cu as [c|]; simpl; [|tauto]. intros Hc H. apply Z.leb_le in H.
  unfold dist2, norm2, dot, sub in H. simpl in H.
  destruct q as [qx qy qz], e as [ex ey ez]. simpl in *.
  set (dx := qx - ex) in *. set (dy := qy - ey) in *. set (dz := qz - ez) in *.
  assert (Hx : Z.abs dx <= c) by (apply sq_le_abs; nia).
  assert (Hy : Z.abs dy <= c) by (apply sq_le_abs; nia).
  assert (Hz : Z.abs dz <= c) by (apply sq_le_abs; nia).
  lia.
Qed.

Lemma in_map_coord (f : eatom -> Z) pts e : In e pts -> In (f e) (map f pts).
Proof. apply in_map. Qed.

(* bins_in_range: every stored point has a bin index inside the allocated 3-d array (the
   memory-safety fact behind bins[i][j][k].push_back; needs the padding p > 0). *)
Theorem bins_in_range p cu pts e :
  (0 < p)%Q -> cut_pos cu -> In e pts ->
  let g := mk_geom p cu pts in
  let b := bin_of g (e_pos e) in
  ix_in_range (g_x g) (vx b) /\ ix_in_range (g_y g) (vy b) /\ ix_in_range (g_z g) (vz b).
Proof.
  intros Hp Hc He g b. unfold b, bin_of, g, mk_geom. cbn [g_x g_y g_z vx vy vz].
  split; [|split].
  - apply (ax_in_range p cu _ _ Hp Hc (in_map (fun e => vx (e_pos e)) pts e He)).
  - apply (ax_in_range p cu _ _ Hp Hc (in_map (fun e => vy (e_pos e)) pts e He)).
  - apply (ax_in_range p cu _ _ Hp Hc (in_map (fun e => vz (e_pos e)) pts e He)).
Qed.

Lemma in_nbr_triples g q t :
  In t (nbr_triples g q) <->
  In (vx t) (nbr (g_x g) (vx (bin_of g q))) /\ In (vy t) (nbr (g_y g) (vy (bin_of g q))) /\
  In (vz t) (nbr (g_z g) (vz (bin_of g q))).
Proof.
  unfold nbr_triples. cbv zeta. rewrite in_flat_map. split.
  - intros (i & Hi & H). apply in_flat_map in H. destruct H as (j & Hj & H).
    apply in_map_iff in H. destruct H as (k & <- & Hk). simpl. auto.
  - intros (Hi & Hj & Hk). exists (vx t). split; auto. apply in_flat_map.
    exists (vy t). split; auto. apply in_map_iff. exists (vz t). split; auto.
    destruct t; reflexivity.
Qed.

(* bins_complete: a stored point within the cutoff of ANY query point q lies in one of the
   (at most 27) visited bins, because dx >= cutoff. *)
Theorem bins_complete p cu pts q e :
  (0 < p)%Q -> cut_pos cu -> In e pts ->
  within cu q (e_pos e) = true ->
  let g := mk_geom p cu pts in
  In (bin_of g (e_pos e)) (nbr_triples g q).
Proof.
  intros Hp Hc He Hw g. apply in_nbr_triples.
  destruct (within_close cu q (e_pos e) Hc Hw) as (Cx & Cy & Cz).
  unfold bin_of, g, mk_geom. cbn [g_x g_y g_z vx vy vz].
  split; [|split].
  - apply (ax_adjacent p cu _ _ _ Hp Hc (in_map (fun e => vx (e_pos e)) pts e He) Cx).
  - apply (ax_adjacent p cu _ _ _ Hp Hc (in_map (fun e => vy (e_pos e)) pts e He) Cy).
  - apply (ax_adjacent p cu _ _ _ Hp Hc (in_map (fun e => vz (e_pos e)) pts e He) Cz).
Qed.

(* ---------- the query ---------- *)
Lemma v3_eqb_eq a b : v3_eqb a b = true <-> a = b.
Proof.
  destruct a, b; unfold v3_eqb; simpl. rewrite !andb_true_iff, !Z.eqb_eq. split.
  - intros [[-> ->] ->]; auto.
  - intros H; injection H; auto.
Qed.

Lemma filter_map_snd {A B} (f : A -> B) (pr : B -> bool) (w : A -> bool) l :
  map snd (filter (fun x => pr (fst x)) (filter (fun x => w (snd x)) (map (fun a => (f a, a)) l)))
  = filter w (filter (fun a => pr (f a)) l).
Proof.
  induction l as [|a l IH]; simpl; auto.
  destruct (w a) eqn:Hw; simpl; destruct (pr (f a)) eqn:Hp; simpl; rewrite ?Hw; simpl; rewrite ?IH; auto.
Qed.

Lemma query_fast_eq g pts q : query_fast g (binned g pts) q = query g pts q.
Proof.
  unfold query_fast, query, binned, bin_content. apply flat_map_ext. intros t.
  apply (filter_map_snd (fun ie : nat * eatom => bin_of g (e_pos (snd ie)))
                        (fun b => v3_eqb b t)
                        (fun ie : nat * eatom => within (g_cut g) q (e_pos (snd ie)))).
Qed.

Lemma in_query g pts q ie :
  In ie (query g pts q) <->
  In (bin_of g (e_pos (snd ie))) (nbr_triples g q) /\ In ie (indexed pts) /\
  within (g_cut g) q (e_pos (snd ie)) = true.
Proof.
  unfold query, bin_content. rewrite in_flat_map. split.
  - intros (t & Ht & H). apply filter_In in H. destruct H as [H Hw].
    apply filter_In in H. destruct H as [Hi Hb]. apply v3_eqb_eq in Hb. subst t. auto.
  - intros (Ht & Hi & Hw). exists (bin_of g (e_pos (snd ie))). split; auto.
    apply filter_In. split; auto. apply filter_In. split; auto. apply v3_eqb_eq. reflexivity.
Qed.

Lemma NoDup_map_inj {A B} (f : A -> B) l :
  (forall x y, f x = f y -> x = y) -> NoDup l -> NoDup (map f l).
Proof.
  intros Hf. induction 1 as [|a l Ha Hl IH]; simpl; constructor; auto.
  intros H. apply in_map_iff in H. destruct H as (b & E & Hb). apply Hf in E. subst. auto.
Qed.

Lemma NoDup_nbr ax i : NoDup (nbr ax i).
Proof. unfold nbr. apply NoDup_zrange. Qed.

Lemma NoDup_nbr_triples g q : NoDup (nbr_triples g q).
Proof.
  unfold nbr_triples. cbv zeta. apply NoDup_flat_map_disjoint.
  - apply NoDup_nbr.
  - intros i _. apply NoDup_flat_map_disjoint.
    + apply NoDup_nbr.
    + intros j _. apply NoDup_map_inj; [|apply NoDup_nbr].
      intros x y H. injection H; auto.
    + intros j j' z _ _ H1 H2. apply in_map_iff in H1, H2.
      destruct H1 as (k & <- & _). destruct H2 as (k' & E & _). injection E; auto.
  - intros i i' z _ _ H1 H2. apply in_flat_map in H1, H2.
    destruct H1 as (j & _ & H1). destruct H2 as (j' & _ & H2). apply in_map_iff in H1, H2.
    destruct H1 as (k & <- & _). destruct H2 as (k' & E & _). injection E; auto.
Qed.

Lemma NoDup_indexed {A} (l : list A) : NoDup (indexed l).
Proof. apply (NoDup_map_inv fst). apply NoDup_indexed_fst. Qed.

Lemma NoDup_query g pts q : NoDup (query g pts q).
Proof.
  unfold query. apply NoDup_flat_map_disjoint.
  - apply NoDup_nbr_triples.
  - intros t _. apply NoDup_filter. unfold bin_content. apply NoDup_filter. apply NoDup_indexed.
  - intros t t' z _ _ H1 H2. apply filter_In in H1, H2. destruct H1 as [H1 _], H2 as [H2 _].
    unfold bin_content in *. apply filter_In in H1, H2. destruct H1 as [_ H1], H2 as [_ H2].
    apply v3_eqb_eq in H1, H2. congruence.
Qed.

(* query_eq_filter: the neighbour query returns exactly the stored points passing the cutoff
   test, each once. *)
Theorem query_eq_filter p cu pts q :
  (0 < p)%Q -> cut_pos cu ->
  let g := mk_geom p cu pts in
  (forall ie, In ie (query g pts q) <-> In ie (indexed pts) /\ within cu q (e_pos (snd ie)) = true)
  /\ NoDup (query g pts q)
  /\ Permutation (query g pts q) (filter (fun ie => within cu q (e_pos (snd ie))) (indexed pts)).
Proof.
  intros Hp Hc g.
  assert (Hiff : forall ie, In ie (query g pts q) <->
                            In ie (indexed pts) /\ within cu q (e_pos (snd ie)) = true).
  { intros ie. rewrite in_query. change (g_cut g) with cu. split; [tauto|].
    intros [Hi Hw]. split; [|auto].
    destruct ie as [i e]. apply in_indexed in Hi. apply nth_error_In in Hi.
    apply (bins_complete p cu pts q e Hp Hc Hi Hw). }
  split; [exact Hiff|]. split; [apply NoDup_query|].
  apply NoDup_Permutation.
  - apply NoDup_query.
  - apply NoDup_filter. apply NoDup_indexed.
  - intros ie. rewrite Hiff, filter_In. tauto.
Qed.

Example bins_example :
  let pts := [mkE (mk3 0 0 0) 0 0 zero3; mkE (mk3 10 3 (-4)) 0 1 zero3; mkE (mk3 25 7 1) 0 0 (mk3 1 0 0)] in
  let g := mk_geom (1 # 3) (Fin 6) pts in
  ax_n (g_x g) = 4 /\ bin_of g (mk3 25 7 1) = mk3 3 0 0 /\
  map fst (query g pts (mk3 8 0 0)) = [1%nat].
Proof. vm_compute. repeat split. Qed.

Print Assumptions bins_in_range.
Print Assumptions bins_complete.
Print Assumptions query_eq_filter.
