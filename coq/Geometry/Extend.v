(* Executable model of matid/ext/geometry.cpp : extend_system  (C10, C16).

   Exact-arithmetic semantics over Z: positions, cell vectors are integer vectors in a common grid
   unit; the extension length enters only through its square [ext2] (so that the infinite-cutoff
   rule "extension = longest periodic vector" needs no square root).

   What the C++ computes in doubles and what the model computes instead
   -------------------------------------------------------------------
   geometry.cpp:74-95   height_i = | a_i . p_i / (p_i . p_i) * p_i |   with p_1 = b x c, ...
                        N_i = (int) ceil(cutoff / height_i)
   In exact arithmetic height_1 = |vol| / |b x c|, hence
        N_1 = least N >= 0 with  N^2 * vol^2 >= ext^2 * |b x c|^2          ([least_sq] below).
   The float computation can differ from this only when cutoff/height is (numerically) an
   integer k: there [ceil] may see k or a value a few ulp above k and answer k or k+1.  These
   are the "boundary" cases of the correspondence; both answers are sufficient for every theorem
   (the theorems in ExtendProofs.v are proved for *any* N at least the exact one, see
   [copies_suffice]), k-1 would not be.
   geometry.cpp:62      lengths[i] == 0  is modelled as "the vector is the zero vector"
                        (a non-zero double vector whose squares underflow is outside the model).
   Integer overflow of [int] and memory exhaustion are outside the model. *)
From Coq Require Import ZArith List Bool Lia.
From MV Require Import Base.ZV3.
Import ListNotations.
Open Scope Z_scope.

Record pbc3 := mkP { px : bool; py : bool; pz : bool }.
Record atom := mkA { a_pos : v3; a_num : Z }.
(* one row of the ExtendedSystem arrays: position, atomic number, original index, factors *)
Record eatom := mkE { e_pos : v3; e_num : Z; e_idx : nat; e_fac : v3 }.

Definition zero3 := mk3 0 0 0.
Definition neg3 (a : v3) := mk3 (- vx a) (- vy a) (- vz a).
Definition latv (a b c n : v3) := lat a b c (vx n) (vy n) (vz n).
Definition norm2 (a : v3) := dot a a.
Definition dist2 (p q : v3) := norm2 (sub p q).
Definition v3_eqb (a b : v3) := (vx a =? vx b) && (vy a =? vy b) && (vz a =? vz b).

(* factors that vanish along non-periodic axes *)
Definition admissible (pbc : pbc3) (n : v3) : Prop :=
  (px pbc = false -> vx n = 0) /\ (py pbc = false -> vy n = 0) /\ (pz pbc = false -> vz n = 0).
Definition admissible_b (pbc : pbc3) (n : v3) : bool :=
  (px pbc || (vx n =? 0)) && (py pbc || (vy n =? 0)) && (pz pbc || (vz n =? 0)).

(* ---------------------------------------------------------------------------------------- *)
(* copies per axis *)

Definition ceil_div (a b : Z) := (a + b - 1) / b.

(* least N >= 0 with N*N*A >= B   (A > 0, B >= 0) *)
Definition least_sq (A B : Z) : Z :=
  let m := ceil_div B A in
  let s := Z.sqrt m in
  if s * s =? m then s else s + 1.

Definition isz (v : v3) : bool := (dot v v =? 0).
Definition b2z (b : bool) : Z := if b then 1 else 0.
Definition n_empty (a b c : v3) : Z := b2z (isz a) + b2z (isz b) + b2z (isz c).

(* geometry.cpp:66-73: exactly one zero basis vector is replaced by the cross product of the
   other two (only to define the heights; its multiplier is always 0). *)
Definition complete_cell (a b c : v3) : v3 * v3 * v3 :=
  if isz a && negb (isz b) && negb (isz c) then (cross b c, b, c)
  else if isz b && negb (isz a) && negb (isz c) then (a, cross a c, c)
  else if isz c && negb (isz a) && negb (isz b) then (a, b, cross a b)
  else (a, b, c).

Definition n_copies (a b c : v3) (pbc : pbc3) (ext2 : Z) : v3 :=
  let ne := n_empty a b c in
  if ne <=? 1 then
    match complete_cell a b c with
    | (a', b', c') =>
      let V := vol a' b' c' in
      let h (k : v3) (per : bool) (v w : v3) :=
          if per && negb (isz k)
          then least_sq (V * V) (ext2 * dot (cross v w) (cross v w)) else 0 in
      mk3 (h a (px pbc) b' c') (h b (py pbc) c' a') (h c (pz pbc) a' b')
    end
  else if ne =? 2 then
    let h (k : v3) (per : bool) := if per && negb (isz k) then least_sq (dot k k) ext2 else 0 in
    mk3 (h a (px pbc)) (h b (py pbc)) (h c (pz pbc))
  else zero3.

(* ---------------------------------------------------------------------------------------- *)
(* image ordering and the extended system *)

Definition zrange (lo : Z) (len : nat) : list Z := map (fun k => lo + Z.of_nat k) (seq 0 len).

(* geometry.cpp:111-122:  [0..N] ++ [-N..-1]  -- keeps the original system first *)
Definition images (N : Z) : list Z := zrange 0 (Z.to_nat N + 1) ++ zrange (- N) (Z.to_nat N).

Definition triples (Nv : v3) : list v3 :=
  flat_map (fun n1 => flat_map (fun n2 => map (fun n3 => mk3 n1 n2 n3) (images (vz Nv)))
                               (images (vy Nv))) (images (vx Nv)).

Definition indexed {A} (l : list A) : list (nat * A) := combine (seq 0 (length l)) l.

Definition image_of (a b c n : v3) (ia : nat * atom) : eatom :=
  mkE (add (a_pos (snd ia)) (latv a b c n)) (a_num (snd ia)) (fst ia) n.

(* geometry.cpp:139-167, with the copy counts as an explicit argument *)
Definition extend_with (a b c Nv : v3) (atoms : list atom) : list eatom :=
  flat_map (fun n => map (image_of a b c n) (indexed atoms)) (triples Nv).

Definition extend_system (a b c : v3) (pbc : pbc3) (ext2 : Z) (atoms : list atom) : list eatom :=
  match complete_cell a b c with
  | (a', b', c') => extend_with a' b' c' (n_copies a b c pbc ext2) atoms
  end.

(* infinite cutoff (geometry.cpp:208-225): extension = longest periodic basis vector *)
Definition longest2 (a b c : v3) (pbc : pbc3) : Z :=
  Z.max (if px pbc then dot a a else 0) (Z.max (if py pbc then dot b b else 0) (if pz pbc then dot c c else 0)).

(* "inside the cell along the periodic axes", without division (cf. ZV3.copies_suffice_axis1):
   0 <= s_k < 1  with s_k = D_k / vol *)
Definition D2 (a b c p : v3) := dot p (cross c a).
Definition D3 (a b c p : v3) := dot p (cross a b).
Definition frac_in (V d : Z) : Prop := 0 <= d * Z.sgn V < Z.abs V.
Definition in_cell (a b c : v3) (pbc : pbc3) (p : v3) : Prop :=
  let V := vol a b c in
  (px pbc = true -> frac_in V (D1 a b c p)) /\
  (py pbc = true -> frac_in V (D2 a b c p)) /\
  (pz pbc = true -> frac_in V (D3 a b c p)).
Definition frac_in_b (V d : Z) : bool := (0 <=? d * Z.sgn V) && (d * Z.sgn V <? Z.abs V).
Definition in_cell_b (a b c : v3) (pbc : pbc3) (p : v3) : bool :=
  let V := vol a b c in
  (negb (px pbc) || frac_in_b V (D1 a b c p)) &&
  (negb (py pbc) || frac_in_b V (D2 a b c p)) &&
  (negb (pz pbc) || frac_in_b V (D3 a b c p)).
