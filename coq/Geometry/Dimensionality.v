(* C09 -- executable model of matid.geometry.get_dimensionality and an independent specification.

   Three layers, all executable except where a [Section] variable stands for the C++ table:

   (1) [dim_from]   the control flow of get_dimensionality over two adjacency relations
                    (1x graph, 2x graph):  None if the 1x graph has > 1 component, 0 without
                    periodic axes, otherwise  int(n_pbc - log2 N_2x).
   (2) [get_dim_metric]  (1) instantiated with "table entry - r_u - r_v <= thr" over abstract
                    minimum-image tables [tab1], [tab2] (squared distances in grid units,
                    None = infinity), radii tiled as np.tile does, 2x atoms numbered as
                    ase.Atoms.repeat numbers them ([mask] = copy index).
   (3) [get_dim_graph]   (1) instantiated with the *discrete* bonding data: the finite list E of
                    bonded image pairs (i, j, o) -- atom i is bonded to the image of atom j
                    displaced by the lattice vector o.  This is what the correspondence check
                    evaluates by vm_compute on every generated case.
   [dim_spec] is the independent specification on the same discrete data: spanning-tree
   potentials, cycle voltages, rank of the voltage lattice over GF(2) (size of the explicit span) and
   over Z (fraction-free elimination).  Proofs are in DimensionalityProofs.v and Base/Cover.v. *)
From Coq Require Import List Arith Bool ZArith Lia PeanoNat.
From MV Require Import Base.Graph Base.Cover Base.ZV3.
Import ListNotations.
Local Open Scope nat_scope.

(* ------------------------------------------------------------------------------------------ *)
(* Connected components: the stand-in for DBSCAN(min_samples=1, metric="precomputed") is
   [Cover.components] / [Cover.ncomp] (iterated [Graph.component]; fuel |V| is shown sufficient by
   [Cover.comps_spec]).  cluster label of a vertex: the smallest member of its component *)
Definition label (adj : nat -> nat -> bool) (V : list nat) (v : nat) : nat :=
  fold_right Nat.min v (component adj V v).

(* ------------------------------------------------------------------------------------------ *)
(* periodic axes, offsets, parity masks                                                         *)
Definition off := (Z * Z * Z)%type.
Definition pbc3 := (bool * bool * bool)%type.
Definition ipair := (nat * nat * off)%type.

Definition b2n (b : bool) : nat := if b then 1 else 0.
Definition npbc (p : pbc3) : nat := let '(p0, p1, p2) := p in b2n p0 + b2n p1 + b2n p2.

(* index of the copy (m0,m1,m2) in ase.Atoms.repeat with repeats = 2 on periodic axes, 1 otherwise:
   for m0 in range(R0): for m1 in range(R1): for m2 in range(R2)  -- i.e. ((m0*R1)+m1)*R2+m2,
   which is the number whose binary digits are the m's of the periodic axes. *)
Definition maskb (p : pbc3) (m : bool * bool * bool) : nat :=
  let '(p0, p1, p2) := p in
  let '(m0, m1, m2) := m in
  let c0 := if p0 then b2n m0 else 0 in
  let c1 := if p1 then 2 * c0 + b2n m1 else c0 in
  if p2 then 2 * c1 + b2n m2 else c1.
Definition parity (o : off) : bool * bool * bool :=
  let '(x, y, z) := o in (Z.odd x, Z.odd y, Z.odd z).
Definition mask (p : pbc3) (o : off) : nat := maskb p (parity o).
(* the parity vector of a copy index (inverse of maskb on vectors that vanish off the periodic axes) *)
Definition unmaskb (p : pbc3) (c : nat) : bool * bool * bool :=
  let '(p0, p1, p2) := p in
  let b2 := if p2 then Nat.odd c else false in
  let c1 := if p2 then c / 2 else c in
  let b1 := if p1 then Nat.odd c1 else false in
  let c0 := if p1 then c1 / 2 else c1 in
  let b0 := if p0 then Nat.odd c0 else false in
  (b0, b1, b2).
Definition zb (b : bool) : Z := if b then 1%Z else 0%Z.
Definition unmask (p : pbc3) (c : nat) : off :=
  let '(b0, b1, b2) := unmaskb p c in (zb b0, zb b1, zb b2).

(* an offset is admissible when it vanishes on the non-periodic axes *)
Definition okoff (p : pbc3) (o : off) : bool :=
  let '(p0, p1, p2) := p in let '(x, y, z) := o in
  (p0 || (x =? 0)%Z) && (p1 || (y =? 0)%Z) && (p2 || (z =? 0)%Z).

Definition oadd (a b : off) : off :=
  let '(x, y, z) := a in let '(x', y', z') := b in ((x + x')%Z, (y + y')%Z, (z + z')%Z).
Definition oneg (a : off) : off := let '(x, y, z) := a in ((- x)%Z, (- y)%Z, (- z)%Z).
Definition osub (a b : off) : off := oadd a (oneg b).
Definition oscale (k : Z) (a : off) : off := let '(x, y, z) := a in ((k * x)%Z, (k * y)%Z, (k * z)%Z).
Definition ozero : off := (0%Z, 0%Z, 0%Z).
Definition oeqb (a b : off) : bool :=
  let '(x, y, z) := a in let '(x', y', z') := b in ((x =? x') && (y =? y') && (z =? z'))%Z.

(* ------------------------------------------------------------------------------------------ *)
(* (1) control flow of get_dimensionality                                                       *)

(* int(n_pbc - math.log(N, 2)): exact when N is a power of two; otherwise the float is not an
   integer and int() truncates towards zero *)
Definition dim_formula (k N : nat) : Z :=
  let m := Nat.log2_up N in
  let d := (Z.of_nat k - Z.of_nat m)%Z in
  if (2 ^ m =? N) then d else if (0 <=? d)%Z then d else (d + 1)%Z.

Definition dim_from (n : nat) (p : pbc3) (a1 a2 : nat -> nat -> bool) : option Z :=
  if 1 <? ncomp a1 (seq 0 n) then None
  else let k := npbc p in
       if 0 <? k then Some (dim_formula k (ncomp a2 (seq 0 (2 ^ k * n))))
       else Some 0%Z.

(* ------------------------------------------------------------------------------------------ *)
(* (3) discrete bonding data                                                                    *)
Definition flip (e : ipair) : ipair := let '(i, j, o) := e in (j, i, oneg o).
Definition sym (E : list ipair) : list ipair := E ++ map flip E.

(* well-formed data: indices in range, offsets vanish off the periodic axes *)
Definition wf_E (n : nat) (p : pbc3) (E : list ipair) : bool :=
  forallb (fun e => let '(i, j, o) := e in (i <? n) && (j <? n) && okoff p o) E.

(* neighbour table: for each atom the list of (neighbour, parity mask of the offset) *)
Definition collect (p : pbc3) (l : list ipair) (i : nat) : list (nat * nat) :=
  map (fun e => (snd (fst e), mask p (snd e))) (filter (fun e => fst (fst e) =? i) l).
Definition nbr_tab (n : nat) (p : pbc3) (E : list ipair) : list (list (nat * nat)) :=
  map (collect p (sym E)) (seq 0 n).

(* lab i j c: some bonded image pair (i, j, o) has parity mask c *)
Definition lab_of (tab : list (list (nat * nat))) (i j c : nat) : bool :=
  existsb (fun jc => (fst jc =? j) && (snd jc =? c)) (nth i tab []).
(* 1x graph (minimum image of the cell itself): i ~ j iff some image of j is bonded to i *)
Definition adj1_of (tab : list (list (nat * nat))) (i j : nat) : bool :=
  (i =? j) || existsb (fun jc => fst jc =? j) (nth i tab []).
(* 2x graph: vertex u = c*n + i is copy c of atom i (repeat ordering); copies c, c' of atoms i, j
   are bonded iff some bonded image pair (i, j, o) has parity  c xor c' *)
Definition adj2_of (n : nat) (lab : nat -> nat -> nat -> bool) (u v : nat) : bool :=
  (u =? v) || lab (u mod n) (v mod n) (Nat.lxor (u / n) (v / n)).

Definition get_dim_graph (n : nat) (p : pbc3) (E : list ipair) : option Z :=
  let tab := nbr_tab n p E in
  dim_from n p (adj1_of tab) (adj2_of n (lab_of tab)).
Definition clusters_1x_labels (n : nat) (p : pbc3) (E : list ipair) : list nat :=
  let tab := nbr_tab n p E in
  map (label (adj1_of tab) (seq 0 n)) (seq 0 n).

(* ------------------------------------------------------------------------------------------ *)
(* (2) metric mirror over abstract minimum-image tables                                         *)
Section Metric.
Variable n : nat.
Variable p : pbc3.
Variable rad : nat -> Z.          (* radii of the n atoms, grid units *)
Variable thr : Z.                 (* cluster_threshold, grid units *)
Variable tab1 : nat -> nat -> option Z.   (* squared minimum-image distances, 1x system *)
Variable tab2 : nat -> nat -> option Z.   (* the same for system.repeat(repeats) *)

(* max radius as radii_1x.max() *)
Definition max_radius : Z := fold_right Z.max (rad 0) (map rad (seq 0 n)).
Definition cutoff : Z := (thr + 2 * max_radius)%Z.

(* "dist - r_u - r_v <= eps" with dist = sqrt(d2) (exact semantics), diagonal = 0 - 2r <= thr *)
Definition bondt (tab : nat -> nat -> option Z) (r : nat -> Z) (u v : nat) : bool :=
  (u =? v) ||
  match tab u v with
  | Some d2 => let t := (thr + r u + r v)%Z in (0 <=? t)%Z && (d2 <=? t * t)%Z
  | None => false
  end.
Definition rad2 (u : nat) : Z := rad (u mod n).      (* np.tile(radii_1x, prod(repeats)) *)
Definition get_dim_metric : option Z :=
  dim_from n p (bondt tab1 rad) (bondt tab2 rad2).
End Metric.

(* geometry of the repeated system *)
Section Geometry.
Variables a b c : v3.             (* cell vectors *)
Variable pos : nat -> v3.
Variable n : nat.
Variable p : pbc3.
Definition img_d2 (i j : nat) (o : off) : Z :=
  let '(x, y, z) := o in
  let d := sub (sub (pos i) (pos j)) (lat a b c x y z) in dot d d.
Definition rep_cell : v3 * v3 * v3 :=
  let '(p0, p1, p2) := p in
  (if p0 then scale 2 a else a, if p1 then scale 2 b else b, if p2 then scale 2 c else c).
Definition rep_pos (u : nat) : v3 :=
  let '(x, y, z) := unmask p (u / n) in add (pos (u mod n)) (lat a b c x y z).
End Geometry.

(* ------------------------------------------------------------------------------------------ *)
(* independent specification: rank of the lattice of cycle voltages                             *)
Fixpoint set_nth {A} (k : nat) (x : A) (l : list A) : list A :=
  match l, k with
  | [], _ => []
  | _ :: r, 0 => x :: r
  | h :: r, S k' => h :: set_nth k' x r
  end.

(* one sweep over the (symmetrised) pairs: an atom whose lattice position is known fixes the
   position of an unplaced bonded neighbour *)
Fixpoint relax (es : list ipair) (pot : list (option off)) : list (option off) :=
  match es with
  | [] => pot
  | (i, j, o) :: r =>
      relax r (match nth i pot None, nth j pot None with
               | Some pi, None => set_nth j (Some (oadd pi o)) pot
               | _, _ => pot
               end)
  end.
Fixpoint relax_n (k : nat) (es : list ipair) (pot : list (option off)) :=
  match k with 0 => pot | S k' => relax_n k' es (relax es pot) end.
Definition potentials (n : nat) (E : list ipair) : list (option off) :=
  relax_n n (sym E) (set_nth 0 (Some ozero) (repeat None n)).
Definition all_placed (pot : list (option off)) : bool :=
  forallb (fun x => match x with Some _ => true | None => false end) pot.
(* voltage of a pair: the lattice translation of the closed walk  root -> i -> j -> root *)
Definition voltages (pot : list (option off)) (E : list ipair) : list off :=
  map (fun e => let '(i, j, o) := e in
         match nth i pot None, nth j pot None with
         | Some pi, Some pj => osub (oadd pi o) pj
         | _, _ => ozero
         end) E.

Definition coord (k : nat) (o : off) : Z :=
  let '(x, y, z) := o in match k with 0 => x | 1 => y | _ => z end.
(* rank over Z (= over Q) by fraction-free elimination, column by column *)
Fixpoint elimZ (cs : list nat) (vs : list off) : nat :=
  match cs with
  | [] => 0
  | k :: cs' =>
      match find (fun v => negb (coord k v =? 0)%Z) vs with
      | None => elimZ cs' vs
      | Some pv => S (elimZ cs' (map (fun v => osub (oscale (coord k pv) v) (oscale (coord k v) pv)) vs))
      end
  end.
Definition rankZ (vs : list off) : nat := elimZ [0; 1; 2] vs.

Definition bvec := (bool * bool * bool)%type.
Definition bcoord (k : nat) (v : bvec) : bool :=
  let '(x, y, z) := v in match k with 0 => x | 1 => y | _ => z end.
Definition bxor (u v : bvec) : bvec :=
  let '(x, y, z) := u in let '(x', y', z') := v in (xorb x x', xorb y y', xorb z z').
Fixpoint elim2 (cs : list nat) (vs : list bvec) : nat :=
  match cs with
  | [] => 0
  | k :: cs' =>
      match find (bcoord k) vs with
      | None => elim2 cs' vs
      | Some pv => S (elim2 cs' (map (fun v => if bcoord k v then bxor v pv else v) vs))
      end
  end.
Definition rank2_elim (vs : list off) : nat := elim2 [0; 1; 2] (map parity vs).

(* GF(2)-span of a list of parity masks, as an explicit duplicate-free list; the GF(2) rank of the
   specification is log2 of its size (DimensionalityProofs.K_is_span ties it to the 2x graph) *)
Fixpoint span2 (vs : list nat) : list nat :=
  match vs with
  | [] => [0]
  | v :: r => let S := span2 r in if mem v S then S else S ++ map (Nat.lxor v) S
  end.
Definition rank2 (p : pbc3) (vs : list off) : nat := Nat.log2 (length (span2 (map (mask p) vs))).

(* None: the bonded network of the cell contents is not connected.
   Some (r2, rZ): rank of the cycle-voltage lattice modulo 2 and over Z. *)
Definition dim_spec (n : nat) (p : pbc3) (E : list ipair) : option (nat * nat) :=
  let pot := potentials n E in
  if all_placed pot then
    let vs := voltages pot E in Some (rank2 p vs, rankZ vs)
  else None.
(* cross-check of the two GF(2) rank computations (span size vs. elimination) *)
Definition rank2_consistent (n : nat) (p : pbc3) (E : list ipair) : bool :=
  let vs := voltages (potentials n E) E in rank2 p vs =? rank2_elim vs.

(* ------------------------------------------------------------------------------------------ *)
(* agreement relations used by the correspondence check (harness/props/c09.py)                  *)
Definition optZ_eqb (x y : option Z) : bool :=
  match x, y with
  | None, None => true
  | Some u, Some v => (u =? v)%Z
  | _, _ => false
  end.
Fixpoint natlist_eqb (x y : list nat) : bool :=
  match x, y with
  | [], [] => true
  | u :: x', v :: y' => (u =? v) && natlist_eqb x' y'
  | _, _ => false
  end.

(* the code mirror reproduces the implementation's answer and its 1x cluster partition *)
Definition agree_mirror (n : nat) (p : pbc3) (E : list ipair) (impl_dim : option Z) (impl_labels : list nat) : bool :=
  wf_E n p E && optZ_eqb (get_dim_graph n p E) impl_dim
  && natlist_eqb (clusters_1x_labels n p E) impl_labels.
(* the implementation's answer is the GF(2) rank of the specification (None iff disconnected) *)
Definition agree_spec (n : nat) (p : pbc3) (E : list ipair) (impl_dim : option Z) : bool :=
  match dim_spec n p E, impl_dim with
  | None, None => true
  | Some (r2, _), Some d => (Z.of_nat r2 =? d)%Z
  | _, _ => false
  end.
(* input-family condition of the property: GF(2) rank = integer rank *)
Definition ranks_agree (n : nat) (p : pbc3) (E : list ipair) : bool :=
  match dim_spec n p E with Some (r2, rz) => r2 =? rz | None => true end.
Definition spec_rankZ_is (n : nat) (p : pbc3) (E : list ipair) (d : option Z) : bool :=
  match dim_spec n p E, d with
  | None, None => true
  | Some (_, rz), Some d' => (Z.of_nat rz =? d')%Z
  | _, _ => false
  end.

(* small sanity examples (tests, not theorems about the code) *)
Example ex_chain_1d :   (* one atom bonded to its own images along x: a chain *)
  get_dim_graph 1 (true, true, true) [(0, 0, (1, 0, 0)%Z)] = Some 1%Z
  /\ dim_spec 1 (true, true, true) [(0, 0, (1, 0, 0)%Z)] = Some (1, 1).
Proof. vm_compute. split; reflexivity. Qed.
Example ex_two_molecules :
  get_dim_graph 2 (true, true, true) [] = None /\ dim_spec 2 (true, true, true) [] = None.
Proof. vm_compute. split; reflexivity. Qed.
Example ex_checkerboard :   (* network connected to its images only by a+b and a-b: Z-rank 2, GF(2)-rank 1 *)
  get_dim_graph 1 (true, true, false) [(0, 0, (1, 1, 0)%Z); (0, 0, (1, -1, 0)%Z)] = Some 1%Z
  /\ dim_spec 1 (true, true, false) [(0, 0, (1, 1, 0)%Z); (0, 0, (1, -1, 0)%Z)] = Some (1, 2).
Proof. vm_compute. split; reflexivity. Qed.

(* one relation per generated case: code mirror = implementation (answer and 1x partition), the
   implementation's answer = GF(2) rank of the specification, the harness oracle's integer rank =
   the specification's integer rank, and the harness' rank-mismatch flag is the specification's *)
Definition check_case (n : nat) (p : pbc3) (E : list ipair) (impl_dim : option Z) (impl_labels : list nat)
           (oracleZ : option Z) (mismatch : bool) : bool :=
  agree_mirror n p E impl_dim impl_labels && agree_spec n p E impl_dim
  && spec_rankZ_is n p E oracleZ && Bool.eqb (ranks_agree n p E) (negb mismatch) && rank2_consistent n p E.
(* invariance clauses, evaluated on pairs of presentations of the same structure *)
Definition spec_eqb (x y : option (nat * nat)) : bool :=
  match x, y with
  | None, None => true
  | Some (a, b), Some (c, d) => (a =? c) && (b =? d)
  | _, _ => false
  end.
Definition same_spec (n1 : nat) (p1 : pbc3) (E1 : list ipair) (n2 : nat) (p2 : pbc3) (E2 : list ipair) : bool :=
  spec_eqb (dim_spec n1 p1 E1) (dim_spec n2 p2 E2).
