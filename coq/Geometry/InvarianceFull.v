(* C09 -- the invariance statement in full: the specification dim_spec (None / GF(2) rank / integer rank) of a network does not
   depend on how the network is presented -- [C09_invariance_full_statement] of DimensionalityProofs.v, proved.

   The re-presentations [represent n E E'] are: lattice shifts of atoms by ARBITRARY vectors (no condition on the shifts beyond
   E' being well-formed), re-numbering by any injective map of the atoms, and any invertible change of lattice basis (no
   condition that the basis change respects the periodic axes beyond E' being well-formed).  The earlier theorems needed the
   shifts / the basis change to respect the periodic axes globally and the permutation to come with its inverse; here
     - self-translations of a well-formed network vanish off the periodic axes ([st_okoff]), which localises those conditions;
     - an injective map of {0..n-1} into itself has an inverse ([inj_has_inverse], pigeonhole);
   and the integer-rank half is VoltageLattice.v. *)
From Coq Require Import List Arith Bool ZArith Lia PeanoNat.
From MV Require Import Base.Graph Base.Cover Geometry.Dimensionality Geometry.DimensionalityProofs
  Geometry.DimensionalityInvariance Geometry.RankDet Geometry.RankElim Geometry.VoltageLattice.
Import ListNotations.
Local Open Scope nat_scope.

(* ------------------------------------------------------------------------------------------------------------ *)
Section Local.
Variables (n : nat) (p : pbc3).
Hypothesis n_pos : 0 < n.

Lemma reach_okoff E x y : wf_E n p E = true -> reach_inf E x y -> okoff p (snd x) = true -> okoff p (snd y) = true.
Proof.
  intros wf H Hx. induction H as [|i t j o Hr IH Hin]; [exact Hx|]. cbn [snd] in *.
  apply okoff_oadd; [exact IH | apply (wf_sym_ok n p E wf _ _ _ Hin)].
Qed.

Lemma st_okoff E t : wf_E n p E = true -> self_translation E t -> okoff p t = true.
Proof.
  intros wf H. apply (reach_okoff E (0, ozero) (0, t) wf H). cbn. destruct p as [[[] []] []]; reflexivity.
Qed.

Lemma connected_inf E : wf_E n p E = true ->
  (connectedE n p E <-> forall i, i < n -> exists t, reach_inf E (0, ozero) (i, t)).
Proof. intro wf. apply (connected_iff_inf_root n p n_pos E 0 wf n_pos). Qed.

(* ---- lattice shifts of atoms, arbitrary shift vectors ------------------------------------------------------- *)
Lemma reach_atom_shift_conv s E i : (exists t, reach_inf E (0, ozero) (i, t)) -> exists t, reach_inf (shiftE s E) (0, ozero) (i, t).
Proof.
  intro H. apply (reach_atom_shift (fun i => oneg (s i)) (shiftE s E) i). rewrite shiftE_inverse. exact H.
Qed.

Theorem shift_mirror_wf E s : wf_E n p E = true -> wf_E n p (shiftE s E) = true ->
  get_dim_graph n p (shiftE s E) = get_dim_graph n p E.
Proof.
  intros wf wf'. apply (mirror_determined n p n_pos); try assumption.
  - rewrite (connected_inf _ wf'), (connected_inf _ wf). split; intros H i Hi.
    + apply (reach_atom_shift s). apply H. exact Hi.
    + apply reach_atom_shift_conv. apply H. exact Hi.
  - intros _ a. rewrite (K_is_parity_of_self_translations n p _ wf' n_pos), (K_is_parity_of_self_translations n p _ wf n_pos).
    split; intros [t [Hok [Hst Hm]]]; exists t; (split; [assumption|]); (split; [|assumption]);
      apply (self_translation_shift_invariant s E t); assumption.
Qed.

Theorem dim_spec_shift_wf E s : wf_E n p E = true -> wf_E n p (shiftE s E) = true ->
  dim_spec n p (shiftE s E) = dim_spec n p E.
Proof.
  intros wf wf'. apply dim_spec_combine; auto.
  - apply shift_mirror_wf; assumption.
  - intros P P'. apply (rankZ_shift n p); assumption.
Qed.

(* ---- change of lattice basis, any invertible integer matrix -------------------------------------------------- *)
Section BasisLocal.
Variables (W W' : off * off * off).
Hypothesis W'_W : forall o, lin W' (lin W o) = o.
Hypothesis W_W' : forall o, lin W (lin W' o) = o.

Lemma basisE_inv E : basisE W' (basisE W E) = E.
Proof.
  unfold basisE. rewrite map_map. rewrite <- (map_id E) at 2. apply map_ext. intros [[i j] o]. cbn. rewrite W'_W. reflexivity.
Qed.

Theorem basis_mirror_wf E : wf_E n p E = true -> wf_E n p (basisE W E) = true ->
  get_dim_graph n p (basisE W E) = get_dim_graph n p E.
Proof.
  intros wf wf'.
  apply mirror_determined_len; try assumption.
  - rewrite (connected_inf _ wf'), (connected_inf _ wf). split; intros H i Hi.
    + destruct (H i Hi) as [t Ht]. apply (reach_inf_basis W') in Ht. cbn [fst snd] in Ht. rewrite basisE_inv, lin_ozero in Ht.
      eexists. exact Ht.
    + destruct (H i Hi) as [t Ht]. apply (reach_inf_basis W) in Ht. cbn [fst snd] in Ht. rewrite lin_ozero in Ht.
      eexists. exact Ht.
  - intros _.
    (* the parities of K are carried over by fmask, for any pair of well-formed networks related by a linear map of the
       self-translations *)
    assert (Hfwd : forall M E1 E2, wf_E n p E1 = true -> wf_E n p E2 = true ->
              (forall t, self_translation E1 t -> self_translation E2 (lin M t)) ->
              forall a, In a (Kset n p E1) -> In (fmask p M a) (Kset n p E2)).
    { intros M E1 E2 wf1 wf2 Hst a Ha.
      apply (K_is_parity_of_self_translations n p _ wf1 n_pos) in Ha. destruct Ha as [t [Hok [Ht <-]]].
      apply (K_is_parity_of_self_translations n p _ wf2 n_pos). exists (lin M t).
      split; [apply (st_okoff E2 _ wf2), Hst; assumption|]. split; [apply Hst; assumption | apply mask_lin; assumption]. }
    (* on K the two parity maps are mutually inverse *)
    assert (Hinv : forall M M' E1 E2, wf_E n p E1 = true -> wf_E n p E2 = true -> (forall o, lin M' (lin M o) = o) ->
              (forall t, self_translation E1 t -> self_translation E2 (lin M t)) ->
              forall a, In a (Kset n p E1) -> fmask p M' (fmask p M a) = a).
    { intros M M' E1 E2 wf1 wf2 HMM Hst a Ha.
      apply (K_is_parity_of_self_translations n p _ wf1 n_pos) in Ha. destruct Ha as [t [Hok [Ht <-]]].
      rewrite <- (mask_lin p M t Hok).
      rewrite <- (mask_lin p M' (lin M t)) by (apply (st_okoff E2 _ wf2), Hst; assumption).
      rewrite HMM. reflexivity. }
    assert (HndK : forall E0, NoDup (Kset n p E0)) by (intros E0; unfold Kset, K; apply NoDup_filter, seq_NoDup).
    assert (Hst1 : forall t, self_translation E t -> self_translation (basisE W E) (lin W t)).
    { intros t Ht. apply (self_translation_basis W W' W'_W W_W'). exists t. split; [assumption | reflexivity]. }
    assert (Hst2 : forall t, self_translation (basisE W E) t -> self_translation E (lin W' t)).
    { intros t Ht. apply (self_translation_basis W W' W'_W W_W') in Ht. destruct Ht as [t0 [Ht0 ->]]. rewrite W'_W. assumption. }
    apply Nat.le_antisymm.
    + rewrite <- (map_length (fmask p W') (Kset n p (basisE W E))). apply NoDup_incl_length.
      * apply NoDup_map_inj_on; [|apply HndK]. intros x y Hx Hy Hxy.
        rewrite <- (Hinv W' W (basisE W E) E wf' wf W_W' Hst2 x Hx), <- (Hinv W' W (basisE W E) E wf' wf W_W' Hst2 y Hy), Hxy. reflexivity.
      * intros b Hb. apply in_map_iff in Hb. destruct Hb as [a [<- Ha]].
        apply (Hfwd W' (basisE W E) E wf' wf Hst2). assumption.
    + rewrite <- (map_length (fmask p W) (Kset n p E)). apply NoDup_incl_length.
      * apply NoDup_map_inj_on; [|apply HndK]. intros x y Hx Hy Hxy.
        rewrite <- (Hinv W W' E (basisE W E) wf wf' W'_W Hst1 x Hx), <- (Hinv W W' E (basisE W E) wf wf' W'_W Hst1 y Hy), Hxy. reflexivity.
      * intros b Hb. apply in_map_iff in Hb. destruct Hb as [a [<- Ha]].
        apply (Hfwd W E (basisE W E) wf wf' Hst1). assumption.
Qed.

Theorem dim_spec_basis_wf E : wf_E n p E = true -> wf_E n p (basisE W E) = true ->
  dim_spec n p (basisE W E) = dim_spec n p E.
Proof.
  intros wf wf'. apply dim_spec_combine; auto.
  - apply basis_mirror_wf; assumption.
  - intros P P'. apply (rankZ_basis n p E W W'); assumption.
Qed.
End BasisLocal.

(* ---- re-numbering by an injective map ------------------------------------------------------------------------- *)
Definition inv_of (pi : nat -> nat) (j : nat) : nat :=
  match find (fun i => pi i =? j) (seq 0 n) with Some i => i | None => 0 end.

Lemma inj_has_inverse pi :
  (forall i j, i < n -> j < n -> pi i = pi j -> i = j) -> (forall i, i < n -> pi i < n) ->
  (forall i, i < n -> inv_of pi i < n) /\ (forall i, i < n -> inv_of pi (pi i) = i) /\ (forall i, i < n -> pi (inv_of pi i) = i).
Proof.
  intros Hinj Hr.
  assert (Hfind : forall j i, find (fun i => pi i =? j) (seq 0 n) = Some i -> i < n /\ pi i = j).
  { intros j i H. apply find_some in H. destruct H as [Hin He]. apply in_seq in Hin. apply Nat.eqb_eq in He. split; [lia | exact He]. }
  assert (Hsurj : forall j, j < n -> exists i, i < n /\ pi i = j).
  { assert (Hnd : NoDup (map pi (seq 0 n))).
    { apply NoDup_map_inj_on; [|apply seq_NoDup]. intros x y Hx Hy. apply in_seq in Hx. apply in_seq in Hy. apply Hinj; lia. }
    assert (Hincl : incl (map pi (seq 0 n)) (seq 0 n)).
    { intros y Hy. apply in_map_iff in Hy. destruct Hy as [x [<- Hx]]. apply in_seq in Hx. apply in_seq. specialize (Hr x). lia. }
    assert (Hback : incl (seq 0 n) (map pi (seq 0 n))).
    { apply NoDup_length_incl; [exact Hnd | rewrite map_length; lia | exact Hincl]. }
    intros j Hj. assert (Hin : In j (seq 0 n)) by (apply in_seq; lia).
    apply Hback in Hin. apply in_map_iff in Hin. destruct Hin as [i [He Hi]]. apply in_seq in Hi. exists i. split; [lia | exact He]. }
  repeat split.
  - intros j Hj. unfold inv_of. destruct (find _ _) as [i|] eqn:F; [apply (Hfind j i F) | exact n_pos].
  - intros i Hi. unfold inv_of. destruct (find _ _) as [i'|] eqn:F.
    + destruct (Hfind _ _ F) as [Hi' He]. apply Hinj; assumption.
    + exfalso. pose proof (find_none _ _ F i) as H. cbn beta in H. rewrite Nat.eqb_refl in H.
      assert (Hin : In i (seq 0 n)) by (apply in_seq; lia). specialize (H Hin). discriminate.
  - intros j Hj. unfold inv_of. destruct (find _ _) as [i|] eqn:F.
    + apply (Hfind j i F).
    + exfalso. destruct (Hsurj j Hj) as [i [Hi He]]. pose proof (find_none _ _ F i) as H. cbn beta in H.
      assert (Hin : In i (seq 0 n)) by (apply in_seq; lia). specialize (H Hin). apply Nat.eqb_neq in H. contradiction.
Qed.

Theorem dim_spec_perm_inj E pi :
  (forall i j, i < n -> j < n -> pi i = pi j -> i = j) -> (forall i, i < n -> pi i < n) ->
  wf_E n p E = true -> dim_spec n p (permE pi E) = dim_spec n p E.
Proof.
  intros Hinj Hr wf. destruct (inj_has_inverse pi Hinj Hr) as (H1 & H2 & H3).
  apply (dim_spec_perm_invariant n p E pi (inv_of pi)); assumption.
Qed.
End Local.

(* ------------------------------------------------------------------------------------------------------------ *)
Theorem C09_invariance_full_statement_holds : C09_invariance_full_statement.
Proof.
  unfold C09_invariance_full_statement. intros n p E E' wf wf' Hn Hrep.
  destruct Hrep as [s E | pi E Hinj Hr | U Uinv E HUU HUU'].
  - change (map (fun e : ipair => let '(i, j, o) := e in (i, j, oadd (osub o (s j)) (s i))) E) with (shiftE s E) in *.
    symmetry. apply dim_spec_shift_wf; assumption.
  - change (map (fun e : ipair => let '(i, j, o) := e in (pi i, pi j, o)) E) with (permE pi E) in *.
    symmetry. apply dim_spec_perm_inj; assumption.
  - change (map (fun e : ipair => let '(i, j, o) := e in (i, j, lin U o)) E) with (basisE U E) in *.
    symmetry. apply (dim_spec_basis_wf n p Hn U Uinv); assumption.
Qed.
