(* Helpers for correspondence case files written by the harness. *)
From Coq Require Import List Bool ZArith.
Import ListNotations.

(* ids of the cases whose agreement relation evaluated to false *)
Definition failing (l : list (nat * bool)) : list nat :=
  map fst (filter (fun p => negb (snd p)) l).

Lemma failing_nil_all l : failing l = [] -> forall i b, In (i, b) l -> b = true.
Proof.
  unfold failing. intros H i b Hin.
  destruct b; [reflexivity|].
  assert (Hf : In (i, false) (filter (fun p => negb (snd p)) l)) by (apply filter_In; split; auto).
  apply (in_map fst) in Hf. rewrite H in Hf. destruct Hf.
Qed.
