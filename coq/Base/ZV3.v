From Coq Require Import ZArith Lia Psatz.
Open Scope Z_scope.
Record v3 := mk3 { vx : Z; vy : Z; vz : Z }.
Definition dot a b := vx a * vx b + vy a * vy b + vz a * vz b.
Definition cross a b := mk3 (vy a * vz b - vz a * vy b) (vz a * vx b - vx a * vz b) (vx a * vy b - vy a * vx b).
Definition sub a b := mk3 (vx a - vx b) (vy a - vy b) (vz a - vz b).
Definition add a b := mk3 (vx a + vx b) (vy a + vy b) (vz a + vz b).
Definition scale k a := mk3 (k * vx a) (k * vy a) (k * vz a).
Definition vol a b c := dot a (cross b c).
Definition lat a b c n1 n2 n3 := add (scale n1 a) (add (scale n2 b) (scale n3 c)).

Lemma lagrange a b : dot a a * dot b b - dot a b * dot a b = dot (cross a b) (cross a b).
Proof. unfold dot, cross; simpl; ring. Qed.
Lemma dot_self_nonneg a : 0 <= dot a a. Proof. unfold dot; nia. Qed.
Lemma cauchy a b : dot a b * dot a b <= dot a a * dot b b.
Proof. pose proof (lagrange a b). pose proof (dot_self_nonneg (cross a b)). lia. Qed.

Lemma sq_le_abs x y : 0 <= y -> x * x <= y * y -> Z.abs x <= y.
Proof. intros. nia. Qed.

(* fractional coordinate k=1 of p, scaled by vol *)
Definition D1 (a b c p : v3) := dot p (cross b c).
Lemma D1_lat a b c n1 n2 n3 : D1 a b c (lat a b c n1 n2 n3) = n1 * vol a b c.
Proof. unfold D1, lat, vol, dot, cross, add, scale; simpl; ring. Qed.
Lemma D1_sub a b c p q : D1 a b c (sub p q) = D1 a b c p - D1 a b c q.
Proof. unfold D1, dot, cross, sub; simpl; ring. Qed.

Theorem copies_suffice_axis1 a b c pi pj n1 n2 n3 R2 N :
  let V := vol a b c in
  V <> 0 ->
  (* both atoms inside the cell along axis 1: 0 <= s1 < 1, written without division *)
  0 <= D1 a b c pi * Z.sgn V < Z.abs V ->
  0 <= D1 a b c pj * Z.sgn V < Z.abs V ->
  0 <= N -> R2 * dot (cross b c) (cross b c) <= N * N * (V * V) ->
  let d := sub (sub pi pj) (lat a b c n1 n2 n3) in
  dot d d <= R2 ->
  Z.abs n1 <= N.
Proof.
  intros V HV Hi Hj HN Hcop d Hd.
  assert (Hproj : dot d (cross b c) = D1 a b c pi - D1 a b c pj - n1 * V).
  { change (dot d (cross b c)) with (D1 a b c d). unfold d. rewrite !D1_sub, D1_lat. reflexivity. }
  pose proof (cauchy d (cross b c)) as HC.
  pose proof (dot_self_nonneg (cross b c)) as Hw.
  assert (Hsq : dot d (cross b c) * dot d (cross b c) <= (N * Z.abs V) * (N * Z.abs V)).
  { replace ((N * Z.abs V) * (N * Z.abs V)) with (N * N * (V * V)) by (rewrite <- (Z.abs_square V); ring). nia. }
  apply sq_le_abs in Hsq; [| pose proof (Z.abs_nonneg V); nia].
  rewrite Hproj in Hsq.
  set (x := D1 a b c pi) in *. set (y := D1 a b c pj) in *.
  destruct (Z.sgn_spec V) as [[? Hs]|[[? Hs]|[? Hs]]]; rewrite Hs in *; try lia.
  - rewrite (Z.abs_eq V) in * by lia. nia.
  - rewrite (Z.abs_neq V) in * by lia. nia.
Qed.
Print Assumptions copies_suffice_axis1.

