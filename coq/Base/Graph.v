From Coq Require Import List Arith Bool Lia PeanoNat.
Import ListNotations.

Section G.
Variable adj : nat -> nat -> bool.
Variable V : list nat.            (* vertex universe *)
Hypothesis V_nodup : NoDup V.

Definition mem (x : nat) (l : list nat) := existsb (Nat.eqb x) l.
Lemma mem_In x l : mem x l = true <-> In x l.
Proof. unfold mem. rewrite existsb_exists. split; [intros [y [H1 H2]]; apply Nat.eqb_eq in H2; subst; auto | intros H; exists x; split; auto; apply Nat.eqb_refl]. Qed.

Definition frontier (S : list nat) := filter (fun u => negb (mem u S) && existsb (fun s => adj s u) S) V.
Fixpoint grow (fuel : nat) (S : list nat) : list nat :=
  match fuel with
  | 0 => S
  | S f => match frontier S with [] => S | fr => grow f (S ++ fr) end
  end.
Definition component (v : nat) := grow (length V) [v].

Inductive reach (v : nat) : nat -> Prop :=
| reach_refl : reach v v
| reach_step a b : reach v a -> In b V -> adj a b = true -> reach v b.

Lemma frontier_spec S u : In u (frontier S) <-> In u V /\ ~ In u S /\ exists s, In s S /\ adj s u = true.
Proof.
  unfold frontier. rewrite filter_In, andb_true_iff, negb_true_iff, existsb_exists.
  split.
  - intros [HV [Hn [s [Hs Ha]]]]. split; [assumption|]. split.
    + intro Hin. apply mem_In in Hin. congruence.
    + exists s; auto.
  - intros [HV [Hn [s [Hs Ha]]]]. split; [assumption|]. split.
    + destruct (mem u S) eqn:E; [apply mem_In in E; contradiction | reflexivity].
    + exists s; auto.
Qed.

Lemma grow_sound v fuel S : (forall x, In x S -> reach v x) -> forall x, In x (grow fuel S) -> reach v x.
Proof.
  revert S. induction fuel as [|f IH]; intros S HS x Hx; simpl in Hx; [auto|].
  destruct (frontier S) as [|u fr] eqn:E; [auto|].
  apply (IH (S ++ u :: fr)); [|assumption].
  intros y Hy. apply in_app_or in Hy. destruct Hy as [Hy|Hy]; [auto|].
  rewrite <- E in Hy. apply frontier_spec in Hy. destruct Hy as [HV [_ [s [Hs Ha]]]].
  eapply reach_step; eauto.
Qed.
Theorem component_sound v x : In x (component v) -> reach v x.
Proof. apply grow_sound. intros y [<-|[]]. constructor. Qed.

Lemma nodup_app (A B : list nat) : NoDup A -> NoDup B -> (forall x, In x A -> ~ In x B) -> NoDup (A ++ B).
Proof.
  induction A as [|a A IH]; simpl; intros HA HB Hd; [assumption|].
  inversion HA as [|? ? Hna HA']; subst. constructor.
  - intro Hin. apply in_app_or in Hin. destruct Hin as [Hin|Hin]; [contradiction|]. apply (Hd a); auto.
  - apply IH; auto.
Qed.

Lemma step_inv S : NoDup S -> incl S V -> NoDup (S ++ frontier S) /\ incl (S ++ frontier S) V.
Proof.
  intros Hn Hi. split.
  - apply nodup_app; [assumption | apply NoDup_filter; exact V_nodup |].
    intros x Hx Hf. apply frontier_spec in Hf. tauto.
  - intros x Hx. apply in_app_or in Hx. destruct Hx as [Hx|Hx]; [auto|]. apply frontier_spec in Hx. tauto.
Qed.

Lemma full_no_frontier S : NoDup S -> incl S V -> length V <= length S -> frontier S = [].
Proof.
  intros Hn Hi Hl.
  assert (HVS : incl V S) by (apply NoDup_length_incl; assumption).
  destruct (frontier S) as [|u fr] eqn:E; [reflexivity|].
  assert (Hu : In u (frontier S)) by (rewrite E; left; reflexivity).
  apply frontier_spec in Hu. destruct Hu as [HuV [HuS _]]. exfalso. apply HuS, HVS, HuV.
Qed.

Lemma grow_closed fuel : forall S, NoDup S -> incl S V -> length V <= length S + fuel -> frontier (grow fuel S) = [].
Proof.
  induction fuel as [|f IH]; intros S Hn Hi Hl; simpl.
  - apply full_no_frontier; auto. lia.
  - destruct (frontier S) as [|u fr] eqn:E; [assumption|].
    destruct (step_inv S Hn Hi) as [Hn' Hi']. rewrite E in Hn', Hi'.
    apply IH; auto. rewrite app_length. simpl. lia.
Qed.

Lemma grow_mono fuel : forall S x, In x S -> In x (grow fuel S).
Proof.
  induction fuel as [|f IH]; intros S x Hx; simpl; [assumption|].
  destruct (frontier S) as [|u fr]; [assumption|]. apply IH. apply in_or_app. left. assumption.
Qed.

Lemma closed_complete S v : frontier S = [] -> In v S -> forall x, reach v x -> In x S.
Proof.
  intros Hc Hv x Hr. induction Hr as [|a b Hr IH HbV Hab]; [assumption|].
  destruct (in_dec Nat.eq_dec b S) as [Hin|Hnin]; [assumption|].
  assert (Hf : In b (frontier S)) by (apply frontier_spec; split; [assumption|]; split; [assumption|]; exists a; auto).
  rewrite Hc in Hf. destruct Hf.
Qed.

Theorem component_complete v x : In v V -> reach v x -> In x (component v).
Proof.
  intros HvV Hr. unfold component.
  apply (closed_complete _ v); [| apply grow_mono; left; reflexivity | assumption].
  apply grow_closed; [repeat constructor; intros [] | intros y [<-|[]]; assumption | simpl; lia].
Qed.

Theorem component_iff v x : In v V -> (In x (component v) <-> reach v x).
Proof. intros; split; [apply component_sound | apply component_complete; assumption]. Qed.
End G.
Print Assumptions component_iff.

