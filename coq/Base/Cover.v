(* Extension of Base/Graph.v:
   - reachability is an equivalence for a symmetric adjacency; extensionality of [component];
   - the component list [comps] (DBSCAN stand-in used by Geometry/Dimensionality.v) is a partition
     by pairwise non-equivalent roots, fuel |V| suffices;
   - the covering-graph counting theorem [cover_count]:  for a connected base graph on n vertices
     whose edges carry labels in {0..2^k-1} (with xor as group law), the "2x" lift graph on
     2^k * n vertices,  (a*n+i) ~ (b*n+j)  iff  lab i j (a xor b),  has  N components with
         N * |K| = 2^k,   K = { a : (a*n+0) is connected to (0*n+0) }.                          *)
From Coq Require Import List Arith Bool Lia PeanoNat Permutation.
From MV Require Import Base.Graph.
Import ListNotations.

(* ---- component list (definitions; no hypotheses) ------------------------------------------- *)
Section CompsDef.
Variable adj : nat -> nat -> bool.
Variable V : list nat.
(* Out of fuel returns a truncated list; [comps_spec] shows that fuel >= |rem| is enough and
   [components] starts with fuel = |V|. *)
Fixpoint comps (fuel : nat) (rem : list nat) : list (list nat) :=
  match fuel with
  | 0 => []
  | S f => match rem with
           | [] => []
           | v :: _ => let c := component adj V v in
                       c :: comps f (filter (fun u => negb (mem u c)) rem)
           end
  end.
Definition components : list (list nat) := comps (length V) V.
Definition ncomp : nat := length components.
Definition reachb (r x : nat) : bool := mem x (component adj V r).
End CompsDef.

(* ------------------------------------------------------------------------------------------ *)
Section Reach.
Variable adj : nat -> nat -> bool.
Variable V : list nat.
Hypothesis V_nodup : NoDup V.

Lemma reach_trans u v w : reach adj V u v -> reach adj V v w -> reach adj V u w.
Proof. intros H1 H2. induction H2; [assumption | eapply reach_step; eauto]. Qed.

Lemma reach_in_V u v : In u V -> reach adj V u v -> In v V.
Proof. intros Hu H. induction H; assumption. Qed.

Lemma reachb_iff r x : In r V -> (reachb adj V r x = true <-> reach adj V r x).
Proof. intros Hr. unfold reachb. rewrite mem_In. apply component_iff; assumption. Qed.

(* roots are pairwise non-equivalent, in list order *)
Inductive indep : list nat -> Prop :=
| indep_nil : indep []
| indep_cons r rs : (forall r', In r' rs -> ~ reach adj V r r') -> indep rs -> indep (r :: rs).

Lemma filter_length_le {A} (f : A -> bool) l : length (filter f l) <= length l.
Proof. induction l as [|a l IH]; simpl; [lia|]. destruct (f a); simpl; lia. Qed.

Lemma comps_spec fuel : forall rem, length rem <= fuel -> incl rem V ->
  exists rs, comps adj V fuel rem = map (component adj V) rs /\ incl rs rem /\ indep rs
             /\ (forall x, In x rem -> exists r, In r rs /\ reach adj V r x).
Proof.
  induction fuel as [|f IH]; intros rem Hl Hi.
  - destruct rem; [|simpl in Hl; lia]. exists []. simpl. repeat split; try constructor; intros x [].
  - destruct rem as [|v rem'].
    + exists []. simpl. repeat split; try constructor; intros x [].
    + change (comps adj V (S f) (v :: rem')) with (component adj V v :: comps adj V f (filter (fun u => negb (mem u (component adj V v))) (v :: rem'))).
      set (c := component adj V v).
      set (rem2 := filter (fun u => negb (mem u c)) (v :: rem')).
      assert (HvV : In v V) by (apply Hi; left; reflexivity).
      assert (Hvc : In v c) by (apply (component_iff adj V V_nodup v v HvV); constructor).
      assert (Hsub : incl rem2 rem').
      { intros x Hx. unfold rem2 in Hx. apply filter_In in Hx. destruct Hx as [[<-|Hx] Hn]; [|assumption].
        apply mem_In in Hvc. rewrite Hvc in Hn. discriminate. }
      assert (Hl2 : length rem2 <= f).
      { unfold rem2. simpl. destruct (negb (mem v c)) eqn:E.
        - apply mem_In in Hvc. rewrite Hvc in E. discriminate.
        - pose proof (filter_length_le (fun u => negb (mem u c)) rem'). simpl in Hl. lia. }
      destruct (IH rem2 Hl2) as [rs [Hc [Hrs [Hind Hcov]]]].
      { intros x Hx. apply Hi. right. apply Hsub. assumption. }
      exists (v :: rs). fold rem2. split; [change (map (component adj V) (v :: rs)) with (c :: map (component adj V) rs); rewrite <- Hc; reflexivity|]. split; [|split].
      * intros x [<-|Hx]; [left; reflexivity | right; apply Hsub, Hrs, Hx].
      * constructor; [|assumption]. intros r' Hr' Hreach.
        apply Hrs in Hr'. unfold rem2 in Hr'. apply filter_In in Hr'. destruct Hr' as [_ Hn].
        apply (component_iff adj V V_nodup v r' HvV) in Hreach. apply mem_In in Hreach.
        fold c in Hreach. rewrite Hreach in Hn. discriminate.
      * intros x Hx. destruct (mem x c) eqn:E.
        -- exists v. split; [left; reflexivity|]. apply mem_In in E. apply (component_iff adj V V_nodup v x HvV). exact E.
        -- assert (Hx2 : In x rem2) by (unfold rem2; apply filter_In; split; [assumption | rewrite E; reflexivity]).
           destruct (Hcov x Hx2) as [r [Hr Hrx]]. exists r. split; [right; assumption | assumption].
Qed.

Lemma components_spec :
  exists rs, components adj V = map (component adj V) rs /\ incl rs V /\ indep rs
             /\ (forall x, In x V -> exists r, In r rs /\ reach adj V r x).
Proof. apply comps_spec; [lia | apply incl_refl]. Qed.

Hypothesis adj_sym : forall u v, In u V -> In v V -> adj u v = adj v u.

Lemma reach_sym u v : In u V -> reach adj V u v -> reach adj V v u.
Proof.
  intros Hu H. induction H as [|a b Hr IH HbV Hab]; [constructor|].
  assert (HaV : In a V) by (apply (reach_in_V u a Hu Hr)).
  apply reach_trans with a; [|assumption].
  eapply reach_step; [constructor | assumption |]. rewrite adj_sym; assumption.
Qed.

(* at most one component iff any two vertices are connected *)
Lemma ncomp_le1_iff : ncomp adj V <= 1 <-> forall x y, In x V -> In y V -> reach adj V x y.
Proof.
  destruct components_spec as [rs [Hc [Hrs [Hind Hcov]]]].
  unfold ncomp. rewrite Hc, map_length. split.
  - intros Hle x y Hx Hy.
    destruct (Hcov x Hx) as [r [Hr Hrx]]. destruct (Hcov y Hy) as [r' [Hr' Hry]].
    assert (r = r').
    { destruct rs as [|a [|b rs']]; [destruct Hr | | simpl in Hle; lia].
      destruct Hr as [<-|[]]. destruct Hr' as [<-|[]]. reflexivity. }
    subst r'. apply reach_trans with r; [|assumption].
    apply reach_sym; [apply Hrs; assumption | assumption].
  - intros Hall. destruct rs as [|a [|b rs']]; simpl; try lia.
    inversion Hind as [|? ? Hn _]; subst. exfalso. apply (Hn b); [left; reflexivity|].
    apply Hall; apply Hrs; [left | right; left]; reflexivity.
Qed.

Lemma no_other_root r rs x : In r V -> incl rs V -> (forall r', In r' rs -> ~ reach adj V r r') -> reach adj V r x ->
  filter (fun r1 => reachb adj V r1 x) rs = [].
Proof.
  intros HrV Hrs Hn E. induction rs as [|b rs IH]; [reflexivity|]. simpl.
  assert (HbV : In b V) by (apply Hrs; left; reflexivity).
  destruct (reachb adj V b x) eqn:Eb.
  - exfalso. apply reachb_iff in Eb; [|assumption].
    apply (Hn b); [left; reflexivity|]. apply reach_trans with x; [assumption|].
    apply reach_sym; assumption.
  - apply IH.
    + intros y Hy. apply Hrs. right. assumption.
    + intros r' Hr'. apply Hn. right. assumption.
Qed.

(* every vertex lies in the component of exactly one root *)
Lemma unique_root rs x : incl rs V -> indep rs -> (exists r, In r rs /\ reach adj V r x) ->
  length (filter (fun r => reachb adj V r x) rs) = 1.
Proof.
  intros Hrs Hind. induction Hind as [|r rs Hn Hind IH]; intros [r0 [Hr0 Hx]]; [destruct Hr0|].
  assert (HrV : In r V) by (apply Hrs; left; reflexivity).
  assert (Hrs' : incl rs V) by (intros y Hy; apply Hrs; right; assumption).
  simpl. destruct (reachb adj V r x) eqn:E.
  - apply reachb_iff in E; [|assumption].
    assert (Hnil : filter (fun r1 => reachb adj V r1 x) rs = []) by (apply (no_other_root r); assumption).
    rewrite Hnil. reflexivity.
  - apply IH; [assumption|]. destruct Hr0 as [<-|Hr0].
    + exfalso. apply (reachb_iff r x HrV) in Hx. congruence.
    + exists r0. split; assumption.
Qed.
End Reach.

(* the component function only looks at the adjacency on V x V *)
Section Ext.
Variables adj adj' : nat -> nat -> bool.
Variable V : list nat.
Hypothesis Hext : forall u v, In u V -> In v V -> adj u v = adj' u v.

Lemma existsb_ext_in {A} (f g : A -> bool) l : (forall x, In x l -> f x = g x) -> existsb f l = existsb g l.
Proof. induction l as [|a l IH]; simpl; intros H; [reflexivity|]. rewrite H by (left; reflexivity). rewrite IH; [reflexivity|]. intros; apply H; right; assumption. Qed.
Lemma filter_ext_in' {A} (f g : A -> bool) l : (forall x, In x l -> f x = g x) -> filter f l = filter g l.
Proof. induction l as [|a l IH]; simpl; intros H; [reflexivity|]. rewrite H by (left; reflexivity). rewrite IH; [reflexivity|]. intros; apply H; right; assumption. Qed.

Lemma frontier_ext S : incl S V -> frontier adj V S = frontier adj' V S.
Proof.
  intros HS. unfold frontier. apply filter_ext_in'. intros u Hu. f_equal.
  apply existsb_ext_in. intros s Hs. apply Hext; [apply HS; assumption | assumption].
Qed.
Lemma grow_ext fuel : forall S, incl S V -> grow adj V fuel S = grow adj' V fuel S.
Proof.
  induction fuel as [|f IH]; intros S HS; simpl; [reflexivity|].
  rewrite <- (frontier_ext S HS). destruct (frontier adj V S) as [|u fr] eqn:E; [reflexivity|].
  apply IH. intros x Hx. apply in_app_or in Hx. destruct Hx as [Hx|Hx]; [apply HS; assumption|].
  rewrite <- E in Hx. unfold frontier in Hx. apply filter_In in Hx. tauto.
Qed.
Lemma component_ext v : In v V -> component adj V v = component adj' V v.
Proof. intros Hv. unfold component. apply grow_ext. intros x [<-|[]]. assumption. Qed.
Lemma comps_ext fuel : forall rem, incl rem V -> comps adj V fuel rem = comps adj' V fuel rem.
Proof.
  induction fuel as [|f IH]; intros rem Hi; simpl; [reflexivity|].
  destruct rem as [|v rem']; [reflexivity|].
  rewrite <- (component_ext v) by (apply Hi; left; reflexivity). f_equal.
  apply IH. intros x Hx. apply filter_In in Hx. apply Hi. tauto.
Qed.
Lemma ncomp_ext : ncomp adj V = ncomp adj' V.
Proof. unfold ncomp, components. rewrite comps_ext; [reflexivity | apply incl_refl]. Qed.
End Ext.

(* ------------------------------------------------------------------------------------------ *)
(* counting lemmas *)
Lemma list_sum_add {A} (f g : A -> nat) l :
  list_sum (map (fun x => f x + g x) l) = list_sum (map f l) + list_sum (map g l).
Proof. induction l as [|a l IH]; simpl; [reflexivity | rewrite IH; lia]. Qed.
Lemma list_sum_filter {A} (f : A -> bool) l :
  list_sum (map (fun x => if f x then 1 else 0) l) = length (filter f l).
Proof. induction l as [|a l IH]; simpl; [reflexivity|]. destruct (f a); simpl; rewrite IH; reflexivity. Qed.
Lemma list_sum_const {A} (f : A -> nat) c l : (forall x, In x l -> f x = c) -> list_sum (map f l) = length l * c.
Proof. induction l as [|a l IH]; simpl; intros H; [reflexivity|]. rewrite H by (left; reflexivity). rewrite IH; [lia|]. intros; apply H; right; assumption. Qed.

(* double counting: if every x of F satisfies P r x for exactly one r of rs *)
Lemma count_partition (F rs : list nat) (P : nat -> nat -> bool) :
  (forall x, In x F -> length (filter (fun r => P r x) rs) = 1) ->
  length F = list_sum (map (fun r => length (filter (P r) F)) rs).
Proof.
  induction F as [|x F IH]; intros H; simpl.
  - symmetry. rewrite (list_sum_const _ 0); [lia | reflexivity].
  - rewrite (map_ext (fun r => length (if P r x then x :: filter (P r) F else filter (P r) F))
                     (fun r => (if P r x then 1 else 0) + length (filter (P r) F))).
    + rewrite list_sum_add, list_sum_filter, H by (left; reflexivity).
      rewrite <- IH; [reflexivity|]. intros; apply H; right; assumption.
    + intros r. destruct (P r x); reflexivity.
Qed.

Lemma perm_filter_len {A} (f : A -> bool) l l' : Permutation l l' -> length (filter f l) = length (filter f l').
Proof. induction 1; simpl; repeat (match goal with |- context [if ?b then _ else _] => destruct b end); simpl; congruence. Qed.
Lemma filter_map_comm {A B} (g : A -> B) (f : B -> bool) l : filter f (map g l) = map g (filter (fun x => f (g x)) l).
Proof. induction l as [|a l IH]; simpl; [reflexivity|]. destruct (f (g a)); simpl; rewrite IH; reflexivity. Qed.

(* xor on {0..2^k-1} *)
Lemma lxor_lt_pow2 k a c : a < 2 ^ k -> c < 2 ^ k -> Nat.lxor a c < 2 ^ k.
Proof.
  intros Ha Hc.
  destruct (Nat.eq_dec a 0) as [->|Ha0]; [rewrite Nat.lxor_0_l; assumption|].
  destruct (Nat.eq_dec c 0) as [->|Hc0]; [rewrite Nat.lxor_0_r; assumption|].
  destruct (Nat.eq_dec (Nat.lxor a c) 0) as [->|Hx0]; [lia|].
  apply Nat.log2_lt_pow2; [lia|].
  apply Nat.le_lt_trans with (Nat.max (Nat.log2 a) (Nat.log2 c)); [apply Nat.log2_lxor|].
  apply Nat.max_lub_lt; apply Nat.log2_lt_pow2; lia.
Qed.
Lemma lxor_cancel_r a b c : Nat.lxor a c = Nat.lxor b c -> a = b.
Proof.
  intros H. assert (H' : Nat.lxor (Nat.lxor a c) c = Nat.lxor (Nat.lxor b c) c) by (rewrite H; reflexivity).
  rewrite !Nat.lxor_assoc, !Nat.lxor_nilpotent, !Nat.lxor_0_r in H'. assumption.
Qed.
Lemma lxor_lxor_r a c : Nat.lxor (Nat.lxor a c) c = a.
Proof. rewrite Nat.lxor_assoc, Nat.lxor_nilpotent, Nat.lxor_0_r. reflexivity. Qed.

Lemma xor_count k c (f : nat -> bool) : c < 2 ^ k ->
  length (filter (fun a => f (Nat.lxor a c)) (seq 0 (2 ^ k))) = length (filter f (seq 0 (2 ^ k))).
Proof.
  intros Hc. set (M := 2 ^ k). set (g := fun a => Nat.lxor a c).
  assert (HP : Permutation (map g (seq 0 M)) (seq 0 M)).
  { apply NoDup_Permutation_bis.
    - apply FinFun.Injective_map_NoDup; [|apply seq_NoDup]. intros x y Hxy. unfold g in Hxy. eapply lxor_cancel_r; eauto.
    - rewrite map_length. lia.
    - intros y Hy. apply in_map_iff in Hy. destruct Hy as [x [<- Hx]]. apply in_seq in Hx. apply in_seq.
      split; [lia|]. simpl. apply lxor_lt_pow2; [lia | assumption]. }
  rewrite <- (perm_filter_len f _ _ HP). rewrite filter_map_comm, map_length. reflexivity.
Qed.

(* a * b = 2^k: both are powers of two *)
Lemma mul_pow2 k : forall a b, a * b = 2 ^ k -> exists j, j <= k /\ a = 2 ^ j /\ b = 2 ^ (k - j).
Proof.
  induction k as [|k IH]; intros a b H.
  - simpl in H. apply Nat.eq_mul_1 in H. destruct H as [-> ->]. exists 0. simpl. split; [lia|]. split; reflexivity.
  - destruct (Nat.Even_or_Odd a) as [[a' ->]|[a' ->]].
    + assert (H' : a' * b = 2 ^ k) by (simpl in H; nia).
      destruct (IH _ _ H') as [j [Hj [-> ->]]]. exists (S j). split; [lia|]. split; [simpl; lia | reflexivity].
    + destruct (Nat.Even_or_Odd b) as [[b' ->]|[b' ->]].
      * assert (H' : (2 * a' + 1) * b' = 2 ^ k) by (simpl in H; nia).
        destruct (IH _ _ H') as [j [Hj [Ha ->]]]. exists j. split; [lia|]. split; [assumption|].
        replace (S k - j) with (S (k - j)) by lia. simpl. lia.
      * exfalso. assert (Nat.Odd (2 ^ S k)) by (rewrite <- H; exists (2 * a' * b' + a' + b'); lia).
        assert (Nat.Even (2 ^ S k)) by (exists (2 ^ k); simpl; lia).
        eapply Nat.Even_Odd_False; eauto.
Qed.

(* ------------------------------------------------------------------------------------------ *)
(* the covering-graph theorem *)
Section Cover.
Variable n k : nat.
Hypothesis n_pos : 0 < n.
Let M := 2 ^ k.
Variable lab : nat -> nat -> nat -> bool.       (* lab i j c: an edge i -- j with label c *)
Variable adj1 : nat -> nat -> bool.             (* base graph on 0..n-1 *)
Hypothesis lab_sym : forall i j c, i < n -> j < n -> lab i j c = lab j i c.
Hypothesis lab_bound : forall i j c, lab i j c = true -> c < M.
Hypothesis adj1_lab : forall i j, i < n -> j < n -> adj1 i j = true -> i = j \/ exists c, lab i j c = true.

Definition V1 := seq 0 n.
Definition V2 := seq 0 (M * n).
Definition adj2 (u v : nat) : bool := (u =? v) || lab (u mod n) (v mod n) (Nat.lxor (u / n) (v / n)).
Definition vtx (a i : nat) := a * n + i.
Definition K : list nat := filter (fun a => reachb adj2 V2 (vtx 0 0) (vtx a 0)) (seq 0 M).

Lemma M_pos : 0 < M. Proof. unfold M. pose proof (Nat.pow_nonzero 2 k). lia. Qed.
Lemma V2_nodup : NoDup V2. Proof. apply seq_NoDup. Qed.
Lemma vtx_in a i : a < M -> i < n -> In (vtx a i) V2.
Proof. intros Ha Hi. apply in_seq. unfold vtx. split; [lia|]. simpl. nia. Qed.
Lemma vtx_mod a i : i < n -> (vtx a i) mod n = i.
Proof. intros Hi. unfold vtx. rewrite Nat.add_comm, Nat.mod_add by lia. apply Nat.mod_small. assumption. Qed.
Lemma vtx_div a i : i < n -> (vtx a i) / n = a.
Proof. intros Hi. unfold vtx. rewrite Nat.add_comm, Nat.div_add by lia. rewrite Nat.div_small by assumption. reflexivity. Qed.
Lemma in_V2_inv u : In u V2 -> u = vtx (u / n) (u mod n) /\ u / n < M /\ u mod n < n.
Proof.
  intros Hu. apply in_seq in Hu. simpl in Hu. split; [|split].
  - unfold vtx. rewrite Nat.mul_comm. apply Nat.div_mod. lia.
  - apply Nat.div_lt_upper_bound; lia.
  - apply Nat.mod_upper_bound. lia.
Qed.

Lemma adj2_sym u v : In u V2 -> In v V2 -> adj2 u v = adj2 v u.
Proof.
  intros Hu Hv. unfold adj2. rewrite (Nat.eqb_sym u v). f_equal.
  destruct (in_V2_inv u Hu) as [_ [_ Hum]]. destruct (in_V2_inv v Hv) as [_ [_ Hvm]].
  rewrite (Nat.lxor_comm (u / n)). apply lab_sym; assumption.
Qed.

Let R := reach adj2 V2.
Lemma R_sym u v : In u V2 -> R u v -> R v u.
Proof. apply reach_sym. exact adj2_sym. Qed.
Lemma R_trans u v w : R u v -> R v w -> R u w.
Proof. apply reach_trans. Qed.

(* deck transformation: xor the copy index with c *)
Lemma adj2_vtx a i b j : i < n -> j < n -> adj2 (vtx a i) (vtx b j) = (vtx a i =? vtx b j) || lab i j (Nat.lxor a b).
Proof. intros Hi Hj. unfold adj2. rewrite !vtx_mod, !vtx_div by assumption. reflexivity. Qed.

Lemma translate c : c < M -> forall u v, In u V2 -> R u v ->
  R (vtx (Nat.lxor (u / n) c) (u mod n)) (vtx (Nat.lxor (v / n) c) (v mod n)).
Proof.
  intros Hc u v Hu H. induction H as [|x y Hr IH HyV Hxy]; [constructor|].
  assert (HxV : In x V2) by (apply (reach_in_V adj2 V2 u x Hu Hr)).
  destruct (in_V2_inv x HxV) as [_ [Hxd Hxm]]. destruct (in_V2_inv y HyV) as [_ [Hyd Hym]].
  eapply reach_step; [exact IH | apply vtx_in; [apply lxor_lt_pow2; assumption | assumption] |].
  rewrite adj2_vtx by assumption.
  unfold adj2 in Hxy. apply orb_true_iff in Hxy. destruct Hxy as [Hxy|Hxy].
  - apply Nat.eqb_eq in Hxy. subst y. rewrite Nat.eqb_refl. reflexivity.
  - apply orb_true_iff. right.
    replace (Nat.lxor (Nat.lxor (x / n) c) (Nat.lxor (y / n) c)) with (Nat.lxor (x / n) (y / n)); [assumption|].
    rewrite (Nat.lxor_comm (y / n) c), Nat.lxor_assoc, <- (Nat.lxor_assoc c c), Nat.lxor_nilpotent, Nat.lxor_0_l. reflexivity.
Qed.

(* paths of the base graph lift: every lift vertex is connected to some copy of vertex 0 *)
Hypothesis base_connected : forall i, i < n -> reach adj1 V1 0 i.

Lemma lift_to_fibre i : reach adj1 V1 0 i -> i < n -> forall b, b < M -> exists a, a < M /\ R (vtx a 0) (vtx b i).
Proof.
  intros H. induction H as [|i j Hr IH HjV Hij]; intros Hi b Hb.
  - exists b. split; [assumption | constructor].
  - assert (Hi' : i < n).
    { assert (H0 : In 0 V1) by (apply in_seq; simpl; lia). pose proof (reach_in_V adj1 V1 0 i H0 Hr) as Hin. apply in_seq in Hin. simpl in Hin. lia. }
    destruct (adj1_lab i j Hi' Hi Hij) as [->|[c Hc]]; [apply IH; assumption|].
    pose proof (lab_bound _ _ _ Hc) as HcM.
    destruct (IH Hi' (Nat.lxor b c) (lxor_lt_pow2 _ _ _ Hb HcM)) as [a [Ha HR]].
    exists a. split; [assumption|].
    eapply reach_step; [exact HR | apply vtx_in; assumption |].
    rewrite adj2_vtx by assumption. apply orb_true_iff. right.
    rewrite (Nat.lxor_comm b c), Nat.lxor_assoc, Nat.lxor_nilpotent, Nat.lxor_0_r. assumption.
Qed.

Lemma meets_fibre u : In u V2 -> exists a, a < M /\ R (vtx a 0) u.
Proof.
  intros Hu. destruct (in_V2_inv u Hu) as [Heq [Hd Hm]]. rewrite Heq.
  apply lift_to_fibre; [apply base_connected; assumption | assumption | assumption].
Qed.

(* the fibre over vertex 0 meets the component of r in exactly |K| points *)
Lemma fibre_count r : In r V2 ->
  length (filter (fun a => reachb adj2 V2 r (vtx a 0)) (seq 0 M)) = length K.
Proof.
  intros Hr. destruct (meets_fibre r Hr) as [ar [Har HR]].
  unfold K, M. rewrite <- (xor_count k ar (fun a => reachb adj2 V2 (vtx 0 0) (vtx a 0)) Har).
  f_equal. apply filter_ext_in'. intros a Ha. apply in_seq in Ha. simpl in Ha.
  assert (H00 : In (vtx 0 0) V2) by (apply vtx_in; [apply M_pos | assumption]).
  assert (Har0 : In (vtx ar 0) V2) by (apply vtx_in; assumption).
  assert (Ha0 : In (vtx a 0) V2) by (apply vtx_in; [unfold M; lia | assumption]).
  assert (Hx : Nat.lxor a ar < M) by (apply lxor_lt_pow2; [lia | assumption]).
  apply eq_true_iff_eq. rewrite (reachb_iff adj2 V2 V2_nodup r _ Hr), (reachb_iff adj2 V2 V2_nodup _ _ H00).
  split; intros H.
  - (* R r (a,0) -> R (ar,0) (a,0) -> translate by ar -> R (0,0) (a xor ar,0) *)
    assert (H1 : R (vtx ar 0) (vtx a 0)) by (eapply R_trans; eauto).
    pose proof (translate ar Har _ _ Har0 H1) as H2.
    rewrite !vtx_div, !vtx_mod, Nat.lxor_nilpotent in H2 by assumption. exact H2.
  - pose proof (translate ar Har _ _ H00 H) as H2.
    rewrite !vtx_div, !vtx_mod, Nat.lxor_0_l, lxor_lxor_r in H2 by assumption.
    eapply R_trans; [apply R_sym; [exact Har0 | exact HR] | exact H2].
Qed.

Theorem cover_count : ncomp adj2 V2 * length K = M.
Proof.
  destruct (components_spec adj2 V2 V2_nodup) as [rs [Hc [Hrs [Hind Hcov]]]].
  unfold ncomp. rewrite Hc, map_length.
  assert (HM : length (seq 0 M) = list_sum (map (fun r => length (filter (fun a => reachb adj2 V2 r (vtx a 0)) (seq 0 M))) rs)).
  { apply (count_partition (seq 0 M) rs (fun r a => reachb adj2 V2 r (vtx a 0))).
    intros a Ha. apply in_seq in Ha. simpl in Ha.
    apply (unique_root adj2 V2 V2_nodup adj2_sym rs (vtx a 0) Hrs Hind).
    apply Hcov. apply vtx_in; [unfold M; lia | assumption]. }
  rewrite seq_length in HM. rewrite HM.
  symmetry. apply list_sum_const. intros r Hr. apply fibre_count. apply Hrs. assumption.
Qed.

(* consequences: N and |K| are powers of two, N = 2^(k - log2 |K|) *)
Corollary cover_pow2 : exists j, j <= k /\ ncomp adj2 V2 = 2 ^ j /\ length K = 2 ^ (k - j).
Proof. apply mul_pow2. exact cover_count. Qed.
End Cover.
Print Assumptions cover_count.
