(* Non-vacuity: a concrete finder satisfying F0, a concrete choice function, and the run of the
   model on them (three overlapping regions; with threshold 3/4 nothing merges, localize empties the middle
   cluster, which clean drops, and clean removes atom 4 from the first; with 6/10 everything merges). *)
From Coq Require Import List Arith Bool ZArith QArith PeanoNat Lia.
Import ListNotations.
Local Open Scope nat_scope.
From MV Require Import Sbc.Common Sbc.CommonProofs Sbc.Driver Sbc.DriverProofs Sbc.Merge Sbc.Localize
     Sbc.Clean Sbc.Pipeline.

Definition ex_n := 6.
Definition ex_Z (i : nat) : Z := if i <? 4 then 29%Z else 8%Z.
Definition ex_r0 := mkRegion 0 [0; 1; 2; 4] [true; true; true].
Definition ex_r1 := mkRegion 1 [1; 2; 3] [true; true; false].
Definition ex_r2 := mkRegion 2 [3; 4; 5] [true; true; false].
Definition ex_finder (k s : nat) : option region * (nat -> bool) :=
  if s <? 1 then (Some ex_r0, fun i => i =? s)
  else if s <? 4 then (Some ex_r1, fun i => i =? s)
  else if s <? 5 then (None, fun i => i =? s)
  else (Some ex_r2, fun i => i =? s).
Definition ex_choose (k : nat) (l : list nat) : nat := hd 0 l.
(* bonds: 0-1, 1-2, 2-3 chain; 4-5; everything near everything *)
Definition ex_bond (i j : nat) : bool :=
  (i =? j) || ((i <? 4) && (j <? 4) && ((i =? S j) || (j =? S i))) || ((i + j =? 9) && (3 <? i) && (3 <? j)).
Definition ex_near (i j : nat) : bool := true.

Lemma ex_F0 : F0 ex_n ex_finder.
Proof.
  intros k s Hs. unfold ex_n in Hs.
  destruct s as [|[|[|[|[|[|s]]]]]]; try lia; (split; [reflexivity|]); unfold ex_finder; simpl; try exact I;
    (split; [intros i H; unfold ex_n; intuition lia | auto]).
Qed.

Lemma ex_choose_ok : choose_ok ex_choose.
Proof. intros k l H. destruct l; [congruence|]. left. reflexivity. Qed.

Definition show (r : res (list cluster)) : option (list (list nat * list Z * nat * bool)) :=
  match r with Ok l => Some (map (fun c => (cidx c, cspec c, rid (creg c), cmerged c)) l) | _ => None end.

Example ex_run :
  show (sbc canon ex_n ex_Z ex_finder ex_choose (3 # 4) ex_near ex_bond)
  = Some [([0; 1; 2], [29%Z; 29%Z; 29%Z; 8%Z], 0, false); ([5], [8%Z; 29%Z; 8%Z], 2, false)]
  /\ show (sbc canon ex_n ex_Z ex_finder ex_choose (6 # 10) ex_near ex_bond)
  = Some [([0; 1; 2; 3], [29%Z; 29%Z; 29%Z; 8%Z], 0, true)].
Proof. split; vm_compute; reflexivity. Qed.

Example ex_nonvacuous :
  F0 ex_n ex_finder /\ choose_ok ex_choose /\ setlist_ok canon /\
  exists out, sbc canon ex_n ex_Z ex_finder ex_choose (3 # 4) ex_near ex_bond = Ok out /\ length out = 2.
Proof.
  split; [exact ex_F0|]. split; [exact ex_choose_ok|]. split; [exact canon_ok|].
  eexists. split; [vm_compute; reflexivity | reflexivity].
Qed.

(* notes recorded as lemmas *)
(* with bond_threshold <= 0 the clipping in matid.geometry.get_clusters makes every pair "bonded"
   (outside the property's parameter domain 0.4-1.0) *)
Example clip_nonpositive_threshold :
  bond_of (fun _ _ => 100%Q) 0%Q 0 1 = true /\ bond_of (fun _ _ => 100%Q) (-1)%Q 0 1 = true.
Proof. split; vm_compute; reflexivity. Qed.
