(* Proofs about _localize_clusters: no exception, clusters only lose atoms, and afterwards every
   atom belongs to at most one cluster. *)
From Coq Require Import List Arith Bool ZArith PeanoNat Lia.
Import ListNotations.
From MV Require Import Sbc.Common Sbc.CommonProofs Sbc.Localize.

(* ---- list plumbing *)
Lemma In_combine_seq {A} (l : list A) : forall s k c,
  In (k, c) (combine (seq s (length l)) l) <-> s <= k /\ nth_error l (k - s) = Some c.
Proof.
  induction l as [|a t IH]; intros s k c; simpl.
  - split; [tauto|]. intros [_ H]. destruct (k - s); discriminate.
  - rewrite IH. split.
    + intros [H|[H1 H2]].
      * inversion H; subst. rewrite Nat.sub_diag. auto.
      * split; [lia|]. replace (k - s) with (S (k - S s)) by lia. assumption.
    + intros [H1 H2]. destruct (Nat.eq_dec s k) as [->|Hne].
      * rewrite Nat.sub_diag in H2. simpl in H2. inversion H2. auto.
      * right. split; [lia|]. replace (k - s) with (S (k - S s)) in H2 by lia. assumption.
Qed.

Lemma In_indexed cs k c : In (k, c) (indexed cs) <-> nth_error cs k = Some c.
Proof. unfold indexed. rewrite In_combine_seq, Nat.sub_0_r. split; [tauto|]. intros; split; [lia|assumption]. Qed.

Lemma nth_error_map_combine_seq {A B} (g : nat * A -> B) (l : list A) : forall s k,
  nth_error (map g (combine (seq s (length l)) l)) k
  = match nth_error l k with Some c => Some (g (s + k, c)) | None => None end.
Proof.
  induction l as [|a t IH]; intros s k; simpl.
  - destruct k; reflexivity.
  - destruct k; simpl; [rewrite Nat.add_0_r; reflexivity|]. rewrite IH. replace (S s + k) with (s + S k) by lia. reflexivity.
Qed.

Lemma Forall2_map_combine_seq {A} (R : A -> A -> Prop) (g : nat * A -> A) (l : list A) : forall s,
  (forall k c, nth_error l k = Some c -> R c (g (s + k, c))) ->
  Forall2 R l (map g (combine (seq s (length l)) l)).
Proof.
  induction l as [|a t IH]; intros s H; simpl; constructor.
  - specialize (H 0 a eq_refl). rewrite Nat.add_0_r in H. assumption.
  - apply IH. intros k c Hk. specialize (H (S k) c Hk). replace (s + S k) with (S s + k) in H by lia. assumption.
Qed.

Lemma Forall2_nth_error {A B} (R : A -> B -> Prop) l l' : Forall2 R l l' ->
  forall k c', nth_error l' k = Some c' -> exists c, nth_error l k = Some c /\ R c c'.
Proof.
  induction 1 as [|x y l l' Hxy H IH]; intros k c' Hk; [destruct k; discriminate|].
  destruct k; simpl in *; [inversion Hk; subst; eauto | apply IH; assumption].
Qed.

Lemma Forall2_compose {A} (R1 R2 R3 : A -> A -> Prop) a b c :
  (forall x y z, R1 x y -> R2 y z -> R3 x z) -> Forall2 R1 a b -> Forall2 R2 b c -> Forall2 R3 a c.
Proof.
  intros HT H. revert c. induction H as [|x y a b Hxy H IH]; intros c Hc; inversion Hc; subst; constructor; eauto.
Qed.

Lemma Forall2_impl {A B} (R1 R2 : A -> B -> Prop) l l' :
  (forall x y, R1 x y -> R2 x y) -> Forall2 R1 l l' -> Forall2 R2 l l'.
Proof. intros H. induction 1; constructor; auto. Qed.

Lemma Forall2_refl {A} (R : A -> A -> Prop) l : (forall x, R x x) -> Forall2 R l l.
Proof. intros H. induction l; constructor; auto. Qed.

Section LocalizeProofs.
  Variable setlist : list nat -> list nat.
  Hypothesis setlist_contract : setlist_ok setlist.
  Variable n : nat.
  Variable near : nat -> nat -> bool.

  Definition same_meta (c c' : cluster) : Prop :=
    cspec c' = cspec c /\ creg c' = creg c /\ cmerged c' = cmerged c /\ cradii c' = cradii c.
  (* one atom processed: only the membership of atom i can change, and only by removal *)
  Definition step_rel (i : nat) (c c' : cluster) : Prop :=
    same_meta c c' /\ (forall a, a <> i -> (In a (cidx c') <-> In a (cidx c))) /\
    (In i (cidx c') -> In i (cidx c)) /\ (NoDup (cidx c) -> NoDup (cidx c')).
  (* whole loop: clusters only lose atoms *)
  Definition loop_rel (c c' : cluster) : Prop :=
    same_meta c c' /\ (forall a, In a (cidx c') -> In a (cidx c)) /\ (NoDup (cidx c) -> NoDup (cidx c')).
  (* atom a belongs to at most one cluster (clusters identified by position) *)
  Definition disj_at (a : nat) (cs : list cluster) : Prop :=
    forall k1 k2 c1 c2, nth_error cs k1 = Some c1 -> nth_error cs k2 = Some c2 ->
                        In a (cidx c1) -> In a (cidx c2) -> k1 = k2.

  Lemma step_rel_refl i c : step_rel i c c.
  Proof. unfold step_rel, same_meta. tauto. Qed.
  Lemma loop_rel_refl c : loop_rel c c.
  Proof. unfold loop_rel, same_meta. tauto. Qed.
  Lemma step_loop i c c' : step_rel i c c' -> loop_rel c c'.
  Proof.
    intros [M [H1 [H2 H3]]]. split; [assumption|]. split; [|assumption].
    intros a Ha. destruct (Nat.eq_dec a i) as [->|Hne]; [auto | apply H1; assumption].
  Qed.
  Lemma loop_rel_trans x y z : loop_rel x y -> loop_rel y z -> loop_rel x z.
  Proof.
    intros [[A1 [A2 [A3 A4]]] [B1 B2]] [[C1 [C2 [C3 C4]]] [D1 D2]]. unfold loop_rel, same_meta.
    repeat split; try congruence; auto.
  Qed.

  Lemma positions_of_In i cs k :
    In k (positions_of i cs) <-> exists c, nth_error cs k = Some c /\ In i (cidx c).
  Proof.
    unfold positions_of. rewrite in_map_iff. split.
    - intros [[k' c] [Hk Hin]]. simpl in Hk. subst. apply filter_In in Hin. destruct Hin as [H1 H2].
      simpl in H2. apply mem_In in H2. apply In_indexed in H1. eauto.
    - intros [c [H1 H2]]. exists (k, c). split; [reflexivity|]. apply filter_In. split.
      + apply In_indexed. assumption.
      + simpl. apply mem_In. assumption.
  Qed.

  Lemma positions_of_ext_gen a (cs cs' : list cluster) :
    Forall2 (fun c c' => In a (cidx c') <-> In a (cidx c)) cs cs' ->
    forall s, map fst (filter (fun kc => mem a (cidx (snd kc))) (combine (seq s (length cs')) cs'))
            = map fst (filter (fun kc => mem a (cidx (snd kc))) (combine (seq s (length cs)) cs)).
  Proof.
    induction 1 as [|c c' cs cs' Hc H IH]; intros s; [reflexivity|]. simpl.
    assert (E : mem a (cidx c') = mem a (cidx c)).
    { destruct (mem a (cidx c)) eqn:E1.
      - apply mem_In. apply Hc. apply mem_In. assumption.
      - apply mem_false. intro Hin. apply Hc in Hin. apply mem_In in Hin. congruence. }
    rewrite E. destruct (mem a (cidx c)); simpl; rewrite IH; reflexivity.
  Qed.

  Lemma positions_of_ext a cs cs' :
    Forall2 (fun c c' => In a (cidx c') <-> In a (cidx c)) cs cs' -> positions_of a cs' = positions_of a cs.
  Proof. intros H. unfold positions_of, indexed. apply positions_of_ext_gen. assumption. Qed.

  Lemma disj_at_ext a cs cs' :
    Forall2 (fun c c' => In a (cidx c') <-> In a (cidx c)) cs cs' -> disj_at a cs -> disj_at a cs'.
  Proof.
    intros HF HD k1 k2 c1 c2 H1 H2 I1 I2.
    destruct (Forall2_nth_error _ _ _ HF _ _ H1) as [d1 [E1 R1]].
    destruct (Forall2_nth_error _ _ _ HF _ _ H2) as [d2 [E2 R2]].
    apply (HD k1 k2 d1 d2); auto; [apply R1 | apply R2]; assumption.
  Qed.

  Definition upd (i : nat) (ks : list nat) (bk : nat) (kc : nat * cluster) : cluster :=
    let k := fst kc in
    let c := snd kc in
    if mem k ks
    then (if k =? bk then set_idx c (setlist (cidx c)) else set_idx c (setlist (remove_elt i (cidx c))))
    else c.

  Lemma upd_step_rel i ks bk k c : step_rel i c (upd i ks bk (k, c)).
  Proof.
    unfold upd; simpl. destruct (mem k ks); [|apply step_rel_refl].
    destruct (k =? bk).
    - destruct (setlist_contract (cidx c)) as [Hnd Hin]. unfold step_rel, same_meta; simpl.
      repeat split; auto; try (apply Hin).
    - destruct (setlist_contract (remove_elt i (cidx c))) as [Hnd Hin]. unfold step_rel, same_meta; simpl.
      repeat split; auto.
      + intro H0. apply Hin in H0. apply remove_elt_In in H0. tauto.
      + intro H0. apply Hin. apply remove_elt_In. tauto.
      + intro H0. apply Hin in H0. apply remove_elt_In in H0. tauto.
  Qed.

  Lemma loc_step_spec i cs :
    exists cs', loc_step setlist n near i (positions_of i cs) cs = Ok cs' /\
                Forall2 (step_rel i) cs cs' /\ disj_at i cs'.
  Proof.
    remember (positions_of i cs) as ks eqn:Eks.
    assert (Hks : forall k, In k ks <-> exists c, nth_error cs k = Some c /\ In i (cidx c)).
    { intro k. rewrite Eks. apply positions_of_In. }
    clear Eks.
    assert (Small : (forall k1 k2, In k1 ks -> In k2 ks -> k1 = k2) ->
                    Forall2 (step_rel i) cs cs /\ disj_at i cs).
    { intros Hs. split; [apply Forall2_refl; apply step_rel_refl|].
      intros k1 k2 c1 c2 H1 H2 I1 I2. apply Hs; apply Hks; eauto. }
    destruct ks as [|k0 [|k1 t]].
    - exists cs. split; [reflexivity|]. apply Small. intros ? ? [].
    - exists cs. split; [reflexivity|]. apply Small. intros ? ? [<-|[]] [<-|[]]. reflexivity.
    - clear Small. unfold loc_step. set (ks := k0 :: k1 :: t) in *.
      set (bk := pick (filter (near i) (seq 0 n)) cs ks 0 k0).
      assert (Chk : forallb (fun k => (k =? bk) ||
                 match nth_error cs k with Some c => mem i (cidx c) | None => false end) ks = true).
      { apply forallb_forall. intros k Hk. apply Hks in Hk. destruct Hk as [c [H1 H2]].
        rewrite H1. apply mem_In in H2. rewrite H2. apply orb_true_r. }
      rewrite Chk. eexists. split; [reflexivity|]. split.
      + unfold indexed. apply Forall2_map_combine_seq. intros k c Hk. exact (upd_step_rel i ks bk k c).
      + intros j1 j2 c1 c2 H1 H2 I1 I2.
        assert (Key : forall j c, nth_error (map (upd i ks bk) (indexed cs)) j = Some c -> In i (cidx c) -> j = bk).
        { intros j c Hj Hi. unfold indexed in Hj. rewrite nth_error_map_combine_seq in Hj.
          destruct (nth_error cs j) as [d|] eqn:Ed; [|discriminate]. inversion Hj; subst c. clear Hj.
          unfold upd in Hi. cbv beta zeta in Hi. cbn [fst snd] in Hi.
          destruct (mem j ks) eqn:Em.
          - destruct (j =? bk) eqn:Eb; [apply Nat.eqb_eq; assumption|].
            cbn [cidx set_idx] in Hi. destruct (setlist_contract (remove_elt i (cidx d))) as [_ Hin].
            apply Hin in Hi. apply remove_elt_In in Hi. destruct Hi as [_ Hi]. congruence.
          - exfalso. apply mem_false in Em. apply Em. apply Hks. eauto. }
        rewrite (Key _ _ H1 I1), (Key _ _ H2 I2). reflexivity.
  Qed.

  Definition mem_same (a : nat) (c c' : cluster) : Prop := In a (cidx c') <-> In a (cidx c).

  Lemma loc_loop_spec : forall items cs,
    NoDup (map fst items) ->
    (forall a ks, In (a, ks) items -> ks = positions_of a cs) ->
    exists cs', loc_loop setlist n near items cs = Ok cs' /\
                Forall2 loop_rel cs cs' /\
                (forall a, ~ In a (map fst items) -> Forall2 (mem_same a) cs cs') /\
                (forall a, In a (map fst items) -> disj_at a cs').
  Proof.
    induction items as [|[i ks] t IH]; intros cs Hnd Hpos.
    - exists cs. simpl. repeat split.
      + apply Forall2_refl. apply loop_rel_refl.
      + intros a _. apply Forall2_refl. intro x. unfold mem_same. tauto.
      + intros a [].
    - simpl in Hnd. inversion Hnd as [|? ? Hni Hnd']; subst.
      assert (Eks : ks = positions_of i cs) by (apply Hpos; left; reflexivity). subst ks.
      destruct (loc_step_spec i cs) as [cs1 [E1 [R1 D1]]].
      cbn [loc_loop]. rewrite E1.
      assert (Same : forall a, a <> i -> Forall2 (mem_same a) cs cs1).
      { intros a Ha. eapply Forall2_impl; [|exact R1]. intros c c' [_ [H _]]. apply H. assumption. }
      destruct (IH cs1 Hnd') as [cs' [E2 [R2 [S2 D2]]]].
      { intros a ks Hin. rewrite (Hpos a ks (or_intror Hin)). symmetry. apply positions_of_ext.
        apply Same. intro; subst. apply Hni. apply (in_map fst) in Hin. assumption. }
      exists cs'. split; [assumption|]. split; [|split].
      + eapply Forall2_compose; [|eapply Forall2_impl; [|exact R1]|exact R2].
        * apply loop_rel_trans.
        * intros c c'. apply step_loop.
      + intros a Ha. simpl in Ha. eapply Forall2_compose; [| apply (Same a); intro; subst; apply Ha; left; reflexivity | apply (S2 a); intro; apply Ha; right; assumption].
        unfold mem_same. intros x y z Hxy Hyz. rewrite Hyz, Hxy. tauto.
      + intros a [<-|Ha]; [|apply D2; assumption].
        eapply disj_at_ext; [apply S2; assumption | assumption].
  Qed.

  (* _localize_clusters raises nothing; every cluster keeps its species/region/flags and a subset of
     its atoms; afterwards every atom 0..n-1 is in at most one cluster *)
  Theorem localize_spec cs :
    exists cs', localize setlist n near cs = Ok cs' /\ Forall2 loop_rel cs cs' /\
                forall a, a < n -> disj_at a cs'.
  Proof.
    unfold localize.
    destruct (loc_loop_spec (overlap_map n cs) cs) as [cs' [E [R [_ D]]]].
    - unfold overlap_map. rewrite map_map. simpl. rewrite map_id. apply seq_NoDup.
    - intros a ks H. unfold overlap_map in H. apply in_map_iff in H. destruct H as [x [H _]]. inversion H. reflexivity.
    - exists cs'. split; [assumption|]. split; [assumption|]. intros a Ha. apply D.
      unfold overlap_map. rewrite map_map. simpl. rewrite map_id. apply in_seq. lia.
  Qed.
End LocalizeProofs.
