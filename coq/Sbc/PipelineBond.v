(* C01 o C10: the clusters the SBC pipeline returns are connected under the bonding criterion of the property
   statement (some periodic image within thr + r_i + r_j), when the pipeline is run -- as the code does -- with the
   bonding relation read off the minimum-image table of the wrapped structure.  Composition of
   PipelineProofs.out_connected (every symmetric relation) with BondFromTable (meaning of the table relation). *)
From Coq Require Import List Arith Bool ZArith QArith PeanoNat.
From MV Require Base.Graph.
From MV Require Import Base.ZV3 Geometry.Extend Sbc.Common Sbc.CommonProofs Sbc.Driver Sbc.DriverProofs Sbc.Pipeline Sbc.PipelineProofs Sbc.BondFromTable.
Import ListNotations.

Theorem sbc_connected_true_minimum_image :
  forall setlist, setlist_ok setlist ->
  forall (p : Q) (a b c : v3) (pbc : pbc3) (pos : list v3) (rad : nat -> Q) (thr : Q)
         (Znum : nat -> Z) finder choose (merge_threshold : Q) (near : nat -> nat -> bool) out cl u v,
    (0 < p)%Q -> vol a b c <> 0%Z -> (forall r, In r pos -> in_cell a b c pbc r) ->
    F0 (length pos) finder -> choose_ok choose ->
    sbc setlist (length pos) Znum finder choose merge_threshold near (bond p a b c pbc pos rad thr) = Ok out ->
    In cl out -> In u (cidx cl) -> In v (cidx cl) ->
    Graph.reach (bond p a b c pbc pos rad thr) (cidx cl) u v /\
    (forall x y, bond p a b c pbc pos rad thr x y = true ->
       (x < length pos)%nat /\ (y < length pos)%nat /\ true_bonded a b c pbc pos rad thr x y).
Proof.
  intros setlist Hsl p a b c pbc pos rad thr Znum finder choose mt near out cl u v Hp Hvol Hin HF0 Hch Hout Hcl Hu Hv.
  split.
  - apply (out_connected setlist Hsl (length pos) Znum finder choose mt near (bond p a b c pbc pos rad thr) HF0 Hch out Hout cl u v);
      try assumption.
    intros x y. apply bond_sym; assumption.
  - intros x y H. apply (bond_true_bonded p a b c pbc pos rad thr Hp Hvol Hin x y H).
Qed.
Print Assumptions sbc_connected_true_minimum_image.
