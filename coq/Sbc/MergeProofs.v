(* Proofs about _merge_clusters: termination, no ZeroDivisionError, preservation of well-formedness. *)
From Coq Require Import List Arith Bool ZArith QArith PeanoNat Lia.
Import ListNotations.
Local Open Scope nat_scope.
From MV Require Import Sbc.Common Sbc.CommonProofs Sbc.Driver Sbc.DriverProofs Sbc.Merge.

Section MergeProofs.
  Variable setlist : list nat -> list nat.
  Hypothesis setlist_contract : setlist_ok setlist.
  Variable n : nat.
  Variable Znum : nat -> Z.
  Variable finder : nat -> nat -> option region * (nat -> bool).
  Variable merge_threshold : Q.

  Notation wf := (wf n Znum finder).

  (* the species filter keeps `forall i in indices, Z i in species`; the target's atoms survive *)
  Lemma merge2_wf a b : wf a -> wf b -> wf (merge2 setlist Znum a b).
  Proof.
    intros Ha Hb. unfold merge2.
    set (ts := if length (cidx b) <? length (cidx a) then (a, b) else (b, a)).
    assert (Ht : wf (fst ts)) by (unfold ts; destruct (length (cidx b) <? length (cidx a)); assumption).
    assert (Hs : wf (snd ts)) by (unfold ts; destruct (length (cidx b) <? length (cidx a)); assumption).
    destruct Ht as [[Tnd [Trg [Tsp [Tfr Trad]]]] Tne]. destruct Hs as [[Snd [Srg [Ssp [Sfr Srad]]]] Sne].
    set (common := filter (fun x => memZ (Znum x) (cspec (fst ts))) (cidx (snd ts))).
    destruct (setlist_contract (cidx (fst ts) ++ common)) as [Hnd Hin].
    split; [split; [|split; [|split; [|split]]]|]; simpl.
    - assumption.
    - intros i Hi. apply Hin in Hi. apply in_app_or in Hi. destruct Hi as [Hi|Hi]; [auto|].
      apply filter_In in Hi. apply Srg. tauto.
    - intros i Hi. apply Hin in Hi. apply in_app_or in Hi. destruct Hi as [Hi|Hi]; [auto|].
      apply filter_In in Hi. apply memZ_In. tauto.
    - destruct Ha as [[_ [_ [_ [Fa _]]]] _]. destruct Hb as [[_ [_ [_ [Fb _]]]] _].
      destruct (card (rbasis (creg a)) <=? card (rbasis (creg b))); assumption.
    - assumption.
    - intro E. destruct (cidx (fst ts)) as [|x t] eqn:Ex; [congruence|].
      assert (In x (setlist ((x :: t) ++ common))) by (apply Hin; left; reflexivity).
      rewrite E in H. destruct H.
  Qed.

  Lemma merge2_merged a b : cmerged (merge2 setlist Znum a b) = true.
  Proof. reflexivity. Qed.

  Lemma score_Some best li lt : 0 < li -> 0 < lt -> exists q, score best li lt = Some q.
  Proof. intros H1 H2. destruct li; [lia|]. destruct lt; [lia|]. simpl. eauto. Qed.

  Lemma merge_loop_ok : forall fuel cs iso,
    length cs <= fuel -> Forall wf cs -> Forall wf iso ->
    exists out, merge_loop setlist Znum merge_threshold fuel cs iso = Ok out /\ Forall wf out.
  Proof.
    induction fuel as [|f IH]; intros cs iso Hl Hcs Hiso.
    - destruct cs; [|simpl in Hl; lia]. simpl. exists (iso ++ []). rewrite app_nil_r. auto.
    - destruct cs as [|c rest]; [simpl; exists (iso ++ []); rewrite app_nil_r; auto|].
      cbn [merge_loop]. destruct (cmerged c).
      { exists (iso ++ c :: rest). split; [reflexivity|]. apply Forall_app. auto. }
      inversion Hcs as [|? ? Hc Hrest]; subst. simpl in Hl.
      destruct (first_max (fun j => inter_card (cidx c) (cidx j)) rest) as [[[bj t] best]|] eqn:Efm.
      + pose proof (first_max_spec _ _ _ _ _ Efm) as [Hnth _].
        assert (Hin : In t rest) by (eapply nth_error_In; eassumption).
        assert (Ht : wf t) by (rewrite Forall_forall in Hrest; auto).
        destruct (score_Some best (card (cidx c)) (length (cidx t))) as [q Hq].
        { apply card_pos. apply Hc. }
        { destruct Ht as [_ Hne]. destruct (cidx t); [congruence | simpl; lia]. }
        rewrite Hq. destruct (Qlt_b merge_threshold q).
        * apply IH; [| |assumption].
          -- rewrite app_length. simpl. pose proof (remove_nth_length _ _ _ Hnth). lia.
          -- apply Forall_app. split.
             ++ rewrite Forall_forall in *. intros x Hx. apply Hrest. eapply remove_nth_In; eassumption.
             ++ constructor; [apply merge2_wf; assumption | constructor].
        * apply IH; [lia | assumption | apply Forall_app; auto].
      + apply IH; [lia | assumption | apply Forall_app; auto].
  Qed.

  (* the merge loop terminates (fuel = number of clusters suffices: every iteration removes one
     cluster from the work list) and raises no exception *)
  Theorem merge_terminates cs :
    Forall wf cs -> exists out, merge_clusters setlist Znum merge_threshold cs = Ok out /\ Forall wf out.
  Proof. intros H. apply merge_loop_ok; auto. Qed.
End MergeProofs.
