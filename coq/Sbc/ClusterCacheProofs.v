(* C13 theorems: with the repaired cache discipline the dimensionality shortcut is, after every
   history of operations, the direct evaluation on the cluster's current atoms; the unpatched
   discipline is refuted by a pipeline-shaped history. *)
From Coq Require Import List Arith Bool PeanoNat Lia.
Import ListNotations.
From MV Require Import Sbc.Common Sbc.Clean Sbc.ClusterCache.

Section CacheProofs.
  Variable R : Type.
  Variable gd : list nat -> radii_arg -> list nat -> R.
  Variable is_none : R -> bool.

  Notation cstate := (cstate R).
  Notation direct := (direct R gd).
  Notation get_dim := (get_dim R gd is_none).
  Notation get_matrix := (get_matrix R).
  Notation exec := (exec R gd is_none).
  Notation trace := (trace R gd is_none).

  (* cache coherence: a cached matrix was cut with the current indices; a cached dimensionality is
     the direct value for the current indices; the clustering radii are known *)
  Definition coherent (s : cstate) : Prop :=
    (s_cache s = None \/ s_cache s = Some (s_idx s)) /\
    (s_dim s = None \/ s_dim s = Some (direct s)) /\
    s_radii s = true.

  Lemma init_coherent l : coherent (init R l true).
  Proof. unfold coherent, init; simpl. auto. Qed.

  Lemma get_matrix_spec s : coherent s ->
    snd (get_matrix s) = s_idx s /\ coherent (fst (get_matrix s)) /\ s_idx (fst (get_matrix s)) = s_idx s.
  Proof.
    intros [[Hc|Hc] [Hd Hr]]; unfold get_matrix; rewrite Hc; simpl.
    - split; [reflexivity|]. split; [|reflexivity]. unfold coherent; simpl. auto.
    - split; [reflexivity|]. split; [|reflexivity]. unfold coherent. rewrite Hc. auto.
  Qed.

  (* the arguments of the shortcut's call are those of the direct call *)
  Theorem shortcut_args_eq_direct_args s : coherent s ->
    gd (s_idx s) (radii_of R s) (snd (get_matrix s)) = direct s.
  Proof.
    intros H. destruct (get_matrix_spec s H) as [Hm _]. rewrite Hm.
    destruct H as [_ [_ Hr]]. unfold radii_of. rewrite Hr. reflexivity.
  Qed.

  Lemma get_dim_spec s : coherent s ->
    snd (get_dim s) = direct s /\ coherent (fst (get_dim s)) /\ s_idx (fst (get_dim s)) = s_idx s.
  Proof.
    intros H. pose proof (shortcut_args_eq_direct_args s H) as Ha.
    destruct (get_matrix_spec s H) as [Hm [Hco Hi]].
    destruct H as [Hc [Hd Hr]]. unfold get_dim.
    destruct (s_dim s) as [d|] eqn:Ed.
    - simpl. destruct Hd as [Hd|Hd]; [discriminate|]. inversion Hd; subst.
      split; [reflexivity|]. split; [|reflexivity]. unfold coherent. rewrite Ed. auto.
    - destruct (get_matrix s) as [s1 m] eqn:Em. simpl in *. subst m.
      split; [assumption|]. split; [|assumption].
      destruct Hco as [Hc1 [_ Hr1]]. unfold coherent; simpl. split; [assumption|]. split; [|assumption].
      unfold remember. destruct (is_none _); [left; reflexivity|].
      right. unfold ClusterCache.direct; simpl. rewrite Hi. f_equal. exact Ha.
  Qed.

  Lemma exec_coherent o s : coherent s -> coherent (exec o s).
  Proof.
    intros H. destruct o; simpl.
    - apply get_matrix_spec. assumption.
    - destruct H as [_ [_ Hr]]. unfold coherent, set_indices; simpl. auto.
    - apply get_dim_spec. assumption.
  Qed.

  (* THE property theorem: along every history (any interleaving of matrix requests, index
     rewrites and dimensionality requests) every shortcut result equals the direct evaluation on
     the atoms the cluster has at that moment *)
  Theorem shortcut_eq_direct ops : forall s, coherent s ->
    forall p, In p (trace ops s) -> fst p = snd p.
  Proof.
    induction ops as [|o t IH]; intros s H p Hp; simpl in Hp; [destruct Hp|].
    destruct o.
    - apply (IH (exec GetMatrix s)); [apply exec_coherent; assumption | assumption].
    - apply (IH (exec (SetIndices l) s)); [apply exec_coherent; assumption | assumption].
    - destruct (get_dim_spec s H) as [Hv [Hco _]]. destruct Hp as [<-|Hp]; [simpl; assumption|].
      apply (IH (fst (get_dim s))); assumption.
  Qed.

  (* in particular for the histories of the SBC pipeline, from the constructor *)
  Corollary shortcut_eq_direct_pipeline idx0 localize_sets cleaned k p :
    In p (trace (pipeline_history localize_sets cleaned k) (init R idx0 true)) -> fst p = snd p.
  Proof. apply shortcut_eq_direct. apply init_coherent. Qed.

  (* repeated calls return the same value (and the indices are untouched by the call) *)
  Theorem repeated_calls_agree s : coherent s ->
    snd (get_dim (fst (get_dim s))) = snd (get_dim s).
  Proof.
    intros H. destruct (get_dim_spec s H) as [Hv [Hco Hi]].
    destruct (get_dim_spec _ Hco) as [Hv2 _]. rewrite Hv2, Hv. unfold ClusterCache.direct. rewrite Hi. reflexivity.
  Qed.

  (* the pipeline history really ends in the cleaned index list, and all its GetDim entries exist *)
  Lemma trace_pipeline_length idx0 ls cleaned k :
    length (trace (pipeline_history ls cleaned k) (init R idx0 true)) = k.
  Proof.
    unfold pipeline_history. generalize (init R idx0 true). induction ls as [|l t IH]; intros s; simpl.
    - generalize (set_indices R cleaned (fst (get_matrix s))). induction k as [|k IHk]; intros s'; simpl; [reflexivity|].
      f_equal. apply IHk.
    - apply IH.
  Qed.
End CacheProofs.

(* ---- the unpatched cache discipline is refuted: constructor [0;1;2]; clean cuts the matrix and
        keeps the bonded pair [0;1]; get_dimensionality() then hands the stale 3x3 matrix to the 1x
        step, which sees two components and answers None, while the direct evaluation on the two
        atoms is 0 *)
Lemma unpatched_model_refuted :
  exists idx0 cleaned p,
    In p (old_trace (option nat) toy_gd toy_none (pipeline_history [] cleaned 1) (init (option nat) idx0 true))
    /\ fst p <> snd p.
Proof.
  exists [0; 1; 2], [0; 1], (None, Some 0). split; [vm_compute; left; reflexivity | discriminate].
Qed.

(* ... and the same history is fine under the repaired discipline (non-vacuity of the theorem's
   hypothesis: a concrete coherent state and a non-trivial history) *)
Example patched_model_on_witness :
  trace (option nat) toy_gd toy_none (pipeline_history [] [0; 1] 2) (init (option nat) [0; 1; 2] true)
  = [(Some 0, Some 0); (Some 0, Some 0)].
Proof. vm_compute. reflexivity. Qed.

(* radii: the unpatched shortcut never forwards the clustering radii *)
Lemma unpatched_radii_not_forwarded :
  fst (snd (old_get_dim xres (xgd []) xnone (init xres [3; 4] true))) = mkCall [3; 4] RDefault [3; 4]
  /\ fst (snd (get_dim xres (xgd []) xnone (init xres [3; 4] true))) = mkCall [3; 4] (RSel [3; 4]) [3; 4].
Proof. split; reflexivity. Qed.
