(* C13 model -- the caches of matid.clustering.cluster.Cluster as a state machine.

   State: the index list, the index list the cached sub-matrix was cut with (if any), the cached
   dimensionality (if any), whether per-atom radii were given to the constructor.
   Operations: GetMatrix (= _get_distance_matrix_radii_mic()), SetIndices l (= `cluster.indices = l`),
   GetDim (= get_dimensionality()).

   [gd atoms radii mat] stands for
       matid.geometry.get_dimensionality(system[atoms], bond_threshold,
                                         dist_matrix_radii_mic_1x = D[np.ix_(mat, mat)], radii = radii)
   (system, D, the stored radii array and the bond threshold are fixed for the life of a cluster).
   The *direct* evaluation the property compares with is [gd idx (RSel idx) idx]: the cluster's own
   atoms, the clustering radii restricted to them, and the distance matrix of exactly those atoms.

   The model mirrors the code *with* fixes/c13-cluster-dimensionality-cache.diff applied (indices is a
   property whose setter drops both caches; radii[indices] is forwarded).  [old_*] mirrors the code
   without it and is refuted below. *)
From Coq Require Import List Arith Bool PeanoNat.
Import ListNotations.
From MV Require Import Sbc.Common Sbc.Clean.

Inductive radii_arg :=
| RDefault                      (* no radii argument: the "covalent" default *)
| RSel (l : list nat).          (* self._radii[l] *)

Inductive op := GetMatrix | SetIndices (l : list nat) | GetDim.

Section Cache.
  Variable R : Type.                                        (* int | None *)
  Variable gd : list nat -> radii_arg -> list nat -> R.
  (* `if self._dimensionality is None:` -- a result None (disconnected atoms) is never cached *)
  Variable is_none : R -> bool.
  Definition remember (d : R) : option R := if is_none d then None else Some d.

  Record cstate := mkState {
    s_idx : list nat;
    s_cache : option (list nat);
    s_dim : option R;
    s_radii : bool
  }.

  Definition init (l : list nat) (has_radii : bool) : cstate := mkState l None None has_radii.

  (* ---------------- patched code ---------------- *)
  (* @indices.setter: self._indices = list(l); self._distance_matrix_radii_mic = None; self._dimensionality = None *)
  Definition set_indices (l : list nat) (s : cstate) : cstate := mkState l None None (s_radii s).

  (* if self._distance_matrix_radii_mic is None: cut it with self.indices *)
  Definition get_matrix (s : cstate) : cstate * list nat :=
    match s_cache s with
    | Some l => (s, l)
    | None => (mkState (s_idx s) (Some (s_idx s)) (s_dim s) (s_radii s), s_idx s)
    end.

  Definition radii_of (s : cstate) : radii_arg := if s_radii s then RSel (s_idx s) else RDefault.

  (* if self._dimensionality is None:
         self._dimensionality = get_dimensionality(self.get_atoms(), thr, dist_matrix...=self._get_distance_matrix_radii_mic(), radii=self._radii[self.indices])
     return self._dimensionality *)
  Definition get_dim (s : cstate) : cstate * R :=
    match s_dim s with
    | Some d => (s, d)
    | None =>
        let '(s1, m) := get_matrix s in
        let d := gd (s_idx s) (radii_of s) m in
        (mkState (s_idx s1) (s_cache s1) (remember d) (s_radii s1), d)
    end.

  Definition direct (s : cstate) : R := gd (s_idx s) (RSel (s_idx s)) (s_idx s).

  Definition exec (o : op) (s : cstate) : cstate :=
    match o with
    | GetMatrix => fst (get_matrix s)
    | SetIndices l => set_indices l s
    | GetDim => fst (get_dim s)
    end.

  (* the pairs (shortcut result, direct result at that moment) of every GetDim of a history *)
  Fixpoint trace (ops : list op) (s : cstate) : list (R * R) :=
    match ops with
    | [] => []
    | GetDim :: t => (snd (get_dim s), direct s) :: trace t (fst (get_dim s))
    | o :: t => trace t (exec o s)
    end.

  (* ---------------- unpatched code ---------------- *)
  (* plain attribute: the caches survive *)
  Definition old_set_indices (l : list nat) (s : cstate) : cstate :=
    mkState l (s_cache s) (s_dim s) (s_radii s).
  (* radii are not forwarded *)
  Definition old_get_dim (s : cstate) : cstate * R :=
    match s_dim s with
    | Some d => (s, d)
    | None =>
        let '(s1, m) := get_matrix s in
        let d := gd (s_idx s) RDefault m in
        (mkState (s_idx s1) (s_cache s1) (remember d) (s_radii s1), d)
    end.
  Definition old_exec (o : op) (s : cstate) : cstate :=
    match o with
    | GetMatrix => fst (get_matrix s)
    | SetIndices l => old_set_indices l s
    | GetDim => fst (old_get_dim s)
    end.
  Fixpoint old_trace (ops : list op) (s : cstate) : list (R * R) :=
    match ops with
    | [] => []
    | GetDim :: t => (snd (old_get_dim s), direct s) :: old_trace t (fst (old_get_dim s))
    | o :: t => old_trace t (old_exec o s)
    end.
End Cache.

Arguments mkState {R}.
Arguments s_idx {R}.
Arguments s_cache {R}.
Arguments s_dim {R}.
Arguments s_radii {R}.

(* ---- the histories the SBC pipeline generates for one cluster:
        constructor; `indices = ...` by localize (any number of times); GetMatrix then
        `indices = sublist` by clean; any number of get_dimensionality() calls by the user *)
Definition pipeline_history (localize_sets : list (list nat)) (cleaned : list nat) (n_getdim : nat) : list op :=
  map SetIndices localize_sets ++ [GetMatrix; SetIndices cleaned] ++ repeat GetDim n_getdim.

(* ---- executable observation semantics for the correspondence: the "result" of a call is the call *)
Record call := mkCall { c_atoms : list nat; c_radii : radii_arg; c_mat : list nat }.

Definition list_eqb (a b : list nat) : bool :=
  (length a =? length b) && forallb (fun p => fst p =? snd p) (combine a b).

(* the executable instance: a result is (the call, whether the real result was None); the latter is
   an oracle supplied by the run: the atom lists on which get_dimensionality answered None *)
Definition xres := (call * bool)%type.
Definition xgd (nones : list (list nat)) (a : list nat) (r : radii_arg) (m : list nat) : xres :=
  (mkCall a r m, existsb (list_eqb a) nones).
Definition xnone (x : xres) : bool := snd x.

(* what the harness sees after each operation:
   (matrix cache present, dimensionality cache present, the get_dimensionality call made by this op) *)
Definition obs := (bool * bool * option call)%type.

Definition is_some {A} (o : option A) : bool := match o with Some _ => true | None => false end.

Fixpoint observe (nones : list (list nat)) (ops : list op) (s : cstate xres) : list obs :=
  match ops with
  | [] => []
  | o :: t =>
      let s' := exec xres (xgd nones) xnone o s in
      let made := match o with
                  | GetDim => match s_dim s with
                              | None => Some (fst (snd (get_dim xres (xgd nones) xnone s)))
                              | Some _ => None
                              end
                  | _ => None
                  end in
      (is_some (s_cache s'), is_some (s_dim s'), made) :: observe nones t s'
  end.

Definition radii_eqb (a b : radii_arg) : bool :=
  match a, b with
  | RDefault, RDefault => true
  | RSel x, RSel y => list_eqb x y
  | _, _ => false
  end.

(* implementation side: the matrix argument is identified by the index lists of the history that
   reproduce it exactly (candidates), the atoms by their index list *)
Record impl_call := mkImplCall { i_atoms : list nat; i_radii : radii_arg; i_mat_candidates : list (list nat) }.
Definition impl_obs := (bool * bool * option impl_call)%type.

Definition agree_obs (m : obs) (i : impl_obs) : bool :=
  match m, i with
  | (mc, dc, mcall), (ic, idc, icall) =>
      Bool.eqb mc ic && Bool.eqb dc idc &&
      match mcall, icall with
      | None, None => true
      | Some c, Some d =>
          list_eqb (c_atoms c) (i_atoms d) && radii_eqb (c_radii c) (i_radii d)
          && existsb (list_eqb (c_mat c)) (i_mat_candidates d)
      | _, _ => false
      end
  end.

Fixpoint all2b {A B} (f : A -> B -> bool) (a : list A) (b : list B) : bool :=
  match a, b with
  | [], [] => true
  | x :: a', y :: b' => f x y && all2b f a' b'
  | _, _ => false
  end.


(* ---- a concrete get_dimensionality for the refutation of the unpatched model: the 1x step
        (more than one bonded component of the matrix handed in => None), then a constant *)
Definition toy_bond (i j : nat) : bool := (i =? j) || ((i + j =? 1) && negb (i =? j)).   (* 0-1 bonded, 2 alone *)
Definition toy_gd (atoms : list nat) (r : radii_arg) (mat : list nat) : option nat :=
  if 1 <? length (dbscan_groups toy_bond mat) then None else Some 0.
Definition toy_none (d : option nat) : bool := match d with None => true | Some _ => false end.

(* histories that start after some unobserved prefix (the operations SBC itself performed) *)
Definition agree_history_from (nones : list (list nat)) (prefix : list op) (idx_start : list nat)
           (has_radii : bool) (ops : list op) (seen : list impl_obs) : bool :=
  all2b agree_obs
        (observe nones ops (fold_left (fun s o => exec xres (xgd nones) xnone o s) prefix
                                      (init xres idx_start has_radii)))
        seen.
