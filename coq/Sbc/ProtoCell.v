(* C04 -- the logic around the prototype cell (executable definitions and their proofs; small file).

   What is modelled here is only what is *logic* in the README workflow
       clusters = SBC().get_clusters(system); cell = cluster.get_cell(); SymmetryAnalyzer(cell, tol)
   (a) Cluster.get_cell's three-way dispatch (clustering/cluster.py:75-81), with Python truthiness, and the
       periodicity of the prototype cell as a function of the branch `_find_proto_cell` took
       (core/periodicfinder.py:403-473, 880-885, 1077-1082);
   (b) "contains a whole number of formula units" as arithmetic on species counts;
   (c) the material id's pre-hash string (symmetryanalyzer.py:115-135) and the Wyckoff occupation as
       functions of spglib's dataset and of the representation chosen by the normalizer search, and their
       invariance -- GIVEN the invariance of the chosen count map (C06_ground_state_invariant; a premise
       here, discharged in Properties/C04.v) and the oracle contract on the two datasets.
   NOT modelled: the periodic finder's floating-point search (that it finds the crystal's cell: F1) and
   spglib (that its dataset for the averaged cell is the source crystal's up to an origin shift: S1). *)
From Coq Require Import List Arith Bool ZArith String Ascii Lia Permutation Sorted PeanoNat DecimalString.
Import ListNotations.
From MV Require Import Sbc.Common Sbc.CommonProofs Sbc.Driver Sbc.DriverProofs Sbc.Pipeline Sbc.PipelineProofs.
From MV Require Import Symmetry.Table Symmetry.GroundState Symmetry.GroundStateInvariance
  Symmetry.Affine Symmetry.GroundStateProofs Reflect.GroupChecks Reflect.NormChecks Reflect.GroundChecks Reflect.GroundChecksProofs.
Local Open Scope nat_scope.

(* ================================================================================================ *)
(* (a) Cluster.get_cell and the periodicity of the prototype cell                                    *)
(* ================================================================================================ *)

(* a Python attribute: None, or an object with its truth value (`if obj:` calls __len__ for ase.Atoms --
   an Atoms object with no atoms is falsy -- and for LinkedUnitCollection, a dict: empty is falsy) *)
Inductive pyobj (A : Type) : Type := PyNone | PyObj (truthy : bool) (a : A).
Arguments PyNone {A}.
Arguments PyObj {A} truthy a.

(*  def get_cell(self):
        if self._cell:   return self._cell
        if self._region: return self._region.cell
        return None
    [region] carries the region's .cell *)
Definition get_cell {A} (cell : pyobj A) (region : pyobj A) : option A :=
  match cell with
  | PyObj true a => Some a
  | _ => match region with
         | PyObj true rc => Some rc
         | _ => None
         end
  end.

Lemma get_cell_unset {A} (rc : A) : get_cell PyNone (PyObj true rc) = Some rc.
Proof. reflexivity. Qed.
(* the test is truthiness, not `is not None`: a set but empty cell falls through to the region ... *)
Lemma get_cell_falsy_cell {A} (a rc : A) : get_cell (PyObj false a) (PyObj true rc) = Some rc.
Proof. reflexivity. Qed.
(* ... and an empty region yields None although a region is present *)
Lemma get_cell_empty_region {A} (c : pyobj A) (rc : A) : (forall a, c <> PyObj true a) -> get_cell c (PyObj false rc) = None.
Proof. intros H. destruct c as [|[|] a]; try reflexivity. exfalso. apply (H a). reflexivity. Qed.
Lemma get_cell_spec {A} (cell region : pyobj A) (x : A) :
  get_cell cell region = Some x <->
  cell = PyObj true x \/ ((forall a, cell <> PyObj true a) /\ region = PyObj true x).
Proof.
  assert (Hno : forall (b : bool) (a : A), b = false -> forall a', PyObj b a <> PyObj true a').
  { intros b a -> a' E. discriminate. }
  destruct cell as [|[|] a]; simpl.
  - destruct region as [|[|] r]; simpl; split.
    + discriminate.
    + intros [H|[_ H]]; discriminate.
    + intros H. inversion H; subst. right. split; [intros; discriminate | reflexivity].
    + intros [H|[_ H]]; [discriminate | inversion H; reflexivity].
    + discriminate.
    + intros [H|[_ H]]; discriminate.
  - split.
    + intros H. inversion H; subst. left. reflexivity.
    + intros [H|[H _]]; [inversion H; reflexivity | exfalso; apply (H a); reflexivity].
  - destruct region as [|[|] r]; simpl; split.
    + discriminate.
    + intros [H|[_ H]]; discriminate.
    + intros H. inversion H; subst. right. split; [intros; discriminate | reflexivity].
    + intros [H|[_ H]]; [discriminate | inversion H; reflexivity].
    + discriminate.
    + intros [H|[_ H]]; discriminate.
Qed.

(* the dispatch alone, on tags -- the form the correspondence evaluates on the nine combinations *)
Inductive tri := PNone | PSome (truthy : bool).
Inductive gc_result := RNone | RCell | RRegionCell | ROther.   (* ROther: never produced by the model *)
Definition tag (r : gc_result) (t : tri) : pyobj gc_result :=
  match t with PNone => PyNone | PSome b => PyObj b r end.
Definition get_cell_dispatch (cell region : tri) : gc_result :=
  match get_cell (tag RCell cell) (tag RRegionCell region) with Some r => r | None => RNone end.
Definition result_eqb (a b : gc_result) : bool :=
  match a, b with RNone, RNone | RCell, RCell | RRegionCell, RRegionCell | ROther, ROther => true | _, _ => false end.

(* ---- which periodicity the prototype cell has ---- *)
Inductive builder := Branch3D | Branch2D.       (* _find_proto_cell_3d / _find_proto_cell_2d *)
Definition TTT := [true; true; true].
Definition TTF := [true; true; false].
Definition n_periodic (pbc : list bool) : nat := count_true pbc.
Definition pbc_eqb (a b : list bool) : bool := (List.length a =? List.length b) && forallb (fun xy => Bool.eqb (fst xy) (snd xy)) (combine a b).

(* Atoms(..., pbc=[True, True, True]) at periodicfinder.py:880-885, pbc=[True, True, False] at 1077-1082 *)
Definition built_pbc (b : builder) : list bool := match b with Branch3D => TTT | Branch2D => TTF end.
(* the 3D cell whose bonded network is only two-dimensional is re-declared with set_pbc([True, True, False])
   (line 464); get_minimized_cell and slicing keep pbc (observed by the correspondence) *)
Definition proto_pbc (b : builder) (reduced : bool) : list bool :=
  match b with
  | Branch3D => if reduced then TTF else TTT
  | Branch2D => TTF
  end.

(* control flow of _find_proto_cell after the cell was built, as far as periodicity goes:
   n_spans (2 or 3 valid spans), the dimensionality of the 3D candidate (None = get_dimensionality gave
   None), and whether the later acceptance tests (2D size/dimensionality/thickness, overlap) pass.
   Result: (pbc of the returned cell, returned number of spans `dim`), None = no prototype cell. *)
Definition find_proto_cell_pbc (n_spans : nat) (dimensionality : option nat) (accepted : bool) : option (list bool * nat) :=
  if negb accepted then None else
  match n_spans with
  | 3 => match dimensionality with
         | Some 3 => Some (proto_pbc Branch3D false, 3)
         | Some 2 => Some (proto_pbc Branch3D true, 2)
         | _ => None
         end
  | 2 => Some (proto_pbc Branch2D false, 2)
  | _ => None
  end.

Lemma proto_pbc_3d : n_periodic (proto_pbc Branch3D false) = 3.
Proof. reflexivity. Qed.
Lemma proto_pbc_2d reduced : n_periodic (proto_pbc Branch2D reduced) = 2.
Proof. reflexivity. Qed.
Lemma proto_pbc_reduced b : n_periodic (proto_pbc b true) = 2.
Proof. destruct b; reflexivity. Qed.

(* 3D branch (kept) => three periodic axes; 2D branch or reduction => exactly two; the returned `dim`
   is the number of periodic axes of the returned cell; nothing else is ever returned *)
Theorem find_proto_cell_pbc_spec n_spans dimensionality accepted pbc dim :
  find_proto_cell_pbc n_spans dimensionality accepted = Some (pbc, dim) ->
  n_periodic pbc = dim /\ (dim = 2 \/ dim = 3) /\
  (dim = 3 <-> (n_spans = 3 /\ dimensionality = Some 3)) /\
  (dim = 3 -> pbc = TTT) /\ (dim = 2 -> pbc = TTF).
Proof.
  unfold find_proto_cell_pbc. destruct accepted; simpl; [|discriminate].
  destruct n_spans as [|[|[|[|k]]]]; try discriminate.
  - intros H. inversion H; subst. repeat split; auto; try discriminate; try (intros [? ?]; discriminate); intros; discriminate.
  - destruct dimensionality as [[|[|[|[|d]]]]|]; try discriminate; intros H; inversion H; subst.
    + repeat split; auto; try discriminate. intros [_ E]. discriminate.
    + repeat split; auto; discriminate.
Qed.

(* ---- the prototype cell of an SBC output cluster --------------------------------------------- *)
(* SBC constructs every Cluster without `cell=` (sbc.py:149, 216): _cell is None; the region is the one
   the finder returned.  [nonempty r] = truth value of the region object (a non-empty dict). *)
Definition sbc_get_cell (nonempty : region -> bool) (c : cluster) : option (list bool) :=
  get_cell PyNone (PyObj (nonempty (creg c)) (rper (creg c))).

Section OutputCell.
  Variable setlist : list nat -> list nat.
  Hypothesis Hsl : setlist_ok setlist.
  Variables (n : nat) (Znum : nat -> Z) (finder : nat -> nat -> option region * (nat -> bool))
            (choose : nat -> list nat -> nat) (merge_threshold : QArith_base.Q) (near bond : nat -> nat -> bool).
  Hypothesis HF0 : F0 n finder.
  Hypothesis Hchoose : choose_ok choose.
  Variable out : list cluster.
  Hypothesis Hout : sbc setlist n Znum finder choose merge_threshold near bond = Ok out.
  Variable nonempty : region -> bool.
  (* every region the finder returns holds at least one unit (checked on every call of every run) *)
  Hypothesis Hnonempty : forall r, from_finder n finder r -> nonempty r = true.

  Theorem output_cluster_cell c : In c out ->
    exists pbc, sbc_get_cell nonempty c = Some pbc /\ pbc = rper (creg c) /\ (n_periodic pbc = 2 \/ n_periodic pbc = 3).
  Proof.
    intros Hc.
    destruct (out_cell_periodicity setlist Hsl n Znum finder choose merge_threshold near bond HF0 Hchoose out Hout c Hc) as [Hf Hp].
    exists (rper (creg c)). unfold sbc_get_cell. rewrite (Hnonempty _ Hf). simpl. auto.
  Qed.
End OutputCell.

(* ================================================================================================ *)
(* (b) a whole number of formula units                                                               *)
(* ================================================================================================ *)
(* species counts as lists of naturals aligned by species *)
Definition scale (k : nat) (l : list nat) : list nat := map (Nat.mul k) l.
Definition gcd_list (l : list nat) : nat := fold_right Nat.gcd 0 l.
Definition reduced (l : list nat) : list nat := map (fun x => x / gcd_list l) l.
Definition whole_units (cell formula : list nat) : Prop := exists m, 1 <= m /\ cell = scale m formula.

Lemma gcd_list_divides l x : In x l -> Nat.divide (gcd_list l) x.
Proof.
  induction l as [|a l IH]; intros H; [destruct H|]. simpl. destruct H as [<-|H].
  - apply Nat.gcd_divide_l.
  - eapply Nat.divide_trans; [apply Nat.gcd_divide_r | apply IH; exact H].
Qed.
Lemma gcd_list_pos l : (exists x, In x l /\ x <> 0) -> gcd_list l <> 0.
Proof.
  intros [x [Hx Hn]] E. destruct (gcd_list_divides l x Hx) as [q Hq]. rewrite E in Hq. lia.
Qed.
Lemma scale_reduced l : scale (gcd_list l) (reduced l) = l.
Proof.
  unfold scale, reduced. rewrite map_map. transitivity (map (fun x => x) l); [|apply map_id]. apply map_ext_in.
  intros x Hx. destruct (gcd_list_divides l x Hx) as [q Hq].
  destruct (Nat.eq_dec (gcd_list l) 0) as [E|E].
  - rewrite E in *. lia.
  - rewrite Hq at 1. rewrite Nat.div_mul by exact E. lia.
Qed.
Lemma scale_scale a b l : scale a (scale b l) = scale (a * b) l.
Proof. unfold scale. rewrite map_map. apply map_ext. intros. lia. Qed.

(* if the prototype cell holds k >= 1 copies of the primitive cell's contents, it holds a whole number
   (k * gcd of the primitive counts) of reduced formula units *)
Theorem multiple_of_primitive_is_whole_units k prim cell :
  1 <= k -> (exists x, In x prim /\ x <> 0) -> cell = scale k prim ->
  whole_units cell (reduced prim) /\ exists m, 1 <= m /\ cell = scale m (reduced prim) /\ m = k * gcd_list prim.
Proof.
  intros Hk Hne ->. pose proof (gcd_list_pos prim Hne) as Hg.
  assert (H : scale k prim = scale (k * gcd_list prim) (reduced prim)).
  { rewrite <- scale_scale, scale_reduced. reflexivity. }
  split; [exists (k * gcd_list prim)|exists (k * gcd_list prim)]; repeat split; auto; nia.
Qed.

Lemma gcd_list_scale k l : gcd_list (scale k l) = k * gcd_list l.
Proof.
  induction l as [|a l IH]; simpl; [lia|]. fold (scale k l). rewrite IH. apply Nat.gcd_mul_mono_l.
Qed.
(* ... and its own reduced formula is the primitive cell's *)
Theorem reduced_scale k l : 1 <= k -> (exists x, In x l /\ x <> 0) -> reduced (scale k l) = reduced l.
Proof.
  intros Hk Hne. pose proof (gcd_list_pos l Hne) as Hg. unfold reduced. rewrite gcd_list_scale. unfold scale. rewrite map_map.
  apply map_ext. intros x. apply Nat.div_mul_cancel_l; lia.
Qed.

(* ================================================================================================ *)
(* (c) Wyckoff occupation and the material id string                                                  *)
(* ================================================================================================ *)

(* ---- insertion sort over a decidable total order depends only on the multiset ---- *)
Section SortPerm.
  Variable A : Type.
  Variable leb : A -> A -> bool.
  Hypothesis leb_total : forall a b, leb a b = true \/ leb b a = true.
  Hypothesis leb_trans : forall a b c, leb a b = true -> leb b c = true -> leb a c = true.
  Hypothesis leb_antisym : forall a b, leb a b = true -> leb b a = true -> a = b.
  Definition sle (a b : A) : Prop := leb a b = true.

  Lemma insert_perm x l : Permutation (insert_by leb x l) (x :: l).
  Proof.
    induction l as [|a l IH]; simpl; [apply Permutation_refl|].
    destruct (leb x a); [apply Permutation_refl|].
    eapply Permutation_trans; [apply perm_skip; exact IH | apply perm_swap].
  Qed.
  Lemma sort_perm l : Permutation (sort_by leb l) l.
  Proof.
    induction l as [|a l IH]; simpl; [constructor|].
    eapply Permutation_trans; [apply insert_perm | apply perm_skip; exact IH].
  Qed.
  Lemma insert_ssorted x l : StronglySorted sle l -> StronglySorted sle (insert_by leb x l).
  Proof.
    induction l as [|a l IH]; intros Hs; simpl.
    - constructor; constructor.
    - destruct (leb x a) eqn:E.
      + constructor; [exact Hs|]. inversion Hs as [|? ? Hs' Hall]; subst. constructor; [exact E|].
        rewrite Forall_forall in *. intros y Hy. apply (leb_trans x a y E). apply Hall. exact Hy.
      + inversion Hs as [|? ? Hs' Hall]; subst. constructor; [apply IH; exact Hs'|].
        assert (Hax : leb a x = true) by (destruct (leb_total a x) as [H|H]; [exact H | congruence]).
        rewrite Forall_forall in *. intros y Hy.
        apply (Permutation_in _ (insert_perm x l)) in Hy. destruct Hy as [<-|Hy]; [exact Hax | apply Hall; exact Hy].
  Qed.
  Lemma sort_ssorted l : StronglySorted sle (sort_by leb l).
  Proof. induction l as [|a l IH]; simpl; [constructor | apply insert_ssorted; exact IH]. Qed.

  Lemma ssorted_perm_eq l1 : forall l2, StronglySorted sle l1 -> StronglySorted sle l2 -> Permutation l1 l2 -> l1 = l2.
  Proof.
    induction l1 as [|a l1 IH]; intros l2 S1 S2 Hp.
    - apply Permutation_nil in Hp. subst. reflexivity.
    - destruct l2 as [|b l2]; [apply Permutation_sym, Permutation_nil in Hp; discriminate|].
      inversion S1 as [|? ? S1' F1]; inversion S2 as [|? ? S2' F2]; subst.
      assert (Hab : a = b).
      { assert (Ha : In a (b :: l2)) by (apply (Permutation_in _ Hp); left; reflexivity).
        assert (Hb : In b (a :: l1)) by (apply (Permutation_in _ (Permutation_sym Hp)); left; reflexivity).
        destruct Ha as [->|Ha]; [reflexivity|]. destruct Hb as [->|Hb]; [reflexivity|].
        rewrite Forall_forall in F1, F2. apply leb_antisym; [apply F1; exact Hb | apply F2; exact Ha]. }
      subst b. f_equal. apply IH; [exact S1' | exact S2' | apply (Permutation_cons_inv Hp)].
  Qed.

  Theorem sort_by_permutation l l' : Permutation l l' -> sort_by leb l = sort_by leb l'.
  Proof.
    intros Hp. apply ssorted_perm_eq; [apply sort_ssorted | apply sort_ssorted |].
    eapply Permutation_trans; [apply sort_perm|]. eapply Permutation_trans; [exact Hp|]. apply Permutation_sym, sort_perm.
  Qed.
End SortPerm.

(* Python compares str lexicographically by code point = String.leb; transitivity is not in the library *)
Lemma ascii_compare_lt_trans a b c : Ascii.compare a b = Lt -> Ascii.compare b c = Lt -> Ascii.compare a c = Lt.
Proof. unfold Ascii.compare. rewrite !N.compare_lt_iff. apply N.lt_trans. Qed.
Lemma ascii_compare_refl a : Ascii.compare a a = Eq.
Proof. unfold Ascii.compare. apply N.compare_refl. Qed.
Lemma string_compare_lt_trans s1 : forall s2 s3, String.compare s1 s2 = Lt -> String.compare s2 s3 = Lt -> String.compare s1 s3 = Lt.
Proof.
  induction s1 as [|a s1 IH]; intros [|b s2] [|c s3]; simpl; try discriminate; auto.
  destruct (Ascii.compare a b) eqn:Eab; try discriminate.
  - apply Ascii.compare_eq_iff in Eab. subst b. destruct (Ascii.compare a c); auto. apply IH.
  - intros _. destruct (Ascii.compare b c) eqn:Ebc; try discriminate.
    + apply Ascii.compare_eq_iff in Ebc. subst c. rewrite Eab. auto.
    + intros _. rewrite (ascii_compare_lt_trans a b c Eab Ebc). reflexivity.
Qed.
Lemma string_leb_trans a b c : String.leb a b = true -> String.leb b c = true -> String.leb a c = true.
Proof.
  unfold String.leb. destruct (String.compare a b) eqn:Eab; try discriminate; destruct (String.compare b c) eqn:Ebc; try discriminate; intros _ _.
  - apply String.compare_eq_iff in Eab. subst. rewrite Ebc. reflexivity.
  - apply String.compare_eq_iff in Eab. subst. rewrite Ebc. reflexivity.
  - apply String.compare_eq_iff in Ebc. subst. rewrite Eab. reflexivity.
  - rewrite (string_compare_lt_trans a b c Eab Ebc). reflexivity.
Qed.
Definition sort_str : list string -> list string := sort_by String.leb.
Theorem sort_str_permutation l l' : Permutation l l' -> sort_str l = sort_str l'.
Proof. apply sort_by_permutation; [apply String.leb_total | apply string_leb_trans | apply String.leb_antisym]. Qed.

(* ---- spglib's dataset for a conventional cell, orbit by orbit ---- *)
Record orbit := mkOrbit { o_letter : string; o_z : Z; o_n : nat }.   (* letter, atomic number, atoms in the orbit *)
Definition atoms_of (os : list orbit) : list (string * Z) :=
  flat_map (fun o => repeat (o_letter o, o_z o) (o_n o)) os.
Definition letters_of (os : list orbit) : list string := map fst (atoms_of os).
Definition numbers_of (os : list orbit) : list Z := map snd (atoms_of os).
Definition relabel (f : string -> string) (os : list orbit) : list orbit :=
  map (fun o => mkOrbit (f (o_letter o)) (o_z o) (o_n o)) os.

(* what the analyzer reports for a chosen representation with permutation p: one Wyckoff set per orbit --
   (letter = best_permutations.get(old letter), atomic number, multiplicity = number of atoms) *)
Definition wset := (string * Z * nat)%type.
Definition wsets (p : perm) (os : list orbit) : list wset :=
  map (fun o => (hat p (o_letter o), o_z o, o_n o)) os.

(* "{} {} {}".format(element, wyckoff_letter, n_atoms); [sym] = chemical symbol of an atomic number *)
Definition nat_str (n : nat) : string := NilEmpty.string_of_uint (Nat.to_uint n).
Definition z_str (z : Z) : string := NilEmpty.string_of_int (Z.to_int z).
Definition set_string (sym : Z -> string) (s : wset) : string :=
  let '(w, z, k) := s in (sym z ++ " " ++ w ++ " " ++ nat_str k)%string.
(* string = "{} {}".format(spg_number, ", ".join(sorted(wyckoff_strings))); "2D " in front when n_pbc == 2 *)
Definition material_string (sym : Z -> string) (two_d : bool) (number : Z) (sets : list wset) : string :=
  ((if two_d then "2D " else "") ++ z_str number ++ " " ++ String.concat ", " (sort_str (map (set_string sym) sets)))%string.

Theorem material_string_multiset sym two_d number sets sets' :
  Permutation sets sets' -> material_string sym two_d number sets = material_string sym two_d number sets'.
Proof.
  intros Hp. unfold material_string. rewrite (sort_str_permutation _ _ (Permutation_map (set_string sym) Hp)). reflexivity.
Qed.

(* ---- from the count map to the multiset of sets ---- *)
Lemma combine_fst_snd {X Y} (l : list (X * Y)) : combine (map fst l) (map snd l) = l.
Proof. induction l as [|[a b] l IH]; simpl; [reflexivity | rewrite IH; reflexivity]. Qed.
Lemma atoms_combine os : combine (letters_of os) (numbers_of os) = atoms_of os.
Proof. apply combine_fst_snd. Qed.
Lemma atoms_relabel f os : atoms_of (relabel f os) = map (fun lz => (f (fst lz), snd lz)) (atoms_of os).
Proof.
  induction os as [|o os IH]; simpl; [reflexivity|]. rewrite map_app, IH. f_equal.
  induction (o_n o) as [|k IHk]; simpl; [reflexivity | rewrite IHk; reflexivity].
Qed.
Lemma atoms_perm os os' : Permutation os os' -> Permutation (atoms_of os) (atoms_of os').
Proof. intros H. unfold atoms_of. apply Permutation_flat_map. exact H. Qed.

Lemma filter_repeat {X} (f : X -> bool) x k : List.length (filter f (repeat x k)) = if f x then k else 0.
Proof. induction k as [|k IH]; simpl; [destruct (f x); reflexivity|]. destruct (f x) eqn:E; simpl; rewrite IH; reflexivity. Qed.

(* weight of the sets equal to (w, z, _) : the atoms they hold *)
Definition hits (p : perm) (w : string) (z : Z) (o : orbit) : bool :=
  match pget p (o_letter o) with Some w' => String.eqb w' w && Z.eqb (o_z o) z | None => false end.
Lemma count_orbits p os w z :
  count p (atoms_of os) w z = list_sum (map (fun o => if hits p w z o then o_n o else 0) os).
Proof.
  unfold count. induction os as [|o os IH]; simpl; [reflexivity|].
  rewrite filter_app, app_length, IH. f_equal. rewrite filter_repeat. unfold hits. simpl. reflexivity.
Qed.

Definition wset_eq_dec : forall a b : wset, {a = b} + {a <> b}.
Proof. repeat decide equality. Qed.

Section Occupation.
  Variable mult : string -> nat.         (* atoms of the conventional cell on a Wyckoff position of that letter *)

  (* number of sets equal to (w, z, mult w), times mult w, is the atom count of (w, z) -- when every
     orbit's letter is in the domain of p and every set has the multiplicity of its reported letter *)
  Lemma count_is_occ_times_mult p os w z :
    (forall o, In o os -> pget p (o_letter o) <> None) ->
    (forall o, In o os -> o_n o = mult (hat p (o_letter o))) ->
    count p (atoms_of os) w z = count_occ wset_eq_dec (wsets p os) (w, z, mult w) * mult w.
  Proof.
    intros Ht Hm. rewrite count_orbits. induction os as [|o os IH]; simpl; [reflexivity|].
    rewrite IH by (intros o' Ho'; first [apply Ht | apply Hm]; right; exact Ho').
    specialize (Ht o (or_introl eq_refl)). specialize (Hm o (or_introl eq_refl)).
    unfold hits, hat in *. destruct (pget p (o_letter o)) as [w'|] eqn:E; [|congruence].
    destruct (wset_eq_dec (w', o_z o, o_n o) (w, z, mult w)) as [Heq|Hne].
    - inversion Heq; subst. rewrite String.eqb_refl, Z.eqb_refl. simpl. lia.
    - destruct (String.eqb w' w && Z.eqb (o_z o) z) eqn:B; [|reflexivity].
      apply andb_true_iff in B. destruct B as [B1 B2]. apply String.eqb_eq in B1. apply Z.eqb_eq in B2. subst.
      exfalso. apply Hne. rewrite Hm. reflexivity.
  Qed.

  (* equal count maps => equal multisets of reported sets *)
  Theorem wsets_permutation p os p' os' :
    (forall o, In o os -> pget p (o_letter o) <> None) -> (forall o, In o os' -> pget p' (o_letter o) <> None) ->
    (forall o, In o os -> o_n o = mult (hat p (o_letter o)) /\ 1 <= o_n o) ->
    (forall o, In o os' -> o_n o = mult (hat p' (o_letter o)) /\ 1 <= o_n o) ->
    (forall w z, count p' (atoms_of os') w z = count p (atoms_of os) w z) ->
    Permutation (wsets p' os') (wsets p os).
  Proof.
    intros Ht Ht' Hm Hm' Hc. apply (Permutation_count_occ wset_eq_dec). intros [[w z] k].
    destruct (Nat.eq_dec k (mult w)) as [->|Hk].
    - specialize (Hc w z).
      rewrite (count_is_occ_times_mult p' os' w z Ht' (fun o H => proj1 (Hm' o H))) in Hc.
      rewrite (count_is_occ_times_mult p os w z Ht (fun o H => proj1 (Hm o H))) in Hc.
      destruct (Nat.eq_dec (mult w) 0) as [E0|E0]; [|nia].
      (* mult w = 0: no set can carry the letter w, on either side *)
      assert (Hz : forall q l, (forall o, In o l -> o_n o = mult (hat q (o_letter o)) /\ 1 <= o_n o) ->
                               count_occ wset_eq_dec (wsets q l) (w, z, mult w) = 0).
      { intros q l H. apply count_occ_not_In. intros Hin. unfold wsets in Hin. apply in_map_iff in Hin.
        destruct Hin as [o [Ho Hin]]. inversion Ho; subst. destruct (H o Hin) as [H1 H2]. rewrite H3 in H1. lia. }
      rewrite (Hz p' os' Hm'), (Hz p os Hm). reflexivity.
    - assert (Hz : forall q l, (forall o, In o l -> o_n o = mult (hat q (o_letter o)) /\ 1 <= o_n o) ->
                               count_occ wset_eq_dec (wsets q l) (w, z, k) = 0).
      { intros q l H. apply count_occ_not_In. intros Hin. unfold wsets in Hin. apply in_map_iff in Hin.
        destruct Hin as [o [Ho Hin]]. inversion Ho; subst. destruct (H o Hin) as [H1 _]. congruence. }
      rewrite (Hz p' os' Hm'), (Hz p os Hm). reflexivity.
  Qed.
End Occupation.

(* ---- the tabulated permutations are total on the group's letters (from the C14 reflection clause) ---- *)
Lemma in_combine_exists' {X Y} (l : list X) (l' : list Y) x :
  List.length l = List.length l' -> In x l -> exists y, In (x, y) (combine l l').
Proof.
  revert l'. induction l as [|a l IH]; intros [|b l'] Hl Hin; simpl in *; try discriminate; [destruct Hin|].
  destruct Hin as [<-|Hin]; [exists b; left; reflexivity|]. destruct (IH l' ltac:(lia) Hin) as [y Hy]. exists y. right. exact Hy.
Qed.
Lemma chk_norms_total t certs : chk_norms t certs = true ->
  forall p l, In p (table_perms t) -> In l (table_letters t) -> exists l', pget p l = Some l' /\ In l' (table_letters t).
Proof.
  unfold chk_norms, with_table.
  destruct (conv_trans t) as [tr|]; [|discriminate].
  destruct (conv_wycks t) as [ws|] eqn:Ews; [|discriminate].
  destruct (general_position ws) as [gp|]; [|discriminate].
  intros Hn. rewrite !andb_true_iff in Hn. destruct Hn as [[Hlen Hall] _].
  apply Nat.eqb_eq in Hlen. rewrite forallb_forall in Hall.
  intros p l Hp Hl. unfold table_perms in Hp. apply in_map_iff in Hp. destruct Hp as [rn [<- Hrn]].
  destruct (in_combine_exists' (sg_norms t) certs rn (eq_sym Hlen) Hrn) as [cs Hcs].
  specialize (Hall _ Hcs). simpl in Hall. unfold norm_ok in Hall. destruct (norm_to_op rn); [|discriminate].
  rewrite !andb_true_iff in Hall. destruct Hall as [[_ Hw] _]. rewrite (conv_wycks_letters t ws Ews) in Hw.
  exact (proj1 (wellformed_total _ _ Hw) l Hl).
Qed.

Lemma chosen_total gl table letters numbers c :
  (forall p l, In p table -> In l gl -> exists l', pget p l = Some l' /\ In l' gl) ->
  incl letters gl -> ground_state letters numbers table = Chosen c ->
  forall l, In l letters -> pget (c_perm c) l <> None.
Proof.
  intros Htot Hincl Hgs l Hl.
  destruct (GroundStateProofs.ground_state_total letters numbers table) as [c0 [H0 [Hin _]]].
  rewrite Hgs in H0. inversion H0; subst c0. unfold candidates in Hin. destruct Hin as [<-|Hin].
  - simpl. rewrite (pget_ident letters l Hl). discriminate.
  - apply in_map_iff in Hin. destruct Hin as [[i p] [<- Hip]]. simpl. apply in_combine_r in Hip.
    destruct (Htot p l Hip (Hincl l Hl)) as [l' [E _]]. rewrite E. discriminate.
Qed.

(* ---- the conditional core of C04 ---------------------------------------------------------------- *)
(* [src] / [proto]: spglib's orbits (letter, species, size) of the standardized conventional cells of the
   source crystal's own unit cell and of the cluster's prototype cell.  Premises:
     Hinv   the normalizer search's chosen count map is invariant under the letter-permutation group and atom
            order (C06_ground_state_invariant -- supplied, not assumed, in Properties/C04.v);
     Htot   the tabulated permutations are total on the group's letters (C14 clause, supplied likewise);
     S1     [proto] is [src] with letters moved by one element pi of the letter-permutation group, in any
            order (and the same space-group number: both analyses use the same table `perms`);
     S3     every reported set has as many atoms as the conventional multiplicity of its reported letter
            (C07: sets are orbits with the standard-setting letter; C14: every position is one orbit). *)
Theorem material_id_invariant
  (gl : list string) (perms : list perm) (mult : string -> nat) (sym : Z -> string)
  (Htot : forall p l, In p perms -> In l gl -> exists l', pget p l = Some l' /\ In l' gl)
  (Hinv : forall letters numbers letters' numbers' pi c c',
      In pi (ident_perm gl :: perms) -> incl letters gl ->
      List.length letters = List.length numbers -> List.length letters' = List.length numbers' ->
      Permutation (combine letters' numbers') (map (fun lz => (hat pi (fst lz), snd lz)) (combine letters numbers)) ->
      ground_state letters numbers perms = Chosen c -> ground_state letters' numbers' perms = Chosen c' ->
      forall w z, count (c_perm c') (combine letters' numbers') w z = count (c_perm c) (combine letters numbers) w z)
  (src proto : list orbit) (pi : perm) (c c' : cand) (two_d : bool) (number : Z) :
  In pi (ident_perm gl :: perms) ->
  incl (letters_of src) gl -> incl (letters_of proto) gl ->
  Permutation proto (relabel (hat pi) src) ->                                                   (* S1 *)
  ground_state (letters_of src) (numbers_of src) perms = Chosen c ->
  ground_state (letters_of proto) (numbers_of proto) perms = Chosen c' ->
  (forall o, In o src -> o_n o = mult (hat (c_perm c) (o_letter o)) /\ 1 <= o_n o) ->           (* S3 *)
  (forall o, In o proto -> o_n o = mult (hat (c_perm c') (o_letter o)) /\ 1 <= o_n o) ->
  Permutation (wsets (c_perm c') proto) (wsets (c_perm c) src)
  /\ (forall w z, count (c_perm c') (atoms_of proto) w z = count (c_perm c) (atoms_of src) w z)
  /\ material_string sym two_d number (wsets (c_perm c') proto) = material_string sym two_d number (wsets (c_perm c) src).
Proof.
  intros Hpi Hi Hi' HS1 Hgs Hgs' Hm Hm'.
  assert (Hc : forall w z, count (c_perm c') (atoms_of proto) w z = count (c_perm c) (atoms_of src) w z).
  { intros w z. rewrite <- (atoms_combine proto), <- (atoms_combine src).
    apply (Hinv (letters_of src) (numbers_of src) (letters_of proto) (numbers_of proto) pi c c' Hpi Hi);
      try (unfold letters_of, numbers_of; rewrite !map_length; reflexivity); try assumption.
    rewrite !atoms_combine. rewrite <- atoms_relabel. apply atoms_perm. exact HS1. }
  assert (Hin_letters : forall os o, In o os -> 1 <= o_n o -> In (o_letter o) (letters_of os)).
  { intros os o Ho Hn. unfold letters_of, atoms_of. apply in_map_iff. exists (o_letter o, o_z o). split; [reflexivity|].
    apply in_flat_map. exists o. split; [exact Ho|]. destruct (o_n o); [lia|]. left. reflexivity. }
  assert (Hp : Permutation (wsets (c_perm c') proto) (wsets (c_perm c) src)).
  { apply (wsets_permutation mult); try assumption.
    - intros o Ho. apply (chosen_total gl perms _ _ c Htot Hi Hgs). apply Hin_letters; [exact Ho | apply (Hm o Ho)].
    - intros o Ho. apply (chosen_total gl perms _ _ c' Htot Hi' Hgs'). apply Hin_letters; [exact Ho | apply (Hm' o Ho)]. }
  split; [exact Hp|]. split; [exact Hc|]. apply material_string_multiset. exact Hp.
Qed.

(* ---- contract S1 as a boolean, for validating it on real datasets (correspondence) ---- *)
Definition lz_eqb (a b : string * Z) : bool := String.eqb (fst a) (fst b) && Z.eqb (snd a) (snd b).
Fixpoint remove_one (x : string * Z) (l : list (string * Z)) : option (list (string * Z)) :=
  match l with
  | [] => None
  | y :: r => if lz_eqb x y then Some r
              else match remove_one x r with Some r' => Some (y :: r') | None => None end
  end.
Fixpoint multiset_eqb (a b : list (string * Z)) : bool :=
  match a with
  | [] => match b with [] => true | _ => false end
  | x :: a' => match remove_one x b with Some b' => multiset_eqb a' b' | None => false end
  end.
(* some element of the letter-permutation group (identity included) moves the source's (letter, species)
   multiset onto the prototype cell's *)
Definition s1_holds (gl : list string) (perms : list perm) (L : list string) (Zs : list Z) (L' : list string) (Zs' : list Z) : bool :=
  existsb (fun pi => multiset_eqb (combine L' Zs') (map (fun lz => (hat pi (fst lz), snd lz)) (combine L Zs)))
          (ident_perm gl :: perms).

Lemma lz_eqb_eq a b : lz_eqb a b = true -> a = b.
Proof.
  destruct a as [a1 a2], b as [b1 b2]. unfold lz_eqb. simpl. intros H. apply andb_true_iff in H. destruct H as [H1 H2].
  apply String.eqb_eq in H1. apply Z.eqb_eq in H2. subst. reflexivity.
Qed.
Lemma remove_one_perm x l : forall r, remove_one x l = Some r -> Permutation l (x :: r).
Proof.
  induction l as [|y l IH]; intros r H; simpl in H; [discriminate|].
  destruct (lz_eqb x y) eqn:E.
  - inversion H; subst. apply lz_eqb_eq in E. subst. apply Permutation_refl.
  - destruct (remove_one x l) as [r'|]; [|discriminate]. inversion H; subst.
    eapply Permutation_trans; [apply perm_skip; apply IH; reflexivity | apply perm_swap].
Qed.
Lemma multiset_eqb_perm a : forall b, multiset_eqb a b = true -> Permutation a b.
Proof.
  induction a as [|x a IH]; intros b H; simpl in H.
  - destruct b; [constructor | discriminate].
  - destruct (remove_one x b) as [b'|] eqn:E; [|discriminate].
    eapply Permutation_trans; [apply perm_skip; apply IH; exact H | apply Permutation_sym, remove_one_perm; exact E].
Qed.
Theorem s1_holds_sound gl perms L Zs L' Zs' : s1_holds gl perms L Zs L' Zs' = true ->
  exists pi, In pi (ident_perm gl :: perms) /\
             Permutation (combine L' Zs') (map (fun lz => (hat pi (fst lz), snd lz)) (combine L Zs)).
Proof.
  unfold s1_holds. intros H. apply existsb_exists in H. destruct H as [pi [Hin H]]. exists pi. split; [exact Hin|].
  apply multiset_eqb_perm. exact H.
Qed.

(* ---- non-vacuity: rock salt (group 225: letters a, b swapped by the origin shift (1/2,1/2,1/2)) ---- *)
Open Scope string_scope.
Module RockSaltExample.
  Definition gl := ["a"; "b"; "c"].
  Definition swap : perm := [("a", "b"); ("b", "a"); ("c", "c")].
  Definition perms := [swap].
  Definition mult (w : string) : nat := if String.eqb w "c" then 8 else 4.
  Definition sym (z : Z) : string := if Z.eqb z 11 then "Na" else "Cl".
  Definition src := [mkOrbit "a" 11 4; mkOrbit "b" 17 4].       (* Na on 4a, Cl on 4b *)
  Definition proto := [mkOrbit "a" 17 4; mkOrbit "b" 11 4].     (* the prototype cell came out with Cl at the origin *)

  Example gs_src : ground_state (letters_of src) (numbers_of src) perms = Chosen (mkCand (ident_perm (letters_of src)) true 0).
  Proof. vm_compute. reflexivity. Qed.
  Example gs_proto : ground_state (letters_of proto) (numbers_of proto) perms = Chosen (mkCand swap false 1).
  Proof. vm_compute. reflexivity. Qed.
  Example s1 : Permutation proto (relabel (hat swap) src).
  Proof. vm_compute. apply perm_swap. Qed.
  Example strings_equal :
    material_string sym false 225 (wsets swap proto) = "225 Cl b 4, Na a 4"
    /\ material_string sym false 225 (wsets (ident_perm (letters_of src)) src) = "225 Cl b 4, Na a 4".
  Proof. split; vm_compute; reflexivity. Qed.
  Example s3_src : forall o, In o src -> o_n o = mult (hat (ident_perm (letters_of src)) (o_letter o)) /\ 1 <= o_n o.
  Proof. intros o [<-|[<-|[]]]; vm_compute; split; auto; lia. Qed.
  Example s3_proto : forall o, In o proto -> o_n o = mult (hat swap (o_letter o)) /\ 1 <= o_n o.
  Proof. intros o [<-|[<-|[]]]; vm_compute; split; auto; lia. Qed.
End RockSaltExample.

(* (a), (b): concrete instances *)
Example dispatch_examples :
  get_cell_dispatch PNone (PSome true) = RRegionCell /\ get_cell_dispatch (PSome false) (PSome true) = RRegionCell
  /\ get_cell_dispatch (PSome true) (PSome true) = RCell /\ get_cell_dispatch PNone (PSome false) = RNone
  /\ get_cell_dispatch PNone PNone = RNone.
Proof. repeat split. Qed.
Example branch_examples :
  find_proto_cell_pbc 3 (Some 3) true = Some (TTT, 3) /\ find_proto_cell_pbc 3 (Some 2) true = Some (TTF, 2)
  /\ find_proto_cell_pbc 2 None true = Some (TTF, 2) /\ find_proto_cell_pbc 3 (Some 1) true = None.
Proof. repeat split. Qed.
(* rutile: primitive cell Ti2 O4, a prototype cell with k = 1 holds 2 formula units TiO2 *)
Example rutile_units : whole_units (scale 1 [2; 4]) (reduced [2; 4]) /\ reduced [2; 4] = [1; 2].
Proof.
  split; [|reflexivity]. apply (multiple_of_primitive_is_whole_units 1 [2; 4]); [lia | exists 2; simpl; split; [auto|lia] | reflexivity].
Qed.
