(* Lemmas about the shared SBC definitions. *)
From Coq Require Import List Arith Bool ZArith QArith PeanoNat Lia.
Import ListNotations.
Local Open Scope nat_scope.
From MV Require Import Sbc.Common.

Lemma mem_In x l : mem x l = true <-> In x l.
Proof.
  unfold mem. rewrite existsb_exists. split.
  - intros [y [H1 H2]]. apply Nat.eqb_eq in H2. subst. assumption.
  - intros H. exists x. split; [assumption | apply Nat.eqb_refl].
Qed.

Lemma mem_false x l : mem x l = false <-> ~ In x l.
Proof.
  split.
  - intros H Hin. apply mem_In in Hin. congruence.
  - intros H. destruct (mem x l) eqn:E; [|reflexivity]. apply mem_In in E. contradiction.
Qed.

Lemma memZ_In x l : memZ x l = true <-> In x l.
Proof.
  unfold memZ. rewrite existsb_exists. split.
  - intros [y [H1 H2]]. apply Z.eqb_eq in H2. subst. assumption.
  - intros H. exists x. split; [assumption | apply Z.eqb_refl].
Qed.

Lemma filter_len_le {A} (p : A -> bool) l : length (filter p l) <= length l.
Proof. induction l as [|a t IH]; simpl; [lia|]. destruct (p a); simpl; lia. Qed.

Lemma remove_elt_In x y l : In y (remove_elt x l) <-> In y l /\ y <> x.
Proof.
  unfold remove_elt. rewrite filter_In, negb_true_iff, Nat.eqb_neq. tauto.
Qed.

Lemma canon_In l x : In x (canon l) <-> In x l.
Proof.
  induction l as [|a t IH]; simpl; [tauto|].
  rewrite filter_In, negb_true_iff, Nat.eqb_neq, IH.
  destruct (Nat.eq_dec a x); [subst; tauto|]. split; [tauto|]. intros [H|H]; [tauto|]. right. split; [assumption|congruence].
Qed.

Lemma canon_NoDup l : NoDup (canon l).
Proof.
  induction l as [|a t IH]; simpl; constructor.
  - rewrite filter_In, negb_true_iff, Nat.eqb_neq. tauto.
  - apply NoDup_filter. assumption.
Qed.

(* contract of the set-to-list conversion (CPython's iteration order is not modelled) *)
Definition setlist_ok (sl : list nat -> list nat) : Prop :=
  forall l, NoDup (sl l) /\ forall x, In x (sl l) <-> In x l.

Lemma canon_ok : setlist_ok canon.
Proof. intro l. split; [apply canon_NoDup | intro x; apply canon_In]. Qed.

Lemma card_pos l : l <> [] -> 0 < card l.
Proof. destruct l; [congruence|]. intros _. unfold card. simpl. lia. Qed.

Lemma remove_nth_In {A} k (l : list A) x : In x (remove_nth k l) -> In x l.
Proof.
  revert k. induction l as [|a t IH]; intros k H; simpl in *; [destruct k; assumption|].
  destruct k; [right; assumption|]. destruct H as [H|H]; [left; assumption | right; eapply IH; eassumption].
Qed.

Lemma remove_nth_length {A} k (l : list A) a :
  nth_error l k = Some a -> S (length (remove_nth k l)) = length l.
Proof.
  revert k. induction l as [|b t IH]; intros k H; [destruct k; discriminate|].
  destruct k; simpl in *; [reflexivity|]. f_equal. apply IH. assumption.
Qed.

(* first_max returns an element of the list, at the reported position, with a maximal key *)
Lemma first_max_from_spec {A} (f : A -> nat) l : forall i bi ba bv ri ra rv,
  first_max_from f l i bi ba bv = (ri, ra, rv) ->
  ((ri = bi /\ ra = ba /\ rv = bv) \/ (exists j, nth_error l j = Some ra /\ ri = i + j /\ rv = f ra))
  /\ bv <= rv /\ (forall b, In b l -> f b <= rv).
Proof.
  induction l as [|a t IH]; intros i bi ba bv ri ra rv H; simpl in H.
  - inversion H; subst. split; [left; auto|]. split; [lia|]. intros b [].
  - destruct (bv <? f a) eqn:C.
    + apply Nat.ltb_lt in C. apply IH in H. destruct H as [H1 [H2 H3]]. split; [|split].
      * right. destruct H1 as [[? [? ?]]|[j [? [? ?]]]]; subst.
        -- exists 0. simpl. rewrite Nat.add_0_r. auto.
        -- exists (S j). simpl. split; [assumption|]. split; [lia|reflexivity].
      * lia.
      * intros b [Hb|Hb]; [subst; assumption | apply H3; assumption].
    + apply Nat.ltb_ge in C. apply IH in H. destruct H as [H1 [H2 H3]]. split; [|split].
      * destruct H1 as [H1|[j [? [? ?]]]]; [left; assumption|]. right. exists (S j). simpl.
        split; [assumption|]. split; [lia|assumption].
      * assumption.
      * intros b [Hb|Hb]; [subst; lia | apply H3; assumption].
Qed.

Lemma first_max_spec {A} (f : A -> nat) (l : list A) i a v :
  first_max f l = Some (i, a, v) ->
  nth_error l i = Some a /\ v = f a /\ forall b, In b l -> f b <= v.
Proof.
  destruct l as [|x t]; simpl; [discriminate|]. intros H. inversion H as [H'].
  apply first_max_from_spec in H'. destruct H' as [H1 [H2 H3]].
  destruct H1 as [[? [? ?]]|[j [? [? ?]]]]; subst.
  - repeat split; auto. intros b [Hb|Hb]; [subst; lia | apply H3; assumption].
  - repeat split; auto. intros b [Hb|Hb]; [subst; assumption | apply H3; assumption].
Qed.

Lemma first_max_None {A} (f : A -> nat) (l : list A) : first_max f l = None <-> l = [].
Proof. destruct l; simpl; split; intros; congruence. Qed.

Lemma first_max_In {A} (f : A -> nat) (l : list A) i a v :
  first_max f l = Some (i, a, v) -> In a l.
Proof. intros H. apply first_max_spec in H. destruct H as [H _]. eapply nth_error_In; eassumption. Qed.

(* np.clip followed by `<= eps` is `d <= eps` for every positive eps *)
Lemma bond_of_pos D thr i j : (0 < thr)%Q -> bond_of D thr i j = true <-> (D i j <= thr)%Q.
Proof.
  intros Hpos. unfold bond_of, clipq, Qminq, Qmaxq.
  assert (Hhi : (thr < (11 # 10) * thr)%Q).
  { setoid_replace ((11 # 10) * thr)%Q with (thr + (1 # 10) * thr)%Q by ring.
    rewrite <- (Qplus_0_r thr) at 1. apply Qplus_lt_r. apply Qmult_lt_0_compat; [reflexivity | assumption]. }
  destruct (Qle_bool (D i j) 0) eqn:E1.
  - apply Qle_bool_iff in E1.
    destruct (Qle_bool 0 ((11 # 10) * thr)) eqn:E2.
    + rewrite Qle_bool_iff. split; intros _; [|apply Qlt_le_weak; assumption].
      eapply Qle_trans; [exact E1 | apply Qlt_le_weak; assumption].
    + exfalso. assert (H : (0 <= (11 # 10) * thr)%Q).
      { apply Qlt_le_weak. eapply Qlt_trans; eassumption. }
      apply Qle_bool_iff in H. congruence.
  - destruct (Qle_bool (D i j) ((11 # 10) * thr)) eqn:E2.
    + apply Qle_bool_iff.
    + rewrite Qle_bool_iff. split; intro H.
      * exfalso. apply (Qlt_irrefl thr). eapply Qlt_le_trans; eassumption.
      * exfalso. assert (H2 : (D i j <= (11 # 10) * thr)%Q).
        { eapply Qle_trans; [exact H | apply Qlt_le_weak; assumption]. }
        apply Qle_bool_iff in H2. congruence.
Qed.
