(* Proofs about the DBSCAN stand-in and _clean_clusters: the kept atoms are one bonded component
   (sound and complete reachability from Base/Graph.v), a largest one; clean only removes atoms. *)
From Coq Require Import List Arith Bool ZArith PeanoNat Lia.
Import ListNotations.
From MV Require Base.Graph.
From MV Require Import Sbc.Common Sbc.CommonProofs Sbc.Clean.

Section CleanProofs.
  Variable bond : nat -> nat -> bool.

  Notation reach := (Graph.reach bond).
  Notation comp := (Graph.component bond).

  Lemma gmem_mem x l : Graph.mem x l = mem x l.
  Proof. reflexivity. Qed.

  Lemma reach_in_V V v x : In v V -> reach V v x -> In x V.
  Proof. intros Hv H. destruct H; assumption. Qed.

  Lemma reach_trans V x y z : reach V x y -> reach V y z -> reach V x z.
  Proof. intros H1 H2. induction H2; [assumption | econstructor; eassumption]. Qed.

  Lemma root_in_comp V v : In v (comp V v).
  Proof. unfold Graph.component. apply Graph.grow_mono. left. reflexivity. Qed.

  Definition group_of (V : list nat) (v : nat) : list nat := filter (fun u => mem u (comp V v)) V.

  Lemma group_of_In V v x : In x (group_of V v) <-> In x V /\ In x (comp V v).
  Proof. unfold group_of. rewrite filter_In, mem_In. tauto. Qed.

  (* every atom of the group is reachable from the root by bonds *inside the group* *)
  Definition connected_from (S : list nat) (v : nat) : Prop :=
    In v S /\ forall x, In x S -> reach S v x.

  Lemma group_connected V v : NoDup V -> In v V -> connected_from (group_of V v) v.
  Proof.
    intros Hnd Hv. split.
    - apply group_of_In. split; [assumption | apply root_in_comp].
    - intros x Hx. apply group_of_In in Hx. destruct Hx as [_ Hx].
      apply Graph.component_sound in Hx.
      induction Hx as [|a b Hr IH Hb Hab]; [constructor|].
      econstructor; [exact IH | | exact Hab].
      apply group_of_In. split; [assumption|].
      apply Graph.component_complete; [assumption | assumption | econstructor; eassumption].
  Qed.

  (* with a symmetric bonding relation any two atoms of the group are joined inside the group *)
  Lemma connected_pairwise S v :
    (forall a b, bond a b = bond b a) -> connected_from S v ->
    forall a b, In a S -> In b S -> reach S a b.
  Proof.
    intros Hsym [Hv Hall] a b Ha Hb.
    assert (Back : forall x, reach S v x -> reach S x v).
    { intros x Hx. induction Hx as [|p q Hr IH Hq Hpq]; [constructor|].
      apply reach_trans with (y := p); [|assumption].
      apply (Graph.reach_step bond S q q p); [constructor | apply (reach_in_V S v p Hv Hr) | rewrite Hsym; assumption]. }
    apply reach_trans with (y := v); [apply Back; apply Hall; assumption | apply Hall; assumption].
  Qed.

  Lemma groups_from_spec V : forall todo seen g,
    incl todo V -> In g (groups_from bond V todo seen) -> exists v, In v V /\ g = group_of V v.
  Proof.
    induction todo as [|v t IH]; intros seen g Hincl Hg; simpl in Hg; [destruct Hg|].
    assert (Ht : incl t V) by (intros x Hx; apply Hincl; right; assumption).
    destruct (mem v seen).
    - eapply IH; eassumption.
    - destruct Hg as [<-|Hg].
      + exists v. split; [apply Hincl; left; reflexivity | reflexivity].
      + eapply IH; eassumption.
  Qed.

  Lemma dbscan_groups_spec V g : In g (dbscan_groups bond V) -> exists v, In v V /\ g = group_of V v.
  Proof. unfold dbscan_groups. apply groups_from_spec. apply incl_refl. Qed.

  Lemma dbscan_groups_nonempty V : V <> [] -> dbscan_groups bond V <> [].
  Proof. destruct V as [|v t]; [congruence|]. intros _. unfold dbscan_groups. simpl. discriminate. Qed.

  Definition same_meta (c c' : cluster) : Prop :=
    cspec c' = cspec c /\ creg c' = creg c /\ cmerged c' = cmerged c /\ cradii c' = cradii c.

  (* a cleaned cluster: same species/region/flags; its atoms are a non-empty bonded component of the
     cluster's atoms, in the original order, and a largest one *)
  Lemma clean_one_spec c c' :
    NoDup (cidx c) -> clean_one bond c = Some c' ->
    same_meta c c' /\
    (exists v, In v (cidx c) /\ cidx c' = group_of (cidx c) v /\ connected_from (cidx c') v) /\
    (forall g, In g (dbscan_groups bond (cidx c)) -> length g <= length (cidx c')).
  Proof.
    intros Hnd H. unfold clean_one in H. destruct (cidx c) as [|x t] eqn:Ec; [discriminate|]. rewrite <- Ec in *.
    destruct (first_max (@length nat) (dbscan_groups bond (cidx c))) as [[[k g] v]|] eqn:Ef; [|discriminate].
    inversion H; subst c'. clear H. simpl.
    pose proof (first_max_spec _ _ _ _ _ Ef) as [Hn [Hv Hmax]].
    assert (Hin : In g (dbscan_groups bond (cidx c))) by (eapply nth_error_In; eassumption).
    destruct (dbscan_groups_spec _ _ Hin) as [r [Hr Hg]].
    split; [unfold same_meta; simpl; auto|]. split.
    - exists r. split; [assumption|]. split; [assumption|]. rewrite Hg. apply group_connected; assumption.
    - intros g' Hg'. subst v. apply Hmax. assumption.
  Qed.

  Lemma clean_one_None c : clean_one bond c = None <-> cidx c = [].
  Proof.
    unfold clean_one. destruct (cidx c) as [|x t] eqn:E; [tauto|]. split; [|discriminate].
    destruct (first_max (@length nat) (dbscan_groups bond (x :: t))) as [[[k g] v]|] eqn:Ef; [discriminate|].
    apply first_max_None in Ef. exfalso. revert Ef. apply dbscan_groups_nonempty. discriminate.
  Qed.

  Lemma clean_In cs c' : In c' (clean bond cs) -> exists c, In c cs /\ clean_one bond c = Some c'.
  Proof.
    induction cs as [|c t IH]; simpl; [tauto|].
    destruct (clean_one bond c) as [d|] eqn:E.
    - intros [<-|H]; [exists c; auto|]. destruct (IH H) as [c0 [? ?]]. exists c0. auto.
    - intros H. destruct (IH H) as [c0 [? ?]]. exists c0. auto.
  Qed.

  (* pairwise relations that are inherited by sub-clusters survive clean *)
  Lemma clean_pairs (R : cluster -> cluster -> Prop) cs :
    (forall a b a' b', R a b -> clean_one bond a = Some a' -> clean_one bond b = Some b' -> R a' b') ->
    ForallOrdPairs R cs -> ForallOrdPairs R (clean bond cs).
  Proof.
    intros HR H. induction H as [|c t Hc Ht IH]; simpl; [constructor|].
    destruct (clean_one bond c) as [c'|] eqn:E; [|assumption].
    constructor; [|assumption].
    apply Forall_forall. intros d' Hd'. apply clean_In in Hd'. destruct Hd' as [d [Hd Ed]].
    rewrite Forall_forall in Hc. eapply HR; [apply Hc; exact Hd | exact E | exact Ed].
  Qed.
End CleanProofs.
