(* SBC model -- the strong finder contract F1 (DESIGN.md section 4) and what C02 / C03 need around it.
   Definitions and executable examples only; the conditional theorems are in ConditionalProofs.v.

   The atoms 0..n-1 are partitioned into *crystallites* by [cls : nat -> nat] (C02: one class; C03:
   the two slabs).  The periodic finder is an oracle ([finder k s] = answer of the k-th call, seed s);
   its interior (span metric, basis choice, prototype-cell population, breadth-first tracking) is NOT
   modelled.  F1 says what a *successful* search returns on a member of the crystal family:

     - the search mask contains the seed and only atoms of the seed's crystallite
       (periodicfinder.py:_find_possible_bases: same element as the seed and closer than max_cell_size);
     - if a region is returned, seed + basis indices are exactly the seed's crystallite, and the region's
       cell has two or three periodic axes (F0);
     - [F1] additionally: every call returns a region.
   [F1_weak] drops the last clause (a call may return None).  The for-all claim of C02/C03 is exactly
   "the real finder satisfies F1 (or F1_weak with at least one productive call per crystallite) on every
   member of the family" -- that is validated by the conformance runs, not proved. *)
From Coq Require Import List Arith Bool ZArith QArith PeanoNat.
Import ListNotations.
From MV Require Base.Graph.
From MV Require Import Base.ZV3 Geometry.Extend Geometry.CellList Geometry.Matches.
From MV Require Import Sbc.Common Sbc.Driver Sbc.Merge Sbc.Localize Sbc.Clean Sbc.Pipeline.
Local Open Scope nat_scope.

Section Contract.
  Variable n : nat.
  Variable cls : nat -> nat.
  Variable finder : nat -> nat -> option region * (nat -> bool).

  Definition in_class (s i : nat) : Prop := i < n /\ cls i = cls s.
  (* the index list l enumerates exactly the crystallite of atom s *)
  Definition whole_class (s : nat) (l : list nat) : Prop := forall i, In i l <-> in_class s i.

  Definition F1_weak : Prop :=
    forall k s, s < n ->
      snd (finder k s) s = true /\
      (forall i, i < n -> snd (finder k s) i = true -> cls i = cls s) /\
      match fst (finder k s) with
      | None => True
      | Some r => whole_class s (s :: rbasis r) /\
                  (count_true (rper r) = 2 \/ count_true (rper r) = 3)
      end.

  Definition always_productive : Prop := forall k s, s < n -> fst (finder k s) <> None.

  Definition F1 : Prop := F1_weak /\ always_productive.

  (* the crystallite of s as a list, and "bonded crystallites": inside its crystallite every atom is
     reached from every other by bonds between atoms of the crystallite *)
  Definition class_list (s : nat) : list nat := filter (fun i => cls i =? cls s) (seq 0 n).
  Definition classes_bonded (bond : nat -> nat -> bool) : Prop :=
    forall s x, s < n -> x < n -> cls x = cls s -> Graph.reach bond (class_list s) s x.

  (* what the conditional theorems say about a cluster of the output *)
  Definition is_crystallite (c : cluster) : Prop :=
    (exists s, s < n /\ whole_class s (cidx c)) /\ NoDup (cidx c) /\ cmerged c = false /\ cradii c = true.
  Definition distinct_class (a b : cluster) : Prop :=
    forall x y, In x (cidx a) -> In y (cidx b) -> cls x <> cls y.
  Definition covered (indices : list nat) (cs : list cluster) : Prop :=
    forall i, i < n -> In i indices \/ exists c, In c cs /\ In i (cidx c).
End Contract.

(* ---- species-strict matching (C03): the atoms a region collects are the [Match] results of
        matid.geometry.get_matches on the positions of the prototype cell (periodicfinder.py:
        _find_region_rec -> LinkedUnit.basis_indices); substitutions and vacancies are never members *)
Definition matched_index (m : mres) : option nat :=
  match m with Match j _ => Some j | Subst _ _ _ _ => None | Vacancy _ => None end.
Fixpoint matched_indices (ms : list mres) : list nat :=
  match ms with
  | [] => []
  | m :: t => match matched_index m with Some j => j :: matched_indices t | None => matched_indices t end
  end.

(* one tracked unit cell: the probes (position, wanted atomic number) and, per probe, the rows the cell
   list reported (any rows: the lemma does not depend on what the neighbour search returns) *)
Definition unit_matches (a b c : v3) (nums : list Z) (tol : Z) (probes : list (v3 * Z * list nrow)) : list mres :=
  map (fun p => match_one a b c nums tol (snd p) (fst (fst p)) (snd (fst p))) probes.
Definition region_basis (a b c : v3) (nums : list Z) (tol : Z) (units : list (list (v3 * Z * list nrow))) : list nat :=
  flat_map (fun u => matched_indices (unit_matches a b c nums tol u)) units.

(* ---- executable examples (non-vacuity of the hypotheses) ------------------------------------- *)
(* C03: six atoms, 0-2 copper, 3-5 nickel; bonds 0-1-2, 3-4-5 and the interface bond 2-3 *)
Definition x3_n := 6.
Definition x3_Z (i : nat) : Z := if i <? 3 then 29%Z else 28%Z.
Definition x3_cls (i : nat) : nat := if i <? 3 then 0 else 1.
Definition x3_rA := mkRegion 0 [0; 1; 2] [true; true; false].
Definition x3_rB := mkRegion 1 [5; 4; 3] [true; true; true].
Definition x3_finder (k s : nat) : option region * (nat -> bool) :=
  if s <? 3 then (Some x3_rA, fun i => (i =? s) || (i =? 1)) else (Some x3_rB, fun i => (i =? s) || (i =? 4)).
Definition x3_choose (k : nat) (l : list nat) : nat := last l 0.
Definition x3_bond (i j : nat) : bool := (i =? j) || (i =? S j) || (j =? S i).
Definition x3_near (i j : nat) : bool := true.

(* C02: four atoms, one crystallite, bonds along the chain 0-1-2-3 *)
Definition x2_n := 4.
Definition x2_Z (i : nat) : Z := 14%Z.
Definition x2_cls (i : nat) : nat := 0.
Definition x2_r := mkRegion 0 [3; 0; 1; 2] [true; true; true].
Definition x2_finder (k s : nat) : option region * (nat -> bool) := (Some x2_r, fun i => (i =? s) || (i =? 0)).
(* weak contract: the first call finds nothing *)
Definition x2_finder_weak (k s : nat) : option region * (nat -> bool) :=
  if k =? 0 then (None, fun i => i =? s) else (Some x2_r, fun i => (i =? s) || (i =? 0)).

Definition show_idx (r : res (list cluster)) : option (list (list nat)) :=
  match r with Ok l => Some (map cidx l) | _ => None end.
