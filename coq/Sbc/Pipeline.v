(* SBC model -- the whole of SBC.get_clusters after the front end:
   driver loop -> _merge_clusters -> _localize_clusters -> _clean_clusters,
   and the agreement relations used by the correspondence check (harness/props/c01.py). *)
From Coq Require Import List Arith Bool ZArith QArith PeanoNat.
Import ListNotations.
Local Open Scope nat_scope.
From MV Require Base.Graph.
From MV Require Import Sbc.Common Sbc.Driver Sbc.Merge Sbc.Localize Sbc.Clean.

Section Pipeline.
  Variable setlist : list nat -> list nat.
  Variable n : nat.
  Variable Znum : nat -> Z.
  Variable finder : nat -> nat -> option region * (nat -> bool).
  Variable choose : nat -> list nat -> nat.
  Variable merge_threshold : Q.
  Variable near : nat -> nat -> bool.
  Variable bond : nat -> nat -> bool.

  Definition bind {A B} (r : res A) (f : A -> res B) : res B :=
    match r with Ok a => f a | OutOfFuel => OutOfFuel | PyError => PyError end.

  (* the four stage snapshots: clusters after the driver, after merge, after localize, after clean *)
  Record stages := mkStages {
    st_calls : nat;
    st_drive : list cluster;
    st_merge : list cluster;
    st_local : list cluster;
    st_clean : list cluster
  }.

  Definition run_stages : res stages :=
    bind (run_driver setlist Znum finder choose n) (fun dk =>
    bind (merge_clusters setlist Znum merge_threshold (fst dk)) (fun m =>
    bind (localize setlist n near m) (fun l =>
    Ok (mkStages (snd dk) (fst dk) m l (clean bond l))))).

  Definition sbc : res (list cluster) :=
    match run_stages with Ok s => Ok (st_clean s) | OutOfFuel => OutOfFuel | PyError => PyError end.
End Pipeline.

(* ------------------------------------------------------------------------------------------
   Correspondence: what the harness observed on the implementation, and the agreement relation.
   ------------------------------------------------------------------------------------------ *)
Record obs_cluster := mkObs {
  o_idx : list nat; o_spec : list Z; o_rid : nat; o_merged : bool; o_radii : bool
}.

(* [with_radii]: also compare whether the cluster carries the clustering radii (C13; C01 does not
   depend on it) *)
Definition agree_cluster (with_radii : bool) (c : cluster) (o : obs_cluster) : bool :=
  seteq_b (cidx c) (o_idx o) && (length (o_idx o) =? card (o_idx o))
  && seteqZ_b (cspec c) (o_spec o) && (rid (creg c) =? o_rid o)
  && Bool.eqb (cmerged c) (o_merged o) && (negb with_radii || Bool.eqb (cradii c) (o_radii o)).

Fixpoint all2 {A B} (f : A -> B -> bool) (a : list A) (b : list B) : bool :=
  match a, b with
  | [], [] => true
  | x :: a', y :: b' => f x y && all2 f a' b'
  | _, _ => false
  end.

(* clean: the implementation must keep *a* largest bonded component of the cluster it cleaned
   (which one, among equally large ones, depends on CPython's set iteration order) *)
Definition is_largest_group (with_radii : bool) (bond : nat -> nat -> bool) (c : cluster) (o : obs_cluster) : bool :=
  let gs := dbscan_groups bond (cidx c) in
  let mx := fold_right Nat.max 0 (map (@length nat) gs) in
  existsb (fun g => seteq_b g (o_idx o) && (length g =? mx)) gs
  && (length (o_idx o) =? card (o_idx o))
  && seteqZ_b (cspec c) (o_spec o) && (rid (creg c) =? o_rid o)
  && Bool.eqb (cmerged c) (o_merged o) && (negb with_radii || Bool.eqb (cradii c) (o_radii o)).

Definition agree_clean (with_radii : bool) (bond : nat -> nat -> bool) (pre : list cluster) (o : list obs_cluster) : bool :=
  all2 (is_largest_group with_radii bond) (filter (fun c => negb (Nat.eqb (length (cidx c)) 0)) pre) o.

(* script of a finder: one answer per seed atom (region option, list of masked atoms) *)
Definition script_finder (regions : list region) (script : list (option nat * list nat))
  : nat -> nat -> option region * (nat -> bool) :=
  fun _ s =>
    match nth_error script s with
    | None => (None, fun _ => false)
    | Some (r, m) =>
        (match r with None => None | Some k => nth_error regions k end, fun i => mem i m)
    end.

(* log of a finder: one answer per call *)
Definition log_finder (log : list (nat * option region * list nat))
  : nat -> nat -> option region * (nat -> bool) :=
  fun k s =>
    match nth_error log k with
    | None => (None, fun _ => false)
    | Some (s', r, m) => if s =? s' then (r, fun i => mem i m) else (None, fun _ => false)
    end.

(* the recorded draws; a draw outside the recorded list, or of a non-member, yields the sentinel
   [length seeds + n] which is never an atom, and the run then disagrees *)
Definition log_choose (n : nat) (seeds : list nat) : nat -> list nat -> nat :=
  fun k l => match nth_error seeds k with
             | Some s => if mem s l then s else n
             | None => n
             end.

Definition agree_run (with_radii : bool) (n : nat) (Znums : list Z)
           (finder : nat -> nat -> option region * (nat -> bool)) (seeds : list nat)
           (merge_threshold : Q) (near bond : nat -> nat -> bool)
           (od om ol oc : list obs_cluster) : bool :=
  match run_stages canon n (fun i => nth i Znums 0%Z) finder (log_choose n seeds)
                   merge_threshold near bond with
  | Ok s =>
      (st_calls s =? length seeds)
      && all2 (agree_cluster with_radii) (st_drive s) od
      && all2 (agree_cluster with_radii) (st_merge s) om
      && all2 (agree_cluster with_radii) (st_local s) ol
      && agree_clean with_radii bond (st_local s) oc
  | _ => false
  end.

(* F0 on a log / script: basis in range, mask[seed], 2 or 3 periodic axes *)
Definition f0_log (n : nat) (log : list (nat * option region * list nat)) : bool :=
  forallb (fun e => match e with (s, r, m) =>
     mem s m && forallb (fun i => i <? n) m &&
     match r with None => true | Some r => region_ok n r end end) log.
