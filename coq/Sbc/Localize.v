(* SBC model -- SBC._localize_clusters (matid/clustering/sbc.py).  Executable definitions only. *)
From Coq Require Import List Arith Bool ZArith PeanoNat.
Import ListNotations.
From MV Require Import Sbc.Common.

Section Localize.
  Variable setlist : list nat -> list nat.
  Variable n : nat.                               (* len(system) *)
  Variable near : nat -> nat -> bool.             (* dist_matrix_radii_mic[i, j] < merge_radius *)

  Definition indexed (cs : list cluster) : list (nat * cluster) := combine (seq 0 (length cs)) cs.

  (* overlap_map[i] = [cluster for cluster in clusters if i in cluster.indices]  -- computed once,
     before any cluster is modified; clusters are identified by their position in the list
     (the Python code compares objects by identity: `cluster != max_cluster`). *)
  Definition positions_of (i : nat) (cs : list cluster) : list nat :=
    map fst (filter (fun kc => mem i (cidx (snd kc))) (indexed cs)).
  Definition overlap_map (cs : list cluster) : list (nat * list nat) :=
    map (fun i => (i, positions_of i cs)) (seq 0 n).

  (* max_near = 0; max_cluster = i_clusters[0]
     for cluster in i_clusters:
         n_near = len(set(cluster.indices) & surrounding_indices)
         if n_near > max_near: max_near = n_near; max_cluster = cluster *)
  Fixpoint pick (surround : list nat) (cs : list cluster) (ks : list nat) (mx bk : nat) : nat :=
    match ks with
    | [] => bk
    | k :: t =>
        match nth_error cs k with
        | None => pick surround cs t mx bk
        | Some c =>
            let nn := inter_card (cidx c) surround in
            if mx <? nn then pick surround cs t nn k else pick surround cs t mx bk
        end
    end.

  (* for cluster in i_clusters:
         ind_set = set(cluster.indices)
         if cluster != max_cluster: ind_set.remove(i)       # KeyError when absent
         cluster.indices = list(ind_set) *)
  Definition loc_step (i : nat) (ks : list nat) (cs : list cluster) : res (list cluster) :=
    match ks with
    | k0 :: _ :: _ =>
        let surround := filter (near i) (seq 0 n) in
        let bk := pick surround cs ks 0 k0 in
        if forallb (fun k => (k =? bk) ||
                             match nth_error cs k with Some c => mem i (cidx c) | None => false end) ks
        then Ok (map (fun kc =>
                        let k := fst kc in
                        let c := snd kc in
                        if mem k ks
                        then (if k =? bk then set_idx c (setlist (cidx c))
                              else set_idx c (setlist (remove_elt i (cidx c))))
                        else c) (indexed cs))
        else PyError
    | _ => Ok cs
    end.

  Fixpoint loc_loop (items : list (nat * list nat)) (cs : list cluster) : res (list cluster) :=
    match items with
    | [] => Ok cs
    | (i, ks) :: t =>
        match loc_step i ks cs with
        | Ok cs' => loc_loop t cs'
        | OutOfFuel => OutOfFuel
        | PyError => PyError
        end
    end.

  Definition localize (cs : list cluster) : res (list cluster) := loc_loop (overlap_map cs) cs.
End Localize.
