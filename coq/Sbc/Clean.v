(* SBC model -- SBC._clean_clusters and the DBSCAN stand-in (matid.geometry.get_clusters with
   min_samples=1).  Executable definitions only. *)
From Coq Require Import List Arith Bool ZArith PeanoNat.
Import ListNotations.
From MV Require Base.Graph.
From MV Require Import Sbc.Common.

Section Clean.
  Variable bond : nat -> nat -> bool.     (* clip(D[i,j], 0, 1.1*eps) <= eps *)

  (* matid.geometry.get_clusters(dist_matrix, eps, min_samples=1):
     with min_samples=1 every sample is a core sample, so there is no noise and DBSCAN's labels are
     the connected components of the graph `d <= eps`, numbered in the order in which their first
     member appears; `cluster_groups` lists them in label order, each group in ascending position.
     [V] is the index list of the cluster (positions of the sub-matrix in that order). *)
  Fixpoint groups_from (V todo seen : list nat) : list (list nat) :=
    match todo with
    | [] => []
    | v :: t =>
        if mem v seen then groups_from V t seen
        else let c := Graph.component bond V v in
             filter (fun u => mem u c) V :: groups_from V t (seen ++ c)
    end.
  Definition dbscan_groups (V : list nat) : list (list nat) := groups_from V V [].

  (* try: dbscan_clusters = get_clusters(cluster._get_distance_matrix_radii_mic(), eps, 1)
     except Exception: continue                  # an empty cluster makes DBSCAN raise: it is dropped
     largest_indices = max(dbscan_clusters, key=len)              # first longest
     cluster.indices = np.array(cluster.indices)[largest_indices].tolist() *)
  Definition clean_one (c : cluster) : option cluster :=
    match cidx c with
    | [] => None
    | _ :: _ =>
        match first_max (@length nat) (dbscan_groups (cidx c)) with
        | None => None
        | Some (_, g, _) => Some (set_idx c g)
        end
    end.

  Fixpoint clean (cs : list cluster) : list cluster :=
    match cs with
    | [] => []
    | c :: t => match clean_one c with Some c' => c' :: clean t | None => clean t end
    end.
End Clean.
