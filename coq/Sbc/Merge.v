(* SBC model -- SBC._merge_clusters (matid/clustering/sbc.py).  Executable definitions only. *)
From Coq Require Import List Arith Bool ZArith QArith PeanoNat.
Import ListNotations.
Local Open Scope nat_scope.
From MV Require Import Sbc.Common.

Section Merge.
  Variable setlist : list nat -> list nat.
  Variable Znum : nat -> Z.
  Variable merge_threshold : Q.

  (* def merge(system, a, b):
         if len(a.indices) > len(b.indices): target, source = a, b   else: target, source = b, a
         common = set(filter(lambda x: atomic_numbers[x] in target.species, source.indices))
         final_indices = set(target.indices).union(common)
         sorted_regions = sorted([a._region, b._region], key=len(basis indices))   # stable
         largest_region = sorted_regions[-1]
         return Cluster(final_indices, target.species, largest_region, ..., radii=target._radii)
     and the caller sets merged._merged = True.
     (`radii=target._radii` is the C13 repair; the unpatched code builds merged clusters without radii.) *)
  Definition merge2 (a b : cluster) : cluster :=
    let ts := if length (cidx b) <? length (cidx a) then (a, b) else (b, a) in
    let t := fst ts in
    let s := snd ts in
    let common := filter (fun x => memZ (Znum x) (cspec t)) (cidx s) in
    let final := setlist (cidx t ++ common) in
    let reg := if card (rbasis (creg a)) <=? card (rbasis (creg b)) then creg b else creg a in
    mkCluster final (cspec t) reg true (cradii t).

  (* best_overlap_score = max(best/len(i_indices), best/len(target.indices)) > merge_threshold;
     a zero length is a ZeroDivisionError *)
  Definition score (best li lt : nat) : option Q :=
    match li, lt with
    | 0, _ => None
    | _, 0 => None
    | _, _ => Some (Qmaxq (inject_Z (Z.of_nat best) / inject_Z (Z.of_nat li))%Q
                          (inject_Z (Z.of_nat best) / inject_Z (Z.of_nat lt))%Q)
    end.

  (* isolated = []
     while True:
         if len(clusters) == 0 or clusters[0]._merged: break
         i_cluster = clusters.pop(0); i_indices = set(i_cluster.indices); isolated_flag = True
         if len(clusters):
             overlaps = [(j, len(i_indices & set(c_j.indices))) ...]; sort by overlap, reverse, stable
             best_grain, best_overlap = overlaps[0]; target = clusters[best_grain]
             if score > merge_threshold:
                 merged = merge(i_cluster, target); merged._merged = True
                 clusters.pop(best_grain); clusters.append(merged); isolated_flag = False
         if isolated_flag: isolated.append(i_cluster)
     return isolated + clusters *)
  Fixpoint merge_loop (fuel : nat) (cs iso : list cluster) : res (list cluster) :=
    match cs with
    | [] => Ok (iso ++ [])
    | c :: rest =>
        if cmerged c then Ok (iso ++ cs)
        else
          match fuel with
          | 0 => OutOfFuel
          | S f =>
              match first_max (fun j => inter_card (cidx c) (cidx j)) rest with
              | None => merge_loop f rest (iso ++ [c])
              | Some (bj, t, best) =>
                  match score best (card (cidx c)) (length (cidx t)) with
                  | None => PyError
                  | Some sc =>
                      if Qlt_b merge_threshold sc
                      then merge_loop f (remove_nth bj rest ++ [merge2 c t]) iso
                      else merge_loop f rest (iso ++ [c])
                  end
              end
          end
    end.

  Definition merge_clusters (cs : list cluster) : res (list cluster) :=
    merge_loop (length cs) cs [].
End Merge.
