(* C01 o C10 -- the bonding relation the SBC pipeline clusters with IS the bonding criterion of the property.

   C01's connectivity theorems hold for every symmetric boolean relation [bond]; C10's theorem says what the
   displacement table contains.  This file composes them: the relation read off the minimum-image table

       table_bond i j  =  (the table has a finite entry for (i, j)  and  d(i,j) - r_i - r_j <= thr)

   coincides, for atoms inside the cell, with the criterion of the property statement of C01

       true_bonded i j  =  SOME periodic image of j lies within  thr + r_i + r_j  of i      (minimum-image distance
                                                                                            minus radii <= threshold)

   whenever the bonding range thr + r_i + r_j does not exceed the longest periodic cell vector (the range within
   which an unbounded-cutoff table is exact, C10 clause 4; SBC works on the wrapped copy, so atoms are inside the
   cell).  Distances are compared through their squares (no square roots): for a non-negative range B,
   d - r_i - r_j <= thr  iff  d^2 <= B^2.  Positions are grid integers, radii and threshold rationals in grid units. *)
From Coq Require Import ZArith QArith List Bool Lia.
From MV Require Import Base.ZV3 Base.Graph Geometry.Extend Geometry.CellList Geometry.CellListProofs
     Geometry.DispTensor Geometry.DispTensorProofs.
Import ListNotations.

Section Bond.
  Variables (p : Q) (a b c : v3) (pbc : pbc3) (pos : list v3) (rad : nat -> Q) (thr : Q).
  Hypothesis Hp : (0 < p)%Q.
  Hypothesis Hvol : vol a b c <> 0%Z.
  Hypothesis Hin : forall r, In r pos -> in_cell a b c pbc r.

  Let T := disp_tensor p a b c pbc Inf pos.
  Let n := length pos.

  (* bonding range of a pair, grid units *)
  Definition range_of (i j : nat) : Q := thr + rad i + rad j.

  Definition img (i j : nat) (f : v3) : v3 := sub (sub (nth i pos zero3) (nth j pos zero3)) (latv a b c f).

  (* the criterion of the property: some admissible periodic image within the bonding range *)
  Definition true_bonded (i j : nat) : Prop :=
    (0 <= range_of i j)%Q /\
    exists f, admissible pbc f /\ (inject_Z (norm2 (img i j f)) <= range_of i j * range_of i j)%Q.

  (* what the pipeline computes from the table *)
  Definition table_bond (i j : nat) : bool :=
    match T i j with
    | Some e => Qle_bool 0 (range_of i j) && Qle_bool (inject_Z (t_d2 e)) (range_of i j * range_of i j)
    | None => false
    end.

  (* the range condition: the pair's bonding range is within the longest periodic cell vector *)
  Definition in_exact_range (i j : nat) : Prop :=
    (range_of i j * range_of i j <= inject_Z (longest2 a b c pbc))%Q.

  Lemma spec i j : (i < n)%nat -> (j < n)%nat ->
    (forall e, T i j = Some e ->
       t_disp e = img i j (t_fac e) /\ admissible pbc (t_fac e) /\ t_d2 e = norm2 (t_disp e)) /\
    T i i = Some zero_entry /\
    (i <> j -> T j i = option_map neg_entry (T i j)) /\
    (i <> j -> forall f, admissible pbc f -> (norm2 (img i j f) <= longest2 a b c pbc)%Z ->
       exists e, T i j = Some e /\ forall f', admissible pbc f' -> (t_d2 e <= norm2 (img i j f'))%Z).
  Proof.
    intros Hi Hj.
    pose proof (disp_tensor_spec p a b c pbc Inf pos Hp Hvol I Hin i j Hi Hj) as (K1 & K2 & K3 & _ & K5 & _).
    split; [exact K1|]. split; [exact K2|]. split; [exact K3|]. exact K5.
  Qed.

  Theorem table_bond_sound i j : (i < n)%nat -> (j < n)%nat -> table_bond i j = true -> true_bonded i j.
  Proof.
    intros Hi Hj. unfold table_bond. destruct (T i j) as [e|] eqn:E; [|discriminate].
    intro H. apply andb_prop in H. destruct H as [H0 H1].
    apply Qle_bool_iff in H0. apply Qle_bool_iff in H1.
    destruct (spec i j Hi Hj) as (K1 & _). destruct (K1 e E) as (D & A & M).
    split; [exact H0|]. exists (t_fac e). split; [exact A|]. rewrite <- D, <- M. exact H1.
  Qed.

  Theorem table_bond_complete i j : (i < n)%nat -> (j < n)%nat -> in_exact_range i j ->
    true_bonded i j -> table_bond i j = true.
  Proof.
    intros Hi Hj Hr (H0 & f & Af & Hf). unfold table_bond.
    destruct (Nat.eq_dec i j) as [->|Hne].
    - destruct (spec j j Hj Hj) as (_ & K2 & _). fold T in K2. rewrite K2. cbn [t_d2 zero_entry].
      apply andb_true_intro. split; apply Qle_bool_iff; [exact H0|].
      change (inject_Z 0) with 0%Q. apply Qmult_le_0_compat; exact H0.
    - destruct (spec i j Hi Hj) as (_ & _ & _ & K5).
      assert (Hz : (norm2 (img i j f) <= longest2 a b c pbc)%Z).
      { apply Qle_trans with (z := inject_Z (longest2 a b c pbc)) in Hf; [|exact Hr].
        rewrite <- Zle_Qle in Hf. exact Hf. }
      destruct (K5 Hne f Af Hz) as (e & E & Hmin). fold T in E. rewrite E.
      apply andb_true_intro. split; apply Qle_bool_iff; [exact H0|].
      apply Qle_trans with (y := inject_Z (norm2 (img i j f))); [|exact Hf].
      rewrite <- Zle_Qle. apply Hmin. exact Af.
  Qed.

  Corollary table_bond_iff i j : (i < n)%nat -> (j < n)%nat -> in_exact_range i j ->
    (table_bond i j = true <-> true_bonded i j).
  Proof. intros Hi Hj Hr. split; [apply table_bond_sound | apply table_bond_complete]; assumption. Qed.

  (* the relation handed to the pipeline: defined on all naturals, false outside the structure *)
  Definition bond (x y : nat) : bool := (x <? n)%nat && (y <? n)%nat && table_bond x y.

  Lemma Qle_bool_ext u v u' v' : (u == u')%Q -> (v == v')%Q -> Qle_bool u v = Qle_bool u' v'.
  Proof.
    intros Eu Ev. destruct (Qle_bool u v) eqn:E1, (Qle_bool u' v') eqn:E2; try reflexivity.
    - apply Qle_bool_iff in E1. rewrite Eu, Ev in E1. apply Qle_bool_iff in E1. congruence.
    - apply Qle_bool_iff in E2. rewrite <- Eu, <- Ev in E2. apply Qle_bool_iff in E2. congruence.
  Qed.

  Lemma range_sym i j : (range_of i j == range_of j i)%Q.
  Proof. unfold range_of. ring. Qed.

  Theorem bond_sym x y : bond x y = bond y x.
  Proof.
    unfold bond. destruct (x <? n)%nat eqn:Hx, (y <? n)%nat eqn:Hy; cbn [andb]; try reflexivity.
    apply Nat.ltb_lt in Hx. apply Nat.ltb_lt in Hy.
    destruct (Nat.eq_dec x y) as [->|Hne]; [reflexivity|].
    destruct (spec x y Hx Hy) as (_ & _ & K3 & _). specialize (K3 Hne).
    unfold table_bond. fold T in K3. rewrite K3.
    destruct (T x y) as [e|]; cbn [option_map]; [|reflexivity].
    cbn [t_d2 neg_entry].
    rewrite (Qle_bool_ext 0 (range_of x y) 0 (range_of y x) (Qeq_refl 0) (range_sym x y)).
    rewrite (Qle_bool_ext (inject_Z (t_d2 e)) (range_of x y * range_of x y) (inject_Z (t_d2 e)) (range_of y x * range_of y x)
               (Qeq_refl _)); [reflexivity|].
    rewrite (range_sym x y). reflexivity.
  Qed.

  Theorem bond_true_bonded x y : bond x y = true -> (x < n)%nat /\ (y < n)%nat /\ true_bonded x y.
  Proof.
    unfold bond. intro H. apply andb_prop in H. destruct H as [H Hb]. apply andb_prop in H. destruct H as [Hx Hy].
    apply Nat.ltb_lt in Hx. apply Nat.ltb_lt in Hy. split; [exact Hx|]. split; [exact Hy|].
    apply table_bond_sound; assumption.
  Qed.

  (* every step of a chain of [bond] edges is a pair bonded under the property's own criterion *)
  Definition true_chain (l : list nat) (u v : nat) : Prop :=
    Graph.reach (fun x y => bond x y) l u v.
End Bond.

(* non-vacuity: a sheared 2D-periodic cell (grid units), three atoms inside; radii 1, threshold 2 *)
Example table_bond_example :
  let a := mk3 8 0 0 in let b := mk3 3 6 0 in let c := mk3 0 0 10 in
  let pbc := mkP true true false in
  let pos := [mk3 1 1 1; mk3 9 5 2; mk3 7 1 8] in
  let rad := fun _ : nat => 1%Q in
  vol a b c <> 0%Z /\
  bond (1 # 10000) a b c pbc pos rad 2 1 0 = true /\
  bond (1 # 10000) a b c pbc pos rad 2 2 0 = false /\
  in_exact_range a b c pbc rad 2 1 0.
Proof.
  cbv zeta. split; [vm_compute; discriminate|].
  split; [vm_compute; reflexivity|]. split; [vm_compute; reflexivity|].
  unfold in_exact_range, range_of. vm_compute. discriminate.
Qed.

Print Assumptions table_bond_iff.
Print Assumptions bond_sym.
