(* SBC model -- the front end of SBC.get_clusters and the region-search driver loop
   (matid/clustering/sbc.py).  Executable definitions only; proofs in DriverProofs.v. *)
From Coq Require Import List Arith Bool ZArith PeanoNat.
Import ListNotations.
From MV Require Import Sbc.Common.

(* ---- front end: zero-vector test, completion flag, axes examined by the rescaling step.
        for i in range(3):
            if not basis[i, :].any():
                if not pbc[i]: requires_completion = True
                else: raise ValueError(...)
        if requires_completion: set_cell(complete_cell(basis))
        if not all(pbc): ... for i in range(3): if not pbc[i]: (rescale axis i when atoms stick out) *)
Inductive front_end_result :=
| FeValueError
| FeOk (requires_completion : bool) (rescale_candidates : list nat).

Fixpoint fe_scan (axes : list (bool * bool)) (completion : bool) : option bool :=
  match axes with
  | [] => Some completion
  | (zero, pbc) :: t =>
      if zero then (if negb pbc then fe_scan t true else None)
      else fe_scan t completion
  end.

Definition front_end (zero pbc : list bool) : front_end_result :=
  match fe_scan (combine zero pbc) false with
  | None => FeValueError
  | Some completion =>
      FeOk completion
           (if forallb (fun b => b) pbc then []
            else map fst (filter (fun ip => negb (snd ip)) (combine (seq 0 (length pbc)) pbc)))
  end.

(* ---- the driver loop.
        indices = set(range(n)); clusters = []
        while len(indices) != 0:
            i_seed = rng.choice(list(indices), 1)[0]
            i_grain, mask = finder.get_region(system, seed_index=i_seed, ..., return_mask=True)
            indices -= set(np.arange(len(mask))[mask])
            if i_grain is not None:
                i_indices = {i_seed}; i_indices.update(i_grain.get_basis_indices())
                i_species = set(atomic_numbers[list(i_indices)])
                clusters.append(Cluster(i_indices, i_species, i_grain, ..., radii=radii, ...))
                indices -= i_indices
   [finder k s] is the answer of the k-th call (seed s): any stateful engine is such a function
   along a run.  [choose k l] is the k-th draw of the generator from the list l. *)
Section Driver.
  Variable setlist : list nat -> list nat.
  Variable Znum : nat -> Z.                       (* atomic_numbers *)
  Variable finder : nat -> nat -> option region * (nat -> bool).
  Variable choose : nat -> list nat -> nat.

  Definition new_cluster (s : nat) (r : region) : cluster :=
    let ii := setlist (s :: rbasis r) in
    mkCluster ii (map Znum ii) r false true.

  Fixpoint drive (fuel k : nat) (indices : list nat) (acc : list cluster)
    : res (list cluster * nat) :=
    match indices with
    | [] => Ok (acc, k)
    | _ :: _ =>
        match fuel with
        | 0 => OutOfFuel
        | S f =>
            let s := choose k indices in
            let '(g, mask) := finder k s in
            let ind1 := filter (fun i => negb (mask i)) indices in
            match g with
            | None => drive f (S k) ind1 acc
            | Some r =>
                let c := new_cluster s r in
                drive f (S k) (filter (fun i => negb (mem i (cidx c))) ind1) (acc ++ [c])
            end
        end
    end.

  Definition run_driver (n : nat) : res (list cluster * nat) := drive n 0 (seq 0 n) [].
End Driver.
