(* Conditional theorems for C02 / C03: IF the finder satisfies the strong contract F1 on this input,
   THEN the modelled pipeline (driver -> merge -> localize -> clean) returns exactly one cluster per
   crystallite, each containing exactly the atoms of its crystallite -- for every choice sequence,
   every set-to-list order, every distance data.  The contract itself is an assumption here. *)
From Coq Require Import List Arith Bool ZArith QArith PeanoNat Lia.
Import ListNotations.
From MV Require Base.Graph.
From MV Require Import Base.ZV3 Geometry.Extend Geometry.CellList Geometry.Matches.
From MV Require Import Sbc.Common Sbc.CommonProofs Sbc.Driver Sbc.DriverProofs Sbc.Merge Sbc.MergeProofs
     Sbc.Localize Sbc.LocalizeProofs Sbc.Clean Sbc.CleanProofs Sbc.Pipeline Sbc.PipelineProofs
     Sbc.ClusterCache Sbc.ClusterCacheProofs Sbc.Conditional.
Local Open Scope nat_scope.

(* ---------------------------------------------------------------- list plumbing *)
Lemma filter_nil {A} (p : A -> bool) l : (forall x, In x l -> p x = false) -> filter p l = [].
Proof.
  induction l as [|a t IH]; intros H; simpl; [reflexivity|].
  rewrite (H a (or_introl eq_refl)). apply IH. intros x Hx. apply H. right. assumption.
Qed.

Lemma filter_all {A} (p : A -> bool) l : (forall x, In x l -> p x = true) -> filter p l = l.
Proof.
  induction l as [|a t IH]; intros H; simpl; [reflexivity|].
  rewrite (H a (or_introl eq_refl)). f_equal. apply IH. intros x Hx. apply H. right. assumption.
Qed.

Lemma FOP_app_single {A} (R : A -> A -> Prop) l c :
  ForallOrdPairs R l -> Forall (fun a => R a c) l -> ForallOrdPairs R (l ++ [c]).
Proof.
  induction 1 as [|a t Ha Ht IH]; intros Hc; simpl.
  - constructor; [constructor | constructor].
  - inversion Hc as [|? ? Hac Htc]; subst. constructor.
    + apply Forall_app. split; [assumption | constructor; [assumption | constructor]].
    + apply IH. assumption.
Qed.

Lemma FOP_nth_lt {A} (R : A -> A -> Prop) l : ForallOrdPairs R l ->
  forall k1 k2 a b, nth_error l k1 = Some a -> nth_error l k2 = Some b -> k1 < k2 -> R a b.
Proof.
  induction 1 as [|x t Hx Ht IH]; intros k1 k2 a b H1 H2 Hlt; [destruct k1; discriminate|].
  destruct k2 as [|k2]; [lia|]. destruct k1 as [|k1]; simpl in *.
  - inversion H1; subst. rewrite Forall_forall in Hx. apply Hx. eapply nth_error_In; eassumption.
  - apply (IH k1 k2); auto. lia.
Qed.

Lemma NoDup_map_fst_filter {A B} (p : A * B -> bool) (l : list (A * B)) :
  NoDup (map fst l) -> NoDup (map fst (filter p l)).
Proof.
  induction l as [|a t IH]; simpl; intros H; [constructor|].
  inversion H as [|? ? Hn Ht]; subst. destruct (p a); simpl; [|apply IH; assumption].
  constructor; [|apply IH; assumption].
  intro Hin. apply Hn. apply in_map_iff in Hin. destruct Hin as [x [Hx Hf]]. apply filter_In in Hf.
  apply in_map_iff. exists x. tauto.
Qed.

Lemma map_fst_combine_seq {A} (l : list A) : forall s, map fst (combine (seq s (length l)) l) = seq s (length l).
Proof. induction l as [|a t IH]; intros s; simpl; [reflexivity|]. f_equal. apply IH. Qed.

Lemma positions_of_NoDup i cs : NoDup (positions_of i cs).
Proof.
  unfold positions_of, indexed. apply NoDup_map_fst_filter. rewrite map_fst_combine_seq. apply seq_NoDup.
Qed.

Lemma reach_ext (bond : nat -> nat -> bool) V V' a b :
  (forall i, In i V <-> In i V') -> Graph.reach bond V a b -> Graph.reach bond V' a b.
Proof.
  intros He H. induction H as [|p q Hr IH Hq Hpq]; [constructor|].
  econstructor; [exact IH | apply He; assumption | assumption].
Qed.

(* ---------------------------------------------------------------- merge is the identity *)
Section MergeId.
  Variable setlist : list nat -> list nat.
  Variable Znum : nat -> Z.
  Variable merge_threshold : Q.
  Hypothesis Hthr : (0 <= merge_threshold)%Q.

  (* what merge needs: unmerged, non-empty, pairwise disjoint clusters *)
  Definition mergeable (c : cluster) : Prop := cmerged c = false /\ cidx c <> [].
  Definition no_common (a b : cluster) : Prop := forall x, In x (cidx a) -> In x (cidx b) -> False.

  Lemma inter_card_disjoint a b : no_common a b -> inter_card (cidx a) (cidx b) = 0.
  Proof.
    intros H. unfold inter_card, inter. rewrite filter_nil; [reflexivity|].
    intros x Hx. apply mem_false. intro Hb. exact (H x Hx Hb).
  Qed.

  Lemma zero_div (x : Q) : (inject_Z (Z.of_nat 0) / x == 0)%Q.
  Proof. unfold Qdiv. apply Qmult_0_l. Qed.

  (* an overlap of 0 never exceeds a threshold >= 0: the comparison is the strict `>` *)
  Lemma score_zero_not_above li lt q : score 0 li lt = Some q -> Qlt_b merge_threshold q = false.
  Proof.
    unfold score. destruct li as [|li]; [discriminate|]. destruct lt as [|lt]; [discriminate|].
    intros H. inversion H as [Hq]. clear H Hq.
    unfold Qlt_b. apply negb_false_iff. apply Qle_bool_iff.
    unfold Qmaxq. destruct (Qle_bool _ _); rewrite zero_div; assumption.
  Qed.

  Lemma merge_loop_id : forall fuel cs iso,
    length cs <= fuel -> Forall mergeable cs -> ForallOrdPairs no_common cs ->
    merge_loop setlist Znum merge_threshold fuel cs iso = Ok (iso ++ cs).
  Proof.
    induction fuel as [|f IH]; intros cs iso Hl Hm Hp.
    - destruct cs; [reflexivity | simpl in Hl; lia].
    - destruct cs as [|c rest]; [reflexivity|].
      inversion Hm as [|? ? [Hcm Hcne] Hrest]; subst. inversion Hp as [|? ? Hc Hpr]; subst.
      cbn [merge_loop]. rewrite Hcm. simpl in Hl.
      assert (Next : merge_loop setlist Znum merge_threshold f rest (iso ++ [c]) = Ok (iso ++ c :: rest)).
      { rewrite IH; [|lia|assumption|assumption]. rewrite <- app_assoc. reflexivity. }
      destruct (first_max (fun j => inter_card (cidx c) (cidx j)) rest) as [[[bj t] best]|] eqn:Efm; [|exact Next].
      pose proof (first_max_spec _ _ _ _ _ Efm) as [Hnth [Hbest _]].
      assert (Hin : In t rest) by (eapply nth_error_In; eassumption).
      rewrite Forall_forall in Hc. rewrite (inter_card_disjoint c t (Hc t Hin)) in Hbest. subst best.
      destruct (score 0 (card (cidx c)) (length (cidx t))) as [q|] eqn:Es.
      + rewrite (score_zero_not_above _ _ _ Es). exact Next.
      + exfalso. unfold score in Es.
        pose proof (card_pos (cidx c) Hcne) as Hc0.
        rewrite Forall_forall in Hrest. destruct (Hrest t Hin) as [_ Htne].
        destruct (card (cidx c)); [lia|]. destruct (cidx t); [congruence|]. simpl in Es. discriminate.
  Qed.

  Lemma merge_clusters_id cs :
    Forall mergeable cs -> ForallOrdPairs no_common cs ->
    merge_clusters setlist Znum merge_threshold cs = Ok cs.
  Proof. intros Hm Hp. unfold merge_clusters. rewrite merge_loop_id; auto. Qed.
End MergeId.

(* ---------------------------------------------------------------- localize is the identity *)
Section LocalizeId.
  Variable setlist : list nat -> list nat.
  Variable n : nat.
  Variable near : nat -> nat -> bool.

  Lemma loc_loop_id cs : (forall a, disj_at a cs) ->
    forall items, (forall i ks, In (i, ks) items -> ks = positions_of i cs) ->
    loc_loop setlist n near items cs = Ok cs.
  Proof.
    intros Hd. induction items as [|[i ks] t IH]; intros Hit; [reflexivity|].
    cbn [loc_loop].
    assert (Hs : loc_step setlist n near i ks cs = Ok cs).
    { rewrite (Hit i ks (or_introl eq_refl)).
      pose proof (positions_of_NoDup i cs) as Hnd.
      destruct (positions_of i cs) as [|k0 [|k1 t']] eqn:Ep; [reflexivity | reflexivity |].
      exfalso.
      assert (H0 : In k0 (positions_of i cs)) by (rewrite Ep; left; reflexivity).
      assert (H1 : In k1 (positions_of i cs)) by (rewrite Ep; right; left; reflexivity).
      apply positions_of_In in H0. apply positions_of_In in H1.
      destruct H0 as [c0 [N0 I0]]. destruct H1 as [c1 [N1 I1]].
      pose proof (Hd i k0 k1 c0 c1 N0 N1 I0 I1) as E. subst k1.
      inversion Hnd as [|? ? Hn _]; subst. apply Hn. left. reflexivity. }
    rewrite Hs. apply IH. intros j ks' Hj. apply Hit. right. assumption.
  Qed.

  Lemma localize_id cs : (forall a, disj_at a cs) -> localize setlist n near cs = Ok cs.
  Proof.
    intros Hd. unfold localize. apply loc_loop_id; [assumption|].
    intros i ks H. unfold overlap_map in H. apply in_map_iff in H. destruct H as [x [H _]]. inversion H. reflexivity.
  Qed.
End LocalizeId.

(* ---------------------------------------------------------------- clean is the identity *)
Section CleanId.
  Variable bond : nat -> nat -> bool.

  Lemma groups_from_seen V : forall todo seen, (forall x, In x todo -> In x seen) -> groups_from bond V todo seen = [].
  Proof.
    induction todo as [|v t IH]; intros seen H; simpl; [reflexivity|].
    assert (Hv : mem v seen = true) by (apply mem_In; apply H; left; reflexivity).
    rewrite Hv. apply IH. intros x Hx. apply H. right. assumption.
  Qed.

  Lemma dbscan_groups_connected V :
    NoDup V -> (forall v x, In v V -> In x V -> Graph.reach bond V v x) -> V <> [] -> dbscan_groups bond V = [V].
  Proof.
    intros Hnd Hr Hne. destruct V as [|v t] eqn:EV; [congruence|]. rewrite <- EV in *.
    assert (HvV : In v V) by (rewrite EV; left; reflexivity).
    assert (Hall : forall x, In x V -> In x (Graph.component bond V v)).
    { intros x Hx. apply Graph.component_complete; auto. }
    unfold dbscan_groups. rewrite EV at 2. cbn [groups_from]. cbn [mem existsb].
    f_equal.
    - apply filter_all. intros x Hx. apply mem_In. apply Hall. assumption.
    - apply groups_from_seen. intros x Hx. simpl. apply Hall. rewrite EV. right. assumption.
  Qed.

  Lemma clean_one_id c :
    NoDup (cidx c) -> cidx c <> [] ->
    (forall v x, In v (cidx c) -> In x (cidx c) -> Graph.reach bond (cidx c) v x) ->
    clean_one bond c = Some c.
  Proof.
    intros Hnd Hne Hr. unfold clean_one.
    rewrite (dbscan_groups_connected (cidx c) Hnd Hr Hne).
    destruct c as [idx sp rg mg rd]; simpl in *. destruct idx as [|x t]; [congruence|]. reflexivity.
  Qed.

  Lemma clean_id cs : (forall c, In c cs -> clean_one bond c = Some c) -> clean bond cs = cs.
  Proof.
    induction cs as [|c t IH]; intros H; simpl; [reflexivity|].
    rewrite (H c (or_introl eq_refl)). f_equal. apply IH. intros d Hd. apply H. right. assumption.
  Qed.
End CleanId.

(* ---------------------------------------------------------------- the driver under F1 *)
Section DriverF1.
  Variable setlist : list nat -> list nat.
  Hypothesis setlist_contract : setlist_ok setlist.
  Variable n : nat.
  Variable cls : nat -> nat.
  Variable Znum : nat -> Z.
  Variable finder : nat -> nat -> option region * (nat -> bool).
  Variable choose : nat -> list nat -> nat.
  Hypothesis HF1 : F1_weak n cls finder.
  Hypothesis Hchoose : choose_ok choose.

  Notation is_crystallite := (is_crystallite n cls).
  Notation distinct_class := (distinct_class cls).
  Notation covered := (covered n).

  Lemma F1_weak_F0 : F0 n finder.
  Proof.
    intros k s Hs. destruct (HF1 k s Hs) as [Hm [_ Hr]]. split; [assumption|].
    destruct (fst (finder k s)) as [r|]; [|exact I]. destruct Hr as [Hw Hp]. split; [|assumption].
    intros i Hi. apply (Hw i). right. assumption.
  Qed.

  Lemma new_cluster_crystallite k s r : s < n -> fst (finder k s) = Some r ->
    is_crystallite (new_cluster setlist Znum s r) /\ whole_class n cls s (cidx (new_cluster setlist Znum s r)).
  Proof.
    intros Hs Hr. destruct (HF1 k s Hs) as [_ [_ H]]. rewrite Hr in H. destruct H as [Hw _].
    destruct (setlist_contract (s :: rbasis r)) as [Hnd Hin].
    assert (W : whole_class n cls s (cidx (new_cluster setlist Znum s r))).
    { intro i. unfold new_cluster; simpl. rewrite Hin. apply Hw. }
    split; [|exact W]. unfold Conditional.is_crystallite. split; [exists s; auto|].
    split; [exact Hnd|]. split; reflexivity.
  Qed.

  Lemma crystallite_nonempty c : is_crystallite c -> exists x, In x (cidx c) /\ x < n.
  Proof. intros [[s [Hs Hw]] _]. exists s. split; [apply Hw; split; auto | assumption]. Qed.

  Lemma drive_crystallites : forall fuel k indices acc,
    (forall i, In i indices -> i < n) -> length indices <= fuel ->
    Forall is_crystallite acc ->
    (forall c x, In c acc -> In x (cidx c) -> ~ In x indices) ->
    ForallOrdPairs distinct_class acc ->
    exists cs k', drive setlist Znum finder choose fuel k indices acc = Ok (cs, k') /\
      Forall is_crystallite cs /\ ForallOrdPairs distinct_class cs /\
      (always_productive n finder -> covered indices acc ->
       covered [] cs /\ k' + length acc = k + length cs).
  Proof.
    induction fuel as [|f IH]; intros k indices acc Hr Hl Hacc Hout Hdist.
    - destruct indices; [|simpl in Hl; lia]. simpl. exists acc, k. repeat split; auto.
    - destruct indices as [|i0 rest] eqn:Ei.
      { simpl. exists acc, k. repeat split; auto. }
      rewrite <- Ei in *.
      assert (Hne : indices <> []) by (rewrite Ei; discriminate).
      pose proof (Hchoose k indices Hne) as Hs.
      assert (Hsn : choose k indices < n) by (apply Hr; assumption).
      destruct (HF1 k (choose k indices) Hsn) as [Hm [Hmc Hreg]].
      rewrite Ei. cbn [drive]. rewrite <- Ei.
      set (s := choose k indices) in *.
      destruct (finder k s) as [g mask] eqn:Ef. simpl in Hm, Hmc, Hreg.
      set (ind1 := filter (fun i => negb (mask i)) indices).
      assert (L1 : length ind1 < length indices).
      { apply (filter_length_lt n Znum) with (x := s); [assumption|]. rewrite Hm. reflexivity. }
      assert (R1 : forall i, In i ind1 -> i < n).
      { intros i Hi. apply filter_In in Hi. apply Hr. tauto. }
      assert (S1 : forall i, In i ind1 -> In i indices).
      { intros i Hi. apply filter_In in Hi. tauto. }
      destruct g as [r|].
      + (* a region is returned: it is the whole crystallite of s *)
        set (c := new_cluster setlist Znum s r).
        assert (Er : fst (finder k s) = Some r) by (rewrite Ef; reflexivity).
        destruct (new_cluster_crystallite k s r Hsn Er) as [Hc Hw]. fold c in Hc, Hw.
        set (ind2 := filter (fun i => negb (mem i (cidx c))) ind1).
        assert (S2 : forall i, In i ind2 -> In i ind1 /\ ~ In i (cidx c)).
        { intros i Hi. apply filter_In in Hi. destruct Hi as [H1 H2]. split; [assumption|].
          apply negb_true_iff in H2. apply mem_false in H2. assumption. }
        destruct (IH (S k) ind2 (acc ++ [c])) as [cs [k' [E [G [D Cov]]]]].
        * intros i Hi. apply R1. apply S2. assumption.
        * pose proof (filter_len_le (fun i => negb (mem i (cidx c))) ind1). fold ind2 in H. lia.
        * apply Forall_app. split; [assumption | constructor; [assumption | constructor]].
        * intros d x Hd Hx Hx2. apply in_app_or in Hd. destruct Hd as [Hd|[<-|[]]].
          -- apply (Hout d x Hd Hx). apply S1. apply S2. assumption.
          -- apply S2 in Hx2. tauto.
        * apply FOP_app_single; [assumption|]. apply Forall_forall. intros a Ha x y Hx Hy Heq.
          (* a is the whole crystallite of some s_a; if it had the class of s, s would be in a *)
          rewrite Forall_forall in Hacc. destruct (Hacc a Ha) as [[sa [Hsa Hwa]] _].
          apply Hw in Hy. destruct Hy as [_ Hy]. apply Hwa in Hx. destruct Hx as [_ Hx].
          assert (In s (cidx a)) by (apply Hwa; split; [assumption | congruence]).
          apply (Hout a s Ha H). assumption.
        * exists cs, k'. split; [exact E|]. split; [exact G|]. split; [exact D|].
          intros Hprod Hcov. destruct (Cov Hprod) as [C1 C2].
          -- intros i Hi. destruct (Hcov i Hi) as [Hin|[d [Hd Hid]]].
             ++ destruct (Nat.eq_dec (cls i) (cls s)) as [Hcl|Hcl].
                ** right. exists c. split; [apply in_or_app; right; left; reflexivity|]. apply Hw. split; assumption.
                ** left. apply filter_In. split.
                   --- apply filter_In. split; [assumption|]. apply negb_true_iff.
                       destruct (mask i) eqn:Em; [|reflexivity]. exfalso. apply Hcl. apply Hmc; assumption.
                   --- apply negb_true_iff. apply mem_false. intro Hic. apply Hw in Hic. destruct Hic. contradiction.
             ++ right. exists d. split; [apply in_or_app; left; assumption | assumption].
          -- split; [exact C1|]. rewrite app_length in C2. simpl in C2. lia.
      + (* nothing found: the tested atoms leave the search *)
        destruct (IH (S k) ind1 acc) as [cs [k' [E [G [D Cov]]]]].
        * exact R1.
        * lia.
        * exact Hacc.
        * intros d x Hd Hx Hx2. apply (Hout d x Hd Hx). apply S1. assumption.
        * exact Hdist.
        * exists cs, k'. split; [exact E|]. split; [exact G|]. split; [exact D|].
          intros Hprod _. exfalso. apply (Hprod k s Hsn). rewrite Ef. reflexivity.
  Qed.

  Lemma run_driver_crystallites :
    exists cs k, run_driver setlist Znum finder choose n = Ok (cs, k) /\
      Forall is_crystallite cs /\ ForallOrdPairs distinct_class cs /\
      (always_productive n finder -> covered [] cs /\ k = length cs).
  Proof.
    destruct (drive_crystallites n 0 (seq 0 n) []) as [cs [k [E [G [D C]]]]].
    - intros i Hi. apply in_seq in Hi. lia.
    - rewrite seq_length. lia.
    - constructor.
    - intros c x [].
    - constructor.
    - exists cs, k. split; [exact E|]. split; [exact G|]. split; [exact D|].
      intros Hp. destruct (C Hp) as [C1 C2].
      + intros i Hi. left. apply in_seq. lia.
      + split; [exact C1|]. simpl in C2. lia.
  Qed.

  (* ---- the whole pipeline: merge, localize and clean are identities on such a cluster list *)
  Variable merge_threshold : Q.
  Hypothesis Hthr : (0 <= merge_threshold)%Q.
  Variable near : nat -> nat -> bool.
  Variable bond : nat -> nat -> bool.
  Hypothesis Hbonded : classes_bonded n cls bond.

  Lemma distinct_no_common a b : distinct_class a b -> no_common a b.
  Proof. intros H x Hx Hy. exact (H x x Hx Hy eq_refl). Qed.

  Lemma crystallite_connected c : is_crystallite c ->
    forall v x, In v (cidx c) -> In x (cidx c) -> Graph.reach bond (cidx c) v x.
  Proof.
    intros [[s [Hs Hw]] _] v x Hv Hx. apply Hw in Hv. apply Hw in Hx. destruct Hv as [Hvn Hvc]. destruct Hx as [Hxn Hxc].
    apply reach_ext with (V := class_list n cls v); [|apply Hbonded; [assumption | assumption | congruence]].
    intro i. unfold class_list. rewrite filter_In, in_seq, Nat.eqb_eq. rewrite (Hw i). unfold in_class.
    split; [intros [H1 H2]; split; [lia | congruence] | intros [H1 H2]; split; [lia | congruence]].
  Qed.

  Theorem stages_crystallites :
    exists cs k, run_stages setlist n Znum finder choose merge_threshold near bond = Ok (mkStages k cs cs cs cs) /\
      Forall is_crystallite cs /\ ForallOrdPairs distinct_class cs /\
      (always_productive n finder -> covered [] cs /\ k = length cs).
  Proof.
    destruct run_driver_crystallites as [cs [k [E [G [D C]]]]].
    exists cs, k. split; [|auto].
    unfold run_stages. rewrite E. simpl.
    assert (Hnc : ForallOrdPairs no_common cs).
    { clear - D. induction D as [|a t Ha Ht IH]; constructor; [|assumption].
      eapply Forall_impl; [|exact Ha]. intros b Hb x Hx Hy. exact (Hb x x Hx Hy eq_refl). }
    rewrite merge_clusters_id; [|assumption| |assumption].
    2:{ eapply Forall_impl; [|exact G]. intros c Hc. split; [apply Hc|].
        destruct (crystallite_nonempty c Hc) as [x [Hx _]]. intro E0. rewrite E0 in Hx. destruct Hx. }
    simpl. rewrite localize_id.
    2:{ intros a k1 k2 c1 c2 H1 H2 I1 I2.
        destruct (Nat.lt_trichotomy k1 k2) as [Hlt|[Heq|Hgt]]; [|assumption|]; exfalso.
        - exact (FOP_nth_lt _ _ Hnc k1 k2 c1 c2 H1 H2 Hlt a I1 I2).
        - exact (FOP_nth_lt _ _ Hnc k2 k1 c2 c1 H2 H1 Hgt a I2 I1). }
    simpl. rewrite clean_id; [reflexivity|].
    intros c Hc. rewrite Forall_forall in G. pose proof (G c Hc) as Hcc.
    apply clean_one_id.
    - apply Hcc.
    - destruct (crystallite_nonempty c Hcc) as [x [Hx _]]. intro E0. rewrite E0 in Hx. destruct Hx.
    - apply crystallite_connected. assumption.
  Qed.

  Corollary sbc_crystallites :
    exists cs, sbc setlist n Znum finder choose merge_threshold near bond = Ok cs /\
      Forall is_crystallite cs /\ ForallOrdPairs distinct_class cs /\
      (always_productive n finder -> covered [] cs).
  Proof.
    destruct stages_crystallites as [cs [k [E [G [D C]]]]]. exists cs. unfold sbc. rewrite E. simpl.
    split; [reflexivity|]. split; [exact G|]. split; [exact D|]. intros Hp. apply (C Hp).
  Qed.
End DriverF1.

(* ---------------------------------------------------------------- C02: one crystallite *)
Section OneCrystal.
  Variable setlist : list nat -> list nat.
  Hypothesis setlist_contract : setlist_ok setlist.
  Variable n : nat.
  Hypothesis Hn : 0 < n.
  Variable Znum : nat -> Z.
  Variable finder : nat -> nat -> option region * (nat -> bool).
  Variable choose : nat -> list nat -> nat.
  Hypothesis Hchoose : choose_ok choose.
  Variable merge_threshold : Q.
  Hypothesis Hthr : (0 <= merge_threshold)%Q.
  Variable near : nat -> nat -> bool.
  Variable bond : nat -> nat -> bool.

  Definition one_class : nat -> nat := fun _ => 0.
  Hypothesis Hbonded : classes_bonded n one_class bond.

  Definition all_atoms (c : cluster) : Prop := NoDup (cidx c) /\ forall i, In i (cidx c) <-> i < n.

  Lemma crystallite_all_atoms c : is_crystallite n one_class c -> all_atoms c.
  Proof.
    intros [[s [Hs Hw]] [Hnd _]]. split; [assumption|]. intro i. rewrite (Hw i). unfold in_class, one_class. tauto.
  Qed.

  Lemma at_most_one cs :
    Forall (is_crystallite n one_class) cs -> ForallOrdPairs (distinct_class one_class) cs -> cs = [] \/ exists c, cs = [c].
  Proof.
    intros G D. destruct cs as [|c [|d t]]; [left; reflexivity | right; eauto |]. exfalso.
    inversion G as [|? ? Gc Gr]; subst. inversion Gr as [|? ? Gd _]; subst.
    inversion D as [|? ? Dc _]; subst. inversion Dc as [|? ? Dcd _]; subst.
    destruct Gc as [[s1 [H1 W1]] _]. destruct Gd as [[s2 [H2 W2]] _].
    apply (Dcd s1 s2); [apply W1; split; auto | apply W2; split; auto | reflexivity].
  Qed.

  (* weak contract: at most one cluster, and if there is one it contains every atom *)
  Theorem one_crystal_weak : F1_weak n one_class finder ->
    exists k, run_stages setlist n Znum finder choose merge_threshold near bond = Ok (mkStages k [] [] [] []) \/
    exists c, run_stages setlist n Znum finder choose merge_threshold near bond = Ok (mkStages k [c] [c] [c] [c]) /\
              all_atoms c /\ cmerged c = false /\ cradii c = true.
  Proof.
    intros HF.
    destruct (stages_crystallites setlist setlist_contract n one_class Znum finder choose HF Hchoose
                merge_threshold Hthr near bond Hbonded) as [cs [k [E [G [D _]]]]].
    exists k. destruct (at_most_one cs G D) as [->|[c ->]]; [left; assumption|]. right. exists c.
    split; [assumption|]. inversion G as [|? ? Gc _]; subst. split; [apply crystallite_all_atoms; assumption|].
    destruct Gc as [_ [_ [H1 H2]]]. auto.
  Qed.

  (* strong contract: exactly one finder call, exactly one cluster, containing every atom; merge, localize
     and clean leave it untouched *)
  Theorem one_crystal : F1 n one_class finder ->
    exists c, run_stages setlist n Znum finder choose merge_threshold near bond = Ok (mkStages 1 [c] [c] [c] [c]) /\
              sbc setlist n Znum finder choose merge_threshold near bond = Ok [c] /\
              all_atoms c /\ cmerged c = false /\ cradii c = true.
  Proof.
    intros [HF HP].
    destruct (stages_crystallites setlist setlist_contract n one_class Znum finder choose HF Hchoose
                merge_threshold Hthr near bond Hbonded) as [cs [k [E [G [D C]]]]].
    destruct (C HP) as [Cov Hk].
    destruct (at_most_one cs G D) as [->|[c ->]].
    - exfalso. destruct (Cov 0 Hn) as [[]|[c [[] _]]].
    - simpl in Hk. subst k. exists c. split; [assumption|]. split; [unfold sbc; rewrite E; reflexivity|].
      inversion G as [|? ? Gc _]; subst. split; [apply crystallite_all_atoms; assumption|].
      destruct Gc as [_ [_ [H1 H2]]]. auto.
  Qed.
End OneCrystal.

(* ---------------------------------------------------------------- C03: two crystallites *)
Section TwoSlabs.
  Variable setlist : list nat -> list nat.
  Hypothesis setlist_contract : setlist_ok setlist.
  Variable n : nat.
  Variable cls : nat -> nat.
  Hypothesis Hcls : forall i, i < n -> cls i = 0 \/ cls i = 1.
  Hypothesis HA : exists a, a < n /\ cls a = 0.
  Hypothesis HB : exists b, b < n /\ cls b = 1.
  Variable Znum : nat -> Z.
  Variable finder : nat -> nat -> option region * (nat -> bool).
  Variable choose : nat -> list nat -> nat.
  Hypothesis Hchoose : choose_ok choose.
  Variable merge_threshold : Q.
  Hypothesis Hthr : (0 <= merge_threshold)%Q.
  Variable near : nat -> nat -> bool.
  Variable bond : nat -> nat -> bool.
  Hypothesis Hbonded : classes_bonded n cls bond.

  (* the index list of c is a duplicate-free enumeration of slab v *)
  Definition is_slab (v : nat) (c : cluster) : Prop :=
    NoDup (cidx c) /\ forall i, In i (cidx c) <-> (i < n /\ cls i = v).

  Lemma crystallite_slab c : is_crystallite n cls c -> is_slab 0 c \/ is_slab 1 c.
  Proof.
    intros [[s [Hs Hw]] [Hnd _]]. destruct (Hcls s Hs) as [E|E]; [left|right]; (split; [assumption|]);
      intro i; rewrite (Hw i); unfold in_class; rewrite E; tauto.
  Qed.

  Lemma slab_class v c x : is_slab v c -> In x (cidx c) -> cls x = v.
  Proof. intros [_ H] Hx. apply H in Hx. tauto. Qed.

  Theorem two_slabs : F1 n cls finder ->
    exists c1 c2,
      run_stages setlist n Znum finder choose merge_threshold near bond = Ok (mkStages 2 [c1; c2] [c1; c2] [c1; c2] [c1; c2]) /\
      sbc setlist n Znum finder choose merge_threshold near bond = Ok [c1; c2] /\
      ((is_slab 0 c1 /\ is_slab 1 c2) \/ (is_slab 1 c1 /\ is_slab 0 c2)) /\
      cmerged c1 = false /\ cmerged c2 = false /\ cradii c1 = true /\ cradii c2 = true.
  Proof.
    intros [HF HP].
    destruct (stages_crystallites setlist setlist_contract n cls Znum finder choose HF Hchoose
                merge_threshold Hthr near bond Hbonded) as [cs [k [E [G [D C]]]]].
    destruct (C HP) as [Cov Hk].
    destruct HA as [a [Han Hac]]. destruct HB as [b [Hbn Hbc]].
    destruct (Cov a Han) as [[]|[ca [Hca Hia]]]. destruct (Cov b Hbn) as [[]|[cb [Hcb Hib]]].
    rewrite Forall_forall in G.
    assert (Sl : forall c, In c cs -> is_slab 0 c \/ is_slab 1 c) by (intros c Hc; apply crystallite_slab; apply G; assumption).
    assert (Ne : forall c, In c cs -> exists x, In x (cidx c)).
    { intros c Hc. destruct (G c Hc) as [[s [Hs Hw]] _]. exists s. apply Hw. split; auto. }
    destruct cs as [|c1 [|c2 [|c3 t]]].
    - destruct Hca.
    - (* one cluster cannot hold both slabs *)
      exfalso. destruct Hca as [<-|[]]. destruct Hcb as [<-|[]].
      destruct (Sl c1 (or_introl eq_refl)) as [S|S];
        pose proof (slab_class _ _ _ S Hia); pose proof (slab_class _ _ _ S Hib); congruence.
    - simpl in Hk. subst k. exists c1, c2. split; [assumption|]. split; [unfold sbc; rewrite E; reflexivity|].
      inversion D as [|? ? D12 _]; subst. inversion D12 as [|? ? Dd _]; subst.
      destruct (Ne c1 (or_introl eq_refl)) as [x1 Hx1]. destruct (Ne c2 (or_intror (or_introl eq_refl))) as [x2 Hx2].
      pose proof (Dd x1 x2 Hx1 Hx2) as Hneq.
      assert (M : forall c, In c [c1; c2] -> cmerged c = false /\ cradii c = true).
      { intros c Hc. destruct (G c Hc) as [_ [_ [H1 H2]]]. auto. }
      destruct (M c1 (or_introl eq_refl)) as [M1 R1]. destruct (M c2 (or_intror (or_introl eq_refl))) as [M2 R2].
      split; [|auto].
      destruct (Sl c1 (or_introl eq_refl)) as [S1|S1]; destruct (Sl c2 (or_intror (or_introl eq_refl))) as [S2|S2];
        try (left; split; assumption); try (right; split; assumption); exfalso;
        pose proof (slab_class _ _ _ S1 Hx1); pose proof (slab_class _ _ _ S2 Hx2); congruence.
    - (* three clusters of pairwise different classes among two classes *)
      exfalso.
      inversion D as [|? ? D1 Dr]; subst. inversion Dr as [|? ? D2 _]; subst.
      inversion D1 as [|? ? D12 D1r]; subst. inversion D1r as [|? ? D13 _]; subst. inversion D2 as [|? ? D23 _]; subst.
      destruct (Ne c1 (or_introl eq_refl)) as [x1 Hx1].
      destruct (Ne c2 (or_intror (or_introl eq_refl))) as [x2 Hx2].
      destruct (Ne c3 (or_intror (or_intror (or_introl eq_refl)))) as [x3 Hx3].
      pose proof (D12 x1 x2 Hx1 Hx2). pose proof (D13 x1 x3 Hx1 Hx3). pose proof (D23 x2 x3 Hx2 Hx3).
      assert (R : forall c x, In c [c1; c2; c3] -> In x (cidx c) -> cls x = 0 \/ cls x = 1).
      { intros c x Hc Hx. apply Hcls. destruct (G c) as [[s [Hs Hw]] _]; [simpl in *; tauto|]. apply Hw in Hx. apply Hx. }
      destruct (R c1 x1) as [?|?]; [simpl; tauto | assumption | |];
        destruct (R c2 x2) as [?|?]; try (simpl; tauto); try assumption;
        destruct (R c3 x3) as [?|?]; try (simpl; tauto); try assumption; congruence.
  Qed.
End TwoSlabs.

(* ---------------------------------------------------------------- species-strict matching *)
Lemma match_one_species a b c nums tol rows q z j f :
  match_one a b c nums tol rows q z = Match j f -> nth j nums 0%Z = z.
Proof.
  unfold match_one. destruct (argmin_row rows) as [r|]; [|discriminate].
  destruct (Z.leb (r_d2 r) (tol * tol)); [|discriminate]. cbv zeta.
  destruct (Z.eqb (nth (r_orig r) nums 0%Z) z) eqn:E; [|discriminate].
  apply Z.eqb_eq in E. intros H. injection H as <- _. exact E.
Qed.

Lemma matched_indices_In ms j : In j (matched_indices ms) <-> exists f, In (Match j f) ms.
Proof.
  induction ms as [|m t IH]; simpl; [split; [tauto | intros [f []]]|].
  destruct m as [j' f'|j' f' z1 z2|f']; simpl.
  - rewrite IH. split.
    + intros [<-|[g Hg]]; [exists f'; auto | exists g; auto].
    + intros [g [Hg|Hg]]; [inversion Hg; auto | right; eauto].
  - rewrite IH. split; [intros [g Hg]; eauto | intros [g [Hg|Hg]]; [discriminate | eauto]].
  - rewrite IH. split; [intros [g Hg]; eauto | intros [g [Hg|Hg]]; [discriminate | eauto]].
Qed.

(* a region grown from a prototype cell all of whose atoms have atomic number zA contains only atoms of
   atomic number zA -- whatever rows the neighbour search reports, whatever cells are visited *)
Theorem region_species_strict a b c nums tol units (zA : Z) :
  (forall u p, In u units -> In p u -> snd (fst p) = zA) ->
  forall j, In j (region_basis a b c nums tol units) -> nth j nums 0%Z = zA.
Proof.
  intros Hz j Hj. unfold region_basis in Hj. apply in_flat_map in Hj. destruct Hj as [u [Hu Hj]].
  apply matched_indices_In in Hj. destruct Hj as [f Hf]. unfold unit_matches in Hf.
  apply in_map_iff in Hf. destruct Hf as [p [Hp Hpu]].
  apply match_one_species in Hp. rewrite (Hz u p Hu Hpu) in Hp. assumption.
Qed.

(* ---------------------------------------------------------------- dimensionality shortcut (C13) *)
(* the history of an untouched cluster: constructor, then clean's matrix request and index rewrite
   (with the same list), then k calls of get_dimensionality(): every shortcut result is the direct
   evaluation on the cluster's own index list *)
Lemma getdim_repeat_direct (R : Type) (gd : list nat -> radii_arg -> list nat -> R) (is_none : R -> bool) idx :
  forall k s, s_idx s = idx -> coherent R gd s ->
  forall p, In p (trace R gd is_none (repeat GetDim k) s) -> fst p = gd idx (RSel idx) idx /\ snd p = gd idx (RSel idx) idx.
Proof.
  induction k as [|k IH]; intros s Hi Hc p Hp; simpl in Hp; [destruct Hp|].
  destruct (get_dim_spec R gd is_none s Hc) as [Hv [Hco Hidx]].
  destruct Hp as [<-|Hp].
  - simpl. rewrite Hv. unfold direct. rewrite Hi. auto.
  - apply (IH (fst (get_dim R gd is_none s))); [congruence | assumption | assumption].
Qed.

Theorem untouched_cluster_dimensionality (R : Type) (gd : list nat -> radii_arg -> list nat -> R) (is_none : R -> bool) idx k p :
  In p (trace R gd is_none (pipeline_history [] idx k) (init R idx true)) ->
  fst p = gd idx (RSel idx) idx /\ snd p = gd idx (RSel idx) idx.
Proof.
  intros H.
  apply (getdim_repeat_direct R gd is_none idx k
           (exec R gd is_none (SetIndices idx) (exec R gd is_none GetMatrix (init R idx true)))).
  - reflexivity.
  - apply exec_coherent. apply exec_coherent. apply init_coherent.
  - exact H.
Qed.

(* ---------------------------------------------------------------- examples *)
Lemma x3_F1 : F1 x3_n x3_cls x3_finder.
Proof.
  split.
  - intros k s Hs. unfold x3_n in Hs.
    destruct s as [|[|[|[|[|[|s]]]]]]; try lia; (split; [reflexivity|]);
      (split; [intros i Hi; unfold x3_n in Hi; destruct i as [|[|[|[|[|[|i]]]]]]; try lia; simpl; intros; try reflexivity; try discriminate|]);
      unfold x3_finder; simpl; (split; [|auto]);
      intro i; unfold in_class, x3_n, x3_cls; simpl;
      (split; [intros H; repeat (destruct H as [<-|H]; [simpl; split; [lia|reflexivity]|]); destruct H
              | intros [H1 H2]; destruct i as [|[|[|[|[|[|i]]]]]]; try lia; simpl in H2; try discriminate; tauto]).
  - intros k s _. unfold x3_finder. destruct (s <? 3); discriminate.
Qed.

Lemma reach_by_component bond V v x : In x (Graph.component bond V v) -> Graph.reach bond V v x.
Proof. apply Graph.component_sound. Qed.

Lemma x3_bonded : classes_bonded x3_n x3_cls x3_bond.
Proof.
  intros s x Hs Hx Hc. unfold x3_n in *. apply reach_by_component.
  destruct s as [|[|[|[|[|[|s]]]]]]; try lia;
    destruct x as [|[|[|[|[|[|x]]]]]]; try lia; try (simpl in Hc; discriminate); vm_compute; tauto.
Qed.

Lemma x3_choose_ok : choose_ok x3_choose.
Proof.
  intros k l H. unfold x3_choose. destruct l as [|a t]; [congruence|].
  clear H. revert a. induction t as [|b t IH]; intros a; [left; reflexivity|].
  right. change (last (a :: b :: t) 0) with (last (b :: t) 0). apply IH.
Qed.

Example x3_run :
  show_idx (sbc canon x3_n x3_Z x3_finder x3_choose (1 # 2) x3_near x3_bond) = Some [[5; 4; 3]; [2; 0; 1]]
  /\ (* a negative merge threshold is outside the domain: disjoint clusters (overlap 0) would be merged *)
  show_idx (sbc canon x3_n x3_Z x3_finder x3_choose (-1 # 10) x3_near x3_bond) = Some [[2; 0; 1]].
Proof. split; vm_compute; reflexivity. Qed.

Lemma x2_F1 : F1 x2_n one_class x2_finder.
Proof.
  split.
  - intros k s Hs. unfold x2_n in Hs. split; [simpl; rewrite Nat.eqb_refl; reflexivity|].
    split; [intros; reflexivity|]. unfold x2_finder; simpl. split; [|auto].
    intro i. unfold in_class, x2_n, one_class. split.
    + intros [<-|[<-|[<-|[<-|[<-|[]]]]]]; split; auto; lia.
    + intros [H _]. destruct i as [|[|[|[|i]]]]; try lia; simpl; auto 10.
  - intros k s _. discriminate.
Qed.

Lemma x2_F1_weak : F1_weak x2_n one_class x2_finder_weak /\ ~ always_productive x2_n x2_finder_weak.
Proof.
  split.
  - intros k s Hs. unfold x2_finder_weak. destruct (k =? 0).
    + simpl. split; [apply Nat.eqb_refl|]. split; [intros; reflexivity | exact I].
    + apply (proj1 x2_F1 k s Hs).
  - intros H. apply (H 0 0); [unfold x2_n; lia | reflexivity].
Qed.

Lemma x2_bonded : classes_bonded x2_n one_class x3_bond.
Proof.
  intros s x Hs Hx _. unfold x2_n in *. apply reach_by_component.
  destruct s as [|[|[|[|s]]]]; try lia; destruct x as [|[|[|[|x]]]]; try lia; vm_compute; tauto.
Qed.

Example x2_run :
  show_idx (sbc canon x2_n x2_Z x2_finder x3_choose (1 # 2) x3_near x3_bond) = Some [[3; 0; 1; 2]]
  /\ show_idx (sbc canon x2_n x2_Z x2_finder_weak x3_choose (1 # 2) x3_near x3_bond) = Some [[2; 3; 0; 1]].
Proof. split; vm_compute; reflexivity. Qed.

(* ---------------------------------------------------------------- the full statements from the contract *)
(* C02: if the real finder honoured F1 on every member of the family, the property would hold *)
Lemma one_crystal_family
  (input : Type) (family : input -> Prop) (natoms : input -> nat) (Znum_of : input -> nat -> Z)
  (real_finder : input -> nat -> nat -> option region * (nat -> bool))
  (merge_threshold : Q) (near_of bond_of : input -> nat -> nat -> bool) :
  (0 <= merge_threshold)%Q ->
  (forall x : input, family x ->
     0 < natoms x /\ classes_bonded (natoms x) one_class (bond_of x) /\ F1 (natoms x) one_class (real_finder x)) ->
  forall x, family x ->
  forall setlist choose, setlist_ok setlist -> choose_ok choose ->
  exists c, sbc setlist (natoms x) (Znum_of x) (real_finder x) choose merge_threshold (near_of x) (bond_of x) = Ok [c]
            /\ all_atoms (natoms x) c.
Proof.
  intros Hthr Hfam x Hx setlist choose Hsl Hch. destruct (Hfam x Hx) as [Hn [Hb HF]].
  destruct (one_crystal setlist Hsl (natoms x) Hn (Znum_of x) (real_finder x) choose Hch merge_threshold Hthr
              (near_of x) (bond_of x) Hb HF) as [c [_ [E [A _]]]].
  exists c. auto.
Qed.

Lemma two_slabs_family
  (input : Type) (family : input -> Prop) (natoms : input -> nat) (slab_of : input -> nat -> nat)
  (Znum_of : input -> nat -> Z)
  (real_finder : input -> nat -> nat -> option region * (nat -> bool))
  (merge_threshold : Q) (near_of bond_of : input -> nat -> nat -> bool) :
  (0 <= merge_threshold)%Q ->
  (forall x : input, family x ->
     (forall i, i < natoms x -> slab_of x i = 0 \/ slab_of x i = 1) /\
     (exists a, a < natoms x /\ slab_of x a = 0) /\ (exists b, b < natoms x /\ slab_of x b = 1) /\
     classes_bonded (natoms x) (slab_of x) (bond_of x) /\ F1 (natoms x) (slab_of x) (real_finder x)) ->
  forall x, family x ->
  forall setlist choose, setlist_ok setlist -> choose_ok choose ->
  exists c1 c2,
    sbc setlist (natoms x) (Znum_of x) (real_finder x) choose merge_threshold (near_of x) (bond_of x) = Ok [c1; c2] /\
    ((is_slab (natoms x) (slab_of x) 0 c1 /\ is_slab (natoms x) (slab_of x) 1 c2) \/
     (is_slab (natoms x) (slab_of x) 1 c1 /\ is_slab (natoms x) (slab_of x) 0 c2)).
Proof.
  intros Hthr Hfam x Hx setlist choose Hsl Hch. destruct (Hfam x Hx) as [Hc [HA [HB [Hb HF]]]].
  destruct (two_slabs setlist Hsl (natoms x) (slab_of x) Hc HA HB (Znum_of x) (real_finder x) choose Hch merge_threshold Hthr
              (near_of x) (bond_of x) Hb HF) as [c1 [c2 [_ [E [S _]]]]].
  exists c1, c2. auto.
Qed.

(* ---------------------------------------------------------------- non-vacuity, packaged *)
Lemma x2_nonvacuous :
  F1 x2_n one_class x2_finder /\ classes_bonded x2_n one_class x3_bond /\ choose_ok x3_choose /\ setlist_ok canon /\
  show_idx (sbc canon x2_n x2_Z x2_finder x3_choose (1 # 2) x3_near x3_bond) = Some [[3; 0; 1; 2]].
Proof.
  split; [exact x2_F1|]. split; [exact x2_bonded|]. split; [exact x3_choose_ok|]. split; [exact canon_ok|].
  exact (proj1 x2_run).
Qed.

Lemma x2_weak_nonvacuous :
  F1_weak x2_n one_class x2_finder_weak /\ ~ always_productive x2_n x2_finder_weak /\
  show_idx (sbc canon x2_n x2_Z x2_finder_weak x3_choose (1 # 2) x3_near x3_bond) = Some [[2; 3; 0; 1]].
Proof. split; [exact (proj1 x2_F1_weak)|]. split; [exact (proj2 x2_F1_weak) | exact (proj2 x2_run)]. Qed.

Lemma x3_nonvacuous :
  F1 x3_n x3_cls x3_finder /\ classes_bonded x3_n x3_cls x3_bond /\ choose_ok x3_choose /\ setlist_ok canon /\
  x3_bond 2 3 = true /\
  show_idx (sbc canon x3_n x3_Z x3_finder x3_choose (1 # 2) x3_near x3_bond) = Some [[5; 4; 3]; [2; 0; 1]].
Proof.
  split; [exact x3_F1|]. split; [exact x3_bonded|]. split; [exact x3_choose_ok|]. split; [exact canon_ok|].
  split; [reflexivity | exact (proj1 x3_run)].
Qed.

Lemma x3_negative_threshold :
  show_idx (sbc canon x3_n x3_Z x3_finder x3_choose (-1 # 10) x3_near x3_bond) = Some [[2; 0; 1]].
Proof. exact (proj2 x3_run). Qed.
