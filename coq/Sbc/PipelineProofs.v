(* The C01 theorems about the whole SBC pipeline model: for every finder satisfying F0, every
   choice function returning a member of its argument, every set-to-list order, every distance
   matrix / bonding relation and every threshold. *)
From Coq Require Import List Arith Bool ZArith QArith PeanoNat Lia.
Import ListNotations.
Local Open Scope nat_scope.
From MV Require Base.Graph.
From MV Require Import Sbc.Common Sbc.CommonProofs Sbc.Driver Sbc.DriverProofs Sbc.Merge Sbc.MergeProofs
     Sbc.Localize Sbc.LocalizeProofs Sbc.Clean Sbc.CleanProofs Sbc.Pipeline.

Lemma pairs_of_positions {A} (R : A -> A -> Prop) (l : list A) :
  (forall k1 k2 c1 c2, nth_error l k1 = Some c1 -> nth_error l k2 = Some c2 -> k1 <> k2 -> R c1 c2) ->
  ForallOrdPairs R l.
Proof.
  induction l as [|a t IH]; intros H; constructor.
  - apply Forall_forall. intros d Hd. apply In_nth_error in Hd. destruct Hd as [k Hk].
    apply (H 0 (S k)); simpl; auto.
  - apply IH. intros k1 k2 c1 c2 H1 H2 Hne. apply (H (S k1) (S k2)); simpl; auto.
Qed.

Lemma Forall2_Forall_r {A} (R : A -> A -> Prop) (P Q : A -> Prop) l l' :
  (forall x y, R x y -> P x -> Q y) -> Forall2 R l l' -> Forall P l -> Forall Q l'.
Proof.
  intros H HF. induction HF as [|x y l l' Hxy HF IH]; intros HP; constructor; inversion HP; subst; eauto.
Qed.

Definition disjoint_clusters (a b : cluster) : Prop := forall x, In x (cidx a) -> In x (cidx b) -> False.

(* a chain of atoms of S, consecutive ones bonded: D - radii <= threshold *)
Inductive bonded_path (D : nat -> nat -> Q) (thr : Q) (S : list nat) : nat -> nat -> Prop :=
| bp_refl a : In a S -> bonded_path D thr S a a
| bp_step a b c : bonded_path D thr S a b -> In c S -> (D b c <= thr)%Q -> bonded_path D thr S a c.

Lemma reach_bonded_path D thr S a b :
  (0 < thr)%Q -> In a S -> Graph.reach (bond_of D thr) S a b -> bonded_path D thr S a b.
Proof.
  intros Hpos Ha H. induction H as [|p q Hr IH Hq Hpq]; [constructor; assumption|].
  econstructor; [exact IH | exact Hq | apply bond_of_pos in Hpq; assumption].
Qed.

Section PipelineProofs.
  Variable setlist : list nat -> list nat.
  Hypothesis setlist_contract : setlist_ok setlist.
  Variable n : nat.
  Variable Znum : nat -> Z.
  Variable finder : nat -> nat -> option region * (nat -> bool).
  Variable choose : nat -> list nat -> nat.
  Variable merge_threshold : Q.
  Variable near : nat -> nat -> bool.
  Variable bond : nat -> nat -> bool.
  Hypothesis HF0 : F0 n finder.
  Hypothesis Hchoose : choose_ok choose.

  Notation wf := (wf n Znum finder).
  Notation wwf := (wwf n Znum finder).
  Notation the_sbc := (sbc setlist n Znum finder choose merge_threshold near bond).

  Lemma loop_rel_wwf c c' : loop_rel c c' -> wf c -> wwf c'.
  Proof.
    intros [[M1 [M2 [M3 M4]]] [Hsub Hnd]] [[W1 [W2 [W3 [W4 W5]]]] _]. unfold DriverProofs.wwf.
    rewrite M1, M2, M4. repeat split; auto.
  Qed.

  Definition out_ok (out : list cluster) : Prop :=
    Forall wf out /\ ForallOrdPairs disjoint_clusters out /\
    Forall (fun c => exists v, connected_from bond (cidx c) v) out.

  Lemma clean_one_wf c c' : wwf c -> clean_one bond c = Some c' ->
    wf c' /\ (forall x, In x (cidx c') -> In x (cidx c)) /\ exists v, connected_from bond (cidx c') v.
  Proof.
    intros [W1 [W2 [W3 [W4 W5]]]] H.
    destruct (clean_one_spec bond c c' W1 H) as [[M1 [M2 [M3 M4]]] [[v [Hv [Hg Hc]]] _]].
    assert (Sub : forall x, In x (cidx c') -> In x (cidx c)).
    { intros x Hx. rewrite Hg in Hx. apply group_of_In in Hx. tauto. }
    split; [|split; [assumption | exists v; assumption]].
    split; [unfold DriverProofs.wwf; rewrite M1, M2, M4; repeat split; auto|].
    - rewrite Hg. unfold group_of. apply NoDup_filter. assumption.
    - destruct Hc as [Hc _]. intro E. rewrite E in Hc. destruct Hc.
  Qed.

  (* main theorem: the run terminates without fuel exhaustion or exception, and the output is a
     family of well-formed, pairwise disjoint, bonded-connected clusters *)
  Theorem sbc_spec : exists out, the_sbc = Ok out /\ out_ok out.
  Proof.
    unfold sbc, run_stages.
    destruct (drive_terminates setlist setlist_contract n Znum finder choose HF0 Hchoose) as [cs0 [k0 [E0 W0]]].
    rewrite E0. simpl.
    destruct (merge_terminates setlist setlist_contract n Znum finder merge_threshold cs0 W0) as [cs1 [E1 W1]].
    rewrite E1. simpl.
    destruct (localize_spec setlist setlist_contract n near cs1) as [cs2 [E2 [R2 D2]]].
    rewrite E2. simpl. eexists. split; [reflexivity|].
    assert (W2 : Forall wwf cs2).
    { eapply Forall2_Forall_r; [|exact R2|exact W1]. intros x y. apply loop_rel_wwf. }
    assert (P2 : ForallOrdPairs disjoint_clusters cs2).
    { apply pairs_of_positions. intros k1 k2 c1 c2 H1 H2 Hne x X1 X2. apply Hne.
      rewrite Forall_forall in W2.
      assert (Hx : x < n).
      { assert (Hw : wwf c1) by (apply W2; eapply nth_error_In; eassumption). destruct Hw as [_ [Hr _]]. auto. }
      apply (D2 x Hx k1 k2 c1 c2); assumption. }
    rewrite Forall_forall in W2.
    split; [|split].
    - apply Forall_forall. intros c' Hc'. apply clean_In in Hc'. destruct Hc' as [c [Hc Ec]].
      apply (clean_one_wf c c' (W2 c Hc) Ec).
    - assert (G : forall l, (forall c, In c l -> wwf c) -> ForallOrdPairs disjoint_clusters l ->
                            ForallOrdPairs disjoint_clusters (clean bond l)).
      { induction l as [|c t IH]; intros Hw Hp; simpl; [constructor|].
        inversion Hp as [|? ? Hc Ht]; subst.
        assert (IHt : ForallOrdPairs disjoint_clusters (clean bond t)) by (apply IH; [intros; apply Hw; right; assumption | assumption]).
        destruct (clean_one bond c) as [c'|] eqn:E; [|assumption].
        constructor; [|assumption].
        apply Forall_forall. intros d' Hd'. apply clean_In in Hd'. destruct Hd' as [d [Hd Ed]].
        rewrite Forall_forall in Hc. intros x X1 X2.
        destruct (clean_one_wf c c' (Hw c (or_introl eq_refl)) E) as [_ [S1 _]].
        destruct (clean_one_wf d d' (Hw d (or_intror Hd)) Ed) as [_ [S2 _]].
        apply (Hc d Hd x); auto. }
      apply G; assumption.
    - apply Forall_forall. intros c' Hc'. apply clean_In in Hc'. destruct Hc' as [c [Hc Ec]].
      apply (clean_one_wf c c' (W2 c Hc) Ec).
  Qed.

  Section Out.
    Variable out : list cluster.
    Hypothesis Hout : the_sbc = Ok out.

    Lemma out_is_ok : out_ok out.
    Proof. destruct sbc_spec as [o [E H]]. rewrite Hout in E. inversion E. subst. assumption. Qed.

    Lemma out_wf c : In c out -> wf c.
    Proof. destruct out_is_ok as [H _]. rewrite Forall_forall in H. apply H. Qed.

    Theorem out_in_range c i : In c out -> In i (cidx c) -> i < n.
    Proof. intros Hc. destruct (out_wf c Hc) as [[_ [H _]] _]. apply H. Qed.

    Theorem out_nodup c : In c out -> NoDup (cidx c).
    Proof. intros Hc. destruct (out_wf c Hc) as [[H _] _]. exact H. Qed.

    Theorem out_nonempty c : In c out -> cidx c <> [].
    Proof. intros Hc. destruct (out_wf c Hc) as [_ H]. exact H. Qed.

    Theorem out_species c i : In c out -> In i (cidx c) -> In (Znum i) (cspec c).
    Proof. intros Hc. destruct (out_wf c Hc) as [[_ [_ [H _]]] _]. apply H. Qed.

    Theorem out_pairwise_disjoint : ForallOrdPairs disjoint_clusters out.
    Proof. destruct out_is_ok as [_ [H _]]. exact H. Qed.

    (* position-wise reading: two different entries of the output share no atom *)
    Theorem out_pairwise_disjoint_nth k1 k2 c1 c2 x :
      nth_error out k1 = Some c1 -> nth_error out k2 = Some c2 -> k1 <> k2 ->
      In x (cidx c1) -> In x (cidx c2) -> False.
    Proof.
      pose proof out_pairwise_disjoint as H. clear Hout. revert k1 k2.
      induction H as [|a t Ha Ht IH]; intros k1 k2 H1 H2 Hne X1 X2; [destruct k1; discriminate|].
      rewrite Forall_forall in Ha.
      destruct k1 as [|k1], k2 as [|k2]; simpl in *.
      - congruence.
      - inversion H1; subst. apply nth_error_In in H2. apply (Ha c2 H2 x); assumption.
      - inversion H2; subst. apply nth_error_In in H1. apply (Ha c1 H1 x); assumption.
      - apply (IH k1 k2); auto.
    Qed.

    (* the region of an output cluster is one of the regions the finder returned, hence (F0) its
       prototype cell has two or three periodic axes *)
    Theorem out_cell_periodicity c : In c out ->
      from_finder n finder (creg c) /\ (count_true (rper (creg c)) = 2 \/ count_true (rper (creg c)) = 3).
    Proof.
      intros Hc. destruct (out_wf c Hc) as [[_ [_ [_ [H _]]]] _]. split; [exact H|].
      destruct H as [k [s [Hs Hr]]]. destruct (HF0 k s Hs) as [_ H]. rewrite Hr in H. tauto.
    Qed.

    Theorem out_has_radii c : In c out -> cradii c = true.
    Proof. intros Hc. destruct (out_wf c Hc) as [[_ [_ [_ [_ H]]]] _]. exact H. Qed.

    (* connectivity: every atom of an output cluster is reached from one root atom by bonds whose
       end points all lie inside the cluster *)
    Theorem out_connected_rooted c : In c out -> exists v, connected_from bond (cidx c) v.
    Proof. destruct out_is_ok as [_ [_ H]]. rewrite Forall_forall in H. apply H. Qed.

    (* ... and for a symmetric bonding relation any two atoms of the cluster are joined inside it *)
    Theorem out_connected c a b :
      (forall x y, bond x y = bond y x) -> In c out -> In a (cidx c) -> In b (cidx c) ->
      Graph.reach bond (cidx c) a b.
    Proof.
      intros Hsym Hc Ha Hb. destruct (out_connected_rooted c Hc) as [v Hv].
      apply (connected_pairwise bond (cidx c) v Hsym Hv); assumption.
    Qed.
  End Out.
End PipelineProofs.

(* connectivity in terms of the distance matrix: with a symmetric matrix D and a positive bond
   threshold, any two atoms of an output cluster are joined by a chain of atoms of the cluster with
   D <= bond_threshold between consecutive ones *)
Theorem out_connected_Q setlist (Hsl : setlist_ok setlist) n Znum finder choose merge_threshold near
        (D : nat -> nat -> Q) (thr : Q) out c a b :
  F0 n finder -> choose_ok choose -> (0 < thr)%Q -> (forall x y, D x y = D y x) ->
  sbc setlist n Znum finder choose merge_threshold near (bond_of D thr) = Ok out ->
  In c out -> In a (cidx c) -> In b (cidx c) -> bonded_path D thr (cidx c) a b.
Proof.
  intros HF Hch Hpos Hsym Hout Hc Ha Hb.
  apply reach_bonded_path; [assumption | assumption |].
  apply (out_connected setlist Hsl n Znum finder choose merge_threshold near (bond_of D thr) HF Hch out Hout); auto.
  intros x y. unfold bond_of. rewrite Hsym. reflexivity.
Qed.
