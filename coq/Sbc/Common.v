(* SBC model -- shared definitions (executable; proofs are in CommonProofs.v).

   Python sets of atom indices are modelled as duplicate-free lists.  The order in which CPython
   iterates a set (`list(some_set)`) is an implementation detail; it is a Section variable
   [setlist] here, with the contract "same members, no duplicates" stated where theorems need it.
   The executable instance used by the correspondence is [canon] (first occurrences, in order). *)
From Coq Require Import List Arith Bool ZArith QArith PeanoNat.
Import ListNotations.
Local Open Scope nat_scope.

(* ---- results of partial computations: fuel exhaustion and Python exceptions are never a value *)
Inductive res (A : Type) : Type :=
| Ok (a : A)
| OutOfFuel
| PyError.            (* an exception the Python code would raise (ZeroDivisionError, KeyError) *)
Arguments Ok {A} a.
Arguments OutOfFuel {A}.
Arguments PyError {A}.

(* ---- finite sets of naturals as lists *)
Definition mem (x : nat) (l : list nat) : bool := existsb (Nat.eqb x) l.
Definition memZ (x : Z) (l : list Z) : bool := existsb (Z.eqb x) l.

Fixpoint canon (l : list nat) : list nat :=       (* keep the first occurrence of every member *)
  match l with
  | [] => []
  | x :: t => x :: filter (fun y => negb (Nat.eqb y x)) (canon t)
  end.

Definition card (l : list nat) : nat := length (canon l).          (* len(set(l)) *)
Definition inter (a b : list nat) : list nat := filter (fun x => mem x b) a.
Definition inter_card (a b : list nat) : nat := card (inter a b).   (* len(set(a) & set(b)) *)
Definition remove_elt (x : nat) (l : list nat) : list nat := filter (fun y => negb (Nat.eqb y x)) l.
Definition subset_b (a b : list nat) : bool := forallb (fun x => mem x b) a.
Definition seteq_b (a b : list nat) : bool := subset_b a b && subset_b b a.
Definition subsetZ_b (a b : list Z) : bool := forallb (fun x => memZ x b) a.
Definition seteqZ_b (a b : list Z) : bool := subsetZ_b a b && subsetZ_b b a.

Fixpoint remove_nth {A} (k : nat) (l : list A) : list A :=           (* list.pop(k) *)
  match l, k with
  | [], _ => []
  | _ :: t, 0 => t
  | x :: t, S k' => x :: remove_nth k' t
  end.

(* first element with the maximal key, with its position: the head of
   `sorted(enumerate(..), key, reverse=True)` (Python's sort is stable, also with reverse=True),
   `max(l, key=..)`, and the loop "if key > best: best = key" started from the first element. *)
Fixpoint first_max_from {A} (f : A -> nat) (l : list A) (i : nat) (bi : nat) (ba : A) (bv : nat)
  : nat * A * nat :=
  match l with
  | [] => (bi, ba, bv)
  | a :: t => if bv <? f a then first_max_from f t (S i) i a (f a)
              else first_max_from f t (S i) bi ba bv
  end.
Definition first_max {A} (f : A -> nat) (l : list A) : option (nat * A * nat) :=
  match l with
  | [] => None
  | a :: t => Some (first_max_from f t 1 0 a (f a))
  end.

(* ---- regions and clusters *)
Record region := mkRegion {
  rid : nat;                 (* identity of the region object *)
  rbasis : list nat;         (* region.get_basis_indices() *)
  rper : list bool           (* region.cell.get_pbc() *)
}.
Record cluster := mkCluster {
  cidx : list nat;           (* Cluster.indices *)
  cspec : list Z;            (* Cluster.species *)
  creg : region;             (* Cluster._region *)
  cmerged : bool;            (* Cluster._merged *)
  cradii : bool              (* Cluster._radii is not None *)
}.
Definition set_idx (c : cluster) (l : list nat) : cluster :=
  mkCluster l (cspec c) (creg c) (cmerged c) (cradii c).

Definition count_true (l : list bool) : nat := length (filter (fun b => b) l).
Definition region_ok (n : nat) (r : region) : bool :=     (* contract F0 on a returned region *)
  forallb (fun i => i <? n) (rbasis r) && ((count_true (rper r) =? 2) || (count_true (rper r) =? 3)).

(* ---- numeric side: radii-corrected distance matrix in Q *)
Definition Qmaxq (a b : Q) : Q := if Qle_bool a b then b else a.
Definition Qminq (a b : Q) : Q := if Qle_bool a b then a else b.
Definition Qlt_b (a b : Q) : bool := negb (Qle_bool b a).
(* np.clip(x, a_min=lo, a_max=hi) = minimum(maximum(x, lo), hi) *)
Definition clipq (lo hi x : Q) : Q := Qminq (Qmaxq x lo) hi.

Section Numeric.
  Variable D : nat -> nat -> Q.
  (* localize: distances.dist_matrix_radii_mic[i, :] < merge_radius *)
  Definition near_of (merge_radius : Q) (i j : nat) : bool := Qlt_b (D i j) merge_radius.
  (* clean: get_clusters clips to [0, 1.1*eps] and DBSCAN links d <= eps *)
  Definition bond_of (thr : Q) (i j : nat) : bool :=
    Qle_bool (clipq 0%Q ((11 # 10) * thr)%Q (D i j)) thr.
End Numeric.

(* matrix given as rows, and neighbour lists *)
Definition mat_fun (M : list (list Q)) (i j : nat) : Q := nth j (nth i M []) 0%Q.
Definition nbr_fun (L : list (list nat)) (i j : nat) : bool := mem j (nth i L []).
