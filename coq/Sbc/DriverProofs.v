(* Proofs about the front end and the driver loop. *)
From Coq Require Import List Arith Bool ZArith PeanoNat Lia.
Import ListNotations.
From MV Require Import Sbc.Common Sbc.CommonProofs Sbc.Driver.

(* ---------------------------------------------------------------- front end *)
Lemma fe_scan_None axes : forall c,
  fe_scan axes c = None <-> exists zp, In zp axes /\ fst zp = true /\ snd zp = true.
Proof.
  induction axes as [|[z p] t IH]; intros c; simpl.
  - split; [discriminate | intros [zp [[] _]]].
  - destruct z; simpl.
    + destruct p; simpl.
      * split; [intros _; exists (true, true); auto | reflexivity].
      * rewrite IH. split; intros [zp [H1 H2]]; exists zp.
        -- split; [right; assumption | assumption].
        -- destruct H1 as [H1|H1]; [subst; simpl in H2; destruct H2; discriminate | auto].
    + rewrite IH. split; intros [zp [H1 H2]]; exists zp.
      * split; [right; assumption | assumption].
      * destruct H1 as [H1|H1]; [subst; simpl in H2; destruct H2; discriminate | auto].
Qed.

(* ValueError  <->  some cell vector is zero and its axis is periodic *)
Theorem front_end_error_iff (z0 z1 z2 p0 p1 p2 : bool) :
  front_end [z0; z1; z2] [p0; p1; p2] = FeValueError
  <-> (z0 = true /\ p0 = true) \/ (z1 = true /\ p1 = true) \/ (z2 = true /\ p2 = true).
Proof.
  unfold front_end.
  destruct (fe_scan (combine [z0; z1; z2] [p0; p1; p2]) false) eqn:E.
  - split; [discriminate|]. intros H.
    assert (N : fe_scan (combine [z0; z1; z2] [p0; p1; p2]) false = None).
    { apply fe_scan_None. simpl.
      destruct H as [[? ?]|[[? ?]|[? ?]]]; subst;
        [exists (true, true) | exists (true, true) | exists (true, true)]; simpl; auto. }
    congruence.
  - split; [intros _|reflexivity]. apply fe_scan_None in E. destruct E as [[z p] [H1 [H2 H3]]].
    simpl in *. subst. destruct H1 as [H|[H|[H|[]]]]; inversion H; subst; auto.
Qed.

(* completion is requested exactly when a zero vector sits on a non-periodic axis (and no error) *)
Lemma fe_scan_Some axes : forall c b, fe_scan axes c = Some b ->
  b = c || existsb (fun zp => fst zp && negb (snd zp)) axes.
Proof.
  induction axes as [|[z p] t IH]; intros c b H; simpl in *.
  - inversion H. rewrite orb_false_r. reflexivity.
  - destruct z; simpl in *.
    + destruct p; simpl in *; [discriminate|]. apply IH in H. rewrite H. simpl. rewrite orb_true_r. reflexivity.
    + apply IH in H. assumption.
Qed.

(* ---------------------------------------------------------------- driver loop *)
Section DriverProofs.
  Variable setlist : list nat -> list nat.
  Hypothesis setlist_contract : setlist_ok setlist.
  Variable n : nat.
  Variable Znum : nat -> Z.
  Variable finder : nat -> nat -> option region * (nat -> bool).
  Variable choose : nat -> list nat -> nat.

  (* weak finder contract F0 (DESIGN.md section 4): mask[seed] is true; returned basis indices are in
     range; the region's cell has two or three periodic axes *)
  Definition F0 : Prop :=
    forall k s, s < n ->
      snd (finder k s) s = true /\
      match fst (finder k s) with
      | None => True
      | Some r => (forall i, In i (rbasis r) -> i < n) /\
                  (count_true (rper r) = 2 \/ count_true (rper r) = 3)
      end.
  Definition choose_ok : Prop := forall k l, l <> [] -> In (choose k l) l.

  Hypothesis HF0 : F0.
  Hypothesis Hchoose : choose_ok.

  Definition from_finder (r : region) : Prop := exists k s, s < n /\ fst (finder k s) = Some r.

  (* invariant of every cluster ever built (non-emptiness is separate: localize can empty a cluster) *)
  Definition wwf (c : cluster) : Prop :=
    NoDup (cidx c) /\ (forall i, In i (cidx c) -> i < n) /\
    (forall i, In i (cidx c) -> In (Znum i) (cspec c)) /\ from_finder (creg c) /\ cradii c = true.
  Definition wf (c : cluster) : Prop := wwf c /\ cidx c <> [].

  Lemma new_cluster_wf k s r : s < n -> fst (finder k s) = Some r -> wf (new_cluster setlist Znum s r).
  Proof.
    intros Hs Hr. destruct (HF0 k s Hs) as [_ H]. rewrite Hr in H. destruct H as [Hb Hp].
    destruct (setlist_contract (s :: rbasis r)) as [Hnd Hin].
    unfold wf, wwf, new_cluster; simpl. repeat split.
    - assumption.
    - intros i Hi. apply Hin in Hi. destruct Hi as [<-|Hi]; auto.
    - intros i Hi. apply in_map. assumption.
    - exists k, s. auto.
    - intro E. assert (In s (setlist (s :: rbasis r))) by (apply Hin; left; reflexivity). rewrite E in H. destruct H.
  Qed.

  Lemma filter_length_lt {A} (p : A -> bool) l x : In x l -> p x = false -> length (filter p l) < length l.
  Proof.
    induction l as [|a t IH]; simpl; [tauto|]. intros [<-|H] Hp.
    - rewrite Hp. pose proof (filter_len_le p t). lia.
    - specialize (IH H Hp). destruct (p a); simpl; lia.
  Qed.

  Lemma drive_ok : forall fuel k indices acc,
    (forall i, In i indices -> i < n) -> length indices <= fuel -> Forall wf acc ->
    exists cs k', drive setlist Znum finder choose fuel k indices acc = Ok (cs, k') /\ Forall wf cs.
  Proof.
    induction fuel as [|f IH]; intros k indices acc Hr Hl Hacc.
    - destruct indices; [|simpl in Hl; lia]. simpl. eauto.
    - destruct indices as [|i0 rest] eqn:Ei; [simpl; eauto|]. rewrite <- Ei in *.
      assert (Hne : indices <> []) by (rewrite Ei; discriminate).
      pose proof (Hchoose k indices Hne) as Hs.
      assert (Hsn : choose k indices < n) by (apply Hr; assumption).
      destruct (HF0 k (choose k indices) Hsn) as [Hm Hreg].
      rewrite Ei. cbn [drive]. rewrite <- Ei.
      destruct (finder k (choose k indices)) as [g mask] eqn:Ef. simpl in Hm, Hreg.
      set (ind1 := filter (fun i => negb (mask i)) indices).
      assert (L1 : length ind1 < length indices).
      { apply filter_length_lt with (x := choose k indices); [assumption|]. rewrite Hm. reflexivity. }
      assert (R1 : forall i, In i ind1 -> i < n).
      { intros i Hi. apply filter_In in Hi. apply Hr. tauto. }
      destruct g as [r|].
      + apply IH.
        * intros i Hi. apply filter_In in Hi. apply R1. tauto.
        * pose proof (filter_len_le (fun i => negb (mem i (cidx (new_cluster setlist Znum (choose k indices) r)))) ind1). lia.
        * apply Forall_app. split; [assumption|]. constructor; [|constructor].
          apply (new_cluster_wf k); [assumption | rewrite Ef; reflexivity].
      + apply IH; [assumption | lia | assumption].
  Qed.

  (* the driver loop terminates within n iterations and every cluster it builds is well formed *)
  Theorem drive_terminates :
    exists cs k', run_driver setlist Znum finder choose n = Ok (cs, k') /\ Forall wf cs.
  Proof.
    apply drive_ok.
    - intros i Hi. apply in_seq in Hi. lia.
    - rewrite seq_length. lia.
    - constructor.
  Qed.
End DriverProofs.
