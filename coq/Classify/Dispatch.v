(* Classify/Dispatch.v -- executable model of matid.classification.classifier.Classifier.classify
   (the dispatch after the dimensionality has been computed), of cross_validate_region, of the
   seed selection, of LinkedUnitCollection.get_basis_indices / get_connected_directions and of the
   basis_indices / outliers / prototype_cell views of classifications.Class2DWithCell.

   The periodic finder is an ORACLE: a function  seed -> max_cell_size -> pos_tol -> option region
   (a Section variable in the proofs, a lookup table in correspondence case files).  The
   dimensionality of the wrapped copy is an input ([dim]); so are the argsort of the distances to the
   centre of mass ([order]) and the float products pos_tol * global_min_dist ([scaled_tols]).

   Definitions only (stdlib style); proofs are in DispatchProofs.v. *)
From Coq Require Import List Bool Arith ZArith QArith Lia.
Import ListNotations.
Local Open Scope nat_scope.

(* ------------------------------------------------------------------------------------------ *)
(* classes, regions, outcomes                                                                  *)
(* ------------------------------------------------------------------------------------------ *)
Inductive cls := Unknown | Atom | Class0D | Class1D | Class2D | Surface | Material2D | Class3D.

Definition cls_eqb (a b : cls) : bool :=
  match a, b with
  | Unknown, Unknown | Atom, Atom | Class0D, Class0D | Class1D, Class1D | Class2D, Class2D
  | Surface, Surface | Material2D, Material2D | Class3D, Class3D => true
  | _, _ => false
  end.

Definition mult := (Z * Z * Z)%type.

(* What the classifier can see of a LinkedUnitCollection returned by PeriodicFinder.get_region. *)
Record region := mkRegion {
  rid : nat;                         (* identity of the returned object (call number in a script/log) *)
  units : list (list (option nat));  (* LinkedUnit.basis_indices of every unit; None = vacancy *)
  graph : list (list mult);          (* _search_graph: for every node the multipliers of its in-edges *)
  is_2d : bool;                      (* region.is_2d *)
  cell : option nat                  (* region.cell: Some k = a prototype cell (k atoms); None = attribute is None *)
}.

Inductive outcome :=
| Returned (c : cls) (reg : option region) (* a Classification object; reg = its .region if it has one *)
| ReturnedNone                              (* `classification` still None at the final return (dimensionality >= 4) *)
| RaisedTypeError                           (* `for tol in self.abs_pos_tol` with abs_pos_tol = None *)
| OutOfDomain.                              (* model domain error: argsort index outside the atom list *)

(* ------------------------------------------------------------------------------------------ *)
(* LinkedUnitCollection.get_basis_indices : the *set* of non-None indices of all units          *)
(* ------------------------------------------------------------------------------------------ *)
Definition memn (i : nat) (l : list nat) : bool := existsb (Nat.eqb i) l.

Fixpoint somes (l : list (option nat)) : list nat :=
  match l with
  | [] => []
  | None :: t => somes t
  | Some i :: t => i :: somes t
  end.

Definition basis_indices (r : region) : list nat := nodup Nat.eq_dec (flat_map somes (units r)).

(* Class2DWithCell.outliers : list(set(range(len(atoms))) - region.get_basis_indices()) *)
Definition outliers (n : nat) (r : region) : list nat :=
  filter (fun i => negb (memn i (basis_indices r))) (seq 0 n).

(* ------------------------------------------------------------------------------------------ *)
(* LinkedUnitCollection.get_connected_directions                                                *)
(* ------------------------------------------------------------------------------------------ *)
Definition mult_eqb (a b : mult) : bool :=
  let '(a1, a2, a3) := a in let '(b1, b2, b3) := b in
  (Z.eqb a1 b1 && Z.eqb a2 b2 && Z.eqb a3 b3)%bool.

Definition dir_vector (d : nat) : mult :=
  match d with
  | O => (1, 0, 0)%Z
  | S O => (0, 1, 0)%Z
  | _ => (0, 0, 1)%Z
  end.
Definition mneg (m : mult) : mult := let '(a, b, c) := m in (- a, - b, - c)%Z.

(* inner loop over the in-edges of one node *)
Definition has_both (edges : list mult) (d : nat) : bool :=
  existsb (fun m => mult_eqb m (dir_vector d)) edges
  && existsb (fun m => mult_eqb m (mneg (dir_vector d))) edges.

(* one iteration of `for node in G.nodes()`: directions -= dir_to_remove *)
Definition step_node (dirs : list nat) (edges : list mult) : list nat :=
  filter (fun d => negb (has_both edges d)) dirs.

Definition remaining_directions (g : list (list mult)) : list nat := fold_left step_node g [0; 1; 2].

(* connected_directions = [True]*3 ; connected_directions[list(directions)] = False *)
Definition connected_directions (r : region) : list bool :=
  map (fun d => negb (memn d (remaining_directions (graph r)))) [0; 1; 2].

Definition count_true (l : list bool) : nat := length (filter (fun b => b) l).

(* ------------------------------------------------------------------------------------------ *)
(* seed selection (seed_position = "cm")                                                        *)
(* ------------------------------------------------------------------------------------------ *)
Definition memz (z : Z) (l : list Z) : bool := existsb (Z.eqb z) l.
Definition removez (z : Z) (l : list Z) : list Z := filter (fun y => negb (Z.eqb z y)) l.
Definition is_nil {A} (l : list A) : bool := match l with [] => true | _ => false end.

(* for i in indices: if num[i] in elems: append, remove; if len(elems) == 0: break
   None = an index of [order] is outside [num] (cannot happen for an argsort; excluded in theorems) *)
Fixpoint pick_seeds (order : list nat) (num : list Z) (elems : list Z) : option (list nat) :=
  match order with
  | [] => Some []
  | i :: rest =>
      match nth_error num i with
      | None => None
      | Some e =>
          if memz e elems then
            let elems' := removez e elems in
            if is_nil elems' then Some [i]
            else option_map (cons i) (pick_seeds rest num elems')
          else if is_nil elems then Some []
          else pick_seeds rest num elems
      end
  end.

Definition seed_indices (order : list nat) (num : list Z) : option (list nat) :=
  pick_seeds order num (nodup Z.eq_dec num).

(* ------------------------------------------------------------------------------------------ *)
(* cross_validate_region                                                                        *)
(* ------------------------------------------------------------------------------------------ *)
Definition call := (nat * Q * Q)%type.   (* seed index, max_cell_size, pos_tol *)

(* for index in seed_indices: for size in self.max_cell_size: for tol in self.abs_pos_tol *)
Definition calls_of (seeds : list nat) (sizes tols : list Q) : list call :=
  flat_map (fun s => flat_map (fun z => map (fun t => (s, z, t)) tols) sizes) seeds.

Section CrossValidate.
  Variable finder : nat -> Q -> Q -> option region.
  Variable n : nat.    (* n_atoms = len(system) *)

  Definition ask (c : call) : option region := let '(s, z, t) := c in finder s z t.

  (* returns the best region and the number of finder calls made *)
  Fixpoint cv_loop (cs : list call) (best : option region) (most k : nat) : option region * nat :=
    match cs with
    | [] => (best, k)
    | c :: rest =>
        match ask c with
        | None => cv_loop rest best most (S k)
        | Some r =>
            let nb := length (basis_indices r) in
            if Nat.eqb nb n then (Some r, S k)
            else if Nat.ltb most nb then cv_loop rest (Some r) nb (S k)
            else cv_loop rest best most (S k)
        end
    end.

  Definition cross_validate (cs : list call) : option region * nat := cv_loop cs None 0 0.
End CrossValidate.

(* ------------------------------------------------------------------------------------------ *)
(* Classifier configuration, per-object state, input                                            *)
(* ------------------------------------------------------------------------------------------ *)
Record config := mkConfig {
  rel_pos : bool;               (* pos_tol_mode == "relative" *)
  rel_del : bool;               (* delaunay_threshold_mode == "relative" *)
  pos_tol : option (list Q);    (* self.pos_tol (a list after the constructor; None if absolute and not given) *)
  else_assigns : bool;          (* source fact, read from the AST on every run: the `if relative or relative:` block
                                   of classify has an `else:` that assigns self.abs_pos_tol = self.pos_tol
                                   (false for the unrepaired code, true after fixes/classifier-abs-pos-tol.diff) *)
  sizes : list Q;               (* self.max_cell_size *)
  min_cov : Q                   (* self.min_coverage *)
}.

(* The only attribute of the Classifier object that survives a call and is read later:
   self.abs_pos_tol (None after the constructor). *)
Definition state := option (list Q).
Definition initial_state : state := None.

Record input := mkInput {
  dim : option nat;          (* get_dimensionality of the wrapped copy *)
  n_atoms : nat;
  num : list Z;              (* atomic numbers *)
  order : list nat;          (* np.argsort of the distances to the centre of mass *)
  scaled_tols : list Q       (* np.array(self.pos_tol) * global_min_dist (binary64 products, as data) *)
}.

(* lines 188-207 *)
Definition update_state (cfg : config) (inp : input) (st : state) : state :=
  if (rel_pos cfg || rel_del cfg)%bool then
    (if rel_pos cfg then Some (scaled_tols inp) else pos_tol cfg)
  else if else_assigns cfg then pos_tol cfg
  else st.

Definition covered (cfg : config) (nb n : nat) : bool :=
  Qle_bool (min_cov cfg * inject_Z (Z.of_nat n))%Q (inject_Z (Z.of_nat nb)).

Section Classify.
  Variable finder : nat -> Q -> Q -> option region.
  Variable cfg : config.

  (* the dimensionality == 2 branch; also returns the number of finder calls *)
  Definition classify_2d (st' : state) (inp : input) : outcome * nat :=
    match seed_indices (order inp) (num inp) with
    | None => (OutOfDomain, 0)
    | Some seeds =>
        match st' with
        | None =>
            (* `for tol in None` is only reached inside the two outer loops *)
            if (is_nil seeds || is_nil (sizes cfg))%bool then (Returned Class2D None, 0)
            else (RaisedTypeError, 0)
        | Some tols =>
            let '(best, k) := cross_validate finder (n_atoms inp) (calls_of seeds (sizes cfg) tols) in
            match best with
            | None => (Returned Class2D None, k)
            | Some r =>
                let region_is_periodic := Nat.eqb (count_true (connected_directions r)) 2 in
                let cov := covered cfg (length (basis_indices r)) (n_atoms inp) in
                if (cov && region_is_periodic)%bool then
                  (if is_2d r then (Returned Material2D (Some r), k) else (Returned Surface (Some r), k))
                else (Returned Class2D None, k)
            end
        end
    end.

  (* one call of Classifier.classify on an object whose abs_pos_tol attribute is [st] *)
  Definition classify_step (st : state) (inp : input) : state * (outcome * nat) :=
    let st' := update_state cfg inp st in
    (st',
     match dim inp with
     | None => (Returned Unknown None, 0)
     | Some 0 => ((if Nat.eqb (n_atoms inp) 1 then Returned Atom None else Returned Class0D None), 0)
     | Some 1 => (Returned Class1D None, 0)
     | Some 2 => classify_2d st' inp
     | Some 3 => (Returned Class3D None, 0)
     | Some _ => (ReturnedNone, 0)
     end).

  Definition classify (st : state) (inp : input) : outcome := fst (snd (classify_step st inp)).
  Definition n_calls (st : state) (inp : input) : nat := snd (snd (classify_step st inp)).
End Classify.

(* ------------------------------------------------------------------------------------------ *)
(* Scripted / logged finder and the agreement relation used by the correspondence case files     *)
(* ------------------------------------------------------------------------------------------ *)
Definition call_eqb (a b : call) : bool :=
  let '(s1, z1, t1) := a in let '(s2, z2, t2) := b in
  (Nat.eqb s1 s2 && Qeq_bool z1 z2 && Qeq_bool t1 t2)%bool.

(* a region no script ever contains: answers of calls the implementation never made *)
Definition unscripted : region := mkRegion 4000 [] [] false None.

Fixpoint lookup (tbl : list (call * option region)) (c : call) : option region :=
  match tbl with
  | [] => Some unscripted
  | (c', a) :: t => if call_eqb c' c then a else lookup t c
  end.

Definition table_finder (tbl : list (call * option region)) : nat -> Q -> Q -> option region :=
  fun s z t => lookup tbl (s, z, t).

(* what the harness observed of one call of the real Classifier.classify *)
Record observed := mkObs {
  o_kind : nat;              (* 0 Classification returned, 1 None returned, 2 TypeError, 3 anything else *)
  o_cls : cls;               (* type of the classification (kind 0) *)
  o_has_region : bool;       (* it is a Class2DWithCell *)
  o_rid : nat;               (* identity tag of classification.region *)
  o_basis : list nat;        (* sorted(classification.basis_indices) *)
  o_outliers : list nat;     (* sorted(classification.outliers) *)
  o_cell : bool;             (* classification.prototype_cell is not None *)
  o_calls : list call        (* the get_region calls made, in order *)
}.

Definition incl_b (a b : list nat) : bool := forallb (fun i => memn i b) a.
Definition same_set (a b : list nat) : bool :=
  (incl_b a b && incl_b b a && Nat.eqb (length a) (length b))%bool.

Fixpoint calls_eqb (a b : list call) : bool :=
  match a, b with
  | [], [] => true
  | x :: a', y :: b' => (call_eqb x y && calls_eqb a' b')%bool
  | _, _ => false
  end.

Definition is_some {A} (o : option A) : bool := match o with Some _ => true | None => false end.

Definition agree_outcome (n : nat) (out : outcome) (obs : observed) : bool :=
  match out with
  | Returned c None =>
      (Nat.eqb (o_kind obs) 0 && cls_eqb c (o_cls obs) && negb (o_has_region obs))%bool
  | Returned c (Some r) =>
      (Nat.eqb (o_kind obs) 0 && cls_eqb c (o_cls obs) && o_has_region obs
       && Nat.eqb (rid r) (o_rid obs)
       && same_set (basis_indices r) (o_basis obs)
       && same_set (outliers n r) (o_outliers obs)
       && Bool.eqb (is_some (cell r)) (o_cell obs))%bool
  | ReturnedNone => Nat.eqb (o_kind obs) 1
  | RaisedTypeError => Nat.eqb (o_kind obs) 2
  | OutOfDomain => false
  end.

(* model and implementation agree on one call: same outcome, same sequence of finder calls *)
Definition agree (cfg : config) (st : state) (inp : input)
                 (tbl : list (call * option region)) (obs : observed) : bool :=
  let res := snd (classify_step (table_finder tbl) cfg st inp) in
  (agree_outcome (n_atoms inp) (fst res) obs
   && Nat.eqb (snd res) (length (o_calls obs))
   && match dim inp, update_state cfg inp st, seed_indices (order inp) (num inp) with
      | Some 2, Some tols, Some seeds =>
          calls_eqb (firstn (snd res) (calls_of seeds (sizes cfg) tols)) (o_calls obs)
      | _, _, _ => is_nil (o_calls obs)
      end)%bool.

(* two successive calls on the same Classifier object (the second starts from the state the first left) *)
Definition agree_twice (cfg : config) (inp : input)
                       (tbl : list (call * option region)) (obs1 obs2 : observed) : bool :=
  (agree cfg initial_state inp tbl obs1
   && agree cfg (fst (classify_step (table_finder tbl) cfg initial_state inp)) inp tbl obs2)%bool.
