(* Classify/DispatchProofs.v -- theorems about the model in Dispatch.v (stdlib style).
   Everything is proved for every finder (a Section variable), every configuration, every state
   of the Classifier object and every input. *)
From Coq Require Import List Bool Arith ZArith QArith Lia Permutation.
From MV Require Import Classify.Dispatch.
Import ListNotations.
Local Open Scope nat_scope.

(* ------------------------------------------------------------------------------------------ *)
(* sets of indices: basis_indices / outliers                                                    *)
(* ------------------------------------------------------------------------------------------ *)
Lemma memn_In i l : memn i l = true <-> In i l.
Proof.
  unfold memn. rewrite existsb_exists. split.
  - intros [x [H1 H2]]. apply Nat.eqb_eq in H2. subst; auto.
  - intros H. exists i. split; auto. apply Nat.eqb_refl.
Qed.

Lemma somes_In i l : In i (somes l) <-> In (Some i) l.
Proof.
  induction l as [|[j|] t IH]; simpl.
  - tauto.
  - rewrite IH. split; intros [H|H]; auto; left; congruence.
  - rewrite IH. split; [auto|]. intros [H|H]; [discriminate|auto].
Qed.

(* get_basis_indices is exactly the set of non-None entries of the units *)
Lemma basis_indices_In r i :
  In i (basis_indices r) <-> exists u, In u (units r) /\ In (Some i) u.
Proof.
  unfold basis_indices. rewrite nodup_In, in_flat_map.
  split; intros [u [H1 H2]]; exists u; split; auto; apply somes_In; auto.
Qed.

Lemma basis_nodup r : NoDup (basis_indices r).
Proof. apply NoDup_nodup. Qed.

Lemma outliers_In n r i : In i (outliers n r) <-> i < n /\ ~ In i (basis_indices r).
Proof.
  unfold outliers. rewrite filter_In, in_seq, negb_true_iff, <- not_true_iff_false, memn_In.
  split; intros [H1 H2]; split; auto; lia.
Qed.

Lemma outliers_nodup n r : NoDup (outliers n r).
Proof. apply NoDup_filter, seq_NoDup. Qed.

Definition in_range (n : nat) (r : region) : Prop := forall i, In i (basis_indices r) -> i < n.

(* basis and outliers partition {0..n-1} *)
Definition partitions (n : nat) (basis outl : list nat) : Prop :=
  NoDup basis /\ NoDup outl
  /\ (forall i, i < n <-> In i basis \/ In i outl)
  /\ (forall i, In i basis -> In i outl -> False)
  /\ length basis + length outl = n.

Lemma NoDup_app_disj {A} (l l' : list A) :
  NoDup l -> NoDup l' -> (forall x, In x l -> In x l' -> False) -> NoDup (l ++ l').
Proof.
  induction l as [|a l IH]; simpl; intros H1 H2 H3; auto.
  inversion H1; subst. constructor.
  - rewrite in_app_iff. intros [H|H]; auto. apply (H3 a); auto.
  - apply IH; auto. intros x Hx Hx'. apply (H3 x); auto.
Qed.

Lemma partition_of_in_range n r : in_range n r -> partitions n (basis_indices r) (outliers n r).
Proof.
  intros Hr. unfold partitions.
  assert (Hcov : forall i, i < n <-> In i (basis_indices r) \/ In i (outliers n r)).
  { intros i. rewrite outliers_In. split.
    - intros Hi. destruct (in_dec Nat.eq_dec i (basis_indices r)); auto.
    - intros [H|[H _]]; auto. }
  assert (Hdis : forall i, In i (basis_indices r) -> In i (outliers n r) -> False).
  { intros i H1 H2. apply outliers_In in H2. tauto. }
  split; [apply basis_nodup|]. split; [apply outliers_nodup|].
  split; [exact Hcov|]. split; [exact Hdis|].
  assert (Hp : Permutation (basis_indices r ++ outliers n r) (seq 0 n)).
  { apply NoDup_Permutation.
    - apply NoDup_app_disj; [apply basis_nodup|apply outliers_nodup|exact Hdis].
    - apply seq_NoDup.
    - intros i. rewrite in_app_iff, in_seq, <- Hcov. split; intros; lia. }
  rewrite <- app_length, (Permutation_length Hp). apply seq_length.
Qed.

(* the partition claim needs the finder contract: an out-of-range index breaks it *)
Lemma partition_needs_in_range n r : partitions n (basis_indices r) (outliers n r) -> in_range n r.
Proof. intros (_ & _ & Hcov & _) i Hi. apply Hcov; auto. Qed.

(* ------------------------------------------------------------------------------------------ *)
(* get_connected_directions                                                                     *)
(* ------------------------------------------------------------------------------------------ *)
Lemma fold_step_node_In g : forall dirs d,
  In d (fold_left step_node g dirs) <-> In d dirs /\ forall e, In e g -> has_both e d = false.
Proof.
  induction g as [|e g IH]; simpl; intros dirs d.
  - split; [intros H; split; [auto|intros ? []]|tauto].
  - rewrite IH. unfold step_node. rewrite filter_In, negb_true_iff. split.
    + intros [[H1 H2] H3]. split; auto. intros e' [<-|H]; auto.
    + intros [H1 H2]. split; [split|]; auto.
Qed.

(* direction d (0,1,2) is reported connected iff some node of the search graph has an in-edge with
   multiplier +e_d and an in-edge with multiplier -e_d *)
Theorem connected_directions_spec r d : d < 3 ->
  nth d (connected_directions r) false = true
  <-> exists e, In e (graph r) /\ has_both e d = true.
Proof.
  intros Hd. unfold connected_directions, remaining_directions.
  assert (H : forall d, In d [0;1;2] ->
     (negb (memn d (fold_left step_node (graph r) [0;1;2])) = true
      <-> exists e, In e (graph r) /\ has_both e d = true)).
  { intros d0 Hd0. rewrite negb_true_iff, <- not_true_iff_false, memn_In, fold_step_node_In. split.
    - intros Hn.
      destruct (existsb (fun e => has_both e d0) (graph r)) eqn:E.
      + apply existsb_exists in E. exact E.
      + exfalso. apply Hn. split; auto. intros e He.
        destruct (has_both e d0) eqn:E'; auto.
        assert (existsb (fun e => has_both e d0) (graph r) = true) by (apply existsb_exists; eauto).
        congruence.
    - intros [e [He Hb]] [_ Hall]. rewrite (Hall e He) in Hb. discriminate. }
  destruct d as [|[|[|d]]]; try lia; simpl; apply H; simpl; auto.
Qed.

Lemma connected_directions_length r : length (connected_directions r) = 3.
Proof. reflexivity. Qed.

(* ------------------------------------------------------------------------------------------ *)
(* cross_validate_region                                                                        *)
(* ------------------------------------------------------------------------------------------ *)
Section CV.
  Variable finder : nat -> Q -> Q -> option region.
  Variable n : nat.

  Definition size_of (c : call) : nat :=
    match ask finder c with None => 0 | Some r => length (basis_indices r) end.
  Definition is_full (c : call) : bool :=
    match ask finder c with None => false | Some r => Nat.eqb (length (basis_indices r)) n end.

  (* state of the loop: best/most_atoms are coherent *)
  Definition coherent (best : option region) (most : nat) : Prop :=
    match best with None => most = 0 | Some r => most = length (basis_indices r) /\ 0 < most end.

  (* a region with zero outliers stops the search: it is returned, and nothing after it is asked *)
  Lemma cv_loop_first_full : forall pre c post r best most k,
    (forall c', In c' pre -> is_full c' = false) ->
    ask finder c = Some r -> is_full c = true ->
    cv_loop finder n (pre ++ c :: post) best most k = (Some r, S (k + length pre)).
  Proof.
    induction pre as [|c0 pre IH]; intros c post r best most k Hpre Hc Hf; simpl.
    - unfold is_full in Hf. rewrite Hc in *. rewrite Hf. f_equal. lia.
    - assert (H0 : is_full c0 = false) by (apply Hpre; simpl; auto).
      unfold is_full in H0. destruct (ask finder c0) as [r0|] eqn:E0.
      + rewrite H0. destruct (Nat.ltb most (length (basis_indices r0)));
          rewrite (IH c post r) by (auto; intros; apply Hpre; simpl; auto); f_equal; lia.
      + rewrite (IH c post r) by (auto; intros; apply Hpre; simpl; auto). f_equal; lia.
  Qed.

  (* without such a region every call is made and the first region of maximal (positive) size wins *)
  Lemma cv_loop_no_full : forall cs best most k,
    (forall c, In c cs -> is_full c = false) -> coherent best most ->
    exists b, cv_loop finder n cs best most k = (b, k + length cs) /\
      ((b = best /\ forall c, In c cs -> size_of c <= most)
       \/ exists pre c post r, cs = pre ++ c :: post /\ b = Some r /\ ask finder c = Some r
            /\ most < length (basis_indices r)
            /\ (forall c', In c' pre -> size_of c' < length (basis_indices r))
            /\ (forall c', In c' post -> size_of c' <= length (basis_indices r))).
  Proof.
    induction cs as [|c cs IH]; intros best most k Hnf Hco; simpl.
    - exists best. split; [f_equal; lia|]. left. split; auto. intros ? [].
    - assert (H0 : is_full c = false) by (apply Hnf; simpl; auto).
      assert (Hnf' : forall c', In c' cs -> is_full c' = false) by (intros; apply Hnf; simpl; auto).
      unfold is_full in H0. destruct (ask finder c) as [r|] eqn:E.
      + rewrite H0. destruct (Nat.ltb most (length (basis_indices r))) eqn:Elt.
        * apply Nat.ltb_lt in Elt.
          destruct (IH (Some r) (length (basis_indices r)) (S k) Hnf') as [b [Hb Hcase]].
          { simpl. split; auto. lia. }
          exists b. split; [rewrite Hb; f_equal; lia|]. right.
          destruct Hcase as [[-> Hall]|(pre & c1 & post & r1 & -> & -> & Hc1 & Hlt & Hpre & Hpost)].
          -- exists [], c, cs, r. simpl. repeat split; auto. intros ? [].
          -- exists (c :: pre), c1, post, r1. simpl. repeat split; auto; try lia.
             intros c' [<-|H]; auto. unfold size_of. rewrite E. lia.
        * apply Nat.ltb_ge in Elt.
          destruct (IH best most (S k) Hnf' Hco) as [b [Hb Hcase]].
          exists b. split; [rewrite Hb; f_equal; lia|].
          destruct Hcase as [[-> Hall]|(pre & c1 & post & r1 & -> & -> & Hc1 & Hlt & Hpre & Hpost)].
          -- left. split; auto. intros c' [<-|H]; auto. unfold size_of. rewrite E. lia.
          -- right. exists (c :: pre), c1, post, r1. simpl. repeat split; auto.
             intros c' [<-|H]; auto. unfold size_of. rewrite E. lia.
      + destruct (IH best most (S k) Hnf' Hco) as [b [Hb Hcase]].
        exists b. split; [rewrite Hb; f_equal; lia|].
        destruct Hcase as [[-> Hall]|(pre & c1 & post & r1 & -> & -> & Hc1 & Hlt & Hpre & Hpost)].
        -- left. split; auto. intros c' [<-|H]; auto. unfold size_of. rewrite E. lia.
        -- right. exists (c :: pre), c1, post, r1. simpl. repeat split; auto.
           intros c' [<-|H]; auto. unfold size_of. rewrite E. lia.
  Qed.

  (* Complete characterisation of cross_validate_region. *)
  Inductive cv_result (cs : list call) : option region * nat -> Prop :=
  | cv_zero_outliers pre c post r :      (* first region with zero outliers wins; the search stops there *)
      cs = pre ++ c :: post -> ask finder c = Some r -> length (basis_indices r) = n ->
      (forall c', In c' pre -> is_full c' = false) ->
      cv_result cs (Some r, S (length pre))
  | cv_most_atoms pre c post r :         (* else: the first region of maximal, positive size *)
      cs = pre ++ c :: post -> ask finder c = Some r ->
      (forall c', In c' cs -> is_full c' = false) ->
      0 < length (basis_indices r) ->
      (forall c', In c' pre -> size_of c' < length (basis_indices r)) ->
      (forall c', In c' post -> size_of c' <= length (basis_indices r)) ->
      cv_result cs (Some r, length cs)
  | cv_nothing :                         (* else: nothing (every answer is None or an empty region) *)
      (forall c', In c' cs -> is_full c' = false) ->
      (forall c', In c' cs -> size_of c' = 0) ->
      cv_result cs (None, length cs).

  Lemma first_full_split : forall cs,
    (forall c, In c cs -> is_full c = false)
    \/ exists pre c post, cs = pre ++ c :: post /\ is_full c = true
                          /\ forall c', In c' pre -> is_full c' = false.
  Proof.
    induction cs as [|c cs IH].
    - left. intros ? [].
    - destruct (is_full c) eqn:E.
      + right. exists [], c, cs. simpl. repeat split; auto. intros ? [].
      + destruct IH as [H|(pre & c1 & post & -> & H1 & H2)].
        * left. intros c' [<-|H']; auto.
        * right. exists (c :: pre), c1, post. simpl. repeat split; auto.
          intros c' [<-|H']; auto.
  Qed.

  Theorem cross_validate_is_argmax cs : cv_result cs (cross_validate finder n cs).
  Proof.
    unfold cross_validate.
    destruct (first_full_split cs) as [Hnf|(pre & c & post & -> & Hf & Hpre)].
    - destruct (cv_loop_no_full cs None 0 0 Hnf eq_refl) as [b [Hb Hcase]].
      rewrite Hb. simpl.
      destruct Hcase as [[-> Hall]|(pre & c & post & r & Hcs & -> & Hc & Hlt & Hpre & Hpost)].
      + apply cv_nothing; auto. intros c' Hc'. specialize (Hall c' Hc'). lia.
      + eapply cv_most_atoms; eauto.
    - pose proof Hf as Hf'. unfold is_full in Hf'.
      destruct (ask finder c) as [r|] eqn:E; [|discriminate].
      rewrite (cv_loop_first_full pre c post r None 0 0 Hpre E Hf). simpl.
      eapply cv_zero_outliers; eauto. apply Nat.eqb_eq; auto.
  Qed.

  (* consequences used below *)
  Lemma cv_result_from_call cs r k : cv_result cs (Some r, k) -> exists c, In c cs /\ ask finder c = Some r.
  Proof.
    intros H. inversion H; subst; eexists; split; eauto; apply in_app_iff; right; left; reflexivity.
  Qed.

  Lemma cross_validate_from_finder cs r k :
    cross_validate finder n cs = (Some r, k) -> exists s z t, finder s z t = Some r.
  Proof.
    intros H. pose proof (cross_validate_is_argmax cs) as Hr. rewrite H in Hr.
    destruct (cv_result_from_call _ _ _ Hr) as [[[s z] t] [_ Hc]]. exists s, z, t. exact Hc.
  Qed.

  Lemma cross_validate_calls_le cs : snd (cross_validate finder n cs) <= length cs.
  Proof.
    pose proof (cross_validate_is_argmax cs) as Hr.
    remember (cross_validate finder n cs) as res eqn:E. clear E.
    destruct Hr as [pre c post r Hcs| |]; simpl; try lia.
    rewrite Hcs, app_length. simpl. lia.
  Qed.
End CV.

(* ------------------------------------------------------------------------------------------ *)
(* seed selection                                                                               *)
(* ------------------------------------------------------------------------------------------ *)
Lemma memz_In z l : memz z l = true <-> In z l.
Proof.
  unfold memz. rewrite existsb_exists. split.
  - intros [x [H1 H2]]. apply Z.eqb_eq in H2. subst; auto.
  - intros H. exists z. split; auto. apply Z.eqb_refl.
Qed.

Lemma removez_In z y l : In y (removez z l) <-> In y l /\ y <> z.
Proof.
  unfold removez. rewrite filter_In, negb_true_iff, Z.eqb_neq. split; intros [H1 H2]; split; auto.
Qed.

Lemma is_nil_true {A} (l : list A) : is_nil l = true <-> l = [].
Proof. destruct l; simpl; split; congruence. Qed.

Section Seeds.
  Variable num : list Z.

  Lemma pick_seeds_spec : forall order elems sd,
    pick_seeds order num elems = Some sd ->
    (forall s, In s sd -> In s order /\ exists e, nth_error num s = Some e /\ In e elems)
    /\ NoDup (map (nth_error num) sd)
    /\ (forall e, In e elems -> (exists i, In i order /\ nth_error num i = Some e) ->
                  exists s, In s sd /\ nth_error num s = Some e).
  Proof.
    induction order as [|i rest IH]; intros elems sd H; simpl in H.
    - injection H as <-. split; [intros s []|]. split; [constructor|].
      intros e _ [i [[] _]].
    - destruct (nth_error num i) as [e|] eqn:Ei; [|discriminate].
      destruct (memz e elems) eqn:Em.
      + apply memz_In in Em.
        destruct (is_nil (removez e elems)) eqn:En.
        * injection H as <-. apply is_nil_true in En. repeat split.
          -- destruct H as [<-|[]]. simpl; auto.
          -- destruct H as [<-|[]]. exists e. auto.
          -- simpl. constructor; [intros []|constructor].
          -- intros e0 He0 _. exists i. split; [simpl; auto|].
             destruct (Z.eq_dec e0 e) as [->|Hne]; auto.
             assert (Hin : In e0 (removez e elems)) by (apply removez_In; auto).
             rewrite En in Hin. destruct Hin.
        * destruct (pick_seeds rest num (removez e elems)) as [sd'|] eqn:Ep; [|discriminate].
          simpl in H. injection H as <-.
          destruct (IH _ _ Ep) as (Ha & Hb & Hc). repeat split.
          -- destruct H as [<-|H]; simpl; auto. right. apply Ha; auto.
          -- destruct H as [<-|H]; [exists e; auto|].
             destruct (Ha s H) as [_ [e' [H1 H2]]]. apply removez_In in H2. exists e'. tauto.
          -- simpl. constructor; auto. intros Hin. apply in_map_iff in Hin.
             destruct Hin as [s [Hs1 Hs2]]. destruct (Ha s Hs2) as [_ [e' [H1 H2]]].
             apply removez_In in H2. destruct H2 as [_ H2]. rewrite Ei in Hs1. congruence.
          -- intros e0 He0 [i0 [Hi0 Hn0]].
             destruct (Z.eq_dec e0 e) as [->|Hne]; [exists i; simpl; auto|].
             destruct Hi0 as [<-|Hi0]; [congruence|].
             destruct (Hc e0) as [s [Hs1 Hs2]]; [apply removez_In; auto|eauto|].
             exists s. simpl; auto.
      + assert (Hne : ~ In e elems) by (rewrite <- memz_In; congruence).
        destruct (is_nil elems) eqn:En.
        * injection H as <-. apply is_nil_true in En. subst elems.
          split; [intros s []|]. split; [constructor|]. intros e0 [].
        * destruct (IH _ _ H) as (Ha & Hb & Hc).
          split; [|split]; auto.
          -- intros s Hs. split; [right; apply Ha; auto|apply Ha; auto].
          -- intros e0 He0 [i0 [Hi0 Hn0]].
             destruct Hi0 as [<-|Hi0]; [congruence|]. apply Hc; eauto.
  Qed.

  Lemma pick_seeds_defined : forall order elems,
    (forall i, In i order -> i < length num) -> exists sd, pick_seeds order num elems = Some sd.
  Proof.
    induction order as [|i rest IH]; intros elems Hr; simpl; eauto.
    destruct (nth_error num i) as [e|] eqn:Ei.
    - destruct (memz e elems).
      + destruct (is_nil (removez e elems)); eauto.
        destruct (IH (removez e elems)) as [sd ->]; [intros; apply Hr; simpl; auto|]. simpl; eauto.
      + destruct (is_nil elems); eauto. apply IH. intros; apply Hr; simpl; auto.
    - apply nth_error_None in Ei. specialize (Hr i (or_introl eq_refl)). lia.
  Qed.
End Seeds.

(* seeds: one atom of every chemical species present, all in range *)
Theorem seed_indices_spec n num order :
  length num = n -> Permutation order (seq 0 n) ->
  exists seeds, seed_indices order num = Some seeds
    /\ (forall s, In s seeds -> s < n)
    /\ NoDup (map (nth_error num) seeds)
    /\ (forall i, i < n -> exists s, In s seeds /\ nth_error num s = nth_error num i)
    /\ (0 < n -> seeds <> []).
Proof.
  intros Hlen Hperm.
  assert (Hin : forall i, In i order <-> i < n).
  { intros i. split; intros H.
    - apply (Permutation_in _ Hperm), in_seq in H. lia.
    - apply (Permutation_in _ (Permutation_sym Hperm)), in_seq. lia. }
  destruct (pick_seeds_defined num order (nodup Z.eq_dec num)) as [sd Hsd].
  { intros i Hi. apply Hin in Hi. lia. }
  unfold seed_indices. exists sd. split; auto.
  destruct (pick_seeds_spec num _ _ _ Hsd) as (Ha & Hb & Hc).
  assert (Hcover : forall i, i < n -> exists s, In s sd /\ nth_error num s = nth_error num i).
  { intros i Hi. destruct (nth_error num i) as [e|] eqn:Ei.
    - apply Hc.
      + apply nodup_In. eapply nth_error_In; eauto.
      + exists i. split; auto. apply Hin; auto.
    - apply nth_error_None in Ei. lia. }
  repeat split; auto.
  - intros s Hs. apply Hin. apply Ha; auto.
  - intros Hn ->. destruct (Hcover 0 Hn) as [s [[] _]].
Qed.

(* ------------------------------------------------------------------------------------------ *)
(* the dispatch                                                                                  *)
(* ------------------------------------------------------------------------------------------ *)
Lemma covered_iff cfg nb n :
  covered cfg nb n = true <-> (min_cov cfg * inject_Z (Z.of_nat n) <= inject_Z (Z.of_nat nb))%Q.
Proof. unfold covered. apply Qle_bool_iff. Qed.

Definition is_2d_class (c : cls) : Prop := c = Class2D \/ c = Surface \/ c = Material2D.
Definition has_cell_class (c : cls) : Prop := c = Surface \/ c = Material2D.

(* the finder's weak contract F0, as far as the classifier depends on it: indices of the atoms of
   the system, and a prototype cell attached to the region *)
Definition F0 (finder : nat -> Q -> Q -> option region) (n : nat) : Prop :=
  forall s z t r, finder s z t = Some r -> in_range n r /\ cell r <> None.

Section ClassifyTheorems.
  Variable finder : nat -> Q -> Q -> option region.
  Variable cfg : config.

  Lemma update_state_idem inp st :
    update_state cfg inp (update_state cfg inp st) = update_state cfg inp st.
  Proof.
    unfold update_state. destruct (rel_pos cfg || rel_del cfg)%bool; auto.
    destruct (else_assigns cfg); auto.
  Qed.

  Lemma classify_step_via_update inp st1 st2 :
    update_state cfg inp st1 = update_state cfg inp st2 ->
    classify_step finder cfg st1 inp = classify_step finder cfg st2 inp.
  Proof. unfold classify_step. intros ->. reflexivity. Qed.

  (* In a relative mode nothing of an earlier call survives. *)
  Theorem classify_state_independent inp st1 st2 :
    (rel_pos cfg || rel_del cfg)%bool = true ->
    classify_step finder cfg st1 inp = classify_step finder cfg st2 inp.
  Proof.
    intros H. apply classify_step_via_update. unfold update_state. rewrite H. reflexivity.
  Qed.

  (* Calling classify again on the same object with the same input gives the same outcome, makes the
     same finder calls and leaves the object in the same state -- in every mode, from every state. *)
  Theorem repeated_call_same_result inp st :
    let st1 := fst (classify_step finder cfg st inp) in
    classify_step finder cfg st1 inp = classify_step finder cfg st inp.
  Proof.
    simpl. apply classify_step_via_update. unfold classify_step. simpl. apply update_state_idem.
  Qed.

  Theorem repeated_call_same_class inp st :
    classify finder cfg (fst (classify_step finder cfg st inp)) inp = classify finder cfg st inp.
  Proof. unfold classify. rewrite repeated_call_same_result. reflexivity. Qed.

  (* the 2D branch *)
  Lemma classify_2d_cases st' inp :
    match classify_2d finder cfg st' inp with
    | (Returned c None, _) => c = Class2D
    | (Returned c (Some r), k) =>
        has_cell_class c /\ (c = Material2D <-> is_2d r = true)
        /\ (exists tols seeds, st' = Some tols /\ seed_indices (order inp) (num inp) = Some seeds
              /\ cross_validate finder (n_atoms inp) (calls_of seeds (sizes cfg) tols) = (Some r, k))
        /\ covered cfg (length (basis_indices r)) (n_atoms inp) = true
        /\ count_true (connected_directions r) = 2
    | (ReturnedNone, _) => False
    | (RaisedTypeError, _) =>
        st' = None /\ exists seeds, seed_indices (order inp) (num inp) = Some seeds
                                   /\ seeds <> [] /\ sizes cfg <> []
    | (OutOfDomain, _) => seed_indices (order inp) (num inp) = None
    end.
  Proof.
    unfold classify_2d.
    destruct (seed_indices (order inp) (num inp)) as [seeds|] eqn:Es; auto.
    destruct st' as [tols|].
    - destruct (cross_validate finder (n_atoms inp) (calls_of seeds (sizes cfg) tols)) as [best k] eqn:Ecv.
      destruct best as [r|]; auto.
      destruct (covered cfg (length (basis_indices r)) (n_atoms inp)) eqn:Ec; simpl; auto.
      destruct (Nat.eqb (count_true (connected_directions r)) 2) eqn:Ep; simpl; auto.
      apply Nat.eqb_eq in Ep.
      destruct (is_2d r) eqn:E2; simpl.
      + repeat split; auto; try (right; reflexivity). exists tols, seeds. auto.
      + repeat split; auto; try (left; reflexivity); try congruence. exists tols, seeds. auto.
    - destruct (is_nil seeds || is_nil (sizes cfg))%bool eqn:E; auto.
      apply orb_false_iff in E. destruct E as [E1 E2].
      split; auto. exists seeds. repeat split; auto.
      + intros ->. discriminate.
      + intros Hs. rewrite Hs in E2. discriminate.
  Qed.

  (* The class table.  [dim] is the dimensionality of the wrapped copy. *)
  Theorem class_matches_dimensionality st inp :
    match dim inp with
    | None => classify finder cfg st inp = Returned Unknown None
    | Some 0 => classify finder cfg st inp
                = Returned (if Nat.eqb (n_atoms inp) 1 then Atom else Class0D) None
    | Some 1 => classify finder cfg st inp = Returned Class1D None
    | Some 2 =>
        (* provided the call returns at all (see returns_classification / both_absolute_raises) *)
        forall out, classify finder cfg st inp = out ->
          match out with
          | Returned c reg => is_2d_class c /\ (reg <> None <-> has_cell_class c)
          | ReturnedNone => False
          | RaisedTypeError => update_state cfg inp st = None
          | OutOfDomain => seed_indices (order inp) (num inp) = None
          end
    | Some 3 => classify finder cfg st inp = Returned Class3D None
    | Some _ => classify finder cfg st inp = ReturnedNone
    end.
  Proof.
    unfold classify, classify_step. simpl.
    destruct (dim inp) as [[|[|[|[|d]]]]|]; simpl; auto.
    - destruct (Nat.eqb (n_atoms inp) 1); reflexivity.
    - intros out <-.
      pose proof (classify_2d_cases (update_state cfg inp st) inp) as H.
      destruct (classify_2d finder cfg (update_state cfg inp st) inp) as [o k]. simpl.
      destruct o as [c [r|]| | |]; auto.
      + destruct H as (Hc & _). split.
        * destruct Hc as [->| ->]; unfold is_2d_class; auto.
        * split; auto. discriminate.
      + subst c. split; [left; reflexivity|]. split; [congruence|].
        intros [H|H]; discriminate.
      + tauto.
  Qed.

  (* When does the call return a Classification object?  Always, except for the combination
     pos_tol_mode = delaunay_threshold_mode = "absolute" (see both_absolute_raises). *)
  Theorem returns_classification st inp :
    (rel_pos cfg = true \/ (rel_del cfg = true /\ pos_tol cfg <> None) \/
     (rel_pos cfg = false /\ rel_del cfg = false /\ else_assigns cfg = true /\ pos_tol cfg <> None) \/
     (rel_pos cfg = false /\ rel_del cfg = false /\ else_assigns cfg = false /\ st <> None)) ->
    (forall d, dim inp = Some d -> d <= 3) ->
    seed_indices (order inp) (num inp) <> None ->
    exists c reg, classify finder cfg st inp = Returned c reg.
  Proof.
    intros Hmode Hdim Hseeds.
    assert (Hst : update_state cfg inp st <> None).
    { unfold update_state.
      destruct Hmode as [->|[[-> H]|[(-> & -> & -> & H)|(-> & -> & -> & H)]]]; simpl; auto.
      - discriminate.
      - destruct (rel_pos cfg); auto. discriminate. }
    pose proof (class_matches_dimensionality st inp) as H.
    destruct (dim inp) as [[|[|[|[|d]]]]|]; eauto.
    - specialize (H _ eq_refl).
      destruct (classify finder cfg st inp) as [c reg| | |]; eauto; tauto.
    - specialize (Hdim _ eq_refl). lia.
  Qed.

  (* With both modes "absolute" self.abs_pos_tol is never assigned: a freshly constructed
     Classifier raises TypeError on every two-dimensional structure. *)
  Theorem both_absolute_raises inp seeds :
    rel_pos cfg = false -> rel_del cfg = false -> else_assigns cfg = false -> dim inp = Some 2 ->
    seed_indices (order inp) (num inp) = Some seeds -> seeds <> [] -> sizes cfg <> [] ->
    classify finder cfg initial_state inp = RaisedTypeError.
  Proof.
    intros H1 H2 H3 Hd Hs Hne Hsz. unfold classify, classify_step, update_state. simpl.
    rewrite H1, H2, H3, Hd. simpl. unfold classify_2d. rewrite Hs.
    destruct seeds; [congruence|]. destruct (sizes cfg); [congruence|]. reflexivity.
  Qed.

  (* What a Surface / Material2D result carries, for every finder (no contract needed). *)
  Theorem surface_or_2d_region st inp c r :
    classify finder cfg st inp = Returned c (Some r) ->
    has_cell_class c
    /\ (c = Material2D <-> is_2d r = true)
    /\ dim inp = Some 2
    /\ (exists s z t, finder s z t = Some r)
    /\ (min_cov cfg * inject_Z (Z.of_nat (n_atoms inp)) <= inject_Z (Z.of_nat (length (basis_indices r))))%Q
    /\ count_true (connected_directions r) = 2
    /\ NoDup (basis_indices r) /\ NoDup (outliers (n_atoms inp) r)
    /\ (forall i, In i (outliers (n_atoms inp) r) <-> i < n_atoms inp /\ ~ In i (basis_indices r)).
  Proof.
    unfold classify, classify_step. simpl. intros H.
    destruct (dim inp) as [[|[|[|[|d]]]]|]; simpl in H; try discriminate.
    - destruct (Nat.eqb (n_atoms inp) 1); discriminate.
    - pose proof (classify_2d_cases (update_state cfg inp st) inp) as H2.
      destruct (classify_2d finder cfg (update_state cfg inp st) inp) as [o k]. simpl in H. subst o.
      destruct H2 as (Hc & Hm & (tols & seeds & _ & _ & Hcv) & Hcov & Hconn).
      split; [exact Hc|]. split; [exact Hm|]. split; [reflexivity|].
      split; [eapply cross_validate_from_finder; eauto|].
      split; [apply covered_iff; auto|]. split; [exact Hconn|].
      split; [apply basis_nodup|]. split; [apply outliers_nodup|].
      intros i. apply outliers_In.
  Qed.

  (* ... and conversely the refinements are the only results that carry a region *)
  Theorem region_iff_refinement st inp c reg :
    classify finder cfg st inp = Returned c reg -> (reg <> None <-> has_cell_class c).
  Proof.
    intros H. destruct reg as [r|].
    - destruct (surface_or_2d_region _ _ _ _ H) as (Hc & _). split; auto. discriminate.
    - split; [congruence|]. intros Hc.
      pose proof (class_matches_dimensionality st inp) as T.
      destruct (dim inp) as [[|[|[|[|d]]]]|]; try (rewrite H in T).
      + destruct (Nat.eqb (n_atoms inp) 1); injection T as ->; destruct Hc; discriminate.
      + injection T as ->; destruct Hc; discriminate.
      + specialize (T _ eq_refl). simpl in T. apply (proj2 (proj2 T)); auto.
      + injection T as ->; destruct Hc; discriminate.
      + discriminate.
      + injection T as ->; destruct Hc; discriminate.
  Qed.

  Section UnderF0.
    Variable inp : input.
    Hypothesis HF0 : F0 finder (n_atoms inp).

    (* Under the finder contract F0: prototype cell present, basis and outliers partition the atoms. *)
    Theorem surface_or_2d_has_region st c r :
      classify finder cfg st inp = Returned c (Some r) ->
      has_cell_class c
      /\ cell r <> None
      /\ (min_cov cfg * inject_Z (Z.of_nat (n_atoms inp)) <= inject_Z (Z.of_nat (length (basis_indices r))))%Q
      /\ count_true (connected_directions r) = 2
      /\ partitions (n_atoms inp) (basis_indices r) (outliers (n_atoms inp) r).
    Proof.
      intros H. destruct (surface_or_2d_region _ _ _ _ H) as (Hc & _ & _ & (s & z & t & Hf) & Hcov & Hconn & _).
      destruct (HF0 _ _ _ _ Hf) as [Hr Hcell].
      split; [exact Hc|]. split; [exact Hcell|]. split; [exact Hcov|]. split; [exact Hconn|].
      apply partition_of_in_range; auto.
    Qed.
  End UnderF0.
End ClassifyTheorems.

(* ------------------------------------------------------------------------------------------ *)
(* The property in one statement (model level)                                                   *)
(* ------------------------------------------------------------------------------------------ *)
Definition class_ok (d : option nat) (n : nat) (c : cls) : Prop :=
  match d with
  | None => c = Unknown
  | Some 0 => c = (if Nat.eqb n 1 then Atom else Class0D)
  | Some 1 => c = Class1D
  | Some 2 => is_2d_class c
  | Some 3 => c = Class3D
  | Some _ => False
  end.

(* what a well-formed input is: dimensionality in {None,0,1,2,3}, one atomic number per atom,
   [order] an argsort (a permutation of the atom indices) *)
Definition well_formed (inp : input) : Prop :=
  (forall d, dim inp = Some d -> d <= 3)
  /\ length (num inp) = n_atoms inp
  /\ Permutation (order inp) (seq 0 (n_atoms inp)).

(* at least one of the two modes is "relative" (the default is both), so that abs_pos_tol is set *)
Definition tolerances_assigned (cfg : config) : Prop :=
  rel_pos cfg = true \/ (rel_del cfg = true /\ pos_tol cfg <> None)
  \/ (rel_pos cfg = false /\ rel_del cfg = false /\ else_assigns cfg = true /\ pos_tol cfg <> None).

Theorem dispatch_statement finder cfg st inp :
  tolerances_assigned cfg -> well_formed inp -> F0 finder (n_atoms inp) ->
  exists c reg,
    classify finder cfg st inp = Returned c reg
    /\ class_ok (dim inp) (n_atoms inp) c
    /\ (reg <> None <-> has_cell_class c)
    /\ (forall r, reg = Some r ->
          cell r <> None
          /\ (min_cov cfg * inject_Z (Z.of_nat (n_atoms inp))
              <= inject_Z (Z.of_nat (length (basis_indices r))))%Q
          /\ count_true (connected_directions r) = 2
          /\ partitions (n_atoms inp) (basis_indices r) (outliers (n_atoms inp) r))
    /\ classify finder cfg (fst (classify_step finder cfg st inp)) inp = Returned c reg.
Proof.
  intros Hmode (Hdim & Hlen & Hperm) HF0.
  destruct (seed_indices_spec _ _ _ Hlen Hperm) as [seeds [Hseeds _]].
  destruct (returns_classification finder cfg st inp) as [c [reg Hret]]; auto.
  { destruct Hmode as [H|[H|H]]; auto. }
  { rewrite Hseeds. discriminate. }
  exists c, reg. split; auto. split; [|split; [|split]].
  - pose proof (class_matches_dimensionality finder cfg st inp) as T.
    unfold class_ok. destruct (dim inp) as [[|[|[|[|d]]]]|]; try congruence.
    specialize (T _ Hret). simpl in T. tauto.
  - eapply region_iff_refinement; eauto.
  - intros r ->. destruct (surface_or_2d_has_region finder cfg inp HF0 st c r Hret) as (_ & H); auto.
  - rewrite repeated_call_same_class. auto.
Qed.

(* ------------------------------------------------------------------------------------------ *)
(* Examples: non-vacuity of F0, necessity of F0, the both-absolute crash                         *)
(* ------------------------------------------------------------------------------------------ *)
Definition ex_region : region :=
  mkRegion 0 [[Some 0; Some 1]; [Some 2; None]; [Some 1; Some 2]]
           [[(1, 0, 0); (-1, 0, 0)]; [(0, 1, 0); (1, 1, 0); (0, -1, 0)]; [(0, 0, 1)]]%Z
           false (Some 1).
Definition ex_cfg : config := mkConfig true true (Some [3 # 4]%Q) false [12 # 1]%Q (1 # 2)%Q.
Definition ex_inp : input := mkInput (Some 2) 4 [29; 29; 29; 8]%Z [1; 0; 3; 2] [1 # 2]%Q.
Definition ex_finder : nat -> Q -> Q -> option region := fun _ _ _ => Some ex_region.

(* a finder satisfying F0 for which the classifier returns Surface with one outlier *)
Example F0_satisfiable :
  F0 ex_finder (n_atoms ex_inp) /\ well_formed ex_inp /\ tolerances_assigned ex_cfg
  /\ classify ex_finder ex_cfg initial_state ex_inp = Returned Surface (Some ex_region)
  /\ basis_indices ex_region = [0; 1; 2] /\ outliers 4 ex_region = [3]
  /\ connected_directions ex_region = [true; true; false]
  /\ n_calls ex_finder ex_cfg initial_state ex_inp = 2.
Proof.
  split; [|split; [|split]].
  - intros s z t r H. injection H as <-. split; [|discriminate].
    intros i Hi. vm_compute in Hi. simpl. intuition lia.
  - split; [|split].
    + intros d H. injection H as <-. lia.
    + reflexivity.
    + simpl. apply perm_trans with (l' := [0; 1; 3; 2]).
      * apply perm_swap.
      * do 2 apply perm_skip. apply perm_swap.
  - left. reflexivity.
  - vm_compute. repeat split.
Qed.

(* Without F0 the partition clause fails: a region that names an atom index outside the system. *)
Definition bad_region : region :=
  mkRegion 0 [[Some 0; Some 7]] [[(1, 0, 0); (-1, 0, 0); (0, 1, 0); (0, -1, 0)]]%Z false (Some 1).
Definition bad_inp : input := mkInput (Some 2) 2 [6; 6]%Z [0; 1] [1 # 2]%Q.

Example partition_needs_F0 :
  exists finder cfg inp r,
    well_formed inp /\ tolerances_assigned cfg
    /\ classify finder cfg initial_state inp = Returned Surface (Some r)
    /\ ~ partitions (n_atoms inp) (basis_indices r) (outliers (n_atoms inp) r).
Proof.
  exists (fun _ _ _ => Some bad_region), ex_cfg, bad_inp, bad_region.
  split; [|split; [|split]].
  - split; [|split].
    + intros d H. injection H as <-. lia.
    + reflexivity.
    + apply Permutation_refl.
  - left. reflexivity.
  - vm_compute. reflexivity.
  - intros H. apply partition_needs_in_range in H.
    assert (7 < 2) by (apply H; vm_compute; auto). lia.
Qed.

(* pos_tol_mode = delaunay_threshold_mode = "absolute": a fresh Classifier raises TypeError on a
   two-dimensional structure although the finder honours F0 (it is never even asked). *)
Definition abs_cfg : config := mkConfig false false (Some [1 # 2]%Q) false [12 # 1]%Q (1 # 2)%Q.

Example returns_normally_refuted_both_absolute :
  exists finder cfg inp,
    F0 finder (n_atoms inp) /\ well_formed inp
    /\ rel_pos cfg = false /\ rel_del cfg = false /\ else_assigns cfg = false /\ pos_tol cfg <> None
    /\ classify finder cfg initial_state inp = RaisedTypeError.
Proof.
  exists ex_finder, abs_cfg, ex_inp.
  destruct F0_satisfiable as (H1 & H2 & _).
  split; [exact H1|]. split; [exact H2|]. split; [reflexivity|]. split; [reflexivity|].
  split; [reflexivity|]. split; [discriminate|]. vm_compute. reflexivity.
Qed.

(* ------------------------------------------------------------------------------------------ *)
(* C18 (conditional): slab + adsorbates / monolayer, under the strong finder contract F1          *)
(* ------------------------------------------------------------------------------------------ *)
Lemma same_set_length (a b : list nat) :
  NoDup a -> NoDup b -> (forall i, In i a <-> In i b) -> length a = length b.
Proof. intros Ha Hb H. apply Permutation_length, NoDup_Permutation; auto. Qed.

Lemma in_calls_of s z t seeds sizes tols :
  In s seeds -> In z sizes -> In t tols -> In (s, z, t) (calls_of seeds sizes tols).
Proof.
  intros Hs Hz Ht. unfold calls_of. apply in_flat_map. exists s. split; auto.
  apply in_flat_map. exists z. split; auto. apply in_map_iff. exists t. auto.
Qed.

Lemma calls_of_seed c seeds sizes tols :
  In c (calls_of seeds sizes tols) -> In (fst (fst c)) seeds.
Proof.
  unfold calls_of. intros H. apply in_flat_map in H. destruct H as [s [Hs H]].
  apply in_flat_map in H. destruct H as [z [Hz H]]. apply in_map_iff in H.
  destruct H as [t [<- Ht]]. exact Hs.
Qed.

Lemma nonempty_In {A} (l : list A) : l <> [] -> exists x, In x l /\ 0 < length l.
Proof. destruct l as [|x l]; [congruence|]. intros _. exists x. simpl. split; auto. lia. Qed.

Section Recognition.
  Variable finder : nat -> Q -> Q -> option region.
  Variable cfg : config.
  Variable inp : input.
  Variable st : state.
  Variable slab : list nat.      (* the atoms of the slab / of the monolayer *)
  Variable two_d : bool.         (* true: monolayer (Material2D expected); false: slab (Surface expected) *)

  (* the answer F1 demands for a seed inside the crystal *)
  Definition whole_crystal (r : region) : Prop :=
    (forall i, In i (basis_indices r) <-> In i slab)
    /\ is_2d r = two_d
    /\ count_true (connected_directions r) = 2
    /\ cell r <> None.

  (* Strong contract F1 on this input:
     (i)  whatever seed and parameters: a returned region is either the whole crystal (with the right
          is_2d flag, wrapped around the cell in exactly two directions, prototype cell attached) or
          smaller than the crystal -- in particular nothing that large grows from an adsorbate;
     (ii) for at least one (max_cell_size, pos_tol) combination that the classifier tries, the whole
          crystal is found from every seed inside it. *)
  Definition F1 : Prop :=
    (forall s z t r, finder s z t = Some r ->
       whole_crystal r \/ length (basis_indices r) < length slab)
    /\ (forall tols, update_state cfg inp st = Some tols ->
          exists z t, In z (sizes cfg) /\ In t tols
                      /\ forall s, In s slab -> exists r, finder s z t = Some r /\ whole_crystal r).

  Hypothesis Hdim : dim inp = Some 2.
  Hypothesis Hwf : well_formed inp.
  Hypothesis Htols : update_state cfg inp st <> None.
  Hypothesis Hslab_nodup : NoDup slab.
  Hypothesis Hslab_range : forall i, In i slab -> i < n_atoms inp.
  Hypothesis Hslab_ne : slab <> [].
  Hypothesis Hcov : (min_cov cfg * inject_Z (Z.of_nat (n_atoms inp)) <= inject_Z (Z.of_nat (length slab)))%Q.
  (* the adsorbates are of species that do not occur in the slab *)
  Hypothesis Hspecies : forall i j, In i slab -> j < n_atoms inp -> ~ In j slab ->
                                     nth_error (num inp) i <> nth_error (num inp) j.
  Hypothesis HF1 : F1.

  Let n := n_atoms inp.

  Lemma slab_length_le : length slab <= n.
  Proof.
    rewrite <- (seq_length n 0). apply NoDup_incl_length; auto.
    intros i Hi. apply in_seq. specialize (Hslab_range i Hi). unfold n. lia.
  Qed.

  Theorem recognised :
    exists r,
      classify finder cfg st inp = Returned (if two_d then Material2D else Surface) (Some r)
      /\ (forall i, In i (basis_indices r) <-> In i slab)
      /\ (forall i, In i (outliers n r) <-> i < n /\ ~ In i slab)
      /\ cell r <> None.
  Proof.
    destruct Hwf as (_ & Hlen & Hperm).
    destruct (seed_indices_spec _ _ _ Hlen Hperm) as (seeds & Hseeds & Hsr & _ & Hsp & _).
    destruct (update_state cfg inp st) as [tols|] eqn:Hst; [|congruence].
    destruct HF1 as [HF1a HF1b].
    destruct (HF1b tols Hst) as (z0 & t0 & Hz0 & Ht0 & Hfind).
    (* a seed inside the slab *)
    assert (Hs0 : exists s0, In s0 seeds /\ In s0 slab).
    { destruct (nonempty_In slab Hslab_ne) as (i0 & Hi0 & _).
      destruct (Hsp i0) as [s [Hs1 Hs2]]; [apply Hslab_range; auto|].
      exists s. split; auto.
      destruct (in_dec Nat.eq_dec s slab) as [|Hn]; auto.
      exfalso. apply (Hspecies i0 s Hi0 (Hsr s Hs1) Hn). auto. }
    destruct Hs0 as (s0 & Hs0a & Hs0b).
    set (cs := calls_of seeds (sizes cfg) tols).
    assert (Hc0 : In (s0, z0, t0) cs) by (apply in_calls_of; auto).
    destruct (Hfind s0 Hs0b) as (r0 & Hr0 & Hw0).
    assert (Hsize0 : size_of finder (s0, z0, t0) = length slab).
    { unfold size_of. simpl. rewrite Hr0. apply same_set_length; auto using basis_nodup. apply Hw0. }
    (* whatever cross_validate returns is a whole-crystal region *)
    assert (Hcv : exists r k, cross_validate finder n cs = (Some r, k) /\ whole_crystal r).
    { pose proof (cross_validate_is_argmax finder n cs) as Hres.
      remember (cross_validate finder n cs) as res eqn:Eres.
      assert (Hfrom : forall c r, In c cs -> ask finder c = Some r ->
                length slab <= length (basis_indices r) -> whole_crystal r).
      { intros [[s z] t] r Hc Hask Hle. simpl in Hask.
        destruct (HF1a s z t r Hask) as [Hw|Hlt]; auto. lia. }
      destruct Hres as [pre c post r Hcs Hask Hfull Hpre
                       |pre c post r Hcs Hask Hnf Hpos Hpre Hpost
                       |Hnf Hzero].
      - exists r, (S (length pre)). split; auto.
        apply (Hfrom c r); auto.
        + rewrite Hcs. apply in_app_iff. right. left. reflexivity.
        + rewrite Hfull. apply slab_length_le.
      - exists r, (length cs). split; auto.
        apply (Hfrom c r); auto.
        + rewrite Hcs. apply in_app_iff. right. left. reflexivity.
        + rewrite <- Hsize0. rewrite Hcs in Hc0. apply in_app_iff in Hc0.
          destruct Hc0 as [H|[H|H]].
          * specialize (Hpre _ H). lia.
          * subst c. unfold size_of. rewrite Hask. lia.
          * apply Hpost; auto.
      - exfalso. specialize (Hzero _ Hc0). rewrite Hsize0 in Hzero.
        destruct (nonempty_In slab Hslab_ne) as (_ & _ & Hpos). lia. }
    destruct Hcv as (r & k & Hcv & Hw).
    destruct Hw as (Hb & H2d & Hconn & Hcell).
    exists r. split; [|split; [exact Hb|split; [|exact Hcell]]].
    - unfold classify, classify_step. simpl. rewrite Hdim. simpl.
      unfold classify_2d. rewrite Hseeds, Hst. fold cs. fold n. rewrite Hcv.
      assert (Hlen_r : length (basis_indices r) = length slab)
        by (apply same_set_length; auto using basis_nodup).
      assert (Hc : covered cfg (length (basis_indices r)) n = true).
      { apply covered_iff. rewrite Hlen_r. exact Hcov. }
      rewrite Hc, Hconn. simpl. rewrite H2d. destruct two_d; reflexivity.
    - intros i. rewrite outliers_In. rewrite Hb. tauto.
  Qed.

  (* no adsorbates: no outliers *)
  Corollary recognised_pristine :
    (forall i, i < n -> In i slab) ->
    exists r, classify finder cfg st inp = Returned (if two_d then Material2D else Surface) (Some r)
              /\ outliers n r = [].
  Proof.
    intros Hall. destruct recognised as (r & H1 & _ & H3 & _). exists r. split; auto.
    destruct (outliers n r) as [|i l] eqn:E; auto.
    exfalso. destruct (proj1 (H3 i) (or_introl eq_refl)) as [Hi Hn]. apply Hn, Hall, Hi.
  Qed.
End Recognition.

(* All hypotheses of [recognised] in one predicate: the contract that the conformance run validates. *)
Definition F1_contract (finder : nat -> Q -> Q -> option region) (cfg : config) (st : state)
           (inp : input) (slab : list nat) (two_d : bool) : Prop :=
  dim inp = Some 2 /\ well_formed inp /\ update_state cfg inp st <> None
  /\ NoDup slab /\ (forall i, In i slab -> i < n_atoms inp) /\ slab <> []
  /\ (min_cov cfg * inject_Z (Z.of_nat (n_atoms inp)) <= inject_Z (Z.of_nat (length slab)))%Q
  /\ (forall i j, In i slab -> j < n_atoms inp -> ~ In j slab ->
                  nth_error (num inp) i <> nth_error (num inp) j)
  /\ F1 finder cfg inp st slab two_d.

(* what C18 claims of one input: the class, and the outliers are exactly the atoms outside the crystal *)
Definition recognised_as (finder : nat -> Q -> Q -> option region) (cfg : config) (st : state)
           (inp : input) (slab : list nat) (two_d : bool) : Prop :=
  exists r,
    classify finder cfg st inp = Returned (if two_d then Material2D else Surface) (Some r)
    /\ (forall i, In i (basis_indices r) <-> In i slab)
    /\ (forall i, In i (outliers (n_atoms inp) r) <-> i < n_atoms inp /\ ~ In i slab)
    /\ cell r <> None.

Theorem contract_implies_recognised finder cfg st inp slab two_d :
  F1_contract finder cfg st inp slab two_d -> recognised_as finder cfg st inp slab two_d.
Proof.
  intros (H1 & H2 & H3 & H4 & H5 & H6 & H7 & H8 & H9).
  apply recognised; auto.
Qed.

Theorem contract_implies_no_outliers finder cfg st inp slab :
  F1_contract finder cfg st inp slab true -> (forall i, i < n_atoms inp -> In i slab) ->
  exists r, classify finder cfg st inp = Returned Material2D (Some r) /\ outliers (n_atoms inp) r = [].
Proof.
  intros (H1 & H2 & H3 & H4 & H5 & H6 & H7 & H8 & H9) Hall.
  apply (recognised_pristine finder cfg inp st slab true); auto.
Qed.

(* non-vacuity: a finder honouring F1 on a 3-atom slab with one adsorbate (atom 3, oxygen) *)
Definition f1_finder : nat -> Q -> Q -> option region :=
  fun s _ _ => if memn s [0; 1; 2] then Some ex_region else None.

Example F1_contract_satisfiable :
  F1_contract f1_finder ex_cfg initial_state ex_inp [0; 1; 2] false
  /\ classify f1_finder ex_cfg initial_state ex_inp = Returned Surface (Some ex_region)
  /\ outliers 4 ex_region = [3].
Proof.
  assert (Hw : whole_crystal [0; 1; 2] false ex_region).
  { split; [|split; [|split]]; try reflexivity; try discriminate. }
  split; [|split; vm_compute; reflexivity].
  split; [reflexivity|]. split; [apply F0_satisfiable|]. split; [discriminate|].
  split; [repeat constructor; simpl; intuition lia|].
  split; [simpl; intuition lia|]. split; [discriminate|].
  split; [vm_compute; discriminate|].
  split.
  - intros i j Hi Hj Hn.
    assert (j = 3) by (simpl in Hn, Hj; lia). subst j.
    destruct Hi as [<-|[<-|[<-|[]]]]; discriminate.
  - split.
    + intros s z t r H. unfold f1_finder in H. destruct (memn s [0; 1; 2]); [|discriminate].
      injection H as <-. left. exact Hw.
    + intros tols Ht. injection Ht as <-.
      exists (12 # 1)%Q, (1 # 2)%Q. split; [simpl; auto|].
      split.
      * simpl; auto.
      * intros s Hs. exists ex_region. split; auto.
        unfold f1_finder. apply memn_In in Hs. rewrite Hs. reflexivity.
Qed.
