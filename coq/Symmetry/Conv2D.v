(* C11 -- the 2D branch of matid/symmetry/symmetryanalyzer.py: executable model over Q, reusing the C20
   frame model (Geometry/Frame.v).

   Modelled, statement by statement:
     * set_system, n_pbc = 2: the symmetry-breaking vacuum  thickness' = max(5, 3 * get_thickness)  and the new
       cell row  thickness' * (old row / |old row|)   (the norm enters as the argument L, hypothesis L*L == c.c);
     * get_conventional_system, n_pbc = 2:
         - location of the non-periodic axis of the standardised cell through spglib's transformation matrix
           (first row with |row[i_pbc]| > prec and the two other entries < prec in absolute value, else MatIDError);
         - post-processing of the ideal system returned by the normalizer search: translation cell_center - pbc_cm
           with the entries [conv_pbc] zeroed, ASE's wrap (all three axes, eps = 1e-7), pbc := all true except the
           detected axis, swap_basis so that the non-periodic vector is last, get_minimized_cell(axis 2, min_2d_thickness);
     * get_material_id: the prefix "2D " (strings are lists of characters).
   NOT modelled (inputs of the model, produced by spglib / the normalizer search / arctan2): the transformation matrix,
   the ideal system (cell, positions, numbers) and the vector cell_center - pbc_cm.
   Only definitions and the agreement relations of the correspondence check live here; proofs are in Conv2DProofs.v. *)
From Coq Require Import ZArith QArith Qabs Qround List Bool Ascii String.
From MV Require Import Geometry.Frame.
Import ListNotations.
Open Scope Q_scope.

(* ------------------------------------------------------------------------------------------ *)
(* periodicity flags of the input                                                             *)
(* ------------------------------------------------------------------------------------------ *)
Definition b2n (b : bool) : nat := if b then 1%nat else 0%nat.
Definition n_pbc (b : B3) : nat := (b2n (bx b) + b2n (by_ b) + b2n (bz b))%nat.
(* np.argwhere(pbc == False)[0] *)
Definition first_false (b : B3) : option axis :=
  if negb (bx b) then Some A0 else if negb (by_ b) then Some A1 else if negb (bz b) then Some A2 else None.

(* ------------------------------------------------------------------------------------------ *)
(* set_system: the symmetry-breaking vacuum                                                   *)
(* ------------------------------------------------------------------------------------------ *)
(* max(5, 3 * thickness) *)
Definition vac_thickness (t : Q) : Q := qmax 5 (3 * t).
(* thickness * (old_basis / old_basis_len) *)
Definition vacuum_row (c : V3) (L t : Q) : V3 := vscale (vac_thickness t) (vscale (/ L) c).
(* the cell of _analyzed_system; positions, numbers and pbc of the copy are those of the input *)
Definition analyzed_cell (m : M3) (pbc : B3) (ps : list V3) (i : axis) (L : Q) : M3 :=
  set_row i m (vacuum_row (row i m) L (get_thickness m pbc ps i L)).

(* ------------------------------------------------------------------------------------------ *)
(* the non-periodic axis of the standardised cell                                             *)
(* ------------------------------------------------------------------------------------------ *)
Definition nxt (a : axis) : axis := match a with A0 => A1 | A1 => A2 | A2 => A0 end.   (* (i + 1) % 3 *)
(* abs(axis[i_pbc]) > prec and abs(axis[(i_pbc+1)%3]) < prec and abs(axis[(i_pbc+2)%3]) < prec *)
Definition axis_hit (prec : Q) (v : V3) (i : axis) : bool :=
  Qlt_bool prec (Qabs (getc i v)) && Qlt_bool (Qabs (getc (nxt i) v)) prec && Qlt_bool (Qabs (getc (nxt (nxt i)) v)) prec.
(* for i_axis, axis in enumerate(transformation_matrix): ... break ;  None = MatIDError *)
Definition detect (prec : Q) (T : M3) (i : axis) : option axis :=
  if axis_hit prec (r0 T) i then Some A0
  else if axis_hit prec (r1 T) i then Some A1
  else if axis_hit prec (r2 T) i then Some A2
  else None.

(* ------------------------------------------------------------------------------------------ *)
(* the post-processing pipeline                                                               *)
(* ------------------------------------------------------------------------------------------ *)
(* conv_pbc = [True, True, True]; conv_pbc[nonperiodic_axis] = False *)
Definition conv_pbc (np : axis) : B3 := setb np (mkB true true true) false.
(* translation[conv_pbc] = 0 : only the entry number np of the cartesian vector survives *)
Definition mask_translation (np : axis) (t : V3) : V3 := setc np vzero (getc np t).

(* ase.geometry.wrap_positions(positions, cell, pbc=True, center=0.5, eps): shift = -eps;
   fractional = solve(..) - shift;  fractional %= 1;  fractional += shift *)
Definition wrap_eps (eps q : Q) : Q := wrap1 (q + eps) - eps.
Definition wrap_eps_v (eps : Q) (s : V3) : V3 := mkV (wrap_eps eps (vx s)) (wrap_eps eps (vy s)) (wrap_eps eps (vz s)).
Definition ase_wrap (eps : Q) (m : M3) (p : V3) : V3 := to_cartesian m (wrap_eps_v eps (to_scaled m p)).

(* ideal_sys.translate(translation); ideal_sys.wrap()   (pbc is (True,True,True) at this point) *)
Definition centred (eps : Q) (m : M3) (ps : list V3) (np : axis) (t : V3) : list V3 :=
  map (fun p => ase_wrap eps m (vadd p (mask_translation np t))) ps.

(* set_pbc(conv_pbc); the first non-periodic index is np; if np != 2: swap_basis(ideal_sys, np, 2) *)
Definition swapped (s : Sys) (np : axis) : Sys :=
  match np with A2 => s | _ => swap_basis s np A2 end.

Definition pipeline (eps : Q) (m : M3) (nums : list Z) (ps : list V3) (np : axis) (t : V3) (ms L : Q) : MinCell :=
  let s := swapped (mkSys m (conv_pbc np) (centred eps m ps np t)) np in
  min_cell (s_cell s) (s_pbc s) nums (s_pos s) A2 ms L.

Inductive outcome :=
| ValueError_            (* "No symmetry routines defined for system that do not have 3D or 2D periodicity" *)
| Not2D                  (* three periodic directions: the bulk branch, not part of this model *)
| MatIDError_            (* "Could not detect the non-periodic direction in the normalized 2D cell." *)
| Conv (r : MinCell).

(* get_conventional_system for the given input flags; T, the ideal system (m, nums, ps) and t = cell_center - pbc_cm
   are what spglib, the normalizer search and get_center_of_mass returned *)
Definition conventional_2d (prec eps : Q) (in_pbc : B3) (T : M3) (m : M3) (nums : list Z) (ps : list V3)
           (t : V3) (ms L : Q) : outcome :=
  match n_pbc in_pbc with
  | 3%nat => Not2D
  | 2%nat =>
      match first_false in_pbc with
      | None => ValueError_     (* unreachable: two true flags leave one false flag *)
      | Some i =>
          match detect prec T i with
          | None => MatIDError_
          | Some np => Conv (pipeline eps m nums ps np t ms L)
          end
      end
  | _ => ValueError_
  end.

(* ------------------------------------------------------------------------------------------ *)
(* get_material_id: the string that is hashed                                                 *)
(* ------------------------------------------------------------------------------------------ *)
Definition chars := list ascii.
Definition sp : ascii := " "%char.
(* "{} {}".format(spg_number, wyckoff_string), prefixed by "2D " when n_pbc == 2;
   [digits] is the decimal numeral of the space-group number, [wy] the joined, sorted Wyckoff strings *)
Definition id_string (two_d : bool) (digits wy : chars) : chars :=
  (if two_d then ["2"%char; "D"%char; sp] else []) ++ digits ++ sp :: wy.
Definition is_digit (c : ascii) : bool := (48 <=? nat_of_ascii c)%nat && (nat_of_ascii c <=? 57)%nat.

(* ------------------------------------------------------------------------------------------ *)
(* agreement relations for the correspondence check                                           *)
(* ------------------------------------------------------------------------------------------ *)
(* vacuum rule: [ithick] = matid.geometry.get_thickness(input, i_pbc), [icell] = _analyzed_system.get_cell() *)
Definition agree_vacuum (tol : Q) (m : M3) (pbc : B3) (ps : list V3) (L ithick : Q) (icell : M3) : bool :=
  match first_false pbc with
  | None => false
  | Some i =>
      let t := get_thickness m pbc ps i L in
      length_ok tol (row i m) L
      && qclose_s tol (1 + Qabs t) t ithick
      && mclose tol (analyzed_cell m pbc ps i L) icell
      && rows_other_eqb i m icell
  end.

(* a scaled coordinate produced by ASE's wrap: equal up to tol, or -- only when the exact value sits within tol of
   the wrapping edge -eps / 1-eps -- equal up to tol modulo 1 *)
Definition edge_close (tol eps a b : Q) : bool :=
  qclose_s tol 1 a b
  || ((Qle_bool (Qabs (a + eps)) tol || Qle_bool (Qabs (a - (1 - eps))) tol)
      && (qclose_s tol 1 (a + 1) b || qclose_s tol 1 (a - 1) b)).
Definition sclose (tol eps : Q) (model impl : V3) : bool :=
  edge_close tol eps (vx model) (vx impl) && edge_close tol eps (vy model) (vy impl) && qclose_s tol 1 (vz model) (vz impl).
Fixpoint slclose (tol eps : Q) (model impl : list V3) : bool :=
  match model, impl with
  | [], [] => true
  | a :: t, b :: t' => sclose tol eps a b && slclose tol eps t t'
  | _, _ => false
  end.

Inductive impl_outcome := IValueError | IMatIDError | IOther | IConv (cell : M3) (pbc : B3) (nums : list Z) (scaled : list V3).

Definition agree_conv (tol prec eps : Q) (in_pbc : B3) (T m : M3) (nums : list Z) (ps : list V3) (t : V3) (ms L : Q)
           (impl : impl_outcome) : bool :=
  match conventional_2d prec eps in_pbc T m nums ps t ms L, impl with
  | ValueError_, IValueError => true
  | MatIDError_, IMatIDError => true
  | Conv r, IConv icell ipbc inums iscaled =>
      mclose tol (mc_cell r) icell && b3eqb (mc_pbc r) ipbc && zleqb (mc_numbers r) inums
      && slclose tol eps (mc_scaled r) iscaled
      && match first_false in_pbc with
         | Some i => match detect prec T i with Some np => length_ok tol (row np m) L | None => false end
         | None => false
         end
  | _, _ => false
  end.

(* the detection alone, for matrices that never reach the analyzer (malformed stream): [impl] is the index the
   reference loop of the harness finds, kept only as a cross-check of the literal translation *)
Definition axis_index (a : axis) : Z := match a with A0 => 0 | A1 => 1 | A2 => 2 end.
Definition agree_detect (prec : Q) (T : M3) (i : axis) (impl : Z) : bool :=
  match detect prec T i with
  | None => Z.eqb impl (-1)
  | Some a => Z.eqb impl (axis_index a)
  end.
