(* C05 core: applying a tabulated normalizer n to a decorated point set S that is closed under the
   space group G gives a set that is again closed under G and is the image of S under a PROPER
   operation: n itself when det n = +1, otherwise n composed with an improper element of G. *)
From Coq Require Import ZArith List Bool Lia.
Import ListNotations.
From MV Require Import Symmetry.Table Symmetry.Affine Reflect.GroupChecks Reflect.GroupChecksProofs
  Reflect.NormChecks Reflect.NormChecksProofs.
Open Scope Z_scope.

Section Congruence.
  Variable P : Type.                         (* points (fractional coordinates modulo the lattice) *)
  Variable ok : P -> Prop.                   (* canonical representatives *)
  Variable app : op -> P -> P.
  Hypothesis app_compose : forall a b p, app (op_compose a b) p = app a (app b p).
  Hypothesis app_ok : forall g p, ok (app g p).
  Hypothesis app_id : forall p, ok p -> app idop p = p.
  Variable G : list op.
  Hypothesis G_inverse : forall g, In g G ->
    exists gi, In gi G /\ op_compose g gi = idop /\ op_compose gi g = idop.

  Definition decorated := P -> Z -> Prop.    (* point, atomic number *)
  Definition wf (S : decorated) : Prop := forall p z, S p z -> ok p.
  Definition closed_under_G (S : decorated) : Prop := forall g p z, In g G -> S p z -> S (app g p) z.
  Definition image (n : op) (S : decorated) : decorated := fun q z => exists p, q = app n p /\ S p z.

  Lemma image_wf n S : wf (image n S).
  Proof. intros q z [p [-> _]]. apply app_ok. Qed.

  Lemma image_species n S q z : image n S q z -> exists p, S p z.
  Proof. intros [p [_ H]]. exists p. exact H. Qed.

  (* the image under a normalizer is again closed under G *)
  Theorem image_closed n S :
    op_compose n (op_inv n) = idop ->
    (forall g, In g G -> In (op_compose (op_inv n) (op_compose g n)) G) ->
    closed_under_G S -> closed_under_G (image n S).
  Proof.
    intros Hni Hnorm Hcl g q z Hg [p [-> Hs]].
    exists (app (op_compose (op_inv n) (op_compose g n)) p). split.
    - rewrite !app_compose. rewrite <- (app_compose n (op_inv n)), Hni. rewrite app_id by apply app_ok. reflexivity.
    - apply Hcl; [apply Hnorm; exact Hg | exact Hs].
  Qed.

  (* composing the normalizer with a group element does not change the image *)
  Theorem image_compose_group n g S : In g G -> wf S -> closed_under_G S ->
    forall q z, image n S q z <-> image (op_compose n g) S q z.
  Proof.
    intros Hg Hwf Hcl q z. split.
    - intros [p [-> Hs]]. destruct (G_inverse g Hg) as [gi [Hgi [E1 _]]].
      exists (app gi p). split; [|apply Hcl; assumption].
      rewrite app_compose, <- (app_compose g gi), E1, (app_id p (Hwf p z Hs)). reflexivity.
    - intros [p [-> Hs]]. exists (app g p). split; [apply app_compose | apply Hcl; assumption].
  Qed.

  (* chirality: the result is always the image of S under an operation of determinant +1 *)
  Theorem proper_image n S :
    (mdet (fst n) = 1 \/ mdet (fst n) = -1) ->
    (all_proper G = true -> mdet (fst n) = 1) ->
    (forall g, In g G -> mdet (fst g) = 1 \/ mdet (fst g) = -1) ->
    wf S -> closed_under_G S ->
    exists m, mdet (fst m) = 1 /\ (m = n \/ exists g, In g G /\ m = op_compose n g)
              /\ forall q z, image n S q z <-> image m S q z.
  Proof.
    intros Hdet Hhand HG Hwf Hcl. destruct Hdet as [H1|Hm1].
    - exists n. split; [exact H1|]. split; [left; reflexivity | tauto].
    - destruct (all_proper G) eqn:Ep; [specialize (Hhand eq_refl); lia|].
      unfold all_proper in Ep.
      assert (Hex : exists g, In g G /\ mdet (fst g) <> 1).
      { clear -Ep. induction G as [|g G' IH]; simpl in Ep; [discriminate|].
        destruct (mdet (fst g) =? 1) eqn:E; simpl in Ep.
        - destruct (IH Ep) as [g0 [Hin Hd]]. exists g0. split; [right; exact Hin | exact Hd].
        - exists g. split; [left; reflexivity | apply Z.eqb_neq; exact E]. }
      destruct Hex as [g [Hg Hd]]. destruct (HG g Hg) as [Hd1|Hd1]; [contradiction|].
      exists (op_compose n g). split; [|split].
      + unfold op_compose. simpl. rewrite mdet_mmul, Hm1, Hd1. reflexivity.
      + right. exists g. split; [exact Hg | reflexivity].
      + apply image_compose_group; [exact Hg | exact Hwf | exact Hcl].
  Qed.
End Congruence.

(* ---- the hypotheses are satisfiable: grid points (units of 1/24, canonical modulo 24) ------------ *)
Definition canon (p : v3) : Prop := v3mod p = p.

Lemma mod24_idem a : mod24 (mod24 a) = mod24 a.
Proof. unfold mod24. apply Z.mod_mod. lia. Qed.
Lemma v3mod_idem p : v3mod (v3mod p) = v3mod p.
Proof. destruct p as [[a b] c]. unfold v3mod. rewrite !mod24_idem. reflexivity. Qed.

Lemma op_apply_canon g p : canon (op_apply g p).
Proof. unfold canon, op_apply. apply v3mod_idem. Qed.

Lemma op_apply_id p : canon p -> op_apply idop p = p.
Proof.
  destruct p as [[a b] c]. unfold canon, op_apply, idop, mid, mvec, vadd, dot3, v3mod; cbn -[Z.mul Z.add mod24]. intros H.
  injection H as H1 H2 H3. f_equal; [f_equal|]; (match goal with |- mod24 ?x = ?y => replace x with y by ring end); assumption.
Qed.

Lemma op_apply_compose a b p : op_apply (op_compose a b) p = op_apply a (op_apply b p).
Proof.
  destruct a as [[[[[a11 a12] a13] [[a21 a22] a23]] [[a31 a32] a33]] [[s1 s2] s3]].
  destruct b as [[[[[b11 b12] b13] [[b21 b22] b23]] [[b31 b32] b33]] [[t1 t2] t3]].
  destruct p as [[p1 p2] p3].
  unfold op_apply, op_compose, v3mod, vadd, mvec, mmul, mcol, dot3; cbn -[Z.mul Z.add mod24].
  rewrite !mod24_lin3. rewrite !mod24_add_r.
  f_equal; [f_equal|]; f_equal; ring.
Qed.
