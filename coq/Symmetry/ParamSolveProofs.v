(* C08 -- what the solver model of ParamSolve.v guarantees.
   solver_sound      : by construction of the candidate test, no table fact needed
   entry_solvable_sound : meaning of the reflection checker of Reflect/SolveChecks.v
   solver_complete   : if every test position at parameter value v is (congruent to) an atom of the
                       set, the atom congruent to e1(v) passes every test; the call succeeds
   has_free_params_iff *)
From Coq Require Import ZArith List String Bool Lia.
Import ListNotations.
From MV Require Import Symmetry.Table Symmetry.Affine Symmetry.ParamSolve Reflect.GroupChecks Reflect.SolveChecks.
Open Scope Z_scope.

(* ---------- searching ----------------------------------------------------------------------------- *)
Lemma search_true close t atoms :
  search close t atoms = true <-> exists a, In a atoms /\ close t a = true.
Proof.
  induction atoms as [|a r IH]; simpl.
  - split; [discriminate | intros [a [[] _]]].
  - destruct (close t a) eqn:E.
    + split; [intros _; exists a; auto | reflexivity].
    + rewrite IH. split.
      * intros [b [Hb Hc]]. exists b. auto.
      * intros [b [[->|Hb] Hc]]; [congruence | exists b; auto].
Qed.

Lemma all_found_true ct atoms ts :
  all_found ct atoms ts = true <-> forall t, In t ts -> search ct t atoms = true.
Proof.
  induction ts as [|t r IH]; simpl.
  - split; [intros _ t [] | reflexivity].
  - destruct (search ct t atoms) eqn:E.
    + rewrite IH. split.
      * intros H t' [<-|Ht']; auto.
      * intros H t' Ht'. apply H. auto.
    + split; [discriminate|]. intros H. rewrite <- E. apply H. auto.
Qed.

(* ---------- soundness ----------------------------------------------------------------------------- *)
Lemma try_atom_sound rule cs ct vars exprs trans atoms e1 R W :
  try_atom rule cs ct vars exprs trans atoms e1 R = Some W ->
  W = solve_W rule vars e1 R
  /\ cs (eval e1 W) R = true
  /\ (forall t, In t (test_positions exprs trans W) -> exists a, In a atoms /\ ct t a = true).
Proof.
  unfold try_atom. cbv zeta.
  destruct (cs (eval e1 (solve_W rule vars e1 R)) R) eqn:E1; [|discriminate].
  destruct (all_found ct atoms (test_positions exprs trans (solve_W rule vars e1 R))) eqn:E2; [|discriminate].
  intros H. inversion H; subst W. split; [reflexivity|]. split; [exact E1|].
  intros t Ht. apply search_true. rewrite all_found_true in E2. apply E2. exact Ht.
Qed.

Lemma first_success_sound rule cs ct vars exprs trans atoms e1 cands W :
  first_success rule cs ct vars exprs trans atoms e1 cands = Some W ->
  exists R, In R cands /\ try_atom rule cs ct vars exprs trans atoms e1 R = Some W.
Proof.
  induction cands as [|R r IH]; simpl; [discriminate|].
  destruct (try_atom rule cs ct vars exprs trans atoms e1 R) as [W'|] eqn:E.
  - intros H. inversion H; subst W'. exists R. auto.
  - intros H. destruct (IH H) as [R' [Hin Ht]]. exists R'. auto.
Qed.

Lemma first_success_complete rule cs ct vars exprs trans atoms e1 cands R W :
  In R cands -> try_atom rule cs ct vars exprs trans atoms e1 R = Some W ->
  exists W', first_success rule cs ct vars exprs trans atoms e1 cands = Some W'.
Proof.
  induction cands as [|R0 r IH]; simpl; [intros []|].
  intros [->|Hin] Ht.
  - rewrite Ht. eauto.
  - destruct (try_atom rule cs ct vars exprs trans atoms e1 R0); [eauto | apply IH; assumption].
Qed.

Lemma first_success_head rule cs ct vars exprs trans atoms e1 cands R rest W :
  cands = R :: rest -> try_atom rule cs ct vars exprs trans atoms e1 R = Some W ->
  first_success rule cs ct vars exprs trans atoms e1 cands = Some W.
Proof. intros -> H. simpl. rewrite H. reflexivity. Qed.

Definition xyz_get (r : xyz) (i : nat) : option Z :=
  let '(x, y, z) := r in match i with 0%nat => x | 1%nat => y | _ => z end.

Lemma wrap1_range U snap z : 0 < U -> 0 <= wrap1 U snap z < U.
Proof.
  intros HU. unfold wrap1. cbv zeta. pose proof (Z.mod_pos_bound z U HU).
  destruct (z mod U <? snap); [lia|]. destruct (U - z mod U <? snap); lia.
Qed.

(* the wrap keeps the value modulo the lattice, except that values within `snap` (1e-5) of a lattice
   point are moved onto it *)
Lemma wrap1_spec U snap z :
  wrap1 U snap z = z mod U \/ (wrap1 U snap z = 0 /\ (z mod U < snap \/ U - z mod U < snap)).
Proof.
  unfold wrap1. cbv zeta.
  destruct (z mod U <? snap) eqn:E1; [right; split; [reflexivity|left; apply Z.ltb_lt; exact E1]|].
  destruct (U - z mod U <? snap) eqn:E2; [right; split; [reflexivity|right; apply Z.ltb_lt; exact E2]|].
  left. reflexivity.
Qed.

Lemma vget_wrapW U snap W i : vget (wrapW U snap W) i = wrap1 U snap (vget W i).
Proof. destruct W as [[a b] c]. destruct i as [|[|i]]; reflexivity. Qed.

Lemma report_get vars W i : (i < 3)%nat ->
  xyz_get (report vars W) i = if has_var vars i then Some (vget W i) else None.
Proof. intros Hi. destruct i as [|[|[|i]]]; try lia; reflexivity. Qed.

Lemma solve_W_get rule vars e1 R i : (i < 3)%nat ->
  vget (solve_W rule vars e1 R) i = if has_var vars i then solve_var rule (aM e1) (ac e1) R i else 0.
Proof. intros Hi. destruct i as [|[|[|i]]]; try lia; reflexivity. Qed.

Lemma vadd_0_r p : vadd p (0, 0, 0) = p.
Proof. destruct p as [[a b] c]. unfold vadd. rewrite !Z.add_0_r. reflexivity. Qed.

Lemma first_test_position exprs trans W e1 :
  hd_error exprs = Some e1 -> In (eval e1 W) (test_positions exprs trans W).
Proof.
  intros H. destruct exprs as [|e r]; [discriminate|]. inversion H; subst e.
  unfold test_positions. simpl. left. apply vadd_0_r.
Qed.

(* SOLVER SOUNDNESS.  Whatever the table and the atoms are: a returned result comes from an atom R
   of the set whose parameter vector W (read off R by the code's rule, zero for the variables that
   are not free) reproduces R through the first representative within the self-test tolerance, and
   ALL (n_trans+1).n_expr test positions at W -- the first of which is e1(W) itself -- lie within
   the symmetry tolerance of atoms of the set; exactly the free variables are reported; every
   reported value is in [0, U) and is W_i modulo the lattice, or 0 when W_i is within 1e-5 of a
   lattice point. *)
Theorem solver_sound U snap rule cs ct vars exprs trans atoms r :
  0 < U -> vars <> [] ->
  solve_set U snap rule cs ct vars exprs trans atoms = Some r ->
  exists e1 R W,
    hd_error exprs = Some e1 /\ In R atoms /\ W = solve_W rule vars e1 R
    /\ cs (eval e1 W) R = true
    /\ (forall t, In t (test_positions exprs trans W) -> exists a, In a atoms /\ ct t a = true)
    /\ (exists a, In a atoms /\ ct (eval e1 W) a = true)
    /\ (forall i, (i < 3)%nat -> has_var vars i = false -> vget W i = 0)
    /\ (forall i, (i < 3)%nat ->
          if has_var vars i
          then exists x, xyz_get r i = Some x /\ 0 <= x < U
                 /\ (x = vget W i mod U
                     \/ (x = 0 /\ (vget W i mod U < snap \/ U - vget W i mod U < snap)))
          else xyz_get r i = None).
Proof.
  intros HU Hv. unfold solve_set. destruct vars as [|v0 vs]; [congruence|].
  destruct exprs as [|e1 es]; [discriminate|].
  destruct (first_success rule cs ct (v0 :: vs) (e1 :: es) trans atoms e1 atoms) as [W|] eqn:E; [|discriminate].
  intros H. inversion H; subst r. clear H.
  destruct (first_success_sound _ _ _ _ _ _ _ _ _ _ E) as [R [HR Ht]].
  destruct (try_atom_sound _ _ _ _ _ _ _ _ _ _ Ht) as [HW [Hself Hall]].
  exists e1, R, W. repeat split; auto.
  - apply Hall. apply first_test_position. reflexivity.
  - intros i Hi Hf. subst W. rewrite solve_W_get by exact Hi. rewrite Hf. reflexivity.
  - intros i Hi. rewrite report_get by exact Hi. destruct (has_var (v0 :: vs) i); [|reflexivity].
    exists (vget (wrapW U snap W) i). split; [reflexivity|]. rewrite vget_wrapW.
    split; [apply wrap1_range; exact HU | apply wrap1_spec].
Qed.

(* no variables: nothing is solved, nothing can fail *)
Lemma solve_set_no_vars U snap rule cs ct exprs trans atoms :
  solve_set U snap rule cs ct [] exprs trans atoms = Some (None, None, None).
Proof. reflexivity. Qed.

(* ---------- congruence modulo the lattice ------------------------------------------------------- *)
Definition congZ (U a b : Z) : Prop := exists k, a = b + k * U.
Definition congV (U : Z) (a b : v3) : Prop :=
  congZ U (vget a 0) (vget b 0) /\ congZ U (vget a 1) (vget b 1) /\ congZ U (vget a 2) (vget b 2).

Lemma congZ_refl U a : congZ U a a.
Proof. exists 0. ring. Qed.
Lemma congZ_sym U a b : congZ U a b -> congZ U b a.
Proof. intros [k H]. exists (- k). rewrite H. ring. Qed.
Lemma congZ_trans U a b c : congZ U a b -> congZ U b c -> congZ U a c.
Proof. intros [k H] [l H']. exists (k + l). rewrite H, H'. ring. Qed.
Lemma congZ_mod U a b : congZ U a b -> a mod U = b mod U.
Proof. intros [k H]. rewrite H. apply Z_mod_plus_full. Qed.
Lemma mod_congZ U a b : U <> 0 -> a mod U = b mod U -> congZ U a b.
Proof.
  intros HU H. exists (a / U - b / U).
  pose proof (Z.div_mod a U HU). pose proof (Z.div_mod b U HU). rewrite H in H0. lia.
Qed.
Lemma congV_refl U a : congV U a a.
Proof. repeat split; apply congZ_refl. Qed.
Lemma congV_sym U a b : congV U a b -> congV U b a.
Proof. intros [H1 [H2 H3]]. repeat split; apply congZ_sym; assumption. Qed.
Lemma congV_trans U a b c : congV U a b -> congV U b c -> congV U a c.
Proof. intros [H1 [H2 H3]] [G1 [G2 G3]]. repeat split; eapply congZ_trans; eassumption. Qed.
Lemma congV_vget U a b i : congV U a b -> congZ U (vget a i) (vget b i).
Proof. intros [H1 [H2 H3]]. destruct i as [|[|i]]; destruct a as [[? ?] ?], b as [[? ?] ?]; simpl in *; assumption. Qed.
Lemma congV_vmodU U a b : congV U a b -> vmodU U a = vmodU U b.
Proof.
  destruct a as [[a1 a2] a3], b as [[b1 b2] b3]. intros [H1 [H2 H3]]. simpl in *.
  rewrite (congZ_mod _ _ _ H1), (congZ_mod _ _ _ H2), (congZ_mod _ _ _ H3). reflexivity.
Qed.
Lemma vmodU_congV U a b : U <> 0 -> vmodU U a = vmodU U b -> congV U a b.
Proof.
  destruct a as [[a1 a2] a3], b as [[b1 b2] b3]. intros HU H. simpl in H. inversion H.
  repeat split; simpl; apply mod_congZ; assumption.
Qed.

Lemma eval_cong U e W v : congV U W v -> congV U (eval e W) (eval e v).
Proof.
  destruct e as [[[[[m11 m12] m13] [[m21 m22] m23]] [[m31 m32] m33]] [[c1 c2] c3]].
  destruct W as [[w1 w2] w3], v as [[v1 v2] v3].
  intros [[k1 H1] [[k2 H2] [k3 H3]]]. simpl in H1, H2, H3. subst w1 w2 w3.
  unfold congV, eval, vadd, mvec, mtrans, mcol, dot3; simpl.
  split; [|split].
  - exists (m11 * k1 + m21 * k2 + m31 * k3). ring.
  - exists (m12 * k1 + m22 * k2 + m32 * k3). ring.
  - exists (m13 * k1 + m23 * k2 + m33 * k3). ring.
Qed.

Lemma vadd_cong U a b t : congV U a b -> congV U (vadd a t) (vadd b t).
Proof.
  destruct a as [[a1 a2] a3], b as [[b1 b2] b3], t as [[t1 t2] t3].
  intros [[k1 H1] [[k2 H2] [k3 H3]]]. simpl in *. subst.
  repeat split; simpl; [exists k1 | exists k2 | exists k3]; ring.
Qed.

Lemma wrap1_cong U snap a b : congZ U a b -> wrap1 U snap a = wrap1 U snap b.
Proof. intros H. unfold wrap1. rewrite (congZ_mod _ _ _ H). reflexivity. Qed.
Lemma wrapW_cong U snap a b : congV U a b -> wrapW U snap a = wrapW U snap b.
Proof.
  destruct a as [[a1 a2] a3], b as [[b1 b2] b3]. intros [H1 [H2 H3]]. simpl in *.
  rewrite (wrap1_cong _ _ _ _ H1), (wrap1_cong _ _ _ _ H2), (wrap1_cong _ _ _ _ H3). reflexivity.
Qed.

(* ---------- the two concrete distance rules accept congruent points --------------------------------- *)
Lemma close_exact_congruent U t a : vmodU U t = vmodU U a -> close_exact U t a = true.
Proof. intros H. unfold close_exact. rewrite H. apply v3_eqb_eq. reflexivity. Qed.

Lemma close_metric_congruent U G tol2 t a :
  0 < U -> 0 <= tol2 -> vmodU U t = vmodU U a -> close_metric U G tol2 t a = true.
Proof.
  intros HU Ht H. unfold close_metric, disp. rewrite H.
  destruct (vmodU U a) as [[a1 a2] a3]. rewrite !Z.sub_diag.
  assert (fold1 U 0 = 0) as ->.
  { unfold fold1. destruct (2 * 0 >? U) eqn:E1; [apply Z.gtb_lt in E1; lia|].
    destruct (2 * 0 <? - U) eqn:E2; [apply Z.ltb_lt in E2; lia|]. reflexivity. }
  destruct G as [[[[g11 g12] g13] [[g21 g22] g23]] [[g31 g32] g33]].
  unfold qform, mvec, dot3. apply Z.leb_le. lia.
Qed.

(* ---------- meaning of the reflection checker ------------------------------------------------------ *)
Lemma vget_eval M C v r :
  vget (eval (mkAff M C) v) r
  = vget v 0 * vget (mrow M 0) r + vget v 1 * vget (mrow M 1) r + vget v 2 * vget (mrow M 2) r + vget C r.
Proof.
  destruct M as [[[[m11 m12] m13] [[m21 m22] m23]] [[m31 m32] m33]].
  destruct C as [[c1 c2] c3], v as [[v1 v2] v3].
  destruct r as [|[|r]]; unfold eval, vadd, mvec, mtrans, mcol, dot3; simpl; ring.
Qed.

Lemma col_only_spec M idx r : (idx < 3)%nat -> col_only M idx r = true ->
  forall j, (j < 3)%nat -> vget (mrow M j) r = if Nat.eqb j idx then 1 else 0.
Proof.
  intros Hi H j Hj. unfold col_only in H. rewrite forallb_forall in H.
  assert (In j [0; 1; 2]%nat) as Hin by (destruct j as [|[|[|j]]]; simpl; auto; lia).
  specialize (H j Hin). destruct (Nat.eqb j idx); apply Z.eqb_eq; exact H.
Qed.

Lemma var_solvable_sound rule M idx : (idx < 3)%nat -> var_solvable rule M idx = true ->
  forall U C v R, congV U R (eval (mkAff M C) v) -> congZ U (solve_var rule M C R idx) (vget v idx).
Proof.
  intros Hi H U C v R HR. unfold var_solvable in H. unfold solve_var.
  destruct (first_one (mrow M idx)) as [ic|]; [|discriminate]. cbv zeta.
  set (r := if rule then ic else idx) in *.
  pose proof (col_only_spec M idx r Hi H) as Hc.
  pose proof (congV_vget U _ _ r HR) as [k Hk]. rewrite vget_eval in Hk.
  rewrite (Hc 0%nat), (Hc 1%nat), (Hc 2%nat) in Hk by lia.
  exists k. rewrite Hk. destruct idx as [|[|[|idx]]]; try lia; simpl; ring.
Qed.

(* FIRST_REP_SOLVABLE, meaning: for an atom R congruent to e1(v), the code's rule reads v back,
   modulo the lattice (v = 0 on the variables that are not free) *)
Lemma entry_solvable_sound rule vars e1 : entry_solvable rule vars e1 = true ->
  forall U v R,
    (forall i, (i < 3)%nat -> has_var vars i = false -> vget v i = 0) ->
    congV U R (eval e1 v) -> congV U (solve_W rule vars e1 R) v.
Proof.
  intros H U v R Hv HR. destruct e1 as [M C]. unfold entry_solvable in H. rewrite forallb_forall in H. simpl in H.
  assert (forall i, (i < 3)%nat -> congZ U (vget (solve_W rule vars (mkAff M C) R) i) (vget v i)) as Hall.
  { intros i Hi. rewrite solve_W_get by exact Hi. simpl.
    assert (In i [0; 1; 2]%nat) as Hin by (destruct i as [|[|[|i]]]; simpl; auto; lia).
    specialize (H i Hin). destruct (has_var vars i) eqn:E.
    - apply var_solvable_sound; assumption.
    - rewrite (Hv i Hi E). apply congZ_refl. }
  split; [|split]; apply Hall; lia.
Qed.

(* ---------- completeness -------------------------------------------------------------------------- *)
Section Complete.
  Variables (U snap : Z) (rule : bool) (cs ct : v3 -> v3 -> bool).
  (* the only thing assumed of the two tolerance tests: points congruent modulo the lattice match *)
  Hypothesis Hcs : forall t a, vmodU U t = vmodU U a -> cs t a = true.
  Hypothesis Hct : forall t a, vmodU U t = vmodU U a -> ct t a = true.
  Variables (vars : list string) (exprs : list aff) (trans : list v3) (atoms : list v3) (e1 : aff).
  Hypothesis Hhd : hd_error exprs = Some e1.
  Hypothesis Hsolv : entry_solvable rule vars e1 = true.
  Variable v : v3.
  Hypothesis Hv : forall i, (i < 3)%nat -> has_var vars i = false -> vget v i = 0.
  (* the set contains the positions of the letter at parameter value v *)
  Hypothesis Hcover : forall t e, In t ((0, 0, 0) :: trans) -> In e exprs ->
    exists a, In a atoms /\ congV U a (vadd (eval e v) t).

  Lemma congruent_atom_passes R : congV U R (eval e1 v) ->
    try_atom rule cs ct vars exprs trans atoms e1 R = Some (solve_W rule vars e1 R)
    /\ congV U (solve_W rule vars e1 R) v.
  Proof.
    intros HR. pose proof (entry_solvable_sound rule vars e1 Hsolv U v R Hv HR) as HW.
    split; [|exact HW]. unfold try_atom. cbv zeta.
    rewrite Hcs.
    2:{ apply congV_vmodU. eapply congV_trans; [apply eval_cong; exact HW | apply congV_sym; exact HR]. }
    assert (all_found ct atoms (test_positions exprs trans (solve_W rule vars e1 R)) = true) as ->; [|reflexivity].
    apply all_found_true. intros t Ht. apply search_true.
    unfold test_positions in Ht. apply in_flat_map in Ht. destruct Ht as [c [Hc Ht]].
    apply in_map_iff in Ht. destruct Ht as [e [<- He]].
    destruct (Hcover c e Hc He) as [a [Ha Hcong]]. exists a. split; [exact Ha|].
    apply Hct. apply congV_vmodU.
    eapply congV_trans; [apply vadd_cong; apply eval_cong; exact HW | apply congV_sym; exact Hcong].
  Qed.

  Lemma congruent_atom_exists : exists R, In R atoms /\ congV U R (eval e1 v).
  Proof.
    destruct (Hcover (0, 0, 0) e1) as [a [Ha Hc]]; [left; reflexivity | |].
    - destruct exprs as [|e r]; [discriminate|]. inversion Hhd. left. reflexivity.
    - exists a. split; [exact Ha|]. rewrite vadd_0_r in Hc. exact Hc.
  Qed.

  (* SOLVER COMPLETENESS: the call succeeds; the result is the wrapped parameter vector W of the first
     atom of the set (in index order) that passes the tests, every atom congruent to e1(v) passes and
     its W is v modulo the lattice; hence the result is wrap(v) when no earlier atom passes, in
     particular when such an atom is the first of the set *)
  Theorem solver_complete : vars <> [] ->
    (exists r, solve_set U snap rule cs ct vars exprs trans atoms = Some r)
    /\ (forall R, In R atoms -> congV U R (eval e1 v) ->
          try_atom rule cs ct vars exprs trans atoms e1 R = Some (solve_W rule vars e1 R)
          /\ wrapW U snap (solve_W rule vars e1 R) = wrapW U snap v)
    /\ (forall R rest, atoms = R :: rest -> congV U R (eval e1 v) ->
          solve_set U snap rule cs ct vars exprs trans atoms = Some (report vars (wrapW U snap v))).
  Proof.
    intros Hne. split; [|split].
    - destruct congruent_atom_exists as [R [HR Hc]].
      destruct (congruent_atom_passes R Hc) as [Hp _].
      destruct (first_success_complete _ _ _ _ _ _ _ _ _ _ _ HR Hp) as [W' HW'].
      unfold solve_set. destruct vars as [|v0 vs]; [congruence|].
      destruct exprs as [|e r]; [discriminate|]. inversion Hhd; subst e.
      rewrite HW'. eauto.
    - intros R _ Hc. destruct (congruent_atom_passes R Hc) as [Hp Hw]. split; [exact Hp|].
      apply wrapW_cong. exact Hw.
    - intros R rest Hat Hc. destruct (congruent_atom_passes R Hc) as [Hp Hw].
      unfold solve_set. destruct vars as [|v0 vs]; [congruence|].
      destruct exprs as [|e r]; [discriminate|]. inversion Hhd; subst e.
      rewrite (first_success_head _ _ _ _ _ _ _ _ _ _ _ _ Hat Hp).
      rewrite (wrapW_cong _ _ _ _ Hw). reflexivity.
  Qed.
End Complete.

(* ---------- on a C14 table entry, in units of 1/(24 s) ----------------------------------------------- *)
Definition aff_scale (s : Z) (e : aff) : aff := mkAff (aM e) (vscale s (ac e)).
Definition entry_of (s : Z) (w : iwyck) : list aff := map (aff_scale s) (iw_exprs w).
Definition trans_of (s : Z) (tr : list v3) : list v3 := map (vscale s) tr.

Lemma entry_solvable_scale rule vars s e : entry_solvable rule vars (aff_scale s e) = entry_solvable rule vars e.
Proof. reflexivity. Qed.

Theorem solver_complete_on_entry rule (w : iwyck) (tr : list v3) :
  wyck_solvable rule w = true -> iw_vars w <> [] ->
  forall (s snap : Z) (cs ct : v3 -> v3 -> bool), 0 < s ->
    (forall t a, vmodU (24 * s) t = vmodU (24 * s) a -> cs t a = true) ->
    (forall t a, vmodU (24 * s) t = vmodU (24 * s) a -> ct t a = true) ->
  forall (v : v3) (atoms : list v3),
    (forall i, (i < 3)%nat -> has_var (iw_vars w) i = false -> vget v i = 0) ->
    (forall c e, In c (centrings tr) -> In e (iw_exprs w) ->
       exists a, In a atoms /\ congV (24 * s) a (vadd (eval (aff_scale s e) v) (vscale s c))) ->
    exists e1, hd_error (iw_exprs w) = Some e1
    /\ (exists r, solve_set (24 * s) snap rule cs ct (iw_vars w) (entry_of s w) (trans_of s tr) atoms = Some r)
    /\ (forall R rest, atoms = R :: rest -> congV (24 * s) R (eval (aff_scale s e1) v) ->
          solve_set (24 * s) snap rule cs ct (iw_vars w) (entry_of s w) (trans_of s tr) atoms
          = Some (report (iw_vars w) (wrapW (24 * s) snap v))).
Proof.
  intros Hs Hne s snap cs ct Hpos Hcs Hct v atoms Hv Hcov.
  unfold wyck_solvable in Hs. destruct (iw_exprs w) as [|e1 es] eqn:Ee; [discriminate|].
  exists e1. split; [reflexivity|].
  assert (hd_error (entry_of s w) = Some (aff_scale s e1)) as Hhd by (unfold entry_of; rewrite Ee; reflexivity).
  assert (Hcover : forall t e, In t ((0, 0, 0) :: trans_of s tr) -> In e (entry_of s w) ->
            exists a, In a atoms /\ congV (24 * s) a (vadd (eval e v) t)).
  { intros t e Ht He. unfold entry_of in He. rewrite Ee in He. apply in_map_iff in He. destruct He as [e0 [<- He0]].
    assert (exists c, In c (centrings tr) /\ t = vscale s c) as [c [Hc ->]].
    { destruct Ht as [<-|Ht].
      - exists (0, 0, 0). split; [left; reflexivity|]. unfold vscale. rewrite Z.mul_0_r. reflexivity.
      - unfold trans_of in Ht. apply in_map_iff in Ht. destruct Ht as [c [<- Hc]]. exists c. split; [right; exact Hc | reflexivity]. }
    apply Hcov; assumption. }
  pose proof (solver_complete (24 * s) snap rule cs ct Hcs Hct (iw_vars w) (entry_of s w) (trans_of s tr) atoms
                (aff_scale s e1) Hhd Hs v Hv Hcover Hne) as [H1 [_ H3]].
  split; [exact H1 | exact H3].
Qed.

(* ---------- the flag -------------------------------------------------------------------------------- *)
Theorem has_free_params_iff varsets :
  has_free_params varsets = true <-> exists vs, In vs varsets /\ vs <> [].
Proof.
  unfold has_free_params. rewrite existsb_exists. split.
  - intros [vs [Hin Hn]]. exists vs. split; [exact Hin|]. destruct vs; [discriminate | congruence].
  - intros [vs [Hin Hn]]. exists vs. split; [exact Hin|]. destruct vs; [congruence | reflexivity].
Qed.

(* ---------- non-vacuity: a concrete entry (group 98, letter e, no centring, in units of 1/240) -------- *)
Definition ex_exprs : list aff :=
  [ mkAff ((-1, 1, 0), (0, 0, 0), (0, 0, 0)) (0, 0, 0);        (* -x, x, 0 *)
    mkAff ((1, -1, 0), (0, 0, 0), (0, 0, 0)) (0, 0, 120) ].    (*  x,-x, 1/2  (shortened orbit) *)
Definition ex_atoms : list v3 := [ (-37 + 240, 37, 0); (37, 240 - 37, 120 + 240) ].

(* with the component the code finds (rule = true) the entry is solvable and the call returns x = 37/240;
   reading component idx = 0 (rule = false) it is not, and the call fails *)
Example ex_solvable : entry_solvable true ["x"%string] (mkAff ((-1, 1, 0), (0, 0, 0), (0, 0, 0)) (0, 0, 0)) = true
                      /\ entry_solvable false ["x"%string] (mkAff ((-1, 1, 0), (0, 0, 0), (0, 0, 0)) (0, 0, 0)) = false.
Proof. split; reflexivity. Qed.

Example ex_complete_hypotheses_hold :
  solve_set 240 0 true (close_exact 240) (close_exact 240) ["x"%string] ex_exprs [] ex_atoms
  = Some (report ["x"%string] (wrapW 240 0 (37, 0, 0))).
Proof.
  assert (H := solver_complete 240 0 true (close_exact 240) (close_exact 240)
                 (close_exact_congruent 240) (close_exact_congruent 240)
                 ["x"%string] ex_exprs [] ex_atoms (mkAff ((-1, 1, 0), (0, 0, 0), (0, 0, 0)) (0, 0, 0))
                 eq_refl (proj1 ex_solvable) (37, 0, 0)).
  assert (Hv : forall i : nat, (i < 3)%nat -> has_var ["x"%string] i = false -> vget (37, 0, 0) i = 0).
  { intros i Hi. destruct i as [|[|[|i]]]; try lia; simpl; intros; try reflexivity; discriminate. }
  assert (Hcov : forall t e, In t [(0, 0, 0)] -> In e ex_exprs ->
            exists a, In a ex_atoms /\ congV 240 a (vadd (eval e (37, 0, 0)) t)).
  { intros t e [<-|[]] [<-|[<-|[]]].
    - exists (-37 + 240, 37, 0). split; [left; reflexivity|]. repeat split; simpl; [exists 1 | exists 0 | exists 0]; reflexivity.
    - exists (37, 240 - 37, 120 + 240). split; [right; left; reflexivity|]. repeat split; simpl; [exists 0 | exists 1 | exists 1]; reflexivity. }
  destruct (H Hv Hcov ltac:(discriminate)) as [_ [_ H3]].
  apply (H3 _ _ eq_refl). repeat split; simpl; [exists 1 | exists 0 | exists 0]; reflexivity.
Qed.

Example ex_unpatched_rule_fails :
  solve_set 240 0 false (close_exact 240) (close_exact 240) ["x"%string] ex_exprs [] ex_atoms = None.
Proof. vm_compute. reflexivity. Qed.
