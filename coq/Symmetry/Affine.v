(* Exact affine arithmetic for space-group operations and parametrised Wyckoff positions.
   Rotation parts are integer 3x3 matrices acting on column vectors, translation parts are
   integers in units of 1/24 taken modulo 24 (i.e. modulo lattice translations). *)
From Coq Require Import ZArith List Bool Lia.
Import ListNotations.
From MV Require Import Symmetry.Table.
Open Scope Z_scope.

Definition dot3 (a b : v3) : Z :=
  let '(a1, a2, a3) := a in let '(b1, b2, b3) := b in a1 * b1 + a2 * b2 + a3 * b3.
Definition vadd (a b : v3) : v3 :=
  let '(a1, a2, a3) := a in let '(b1, b2, b3) := b in (a1 + b1, a2 + b2, a3 + b3).
Definition vsub (a b : v3) : v3 :=
  let '(a1, a2, a3) := a in let '(b1, b2, b3) := b in (a1 - b1, a2 - b2, a3 - b3).
Definition vscale (k : Z) (a : v3) : v3 := let '(a1, a2, a3) := a in (k * a1, k * a2, k * a3).
Definition v3_eqb (a b : v3) : bool :=
  let '(a1, a2, a3) := a in let '(b1, b2, b3) := b in (a1 =? b1) && (a2 =? b2) && (a3 =? b3).

Definition mrow (m : m3) (i : nat) : v3 :=
  let '(r1, r2, r3) := m in match i with 0%nat => r1 | 1%nat => r2 | _ => r3 end.
Definition mcol (m : m3) (j : nat) : v3 :=
  let '((a, b, c), (d, e, f), (g, h, i)) := m in
  match j with 0%nat => (a, d, g) | 1%nat => (b, e, h) | _ => (c, f, i) end.
Definition mtrans (m : m3) : m3 := (mcol m 0, mcol m 1, mcol m 2).
Definition mvec (m : m3) (x : v3) : v3 :=
  let '(r1, r2, r3) := m in (dot3 r1 x, dot3 r2 x, dot3 r3 x).
Definition mmul (a b : m3) : m3 :=
  let '(r1, r2, r3) := a in
  let c1 := mcol b 0 in let c2 := mcol b 1 in let c3 := mcol b 2 in
  ((dot3 r1 c1, dot3 r1 c2, dot3 r1 c3),
   (dot3 r2 c1, dot3 r2 c2, dot3 r2 c3),
   (dot3 r3 c1, dot3 r3 c2, dot3 r3 c3)).
Definition m3_eqb (a b : m3) : bool :=
  let '(a1, a2, a3) := a in let '(b1, b2, b3) := b in v3_eqb a1 b1 && v3_eqb a2 b2 && v3_eqb a3 b3.
Definition mid : m3 := ((1, 0, 0), (0, 1, 0), (0, 0, 1)).
Definition mdet (m : m3) : Z :=
  let '((a, b, c), (d, e, f), (g, h, i)) := m in
  a * (e * i - f * h) - b * (d * i - f * g) + c * (d * h - e * g).
Definition madj (m : m3) : m3 :=
  let '((a, b, c), (d, e, f), (g, h, i)) := m in
  ((e * i - f * h, c * h - b * i, b * f - c * e),
   (f * g - d * i, a * i - c * g, c * d - a * f),
   (d * h - e * g, b * g - a * h, a * e - b * d)).
Definition mscale (k : Z) (m : m3) : m3 :=
  let '(r1, r2, r3) := m in (vscale k r1, vscale k r2, vscale k r3).
Definition mtrace (m : m3) : Z := let '((a, _, _), (_, e, _), (_, _, i)) := m in a + e + i.

(* space-group operation x |-> R x + t/24 *)
Definition op := (m3 * v3)%type.
Definition op_eqb (a b : op) : bool := m3_eqb (fst a) (fst b) && v3_eqb (snd a) (snd b).
Definition op_norm (a : op) : op := (fst a, v3mod (snd a)).
Definition op_compose (a b : op) : op :=
  (mmul (fst a) (fst b), v3mod (vadd (mvec (fst a) (snd b)) (snd a))).
(* inverse, meaningful when det R = +-1 *)
Definition op_inv (a : op) : op :=
  let d := mdet (fst a) in
  let ri := mscale d (madj (fst a)) in
  (ri, v3mod (vscale (-1) (mvec ri (snd a)))).
Definition op_mem (x : op) (l : list op) : bool := existsb (op_eqb x) l.

(* action of an operation on a parametrised position *)
Definition act (g : op) (e : aff) : aff :=
  let '(m1, m2, m3') := aM e in
  mkAff (mvec (fst g) m1, mvec (fst g) m2, mvec (fst g) m3')
        (v3mod (vadd (mvec (fst g) (ac e)) (snd g))).
Definition aff_eqb (a b : aff) : bool := m3_eqb (aM a) (aM b) && v3_eqb (ac a) (ac b).
Definition aff_mem (x : aff) (l : list aff) : bool := existsb (aff_eqb x) l.
Definition aff_shift (t : v3) (e : aff) : aff := mkAff (aM e) (v3mod (vadd (ac e) t)).

(* evaluation of a parametrised position at integer parameter values (in units of 1/24) *)
Definition aff_eval (e : aff) (w : v3) : v3 :=
  v3mod (vadd (mvec (mtrans (aM e)) w) (ac e)).

(* the operation that maps the first general-position representative e1 (aM = identity) to e *)
Definition op_of (e1 e : aff) : op :=
  let r := mtrans (aM e) in (r, v3mod (vsub (ac e) (mvec r (ac e1)))).

Lemma v3_eqb_eq a b : v3_eqb a b = true <-> a = b.
Proof.
  destruct a as [[a1 a2] a3], b as [[b1 b2] b3]. unfold v3_eqb.
  rewrite !andb_true_iff, !Z.eqb_eq. split.
  - intros [[-> ->] ->]; reflexivity.
  - intros H; inversion H; auto.
Qed.
Lemma m3_eqb_eq a b : m3_eqb a b = true <-> a = b.
Proof.
  destruct a as [[a1 a2] a3], b as [[b1 b2] b3]. unfold m3_eqb.
  rewrite !andb_true_iff, !v3_eqb_eq. split.
  - intros [[-> ->] ->]; reflexivity.
  - intros H; inversion H; auto.
Qed.
Lemma op_eqb_eq a b : op_eqb a b = true <-> a = b.
Proof.
  destruct a, b. unfold op_eqb; simpl. rewrite andb_true_iff, m3_eqb_eq, v3_eqb_eq.
  split; [intros [-> ->]; reflexivity | intros H; inversion H; auto].
Qed.
Lemma aff_eqb_eq a b : aff_eqb a b = true <-> a = b.
Proof.
  destruct a, b. unfold aff_eqb; simpl. rewrite andb_true_iff, m3_eqb_eq, v3_eqb_eq.
  split; [intros [-> ->]; reflexivity | intros H; inversion H; auto].
Qed.
Lemma op_mem_In x l : op_mem x l = true <-> In x l.
Proof.
  unfold op_mem. rewrite existsb_exists. split.
  - intros [y [Hy He]]. apply op_eqb_eq in He. subst. exact Hy.
  - intros H. exists x. split; [exact H | apply op_eqb_eq; reflexivity].
Qed.
Lemma aff_mem_In x l : aff_mem x l = true <-> In x l.
Proof.
  unfold aff_mem. rewrite existsb_exists. split.
  - intros [y [Hy He]]. apply aff_eqb_eq in He. subst. exact Hy.
  - intros H. exists x. split; [exact H | apply aff_eqb_eq; reflexivity].
Qed.
