From Coq Require Import List Arith Bool Lia PeanoNat.
Import ListNotations.

Lemma list_max_In (l : list nat) : l <> [] -> In (list_max l) l.
Proof.
  induction l as [|x l IH]; [congruence|]. intros _. simpl.
  destruct l as [|y l'].
  - left. simpl. lia.
  - destruct (Nat.max_spec x (list_max (y :: l'))) as [[_ E]|[_ E]]; rewrite E.
    + right. apply IH. discriminate.
    + left. reflexivity.
Qed.

Section Sel.
Variable A : Type.
Variable vec : A -> nat -> nat.     (* count of candidate a at key index j *)

Definition maxat (j : nat) (l : list A) := list_max (map (fun a => vec a j) l).
Definition stepk (j : nat) (l : list A) : list A :=
  let m := maxat j l in if m =? 0 then l else filter (fun a => vec a j =? m) l.
Fixpoint select_from (j K : nat) (l : list A) : list A :=
  match K with 0 => l | S K' => select_from (S j) K' (stepk j l) end.
Definition select (K : nat) (l : list A) := select_from 0 K l.

Lemma maxat_ge j l a : In a l -> vec a j <= maxat j l.
Proof.
  intros H. unfold maxat.
  assert (Hall := proj1 (list_max_le (map (fun a => vec a j) l) (list_max (map (fun a => vec a j) l))) (le_n _)).
  rewrite Forall_forall in Hall. apply Hall. apply in_map_iff. exists a; auto.
Qed.
Lemma maxat_attained j l : l <> [] -> exists a, In a l /\ vec a j = maxat j l.
Proof.
  intros Hne. unfold maxat.
  assert (Hm : map (fun a => vec a j) l <> []) by (destruct l; [congruence | discriminate]).
  pose proof (list_max_In _ Hm) as Hin.
  apply in_map_iff in Hin. destruct Hin as [a [Ha Hin]]. exists a; auto.
Qed.

(* mutual simulation on key indices j0 <= j < j0 + K ... we use all indices for simplicity *)
Definition sim (l l' : list A) := forall a, In a l -> exists a', In a' l' /\ forall j, vec a j = vec a' j.

Lemma sim_maxat j l l' : sim l l' -> sim l' l -> maxat j l = maxat j l'.
Proof.
  intros H H'.
  destruct l as [|x l0].
  - destruct l' as [|y l0']; [reflexivity|]. destruct (H' y (or_introl eq_refl)) as [? [[] _]].
  - assert (Hne : x :: l0 <> []) by discriminate.
    assert (Hne' : l' <> []). { destruct (H x (or_introl eq_refl)) as [a' [Hin _]]. intro E; subst; destruct Hin. }
    apply Nat.le_antisymm.
    + destruct (maxat_attained j _ Hne) as [a [Ha Ea]]. destruct (H a Ha) as [a' [Ha' Ev]].
      rewrite <- Ea, Ev. apply maxat_ge; assumption.
    + destruct (maxat_attained j _ Hne') as [a [Ha Ea]]. destruct (H' a Ha) as [a' [Ha' Ev]].
      rewrite <- Ea, Ev. apply maxat_ge; assumption.
Qed.

Lemma stepk_sim j l l' : sim l l' -> sim l' l -> sim (stepk j l) (stepk j l').
Proof.
  intros H H'. unfold stepk. rewrite (sim_maxat j l l' H H').
  destruct (maxat j l' =? 0); [assumption|].
  intros a Ha. apply filter_In in Ha. destruct Ha as [Ha Em]. destruct (H a Ha) as [a' [Ha' Ev]].
  exists a'. split; [|assumption]. apply filter_In. split; [assumption|]. rewrite <- Ev. assumption.
Qed.

Lemma stepk_incl j l : incl (stepk j l) l.
Proof. unfold stepk. destruct (_ =? 0); [apply incl_refl|]. intros a Ha. apply filter_In in Ha. tauto. Qed.

Lemma stepk_nonempty j l : l <> [] -> stepk j l <> [].
Proof.
  intros Hne. unfold stepk. destruct (maxat j l =? 0) eqn:E; [assumption|].
  destruct (maxat_attained j l Hne) as [a [Ha Ea]]. intro Hf.
  assert (In a (filter (fun a => vec a j =? maxat j l) l)) by (apply filter_In; split; [assumption | apply Nat.eqb_eq; assumption]).
  rewrite Hf in H. destruct H.
Qed.

Lemma stepk_const j l a : In a (stepk j l) -> vec a j = maxat j l.
Proof.
  unfold stepk. destruct (maxat j l =? 0) eqn:E; intros Ha.
  - apply Nat.eqb_eq in E. pose proof (maxat_ge j l a Ha). lia.
  - apply filter_In in Ha. destruct Ha as [_ Ha]. apply Nat.eqb_eq in Ha. assumption.
Qed.

Lemma select_from_incl K : forall j l, incl (select_from j K l) l.
Proof. induction K as [|K IH]; intros j l; simpl; [apply incl_refl|]. eapply incl_tran; [apply IH | apply stepk_incl]. Qed.

Lemma select_from_nonempty K : forall j l, l <> [] -> select_from j K l <> [].
Proof. induction K as [|K IH]; intros j l H; simpl; [assumption|]. apply IH, stepk_nonempty, H. Qed.

(* main invariance: survivors of two mutually similar candidate lists agree on every processed key *)
Lemma select_from_agree K : forall j0 l l', sim l l' -> sim l' l ->
  forall a a', In a (select_from j0 K l) -> In a' (select_from j0 K l') ->
  forall j, j0 <= j < j0 + K -> vec a j = vec a' j.
Proof.
  induction K as [|K IH]; intros j0 l l' H H' a a' Ha Ha' j Hj; [lia|]. simpl in Ha, Ha'.
  destruct (Nat.eq_dec j j0) as [->|Hne].
  - apply select_from_incl in Ha. apply select_from_incl in Ha'.
    rewrite (stepk_const _ _ _ Ha), (stepk_const _ _ _ Ha'). apply sim_maxat; assumption.
  - apply (IH (S j0) (stepk j0 l) (stepk j0 l') (stepk_sim j0 l l' H H') (stepk_sim j0 l' l H' H) a a' Ha Ha'). lia.
Qed.

Theorem select_invariant K l l' : sim l l' -> sim l' l ->
  forall a a', In a (select K l) -> In a' (select K l') -> forall j, j < K -> vec a j = vec a' j.
Proof. intros H H' a a' Ha Ha' j Hj. apply (select_from_agree K 0 l l' H H' a a' Ha Ha' j). lia. Qed.

(* the tie check of the implementation can never fail: all survivors agree on all keys *)
Corollary survivors_agree K l a a' : In a (select K l) -> In a' (select K l) -> forall j, j < K -> vec a j = vec a' j.
Proof. apply select_invariant; intros x Hx; exists x; auto. Qed.
End Sel.
Print Assumptions select_invariant.

