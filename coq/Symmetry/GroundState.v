(* Executable model of SymmetryAnalyzer._find_wyckoff_ground_state (symmetryanalyzer.py:1040-1207):
   the candidate list (identity :: tabulated normalizers), the per-candidate count map
   (letter, atomic number) -> number of atoms, the lexicographic filtering over letters (outer, sorted
   by code point) and atomic numbers (inner, ascending) with its early exit, the final tie check and
   the choice of the first survivor.  Letters are strings; a letter permutation is an association
   list exactly as in the table ("permutations"). *)
From Coq Require Import ZArith List String Ascii Bool Arith Lia.
Import ListNotations.

Definition perm := list (string * string).
Definition pget (p : perm) (s : string) : option string :=
  match find (fun kv => String.eqb (fst kv) s) p with Some kv => Some (snd kv) | None => None end.

Record cand := mkCand { c_perm : perm; c_ident : bool; c_idx : nat }.

(* identity candidate: {x: x for x in old_wyckoff_letters} *)
Definition ident_perm (letters : list string) : perm := map (fun l => (l, l)) letters.

Definition candidates (letters : list string) (table : list perm) : list cand :=
  mkCand (ident_perm letters) true 0 :: map (fun ip => mkCand (snd ip) false (S (fst ip))) (combine (seq 0 (List.length table)) table).

(* representation["wyckoff_positions"].get((w, z)), None read as 0 *)
Definition count (p : perm) (atoms : list (string * Z)) (w : string) (z : Z) : nat :=
  List.length (filter (fun lz => match pget p (fst lz) with
                            | Some w' => String.eqb w' w && Z.eqb (snd lz) z
                            | None => false end) atoms).

(* ---- sorted(set(...)) for letters (by code point, as Python compares str) and atomic numbers ---- *)
Definition letter_code (s : string) : nat :=
  match s with String c _ => nat_of_ascii c | EmptyString => 0 end.
Fixpoint insert_by {A} (leb : A -> A -> bool) (x : A) (l : list A) : list A :=
  match l with [] => [x] | y :: r => if leb x y then x :: l else y :: insert_by leb x r end.
Definition sort_by {A} (leb : A -> A -> bool) (l : list A) : list A := fold_right (insert_by leb) [] l.
Definition dedup_str (l : list string) : list string :=
  fold_right (fun x acc => if existsb (String.eqb x) acc then acc else x :: acc) [] l.
Definition dedup_Z (l : list Z) : list Z :=
  fold_right (fun x acc => if existsb (Z.eqb x) acc then acc else x :: acc) [] l.
Definition sorted_letters (l : list string) : list string :=
  sort_by (fun a b => letter_code a <=? letter_code b) (dedup_str l).
Definition sorted_numbers (l : list Z) : list Z := sort_by Z.leb (dedup_Z l).

(* all image letters of all candidate permutations *)
Definition key_letters (cs : list cand) : list string :=
  sorted_letters (flat_map (fun c => map snd (c_perm c)) cs).

(* ---- the filtering loop -------------------------------------------------------------------------- *)
Definition maxcount (atoms : list (string * Z)) (w : string) (z : Z) (reps : list cand) : nat :=
  list_max (map (fun c => count (c_perm c) atoms w z) reps).

Definition step (atoms : list (string * Z)) (w : string) (z : Z) (reps : list cand) : list cand :=
  let m := maxcount atoms w z reps in
  if m =? 0 then reps else filter (fun c => count (c_perm c) atoms w z =? m) reps.

(* inner loop over the atomic numbers: no break; `found` is latched when a single candidate is left *)
Fixpoint loop_z (atoms : list (string * Z)) (w : string) (zs : list Z) (reps : list cand) (found : bool) : list cand * bool :=
  match zs with
  | [] => (reps, found)
  | z :: zs' =>
      let reps' := step atoms w z reps in
      loop_z atoms w zs' reps' (found || (List.length reps' =? 1))
  end.

(* outer loop over the letters: `if found: break` at the top *)
Fixpoint loop_w (atoms : list (string * Z)) (ws : list string) (zs : list Z) (reps : list cand) (found : bool) : list cand :=
  match ws with
  | [] => reps
  | w :: ws' =>
      if found then reps
      else let '(reps', found') := loop_z atoms w zs reps false in loop_w atoms ws' zs reps' found'
  end.

(* the tie check of the code: every survivor has the same count map as the first one *)
Definition same_counts (atoms : list (string * Z)) (ws : list string) (zs : list Z) (a b : cand) : bool :=
  forallb (fun w => forallb (fun z => count (c_perm a) atoms w z =? count (c_perm b) atoms w z) zs) ws.

Inductive outcome :=
| Chosen (c : cand)
| TieError.         (* MatIDError("Could not successfully decide best Wyckoff positions.") *)

Definition ground_state (letters : list string) (numbers : list Z) (table : list perm) : outcome :=
  let atoms := combine letters numbers in
  let cs := candidates letters table in
  match table with
  | [] => Chosen (mkCand (ident_perm letters) true 0)
  | _ =>
      let ws := key_letters cs in
      let zs := sorted_numbers numbers in
      let reps := loop_w atoms ws zs cs false in
      match reps with
      | [] => TieError  (* unreachable: proved in GroundStateProofs *)
      | r0 :: rest => if forallb (same_counts atoms ws zs r0) rest then Chosen r0 else TieError
      end
  end.

(* new letters: best_permutations.get(old_w); identity returns the old letters unchanged *)
Definition new_letters (c : cand) (letters : list string) : list (option string) :=
  if c_ident c then map Some letters else map (pget (c_perm c)) letters.
