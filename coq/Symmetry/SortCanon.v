(* sorted(set(l)) is canonical: two lists with the same elements give the same result, when the sort
   key is injective on the elements (letters: single characters, by code point; numbers: themselves). *)
From Coq Require Import List Bool Arith ZArith Lia Sorted Permutation String.
Import ListNotations.
From MV Require Import Symmetry.GroundState.

Section Canon.
Variable A : Type.
Variable code : A -> Z.
Variable eqb : A -> A -> bool.
Hypothesis eqb_eq : forall a b, eqb a b = true <-> a = b.
Definition leb (a b : A) : bool := (code a <=? code b)%Z.

Definition dedup (l : list A) : list A :=
  fold_right (fun x acc => if existsb (eqb x) acc then acc else x :: acc) [] l.

Lemma existsb_eqb_In x l : existsb (eqb x) l = true <-> In x l.
Proof.
  rewrite existsb_exists. split.
  - intros [y [Hy E]]. apply eqb_eq in E. subst. exact Hy.
  - intros H. exists x. split; [exact H | apply eqb_eq; reflexivity].
Qed.

Lemma dedup_In l x : In x (dedup l) <-> In x l.
Proof.
  induction l as [|a l IH]; simpl; [tauto|].
  destruct (existsb (eqb a) (dedup l)) eqn:E.
  - apply existsb_eqb_In in E. rewrite IH. split; [auto|]. intros [<-|H]; [apply IH; exact E | exact H].
  - simpl. rewrite IH. tauto.
Qed.
Lemma dedup_NoDup l : NoDup (dedup l).
Proof.
  induction l as [|a l IH]; simpl; [constructor|].
  destruct (existsb (eqb a) (dedup l)) eqn:E; [exact IH|].
  constructor; [|exact IH]. intro H. apply existsb_eqb_In in H. congruence.
Qed.

Lemma insert_In x l y : In y (insert_by leb x l) <-> y = x \/ In y l.
Proof.
  induction l as [|a l IH]; simpl; [intuition|].
  destruct (leb x a); simpl; [intuition|]. rewrite IH. intuition.
Qed.
Lemma sort_In l y : In y (sort_by leb l) <-> In y l.
Proof.
  induction l as [|a l IH]; simpl; [tauto|]. rewrite insert_In, IH. intuition.
Qed.

Definition le_code (a b : A) : Prop := (code a <= code b)%Z.
Lemma insert_sorted x l : Sorted le_code l -> Sorted le_code (insert_by leb x l).
Proof.
  induction l as [|a l IH]; intros Hs; simpl.
  - constructor; constructor.
  - unfold leb at 1. destruct (code x <=? code a)%Z eqn:E.
    + constructor; [exact Hs|]. constructor. unfold le_code. lia.
    + inversion Hs as [|? ? Hs' Hhd]; subst. constructor; [apply IH; exact Hs'|].
      destruct l as [|b l']; simpl.
      * constructor. unfold le_code. lia.
      * unfold leb. destruct (code x <=? code b)%Z eqn:E2; constructor; unfold le_code.
        -- lia.
        -- inversion Hhd; subst. assumption.
Qed.
Lemma sort_sorted l : Sorted le_code (sort_by leb l).
Proof. induction l as [|a l IH]; simpl; [constructor|]. apply insert_sorted. exact IH. Qed.

Lemma insert_NoDup x l : ~ In x l -> NoDup l -> NoDup (insert_by leb x l).
Proof.
  induction l as [|a l IH]; intros Hn Hd; simpl.
  - constructor; [intros []|constructor].
  - destruct (leb x a).
    + constructor; assumption.
    + inversion Hd; subst. constructor.
      * rewrite insert_In. intros [->|H]; [apply Hn; left; reflexivity | contradiction].
      * apply IH; [intro; apply Hn; right; assumption | assumption].
Qed.
Lemma sort_NoDup l : NoDup l -> NoDup (sort_by leb l).
Proof.
  induction l as [|a l IH]; intros Hd; simpl; [constructor|].
  inversion Hd; subst. apply insert_NoDup; [rewrite sort_In; assumption | apply IH; assumption].
Qed.

(* strictly sorted lists (sorted, no duplicates, injective key) with the same elements are equal *)
Lemma sorted_canonical (l1 l2 : list A) :
  (forall a b, In a l1 \/ In a l2 -> In b l1 \/ In b l2 -> code a = code b -> a = b) ->
  Sorted le_code l1 -> Sorted le_code l2 -> NoDup l1 -> NoDup l2 ->
  (forall x, In x l1 <-> In x l2) -> l1 = l2.
Proof.
  revert l2. induction l1 as [|a l1 IH]; intros l2 Hinj S1 S2 N1 N2 Heq.
  - destruct l2 as [|b l2]; [reflexivity|]. exfalso. apply (proj2 (Heq b)). left. reflexivity.
  - destruct l2 as [|b l2]; [exfalso; apply (proj1 (Heq a)); left; reflexivity|].
    apply Sorted_StronglySorted in S1; [|intros x y z; unfold le_code; lia].
    apply Sorted_StronglySorted in S2; [|intros x y z; unfold le_code; lia].
    inversion S1 as [|? ? S1' F1]; inversion S2 as [|? ? S2' F2]; subst.
    inversion N1; inversion N2; subst.
    assert (Hab : a = b).
    { destruct (proj1 (Heq a) (or_introl eq_refl)) as [Hb|Hb]; [auto|].
      destruct (proj2 (Heq b) (or_introl eq_refl)) as [Ha|Ha]; [auto|].
      rewrite Forall_forall in F1, F2. specialize (F1 b Ha). specialize (F2 a Hb). unfold le_code in *.
      apply Hinj; [left; left; reflexivity | right; left; reflexivity | lia]. }
    subst b. f_equal. apply IH.
    + intros x y Hx Hy. apply Hinj; [destruct Hx; [left; right|right; right]; assumption | destruct Hy; [left; right|right; right]; assumption].
    + apply StronglySorted_Sorted; assumption.
    + apply StronglySorted_Sorted; assumption.
    + assumption.
    + assumption.
    + intros x. split; intros Hx.
      * destruct (proj1 (Heq x) (or_intror Hx)) as [->|H']; [contradiction | exact H'].
      * destruct (proj2 (Heq x) (or_intror Hx)) as [->|H']; [contradiction | exact H'].
Qed.

Theorem sort_dedup_canonical (l1 l2 : list A) :
  (forall a b, In a l1 \/ In a l2 -> In b l1 \/ In b l2 -> code a = code b -> a = b) ->
  (forall x, In x l1 <-> In x l2) ->
  sort_by leb (dedup l1) = sort_by leb (dedup l2).
Proof.
  intros Hinj Heq. apply sorted_canonical.
  - intros a b Ha Hb. apply Hinj; [destruct Ha as [Ha|Ha]; rewrite sort_In, dedup_In in Ha; auto | destruct Hb as [Hb|Hb]; rewrite sort_In, dedup_In in Hb; auto].
  - apply sort_sorted.
  - apply sort_sorted.
  - apply sort_NoDup, dedup_NoDup.
  - apply sort_NoDup, dedup_NoDup.
  - intros x. rewrite !sort_In, !dedup_In. apply Heq.
Qed.
End Canon.
