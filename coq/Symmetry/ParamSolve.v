(* C08 -- executable model of the free-Wyckoff-parameter solver of
   matid/symmetry/symmetryanalyzer.py (_get_wyckoff_sets, return_parameters=True), of
   _search_periodic_positions, of matid.geometry.get_wrapped_positions and of
   get_has_free_wyckoff_parameters.

   Numbers.  Exact arithmetic on a grid: fractional coordinates, table constants, centring
   translations and parameter values are integers in units of 1/U of a lattice period (U > 0 is a
   parameter of the model, so the statements cover every rational input: take U = a common
   denominator).  "modulo 1" is "modulo U".  Matrices M are integer, indexed [variable][component]
   exactly like the table's "matrices" (type [aff] of Symmetry/Table.v: aM, and ac = constants, here
   in units of 1/U).

   The two places where the code compares distances with a tolerance
   (_search_periodic_positions with accuracy 1e-3 for the self-test and with symmetry_tol for the
   test positions) are the parameters [close_self], [close_set] : target -> atom -> bool of the
   model; [close_metric] below is the code's rule (wrap both into the cell, displacement components
   beyond half a period folded back once, quadratic form, threshold on the squared length).

   [rule] says which component of the atom the code reads once it found the first component [icomp]
   whose coefficient of variable [idx] is 1:   true  = W[idx] = R[icomp] - C[icomp]
                                               false = W[idx] = R[idx]   - C[idx].
   It is NOT chosen here: Generated/SolverRule.v is re-translated from the assignment statement of
   the current source on every run. *)
From Coq Require Import ZArith QArith List String Bool.
Import ListNotations.
From MV Require Import Symmetry.Table Symmetry.Affine Symmetry.Expr.
Open Scope Z_scope.

Definition vget (v : v3) (i : nat) : Z :=
  let '(a, b, c) := v in match i with 0%nat => a | 1%nat => b | _ => c end.
Definition var_name (i : nat) : string :=
  match i with 0%nat => "x" | 1%nat => "y" | _ => "z" end%string.
(* `variable in variables_present` *)
Definition has_var (vars : list string) (i : nat) : bool := existsb (String.eqb (var_name i)) vars.
(* `for icomp in range(3): if M[idx][icomp] == 1: ...; break` *)
Definition first_one (row : v3) : option nat :=
  let '(a, b, c) := row in
  if a =? 1 then Some 0%nat else if b =? 1 then Some 1%nat else if c =? 1 then Some 2%nat else None.

(* W.M + C  (row vector times matrix, not reduced modulo the lattice -- like the code) *)
Definition eval (e : aff) (W : v3) : v3 := vadd (mvec (mtrans (aM e)) W) (ac e).

(* first_test_pos, then first_test_pos + trans for every centring translation, in this order *)
Definition test_positions (exprs : list aff) (trans : list v3) (W : v3) : list v3 :=
  flat_map (fun t => map (fun e => vadd (eval e W) t) exprs) ((0, 0, 0) :: trans).

Definition xyz := (option Z * option Z * option Z)%type.

Section Solver.
  Variable U : Z.        (* grid units per lattice period *)
  Variable snap : Z.     (* the 1e-5 of get_wrapped_positions, in grid units *)
  Variable rule : bool.  (* see above; from Generated/SolverRule.v *)
  Variables close_self close_set : v3 -> v3 -> bool.

  Definition solve_var (M : m3) (C R : v3) (idx : nat) : Z :=
    match first_one (mrow M idx) with
    | Some icomp => let r := if rule then icomp else idx in vget R r - vget C r
    | None => 0                                   (* W = np.zeros(3) stays *)
    end.

  (* variable_map = the indices of x, y, z that occur in variables_present *)
  Definition solve_W (vars : list string) (e1 : aff) (R : v3) : v3 :=
    let f i := if has_var vars i then solve_var (aM e1) (ac e1) R i else 0 in
    (f 0%nat, f 1%nat, f 2%nat).

  (* _search_periodic_positions(t, atoms, ...) is not None  (argmin <= accuracy iff some atom is) *)
  Fixpoint search (close : v3 -> v3 -> bool) (t : v3) (atoms : list v3) : bool :=
    match atoms with [] => false | a :: r => if close t a then true else search close t r end.

  Fixpoint all_found (atoms : list v3) (ts : list v3) : bool :=
    match ts with [] => true | t :: r => if search close_set t atoms then all_found atoms r else false end.

  (* the body of `for atom_index in indices` *)
  Definition try_atom (vars : list string) (exprs : list aff) (trans : list v3) (atoms : list v3)
             (e1 : aff) (R : v3) : option v3 :=
    let W := solve_W vars e1 R in
    if close_self (eval e1 W) R
    then if all_found atoms (test_positions exprs trans W) then Some W else None
    else None.

  Fixpoint first_success (vars : list string) (exprs : list aff) (trans : list v3) (atoms : list v3)
           (e1 : aff) (cands : list v3) : option v3 :=
    match cands with
    | [] => None
    | R :: r => match try_atom vars exprs trans atoms e1 R with
                | Some W => Some W
                | None => first_success vars exprs trans atoms e1 r end
    end.

  (* get_wrapped_positions: x %= 1; |x| < 1e-5 -> 0; ||x| - 1| < 1e-5 -> 0 *)
  Definition wrap1 (z : Z) : Z :=
    let r := z mod U in if r <? snap then 0 else if U - r <? snap then 0 else r.
  Definition wrapW (W : v3) : v3 := let '(a, b, c) := W in (wrap1 a, wrap1 b, wrap1 c).

  (* setattr(wset, var, W_final[ivar]) for the variables of the map; the others stay None *)
  Definition report (vars : list string) (W : v3) : xyz :=
    let f i := if has_var vars i then Some (vget W i) else None in (f 0%nat, f 1%nat, f 2%nat).

  (* one Wyckoff set.  None = ValueError("Could not resolve the free Wyckoff parameters ...") *)
  Definition solve_set (vars : list string) (exprs : list aff) (trans : list v3) (atoms : list v3)
    : option xyz :=
    match vars with
    | [] => Some (None, None, None)            (* `if variables_present:` is false *)
    | _ =>
        match exprs with
        | [] => None                           (* Ms[0] does not exist *)
        | e1 :: _ =>
            match first_success vars exprs trans atoms e1 atoms with
            | None => None
            | Some W => Some (report vars (wrapW W))
            end
        end
    end.
End Solver.

(* get_has_free_wyckoff_parameters: some occupied letter has a non-empty variable set *)
Definition nonempty {A} (l : list A) : bool := match l with [] => false | _ => true end.
Definition has_free_params (varsets : list (list string)) : bool := existsb nonempty varsets.

(* ---------- the code's distance rule ----------------------------------------------------------- *)
Definition fold1 (U d : Z) : Z := if 2 * d >? U then d - U else if 2 * d <? - U then d + U else d.
Definition vmodU (U : Z) (v : v3) : v3 := let '(a, b, c) := v in (a mod U, b mod U, c mod U).
(* positions - target after np.remainder(.., 1) of both, components beyond +-1/2 folded once *)
Definition disp (U : Z) (t a : v3) : v3 :=
  let '(t1, t2, t3) := vmodU U t in let '(a1, a2, a3) := vmodU U a in
  (fold1 U (a1 - t1), fold1 U (a2 - t2), fold1 U (a3 - t3)).
(* squared length d G d^T for a symmetric integer matrix G (the code uses displacement . cell^T,
   i.e. G = cell^T cell; the property's own predicate uses the Cartesian metric cell cell^T) *)
Definition qform (G : m3) (d : v3) : Z := dot3 d (mvec G d).
Definition close_metric (U : Z) (G : m3) (tol2 : Z) (t a : v3) : bool := qform G (disp U t a) <=? tol2.
(* exact coincidence modulo the lattice *)
Definition close_exact (U : Z) (t a : v3) : bool := v3_eqb (vmodU U t) (vmodU U a).

(* ---------- correspondence: the model on the generated raw tables and the implementation's data ---- *)
(* q * U when that is an integer *)
Definition q_units (U : Z) (q : Q) : option Z :=
  let n := Qnum q * U in let d := Zpos (Qden q) in if n mod d =? 0 then Some (n / d) else None.
(* one expression with the constants exactly as the table stores them (8-digit decimals) *)
Definition expr_units (U : Z) (e : rexpr) : option aff :=
  match qmat_int (e_mat e), all_some (map (q_units U) (e_const e)) with
  | Some m, Some c =>
      match to_m3 m, to_v3 c with Some m', Some c' => Some (mkAff m' c') | _, _ => None end
  | _, _ => None end.
Definition entry_units (U : Z) (w : rwyck) : option (list aff) := all_some (map (expr_units U) (w_exprs w)).
Definition trans_units (U : Z) (t : sgtable) : option (list v3) :=
  all_some (map (fun r => match all_some (map (q_units U) r) with Some l => to_v3 l | None => None end) (sg_trans t)).
Definition find_letter (t : sgtable) (l : string) : option rwyck :=
  find (fun w => String.eqb (w_letter w) l) (sg_wyck t).

Record cfg := mkCfg {
  c_U : Z; c_snap : Z; c_eps : Z;
  c_G : m3; c_tolself2 : Z; c_tol2 : Z;       (* the code's quadratic form and its two thresholds *)
  c_Gt : m3; c_ptol2 : Z }.                   (* Cartesian metric and symmetry_tol^2 for the predicate *)

(* outer None: the table has no such letter or does not convert (fails closed) *)
Definition model_set (rule : bool) (c : cfg) (t : sgtable) (letter : string) (atoms : list v3) : option (option xyz) :=
  match find_letter t letter, trans_units (c_U c) t with
  | Some w, Some tr =>
      match entry_units (c_U c) w with
      | Some es => Some (solve_set (c_U c) (c_snap c) rule
                                   (close_metric (c_U c) (c_G c) (c_tolself2 c))
                                   (close_metric (c_U c) (c_G c) (c_tol2 c))
                                   (w_vars w) es tr atoms)
      | None => None end
  | _, _ => None end.

Definition circ_close (U eps a b : Z) : bool :=
  let d := Z.abs (a - b) in (d <=? eps) || (U - d <=? eps).
Definition agree_opt (U eps : Z) (m i : option Z) : bool :=
  match m, i with
  | None, None => true
  | Some a, Some b => circ_close U eps a b
  | _, _ => false end.
Definition agree_xyz (U eps : Z) (m i : xyz) : bool :=
  let '(mx, my, mz) := m in let '(ix, iy, iz) := i in
  agree_opt U eps mx ix && agree_opt U eps my iy && agree_opt U eps mz iz.

(* agreement relation for one Wyckoff set.  impl = None: the implementation raised ValueError for
   this set; Some r: it reported x, y, z = r *)
Definition agree_set (rule : bool) (c : cfg) (t : sgtable) (letter : string) (atoms : list v3) (impl : option xyz) : bool :=
  match model_set rule c t letter atoms with
  | None => false
  | Some None => match impl with None => true | Some _ => false end
  | Some (Some m) => match impl with Some i => agree_xyz (c_U c) (c_eps c) m i | None => false end
  end.
(* sets processed before the one at which the implementation raised: the model must succeed *)
Definition agree_before (rule : bool) (c : cfg) (t : sgtable) (letter : string) (atoms : list v3) : bool :=
  match model_set rule c t letter atoms with Some (Some _) => true | _ => false end.

(* ---------- the property's own predicate on what the implementation reported ---------------------- *)
Definition in_range (U : Z) (o : option Z) : bool :=
  match o with None => true | Some v => (0 <=? v) && (v <? U) end.
Definition is_some {A} (o : option A) : bool := match o with Some _ => true | None => false end.
Definition oval (o : option Z) : Z := match o with Some v => v | None => 0 end.

(* the representative expression STRINGS (WyckoffSet.representative), parsed by Symmetry/Expr.v *)
Definition eval_strings (U : Z) (strs : list string) (r : xyz) : option v3 :=
  let '(x, y, z) := r in
  let ev (s : string) : option Z :=
    match parse s with
    | Some l => match q_units U (k l) with
                | Some k0 => Some (cx l * oval x + cy l * oval y + cz l * oval z + k0)
                | None => None end
    | None => None end in
  match strs with
  | [s0; s1; s2] => match ev s0, ev s1, ev s2 with
                    | Some a, Some b, Some c0 => Some (a, b, c0) | _, _, _ => None end
  | _ => None end.

Definition prop_set (c : cfg) (t : sgtable) (letter : string) (atoms : list v3) (rep : list string) (r : xyz) : bool :=
  match find_letter t letter with
  | None => false
  | Some w =>
      let '(x, y, z) := r in
      (* exactly the free variables are reported *)
      Bool.eqb (is_some x) (has_var (w_vars w) 0) && Bool.eqb (is_some y) (has_var (w_vars w) 1)
      && Bool.eqb (is_some z) (has_var (w_vars w) 2)
      (* values in [0, 1) *)
      && in_range (c_U c) x && in_range (c_U c) y && in_range (c_U c) z
      (* substituting into the representative expression gives an atom of the set *)
      && match eval_strings (c_U c) rep r with
         | Some p => existsb (close_metric (c_U c) (c_Gt c) (c_ptol2 c) p) atoms
         | None => false end
  end.

(* flag <-> some reported set carries a parameter; and the model's flag (computed like the code from
   the letters of the original system) equals the implementation's *)
Definition vars_of (t : sgtable) (l : string) : list string :=
  match find_letter t l with Some w => w_vars w | None => [] end.
Definition flag_case (t : sgtable) (letters_original letters_of_sets : list string) (flag : bool) : bool :=
  forallb (fun l => is_some (find_letter t l)) (letters_original ++ letters_of_sets)
  && Bool.eqb flag (has_free_params (map (vars_of t) letters_original))
  && Bool.eqb flag (existsb (fun l => nonempty (vars_of t l)) letters_of_sets).
