(* Proofs about the model of _find_wyckoff_ground_state. *)
From Coq Require Import ZArith List String Bool Arith Lia Permutation.
Import ListNotations.
From MV Require Import Symmetry.SelectK Symmetry.GroundState.

Notation key := (string * Z)%type (only parsing).
Definition vecc (atoms : list (string * Z)) (c : cand) (k : key) : nat := count (c_perm c) atoms (fst k) (snd k).
Definition keys (ws : list string) (zs : list Z) : list key := flat_map (fun w => map (pair w) zs) ws.
Definition sel (atoms : list (string * Z)) := select cand key (vecc atoms).

Lemma step_is_stepk atoms w z reps : step atoms w z reps = stepk cand key (vecc atoms) (w, z) reps.
Proof. reflexivity. Qed.

Lemma length1 {A} (l : list A) : List.length l = 1 -> exists a, l = [a].
Proof. destruct l as [|a [|b r]]; simpl; intros H; try discriminate. exists a. reflexivity. Qed.

(* the inner loop is the selection over the keys (w, z), z in zs; the latch is only ever set when a
   single candidate is left (which then stays) *)
Lemma loop_z_spec atoms w zs : forall reps found,
  fst (loop_z atoms w zs reps found) = sel atoms (map (pair w) zs) reps
  /\ (snd (loop_z atoms w zs reps found) = true ->
      found = true \/ List.length (sel atoms (map (pair w) zs) reps) = 1).
Proof.
  induction zs as [|z zs IH]; intros reps found; simpl.
  - split; [reflexivity|]. intros H. left. exact H.
  - rewrite step_is_stepk. destruct (IH (stepk cand key (vecc atoms) (w, z) reps)
                                        (found || (List.length (stepk cand key (vecc atoms) (w, z) reps) =? 1))) as [H1 H2].
    split; [exact H1|]. intros Hs. specialize (H2 Hs). destruct H2 as [H2|H2]; [|right; exact H2].
    apply orb_true_iff in H2. destruct H2 as [H2|H2]; [left; exact H2|]. right.
    apply Nat.eqb_eq in H2. destruct (length1 _ H2) as [a Ea].
    unfold sel. simpl. rewrite Ea. rewrite (select_singleton cand key (vecc atoms)). reflexivity.
Qed.

Lemma keys_cons w ws zs : keys (w :: ws) zs = map (pair w) zs ++ keys ws zs.
Proof. reflexivity. Qed.

(* the loop with its early exit computes the plain lexicographic selection over all keys *)
Lemma loop_w_spec atoms zs ws : forall reps found,
  (found = true -> List.length reps = 1) ->
  loop_w atoms ws zs reps found = sel atoms (keys ws zs) reps.
Proof.
  induction ws as [|w ws IH]; intros reps found Hf; [reflexivity|].
  cbn [loop_w]. destruct found.
  - destruct (length1 _ (Hf eq_refl)) as [a ->]. unfold sel. rewrite (select_singleton cand key (vecc atoms)). reflexivity.
  - destruct (loop_z atoms w zs reps false) as [reps' found'] eqn:E.
    destruct (loop_z_spec atoms w zs reps false) as [H1 H2]. rewrite E in H1, H2. simpl in H1, H2.
    rewrite keys_cons. unfold sel in *. rewrite select_app. rewrite <- H1.
    apply IH. intros Hfd. destruct (H2 Hfd) as [Hd|Hd]; [discriminate|]. rewrite H1. exact Hd.
Qed.

Lemma same_counts_true atoms ws zs a b :
  (forall k, In k (keys ws zs) -> vecc atoms a k = vecc atoms b k) -> same_counts atoms ws zs a b = true.
Proof.
  intros H. unfold same_counts. apply forallb_forall. intros w Hw. apply forallb_forall. intros z Hz.
  apply Nat.eqb_eq. apply (H (w, z)). unfold keys. apply in_flat_map. exists w. split; [exact Hw|].
  apply in_map. exact Hz.
Qed.

(* the code never raises its "could not decide" error and always returns one of its candidates *)
Theorem ground_state_total letters numbers table :
  exists c, ground_state letters numbers table = Chosen c
            /\ In c (candidates letters table)
            /\ (table <> [] -> In c (sel (combine letters numbers)
                                       (keys (key_letters (candidates letters table)) (sorted_numbers numbers))
                                       (candidates letters table))).
Proof.
  unfold ground_state. destruct table as [|p0 table'].
  - eexists. split; [reflexivity|]. split; [left; reflexivity | intros H; congruence].
  - set (table := p0 :: table'). set (cs := candidates letters table).
    set (atoms := combine letters numbers). set (ws := key_letters cs). set (zs := sorted_numbers numbers).
    rewrite (loop_w_spec atoms zs ws cs false) by (intros; discriminate).
    assert (Hne : sel atoms (keys ws zs) cs <> []).
    { apply select_nonempty. unfold cs, candidates. discriminate. }
    destruct (sel atoms (keys ws zs) cs) as [|r0 rest] eqn:E; [congruence|].
    assert (Hall : forallb (same_counts atoms ws zs r0) rest = true).
    { apply forallb_forall. intros b Hb. apply same_counts_true. intros k Hk.
      apply (survivors_agree cand key (vecc atoms) (keys ws zs) cs r0 b); fold (sel atoms (keys ws zs) cs);
        [rewrite E; left; reflexivity | rewrite E; right; exact Hb | exact Hk]. }
    rewrite Hall. exists r0. split; [reflexivity|]. split.
    + apply (select_incl cand key (vecc atoms) (keys ws zs) cs). fold (sel atoms (keys ws zs) cs). rewrite E. left. reflexivity.
    + intros _. left. reflexivity.
Qed.
