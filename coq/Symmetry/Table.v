(* Raw shape of the space-group tables as the translator emits them from
   matid/data/symmetry_data.py (strings, decimal literals as exact rationals), and their
   conversion to exact integer data in units of 1/24 (all crystallographic constants are
   multiples of 1/24; the table stores them as 8-digit decimals, so a constant is accepted
   only if it lies within 1e-7 of a multiple of 1/24 -- a corrupted constant such as 11.0 for
   11/12 cannot be snapped away because the snapped value is compared with the parsed
   expression string). *)
From Coq Require Import ZArith QArith Qabs List String Bool.
Import ListNotations.
Open Scope Z_scope.

Record rexpr := mkRE { e_strs : list string; e_mat : list (list Q); e_const : list Q }.
Record rwyck := mkRW { w_letter : string; w_vars : list string; w_exprs : list rexpr }.
Record rnorm := mkRN { n_mat : list (list Q); n_perm : list (string * string) }.
Record rinfo := mkRI { i_bravais : string; i_system : string; i_pg : string }.
Record sgtable := mkSG {
  sg_num : Z;
  sg_info : rinfo;
  sg_wyck : list rwyck;          (* in source order *)
  sg_trans : list (list Q);      (* centring translations, zero vector not listed *)
  sg_norms : list rnorm }.

(* ---- snapping -------------------------------------------------------------------- *)
Definition q_int (q : Q) : option Z :=
  let q' := Qred q in if (Zpos (Qden q') =? 1) then Some (Qnum q') else None.

(* nearest multiple of 1/24: k = floor(24 q + 1/2); accepted iff |q - k/24| <= 1e-7 *)
Definition snap24 (q : Q) : option Z :=
  let x := (q * 24 + (1#2))%Q in
  let k := Z.div (Qnum x) (Zpos (Qden x)) in
  let d := Qabs (q - (k # 24))%Q in
  if Qle_bool d (1 # 10000000) then Some k else None.

Fixpoint all_some {A} (l : list (option A)) : option (list A) :=
  match l with
  | [] => Some []
  | Some x :: r => match all_some r with Some r' => Some (x :: r') | None => None end
  | None :: _ => None
  end.

Definition v3 := (Z * Z * Z)%type.
Definition m3 := (v3 * v3 * v3)%type.

Definition to_v3 (l : list Z) : option v3 :=
  match l with [a; b; c] => Some (a, b, c) | _ => None end.
Definition to_m3 (l : list (list Z)) : option m3 :=
  match l with
  | [r1; r2; r3] =>
      match to_v3 r1, to_v3 r2, to_v3 r3 with
      | Some a, Some b, Some c => Some (a, b, c) | _, _, _ => None end
  | _ => None end.

Definition qrow_int (r : list Q) : option (list Z) := all_some (map q_int r).
Definition qrow_snap (r : list Q) : option (list Z) := all_some (map snap24 r).
Definition qmat_int (m : list (list Q)) : option (list (list Z)) := all_some (map qrow_int m).

Definition mod24 (z : Z) : Z := z mod 24.
Definition v3mod (v : v3) : v3 := let '(a, b, c) := v in (mod24 a, mod24 b, mod24 c).

(* An affine parametrised position: p_comp = sum_var W_var * M[var][comp] + c[comp]/24 (mod 1).
   aM is indexed [variable][component] exactly like the table's "matrices". *)
Record aff := mkAff { aM : m3; ac : v3 }.

Definition expr_to_aff (e : rexpr) : option aff :=
  match qmat_int (e_mat e), qrow_snap (e_const e) with
  | Some m, Some c =>
      match to_m3 m, to_v3 c with
      | Some m', Some c' => Some (mkAff m' (v3mod c'))
      | _, _ => None end
  | _, _ => None end.

Definition trans_to_v3 (t : list Q) : option v3 :=
  match qrow_snap t with Some c => match to_v3 c with Some v => Some (v3mod v) | None => None end | None => None end.
