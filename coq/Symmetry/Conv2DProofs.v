(* C11 -- proofs about the model of Conv2D.v.  Style: plain stdlib (QArith, setoid rewriting, field/ring/lra),
   as Geometry/FrameProofs.v, whose lemmas about to_scaled / to_cartesian / get_minimized_cell are reused. *)
From Coq Require Import ZArith QArith Qabs Qround List Bool Lia Lra Psatz Setoid Morphisms Ascii Permutation.
From MV Require Import Geometry.Frame Geometry.FrameProofs Symmetry.Conv2D.
Import ListNotations.
Open Scope Q_scope.

(* ------------------------------------------------------------------------------------------ *)
(* the vacuum rule                                                                            *)
(* ------------------------------------------------------------------------------------------ *)
Lemma Qle_bool_true x y : Qle_bool x y = true -> x <= y.
Proof. apply Qle_bool_iff. Qed.

Lemma qmax_spec x y : (x <= y /\ qmax x y = y) \/ (y < x /\ qmax x y = x).
Proof.
  unfold qmax. destruct (Qle_bool x y) eqn:E.
  - left. split; [apply Qle_bool_true; exact E | reflexivity].
  - right. split; [apply Qle_bool_false; exact E | reflexivity].
Qed.

Theorem vac_thickness_ge_5 t : 5 <= vac_thickness t.
Proof. unfold vac_thickness. apply qmax_ge_l. Qed.

Theorem vac_thickness_ge_3t t : 3 * t <= vac_thickness t.
Proof. unfold vac_thickness. apply qmax_ge_r. Qed.

Theorem vac_thickness_monotone t t' : t <= t' -> vac_thickness t <= vac_thickness t'.
Proof.
  intro H. unfold vac_thickness.
  destruct (qmax_spec 5 (3 * t)) as [[A ->]|[A ->]]; destruct (qmax_spec 5 (3 * t')) as [[B ->]|[B ->]]; lra.
Qed.

(* at least twice the thickness of vacuum is left (and at least 5 - t) *)
Theorem vacuum_left t : 0 <= t -> 2 * t <= vac_thickness t - t /\ 5 - t <= vac_thickness t - t.
Proof. intro H. pose proof (vac_thickness_ge_5 t). pose proof (vac_thickness_ge_3t t). split; lra. Qed.

Lemma vac_thickness_value t : vac_thickness t == 5 \/ vac_thickness t == 3 * t.
Proof. unfold vac_thickness. destruct (qmax_cases 5 (3 * t)) as [-> | ->]; [left | right]; reflexivity. Qed.

#[export] Instance Qle_bool_proper : Proper (Qeq ==> Qeq ==> eq) Qle_bool.
Proof.
  intros x x' Hx y y' Hy.
  destruct (Qle_bool x y) eqn:E; destruct (Qle_bool x' y') eqn:E'; try reflexivity.
  - apply Qle_bool_iff in E. apply Qle_bool_false in E'. rewrite Hx, Hy in E. lra.
  - apply Qle_bool_iff in E'. apply Qle_bool_false in E. rewrite <- Hx, <- Hy in E'. lra.
Qed.
#[export] Instance qmax_proper : Proper (Qeq ==> Qeq ==> Qeq) qmax.
Proof. intros x x' Hx y y' Hy. unfold qmax. rewrite Hx, Hy. destruct (Qle_bool x' y'); assumption. Qed.
#[export] Instance qmin_proper : Proper (Qeq ==> Qeq ==> Qeq) qmin.
Proof. intros x x' Hx y y' Hy. unfold qmin. rewrite Hx, Hy. destruct (Qle_bool x' y'); assumption. Qed.
#[export] Instance vac_thickness_proper : Proper (Qeq ==> Qeq) vac_thickness.
Proof. intros t t' H. unfold vac_thickness. rewrite H. reflexivity. Qed.

Lemma row_set_same ax m v : row ax (set_row ax m v) = v. Proof. destruct ax; reflexivity. Qed.
Lemma row_set_other a ax m v : a <> ax -> row a (set_row ax m v) = row a m.
Proof. destruct a, ax; try reflexivity; congruence. Qed.

(* the analyzed cell: only the non-periodic row changes; it keeps its direction and gets length max(5, 3 t) *)
Theorem analyzed_cell_spec m pbc ps i L :
  0 < L -> L * L == dot (row i m) (row i m) ->
  let t := get_thickness m pbc ps i L in
  let m' := analyzed_cell m pbc ps i L in
  (forall a, a <> i -> row a m' = row a m) /\
  veq (row i m') (vscale (vac_thickness t / L) (row i m)) /\ 0 < vac_thickness t / L /\
  dot (row i m') (row i m') == vac_thickness t * vac_thickness t /\
  5 * 5 <= dot (row i m') (row i m').
Proof.
  intros HL HLL t m'. subst m'. unfold analyzed_cell. fold t.
  pose proof (vac_thickness_ge_5 t) as H5.
  split; [intros a Ha; apply row_set_other; exact Ha|].
  rewrite !row_set_same.
  assert (E : veq (vacuum_row (row i m) L t) (vscale (vac_thickness t / L) (row i m))).
  { unfold vacuum_row, vscale, veq; cbn [vx vy vz]. repeat split; field; lra. }
  split; [exact E|]. split; [apply Qlt_shift_div_l; lra|].
  assert (D : dot (vacuum_row (row i m) L t) (vacuum_row (row i m) L t) == vac_thickness t * vac_thickness t).
  { rewrite E. rewrite dot_R. transitivity ((vac_thickness t / L) * (vac_thickness t / L) * dotR (row i m) (row i m)).
    - unfold dotR, vscale; cbn [vx vy vz]. ring.
    - rewrite <- dot_R, <- HLL. field. lra. }
  split; [exact D|]. rewrite D. nra.
Qed.

(* ---------- scaling a list by a positive factor commutes with min / max ---------- *)
Lemma qmax_scale c x y : 0 < c -> qmax (c * x) (c * y) == c * qmax x y.
Proof.
  intro Hc. destruct (qmax_spec x y) as [[A ->]|[A ->]]; destruct (qmax_spec (c * x) (c * y)) as [[B ->]|[B ->]]; try reflexivity; nra.
Qed.
Lemma qmin_spec x y : (x <= y /\ qmin x y = x) \/ (y < x /\ qmin x y = y).
Proof.
  unfold qmin. destruct (Qle_bool x y) eqn:E.
  - left. split; [apply Qle_bool_true; exact E | reflexivity].
  - right. split; [apply Qle_bool_false; exact E | reflexivity].
Qed.
Lemma qmin_scale c x y : 0 < c -> qmin (c * x) (c * y) == c * qmin x y.
Proof.
  intro Hc. destruct (qmin_spec x y) as [[A ->]|[A ->]]; destruct (qmin_spec (c * x) (c * y)) as [[B ->]|[B ->]]; try reflexivity; nra.
Qed.

Lemma lmax_scale_map {A} (f g : A -> Q) c l : 0 < c -> (forall x, f x == c * g x) -> lmax (map f l) == c * lmax (map g l).
Proof.
  intros Hc H. destruct l as [|h t]; cbn [map lmax]; [ring|].
  induction t as [|a t IH]; cbn [map fold_right]; [apply H|].
  rewrite IH, (H a). apply qmax_scale. exact Hc.
Qed.
Lemma lmin_scale_map {A} (f g : A -> Q) c l : 0 < c -> (forall x, f x == c * g x) -> lmin (map f l) == c * lmin (map g l).
Proof.
  intros Hc H. destruct l as [|h t]; cbn [map lmin]; [ring|].
  induction t as [|a t IH]; cbn [map fold_right]; [apply H|].
  rewrite IH, (H a). apply qmin_scale. exact Hc.
Qed.

(* The amount of vacuum in the input is irrelevant for what is handed to spglib: stretching the non-periodic cell
   vector by any k > 0 (atoms keep their cartesian positions) gives the same analyzed cell. *)
Theorem analyzed_cell_vacuum_independent m pbc ps i L k :
  ~ det m == 0 -> 0 < L -> 0 < k -> getb i pbc = false ->
  meq (analyzed_cell (set_row i m (vscale k (row i m))) pbc ps i (k * L)) (analyzed_cell m pbc ps i L).
Proof.
  intros Hd HL Hk Hp.
  assert (HdR : ~ detR m == 0) by (rewrite <- det_R; exact Hd).
  assert (Hk0 : ~ k == 0) by lra.
  set (mk := set_row i m (vscale k (row i m))).
  assert (Hsc : forall p, getc i (to_scaled mk p) == / k * getc i (to_scaled m p)).
  { intro p. unfold mk. rewrite !to_scaled_R. rewrite (scaledR_rowscale i m k p HdR Hk0). rewrite getc_setc_same. field. exact Hk0. }
  assert (Ht : get_thickness mk pbc ps i (k * L) == get_thickness m pbc ps i L).
  { unfold get_thickness. rewrite Hp. cbn [wrapc].
    rewrite (lmax_scale_map (fun p => getc i (to_scaled mk p)) (fun p => getc i (to_scaled m p)) (/ k) ps) by (try apply Qinv_lt_0_compat; auto).
    rewrite (lmin_scale_map (fun p => getc i (to_scaled mk p)) (fun p => getc i (to_scaled m p)) (/ k) ps) by (try apply Qinv_lt_0_compat; auto).
    field. exact Hk0. }
  assert (HA : vac_thickness (get_thickness mk pbc ps i (k * L)) == vac_thickness (get_thickness m pbc ps i L)) by (rewrite Ht; reflexivity).
  unfold analyzed_cell.
  set (A := vac_thickness (get_thickness mk pbc ps i (k * L))) in *. set (B := vac_thickness (get_thickness m pbc ps i L)) in *.
  assert (Hv : veq (vacuum_row (row i mk) (k * L) (get_thickness mk pbc ps i (k * L))) (vacuum_row (row i m) L (get_thickness m pbc ps i L))).
  { replace (row i mk) with (vscale k (row i m)) by (unfold mk; rewrite row_set_same; reflexivity).
    unfold vacuum_row. fold A B. unfold vscale, veq; cbn [vx vy vz]. rewrite HA. repeat split; field; split; lra. }
  unfold mk in *. destruct m as [a b c], i; cbn [set_row row r0 r1 r2] in *; unfold meq; cbn [r0 r1 r2]; repeat split; try reflexivity; apply Hv.
Qed.

(* ------------------------------------------------------------------------------------------ *)
(* detection of the non-periodic axis                                                         *)
(* ------------------------------------------------------------------------------------------ *)
Lemma Qlt_bool_iff a b : Qlt_bool a b = true <-> a < b.
Proof.
  unfold Qlt_bool. destruct (Qle_bool b a) eqn:E; cbn [negb].
  - apply Qle_bool_iff in E. split; [discriminate | intro; lra].
  - apply Qle_bool_false in E. split; [intros _; exact E | reflexivity].
Qed.

Definition axis_hit_P (prec : Q) (v : V3) (i : axis) : Prop :=
  prec < Qabs (getc i v) /\ Qabs (getc (nxt i) v) < prec /\ Qabs (getc (nxt (nxt i)) v) < prec.

Lemma axis_hit_iff prec v i : axis_hit prec v i = true <-> axis_hit_P prec v i.
Proof. unfold axis_hit, axis_hit_P. rewrite !andb_true_iff, !Qlt_bool_iff. tauto. Qed.

Definition before (a b : axis) : Prop := (axis_index a < axis_index b)%Z.

(* the model returns the FIRST row that qualifies, and fails exactly when none does *)
Theorem detect_spec prec T i :
  match detect prec T i with
  | Some a => axis_hit_P prec (row a T) i /\ forall b, before b a -> ~ axis_hit_P prec (row b T) i
  | None => forall b, ~ axis_hit_P prec (row b T) i
  end.
Proof.
  unfold detect.
  destruct (axis_hit prec (r0 T) i) eqn:E0.
  { split; [apply axis_hit_iff; exact E0|]. intros b Hb. destruct b; unfold before in Hb; cbn in Hb; lia. }
  destruct (axis_hit prec (r1 T) i) eqn:E1.
  { split; [apply axis_hit_iff; exact E1|]. intros b Hb. destruct b; unfold before in Hb; cbn in Hb; try lia.
    cbn [row]. rewrite <- axis_hit_iff. congruence. }
  destruct (axis_hit prec (r2 T) i) eqn:E2.
  { split; [apply axis_hit_iff; exact E2|]. intros b Hb. destruct b; unfold before in Hb; cbn in Hb; try lia;
      cbn [row]; rewrite <- axis_hit_iff; congruence. }
  intros b. destruct b; cbn [row]; rewrite <- axis_hit_iff; congruence.
Qed.

(* a signed permutation matrix (what spglib returns when the input cell already is a conventional cell up to
   relabelling) always qualifies: the row that carries the non-periodic input axis is found *)
Theorem detect_signed_permutation prec T i a :
  0 < prec -> prec < 1 ->
  (getc i (row a T) == 1 \/ getc i (row a T) == -(1)) -> getc (nxt i) (row a T) == 0 -> getc (nxt (nxt i)) (row a T) == 0 ->
  (forall b, b <> a -> getc i (row b T) == 0) ->
  detect prec T i = Some a.
Proof.
  intros Hp Hp1 Hi H1 H2 Hoth.
  assert (Hit : axis_hit_P prec (row a T) i).
  { unfold axis_hit_P. split; [|split].
    - destruct Hi as [E|E]; rewrite E; vm_compute Qabs; exact Hp1.
    - rewrite H1. exact Hp.
    - rewrite H2. exact Hp. }
  assert (Hno : forall b, b <> a -> ~ axis_hit_P prec (row b T) i).
  { intros b Hb (A & _). rewrite (Hoth b Hb) in A. change (Qabs 0) with 0 in A. lra. }
  pose proof (detect_spec prec T i) as S. destruct (detect prec T i) as [c|].
  - destruct S as [Sc _]. destruct (axis_eq_dec c a) as [->|Hn]; [reflexivity|]. exfalso. exact (Hno c Hn Sc).
  - exfalso. exact (S a Hit).
Qed.

(* ------------------------------------------------------------------------------------------ *)
(* ASE's wrap                                                                                 *)
(* ------------------------------------------------------------------------------------------ *)
Lemma wrap_eps_spec eps q :
  - eps <= wrap_eps eps q /\ wrap_eps eps q < 1 - eps /\ wrap_eps eps q == q - inject_Z (Qfloor (q + eps)).
Proof.
  unfold wrap_eps. destruct (wrap1_spec (q + eps)) as (A & B & Cc). repeat split; lra.
Qed.

Definition in_cell_eps (eps x : Q) : Prop := - eps <= x /\ x < 1 - eps.

Lemma ase_wrap_scaled eps m p : ~ det m == 0 -> veq (to_scaled m (ase_wrap eps m p)) (wrap_eps_v eps (to_scaled m p)).
Proof. intro Hd. unfold ase_wrap. destruct (scaled_cartesian_inverse m Hd) as [_ Inv]. apply Inv. Qed.

(* the wrapped atom is the original one moved by a lattice vector *)
Lemma ase_wrap_lattice eps m p : ~ det m == 0 ->
  exists k0 k1 k2 : Z, veq (ase_wrap eps m p) (vsub p (to_cartesian m (mkV (inject_Z k0) (inject_Z k1) (inject_Z k2)))).
Proof.
  intro Hd. destruct (scaled_cartesian_inverse m Hd) as [Inv _].
  unfold ase_wrap. set (s := to_scaled m p).
  assert (Hp : veq p (to_cartesian m s)) by (symmetry; apply Inv).
  exists (Qfloor (vx s + eps)), (Qfloor (vy s + eps)), (Qfloor (vz s + eps)).
  rewrite Hp at 1. rewrite !to_cart_R. unfold wrap_eps_v, wrap_eps, wrap1. raw. repeat split; ring.
Qed.

(* ------------------------------------------------------------------------------------------ *)
(* exchanging two cell vectors exchanges the scaled coordinates                               *)
(* ------------------------------------------------------------------------------------------ *)
Definition swap_comp (np : axis) (s : V3) : V3 :=
  match np with A0 => mkV (vz s) (vy s) (vx s) | A1 => mkV (vx s) (vz s) (vy s) | A2 => s end.
Definition swap_rows (np : axis) (m : M3) : M3 :=
  match np with A0 => mkM (r2 m) (r1 m) (r0 m) | A1 => mkM (r0 m) (r2 m) (r1 m) | A2 => m end.

Lemma swapped_cell m pbc ps np : s_cell (swapped (mkSys m pbc ps) np) = swap_rows np m.
Proof. destruct m as [a b c], np; reflexivity. Qed.
Lemma swapped_pbc m ps np : s_pbc (swapped (mkSys m (conv_pbc np) ps) np) = mkB true true false.
Proof. destruct np; reflexivity. Qed.
Lemma swapped_pos m pbc ps np : s_pos (swapped (mkSys m pbc ps) np) = ps.
Proof. destruct np; reflexivity. Qed.
Lemma swap_rows_last np m : row A2 (swap_rows np m) = row np m.
Proof. destruct np; reflexivity. Qed.

(* the two in-plane vectors of the result, by position *)
Definition ip0 (np : axis) : axis := match np with A0 => A2 | _ => A0 end.
Definition ip1 (np : axis) : axis := match np with A1 => A2 | _ => A1 end.
Lemma swap_rows_inplane np m : row A0 (swap_rows np m) = row (ip0 np) m /\ row A1 (swap_rows np m) = row (ip1 np) m.
Proof. destruct np; split; reflexivity. Qed.
Lemma ip_distinct np : ip0 np <> np /\ ip1 np <> np /\ ip0 np <> ip1 np.
Proof. destruct np; repeat split; discriminate. Qed.

Lemma detR_swap np m : detR (swap_rows np m) == (match np with A2 => 1 | _ => -(1) end) * detR m.
Proof. destruct m as [[a b c] [d0 e f] [g h i]], np; cbn [swap_rows]; raw; ring. Qed.
Lemma det_swap_nz np m : ~ det m == 0 -> ~ det (swap_rows np m) == 0.
Proof. rewrite !det_R, detR_swap. intros H E. apply H. destruct np; lra. Qed.

Lemma scaledR_swap np m p : ~ detR m == 0 -> veq (to_scaledR (swap_rows np m) p) (swap_comp np (to_scaledR m p)).
Proof.
  destruct m as [[a b c] [d0 e f] [g h i]], p as [x y z]. intro Hd.
  destruct np; cbn [swap_rows swap_comp r0 r1 r2]; try reflexivity; raw; repeat split; field; repeat split; try assumption;
    (intro E; apply Hd; rewrite <- E; ring) || (intro E; apply Hd; lra) || idtac.
Qed.

#[export] Instance swap_comp_proper np : Proper (veq ==> veq) (swap_comp np).
Proof. intros s s' (H1 & H2 & H3). destruct np; unfold veq; cbn [swap_comp vx vy vz]; repeat split; assumption. Qed.

Lemma to_scaled_swap np m p : ~ det m == 0 -> veq (to_scaled (swap_rows np m) p) (swap_comp np (to_scaled m p)).
Proof.
  intro Hd. rewrite !to_scaled_R. apply scaledR_swap. rewrite <- det_R. exact Hd.
Qed.

(* ------------------------------------------------------------------------------------------ *)
(* list helpers                                                                               *)
(* ------------------------------------------------------------------------------------------ *)
Lemma Forall2_Forall_r {A B} (R : A -> B -> Prop) (P : A -> Prop) (Q : B -> Prop) l l' :
  Forall2 R l l' -> Forall P l -> (forall x y, R x y -> P x -> Q y) -> Forall Q l'.
Proof.
  intros H. induction H; intros HP HQ; constructor.
  - inversion HP; subst. eapply HQ; eassumption.
  - inversion HP; subst. apply IHForall2; assumption.
Qed.
Lemma Forall2_map_l {A B C} (R : B -> C -> Prop) (f : A -> B) l l' :
  Forall2 R (map f l) l' -> Forall2 (fun x y => R (f x) y) l l'.
Proof.
  revert l'. induction l as [|a l IH]; intros l' H; inversion H; subst; constructor; [assumption | apply IH; assumption].
Qed.
Lemma Forall2_impl {A B} (R R' : A -> B -> Prop) l l' : (forall x y, R x y -> R' x y) -> Forall2 R l l' -> Forall2 R' l l'.
Proof. intros HI H. induction H; constructor; auto. Qed.
Lemma Forall_and {A} (P Q : A -> Prop) l : Forall P l -> Forall Q l -> Forall (fun x => P x /\ Q x) l.
Proof. intros HP HQ. induction HP; inversion HQ; subst; constructor; auto. Qed.

(* ------------------------------------------------------------------------------------------ *)
(* the post-processing pipeline                                                               *)
(* ------------------------------------------------------------------------------------------ *)
(* the atomic extent along the non-periodic vector: (largest - smallest scaled coordinate of the centred atoms) * |vector| *)
Definition extent (eps : Q) (m : M3) (ps : list V3) (np : axis) (t : V3) (L : Q) : Q :=
  mc_e (swap_rows np m) (centred eps m ps np t) A2 * L.

Section Pipeline.
Variables (eps : Q) (m : M3) (nums : list Z) (ps : list V3) (np : axis) (t : V3) (ms L : Q).
Hypothesis Hdet : ~ det m == 0.
Hypothesis Hne : ps <> [].
Hypothesis Hms : 0 < ms.
Hypothesis HL : 0 < L.
Hypothesis HLL : L * L == dot (row np m) (row np m).

Let ps2 := centred eps m ps np t.
Let m' := swap_rows np m.
Let r := pipeline eps m nums ps np t ms L.

Lemma pipeline_eq : r = min_cell m' (mkB true true false) nums ps2 A2 ms L.
Proof. unfold r, pipeline. rewrite swapped_cell, swapped_pbc, swapped_pos. reflexivity. Qed.

Lemma ps2_ne : ps2 <> [].
Proof. unfold ps2, centred. destruct ps; [congruence | discriminate]. Qed.

Lemma pipeline_mc_spec : mc_spec m' (mkB true true false) nums ps2 A2 ms L r.
Proof.
  rewrite pipeline_eq. apply minimized_cell_spec.
  - apply det_swap_nz. exact Hdet.
  - exact ps2_ne.
  - exact Hms.
  - exact HL.
  - unfold m'. rewrite swap_rows_last. exact HLL.
Qed.

Lemma wrapped_components a np' s : in_cell_eps eps (getc a (swap_comp np' (wrap_eps_v eps s))).
Proof.
  destruct np', a; cbn [swap_comp wrap_eps_v getc vx vy vz]; unfold in_cell_eps;
    match goal with |- context [wrap_eps eps ?q] => destruct (wrap_eps_spec eps q) as (A & B & _) end; split; assumption.
Qed.

Lemma centred_inside p a : In p ps2 -> in_cell_eps eps (getc a (to_scaled m' p)).
Proof.
  intro Hin. unfold ps2, centred in Hin. apply in_map_iff in Hin. destruct Hin as (q & <- & _).
  assert (E : getc a (to_scaled m' (ase_wrap eps m (vadd q (mask_translation np t))))
              == getc a (swap_comp np (wrap_eps_v eps (to_scaled m (vadd q (mask_translation np t)))))).
  { unfold m'. rewrite (to_scaled_swap np m _ Hdet). rewrite (ase_wrap_scaled eps m _ Hdet). reflexivity. }
  pose proof (wrapped_components a np (to_scaled m (vadd q (mask_translation np t)))) as W.
  unfold in_cell_eps in *. rewrite E. exact W.
Qed.

Theorem pipeline_spec_sec :
  (* periodic in (a, b) only, with the non-periodic vector last; species kept, in order *)
  mc_pbc r = mkB true true false /\ mc_numbers r = nums /\ length (mc_pos r) = length ps /\
  (* the in-plane cell vectors are those of the ideal cell (translation, wrap, swap and minimisation leave them alone) *)
  row A0 (mc_cell r) = row (ip0 np) m /\ row A1 (mc_cell r) = row (ip1 np) m /\
  (* the last one is the non-periodic vector of the ideal cell, rescaled by a positive factor *)
  (exists k, 0 < k /\ veq (row A2 (mc_cell r)) (vscale k (row np m))) /\
  ~ det (mc_cell r) == 0 /\
  (* thickness along c = max(atomic extent, min_2d_thickness) *)
  dot (row A2 (mc_cell r)) (row A2 (mc_cell r)) == qmax (extent eps m ps np t L * extent eps m ps np t L) (ms * ms) /\
  (mc_padded r = true <-> extent eps m ps np t L < ms) /\
  (* all atoms inside the cell (ASE's wrap leaves [-eps, 1-eps) in the periodic directions) *)
  mc_pos r = map (to_cartesian (mc_cell r)) (mc_scaled r) /\
  Forall (fun s => in_cell_eps eps (vx s) /\ in_cell_eps eps (vy s) /\ 0 <= vz s /\ vz s <= 1) (mc_scaled r) /\
  (* along c the atoms reach both faces (not padded) or are centred (padded) *)
  (mc_padded r = false -> Exists (fun s => vz s == 0) (mc_scaled r) /\ Exists (fun s => vz s == 1) (mc_scaled r)) /\
  (mc_padded r = true -> exists lo hi, lo + hi == 1 /\ Forall (fun s => lo <= vz s /\ vz s <= hi) (mc_scaled r) /\
                                       Exists (fun s => vz s == lo) (mc_scaled r) /\ Exists (fun s => vz s == hi) (mc_scaled r)) /\
  (* the same structure: every atom is the ideal atom moved by the masked translation, a lattice vector of the ideal
     cell and one common shift along the non-periodic vector *)
  (exists w, Forall2 (fun p p' => exists k0 k1 k2 : Z,
                 veq p' (vsub (vsub (vadd p (mask_translation np t)) (to_cartesian m (mkV (inject_Z k0) (inject_Z k1) (inject_Z k2))))
                              (vscale w (row np m)))) ps (mc_pos r)).
Proof.
  pose proof pipeline_mc_spec as S. unfold mc_spec in S.
  destruct S as (Snum & Spbc & Slen & Spos & (w & Sw) & Srows & (k & Hk & Sk) & Sdet & Ssq & Spad & Sin & Soth & Scen & Sface).
  destruct (swap_rows_inplane np m) as [R0 R1].
  repeat match goal with |- _ /\ _ => split end.
  - exact Spbc.
  - exact Snum.
  - rewrite Slen. unfold ps2, centred. apply map_length.
  - rewrite (Srows A0) by discriminate. exact R0.
  - rewrite (Srows A1) by discriminate. exact R1.
  - exists k. split; [exact Hk|]. unfold m' in Sk. rewrite swap_rows_last in Sk. exact Sk.
  - exact Sdet.
  - exact Ssq.
  - exact Spad.
  - exact Spos.
  - assert (N0 : A0 <> A2) by discriminate. assert (N1 : A1 <> A2) by discriminate.
    assert (Fin : Forall (fun p => In p ps2) ps2) by (apply Forall_forall; auto).
    assert (Fxy : Forall (fun s => in_cell_eps eps (vx s) /\ in_cell_eps eps (vy s)) (mc_scaled r)).
    { eapply (Forall2_Forall_r _ _ _ _ _ Soth Fin). intros p s Hs Hin. cbv beta in Hs.
      pose proof (Hs A0 N0) as E0. pose proof (Hs A1 N1) as E1.
      pose proof (centred_inside p A0 Hin) as C0. pose proof (centred_inside p A1 Hin) as C1.
      cbn [getc] in *. unfold in_cell_eps in *. rewrite E0, E1. split; assumption. }
    pose proof (Forall_and _ _ _ Fxy Sin) as F. eapply Forall_impl; [|exact F]. cbn [getc]. intros s ((A & B) & (C & D)). tauto.
  - exact Sface.
  - exact Scen.
  - exists w. unfold ps2, centred in Sw. apply Forall2_map_l in Sw. eapply Forall2_impl; [|exact Sw].
    intros p p' E. cbv beta in E.
    destruct (ase_wrap_lattice eps m (vadd p (mask_translation np t)) Hdet) as (k0 & k1 & k2 & W).
    exists k0, k1, k2. rewrite E, W. unfold m'. rewrite swap_rows_last. reflexivity.
Qed.
End Pipeline.

Theorem pipeline_spec eps m nums ps np t ms L :
  ~ det m == 0 -> ps <> [] -> 0 < ms -> 0 < L -> L * L == dot (row np m) (row np m) ->
  let r := pipeline eps m nums ps np t ms L in
  mc_pbc r = mkB true true false /\ mc_numbers r = nums /\ length (mc_pos r) = length ps /\
  row A0 (mc_cell r) = row (ip0 np) m /\ row A1 (mc_cell r) = row (ip1 np) m /\
  (exists k, 0 < k /\ veq (row A2 (mc_cell r)) (vscale k (row np m))) /\
  ~ det (mc_cell r) == 0 /\
  dot (row A2 (mc_cell r)) (row A2 (mc_cell r)) == qmax (extent eps m ps np t L * extent eps m ps np t L) (ms * ms) /\
  (mc_padded r = true <-> extent eps m ps np t L < ms) /\
  mc_pos r = map (to_cartesian (mc_cell r)) (mc_scaled r) /\
  Forall (fun s => in_cell_eps eps (vx s) /\ in_cell_eps eps (vy s) /\ 0 <= vz s /\ vz s <= 1) (mc_scaled r) /\
  (mc_padded r = false -> Exists (fun s => vz s == 0) (mc_scaled r) /\ Exists (fun s => vz s == 1) (mc_scaled r)) /\
  (mc_padded r = true -> exists lo hi, lo + hi == 1 /\ Forall (fun s => lo <= vz s /\ vz s <= hi) (mc_scaled r) /\
                                       Exists (fun s => vz s == lo) (mc_scaled r) /\ Exists (fun s => vz s == hi) (mc_scaled r)) /\
  (exists w, Forall2 (fun p p' => exists k0 k1 k2 : Z,
                 veq p' (vsub (vsub (vadd p (mask_translation np t)) (to_cartesian m (mkV (inject_Z k0) (inject_Z k1) (inject_Z k2))))
                              (vscale w (row np m)))) ps (mc_pos r)).
Proof. intros. apply pipeline_spec_sec; assumption. Qed.

(* ------------------------------------------------------------------------------------------ *)
(* the centring translation                                                                   *)
(* ------------------------------------------------------------------------------------------ *)
(* translation[conv_pbc] = 0: the entries of the (cartesian) vector at the two periodic indices are zero *)
Theorem mask_translation_spec np t :
  getc np (mask_translation np t) = getc np t /\ forall a, a <> np -> getc a (mask_translation np t) = 0.
Proof.
  unfold mask_translation. split; [apply getc_setc_same|].
  intros a Ha. rewrite (getc_setc_other _ _ _ _ Ha). destruct a; reflexivity.
Qed.

Lemma scaledR_add m p v : ~ detR m == 0 -> veq (to_scaledR m (vadd p v)) (vadd (to_scaledR m p) (to_scaledR m v)).
Proof.
  destruct m as [[a b c] [d0 e f] [g h i]], p as [x y z], v as [u0 u1 u2]. intro Hd. raw. repeat split; field; exact Hd.
Qed.

(* When the non-periodic vector of the ideal cell points along the cartesian axis with the same index (spglib's
   standard orientation puts a on x and b in the xy plane; with the non-periodic vector perpendicular to the two
   others this is the case), the masked translation is a multiple of that cell vector: in scaled coordinates only the
   non-periodic component of the atoms changes -- the structure is not moved within the periodic plane. *)
Theorem centring_moves_only_along_normal m np t lam p :
  ~ det m == 0 -> ~ lam == 0 -> veq (row np m) (setc np vzero lam) ->
  veq (to_scaled m (vadd p (mask_translation np t))) (vadd (to_scaled m p) (setc np vzero (getc np t / lam))).
Proof.
  intros Hd Hl Hrow.
  assert (HdR : ~ detR m == 0) by (rewrite <- det_R; exact Hd).
  rewrite !to_scaled_R. rewrite (scaledR_add m p _ HdR).
  assert (E : veq (mask_translation np t) (to_cartR m (setc np vzero (getc np t / lam)))).
  { rewrite cartR_unit. rewrite Hrow. unfold mask_translation.
    destruct np; unfold vscale, veq; cbn [setc getc vzero vx vy vz]; repeat split; field; exact Hl. }
  rewrite E. destruct (inverseR m HdR) as [_ Inv]. rewrite (Inv _). reflexivity.
Qed.

(* ------------------------------------------------------------------------------------------ *)
(* the whole 2D branch                                                                        *)
(* ------------------------------------------------------------------------------------------ *)
Lemma first_false_two b : n_pbc b = 2%nat -> exists i, first_false b = Some i /\ getb i b = false /\ forall a, a <> i -> getb a b = true.
Proof.
  destruct b as [[|] [|] [|]]; cbn; intro H; try discriminate.
  - exists A2. repeat split. intros a Ha. destruct a; try reflexivity; congruence.
  - exists A1. repeat split. intros a Ha. destruct a; try reflexivity; congruence.
  - exists A0. repeat split. intros a Ha. destruct a; try reflexivity; congruence.
Qed.

Theorem conventional_2d_cases prec eps in_pbc T m nums ps t ms L :
  match conventional_2d prec eps in_pbc T m nums ps t ms L with
  | Conv r => n_pbc in_pbc = 2%nat /\ exists i np, first_false in_pbc = Some i /\ detect prec T i = Some np /\
              r = pipeline eps m nums ps np t ms L
  | MatIDError_ => n_pbc in_pbc = 2%nat /\ exists i, first_false in_pbc = Some i /\ forall b, ~ axis_hit_P prec (row b T) i
  | Not2D => n_pbc in_pbc = 3%nat
  | ValueError_ => n_pbc in_pbc <> 2%nat /\ n_pbc in_pbc <> 3%nat
  end.
Proof.
  unfold conventional_2d.
  destruct (n_pbc in_pbc) as [|[|[|[|n]]]] eqn:E; try (split; discriminate); try reflexivity.
  destruct (first_false_two in_pbc E) as (i & Hi & _). rewrite Hi.
  pose proof (detect_spec prec T i) as D.
  destruct (detect prec T i) as [np|] eqn:Ed.
  - split; [reflexivity|]. exists i, np. split; [reflexivity|]. split; [exact Ed | reflexivity].
  - split; [reflexivity|]. exists i. split; [reflexivity | exact D].
Qed.

(* ------------------------------------------------------------------------------------------ *)
(* the id string                                                                              *)
(* ------------------------------------------------------------------------------------------ *)
Lemma is_digit_not_D c : is_digit c = true -> c <> "D"%char.
Proof. intros H E. subst c. vm_compute in H. discriminate. Qed.
Lemma is_digit_not_space c : is_digit c = true -> c <> sp.
Proof. intros H E. subst c. vm_compute in H. discriminate. Qed.

(* the string of a 2D system never equals the string of ANY bulk system (whatever number and Wyckoff string the bulk
   analysis of the same cell finds): a decimal numeral followed by a space has no "D" in second place *)
Theorem id_string_2d_ne_3d digits wy digits' wy' :
  forallb is_digit digits' = true -> id_string true digits wy <> id_string false digits' wy'.
Proof.
  intro Hd. unfold id_string. cbn [app].
  destruct digits' as [|d1 [|d2 ds]]; cbn [app].
  - intro E. inversion E.
  - intro E. inversion E.
  - cbn [forallb] in Hd. apply andb_true_iff in Hd. destruct Hd as [_ Hd]. apply andb_true_iff in Hd. destruct Hd as [H2 _].
    intro E. inversion E as [[E1 E2 E3]]. apply (is_digit_not_D d2 H2). symmetry. exact E2.
Qed.

(* in particular for the same (number, Wyckoff string) *)
Corollary id_string_prefix_changes digits wy : forallb is_digit digits = true -> id_string true digits wy <> id_string false digits wy.
Proof. apply id_string_2d_ne_3d. Qed.

(* the decimal numeral Python prints for a positive integer consists of digits *)
Fixpoint uint_chars (u : Decimal.uint) : chars :=
  match u with
  | Decimal.Nil => []
  | Decimal.D0 u => "0"%char :: uint_chars u | Decimal.D1 u => "1"%char :: uint_chars u | Decimal.D2 u => "2"%char :: uint_chars u
  | Decimal.D3 u => "3"%char :: uint_chars u | Decimal.D4 u => "4"%char :: uint_chars u | Decimal.D5 u => "5"%char :: uint_chars u
  | Decimal.D6 u => "6"%char :: uint_chars u | Decimal.D7 u => "7"%char :: uint_chars u | Decimal.D8 u => "8"%char :: uint_chars u
  | Decimal.D9 u => "9"%char :: uint_chars u
  end.
Definition decimal (p : positive) : chars := uint_chars (Pos.to_uint p).
Lemma uint_chars_digits u : forallb is_digit (uint_chars u) = true.
Proof. induction u; cbn [uint_chars forallb]; try reflexivity; rewrite IHu; reflexivity. Qed.
Lemma decimal_digits p : forallb is_digit (decimal p) = true.
Proof. apply uint_chars_digits. Qed.

Theorem material_id_string_2d_ne_3d (n n' : positive) wy wy' :
  id_string true (decimal n) wy <> id_string false (decimal n') wy'.
Proof. apply id_string_2d_ne_3d. apply decimal_digits. Qed.

Example id_string_example :
  id_string true (decimal 191) ["C"; " "; "c"; " "; "2"]%char = ["2"; "D"; " "; "1"; "9"; "1"; " "; "C"; " "; "c"; " "; "2"]%char.
Proof. reflexivity. Qed.

(* ------------------------------------------------------------------------------------------ *)
(* non-vacuity                                                                                *)
(* ------------------------------------------------------------------------------------------ *)
(* an ideal cell whose SECOND vector is the non-periodic one (length 5), three atoms, a centring translation with all
   three entries non-zero (two of them are masked), min_2d_thickness 1 and 3 *)
Definition ex2_cell := mkM (mkV 3 0 0) (mkV 0 5 0) (mkV 1 0 4).
Definition ex2_atoms := [mkV 0 (1 # 2) 0; mkV 1 (3 # 2) 2; mkV (5 # 2) 1 (7 # 2)].
Definition ex2_t := mkV (1 # 3) 2 (-(1) # 7).
Definition ex2_eps := 1 # 10000000.
Example pipeline_hyps : ~ det ex2_cell == 0 /\ ex2_atoms <> [] /\ 5 * 5 == dot (row A1 ex2_cell) (row A1 ex2_cell).
Proof. repeat split; [intro H; vm_compute in H; discriminate H | discriminate]. Qed.
Example pipeline_not_padded :
  let r := pipeline ex2_eps ex2_cell [6; 6; 8]%Z ex2_atoms A1 ex2_t (1 # 2) 5 in
  mc_padded r = false /\ mc_pbc r = mkB true true false /\
  meq (mc_cell r) (mkM (mkV 3 0 0) (mkV 1 0 4) (mkV 0 1 0)) /\
  map vred (mc_scaled r) = [mkV 0 0 0; mkV (1 # 6) (1 # 2) 1; mkV (13 # 24) (7 # 8) (1 # 2)].
Proof. vm_compute. repeat split. Qed.
Example pipeline_padded :
  let r := pipeline ex2_eps ex2_cell [6; 6; 8]%Z ex2_atoms A1 ex2_t 3 5 in
  mc_padded r = true /\ meq (mc_cell r) (mkM (mkV 3 0 0) (mkV 1 0 4) (mkV 0 3 0)) /\
  map vz (map vred (mc_scaled r)) = [1 # 3; 2 # 3; 1 # 2].
Proof. vm_compute. repeat split. Qed.

(* detection: identity, a relabelling with a sign, a sheared matrix that mixes the non-periodic axis into two rows
   (second row qualifies first), and a matrix on which the analyzer raises MatIDError *)
Example detect_examples :
  let prec := 1 # 100000000 in
  detect prec (mkM (mkV 1 0 0) (mkV 0 1 0) (mkV 0 0 1)) A2 = Some A2 /\
  detect prec (mkM (mkV 0 0 (-(1))) (mkV 1 0 0) (mkV 0 1 0)) A2 = Some A0 /\
  detect prec (mkM (mkV 1 1 0) (mkV 0 2 0) (mkV 0 0 1)) A1 = Some A1 /\
  detect prec (mkM (mkV 1 0 1) (mkV 0 1 1) (mkV 1 1 1)) A2 = None /\
  conventional_2d prec ex2_eps (mkB true true false) (mkM (mkV 1 0 1) (mkV 0 1 1) (mkV 1 1 1)) ex2_cell [6; 6; 8]%Z ex2_atoms ex2_t 1 5 = MatIDError_.
Proof. vm_compute. repeat split. Qed.

Example vacuum_example :
  (* orthogonal cell, non-periodic third vector of length 20, two atoms 2 apart along it: thickness 2 -> new length 6 *)
  meq (analyzed_cell (mkM (mkV 3 0 0) (mkV 0 4 0) (mkV 0 0 20)) (mkB true true false) [mkV 0 0 9; mkV 1 1 11] A2 20)
      (mkM (mkV 3 0 0) (mkV 0 4 0) (mkV 0 0 6)) /\
  (* a flat layer: length 5 *)
  meq (analyzed_cell (mkM (mkV 3 0 0) (mkV 0 4 0) (mkV 0 0 20)) (mkB true true false) [mkV 0 0 9; mkV 1 1 9] A2 20)
      (mkM (mkV 3 0 0) (mkV 0 4 0) (mkV 0 0 5)).
Proof. vm_compute. repeat split. Qed.

(* ------------------------------------------------------------------------------------------ *)
(* The full statement of C11 -- NOT proved in this development.                               *)
(* ------------------------------------------------------------------------------------------ *)
(* It quantifies over the whole analyzer, i.e. over what spglib returns for the vacuum-padded cell (space-group
   number, standardised cell and its transformation matrix, Wyckoff letters, origin choice).  What IS proved, and named
   ..._partial in Properties/C11.v: the vacuum rule and the fact that the analyzed cell does not depend on the amount of
   vacuum (analyzed_cell_vacuum_independent), the axis detection (detect_spec), every normal-form clause for the
   post-processing of ANY ideal system (pipeline_spec), the id prefix (material_id_string_2d_ne_3d); the invariance of
   the (letter, element, multiplicity) multiset under the origin/setting ambiguity that the normalizer search removes is
   C06_ground_state_invariant (Properties/C06.v).  The clauses below that tie two presentations of one layer together
   are validated by the contract-conformance run of harness/props/c11.py, not proved. *)
Record Layer := mkLayer { l_cell : M3; l_pbc : B3; l_pos : list V3; l_nums : list Z }.
Record Report := mkReport {
  rp_number : positive;                               (* space-group number *)
  rp_sets : list (ascii * Z * nat);                   (* (Wyckoff letter, atomic number, multiplicity) *)
  rp_cell : M3; rp_pbc : B3; rp_scaled : list V3; rp_nums : list Z;   (* the conventional system *)
  rp_id : chars }.                                    (* the string that get_material_id hashes *)

Definition l_atoms (x : Layer) : list (V3 * Z) := combine (l_pos x) (l_nums x).

(* the property's precondition: two periodic directions, non-periodic cell vector perpendicular to the periodic plane *)
Definition admissible (x : Layer) : Prop :=
  n_pbc (l_pbc x) = 2%nat /\ ~ det (l_cell x) == 0 /\ l_pos x <> [] /\ length (l_pos x) = length (l_nums x) /\
  exists i, first_false (l_pbc x) = Some i /\ forall a, a <> i -> dot (row i (l_cell x)) (row a (l_cell x)) == 0.

(* squared atomic extent along the non-periodic vector *)
Definition extent_sq (x : Layer) : Q :=
  match first_false (l_pbc x) with
  | None => 0
  | Some i => let c := map (fun p => getc i (to_scaled (l_cell x) p)) (l_pos x) in
              (lmax c - lmin c) * (lmax c - lmin c) * dot (row i (l_cell x)) (row i (l_cell x))
  end.

Definition rotation (R : M3) : Prop :=
  (forall a b, dot (row a R) (row b R) == if axis_eqb a b then 1 else 0) /\ det R == 1.
Definition inplane_lattice (c : M3) (i : axis) (v : V3) : Prop :=
  exists n0 n1 n2 : Z, getc i (mkV (inject_Z n0) (inject_Z n1) (inject_Z n2)) == 0 /\
                       veq v (to_cartesian c (mkV (inject_Z n0) (inject_Z n1) (inject_Z n2))).
Definition abs_det (m : M3) : Q := Qabs (det m).

(* descriptions of one and the same layer *)
Inductive same_material : Layer -> Layer -> Prop :=
| SM_vacuum x i k :                                   (* more or less vacuum; atoms keep their cartesian positions *)
    first_false (l_pbc x) = Some i -> 0 < k ->
    same_material x (mkLayer (set_row i (l_cell x) (vscale k (row i (l_cell x)))) (l_pbc x) (l_pos x) (l_nums x))
| SM_relabel x a b :                                  (* which cell vector is the non-periodic one; generates all 6 permutations *)
    same_material x (let s := swap_basis (mkSys (l_cell x) (l_pbc x) (l_pos x)) a b in
                     mkLayer (s_cell s) (s_pbc s) (s_pos s) (l_nums x))
| SM_motion x R t :                                   (* proper rigid motion: includes turning the sheet upside down, and translations *)
    rotation R ->
    same_material x (mkLayer (mkM (mulv R (r0 (l_cell x))) (mulv R (r1 (l_cell x))) (mulv R (r2 (l_cell x)))) (l_pbc x)
                             (map (fun p => vadd (mulv R p) t) (l_pos x)) (l_nums x))
| SM_order x y :                                      (* atom order *)
    l_cell y = l_cell x -> l_pbc y = l_pbc x -> length (l_pos y) = length (l_nums y) -> length (l_pos x) = length (l_nums x) ->
    Permutation (l_atoms x) (l_atoms y) -> same_material x y
| SM_supercell x y i :                                (* in-plane supercell, atoms given modulo the in-plane lattice *)
    first_false (l_pbc x) = Some i -> l_pbc y = l_pbc x -> row i (l_cell y) = row i (l_cell x) ->
    (forall a, a <> i -> inplane_lattice (l_cell x) i (row a (l_cell y))) ->
    (forall p z, In (p, z) (l_atoms x) -> exists q, In (q, z) (l_atoms y) /\ inplane_lattice (l_cell x) i (vsub q p)) ->
    (forall q z, In (q, z) (l_atoms y) -> exists p, In (p, z) (l_atoms x) /\ inplane_lattice (l_cell x) i (vsub q p)) ->
    inject_Z (Z.of_nat (length (l_atoms y))) * abs_det (l_cell x) == inject_Z (Z.of_nat (length (l_atoms x))) * abs_det (l_cell y) ->
    same_material x y
| SM_sym x y : same_material x y -> same_material y x
| SM_trans x y z : same_material x y -> same_material y z -> same_material x z.

(* [analyse ms x]: SymmetryAnalyzer(x, min_2d_thickness = ms) -> conventional system, number, Wyckoff sets, id string;
   [bulk_id x]: id string of the same cell analysed with pbc = (True, True, True) *)
Definition C11_full_statement (analyse : Q -> Layer -> option Report) (bulk_id : Layer -> option chars) : Prop :=
  forall ms x, 0 < ms -> admissible x ->
    exists rx, analyse ms x = Some rx /\
      (* normal form *)
      rp_pbc rx = mkB true true false /\
      dot (r2 (rp_cell rx)) (r0 (rp_cell rx)) == 0 /\ dot (r2 (rp_cell rx)) (r1 (rp_cell rx)) == 0 /\
      Forall (fun s => 0 <= vx s /\ vx s <= 1 /\ 0 <= vy s /\ vy s <= 1 /\ 0 <= vz s /\ vz s <= 1) (rp_scaled rx) /\
      dot (r2 (rp_cell rx)) (r2 (rp_cell rx)) == qmax (extent_sq x) (ms * ms) /\
      (* independence of the presentation *)
      (forall y, same_material x y -> admissible y ->
         exists ry, analyse ms y = Some ry /\ rp_id ry = rp_id rx /\ rp_number ry = rp_number rx /\
                    Permutation (rp_sets ry) (rp_sets rx) /\
                    dot (r0 (rp_cell ry)) (r0 (rp_cell ry)) == dot (r0 (rp_cell rx)) (r0 (rp_cell rx)) /\
                    dot (r1 (rp_cell ry)) (r1 (rp_cell ry)) == dot (r1 (rp_cell rx)) (r1 (rp_cell rx)) /\
                    dot (r0 (rp_cell ry)) (r1 (rp_cell ry)) == dot (r0 (rp_cell rx)) (r1 (rp_cell rx))) /\
      (* not the id of the bulk crystal *)
      (forall s, bulk_id x = Some s -> s <> rp_id rx).
