(* C12 -- theorems about the index maps original -> primitive -> conventional (model: Primitive.v),
   for EVERY dataset spglib could return.  The contract S3 enters only as explicit hypotheses. *)
From Coq Require Import List Arith ZArith String Bool Lia Permutation.
Import ListNotations.
From MV Require Import Symmetry.Table Symmetry.WyckoffSets Symmetry.WyckoffSetsProofs Symmetry.Primitive.
Close Scope Z_scope.
Open Scope nat_scope.
Open Scope string_scope.

(* ---------- gather ------------------------------------------------------------------------------ *)
Lemma gather_Forall2 {A} (a : list A) idx r :
  gather a idx = Some r -> Forall2 (fun i y => nth_error a i = Some y) idx r.
Proof. unfold gather. apply all_some_Forall2. Qed.

Lemma gather_length {A} (a : list A) idx r : gather a idx = Some r -> List.length r = List.length idx.
Proof. intros H. symmetry. apply (Forall2_length _ _ _ (gather_Forall2 _ _ _ H)). Qed.

Lemma Forall2_nth_error {A B} (R : A -> B -> Prop) l r : Forall2 R l r ->
  forall k x, nth_error l k = Some x -> exists y, nth_error r k = Some y /\ R x y.
Proof.
  induction 1 as [|a b l r Hab _ IH]; intros [|k] x; simpl; try discriminate.
  - intros E; inversion E; subst. exists b. auto.
  - apply IH.
Qed.

Lemma Forall2_nth_error_r {A B} (R : A -> B -> Prop) l r : Forall2 R l r ->
  forall k y, nth_error r k = Some y -> exists x, nth_error l k = Some x /\ R x y.
Proof.
  induction 1 as [|a b l r Hab _ IH]; intros [|k] y; simpl; try discriminate.
  - intros E; inversion E; subst. exists a. auto.
  - apply IH.
Qed.

Lemma gather_nth {A} (a : list A) idx r k y :
  gather a idx = Some r -> nth_error r k = Some y -> exists i, nth_error idx k = Some i /\ nth_error a i = Some y.
Proof. intros H. apply (Forall2_nth_error_r _ _ _ (gather_Forall2 _ _ _ H)). Qed.

Lemma perm_letters_Forall2 p l r :
  perm_letters p l = Some r -> Forall2 (fun s t => perm_lookup p s = Some t) l r.
Proof. unfold perm_letters. apply all_some_Forall2. Qed.

Lemma perm_letters_length p l r : perm_letters p l = Some r -> List.length r = List.length l.
Proof. intros H. symmetry. apply (Forall2_length _ _ _ (perm_letters_Forall2 _ _ _ H)). Qed.

(* ---------- describe, read back --------------------------------------------------------------- *)
Record chain (perm : list (string * string)) (c : string) (ds : dataset) (d : descr)
  (spl : list string) (spe : list nat) (scl : list string) (m : nat) : Prop := mkChain {
  ch_len_orb : List.length (ds_orbits ds) = List.length (ds_wyckoffs ds);
  ch_len_m2p : List.length (ds_m2p ds) = List.length (ds_wyckoffs ds);
  ch_len_typ : List.length (ds_std_types ds) = List.length (ds_std_m2p ds);
  ch_spl : gather (ds_wyckoffs ds) (prim_to_orig ds) = Some spl;
  ch_spe : gather (ds_orbits ds) (prim_to_orig ds) = Some spe;
  ch_scl : gather spl (ds_std_m2p ds) = Some scl;
  ch_sce : gather spe (ds_std_m2p ds) = Some (d_conv_equiv d);
  ch_cl : perm_letters perm scl = Some (d_conv_letters d);
  ch_ol : perm_letters perm (ds_wyckoffs ds) = Some (d_orig_letters d);
  ch_oe : d_orig_equiv d = ds_orbits ds;
  ch_m : centring_mult c = Some m;
  ch_prim : (m = 1 /\ d_prim_letters d = d_conv_letters d /\ d_prim_equiv d = d_conv_equiv d /\ d_prim_numbers d = ds_std_types ds)
            \/ (m <> 1 /\ gather (d_conv_letters d) (inside_mask ds) = Some (d_prim_letters d)
                /\ gather (d_conv_equiv d) (inside_mask ds) = Some (d_prim_equiv d)
                /\ gather (ds_std_types ds) (inside_mask ds) = Some (d_prim_numbers d)) }.

Lemma describe_inv perm c ds d : describe perm c ds = Some d ->
  exists spl spe scl m, chain perm c ds d spl spe scl m.
Proof.
  unfold describe, bind.
  destruct (negb _) eqn:G; [discriminate|]. apply negb_false_iff in G.
  rewrite !andb_true_iff, !Nat.eqb_eq in G. destruct G as [[G1 G2] G3].
  destruct (gather (ds_wyckoffs ds) (prim_to_orig ds)) as [spl|] eqn:E1; [|discriminate].
  destruct (gather (ds_orbits ds) (prim_to_orig ds)) as [spe|] eqn:E2; [|discriminate].
  destruct (gather spl (ds_std_m2p ds)) as [scl|] eqn:E3; [|discriminate].
  destruct (gather spe (ds_std_m2p ds)) as [sce|] eqn:E4; [|discriminate].
  destruct (perm_letters perm scl) as [cl|] eqn:E5; [|discriminate].
  destruct (perm_letters perm (ds_wyckoffs ds)) as [ol|] eqn:E6; [|discriminate].
  destruct (centring_mult c) as [m|] eqn:E7; [|discriminate].
  destruct (m =? 1)%nat eqn:Em.
  - intros H; inversion H; subst d; clear H. apply Nat.eqb_eq in Em.
    exists spl, spe, scl, m. constructor; simpl; auto.
  - destruct (gather cl (inside_mask ds)) as [pl|] eqn:E8; [|discriminate].
    destruct (gather sce (inside_mask ds)) as [pe|] eqn:E9; [|discriminate].
    destruct (gather (ds_std_types ds) (inside_mask ds)) as [pn|] eqn:E10; [|discriminate].
    intros H; inversion H; subst d; clear H. apply Nat.eqb_neq in Em.
    exists spl, spe, scl, m. constructor; simpl; auto; right; auto.
Qed.

Lemma centring_mult_P c : centring_mult c = Some 1 <-> c = "P".
Proof.
  unfold centring_mult. destruct (String.eqb c "P") eqn:E.
  - apply String.eqb_eq in E. tauto.
  - apply String.eqb_neq in E.
    repeat (match goal with |- context [if ?b then _ else _] => destruct b end); split; intros H; try discriminate; congruence.
Qed.

Lemma centring_mult_range c m : centring_mult c = Some m -> 1 <= m <= 4.
Proof.
  unfold centring_mult.
  repeat (match goal with |- context [if ?b then _ else _] => destruct b end); intros H; inversion H; lia.
Qed.

(* ---------- one entry per atom ------------------------------------------------------------------- *)
(* atoms: original = entries of the dataset's wyckoffs; conventional = entries of std_types;
   primitive = entries of the primitive system's atomic numbers *)
Theorem one_entry_per_atom perm c ds d : describe perm c ds = Some d ->
  List.length (d_orig_letters d) = List.length (ds_wyckoffs ds)
  /\ List.length (d_orig_equiv d) = List.length (ds_wyckoffs ds)
  /\ List.length (d_conv_letters d) = List.length (ds_std_types ds)
  /\ List.length (d_conv_equiv d) = List.length (ds_std_types ds)
  /\ List.length (d_prim_letters d) = List.length (d_prim_numbers d)
  /\ List.length (d_prim_equiv d) = List.length (d_prim_numbers d).
Proof.
  intros H. destruct (describe_inv _ _ _ _ H) as [spl [spe [scl [m Hc]]]]. destruct Hc.
  pose proof (perm_letters_length _ _ _ ch_ol0) as L1.
  pose proof (perm_letters_length _ _ _ ch_cl0) as L2.
  pose proof (gather_length _ _ _ ch_scl0) as L3.
  pose proof (gather_length _ _ _ ch_sce0) as L4.
  repeat split; try lia.
  - rewrite ch_oe0. exact ch_len_orb0.
  - destruct ch_prim0 as [[_ [-> [_ ->]]]|[_ [G1 [_ G3]]]]; [lia|].
    rewrite (gather_length _ _ _ G1), (gather_length _ _ _ G3). reflexivity.
  - destruct ch_prim0 as [[_ [_ [-> ->]]]|[_ [_ [G2 G3]]]]; [lia|].
    rewrite (gather_length _ _ _ G2), (gather_length _ _ _ G3). reflexivity.
Qed.

(* ---------- primitive atom count ------------------------------------------------------------------- *)
Lemma flat_map_length_const {A B} (f : A -> list B) l m :
  (forall a, In a l -> List.length (f a) = m) -> List.length (flat_map f l) = List.length l * m.
Proof.
  induction l as [|a t IH]; simpl; intros H; [reflexivity|].
  rewrite app_length, (H a (or_introl eq_refl)), IH; [lia|]. intros; apply H; right; assumption.
Qed.

Lemma fibres_uniform_count l m :
  (forall v, In v l -> List.length (fibre l v) = m) -> List.length (distinct_sorted l) * m = List.length l.
Proof.
  intros H. rewrite <- (flat_map_length_const (fibre l)).
  - rewrite (Permutation_length (fibres_partition l)). apply seq_length.
  - intros v Hv. apply H. apply ds_In. exact Hv.
Qed.

Lemma inside_mask_length ds : List.length (inside_mask ds) = List.length (distinct_sorted (ds_std_m2p ds)).
Proof. unfold inside_mask, unique_first. rewrite !map_length. reflexivity. Qed.

(* S3: every fibre of std_mapping_to_primitive has the size of the centring multiplicity *)
Definition std_fibres (ds : dataset) (m : nat) : Prop :=
  forall v, In v (ds_std_m2p ds) -> List.length (fibre (ds_std_m2p ds) v) = m.

Theorem prim_count perm c ds d m : describe perm c ds = Some d -> centring_mult c = Some m -> std_fibres ds m ->
  List.length (d_prim_numbers d) * m = List.length (ds_std_types ds).
Proof.
  intros H Hm Hf. destruct (describe_inv _ _ _ _ H) as [spl [spe [scl [m' Hc]]]]. destruct Hc.
  rewrite Hm in ch_m0. inversion ch_m0; subst m'.
  destruct ch_prim0 as [[-> [_ [_ ->]]]|[_ [_ [_ G3]]]]; [lia|].
  rewrite (gather_length _ _ _ G3), inside_mask_length, ch_len_typ0. apply fibres_uniform_count. exact Hf.
Qed.

(* ---------- where a conventional / primitive atom comes from ------------------------------------ *)
(* conventional atom j takes letter and class from ONE original atom a (the first original atom of
   the primitive atom std_mapping_to_primitive[j]) *)
Lemma conv_atom_origin perm c ds d : describe perm c ds = Some d ->
  forall j e, nth_error (d_conv_equiv d) j = Some e ->
  exists a w, a < List.length (ds_wyckoffs ds)
    /\ nth_error (ds_orbits ds) a = Some e /\ nth_error (ds_wyckoffs ds) a = Some w
    /\ (exists v, nth_error (ds_std_m2p ds) j = Some v /\ nth_error (prim_to_orig ds) v = Some a)
    /\ (forall l, nth_error (d_conv_letters d) j = Some l <-> perm_lookup perm w = Some l)
    /\ nth_error (d_conv_letters d) j <> None.
Proof.
  intros H j e He. destruct (describe_inv _ _ _ _ H) as [spl [spe [scl [m Hc]]]]. destruct Hc.
  destruct (gather_nth _ _ _ _ _ ch_sce0 He) as [v [Hv Hpe]].
  destruct (gather_nth _ _ _ _ _ ch_spe0 Hpe) as [a [Ha Hoa]].
  assert (Hlt : a < List.length (ds_wyckoffs ds)).
  { rewrite <- ch_len_orb0. apply nth_error_Some. congruence. }
  destruct (Forall2_nth_error _ _ _ (gather_Forall2 _ _ _ ch_spl0) _ _ Ha) as [w [Hw1 Hw2]].
  destruct (Forall2_nth_error _ _ _ (gather_Forall2 _ _ _ ch_scl0) _ _ Hv) as [w' [Hw1' Hw2']].
  assert (w' = w) by congruence. subst w'.
  destruct (Forall2_nth_error _ _ _ (perm_letters_Forall2 _ _ _ ch_cl0) _ _ Hw1') as [l0 [Hl1 Hl2]].
  exists a, w. repeat split; auto.
  - exists v. auto.
  - intros E. congruence.
  - intros E. congruence.
  - congruence.
Qed.

(* S3 on the dataset: original atoms with the same orbit label carry the same letter *)
Definition orbits_share_letter (ds : dataset) : Prop :=
  forall a b, a < List.length (ds_wyckoffs ds) -> b < List.length (ds_wyckoffs ds) ->
    nth_error (ds_orbits ds) a = nth_error (ds_orbits ds) b -> nth_error (ds_wyckoffs ds) a = nth_error (ds_wyckoffs ds) b.

Theorem conv_equivalent_share_letter perm c ds d : describe perm c ds = Some d -> orbits_share_letter ds ->
  forall j j' e, nth_error (d_conv_equiv d) j = Some e -> nth_error (d_conv_equiv d) j' = Some e ->
    nth_error (d_conv_letters d) j = nth_error (d_conv_letters d) j'.
Proof.
  intros H HS j j' e He He'.
  destruct (conv_atom_origin _ _ _ _ H j e He) as [a [w [Ha [Hoa [Hwa [_ [Hl Hn]]]]]]].
  destruct (conv_atom_origin _ _ _ _ H j' e He') as [a' [w' [Ha' [Hoa' [Hwa' [_ [Hl' Hn']]]]]]].
  assert (w = w') by (pose proof (HS a a' Ha Ha') as E; rewrite Hoa, Hoa', Hwa, Hwa' in E; specialize (E eq_refl); congruence).
  subst w'.
  destruct (nth_error (d_conv_letters d) j) as [l|] eqn:E1; [|congruence].
  destruct (nth_error (d_conv_letters d) j') as [l'|] eqn:E2; [|congruence].
  pose proof (proj1 (Hl l) eq_refl). pose proof (proj1 (Hl' l') eq_refl). congruence.
Qed.

Theorem orig_equivalent_share_letter perm c ds d : describe perm c ds = Some d -> orbits_share_letter ds ->
  forall a b e, nth_error (d_orig_equiv d) a = Some e -> nth_error (d_orig_equiv d) b = Some e ->
    nth_error (d_orig_letters d) a = nth_error (d_orig_letters d) b.
Proof.
  intros H HS a b e Ha Hb. destruct (describe_inv _ _ _ _ H) as [spl [spe [scl [m Hc]]]]. destruct Hc.
  rewrite ch_oe0 in Ha, Hb.
  assert (La : a < List.length (ds_wyckoffs ds)) by (rewrite <- ch_len_orb0; apply nth_error_Some; congruence).
  assert (Lb : b < List.length (ds_wyckoffs ds)) by (rewrite <- ch_len_orb0; apply nth_error_Some; congruence).
  pose proof (HS a b La Lb) as E. rewrite Ha, Hb in E. specialize (E eq_refl).
  pose proof (perm_letters_Forall2 _ _ _ ch_ol0) as HF.
  destruct (nth_error (ds_wyckoffs ds) a) as [w|] eqn:Ew; [|apply nth_error_None in Ew; lia].
  destruct (Forall2_nth_error _ _ _ HF _ _ Ew) as [l [Hl1 Hl2]].
  symmetry in E. destruct (Forall2_nth_error _ _ _ HF _ _ E) as [l' [Hl1' Hl2']]. congruence.
Qed.

(* primitive atom k is conventional atom inside_mask[k] (centring <> P) or conventional atom k (P) *)
Lemma prim_atom_is_conv_atom perm c ds d : describe perm c ds = Some d ->
  forall k, k < List.length (d_prim_numbers d) ->
  exists j, nth_error (d_prim_letters d) k = nth_error (d_conv_letters d) j
         /\ nth_error (d_prim_equiv d) k = nth_error (d_conv_equiv d) j
         /\ nth_error (d_prim_numbers d) k = nth_error (ds_std_types ds) j
         /\ j < List.length (ds_std_types ds).
Proof.
  intros H k Hk. destruct (describe_inv _ _ _ _ H) as [spl [spe [scl [m Hc]]]]. destruct Hc.
  destruct ch_prim0 as [[_ [E1 [E2 E3]]]|[_ [G1 [G2 G3]]]].
  - exists k. rewrite E1, E2, E3. rewrite E3 in Hk. auto.
  - destruct (nth_error (d_prim_numbers d) k) as [z|] eqn:Ez; [|apply nth_error_None in Ez; lia].
    destruct (gather_nth _ _ _ _ _ G3 Ez) as [j [Hj Hz]].
    destruct (Forall2_nth_error _ _ _ (gather_Forall2 _ _ _ G1) _ _ Hj) as [l [Hl1 Hl2]].
    destruct (Forall2_nth_error _ _ _ (gather_Forall2 _ _ _ G2) _ _ Hj) as [e [He1 He2]].
    exists j. rewrite Hl1, Hl2, He1, He2, Hz. repeat split; auto. apply nth_error_Some. congruence.
Qed.

Theorem prim_equivalent_share_letter perm c ds d : describe perm c ds = Some d -> orbits_share_letter ds ->
  forall k k' e, nth_error (d_prim_equiv d) k = Some e -> nth_error (d_prim_equiv d) k' = Some e ->
    nth_error (d_prim_letters d) k = nth_error (d_prim_letters d) k'.
Proof.
  intros H HS k k' e He He'.
  destruct (one_entry_per_atom _ _ _ _ H) as [_ [_ [_ [_ [_ L]]]]].
  assert (Hk : k < List.length (d_prim_numbers d)) by (rewrite <- L; apply nth_error_Some; congruence).
  assert (Hk' : k' < List.length (d_prim_numbers d)) by (rewrite <- L; apply nth_error_Some; congruence).
  destruct (prim_atom_is_conv_atom _ _ _ _ H k Hk) as [j [A [B _]]].
  destruct (prim_atom_is_conv_atom _ _ _ _ H k' Hk') as [j' [A' [B' _]]].
  rewrite A, A'. apply (conv_equivalent_share_letter _ _ _ _ H HS j j' e); congruence.
Qed.

(* ---------- the letters of the original atoms ------------------------------------------------------ *)
(* get_wyckoff_letters_original: spglib's letters mapped through the chosen permutation *)
Theorem original_letters_permuted perm c ds d : describe perm c ds = Some d ->
  Forall2 (fun w l => perm_lookup perm w = Some l) (ds_wyckoffs ds) (d_orig_letters d)
  /\ d_orig_equiv d = ds_orbits ds.
Proof.
  intros H. destruct (describe_inv _ _ _ _ H) as [spl [spe [scl [m Hc]]]]. destruct Hc.
  split; [apply perm_letters_Forall2; exact ch_ol0 | exact ch_oe0].
Qed.

(* S3: letters are constant on the fibres of mapping_to_primitive *)
Definition m2p_fibres_share_letter (ds : dataset) : Prop :=
  forall a b, a < List.length (ds_wyckoffs ds) -> b < List.length (ds_wyckoffs ds) ->
    nth_error (ds_m2p ds) a = nth_error (ds_m2p ds) b -> nth_error (ds_wyckoffs ds) a = nth_error (ds_wyckoffs ds) b.

(* ... and they are the letters of the conventional atoms: original atom a and conventional atom j
   that map to the same primitive atom (rank of mapping_to_primitive[a] among the distinct values =
   std_mapping_to_primitive[j]) carry the same reported letter *)
Theorem original_and_conventional_letters_agree perm c ds d : describe perm c ds = Some d -> m2p_fibres_share_letter ds ->
  forall a j v u, a < List.length (ds_wyckoffs ds) ->
    nth_error (ds_std_m2p ds) j = Some v -> nth_error (ds_m2p ds) a = Some u ->
    nth_error (distinct_sorted (ds_m2p ds)) v = Some u ->
    j < List.length (ds_std_types ds) ->
    nth_error (d_orig_letters d) a = nth_error (d_conv_letters d) j.
Proof.
  intros H HS a j v u La Hv Hu Hrank Lj.
  destruct (one_entry_per_atom _ _ _ _ H) as [_ [_ [_ [L4 _]]]].
  destruct (nth_error (d_conv_equiv d) j) as [e|] eqn:Ee; [|apply nth_error_None in Ee; lia].
  destruct (conv_atom_origin _ _ _ _ H j e Ee) as [a0 [w [La0 [_ [Hw [[v' [Hv' Hp]] [Hl Hn]]]]]]].
  assert (v' = v) by congruence. subst v'.
  (* a0 is the first original atom with mapping_to_primitive = u *)
  unfold prim_to_orig, unique_first in Hp. rewrite map_map in Hp. simpl in Hp.
  rewrite nth_error_map, Hrank in Hp. simpl in Hp. inversion Hp as [Ha0]; clear Hp.
  assert (Hin : In u (ds_m2p ds)) by (apply (nth_error_In _ a); exact Hu).
  destruct (first_index_spec u (ds_m2p ds) Hin) as [_ [B _]]. rewrite Ha0 in B.
  pose proof (HS a a0 La La0) as E. rewrite Hu, B in E. specialize (E eq_refl).
  destruct (describe_inv _ _ _ _ H) as [spl [spe [scl [m Hc]]]]. destruct Hc.
  pose proof (perm_letters_Forall2 _ _ _ ch_ol0) as HF. rewrite Hw in E.
  destruct (Forall2_nth_error _ _ _ HF _ _ E) as [l [Hl1 Hl2]].
  rewrite Hl1. symmetry. apply Hl. exact Hl2.
Qed.

(* ================================================================================================== *)
(* (letter, element) counts of the three descriptions                                                 *)
(* ================================================================================================== *)
Definition key_eqb (k : string * Z) (p : string * Z) : bool := String.eqb (fst k) (fst p) && Z.eqb (snd k) (snd p).
(* number of atoms carrying (letter, element) = key, given the letter array and the number array *)
Definition count_key (k : string * Z) (letters : list string) (numbers : list Z) : nat :=
  List.length (filter (key_eqb k) (combine letters numbers)).

Definition at_pred {A} (P : A -> bool) (a : list A) (i : nat) : bool :=
  match nth_error a i with Some x => P x | None => false end.

Lemma count_nth {A} (P : A -> bool) a :
  List.length (filter P a) = List.length (filter (at_pred P a) (seq 0 (List.length a))).
Proof.
  induction a as [|x a IH]; [reflexivity|].
  change (List.length (x :: a)) with (S (List.length a)). rewrite filter_seq_cons.
  change (fun i => at_pred P (x :: a) (S i)) with (at_pred P a).
  unfold at_pred at 1. simpl nth_error. simpl filter. destruct (P x); simpl; rewrite IH; reflexivity.
Qed.

Lemma gather_count {A} (P : A -> bool) (a : list A) idx r :
  gather a idx = Some r -> List.length (filter P r) = List.length (filter (at_pred P a) idx).
Proof.
  intros H. pose proof (gather_Forall2 _ _ _ H) as HF. clear H.
  induction HF as [|i y idx r Hy _ IH]; [reflexivity|].
  simpl. unfold at_pred at 1. rewrite Hy. destruct (P y); simpl; rewrite IH; reflexivity.
Qed.

Lemma gather_combine {A B} (a : list A) (b : list B) idx ra rb :
  gather a idx = Some ra -> gather b idx = Some rb -> gather (combine a b) idx = Some (combine ra rb).
Proof.
  unfold gather. revert ra rb. induction idx as [|i idx IH]; simpl; intros ra rb Ha Hb.
  - inversion Ha; inversion Hb; reflexivity.
  - destruct (nth_error a i) as [x|] eqn:Ex; [|discriminate].
    destruct (nth_error b i) as [y|] eqn:Ey; [|discriminate].
    destruct (all_some (map (nth_error a) idx)) as [ra'|]; [|discriminate].
    destruct (all_some (map (nth_error b) idx)) as [rb'|]; [|discriminate].
    inversion Ha; inversion Hb; subst. rewrite (nth_error_combine _ _ _ _ _ Ex Ey).
    rewrite (IH ra' rb' eq_refl eq_refl). reflexivity.
Qed.

Lemma perm_filter_length {A} (g : A -> bool) p q :
  Permutation p q -> List.length (filter g p) = List.length (filter g q).
Proof.
  induction 1; simpl; auto.
  - destruct (g x); simpl; congruence.
  - destruct (g x), (g y); simpl; reflexivity.
  - congruence.
Qed.

Lemma filter_const_length {A} (g : A -> bool) L b :
  (forall x, In x L -> g x = b) -> List.length (filter g L) = if b then List.length L else 0.
Proof.
  induction L as [|x L IH]; intros H; simpl.
  - destruct b; reflexivity.
  - rewrite (H x (or_introl eq_refl)).
    assert (IH' := IH (fun y Hy => H y (or_intror Hy))). destruct b; simpl; rewrite IH'; reflexivity.
Qed.

Lemma filter_map_length {A B} (g : B -> bool) (f : A -> B) l :
  List.length (filter g (map f l)) = List.length (filter (fun x => g (f x)) l).
Proof. induction l as [|x l IH]; simpl; [reflexivity|]. destruct (g (f x)); simpl; rewrite IH; reflexivity. Qed.

(* a predicate on atoms that is constant on the fibres of a mapping whose fibres all have size m:
   (number of atoms satisfying it) = m x (number of fibre representatives satisfying it);
   the representatives are the first occurrences = np.unique(mapping, return_index=True)[1] *)
Theorem count_ratio_fibres (l : list nat) (g : nat -> bool) (m : nat) :
  (forall i j, i < List.length l -> j < List.length l -> nth i l 0 = nth j l 0 -> g i = g j) ->
  (forall v, In v l -> List.length (fibre l v) = m) ->
  List.length (filter g (seq 0 (List.length l)))
  = m * List.length (filter g (map (fun v => first_index v l) (distinct_sorted l))).
Proof.
  intros Hc Hm. rewrite <- (perm_filter_length g _ _ (fibres_partition l)).
  assert (Hsub : forall v, In v (distinct_sorted l) -> In v l) by (intros v; apply ds_In).
  revert Hsub. generalize (distinct_sorted l). intros vs. induction vs as [|v vs IH]; intros Hsub.
  - simpl. lia.
  - simpl flat_map. rewrite filter_app, app_length. rewrite IH by (intros; apply Hsub; right; assumption).
    assert (Hv : In v l) by (apply Hsub; left; reflexivity).
    destruct (first_index_spec v l Hv) as [A [B _]].
    rewrite (filter_const_length g (fibre l v) (g (first_index v l))).
    + rewrite (Hm v Hv). simpl map. simpl filter. destruct (g (first_index v l)); simpl; lia.
    + intros x Hx. apply fibre_In in Hx. destruct Hx as [Hx1 Hx2]. apply Hc; auto.
      rewrite Hx2. symmetry. apply nth_error_nth. exact B.
Qed.

Lemma inside_mask_eq ds : inside_mask ds = map (fun v => first_index v (ds_std_m2p ds)) (distinct_sorted (ds_std_m2p ds)).
Proof. unfold inside_mask, unique_first. rewrite map_map. reflexivity. Qed.

Lemma prim_to_orig_eq ds : prim_to_orig ds = map (fun v => first_index v (ds_m2p ds)) (distinct_sorted (ds_m2p ds)).
Proof. unfold prim_to_orig, unique_first. rewrite map_map. reflexivity. Qed.

(* S3: the species of the conventional atoms is constant on the fibres of std_mapping_to_primitive *)
Definition std_types_const_on_fibres (ds : dataset) : Prop :=
  forall i j, i < List.length (ds_std_m2p ds) -> j < List.length (ds_std_m2p ds) ->
    nth i (ds_std_m2p ds) 0 = nth j (ds_std_m2p ds) 0 -> nth_error (ds_std_types ds) i = nth_error (ds_std_types ds) j.

Lemma conv_letters_fibre_const perm c ds d : describe perm c ds = Some d ->
  forall i j, i < List.length (ds_std_m2p ds) -> j < List.length (ds_std_m2p ds) ->
    nth i (ds_std_m2p ds) 0 = nth j (ds_std_m2p ds) 0 -> nth_error (d_conv_letters d) i = nth_error (d_conv_letters d) j.
Proof.
  intros H i j Hi Hj E.
  destruct (one_entry_per_atom _ _ _ _ H) as [_ [_ [_ [L4 _]]]].
  destruct (describe_inv _ _ _ _ H) as [spl [spe [scl [m Hc]]]]. destruct Hc.
  rewrite ch_len_typ0 in L4.
  destruct (nth_error (d_conv_equiv d) i) as [e|] eqn:Ei; [|apply nth_error_None in Ei; lia].
  destruct (nth_error (d_conv_equiv d) j) as [e'|] eqn:Ej; [|apply nth_error_None in Ej; lia].
  destruct (conv_atom_origin _ _ _ _ H i e Ei) as [a [w [_ [_ [Hw [[v [Hv Hp]] [Hl Hn]]]]]]].
  destruct (conv_atom_origin _ _ _ _ H j e' Ej) as [a' [w' [_ [_ [Hw' [[v' [Hv' Hp']] [Hl' Hn']]]]]]].
  assert (v = v').
  { rewrite <- (nth_error_nth _ _ 0 Hv), <- (nth_error_nth _ _ 0 Hv'). exact E. }
  subst v'. assert (a' = a) by congruence. subst a'. assert (w' = w) by congruence. subst w'.
  destruct (nth_error (d_conv_letters d) i) as [l|] eqn:E1; [|congruence].
  destruct (nth_error (d_conv_letters d) j) as [l'|] eqn:E2; [|congruence].
  pose proof (proj1 (Hl l) eq_refl). pose proof (proj1 (Hl' l') eq_refl). congruence.
Qed.

Lemma nth_error_combine_eq {A B} (a a' : list A) (b b' : list B) i j :
  nth_error a i = nth_error a' j -> nth_error b i = nth_error b' j ->
  List.length a = List.length b -> List.length a' = List.length b' ->
  nth_error (combine a b) i = nth_error (combine a' b') j.
Proof.
  intros Ha Hb La Lb.
  destruct (nth_error a i) as [x|] eqn:Ex.
  - destruct (nth_error b i) as [y|] eqn:Ey.
    + rewrite (nth_error_combine _ _ _ _ _ Ex Ey). symmetry. apply nth_error_combine; congruence.
    + apply nth_error_None in Ey. assert (i < List.length a) by (apply nth_error_Some; congruence). lia.
  - apply nth_error_None in Ex. symmetry in Ha. apply nth_error_None in Ha.
    assert (nth_error (combine a b) i = None) as -> by (apply nth_error_None; rewrite combine_length; lia).
    symmetry. apply nth_error_None. rewrite combine_length. lia.
Qed.

Theorem count_ratio_conv_prim perm c ds d m : describe perm c ds = Some d -> centring_mult c = Some m ->
  std_fibres ds m -> std_types_const_on_fibres ds ->
  forall key, count_key key (d_conv_letters d) (ds_std_types ds)
              = m * count_key key (d_prim_letters d) (d_prim_numbers d).
Proof.
  intros H Hm Hf Ht key.
  destruct (one_entry_per_atom _ _ _ _ H) as [_ [_ [L3 [_ _]]]].
  pose proof (conv_letters_fibre_const _ _ _ _ H) as Hlc.
  destruct (describe_inv _ _ _ _ H) as [spl [spe [scl [m' Hc]]]]. destruct Hc.
  rewrite Hm in ch_m0. inversion ch_m0; subst m'. unfold count_key.
  destruct ch_prim0 as [[-> [-> [_ ->]]]|[_ [G1 [_ G3]]]]; [lia|].
  set (pc := combine (d_conv_letters d) (ds_std_types ds)).
  assert (Lpc : List.length pc = List.length (ds_std_m2p ds)) by (unfold pc; rewrite combine_length; lia).
  rewrite (gather_count (key_eqb key) pc (inside_mask ds) _ (gather_combine _ _ _ _ _ G1 G3)).
  rewrite (count_nth (key_eqb key) pc), Lpc, inside_mask_eq.
  apply count_ratio_fibres; [|exact Hf].
  intros i j Hi Hj E. unfold at_pred, pc.
  rewrite (nth_error_combine_eq (d_conv_letters d) (d_conv_letters d) (ds_std_types ds) (ds_std_types ds) i j); auto.
Qed.

(* S3 for the original cell: all fibres of mapping_to_primitive have the same size q (the input is a
   q-fold supercell of the primitive cell) *)
Definition m2p_fibres (ds : dataset) (q : nat) : Prop :=
  forall u, In u (ds_m2p ds) -> List.length (fibre (ds_m2p ds) u) = q.

(* S3 linking the original atoms (with their atomic numbers, which are not part of the dataset) to
   the standardized cell *)
Record original_contract (ds : dataset) (numbers : list Z) : Prop := mkOC {
  oc_len : List.length numbers = List.length (ds_wyckoffs ds);
  (* letter and element are constant on the fibres of mapping_to_primitive *)
  oc_fibre : forall a b, a < List.length (ds_wyckoffs ds) -> b < List.length (ds_wyckoffs ds) ->
      nth a (ds_m2p ds) 0 = nth b (ds_m2p ds) 0 ->
      nth_error (ds_wyckoffs ds) a = nth_error (ds_wyckoffs ds) b /\ nth_error numbers a = nth_error numbers b;
  (* std_mapping_to_primitive numbers the primitive atoms 0 .. np-1 *)
  oc_range : distinct_sorted (ds_std_m2p ds) = seq 0 (List.length (distinct_sorted (ds_m2p ds)));
  (* a conventional atom has the species of the original atoms of its primitive atom *)
  oc_types : forall j v a, nth_error (ds_std_m2p ds) j = Some v -> nth_error (prim_to_orig ds) v = Some a ->
      nth_error (ds_std_types ds) j = nth_error numbers a }.

Theorem count_ratio_orig_conv perm c ds d numbers m q : describe perm c ds = Some d -> centring_mult c = Some m ->
  std_fibres ds m -> m2p_fibres ds q -> original_contract ds numbers ->
  forall key, count_key key (d_orig_letters d) numbers * m = q * count_key key (d_conv_letters d) (ds_std_types ds)
    /\ List.length (ds_wyckoffs ds) * m = q * List.length (ds_std_types ds).
Proof.
  intros H Hm Hf Hq OC key. destruct OC.
  destruct (one_entry_per_atom _ _ _ _ H) as [L1 [_ [L3 [L4 _]]]].
  pose proof (conv_letters_fibre_const _ _ _ _ H) as Hlc.
  pose proof (conv_atom_origin _ _ _ _ H) as Horigin.
  destruct (describe_inv _ _ _ _ H) as [spl [spe [scl [m' Hc]]]]. destruct Hc.
  rewrite Hm in ch_m0. inversion ch_m0; subst m'. clear ch_m0.
  set (po := combine (d_orig_letters d) numbers).
  set (pc := combine (d_conv_letters d) (ds_std_types ds)).
  set (p2o := prim_to_orig ds).
  assert (Lpo : List.length po = List.length (ds_m2p ds)) by (unfold po; rewrite combine_length; lia).
  assert (Lpc : List.length pc = List.length (ds_std_m2p ds)) by (unfold pc; rewrite combine_length; lia).
  assert (Lp2o : List.length p2o = List.length (distinct_sorted (ds_m2p ds))).
  { unfold p2o. rewrite prim_to_orig_eq, map_length. reflexivity. }
  pose proof (perm_letters_Forall2 _ _ _ ch_ol0) as HFo.
  (* the pair of conventional atom j is the pair of the original atom it comes from *)
  assert (Hpair : forall j v a, nth_error (ds_std_m2p ds) j = Some v -> nth_error p2o v = Some a ->
                                nth_error pc j = nth_error po a).
  { intros j v a Hv Ha.
    assert (Hj : j < List.length (ds_std_m2p ds)) by (apply nth_error_Some; congruence).
    destruct (nth_error (d_conv_equiv d) j) as [e|] eqn:Ee; [|apply nth_error_None in Ee; lia].
    destruct (Horigin j e Ee) as [a0 [w [La0 [_ [Hw [[v0 [Hv0 Hp0]] [Hl Hn]]]]]]].
    assert (v0 = v) by congruence. subst v0. assert (a0 = a) by (unfold p2o in Ha; congruence). subst a0.
    destruct (Forall2_nth_error _ _ _ HFo _ _ Hw) as [l [Hl1 Hl2]].
    unfold pc, po. apply nth_error_combine_eq; try lia.
    - rewrite Hl1. apply Hl. exact Hl2.
    - apply (oc_types0 j v a Hv). exact Ha. }
  (* originals: count = q x count over the representatives p2o *)
  assert (Ho : count_key key (d_orig_letters d) numbers = q * List.length (filter (at_pred (key_eqb key) po) p2o)).
  { unfold count_key. fold po. rewrite (count_nth (key_eqb key) po), Lpo.
    unfold p2o. rewrite prim_to_orig_eq. apply count_ratio_fibres; [|exact Hq].
    intros a b Ha Hb E. rewrite ch_len_m2p0 in Ha, Hb. destruct (oc_fibre0 a b Ha Hb E) as [E1 E2].
    unfold at_pred, po. rewrite (nth_error_combine_eq (d_orig_letters d) (d_orig_letters d) numbers numbers a b); auto; try lia.
    destruct (nth_error (ds_wyckoffs ds) a) as [w|] eqn:Ew; [|apply nth_error_None in Ew; lia].
    destruct (Forall2_nth_error _ _ _ HFo _ _ Ew) as [l [Hl1 Hl2]].
    symmetry in E1. destruct (Forall2_nth_error _ _ _ HFo _ _ E1) as [l' [Hl1' Hl2']]. congruence. }
  (* conventional: count = m x count over the same representatives *)
  assert (Hcv : count_key key (d_conv_letters d) (ds_std_types ds) = m * List.length (filter (at_pred (key_eqb key) po) p2o)).
  { unfold count_key. fold pc. rewrite (count_nth (key_eqb key) pc), Lpc.
    rewrite (count_ratio_fibres (ds_std_m2p ds) (at_pred (key_eqb key) pc) m).
    - f_equal. rewrite oc_range0, filter_map_length, <- Lp2o.
      rewrite (count_nth (at_pred (key_eqb key) po) p2o).
      f_equal. apply filter_ext_in. intros v Hv. apply in_seq in Hv.
      assert (Hin : In v (ds_std_m2p ds)).
      { apply ds_In. rewrite oc_range0. apply in_seq. lia. }
      destruct (first_index_spec v _ Hin) as [_ [B _]].
      destruct (nth_error p2o v) as [a|] eqn:Ea; [|apply nth_error_None in Ea; lia].
      unfold at_pred. rewrite Ea. rewrite (Hpair _ v a B Ea). reflexivity.
    - intros i j Hi Hj E. unfold at_pred, pc.
      rewrite (nth_error_combine_eq (d_conv_letters d) (d_conv_letters d) (ds_std_types ds) (ds_std_types ds) i j); auto.
      (* species constant on fibres follows from oc_types *)
      destruct (nth_error (ds_std_m2p ds) i) as [v|] eqn:Ei; [|apply nth_error_None in Ei; lia].
      destruct (nth_error (ds_std_m2p ds) j) as [v'|] eqn:Ej; [|apply nth_error_None in Ej; lia].
      assert (v' = v) by (rewrite <- (nth_error_nth _ _ 0 Ei), <- (nth_error_nth _ _ 0 Ej); congruence). subst v'.
      destruct (nth_error (d_conv_equiv d) i) as [e|] eqn:Ee; [|apply nth_error_None in Ee; lia].
      destruct (Horigin i e Ee) as [a0 [w [_ [_ [_ [[v0 [Hv0 Hp0]] _]]]]]].
      assert (v0 = v) by congruence. subst v0.
      rewrite (oc_types0 i v a0 Ei Hp0), (oc_types0 j v a0 Ej Hp0). reflexivity.
    - exact Hf. }
  split.
  - rewrite Ho, Hcv. lia.
  - pose proof (fibres_uniform_count _ _ Hq) as N1. pose proof (fibres_uniform_count _ _ Hf) as N2.
    rewrite oc_range0, seq_length in N2. rewrite ch_len_typ0, <- N2, <- ch_len_m2p0, <- N1. lia.
Qed.

(* ================================================================================================== *)
(* C07 fed with the dataset: the conventional arrays the sets are built from satisfy S3               *)
(* ================================================================================================== *)
(* S3 for the species of the standardized cell: conventional atoms of one class have one species *)
Definition conv_classes_share_species (d : descr) (ds : dataset) : Prop :=
  forall j j' e, nth_error (d_conv_equiv d) j = Some e -> nth_error (d_conv_equiv d) j' = Some e ->
    nth_error (ds_std_types ds) j = nth_error (ds_std_types ds) j'.

Theorem conv_arrays_S3 perm c ds d : describe perm c ds = Some d -> orbits_share_letter ds ->
  conv_classes_share_species d ds -> S3_arrays (d_conv_equiv d) (d_conv_letters d) (ds_std_types ds).
Proof.
  intros H HS HT i j Hi Hj E.
  destruct (nth_error (d_conv_equiv d) i) as [e|] eqn:Ei; [|apply nth_error_None in Ei; lia].
  destruct (nth_error (d_conv_equiv d) j) as [e'|] eqn:Ej; [|apply nth_error_None in Ej; lia].
  assert (e' = e) by (rewrite <- (nth_error_nth _ _ 0 Ei), <- (nth_error_nth _ _ 0 Ej); congruence). subst e'.
  split; [apply (conv_equivalent_share_letter _ _ _ _ H HS i j e Ei Ej) | apply (HT i j e Ei Ej)].
Qed.

(* hence: for every dataset satisfying S3, every atom of a returned Wyckoff set carries the set's
   letter and element *)
Corollary sets_uniform_from_dataset valid perm c ds d sets :
  describe perm c ds = Some d -> orbits_share_letter ds -> conv_classes_share_species d ds ->
  wyckoff_sets valid (d_conv_equiv d) (d_conv_letters d) (ds_std_types ds) = Some sets ->
  forall s i, In s sets -> In i (ws_indices s) ->
    nth_error (d_conv_letters d) i = Some (ws_letter s) /\ nth_error (ds_std_types ds) i = Some (ws_number s).
Proof.
  intros H HS HT Hw. apply (set_uniform _ _ _ _ _ Hw). apply (conv_arrays_S3 _ _ _ _ H HS HT).
Qed.
