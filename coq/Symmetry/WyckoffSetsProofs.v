(* C07 -- theorems about the model of WyckoffSets.v, for ALL equivalence arrays / letters / numbers
   (every answer spglib could give).  The spglib contract S3 appears only as an explicit hypothesis
   ([S3_uniform]: atoms with equal equivalence label carry equal letter and element). *)
From Coq Require Import List Arith ZArith String Ascii Bool Lia Permutation Sorted.
Import ListNotations.
From MV Require Import Symmetry.Table Symmetry.WyckoffSets.
Close Scope Z_scope.
Open Scope nat_scope.

(* ---------- all_some -------------------------------------------------------------------------- *)
Lemma all_some_Forall2 {A B} (f : A -> option B) l r :
  all_some (map f l) = Some r -> Forall2 (fun x y => f x = Some y) l r.
Proof.
  revert r. induction l as [|x t IH]; simpl; intros r H.
  - inversion H. constructor.
  - destruct (f x) as [y|] eqn:E; [|discriminate].
    destruct (all_some (map f t)) as [r'|]; [|discriminate]. inversion H; subst.
    constructor; [exact E | apply IH; reflexivity].
Qed.

Lemma Forall2_In_r {A B} (R : A -> B -> Prop) l r y :
  Forall2 R l r -> In y r -> exists x, In x l /\ R x y.
Proof.
  induction 1 as [|a b l r Hab _ IH]; simpl; [tauto|].
  intros [<-|Hin]; [exists a; auto|]. destruct (IH Hin) as [x [Hx Hr]]. exists x; auto.
Qed.

Lemma Forall2_In_l {A B} (R : A -> B -> Prop) l r x :
  Forall2 R l r -> In x l -> exists y, In y r /\ R x y.
Proof.
  induction 1 as [|a b l r Hab _ IH]; simpl; [tauto|].
  intros [<-|Hin]; [exists b; auto|]. destruct (IH Hin) as [y [Hy Hr]]. exists y; auto.
Qed.

Lemma Forall2_map_eq {A B C} (R : A -> B -> Prop) (g : B -> C) (h : A -> C) l r :
  Forall2 R l r -> (forall x y, R x y -> g y = h x) -> map g r = map h l.
Proof.
  intros H Hgh. induction H as [|a b l r Hab _ IH]; simpl; [reflexivity|].
  rewrite (Hgh _ _ Hab), IH. reflexivity.
Qed.

Lemma Forall2_impl' {A B} (R S : A -> B -> Prop) l r :
  (forall x y, R x y -> S x y) -> Forall2 R l r -> Forall2 S l r.
Proof. intros H. induction 1; constructor; auto. Qed.

Lemma Forall2_length {A B} (R : A -> B -> Prop) l r : Forall2 R l r -> List.length l = List.length r.
Proof. induction 1; simpl; congruence. Qed.

(* ---------- np.unique: sorted distinct values ------------------------------------------------ *)
Lemma sins_In v l x : In x (sins v l) <-> x = v \/ In x l.
Proof.
  induction l as [|w t IH]; simpl.
  - intuition congruence.
  - destruct (v <? w) eqn:E1; [simpl; intuition congruence|].
    destruct (v =? w) eqn:E2.
    + apply Nat.eqb_eq in E2. subst. simpl. intuition congruence.
    + simpl. rewrite IH. intuition congruence.
Qed.

Lemma sins_sorted v l : StronglySorted lt l -> StronglySorted lt (sins v l).
Proof.
  induction l as [|w t IH]; simpl; intros H.
  - constructor; constructor.
  - inversion H as [|? ? Ht Hf]; subst. destruct (v <? w) eqn:E1.
    + apply Nat.ltb_lt in E1. constructor; [exact H|]. constructor; [exact E1|].
      eapply Forall_impl; [|exact Hf]. intros; lia.
    + destruct (v =? w) eqn:E2; [exact H|]. apply Nat.ltb_ge in E1. apply Nat.eqb_neq in E2.
      constructor; [apply IH; exact Ht|]. apply Forall_forall. intros x Hx. apply sins_In in Hx.
      destruct Hx as [->|Hx]; [lia|]. rewrite Forall_forall in Hf. apply Hf; exact Hx.
Qed.

Lemma ds_In l x : In x (distinct_sorted l) <-> In x l.
Proof.
  induction l as [|a t IH]; simpl; [tauto|]. rewrite sins_In, IH. intuition congruence.
Qed.

Lemma ds_sorted l : StronglySorted lt (distinct_sorted l).
Proof. induction l as [|a t IH]; simpl; [constructor | apply sins_sorted; exact IH]. Qed.

Lemma sorted_lt_NoDup l : StronglySorted lt l -> NoDup l.
Proof.
  induction 1 as [|a l _ IH Hf]; constructor; [|exact IH].
  intro Hin. rewrite Forall_forall in Hf. specialize (Hf _ Hin). lia.
Qed.

Lemma ds_NoDup l : NoDup (distinct_sorted l).
Proof. apply sorted_lt_NoDup, ds_sorted. Qed.

(* a strictly sorted list is determined by its elements *)
Lemma sorted_lt_ext l1 : forall l2,
  StronglySorted lt l1 -> StronglySorted lt l2 -> (forall x, In x l1 <-> In x l2) -> l1 = l2.
Proof.
  induction l1 as [|a t IH]; intros l2 H1 H2 Hx.
  - destruct l2 as [|b u]; [reflexivity|]. exfalso. apply (proj2 (Hx b)). left; reflexivity.
  - destruct l2 as [|b u]. { exfalso. apply (proj1 (Hx a)). left; reflexivity. }
    inversion H1 as [|? ? Ht Hfa]; subst. inversion H2 as [|? ? Hu Hfb]; subst.
    rewrite Forall_forall in Hfa, Hfb.
    assert (a = b) as ->.
    { destruct (proj1 (Hx a) (or_introl eq_refl)) as [E|Hau]; [congruence|].
      destruct (proj2 (Hx b) (or_introl eq_refl)) as [E|Hbt]; [congruence|].
      specialize (Hfa _ Hbt). specialize (Hfb _ Hau). lia. }
    f_equal. apply IH; auto. intros x. split; intros Hin.
    + destruct (proj1 (Hx x) (or_intror Hin)) as [E|]; [|assumption]. specialize (Hfa _ Hin). lia.
    + destruct (proj2 (Hx x) (or_intror Hin)) as [E|]; [|assumption]. specialize (Hfb _ Hin). lia.
Qed.

Lemma ds_perm l l' : Permutation l l' -> distinct_sorted l = distinct_sorted l'.
Proof.
  intros H. apply sorted_lt_ext; try apply ds_sorted. intros x. rewrite !ds_In.
  split; apply Permutation_in; [exact H | apply Permutation_sym; exact H].
Qed.

(* index of the first occurrence *)
Lemma first_index_spec v l : In v l ->
  first_index v l < List.length l /\ nth_error l (first_index v l) = Some v
  /\ forall j, j < first_index v l -> nth_error l j <> Some v.
Proof.
  induction l as [|x r IH]; simpl; intros H; [tauto|].
  destruct (x =? v) eqn:E.
  - apply Nat.eqb_eq in E. subst. split; [lia|]. split; [reflexivity|]. intros; lia.
  - apply Nat.eqb_neq in E. destruct H as [H|H]; [congruence|]. destruct (IH H) as [A [B Cc]].
    split; [lia|]. split; [exact B|].
    intros j Hj. destruct j; simpl; [congruence|]. apply Cc. lia.
Qed.

(* ---------- fibres partition the atoms ---------------------------------------------------------- *)
Lemma fibre_In l v i : In i (fibre l v) <-> i < List.length l /\ nth i l 0 = v.
Proof.
  unfold fibre. rewrite filter_In, in_seq, Nat.eqb_eq. split; intros [H1 H2]; split; auto; lia.
Qed.

Lemma fibre_NoDup l v : NoDup (fibre l v).
Proof. unfold fibre. apply NoDup_filter, seq_NoDup. Qed.

Lemma NoDup_app_intro {A} (l1 l2 : list A) :
  NoDup l1 -> NoDup l2 -> (forall x, In x l1 -> ~ In x l2) -> NoDup (l1 ++ l2).
Proof.
  induction l1 as [|a t IH]; simpl; intros H1 H2 Hd; [exact H2|].
  inversion H1; subst. constructor.
  - rewrite in_app_iff. intros [Hc|Hc]; [contradiction|]. apply (Hd a); [left; reflexivity | exact Hc].
  - apply IH; auto.
Qed.

Lemma NoDup_flat_map {A B} (f : A -> list B) l :
  NoDup l -> (forall a, In a l -> NoDup (f a)) ->
  (forall a b x, In a l -> In b l -> a <> b -> In x (f a) -> ~ In x (f b)) ->
  NoDup (flat_map f l).
Proof.
  induction l as [|a t IH]; simpl; intros Hnd Hf Hd; [constructor|].
  inversion Hnd; subst. apply NoDup_app_intro.
  - apply Hf. left; reflexivity.
  - apply IH; auto. intros a' b x Ha Hb. apply Hd; right; assumption.
  - intros x Hx Hin. apply in_flat_map in Hin. destruct Hin as [b [Hb Hxb]].
    apply (Hd a b x); auto. intro; subst; contradiction.
Qed.

Theorem fibres_partition l :
  Permutation (flat_map (fibre l) (distinct_sorted l)) (seq 0 (List.length l)).
Proof.
  apply NoDup_Permutation.
  - apply NoDup_flat_map; [apply ds_NoDup | intros; apply fibre_NoDup |].
    intros a b x _ _ Hab Ha Hb. apply fibre_In in Ha, Hb. destruct Ha, Hb. congruence.
  - apply seq_NoDup.
  - intros i. rewrite in_flat_map, in_seq. split.
    + intros [v [_ Hi]]. apply fibre_In in Hi. lia.
    + intros Hi. exists (nth i l 0). split; [apply ds_In, nth_In; lia | apply fibre_In; split; [lia | reflexivity]].
Qed.

Lemma fibre_nonempty l v : In v l -> fibre l v <> [].
Proof.
  intros H. destruct (first_index_spec v l H) as [A [B _]].
  assert (Hin : In (first_index v l) (fibre l v)).
  { apply fibre_In. split; [exact A|]. apply nth_error_nth. exact B. }
  intro E. rewrite E in Hin. destruct Hin.
Qed.

(* size of a fibre = number of occurrences of the label *)
Lemma filter_seq_shift (f : nat -> bool) n : forall s,
  List.length (filter f (seq (S s) n)) = List.length (filter (fun i => f (S i)) (seq s n)).
Proof.
  induction n as [|n IH]; intros s; simpl; [reflexivity|].
  destruct (f (S s)); simpl; rewrite IH; reflexivity.
Qed.

Lemma filter_seq_cons (f : nat -> bool) n :
  List.length (filter f (seq 0 (S n))) = (if f 0 then 1 else 0) + List.length (filter (fun i => f (S i)) (seq 0 n)).
Proof. simpl. destruct (f 0); simpl; rewrite filter_seq_shift; reflexivity. Qed.

Lemma fibre_length l v : List.length (fibre l v) = count_occ Nat.eq_dec l v.
Proof.
  unfold fibre. induction l as [|x r IH]; [reflexivity|].
  change (List.length (x :: r)) with (S (List.length r)). rewrite filter_seq_cons. simpl. rewrite IH.
  destruct (Nat.eq_dec x v) as [E|E].
  - subst. rewrite Nat.eqb_refl. reflexivity.
  - apply Nat.eqb_neq in E. rewrite E. reflexivity.
Qed.

(* ---------- the unsorted sets, read back --------------------------------------------------------- *)
Definition set_of_label (eq : list nat) (letters : list string) (numbers : list Z) (v : nat) (s : wset) : Prop :=
  nth_error letters (first_index v eq) = Some (ws_letter s)
  /\ nth_error numbers (first_index v eq) = Some (ws_number s)
  /\ ws_indices s = fibre eq v
  /\ ws_mult s = List.length (fibre eq v).

Lemma sets_unsorted_spec valid eq letters numbers ss :
  sets_unsorted valid eq letters numbers = Some ss ->
  List.length letters = List.length eq /\ List.length numbers = List.length eq
  /\ Forall2 (set_of_label eq letters numbers) (distinct_sorted eq) ss
  /\ Forall (fun s => letter_known valid (ws_letter s) = true) ss.
Proof.
  unfold sets_unsorted.
  destruct ((List.length letters =? List.length eq) && (List.length numbers =? List.length eq)) eqn:El; [|discriminate].
  apply andb_true_iff in El. destruct El as [E1 E2]. apply Nat.eqb_eq in E1, E2.
  unfold unique_first. rewrite map_map.
  destruct (all_some _) as [ss'|] eqn:Ea; [|discriminate].
  destruct (forallb _ ss') eqn:Ef; [|discriminate]. intros H; inversion H; subst ss'.
  split; [exact E1|]. split; [exact E2|]. split.
  - apply all_some_Forall2 in Ea. eapply Forall2_impl'; [|exact Ea].
    intros v s Hb. unfold build_set in Hb. simpl in Hb.
    destruct (nth_error letters (first_index v eq)) as [l|] eqn:El'; [|discriminate].
    destruct (nth_error numbers (first_index v eq)) as [z|] eqn:Ez'; [|discriminate].
    inversion Hb; subst. unfold set_of_label; simpl. rewrite El', Ez'. repeat split; reflexivity.
  - apply Forall_forall. rewrite forallb_forall in Ef. exact Ef.
Qed.

(* ---------- sorting -------------------------------------------------------------------------------- *)
Lemma insert_set_perm x l : Permutation (insert_set x l) (x :: l).
Proof.
  induction l as [|y t IH]; simpl; [reflexivity|].
  destruct (key_leb (ws_key x) (ws_key y)); [reflexivity|].
  rewrite IH. apply perm_swap.
Qed.

Lemma sort_sets_perm l : Permutation (sort_sets l) l.
Proof.
  induction l as [|x t IH]; simpl; [constructor|]. rewrite insert_set_perm. constructor. exact IH.
Qed.

Lemma lex_leb_refl a : lex_leb a a = true.
Proof. induction a as [|x a IH]; simpl; [reflexivity|]. rewrite Nat.eqb_refl, IH. apply orb_true_r. Qed.

Lemma lex_leb_total a : forall b, lex_leb a b = true \/ lex_leb b a = true.
Proof.
  induction a as [|x a IH]; intros [|y b]; simpl; auto.
  destruct (Nat.lt_trichotomy x y) as [H|[H|H]].
  - left. apply orb_true_iff. left. apply Nat.ltb_lt. exact H.
  - subst. rewrite Nat.eqb_refl, Nat.ltb_irrefl. simpl. apply IH.
  - right. apply orb_true_iff. left. apply Nat.ltb_lt. exact H.
Qed.

Lemma lex_leb_trans a : forall b c, lex_leb a b = true -> lex_leb b c = true -> lex_leb a c = true.
Proof.
  induction a as [|x a IH]; intros [|y b] [|z c]; simpl; try reflexivity; try discriminate.
  rewrite !orb_true_iff, !andb_true_iff, !Nat.ltb_lt, !Nat.eqb_eq.
  intros [H|[H H']] [K|[K K']].
  - left; lia.
  - left; lia.
  - left; lia.
  - right. split; [lia|]. apply (IH b c); assumption.
Qed.

Lemma lex_leb_antisym a : forall b, lex_leb a b = true -> lex_leb b a = true -> a = b.
Proof.
  induction a as [|x a IH]; intros [|y b]; simpl; try reflexivity; try discriminate.
  rewrite !orb_true_iff, !andb_true_iff, !Nat.ltb_lt, !Nat.eqb_eq.
  intros [H|[H H']] [K|[K K']]; try lia. subst. f_equal. apply IH; assumption.
Qed.

Lemma codes_inj a : forall b, codes a = codes b -> a = b.
Proof.
  induction a as [|c a IH]; intros [|d b]; simpl; try reflexivity; try discriminate.
  intros H. inversion H as [[H1 H2]]. f_equal; [|apply IH; exact H2].
  rewrite <- (ascii_nat_embedding c), <- (ascii_nat_embedding d), H1. reflexivity.
Qed.

Lemma key_leb_iff a b :
  key_leb a b = true <-> lex_leb (fst a) (fst b) = true /\ (lex_leb (fst b) (fst a) = true -> (snd a <= snd b)%Z).
Proof.
  unfold key_leb. destruct (lex_leb (fst a) (fst b)); [|split; [discriminate | intros [H _]; discriminate]].
  destruct (lex_leb (fst b) (fst a)).
  - rewrite Z.leb_le. split; [intros H; split; auto | intros [_ H]; apply H; reflexivity].
  - split; [intros _; split; [reflexivity | discriminate] | reflexivity].
Qed.

Lemma key_leb_total a b : key_leb a b = true \/ key_leb b a = true.
Proof.
  rewrite !key_leb_iff.
  destruct (lex_leb (fst a) (fst b)) eqn:E1, (lex_leb (fst b) (fst a)) eqn:E2.
  - destruct (Z.le_ge_cases (snd a) (snd b)); [left | right]; split; auto.
  - left. split; [reflexivity | discriminate].
  - right. split; [reflexivity | discriminate].
  - destruct (lex_leb_total (fst a) (fst b)); congruence.
Qed.

Lemma key_leb_trans a b c : key_leb a b = true -> key_leb b c = true -> key_leb a c = true.
Proof.
  rewrite !key_leb_iff. intros [H1 H2] [K1 K2]. split.
  - apply (lex_leb_trans _ (fst b)); assumption.
  - intros Hca.
    assert (Hcb : lex_leb (fst c) (fst b) = true) by (apply (lex_leb_trans _ (fst a)); assumption).
    assert (Hba : lex_leb (fst b) (fst a) = true) by (apply (lex_leb_trans _ (fst c)); assumption).
    specialize (H2 Hba). specialize (K2 Hcb). lia.
Qed.

Definition set_le (s t : wset) : Prop := key_leb (ws_key s) (ws_key t) = true.

Lemma insert_set_sorted x l : StronglySorted set_le l -> StronglySorted set_le (insert_set x l).
Proof.
  induction l as [|y t IH]; simpl; intros H.
  - constructor; constructor.
  - inversion H as [|? ? Ht Hf]; subst. destruct (key_leb (ws_key x) (ws_key y)) eqn:E.
    + constructor; [exact H|]. constructor; [exact E|].
      eapply Forall_impl; [|exact Hf]. intros z Hz. unfold set_le in *. apply (key_leb_trans _ (ws_key y)); assumption.
    + constructor; [apply IH; exact Ht|]. apply Forall_forall. intros z Hz.
      apply (Permutation_in _ (insert_set_perm x t)) in Hz. destruct Hz as [<-|Hz].
      * unfold set_le. destruct (key_leb_total (ws_key x) (ws_key y)); congruence.
      * rewrite Forall_forall in Hf. apply Hf; exact Hz.
Qed.

Lemma sort_sets_sorted l : StronglySorted set_le (sort_sets l).
Proof. induction l as [|x t IH]; simpl; [constructor | apply insert_set_sorted; exact IH]. Qed.

(* the order, spelled out: letters by code point ('A' < 'a' < ... < 'z'), equal letters by atomic number *)
Lemma set_le_spec s t : set_le s t ->
  lex_leb (codes (ws_letter s)) (codes (ws_letter t)) = true
  /\ (ws_letter s = ws_letter t -> (ws_number s <= ws_number t)%Z).
Proof.
  unfold set_le, ws_key. rewrite key_leb_iff. simpl. intros [H1 H2]. split; [exact H1|].
  intros E. apply H2. rewrite E. apply lex_leb_refl.
Qed.

(* ---------- the theorems about the returned list ---------------------------------------------------- *)
Lemma wyckoff_sets_inv valid eq letters numbers sets :
  wyckoff_sets valid eq letters numbers = Some sets ->
  exists ss, sets_unsorted valid eq letters numbers = Some ss /\ sets = sort_sets ss.
Proof.
  unfold wyckoff_sets. destruct (sets_unsorted valid eq letters numbers) as [ss|]; [|discriminate].
  intros H; inversion H. exists ss. auto.
Qed.

Lemma sets_have_labels valid eq letters numbers sets s :
  wyckoff_sets valid eq letters numbers = Some sets -> In s sets ->
  exists v, In v eq /\ set_of_label eq letters numbers v s.
Proof.
  intros H Hs. destruct (wyckoff_sets_inv _ _ _ _ _ H) as [ss [Hu ->]].
  apply (Permutation_in _ (sort_sets_perm ss)) in Hs.
  destruct (sets_unsorted_spec _ _ _ _ _ Hu) as [_ [_ [HF _]]].
  destruct (Forall2_In_r _ _ _ _ HF Hs) as [v [Hv Hl]]. exists v. split; [apply ds_In; exact Hv | exact Hl].
Qed.

(* the index lists of the returned sets partition {0..n-1}; no set is empty *)
Theorem sets_partition valid eq letters numbers sets :
  wyckoff_sets valid eq letters numbers = Some sets ->
  Permutation (List.concat (map ws_indices sets)) (seq 0 (List.length eq))
  /\ Forall (fun s => ws_indices s <> []) sets.
Proof.
  intros H. split.
  - destruct (wyckoff_sets_inv _ _ _ _ _ H) as [ss [Hu ->]].
    destruct (sets_unsorted_spec _ _ _ _ _ Hu) as [_ [_ [HF _]]].
    rewrite <- flat_map_concat_map. rewrite (sort_sets_perm ss). rewrite flat_map_concat_map.
    rewrite (Forall2_map_eq _ ws_indices (fibre eq) _ _ HF).
    + rewrite <- flat_map_concat_map. apply fibres_partition.
    + intros v s Hl. apply Hl.
  - apply Forall_forall. intros s Hs.
    destruct (sets_have_labels _ _ _ _ _ _ H Hs) as [v [Hv [_ [_ [Hi _]]]]]. rewrite Hi. apply fibre_nonempty. exact Hv.
Qed.

(* readable corollary: every atom lies in exactly one set *)
Corollary sets_cover_disjoint valid eq letters numbers sets :
  wyckoff_sets valid eq letters numbers = Some sets ->
  NoDup (List.concat (map ws_indices sets))
  /\ forall i, i < List.length eq <-> exists s, In s sets /\ In i (ws_indices s).
Proof.
  intros H. destruct (sets_partition _ _ _ _ _ H) as [Hp _]. split.
  - apply (Permutation_NoDup (Permutation_sym Hp)). apply seq_NoDup.
  - intros i. split.
    + intros Hi. assert (Hin : In i (List.concat (map ws_indices sets))).
      { apply (Permutation_in _ (Permutation_sym Hp)). apply in_seq. lia. }
      apply in_concat in Hin. destruct Hin as [l [Hl Hil]]. apply in_map_iff in Hl. destruct Hl as [s [<- Hs]].
      exists s. auto.
    + intros [s [Hs Hi]]. assert (Hin : In i (seq 0 (List.length eq))).
      { apply (Permutation_in _ Hp). apply in_concat. exists (ws_indices s). split; [apply in_map; exact Hs | exact Hi]. }
      apply in_seq in Hin. lia.
Qed.

Theorem multiplicity_eq_size valid eq letters numbers sets :
  wyckoff_sets valid eq letters numbers = Some sets ->
  forall s, In s sets -> ws_mult s = List.length (ws_indices s).
Proof.
  intros H s Hs. destruct (sets_have_labels _ _ _ _ _ _ H Hs) as [v [_ [_ [_ [Hi Hm]]]]]. rewrite Hi. exact Hm.
Qed.

(* each set is a whole class of the equivalence array *)
Theorem set_is_class valid eq letters numbers sets :
  wyckoff_sets valid eq letters numbers = Some sets ->
  forall s, In s sets -> exists v, In v eq /\ forall i, In i (ws_indices s) <-> i < List.length eq /\ nth i eq 0 = v.
Proof.
  intros H s Hs. destruct (sets_have_labels _ _ _ _ _ _ H Hs) as [v [Hv [_ [_ [Hi _]]]]].
  exists v. split; [exact Hv|]. intros i. rewrite Hi. apply fibre_In.
Qed.

(* S3: atoms with equal label carry equal letter and element *)
Definition S3_arrays (eq : list nat) (letters : list string) (numbers : list Z) : Prop :=
  forall i j, i < List.length eq -> j < List.length eq -> nth i eq 0 = nth j eq 0 ->
    nth_error letters i = nth_error letters j /\ nth_error numbers i = nth_error numbers j.

Theorem set_uniform valid eq letters numbers sets :
  wyckoff_sets valid eq letters numbers = Some sets -> S3_arrays eq letters numbers ->
  forall s i, In s sets -> In i (ws_indices s) ->
    nth_error letters i = Some (ws_letter s) /\ nth_error numbers i = Some (ws_number s).
Proof.
  intros H HS s i Hs Hi. destruct (sets_have_labels _ _ _ _ _ _ H Hs) as [v [Hv [Hl [Hz [Hidx _]]]]].
  rewrite Hidx in Hi. apply fibre_In in Hi. destruct Hi as [Hi Hv'].
  destruct (first_index_spec v eq Hv) as [A [B _]].
  assert (Hn : nth (first_index v eq) eq 0 = v) by (apply nth_error_nth; exact B).
  destruct (HS i (first_index v eq) Hi A) as [E1 E2]; [congruence|].
  rewrite E1, E2. auto.
Qed.

(* the list is sorted by (letter, atomic number); letters compare by code point *)
Theorem sorted_by_letter_then_Z valid eq letters numbers sets :
  wyckoff_sets valid eq letters numbers = Some sets -> StronglySorted set_le sets.
Proof.
  intros H. destruct (wyckoff_sets_inv _ _ _ _ _ H) as [ss [_ ->]]. apply sort_sets_sorted.
Qed.

(* every letter of a returned set is a letter of the table of the group *)
Theorem set_letters_known valid eq letters numbers sets :
  wyckoff_sets valid eq letters numbers = Some sets ->
  forall s, In s sets -> letter_known valid (ws_letter s) = true.
Proof.
  intros H s Hs. destruct (wyckoff_sets_inv _ _ _ _ _ H) as [ss [Hu ->]].
  apply (Permutation_in _ (sort_sets_perm ss)) in Hs.
  destruct (sets_unsorted_spec _ _ _ _ _ Hu) as [_ [_ [_ HF]]]. rewrite Forall_forall in HF. apply HF. exact Hs.
Qed.

(* ---------- invariance under a permutation of the atoms ---------------------------------------- *)
Definition atoms_of (eq : list nat) (letters : list string) (numbers : list Z) : list (nat * (string * Z)) :=
  combine eq (combine letters numbers).
(* S3 on the atom list: equal label => equal (letter, element) *)
Definition S3_uniform (atoms : list (nat * (string * Z))) : Prop :=
  forall a b, In a atoms -> In b atoms -> fst a = fst b -> snd a = snd b.

Lemma nth_error_combine {A B} (a : list A) : forall (b : list B) i x y,
  nth_error a i = Some x -> nth_error b i = Some y -> nth_error (combine a b) i = Some (x, y).
Proof.
  induction a as [|p a IH]; intros [|q b] [|i] x y; simpl; try discriminate.
  - intros H1 H2; inversion H1; inversion H2; reflexivity.
  - apply IH.
Qed.

Lemma map_fst_combine {A B} (a : list A) : forall (b : list B),
  List.length a = List.length b -> map fst (combine a b) = a.
Proof.
  induction a as [|p a IH]; intros [|q b]; simpl; try discriminate; [reflexivity|].
  intros H. f_equal. apply IH. lia.
Qed.

Lemma first_atom_in valid eq letters numbers ss v s :
  sets_unsorted valid eq letters numbers = Some ss -> In v eq -> set_of_label eq letters numbers v s ->
  In (v, (ws_letter s, ws_number s)) (atoms_of eq letters numbers).
Proof.
  intros Hu Hv [Hl [Hz _]]. destruct (first_index_spec v eq Hv) as [_ [B _]].
  apply (nth_error_In _ (first_index v eq)). unfold atoms_of.
  apply nth_error_combine; [exact B|]. apply nth_error_combine; assumption.
Qed.

Lemma insert_set_Forall2 (R : wset -> wset -> Prop) x x' l l' :
  (forall s t, R s t -> ws_key s = ws_key t) ->
  R x x' -> Forall2 R l l' -> Forall2 R (insert_set x l) (insert_set x' l').
Proof.
  intros Hk Hx H. induction H as [|y y' l l' Hy Hl IH]; simpl.
  - constructor; [exact Hx | constructor].
  - rewrite (Hk _ _ Hx), (Hk _ _ Hy). destruct (key_leb (ws_key x') (ws_key y')).
    + constructor; [exact Hx|]. constructor; assumption.
    + constructor; [exact Hy | exact IH].
Qed.

Lemma sort_sets_Forall2 (R : wset -> wset -> Prop) l l' :
  (forall s t, R s t -> ws_key s = ws_key t) ->
  Forall2 R l l' -> Forall2 R (sort_sets l) (sort_sets l').
Proof.
  intros Hk H. induction H as [|y y' l l' Hy _ IH]; simpl; [constructor|].
  apply insert_set_Forall2; assumption.
Qed.

Lemma Forall2_same_left {A B} (P : A -> B -> Prop) (Q : A -> B -> Prop) (R : B -> B -> Prop) l r r' :
  Forall2 P l r -> Forall2 Q l r' ->
  (forall x y y', In x l -> P x y -> Q x y' -> R y y') -> Forall2 R r r'.
Proof.
  intros H. revert r'. induction H as [|a b l r Hab _ IH]; intros r' H' HR.
  - inversion H'. constructor.
  - inversion H' as [|a' b' l' r'' Hab' Hrest]; subst. constructor.
    + apply (HR a); [left; reflexivity | exact Hab | exact Hab'].
    + apply IH; [exact Hrest|]. intros x y y' Hx. apply HR. right; exact Hx.
Qed.

(* (letter, element, multiplicity) of the returned sets do not depend on the order of the atoms *)
Theorem sets_perm_invariant_as_multiset valid eq letters numbers eq' letters' numbers' sets sets' :
  wyckoff_sets valid eq letters numbers = Some sets ->
  wyckoff_sets valid eq' letters' numbers' = Some sets' ->
  Permutation (atoms_of eq letters numbers) (atoms_of eq' letters' numbers') ->
  S3_uniform (atoms_of eq letters numbers) ->
  map summary sets = map summary sets'.
Proof.
  intros H H' Hp HS.
  destruct (wyckoff_sets_inv _ _ _ _ _ H) as [ss [Hu ->]].
  destruct (wyckoff_sets_inv _ _ _ _ _ H') as [ss' [Hu' ->]].
  destruct (sets_unsorted_spec _ _ _ _ _ Hu) as [L1 [L2 [HF _]]].
  destruct (sets_unsorted_spec _ _ _ _ _ Hu') as [L1' [L2' [HF' _]]].
  assert (Hpe : Permutation eq eq').
  { rewrite <- (map_fst_combine eq (combine letters numbers)), <- (map_fst_combine eq' (combine letters' numbers')).
    - apply Permutation_map. exact Hp.
    - rewrite combine_length. lia.
    - rewrite combine_length. lia. }
  rewrite <- (ds_perm _ _ Hpe) in HF'.
  set (R := fun s t : wset => summary s = summary t).
  assert (HR : Forall2 R ss ss').
  { apply (Forall2_same_left _ _ R _ _ _ HF HF'). intros v s s' Hv Hs Hs'. apply (proj1 (ds_In _ _)) in Hv.
    assert (Hv' : In v eq') by (apply (Permutation_in _ Hpe); exact Hv).
    pose proof (first_atom_in _ _ _ _ _ _ _ Hu Hv Hs) as Ha.
    pose proof (first_atom_in _ _ _ _ _ _ _ Hu' Hv' Hs') as Ha'.
    apply (Permutation_in _ (Permutation_sym Hp)) in Ha'.
    pose proof (HS _ _ Ha Ha' eq_refl) as E. simpl in E. inversion E as [[E1 E2]].
    destruct Hs as [_ [_ [_ Hm]]]. destruct Hs' as [_ [_ [_ Hm']]].
    unfold R, summary. rewrite E1, E2, Hm, Hm', !fibre_length.
    rewrite (Permutation_count_occ Nat.eq_dec eq eq') in Hpe. rewrite Hpe. reflexivity. }
  assert (Hk : forall s t, R s t -> ws_key s = ws_key t).
  { intros s t E. unfold R, summary in E. inversion E. unfold ws_key. congruence. }
  pose proof (sort_sets_Forall2 R _ _ Hk HR) as Hs.
  clear -Hs. induction Hs as [|a b l r Hab _ IH]; simpl; [reflexivity|]. rewrite Hab, IH. reflexivity.
Qed.

(* ---------- the letter permutation of the chosen normalizer ------------------------------------------ *)
(* relabelling the atoms' letters through a map f relabels the sets: same index lists, same elements,
   letter f(l) -- only the order of the returned list may change *)
Theorem sets_letters_permuted valid valid' (f : string -> option string) eq letters letters' numbers sets sets' :
  Forall2 (fun l l' => f l = Some l') letters letters' ->
  wyckoff_sets valid eq letters numbers = Some sets ->
  wyckoff_sets valid' eq letters' numbers = Some sets' ->
  forall s', In s' sets' -> exists s, In s sets /\ ws_indices s' = ws_indices s /\ ws_number s' = ws_number s
                                   /\ ws_mult s' = ws_mult s /\ f (ws_letter s) = Some (ws_letter s').
Proof.
  intros HL H H' s' Hs'.
  destruct (sets_have_labels _ _ _ _ _ _ H' Hs') as [v [Hv [Hl' [Hz' [Hi' Hm']]]]].
  destruct (wyckoff_sets_inv _ _ _ _ _ H) as [ss [Hu ->]].
  destruct (sets_unsorted_spec _ _ _ _ _ Hu) as [_ [_ [HF _]]].
  destruct (Forall2_In_l _ _ _ v HF (proj2 (ds_In _ _) Hv)) as [s [Hs [Hl [Hz [Hi Hm]]]]].
  exists s. split; [apply (Permutation_in _ (Permutation_sym (sort_sets_perm ss))); exact Hs|].
  repeat split; try congruence.
  clear -HL Hl Hl'. revert Hl Hl'. generalize (first_index v eq). intros k. revert k.
  induction HL as [|a b l r Hab _ IH]; intros [|k]; simpl; try discriminate.
  - intros E1 E2. inversion E1; inversion E2; subst. exact Hab.
  - apply IH.
Qed.
