(* Lexicographic candidate filtering over an arbitrary list of keys (generalisation of Select.v):
   the survivors depend only on the SET of candidate count vectors, they agree on every processed key,
   and the filtering never empties a non-empty candidate list. *)
From Coq Require Import List Arith Bool Lia PeanoNat.
Import ListNotations.

Lemma list_max_In (l : list nat) : l <> [] -> In (list_max l) l.
Proof.
  induction l as [|x l IH]; [congruence|]. intros _. simpl.
  destruct l as [|y l'].
  - left. simpl. lia.
  - destruct (Nat.max_spec x (list_max (y :: l'))) as [[_ E]|[_ E]]; rewrite E.
    + right. apply IH. discriminate.
    + left. reflexivity.
Qed.

Section Sel.
Variables A K : Type.
Variable vec : A -> K -> nat.

Definition maxat (k : K) (l : list A) := list_max (map (fun a => vec a k) l).
Definition stepk (k : K) (l : list A) : list A :=
  let m := maxat k l in if m =? 0 then l else filter (fun a => vec a k =? m) l.
Definition select (ks : list K) (l : list A) : list A := fold_left (fun l k => stepk k l) ks l.

Lemma maxat_ge k l a : In a l -> vec a k <= maxat k l.
Proof.
  intros H. unfold maxat.
  assert (Hall := proj1 (list_max_le (map (fun a => vec a k) l) (list_max (map (fun a => vec a k) l))) (le_n _)).
  rewrite Forall_forall in Hall. apply Hall. apply in_map_iff. exists a; auto.
Qed.
Lemma maxat_attained k l : l <> [] -> exists a, In a l /\ vec a k = maxat k l.
Proof.
  intros Hne. unfold maxat.
  assert (Hm : map (fun a => vec a k) l <> []) by (destruct l; [congruence | discriminate]).
  pose proof (list_max_In _ Hm) as Hin.
  apply in_map_iff in Hin. destruct Hin as [a [Ha Hin]]. exists a; auto.
Qed.

(* mutual simulation: every candidate of l has a candidate of l' with the same counts on all keys *)
Definition sim (l l' : list A) := forall a, In a l -> exists a', In a' l' /\ forall k, vec a k = vec a' k.

Lemma sim_refl l : sim l l.
Proof. intros a Ha. exists a. auto. Qed.

Lemma sim_maxat k l l' : sim l l' -> sim l' l -> maxat k l = maxat k l'.
Proof.
  intros H H'.
  destruct l as [|x l0].
  - destruct l' as [|y l0']; [reflexivity|]. destruct (H' y (or_introl eq_refl)) as [? [[] _]].
  - assert (Hne : x :: l0 <> []) by discriminate.
    assert (Hne' : l' <> []). { destruct (H x (or_introl eq_refl)) as [a' [Hin _]]. intro E; subst; destruct Hin. }
    apply Nat.le_antisymm.
    + destruct (maxat_attained k _ Hne) as [a [Ha Ea]]. destruct (H a Ha) as [a' [Ha' Ev]].
      rewrite <- Ea, Ev. apply maxat_ge; assumption.
    + destruct (maxat_attained k _ Hne') as [a [Ha Ea]]. destruct (H' a Ha) as [a' [Ha' Ev]].
      rewrite <- Ea, Ev. apply maxat_ge; assumption.
Qed.

Lemma stepk_sim k l l' : sim l l' -> sim l' l -> sim (stepk k l) (stepk k l').
Proof.
  intros H H'. unfold stepk. rewrite (sim_maxat k l l' H H').
  destruct (maxat k l' =? 0); [assumption|].
  intros a Ha. apply filter_In in Ha. destruct Ha as [Ha Em]. destruct (H a Ha) as [a' [Ha' Ev]].
  exists a'. split; [|assumption]. apply filter_In. split; [assumption|]. rewrite <- Ev. assumption.
Qed.

Lemma stepk_incl k l : incl (stepk k l) l.
Proof. unfold stepk. destruct (_ =? 0); [apply incl_refl|]. intros a Ha. apply filter_In in Ha. tauto. Qed.

Lemma stepk_nonempty k l : l <> [] -> stepk k l <> [].
Proof.
  intros Hne. unfold stepk. destruct (maxat k l =? 0) eqn:E; [assumption|].
  destruct (maxat_attained k l Hne) as [a [Ha Ea]]. intro Hf.
  assert (In a (filter (fun a => vec a k =? maxat k l) l)) by (apply filter_In; split; [assumption | apply Nat.eqb_eq; assumption]).
  rewrite Hf in H. destruct H.
Qed.

Lemma stepk_const k l a : In a (stepk k l) -> vec a k = maxat k l.
Proof.
  unfold stepk. destruct (maxat k l =? 0) eqn:E; intros Ha.
  - apply Nat.eqb_eq in E. pose proof (maxat_ge k l a Ha). lia.
  - apply filter_In in Ha. destruct Ha as [_ Ha]. apply Nat.eqb_eq in Ha. assumption.
Qed.

(* a single candidate is never removed *)
Lemma stepk_singleton k a : stepk k [a] = [a].
Proof.
  unfold stepk, maxat. simpl. rewrite Nat.max_0_r.
  destruct (vec a k =? 0) eqn:E; [reflexivity|]. simpl. rewrite Nat.eqb_refl. reflexivity.
Qed.

Lemma select_incl ks : forall l, incl (select ks l) l.
Proof.
  induction ks as [|k ks IH]; intros l; simpl; [apply incl_refl|].
  eapply incl_tran; [apply IH | apply stepk_incl].
Qed.
Lemma select_nonempty ks : forall l, l <> [] -> select ks l <> [].
Proof. induction ks as [|k ks IH]; intros l H; simpl; [assumption|]. apply IH, stepk_nonempty, H. Qed.
Lemma select_singleton ks a : select ks [a] = [a].
Proof. induction ks as [|k ks IH]; simpl; [reflexivity|]. rewrite stepk_singleton. exact IH. Qed.
Lemma select_app ks1 ks2 l : select (ks1 ++ ks2) l = select ks2 (select ks1 l).
Proof. unfold select. apply fold_left_app. Qed.

(* survivors of two mutually similar candidate lists agree on every processed key *)
Lemma select_agree ks : forall l l', sim l l' -> sim l' l ->
  forall a a', In a (select ks l) -> In a' (select ks l') -> forall k, In k ks -> vec a k = vec a' k.
Proof.
  induction ks as [|k0 ks IH]; intros l l' H H' a a' Ha Ha' k Hk; [destruct Hk|].
  simpl in Ha, Ha'. destruct Hk as [<-|Hk].
  - apply select_incl in Ha. apply select_incl in Ha'.
    rewrite (stepk_const _ _ _ Ha), (stepk_const _ _ _ Ha'). apply sim_maxat; assumption.
  - apply (IH (stepk k0 l) (stepk k0 l') (stepk_sim k0 l l' H H') (stepk_sim k0 l' l H' H) a a' Ha Ha' k Hk).
Qed.

Corollary survivors_agree ks l a a' :
  In a (select ks l) -> In a' (select ks l) -> forall k, In k ks -> vec a k = vec a' k.
Proof. apply select_agree; apply sim_refl. Qed.
End Sel.

(* transporting a selection along a map that preserves the counts *)
Section SelMap.
Variables A B K : Type.
Variable vecA : A -> K -> nat.
Variable vecB : B -> K -> nat.
Variable f : A -> B.
Hypothesis Hf : forall a k, vecB (f a) k = vecA a k.

Lemma maxat_map k l : maxat B K vecB k (map f l) = maxat A K vecA k l.
Proof. unfold maxat. rewrite map_map. f_equal. apply map_ext. intros a. apply Hf. Qed.

Lemma filter_map_comm (p : B -> bool) l : filter p (map f l) = map f (filter (fun a => p (f a)) l).
Proof. induction l as [|a l IH]; simpl; [reflexivity|]. destruct (p (f a)); simpl; rewrite IH; reflexivity. Qed.

Lemma stepk_map k l : stepk B K vecB k (map f l) = map f (stepk A K vecA k l).
Proof.
  unfold stepk. rewrite maxat_map. destruct (maxat A K vecA k l =? 0); [reflexivity|].
  rewrite filter_map_comm. f_equal. apply filter_ext. intros a. rewrite Hf. reflexivity.
Qed.

Lemma select_map ks : forall l, select B K vecB ks (map f l) = map f (select A K vecA ks l).
Proof.
  induction ks as [|k ks IH]; intros l; simpl; [reflexivity|]. rewrite stepk_map. apply IH.
Qed.
End SelMap.

Section SimTrans.
Variables A K : Type.
Variable vec : A -> K -> nat.
Lemma sim_trans l1 l2 l3 : sim A K vec l1 l2 -> sim A K vec l2 l3 -> sim A K vec l1 l3.
Proof.
  intros H12 H23 a Ha. destruct (H12 a Ha) as [b [Hb Eb]]. destruct (H23 b Hb) as [c [Hc Ec]].
  exists c. split; [exact Hc|]. intros k. rewrite Eb. apply Ec.
Qed.
End SimTrans.
