(* C12 -- executable model of the index maps original -> primitive -> conventional of
   matid/symmetry/symmetryanalyzer.py and of the atom selection of _get_primitive_system.

   spglib's dataset is DATA here (an oracle; its contract S3 is a hypothesis of the theorems in
   PrimitiveProofs.v and is evaluated on every dataset by the harness):
     wyckoffs, crystallographic_orbits, mapping_to_primitive     one entry per ORIGINAL atom
     std_mapping_to_primitive, std_types                          one entry per CONVENTIONAL atom
     international[0]                                             the centring letter

     prim_to_orig     = np.unique(mapping_to_primitive, return_index=True)[1]
     spglib letters/orbits of the primitive atoms     = original[prim_to_orig]
     spglib letters/orbits of the conventional atoms  = primitive[std_mapping_to_primitive]
     conventional letters = chosen permutation applied to spglib's letters (identity: unchanged)
     original letters     = permutations[old] for every original atom
     primitive system (centring <> "P"):  inside = np.unique(std_mapping_to_primitive, return_index=True)[1];
                                          letters/orbits/numbers = conventional[inside]
     primitive system (centring = "P"):   the conventional arrays themselves

   Python exceptions (IndexError, KeyError) are [None]. *)
From Coq Require Import List Arith ZArith String Bool.
Import ListNotations.
From MV Require Import Symmetry.Table Symmetry.WyckoffSets.
Close Scope Z_scope.
Open Scope nat_scope.
Open Scope string_scope.

Record dataset := mkDS {
  ds_wyckoffs : list string;
  ds_orbits : list nat;
  ds_m2p : list nat;
  ds_std_m2p : list nat;
  ds_std_types : list Z }.

(* dict lookup permutations[s]; a missing key is KeyError *)
Definition perm_lookup (p : list (string * string)) (s : string) : option string :=
  match find (fun kv => String.eqb (fst kv) s) p with Some kv => Some (snd kv) | None => None end.
Definition perm_letters (p : list (string * string)) (l : list string) : option (list string) :=
  all_some (map (perm_lookup p) l).

Definition prim_to_orig (ds : dataset) : list nat := map snd (unique_first (ds_m2p ds)).
Definition inside_mask (ds : dataset) : list nat := map snd (unique_first (ds_std_m2p ds)).

(* centring multiplicity of the letter that indexes primitive_transformations (None: KeyError) *)
Definition centring_mult (c : string) : option nat :=
  if String.eqb c "P" then Some 1
  else if String.eqb c "A" || String.eqb c "C" || String.eqb c "I" then Some 2
  else if String.eqb c "R" then Some 3
  else if String.eqb c "F" then Some 4
  else None.

Record descr := mkDescr {
  d_orig_letters : list string; d_orig_equiv : list nat;
  d_conv_letters : list string; d_conv_equiv : list nat;
  d_prim_letters : list string; d_prim_equiv : list nat; d_prim_numbers : list Z }.

Definition bind {A B} (x : option A) (f : A -> option B) : option B :=
  match x with Some a => f a | None => None end.

Definition describe (perm : list (string * string)) (centring : string) (ds : dataset) : option descr :=
  let n := List.length (ds_wyckoffs ds) in
  if negb ((List.length (ds_orbits ds) =? n)%nat && (List.length (ds_m2p ds) =? n)%nat
           && (List.length (ds_std_types ds) =? List.length (ds_std_m2p ds))%nat) then None else
  bind (gather (ds_wyckoffs ds) (prim_to_orig ds)) (fun spl =>
  bind (gather (ds_orbits ds) (prim_to_orig ds)) (fun spe =>
  bind (gather spl (ds_std_m2p ds)) (fun scl =>
  bind (gather spe (ds_std_m2p ds)) (fun sce =>
  bind (perm_letters perm scl) (fun cl =>
  bind (perm_letters perm (ds_wyckoffs ds)) (fun ol =>
  bind (centring_mult centring) (fun m =>
  if (m =? 1)%nat then
    Some (mkDescr ol (ds_orbits ds) cl sce cl sce (ds_std_types ds))
  else
    bind (gather cl (inside_mask ds)) (fun pl =>
    bind (gather sce (inside_mask ds)) (fun pe =>
    bind (gather (ds_std_types ds) (inside_mask ds)) (fun pn =>
    Some (mkDescr ol (ds_orbits ds) cl sce pl pe pn))))))))))).

(* ---------- agreement relations of the correspondence ------------------------------------------ *)
Definition descr_eqb (a b : descr) : bool :=
  str_list_eqb (d_orig_letters a) (d_orig_letters b) && nat_list_eqb (d_orig_equiv a) (d_orig_equiv b)
  && str_list_eqb (d_conv_letters a) (d_conv_letters b) && nat_list_eqb (d_conv_equiv a) (d_conv_equiv b)
  && str_list_eqb (d_prim_letters a) (d_prim_letters b) && nat_list_eqb (d_prim_equiv a) (d_prim_equiv b)
  && z_list_eqb (d_prim_numbers a) (d_prim_numbers b).

(* C12: letters, equivalence arrays and primitive atomic numbers of the three descriptions, exactly *)
Definition descr_agree (perm : list (string * string)) (centring : string) (ds : dataset) (impl : descr) : bool :=
  match describe perm centring ds with Some d => descr_eqb d impl | None => false end.

(* C07, fed with the dataset: the conventional arrays through the index maps, then the sets *)
Definition sets_agree_ds (valid : list string) (perm : list (string * string)) (centring : string) (ds : dataset)
  (impl : list wset) : bool :=
  match describe perm centring ds with
  | Some d => sets_agree valid (d_conv_equiv d) (d_conv_letters d) (ds_std_types ds) impl
  | None => false
  end.
