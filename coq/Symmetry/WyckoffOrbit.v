(* C07 -- orbit closure under the chosen normalizer.

   Points are rational: p : v3 at scale D > 0 stands for the fractional coordinates p / (24 D) taken
   modulo 1 (every rational point is of this form for some D).  A space-group operation
   g = (R, t) (t in units of 1/24, as in the tables) acts by  x |-> R x + t  (mod 1).

   If the classes of an equivalence on a point set are exactly the orbits of a group G
   (spglib's contract S3 on the standardized cell) and n normalises G (n g n^-1 in G for all g in G:
   C14, for every tabulated normalizer), then after moving every point by n the SAME classes are
   again exactly the orbits of G:   g' . (n . x)  =  n . (g . x)   with  g' = n g n^-1.          *)
From Coq Require Import ZArith List Bool Lia.
Import ListNotations.
From MV Require Import Symmetry.Table Symmetry.Affine.
Open Scope Z_scope.

Ltac dv v := destruct v as [[? ?] ?].
Ltac dm m := destruct m as [[[[? ?] ?] [[? ?] ?]] [[? ?] ?]].
Ltac tup := repeat (match goal with |- (_, _) = (_, _) => apply f_equal2 end).
Ltac modeq := match goal with |- ?a mod ?n = ?b mod ?n => replace a with b by ring; reflexivity end.

(* ---------- algebra of operations modulo lattice translations ------------------------------------- *)
Lemma modN_lin3 N k1 k2 k3 a b c t : N <> 0 ->
  (k1 * (a mod N) + k2 * (b mod N) + k3 * (c mod N) + t) mod N = (k1 * a + k2 * b + k3 * c + t) mod N.
Proof.
  intros HN.
  rewrite (Z.add_mod (k1 * (a mod N) + k2 * (b mod N) + k3 * (c mod N)) t) by exact HN.
  rewrite (Z.add_mod (k1 * (a mod N) + k2 * (b mod N)) (k3 * (c mod N))) by exact HN.
  rewrite (Z.add_mod (k1 * (a mod N)) (k2 * (b mod N))) by exact HN.
  rewrite !Z.mul_mod_idemp_r by exact HN.
  rewrite <- (Z.add_mod (k1 * a) (k2 * b)) by exact HN.
  rewrite <- (Z.add_mod (k1 * a + k2 * b) (k3 * c)) by exact HN.
  rewrite <- (Z.add_mod (k1 * a + k2 * b + k3 * c) t) by exact HN.
  reflexivity.
Qed.

Lemma madj_mul r : mmul (madj r) r = mscale (mdet r) mid.
Proof. dm r. unfold mmul, madj, mscale, mdet, mid, mcol, dot3, vscale; cbv beta iota. tup; ring. Qed.

Lemma mmul_assoc a b c : mmul a (mmul b c) = mmul (mmul a b) c.
Proof. dm a; dm b; dm c. unfold mmul, mcol, dot3; simpl. tup; ring. Qed.

Lemma mmul_mscale_l' k a b : mmul (mscale k a) b = mscale k (mmul a b).
Proof. dm a; dm b. unfold mmul, mscale, vscale, mcol, dot3; simpl. tup; ring. Qed.

Lemma mscale_mscale k l a : mscale k (mscale l a) = mscale (k * l) a.
Proof. dm a. unfold mscale, vscale; simpl. tup; ring. Qed.

Lemma mscale_1 a : mscale 1 a = a.
Proof. dm a. unfold mscale, vscale; cbv beta iota. tup; ring. Qed.

Lemma mmul_mid_l a : mmul mid a = a.
Proof. dm a. unfold mmul, mid, mcol, dot3; cbv beta iota. tup; ring. Qed.

Lemma mmul_mid_r a : mmul a mid = a.
Proof. dm a. unfold mmul, mid, mcol, dot3; cbv beta iota. tup; ring. Qed.

Definition unimod (r : m3) : Prop := mdet r = 1 \/ mdet r = -1.

Lemma unimod_sq r : unimod r -> mdet r * mdet r = 1.
Proof. intros [H|H]; rewrite H; reflexivity. Qed.

(* rotation part of the inverse *)
Lemma inv_rot_l r : unimod r -> mmul (mscale (mdet r) (madj r)) r = mid.
Proof.
  intros H. rewrite mmul_mscale_l', madj_mul, mscale_mscale, (unimod_sq r H). apply mscale_1.
Qed.

Section Scale.
Variable D : Z.
Hypothesis Dpos : 0 < D.
Let N := 24 * D.

Lemma N_nz : N <> 0. Proof. unfold N. lia. Qed.

Definition pmod (p : v3) : v3 := let '(a, b, c) := p in (a mod N, b mod N, c mod N).
Definition papply (g : op) (p : v3) : v3 := pmod (vadd (mvec (fst g) p) (vscale D (snd g))).

Lemma scale_mod24 x : D * (x mod 24) = (D * x) mod N.
Proof. unfold N. rewrite (Z.mul_comm 24 D). rewrite Z.mul_mod_distr_l by lia. reflexivity. Qed.

Lemma pmod_idem p : pmod (pmod p) = pmod p.
Proof. dv p. unfold pmod. rewrite !Z.mod_mod by apply N_nz. reflexivity. Qed.

Lemma papply_pmod g p : papply g (pmod p) = papply g p.
Proof.
  destruct g as [r t]. dm r; dv t; dv p. unfold papply, pmod, vadd, mvec, vscale, dot3; simpl.
  rewrite !modN_lin3 by apply N_nz. reflexivity.
Qed.

Lemma papply_range g p : pmod (papply g p) = papply g p.
Proof. unfold papply. apply pmod_idem. Qed.

(* the action is an action: (a o b) . p = a . (b . p) *)
Lemma papply_compose a b p : papply (op_compose a b) p = papply a (papply b p).
Proof.
  destruct a as [ra ta], b as [rb tb]. dm ra; dm rb; dv ta; dv tb; dv p.
  unfold papply, op_compose, pmod, vadd, mvec, mmul, vscale, v3mod, mod24, mcol, dot3; simpl.
  rewrite !scale_mod24. rewrite !Z.add_mod_idemp_r by apply N_nz.
  rewrite !modN_lin3 by apply N_nz.
  tup; modeq.
Qed.

(* n^-1 . (n . p) = p *)
Lemma papply_inv_gen (ri r : m3) (t p : v3) : mmul ri r = mid ->
  papply (ri, v3mod (vscale (-1) (mvec ri t))) (papply (r, t) p) = pmod p.
Proof.
  destruct ri as [[[[i11 i12] i13] [[i21 i22] i23]] [[i31 i32] i33]].
  destruct r as [[[[r11 r12] r13] [[r21 r22] r23]] [[r31 r32] r33]].
  destruct t as [[t1 t2] t3]. destruct p as [[p1 p2] p3].
  unfold mmul, mid, mcol, dot3. cbv beta iota. intros H.
  assert (E11 : i11 * r11 + i12 * r21 + i13 * r31 = 1) by congruence.
  assert (E12 : i11 * r12 + i12 * r22 + i13 * r32 = 0) by congruence.
  assert (E13 : i11 * r13 + i12 * r23 + i13 * r33 = 0) by congruence.
  assert (E21 : i21 * r11 + i22 * r21 + i23 * r31 = 0) by congruence.
  assert (E22 : i21 * r12 + i22 * r22 + i23 * r32 = 1) by congruence.
  assert (E23 : i21 * r13 + i22 * r23 + i23 * r33 = 0) by congruence.
  assert (E31 : i31 * r11 + i32 * r21 + i33 * r31 = 0) by congruence.
  assert (E32 : i31 * r12 + i32 * r22 + i33 * r32 = 0) by congruence.
  assert (E33 : i31 * r13 + i32 * r23 + i33 * r33 = 1) by congruence.
  clear H.
  unfold papply, pmod, vadd, mvec, vscale, v3mod, mod24, dot3. cbv beta iota delta [fst snd].
  rewrite !scale_mod24. rewrite !Z.add_mod_idemp_r by apply N_nz.
  rewrite !modN_lin3 by apply N_nz.
  tup; f_equal.
  - transitivity ((i11 * r11 + i12 * r21 + i13 * r31) * p1 + (i11 * r12 + i12 * r22 + i13 * r32) * p2
                  + (i11 * r13 + i12 * r23 + i13 * r33) * p3); [ring | rewrite E11, E12, E13; ring].
  - transitivity ((i21 * r11 + i22 * r21 + i23 * r31) * p1 + (i21 * r12 + i22 * r22 + i23 * r32) * p2
                  + (i21 * r13 + i22 * r23 + i23 * r33) * p3); [ring | rewrite E21, E22, E23; ring].
  - transitivity ((i31 * r11 + i32 * r21 + i33 * r31) * p1 + (i31 * r12 + i32 * r22 + i33 * r32) * p2
                  + (i31 * r13 + i32 * r23 + i33 * r33) * p3); [ring | rewrite E31, E32, E33; ring].
Qed.

Lemma papply_inv n p : unimod (fst n) -> papply (op_inv n) (papply n p) = pmod p.
Proof.
  intros Hu. destruct n as [r t]. simpl in Hu.
  change (op_inv (r, t)) with (mscale (mdet r) (madj r), v3mod (vscale (-1) (mvec (mscale (mdet r) (madj r)) t))).
  apply papply_inv_gen. apply inv_rot_l. exact Hu.
Qed.

(* ---------- orbits ------------------------------------------------------------------------------------ *)
(* a finite point set with an equivalence given by class labels, as spglib reports it *)
Definition is_orbit_partition (G : list op) (pts : list v3) (cls : list nat) : Prop :=
  List.length cls = List.length pts
  /\ forall i j x y, nth_error pts i = Some x -> nth_error pts j = Some y ->
       (nth_error cls i = nth_error cls j <-> exists g, In g G /\ pmod y = papply g x).

Definition conj_op (n g : op) : op := op_compose n (op_compose g (op_inv n)).

(* g' . (n . x) = n . (g . x)  for g' = n g n^-1 *)
Lemma conj_action n g x : unimod (fst n) ->
  papply (conj_op n g) (papply n x) = papply n (papply g x).
Proof.
  intros Hu. unfold conj_op. rewrite !papply_compose. rewrite (papply_inv n x Hu).
  rewrite (papply_pmod g x). reflexivity.
Qed.

Lemma papply_n_inj n x y : unimod (fst n) -> papply n x = papply n y -> pmod x = pmod y.
Proof.
  intros Hu H. rewrite <- (papply_inv n x Hu), <- (papply_inv n y Hu), H. reflexivity.
Qed.

Theorem orbit_closure (G : list op) (n : op) (pts : list v3) (cls : list nat) :
  unimod (fst n) ->
  (forall g, In g G -> In (conj_op n g) G) ->                          (* n normalises G        *)
  (forall g', In g' G -> exists g, In g G /\ conj_op n g = g') ->      (* ... onto G            *)
  is_orbit_partition G pts cls ->
  is_orbit_partition G (map (papply n) pts) cls.
Proof.
  intros Hu Hn Hs [Hlen Horb]. split; [rewrite map_length; exact Hlen|].
  intros i j x' y' Hx Hy.
  rewrite nth_error_map in Hx, Hy.
  destruct (nth_error pts i) as [x|] eqn:Ex; [|discriminate].
  destruct (nth_error pts j) as [y|] eqn:Ey; [|discriminate].
  simpl in Hx, Hy. inversion Hx; inversion Hy; subst x' y'. clear Hx Hy.
  rewrite (Horb i j x y Ex Ey). split.
  - intros [g [Hg E]]. exists (conj_op n g). split; [apply Hn; exact Hg|].
    rewrite papply_range, (conj_action n g x Hu), <- E. symmetry. apply papply_pmod.
  - intros [g' [Hg' E]]. destruct (Hs g' Hg') as [g [Hg <-]]. exists g. split; [exact Hg|].
    rewrite papply_range, (conj_action n g x Hu) in E.
    rewrite <- (papply_range g x). apply (papply_n_inj n _ _ Hu).
    exact E.
Qed.

End Scale.

(* ---------- n G n^-1 = G from n G n^-1 <= G (finite group) -------------------------------------------- *)
Lemma v3mod_idem v : v3mod (v3mod v) = v3mod v.
Proof. dv v. unfold v3mod, mod24. rewrite !Z.mod_mod by lia. reflexivity. Qed.

Lemma mod24_lin3 k1 k2 k3 a b c t :
  mod24 (k1 * mod24 a + k2 * mod24 b + k3 * mod24 c + t) = mod24 (k1 * a + k2 * b + k3 * c + t).
Proof. unfold mod24. apply modN_lin3. lia. Qed.

Lemma op_compose_assoc a b c : op_compose a (op_compose b c) = op_compose (op_compose a b) c.
Proof.
  destruct a as [ra ta], b as [rb tb], c as [rc tc]. unfold op_compose; simpl fst; simpl snd.
  f_equal; [apply mmul_assoc|].
  dm ra; dm rb; dv ta; dv tb; dv tc.
  unfold v3mod, vadd, mvec, mmul, mcol, dot3; simpl.
  rewrite !mod24_lin3.
  unfold mod24. rewrite !Z.add_mod_idemp_r by lia. tup; modeq.
Qed.

Definition op_id : op := (mid, (0, 0, 0)).

Lemma op_compose_id_l g : op_compose op_id g = op_norm g.
Proof.
  destruct g as [r t]. unfold op_compose, op_id, op_norm; simpl fst; simpl snd. rewrite mmul_mid_l.
  f_equal. dv t. unfold v3mod, mod24, vadd, mvec, mid, dot3; cbv beta iota. tup; modeq.
Qed.

Lemma op_compose_id_r g : op_compose g op_id = op_norm g.
Proof.
  destruct g as [r t]. unfold op_compose, op_id, op_norm; simpl fst; simpl snd. rewrite mmul_mid_r.
  f_equal. dm r; dv t. unfold v3mod, mod24, vadd, mvec, dot3; cbv beta iota. tup; modeq.
Qed.

Lemma op_inv_l n : unimod (fst n) -> op_compose (op_inv n) n = op_id.
Proof.
  intros Hu. destruct n as [r t]. simpl in Hu. unfold op_compose, op_inv, op_id. cbv beta iota delta [fst snd].
  f_equal; [apply inv_rot_l; exact Hu|].
  generalize (mscale (mdet r) (madj r)). intros ri. dm ri; dv t.
  unfold v3mod, mod24, vadd, mvec, vscale, dot3. cbv beta iota.
  rewrite !Z.add_mod_idemp_r by lia.
  tup; (match goal with |- ?e mod 24 = 0 => replace e with 0 by ring end); reflexivity.
Qed.

Lemma op_norm_compose a b : op_norm (op_compose a b) = op_compose a b.
Proof. unfold op_norm, op_compose; simpl. rewrite v3mod_idem. reflexivity. Qed.

(* conjugation by a unimodular n is injective on normalised operations *)
Lemma conj_op_inj n g1 g2 : unimod (fst n) -> op_norm g1 = g1 -> op_norm g2 = g2 ->
  conj_op n g1 = conj_op n g2 -> g1 = g2.
Proof.
  intros Hu N1 N2 H.
  assert (K : forall g, op_norm g = g -> op_compose (op_inv n) (op_compose (conj_op n g) n) = g).
  { intros g Ng. unfold conj_op.
    rewrite <- (op_compose_assoc n (op_compose g (op_inv n)) n).
    rewrite <- (op_compose_assoc g (op_inv n) n), (op_inv_l n Hu), op_compose_id_r, Ng.
    rewrite (op_compose_assoc (op_inv n) n g), (op_inv_l n Hu), op_compose_id_l. exact Ng. }
  rewrite <- (K g1 N1), <- (K g2 N2), H. reflexivity.
Qed.

Lemma NoDup_map_inj_in {A B} (f : A -> B) l :
  NoDup l -> (forall x y, In x l -> In y l -> f x = f y -> x = y) -> NoDup (map f l).
Proof.
  induction l as [|a t IH]; simpl; intros Hnd Hinj; [constructor|].
  inversion Hnd; subst. constructor.
  - intro Hin. apply in_map_iff in Hin. destruct Hin as [b [Hb Hbt]].
    assert (b = a) by (apply Hinj; auto). subst. contradiction.
  - apply IH; auto.
Qed.

(* a normalised finite group that n conjugates INTO itself is conjugated ONTO itself *)
Theorem conj_onto (G : list op) (n : op) :
  unimod (fst n) -> NoDup G -> (forall g, In g G -> op_norm g = g) ->
  (forall g, In g G -> In (conj_op n g) G) ->
  forall g', In g' G -> exists g, In g G /\ conj_op n g = g'.
Proof.
  intros Hu Hnd Hnorm Hn g' Hg'.
  assert (Hnd' : NoDup (map (conj_op n) G)).
  { apply NoDup_map_inj_in; [exact Hnd|]. intros x y Hx Hy. apply conj_op_inj; auto. }
  assert (Hincl : incl (map (conj_op n) G) G).
  { intros z Hz. apply in_map_iff in Hz. destruct Hz as [g [<- Hg]]. apply Hn; exact Hg. }
  assert (Hback : incl G (map (conj_op n) G)).
  { apply NoDup_length_incl; [exact Hnd' | rewrite map_length; lia | exact Hincl]. }
  specialize (Hback g' Hg'). apply in_map_iff in Hback. destruct Hback as [g [E Hg]]. exists g. auto.
Qed.
