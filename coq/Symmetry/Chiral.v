(* C15 -- the chirality flag.  Executable definitions only (proofs: ChiralProofs.v).

   Mirror of SymmetryAnalyzer.get_is_chiral (matid/symmetry/symmetryanalyzer.py):

       chiral = True
       for rotation in rotations:
           determinant = det(rotation)
           if determinant == -1: return False
       return chiral

   in exact integer arithmetic: the rotation parts of space-group operations expressed in a lattice
   basis are integer matrices, so [mdet] is THE determinant; the implementation's floating-point
   determinant is compared with it per call in the correspondence (the model says nothing about
   rounding).  Which list is scanned is the business of the spglib contract (S4/S1), see
   [s4_b] below and Inst/C15Inst.v. *)
From Coq Require Import ZArith List Bool.
Import ListNotations.
From MV Require Import Symmetry.Table Symmetry.Affine Reflect.GroupChecks.
Open Scope Z_scope.

Definition is_chiral (rots : list m3) : bool := forallb (fun r => negb (mdet r =? -1)) rots.

(* The 65 Sohncke space-group types (groups containing only operations of the first kind),
   transcribed from International Tables for Crystallography A (2016), section 1.3.4.4 / table of
   space groups: 1, 3-5, 16-24, 75-80, 89-98, 143-146, 149-155, 168-173, 177-182, 195-199, 207-214.
   TRUSTED transcription (cross-checked in Inst/C15Inst.v against the regenerated MatID tables and
   against spglib's Hall database: both say "no operation of determinant -1" for exactly these). *)
Definition sohncke65 : list Z :=
  [1; 3; 4; 5;
   16; 17; 18; 19; 20; 21; 22; 23; 24;
   75; 76; 77; 78; 79; 80;
   89; 90; 91; 92; 93; 94; 95; 96; 97; 98;
   143; 144; 145; 146;
   149; 150; 151; 152; 153; 154; 155;
   168; 169; 170; 171; 172; 173;
   177; 178; 179; 180; 181; 182;
   195; 196; 197; 198; 199;
   207; 208; 209; 210; 211; 212; 213; 214].

Definition zmem (z : Z) (l : list Z) : bool := existsb (Z.eqb z) l.
Definition is_sohncke (n : Z) : bool := zmem n sohncke65.

(* rotation parts of the group read off a table's general position *)
Definition table_rots (t : sgtable) : option (list m3) :=
  match conv_trans t, conv_wycks t with
  | Some tr, Some ws =>
      match general_position ws with
      | Some gp => Some (map fst (group_ops tr gp))
      | None => None end
  | _, _ => None end.

(* reflection checker over one table: the model's flag on the table group = membership in the list *)
Definition chk_sohncke (t : sgtable) : bool :=
  match table_rots t with
  | Some rs => Bool.eqb (is_chiral rs) (is_sohncke (sg_num t))
  | None => false end.

Definition sohncke_offenders (ts : list sgtable) : list Z :=
  map sg_num (filter (fun t => negb (chk_sohncke t)) ts).

(* ---------- the spglib contract as a boolean certificate check ------------------------------------
   A rotation R of the group in the standard setting reads R' = P^-1 R P in a basis whose vectors are
   the columns of P (rational in general: P = Pz / d for sub- and superlattices).  Multiplying out,
   R' is the expression of R in the basis P  iff  R Pz = Pz R'  -- an identity of INTEGER matrices. *)
Definition conj_ok (Pz r r' : m3) : bool := m3_eqb (mmul r Pz) (mmul Pz r').

(* every scanned matrix is a group rotation in the basis Pz *)
Definition s4_sound_b (Pz : m3) (ref scanned : list m3) : bool :=
  forallb (fun r' => existsb (fun r => conj_ok Pz r r') ref) scanned.
(* every group rotation has been scanned *)
Definition s4_complete_b (Pz : m3) (ref scanned : list m3) : bool :=
  forallb (fun r => existsb (fun r' => conj_ok Pz r r') scanned) ref.

(* [full] = the scan ran to the end (the implementation answered True); when it returned False early
   only the prefix up to the first improper operation was seen and completeness is not claimed *)
Definition s4_b (Pz : m3) (ref scanned : list m3) (full : bool) : bool :=
  negb (mdet Pz =? 0) && s4_sound_b Pz ref scanned && (negb full || s4_complete_b Pz ref scanned).

Definition unimod_all (rots : list m3) : bool :=
  forallb (fun r => (mdet r =? 1) || (mdet r =? -1)) rots.

(* ---------- weaker, basis-free validation: (trace, det) census ------------------------------------ *)
Definition census (rots : list m3) : list (Z * Z) := map (fun r => (mtrace r, mdet r)) rots.
Definition pair_eqb (p q : Z * Z) : bool := (fst p =? fst q) && (snd p =? snd q).
Definition count_pair (p : Z * Z) (l : list (Z * Z)) : nat := List.length (filter (pair_eqb p) l).
(* [big] is [k] copies of [small] as multisets *)
Definition census_multiple (k : nat) (big small : list (Z * Z)) : bool :=
  forallb (fun p => Nat.eqb (count_pair p big) (k * count_pair p small)) (big ++ small).
Definition census_subset (a b : list (Z * Z)) : bool := forallb (fun p => existsb (pair_eqb p) b) a.

(* complete scan: an integer multiple (>= 1) of the group's census; early exit: only classes of the group *)
Definition census_b (ref scanned : list m3) (full : bool) : bool :=
  if full then
    let k := Nat.div (List.length scanned) (List.length ref) in
    Nat.leb 1 k && Nat.eqb (k * List.length ref) (List.length scanned)
    && census_multiple k (census scanned) (census ref)
  else census_subset (census scanned) (census ref).

(* ---------- agreement relations evaluated in the case files ---------------------------------------
   n       : space-group number reported by the implementation (get_space_group_number)
   flag    : get_is_chiral()
   scanned : the integer matrices the implementation handed to its determinant, in order
   cands   : candidate bases proposed by the (untrusted) harness: transpose of the integer basis change
             applied to the crystal, and the identity (standard setting)
   ref     : rotation parts of the standard-setting group of number n (spglib Hall database, equal as a
             set to the table group by C14) *)
Definition case_conj (ref : list m3) (flag : bool) (scanned : list m3) (cands : list m3) : bool :=
  Bool.eqb (is_chiral scanned) flag
  && unimod_all scanned
  && existsb (fun Pz => s4_b Pz ref scanned flag) cands.

Definition case_census (ref : list m3) (flag : bool) (scanned : list m3) : bool :=
  Bool.eqb (is_chiral scanned) flag
  && unimod_all scanned
  && census_b ref scanned flag.

(* diagnostics for a failing case: (model = flag, all dets +-1, contract by conjugation, contract by census) *)
Definition case_diag (ref : list m3) (flag : bool) (scanned : list m3) (cands : list m3)
  : bool * bool * bool * bool :=
  (Bool.eqb (is_chiral scanned) flag, unimod_all scanned,
   existsb (fun Pz => s4_b Pz ref scanned flag) cands, census_b ref scanned flag).
