From Coq Require Import ZArith QArith List String Ascii Bool.
Import ListNotations.
Open Scope Z_scope.

(* linear form  cx*x + cy*y + cz*z + k  with k rational *)
Record lin := mkLin { cx : Z; cy : Z; cz : Z; k : Q }.
Definition lin0 := mkLin 0 0 0 (0#1).

Record pst := mkP { acc : lin; sgn : Z; num : option Z; den : option Z; inden : bool; ok : bool }.
Definition pst0 := mkP lin0 1 None None false true.

Definition digit (c : ascii) : option Z :=
  let n := nat_of_ascii c in
  if (48 <=? n)%nat && (n <=? 57)%nat then Some (Z.of_nat (n - 48)) else None.

Definition addk (l : lin) (q : Q) := mkLin (cx l) (cy l) (cz l) (Qred (k l + q)).
Definition addv (l : lin) (v : nat) (c : Z) :=
  match v with
  | 0%nat => mkLin (cx l + c) (cy l) (cz l) (k l)
  | 1%nat => mkLin (cx l) (cy l + c) (cz l) (k l)
  | _ => mkLin (cx l) (cy l) (cz l + c) (k l)
  end.

(* flush a pending pure number as a constant *)
Definition flush (s : pst) : pst :=
  match num s with
  | None => match den s with None => s | Some _ => mkP (acc s) (sgn s) None None false false end
  | Some n =>
      let d := match den s with Some d => d | None => 1 end in
      if (d <=? 0) then mkP (acc s) (sgn s) None None false false
      else mkP (addk (acc s) (Qmake (sgn s * n) (Z.to_pos d))) 1 None None false (ok s && negb (inden s && match den s with None => true | _ => false end))
  end.

Definition step (s : pst) (c : ascii) : pst :=
  match digit c with
  | Some d =>
      if inden s then mkP (acc s) (sgn s) (num s) (Some (10 * match den s with Some x => x | None => 0 end + d)) true (ok s)
      else mkP (acc s) (sgn s) (Some (10 * match num s with Some x => x | None => 0 end + d)) (den s) false (ok s)
  | None =>
      if Ascii.eqb c "/"%char then mkP (acc s) (sgn s) (num s) (den s) true (ok s && match num s with Some _ => true | None => false end && negb (inden s))
      else if Ascii.eqb c "+"%char then let s' := flush s in mkP (acc s') 1 None None false (ok s')
      else if Ascii.eqb c "-"%char then let s' := flush s in mkP (acc s') (-1) None None false (ok s')
      else
        let v := if Ascii.eqb c "x"%char then Some 0%nat else if Ascii.eqb c "y"%char then Some 1%nat else if Ascii.eqb c "z"%char then Some 2%nat else None in
        match v with
        | Some v => (* coefficient = sgn * (num or 1); a denominator before a variable is rejected *)
            mkP (addv (acc s) v (sgn s * match num s with Some n => n | None => 1 end)) 1 None None false (ok s && negb (inden s))
        | None => mkP (acc s) (sgn s) (num s) (den s) (inden s) false
        end
  end.

Definition parse (str : string) : option lin :=
  let s := flush (fold_left step (list_ascii_of_string str) pst0) in
  if ok s then Some (acc s) else None.

Definition show (o : option lin) := match o with Some l => Some (cx l, cy l, cz l, k l) | None => None end.

