(* C06 core: the count map chosen by _find_wyckoff_ground_state does not depend on which of the
   origin-equivalent letter assignments spglib happened to return, nor on the atom order.
   Hypotheses of the section are exactly the facts proved by reflection for every space group in
   C14 (permutations total/onto on the group's letters, closed under composition, with inverses,
   letters distinguishable by their code point). *)
From Coq Require Import ZArith List String Bool Arith Lia Permutation.
Import ListNotations.
From MV Require Import Symmetry.SelectK Symmetry.GroundState Symmetry.GroundStateProofs Symmetry.SortCanon.

Definition countf (g : string -> option string) (atoms : list (string * Z)) (w : string) (z : Z) : nat :=
  List.length (filter (fun lz => match g (fst lz) with
                                 | Some w' => String.eqb w' w && Z.eqb (snd lz) z
                                 | None => false end) atoms).
Lemma count_countf p atoms w z : count p atoms w z = countf (pget p) atoms w z.
Proof. reflexivity. Qed.

Lemma countf_ext_on atoms g h w z :
  (forall lz, In lz atoms -> g (fst lz) = h (fst lz)) -> countf g atoms w z = countf h atoms w z.
Proof.
  intros H. unfold countf. f_equal. apply filter_ext_in. intros lz Hin. rewrite (H lz Hin). reflexivity.
Qed.

Lemma countf_map (f : string -> string) g atoms w z :
  countf g (map (fun lz => (f (fst lz), snd lz)) atoms) w z = countf (fun l => g (f l)) atoms w z.
Proof.
  unfold countf. induction atoms as [|a atoms IH]; simpl; [reflexivity|].
  destruct (g (f (fst a))) as [w'|]; [destruct (String.eqb w' w && Z.eqb (snd a) z)|]; simpl; rewrite IH; reflexivity.
Qed.

Lemma countf_perm g a a' w z : Permutation a a' -> countf g a w z = countf g a' w z.
Proof.
  unfold countf. intros H. induction H as [|x l l' H IH|x y l|l l' l'' H1 IH1 H2 IH2]; simpl.
  - reflexivity.
  - destruct (match g (fst x) with Some w' => _ | None => false end); simpl; rewrite IH; reflexivity.
  - destruct (match g (fst y) with Some w' => _ | None => false end);
      destruct (match g (fst x) with Some w' => _ | None => false end); reflexivity.
  - rewrite IH1. exact IH2.
Qed.

Lemma countf_pos g atoms w z : countf g atoms w z <> 0 ->
  exists l, In (l, z) atoms /\ g l = Some w.
Proof.
  unfold countf. induction atoms as [|[l z'] atoms IH]; simpl; [congruence|].
  destruct (g l) as [w'|] eqn:E.
  - destruct (String.eqb w' w && Z.eqb z' z) eqn:E2.
    + intros _. apply andb_true_iff in E2. destruct E2 as [E2 E3]. apply String.eqb_eq in E2. apply Z.eqb_eq in E3.
      subst. exists l. split; [left; reflexivity | exact E].
    + intros H. destruct (IH H) as [l0 [H1 H2]]. exists l0. split; [right; exact H1 | exact H2].
  - intros H. destruct (IH H) as [l0 [H1 H2]]. exists l0. split; [right; exact H1 | exact H2].
Qed.

Lemma pget_ident letters l : In l letters -> pget (ident_perm letters) l = Some l.
Proof.
  unfold pget, ident_perm. induction letters as [|a letters IH]; simpl; [intros []|].
  intros [->|H].
  - rewrite String.eqb_refl. reflexivity.
  - destruct (String.eqb a l) eqn:E; [apply String.eqb_eq in E; subst; reflexivity | apply IH; exact H].
Qed.

Lemma insert_by_ext {A} (f g : A -> A -> bool) : (forall a b, f a b = g a b) -> forall x l, insert_by f x l = insert_by g x l.
Proof. intros H x l. induction l as [|a l IH]; simpl; [reflexivity|]. rewrite H, IH. reflexivity. Qed.
Lemma sort_by_ext {A} (f g : A -> A -> bool) : (forall a b, f a b = g a b) -> forall l, sort_by f l = sort_by g l.
Proof. intros H l. induction l as [|a l IH]; simpl; [reflexivity|]. rewrite IH. apply insert_by_ext. exact H. Qed.

Lemma map_fst_combine' {A B} (l : list A) (l' : list B) : List.length l = List.length l' -> map fst (combine l l') = l.
Proof. revert l'. induction l as [|a l IH]; intros [|b l'] H; simpl in *; try discriminate; [reflexivity|]. f_equal. apply IH. lia. Qed.
Lemma map_snd_combine' {A B} (l : list A) (l' : list B) : List.length l = List.length l' -> map snd (combine l l') = l'.
Proof. revert l'. induction l as [|a l IH]; intros [|b l'] H; simpl in *; try discriminate; [reflexivity|]. f_equal. apply IH. lia. Qed.

Section Invariance.
Variable gl : list string.                 (* the Wyckoff letters of the space group *)
Variable table : list perm.                (* the tabulated letter permutations *)
Hypothesis table_ne : table <> [].
Hypothesis code_inj : forall a b, In a gl -> In b gl -> letter_code a = letter_code b -> a = b.
Definition idfull : perm := ident_perm gl.
Definition P : list perm := idfull :: table.
Definition pbind (p : perm) (g : string -> option string) (l : string) : option string :=
  match pget p l with Some m => g m | None => None end.
Hypothesis P_total : forall p l, In p table -> In l gl -> exists l', pget p l = Some l' /\ In l' gl.
Hypothesis P_images : forall p, In p table -> forall l, In l (map snd p) <-> In l gl.
Hypothesis P_closed : forall p q, In p P -> In q P ->
  exists r, In r P /\ forall l, In l gl -> pget r l = pbind p (pget q) l.
Hypothesis P_inverse : forall p, In p P ->
  exists q, In q P /\ (forall l, In l gl -> pbind p (pget q) l = Some l).

Lemma P_total' p l : In p P -> In l gl -> exists l', pget p l = Some l' /\ In l' gl.
Proof.
  intros [<-|Hp] Hl; [exists l; split; [apply pget_ident; exact Hl | exact Hl] | apply P_total; assumption].
Qed.

(* candidates of one run versus the permutation group P, as functions on the letters present *)
Lemma cand_to_P letters c : incl letters gl -> In c (candidates letters table) ->
  exists s, In s P /\ forall l, In l letters -> pget (c_perm c) l = pget s l.
Proof.
  intros Hi [<-|Hc].
  - exists idfull. split; [left; reflexivity|]. intros l Hl. simpl.
    rewrite pget_ident by exact Hl. unfold idfull. rewrite pget_ident by (apply Hi; exact Hl). reflexivity.
  - apply in_map_iff in Hc. destruct Hc as [[i p] [<- Hip]]. apply in_combine_r in Hip.
    exists p. split; [right; exact Hip | reflexivity].
Qed.
Lemma P_to_cand letters s : incl letters gl -> In s P ->
  exists c, In c (candidates letters table) /\ forall l, In l letters -> pget (c_perm c) l = pget s l.
Proof.
  intros Hi [<-|Hs].
  - eexists. split; [left; reflexivity|]. intros l Hl. simpl.
    rewrite pget_ident by exact Hl. unfold idfull. rewrite pget_ident by (apply Hi; exact Hl). reflexivity.
  - destruct (In_nth _ _ [] Hs) as [i [Hi' Hn]].
    exists (mkCand s false (S i)). split; [|reflexivity]. right. apply in_map_iff. exists (i, s). split; [reflexivity|].
    rewrite <- Hn.
    assert (Hc : nth i (combine (seq 0 (List.length table)) table) (0, []) = (i, nth i table [])).
    { rewrite combine_nth by (rewrite seq_length; reflexivity). rewrite seq_nth by exact Hi'. reflexivity. }
    assert (Hin : In (nth i (combine (seq 0 (List.length table)) table) (0, [])) (combine (seq 0 (List.length table)) table)).
    { apply nth_In. rewrite combine_length, seq_length. rewrite Nat.min_id. exact Hi'. }
    rewrite Hc in Hin. exact Hin.
Qed.

(* the set of image letters is the same for every run *)
Lemma key_letters_eq letters letters' :
  incl letters gl -> incl letters' gl ->
  key_letters (candidates letters table) = key_letters (candidates letters' table).
Proof.
  intros H1 H2. unfold key_letters, sorted_letters.
  assert (Hset : forall lt, incl lt gl -> forall x, In x (flat_map (fun c => map snd (c_perm c)) (candidates lt table)) <-> In x gl).
  { intros lt Hlt x. rewrite in_flat_map. split.
    - intros [c [Hc Hx]]. destruct Hc as [<-|Hc].
      + simpl in Hx. unfold ident_perm in Hx. rewrite map_map in Hx. simpl in Hx. rewrite map_id in Hx. apply Hlt. exact Hx.
      + apply in_map_iff in Hc. destruct Hc as [[i p] [<- Hip]]. apply in_combine_r in Hip. simpl in Hx.
        apply (P_images p Hip). exact Hx.
    - intros Hx. destruct table as [|p0 t'] eqn:Et; [congruence|].
      exists (mkCand p0 false 1). split.
      + right. simpl. left. reflexivity.
      + simpl. apply (P_images p0); [first [rewrite Et; left; reflexivity | left; reflexivity] | exact Hx]. }
  set (f1 := fun a b : string => letter_code a <=? letter_code b).
  set (f2 := SortCanon.leb string (fun s => Z.of_nat (letter_code s))).
  assert (Hext : forall a b, f1 a b = f2 a b).
  { intros a b. unfold f1, f2, SortCanon.leb. destruct (letter_code a <=? letter_code b) eqn:E.
    - apply Nat.leb_le in E. symmetry. apply Z.leb_le. lia.
    - apply Nat.leb_gt in E. symmetry. apply Z.leb_gt. lia. }
  rewrite !(sort_by_ext f1 f2 Hext).
  apply (sort_dedup_canonical string (fun s => Z.of_nat (letter_code s)) String.eqb String.eqb_eq).
  - intros a b Ha Hb Hab. apply code_inj; [destruct Ha as [Ha|Ha]; [apply (Hset letters H1)|apply (Hset letters' H2)]; exact Ha
                                          | destruct Hb as [Hb|Hb]; [apply (Hset letters H1)|apply (Hset letters' H2)]; exact Hb | lia].
  - intros x. rewrite (Hset letters H1), (Hset letters' H2). tauto.
Qed.

Lemma sorted_numbers_eq (n1 n2 : list Z) : (forall x, In x n1 <-> In x n2) -> sorted_numbers n1 = sorted_numbers n2.
Proof.
  intros H. unfold sorted_numbers.
  apply (sort_dedup_canonical Z (fun z => z) Z.eqb Z.eqb_eq); [intros a b _ _ E; exact E | exact H].
Qed.

Definition hat (p : perm) (l : string) : string := match pget p l with Some x => x | None => l end.

Theorem ground_state_invariant letters numbers letters' numbers' pi c c' :
  In pi P -> incl letters gl ->
  List.length letters = List.length numbers -> List.length letters' = List.length numbers' ->
  Permutation (combine letters' numbers') (map (fun lz => (hat pi (fst lz), snd lz)) (combine letters numbers)) ->
  ground_state letters numbers table = Chosen c ->
  ground_state letters' numbers' table = Chosen c' ->
  forall w z, count (c_perm c') (combine letters' numbers') w z = count (c_perm c) (combine letters numbers) w z.
Proof.
  intros Hpi Hinc Hlen Hlen' Hperm Hc Hc' w z.
  set (atoms := combine letters numbers) in *. set (atoms' := combine letters' numbers') in *.
  (* letters of both runs lie in gl and are related by pi *)
  assert (Hl_atoms : forall lz, In lz atoms -> In (fst lz) letters).
  { intros [l z0] H. apply in_combine_l in H. exact H. }
  assert (Hfst : map fst atoms = letters).
  { apply map_fst_combine'. exact Hlen. }
  assert (Hfst' : map fst atoms' = letters').
  { apply map_fst_combine'. exact Hlen'. }
  assert (Hsnd : map snd atoms = numbers).
  { apply map_snd_combine'. exact Hlen. }
  assert (Hsnd' : map snd atoms' = numbers').
  { apply map_snd_combine'. exact Hlen'. }
  assert (Hhat_gl : forall l, In l gl -> In (hat pi l) gl /\ pget pi l = Some (hat pi l)).
  { intros l Hl. destruct (P_total' pi l Hpi Hl) as [l' [E Hl']]. unfold hat. rewrite E. split; [exact Hl' | reflexivity]. }
  assert (Hinc' : incl letters' gl).
  { intros l Hl. rewrite <- Hfst' in Hl. apply in_map_iff in Hl. destruct Hl as [[l0 z0] [<- Hin]].
    apply (Permutation_in _ Hperm) in Hin. apply in_map_iff in Hin. destruct Hin as [[l1 z1] [E Hin1]].
    injection E as E1 E2. simpl in E1, E2. subst l0 z0. simpl. apply Hhat_gl. apply Hinc. apply (Hl_atoms _ Hin1). }
  assert (Hnums : forall x, In x numbers <-> In x numbers').
  { intros x. rewrite <- Hsnd, <- Hsnd'. split; intros H; apply in_map_iff in H; destruct H as [[l0 z0] [<- Hin]]; simpl.
    - assert (Hin2 : In (hat pi l0, z0) (map (fun lz => (hat pi (fst lz), snd lz)) atoms)) by (apply in_map_iff; exists (l0, z0); auto).
      apply (Permutation_in _ (Permutation_sym Hperm)) in Hin2. apply in_map_iff. exists (hat pi l0, z0). auto.
    - apply (Permutation_in _ Hperm) in Hin. apply in_map_iff in Hin. destruct Hin as [[l1 z1] [E Hin1]]. injection E as E1 E2. simpl in E1, E2. subst l0 z0.
      apply in_map_iff. exists (l1, z1). auto. }
  (* both runs use the same key list *)
  set (cs := candidates letters table) in *. set (cs' := candidates letters' table) in *.
  set (ks := keys (key_letters cs) (sorted_numbers numbers)).
  assert (Hks : keys (key_letters cs') (sorted_numbers numbers') = ks).
  { unfold ks, cs, cs'. rewrite (key_letters_eq letters' letters Hinc' Hinc). rewrite (sorted_numbers_eq numbers' numbers); [reflexivity|].
    intros x. symmetry. apply Hnums. }
  destruct (ground_state_total letters numbers table) as [c0 [E0 [_ Hsel]]]. rewrite Hc in E0. inversion E0; subst c0.
  destruct (ground_state_total letters' numbers' table) as [c0 [E0' [_ Hsel']]]. rewrite Hc' in E0'. inversion E0'; subst c0.
  specialize (Hsel table_ne). specialize (Hsel' table_ne). fold atoms cs in Hsel. fold atoms' cs' in Hsel'. rewrite Hks in Hsel'. fold ks in Hsel.
  (* transport both selections to functions string -> option string counted on `atoms` *)
  set (vec1 := fun (g : string -> option string) (k : string * Z) => countf g atoms (fst k) (snd k)).
  set (g1 := fun c : cand => pget (c_perm c)).
  set (g2 := fun c : cand => fun l => pget (c_perm c) (hat pi l)).
  assert (Hg1 : forall a k, vec1 (g1 a) k = vecc atoms a k) by reflexivity.
  assert (Hg2 : forall a k, vec1 (g2 a) k = vecc atoms' a k).
  { intros a k. unfold vec1, g2, vecc. rewrite count_countf.
    rewrite (countf_perm _ atoms' _ _ _ Hperm). rewrite countf_map. reflexivity. }
  pose proof (select_map cand (string -> option string) (string * Z) (vecc atoms) vec1 g1 Hg1 ks cs) as M1.
  pose proof (select_map cand (string -> option string) (string * Z) (vecc atoms') vec1 g2 Hg2 ks cs') as M2.
  (* mutual simulation of the two transported candidate lists *)
  assert (S12 : sim _ _ vec1 (map g1 cs) (map g2 cs')).
  { intros a Ha. apply in_map_iff in Ha. destruct Ha as [c1 [<- Hc1]].
    destruct (cand_to_P letters c1 Hinc Hc1) as [s1 [Hs1 Es1]].
    destruct (P_inverse pi Hpi) as [qi [Hqi Einv]].
    destruct (P_closed qi s1 Hqi Hs1) as [s2 [Hs2 Es2]].
    destruct (P_to_cand letters' s2 Hinc' Hs2) as [c2 [Hc2 Ec2]].
    exists (g2 c2). split; [apply in_map; exact Hc2|]. intros k. unfold vec1. apply countf_ext_on.
    intros [l z0] Hin. simpl. unfold g1, g2. pose proof (Hl_atoms _ Hin) as Hl. simpl in Hl.
    assert (Hlgl : In l gl) by (apply Hinc; exact Hl).
    destruct (Hhat_gl l Hlgl) as [Hh Eh].
    assert (Hl' : In (hat pi l) letters').
    { rewrite <- Hfst'. assert (Hin2 : In (hat pi l, z0) (map (fun lz => (hat pi (fst lz), snd lz)) atoms)) by (apply in_map_iff; exists (l, z0); auto).
      apply (Permutation_in _ (Permutation_sym Hperm)) in Hin2. apply in_map_iff. exists (hat pi l, z0). auto. }
    rewrite (Es1 l Hl), (Ec2 _ Hl'), (Es2 _ Hh). unfold pbind.
    pose proof (Einv l Hlgl) as Ei. unfold pbind in Ei. rewrite Eh in Ei. rewrite Ei. reflexivity. }
  assert (S21 : sim _ _ vec1 (map g2 cs') (map g1 cs)).
  { intros a Ha. apply in_map_iff in Ha. destruct Ha as [c2 [<- Hc2]].
    destruct (cand_to_P letters' c2 Hinc' Hc2) as [s2 [Hs2 Es2]].
    destruct (P_closed pi s2 Hpi Hs2) as [s1 [Hs1 Es1]].
    destruct (P_to_cand letters s1 Hinc Hs1) as [c1 [Hc1 Ec1]].
    exists (g1 c1). split; [apply in_map; exact Hc1|]. intros k. unfold vec1. apply countf_ext_on.
    intros [l z0] Hin. simpl. unfold g1, g2. pose proof (Hl_atoms _ Hin) as Hl. simpl in Hl.
    assert (Hlgl : In l gl) by (apply Hinc; exact Hl).
    destruct (Hhat_gl l Hlgl) as [Hh Eh].
    assert (Hl' : In (hat pi l) letters').
    { rewrite <- Hfst'. assert (Hin2 : In (hat pi l, z0) (map (fun lz => (hat pi (fst lz), snd lz)) atoms)) by (apply in_map_iff; exists (l, z0); auto).
      apply (Permutation_in _ (Permutation_sym Hperm)) in Hin2. apply in_map_iff. exists (hat pi l, z0). auto. }
    rewrite (Es2 _ Hl'), (Ec1 l Hl), (Es1 l Hlgl). unfold pbind. rewrite Eh. reflexivity. }
  assert (Hagree : forall k, In k ks -> vecc atoms c k = vecc atoms' c' k).
  { intros k Hk. rewrite <- Hg1, <- Hg2.
    apply (select_agree _ _ vec1 ks (map g1 cs) (map g2 cs') S12 S21); [rewrite M1; apply in_map; exact Hsel | rewrite M2; apply in_map; exact Hsel' | exact Hk]. }
  (* outside the key list both counts vanish *)
  destruct (in_dec (fun a b : string * Z => ltac:(decide equality; [apply Z.eq_dec | apply string_dec])) (w, z) ks) as [Hin|Hnin].
  - symmetry. exact (Hagree (w, z) Hin).
  - assert (Hzero : forall lt ns cc, incl lt gl -> List.length lt = List.length ns ->
                     keys (key_letters (candidates lt table)) (sorted_numbers ns) = ks ->
                     In cc (candidates lt table) -> count (c_perm cc) (combine lt ns) w z = 0).
    { intros lt ns cc Hlt Hln Hk Hcc. destruct (Nat.eq_dec (count (c_perm cc) (combine lt ns) w z) 0) as [E|E]; [exact E|].
      exfalso. apply Hnin. rewrite <- Hk. rewrite count_countf in E. destruct (countf_pos _ _ _ _ E) as [l [Hl Hg]].
      unfold keys. apply in_flat_map. exists w. split.
      - unfold key_letters, sorted_letters. unfold sort_by.
        assert (Hs : forall (l0 : list string) x, In x (fold_right (insert_by (fun a b => letter_code a <=? letter_code b)) [] l0) <-> In x l0).
        { clear. induction l0 as [|a l0 IH]; simpl; [tauto|]. intros x.
          assert (Hi : forall l1, In x (insert_by (fun a b => letter_code a <=? letter_code b) a l1) <-> x = a \/ In x l1).
          { induction l1 as [|b l1 IH1]; simpl; [intuition|]. destruct (letter_code a <=? letter_code b); simpl; [intuition|]. rewrite IH1. intuition. }
          rewrite Hi, IH. intuition. }
        apply Hs. apply (dedup_In string (fun _ => 0%Z) String.eqb String.eqb_eq). apply in_flat_map. exists cc. split; [exact Hcc|].
        unfold pget in Hg. destruct (find (fun kv => String.eqb (fst kv) l) (c_perm cc)) as [kv|] eqn:Ef; [|discriminate].
        injection Hg as Hg. rewrite <- Hg. apply find_some in Ef. apply in_map. exact (proj1 Ef).
      - apply in_map. unfold sorted_numbers, sort_by.
        assert (Hs : forall (l0 : list Z) x, In x (fold_right (insert_by Z.leb) [] l0) <-> In x l0).
        { clear. induction l0 as [|a l0 IH]; simpl; [tauto|]. intros x.
          assert (Hi : forall l1, In x (insert_by Z.leb a l1) <-> x = a \/ In x l1).
          { induction l1 as [|b l1 IH1]; simpl; [intuition|]. destruct (Z.leb a b); simpl; [intuition|]. rewrite IH1. intuition. }
          rewrite Hi, IH. intuition. }
        apply Hs. apply (dedup_In Z (fun z => z) Z.eqb Z.eqb_eq). apply in_combine_r in Hl. exact Hl. }
    unfold atoms, atoms'. rewrite (Hzero letters' numbers' c' Hinc' Hlen' Hks (select_incl _ _ _ _ _ _ Hsel')).
    rewrite (Hzero letters numbers c Hinc Hlen eq_refl (select_incl _ _ _ _ _ _ Hsel)). reflexivity.
Qed.
End Invariance.
